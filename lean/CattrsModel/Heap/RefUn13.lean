import CattrsModel.Heap.RefUn12
/-!
# Refinement of the unstructure hooks, part 13: the patch list computes `unTD` (`TDOK`); the theorem `run_ref_un`
-/
namespace CattrsModel.Heap
open CattrsModel

theorem isIdF_sound {w : World} {hc : HCfg} {n : Nat} {f : Field} (h : isIdF w hc n f = true) {v : Obj}
    (hcf : ∀ t, f.ty = some t → conf w t v = true) (hok : OKU w v = true) : fieldUn w hc.cfg.core f v = v := by
  obtain ⟨nm, al, ty, df, ini, rq⟩ := f
  cases ty with
  | none => simp [isIdF] at h
  | some t => exact isIdUn_sound w hc n t v h (hcf t rfl) hok

/-- the patches, run on the copy `cur`, compute what `unTD` does for these fields -/
theorem td_patchPure (w : World) (hc : HCfg) (hovr : hc.ovr = []) (n c : Nat) {k0 : Nat} {cs : List Cell}
    {kvs : List (HVal × HVal)} {kvsO : List (Obj × Obj)} (hden : denoteKV cs k0 kvs = some kvsO)
    (hok : OKUKV w kvsO = true) :
    ∀ (fds : List Field) (cur z : List (Obj × Obj)), (fds.map (·.name)).Nodup → confTD w fds kvsO = true →
      nodupPy (keysOf cur) = true → (∀ f, f ∈ fds → dlookup cur (.str f.name) = dlookup kvsO (.str f.name)) →
      patchPure w hc.cfg.core (denote cs k0) (tdUnPatches w hc n c kvs fds).1 cur = some z →
      z = cur.map (updV w hc.cfg.core fds)
  | [], cur, z, _, _, _, _, hp => by
    simp only [tdUnPatches, patchPure, Option.some.injEq] at hp
    rw [updV_nil]; exact hp.symm
  | f :: fds, cur, z, hnd, hcf, hnc, hI, hp => by
    obtain ⟨hcf1, hcf2⟩ := confTD_cons hcf
    simp only [List.map_cons, List.nodup_cons] at hnd
    have hI' : ∀ f', f' ∈ fds → dlookup cur (.str f'.name) = dlookup kvsO (.str f'.name) :=
      fun f' hf' => hI f' (List.mem_cons_of_mem _ hf')
    have hIf := hI f (List.mem_cons_self ..)
    -- an entry of `cur` under the key of `f` holds the original value, which conforms
    have hentry : ∀ kv, kv ∈ cur → Obj.pyEq f.key kv.1 = true →
        (∀ t, f.ty = some t → conf w t kv.2 = true) ∧ OKU w kv.2 = true ∧ dlookup kvsO (.str f.name) = some kv.2 := by
      intro kv hkv hpk
      obtain ⟨k, v⟩ := kv
      have hk : k = .str f.name := pyEq_str_left hpk
      subst hk
      have h1 : dlookup kvsO (.str f.name) = some v := by rw [← hIf]; exact dlookup_of_mem hnc hkv
      obtain ⟨k', hk'⟩ := dlookup_mem h1
      exact ⟨fun t ht => hcf2 v h1 t ht, OKUKV_mem hok hk', h1⟩
    cases hid : isIdF w hc n f with
    | true =>
      rw [td_cons_id w hc hovr n c kvs fds hid] at hp
      rw [td_patchPure w hc hovr n c hden hok fds cur z hnd.2 hcf1 hnc hI' hp]
      exact (map_updV_skip hnd.1 (fun kv hkv hpk =>
        isIdF_sound hid (hentry kv hkv hpk).1 (hentry kv hkv hpk).2.1)).symm
    | false =>
      cases hl : lookupS kvs f.name with
      | none =>
        rw [td_cons_none w hc hovr n c kvs fds hid hl] at hp
        simp only [patchPure] at hp
        rw [td_patchPure w hc hovr n c hden hok fds cur z hnd.2 hcf1 hnc hI' hp]
        refine (map_updV_skip hnd.1 (fun kv hkv hpk => ?_)).symm
        exfalso
        have h1 := (hentry kv hkv hpk).2.2
        rw [(lookupS_den f.name kvs kvsO hden).2 hl] at h1
        cases h1
      | some x =>
        rw [td_cons_some w hc hovr n c kvs fds hid hl] at hp
        obtain ⟨o0, hdl, hdx⟩ := (lookupS_den f.name kvs kvsO hden).1 x hl
        simp only [patchPure, hdx, callPure_fieldU] at hp
        have hcur : dlookup cur (.str f.name) = some o0 := by rw [hIf]; exact hdl
        have hnc' : nodupPy (keysOf (dictSet cur (.str f.name) (fieldUn w hc.cfg.core f o0))) = true := by
          rw [keysOf_dictSet hcur]; exact hnc
        have hI'' : ∀ f', f' ∈ fds → dlookup (dictSet cur (.str f.name) (fieldUn w hc.cfg.core f o0)) (.str f'.name)
            = dlookup kvsO (.str f'.name) := by
          intro f' hf'
          have hne : f.name ≠ f'.name := fun e => hnd.1 (by rw [e]; exact List.mem_map.2 ⟨f', hf', rfl⟩)
          rw [dlookup_dictSet_ne hne]; exact hI' f' hf'
        rw [td_patchPure w hc hovr n c hden hok fds _ z hnd.2 hcf1 hnc' hI'' hp]
        exact map_updV_set hnd.1 rfl cur hnc hcur

theorem tdOK (w : World) (hc : HCfg) (hovr : hc.ovr = []) (hw : WorldOK w) (b n : Nat) : TDOK w hc b n := by
  intro c cs k0 kvs kvsO hden hcf hnd hok hch
  refine ⟨td_patchesOK w hc hovr n c hden hok hch (w.fields c) hcf, fun z hz => ?_⟩
  rw [unTD_eq_map]
  exact td_patchPure w hc hovr n c hden hok (w.fields c) kvsO z (hw c) hcf hnd (fun _ _ => rfl) hz

/-- **The unstructure hooks compute the pure model `un` / `unAny`.**  For every fuel, the interpreter
`run w hc (K+1)` refines `callPure` on the calls `.un t` (argument conforms to `t`), `.unAny`, `.pass`, for old,
proper arguments that read — within `k ≤ K` hops — as an `OKU` object: a returned value reads, within the same `k`
hops of the final store, as `un w hc.cfg.core t o` (resp. `unAny …`, `o`).  Nothing is claimed when the hook raises
(`tot := fun _ => False`): the pure `un` is total, the hook raises `TypeError: unhashable` (finding F10), `KeyError`
on a missing required TypedDict key never arises under `conf`, and fuel exhaustion is an exception too. -/
theorem run_ref_un (w : World) (hc : HCfg) (hovr : hc.ovr = []) (hw : WorldOK w) (b : Nat) :
    ∀ K, RecRef w hc.cfg.core b 0 K (okcUn w hc) (fun _ => False) (run w hc (K + 1)) :=
  run_ref_un_of w hc hovr hw b (idOK w hc) (tdOK w hc hovr hw b)

/-! ### non-vacuity: a generated TypedDict hook with a non-identity field, run on a concrete store -/

def exW : World := { classes := [{ kind := .typeddict, frozen := false, fields :=
  [⟨"a", "a", some (.coll .tupleHomo .int), .none, true, true⟩] }], enums := [] }
def exHc : HCfg := { cfg := { gen := true, tupleStrat := false, detailed := false, forbid := false }, ovr := [] }
/-- `{'a': (1, 2)}` at location 1 -/
def exSt : St := { cells := [.coll .tuple [.leaf (.int 1), .leaf (.int 2)], .dict [(.leaf (.str "a"), .ref 0)]] }
def exO : Obj := .dict [(.str "a", .coll .tuple [.int 1, .int 2])]

theorem exW_ok : WorldOK exW := by
  intro c
  match c with
  | 0 => decide
  | c + 1 => simp [exW, World.fields]

/-- every hypothesis of `run_ref_un` holds, the hook returns, and what it returns reads as `{'a': [1, 2]}` -/
example : ∃ r, (run exW exHc 3 (.un (.td 0)) (.ref 1) exSt).1 = some r ∧
    denote (run exW exHc 3 (.un (.td 0)) (.ref 1) exSt).2.cells 2 r
      = some (.dict [(.str "a", .coll .list [.int 1, .int 2])]) := by
  have g : Good exSt.cells.length exSt := Good.of_wf (by decide) (by decide)
  have hden : denote exSt.cells 2 (.ref 1) = some exO := by simp [exSt, exO, denote, denoteKV, denoteL]
  have hcf : conf exW (.td 0) exO = true := by
    simp [exW, exO, conf, confTD, confL, World.fields, Field.key, dlookup, Obj.pyEq, Obj.num2?, SK.structTo, CK.isSet]
  have hoku : OKU exW exO = true := by decide
  have h := run_ref_un exW exHc rfl exW_ok 2 2 (.un (.td 0)) (.ref 1) exSt 2 exO g (show (1 : Nat) < 2 by decide) (Proper.ref 1) hden
    (Nat.le_refl _) ⟨hcf, hoku⟩
  have hret : (run exW exHc 3 (.un (.td 0)) (.ref 1) exSt).1 = some (.ref 2) := by decide
  obtain ⟨y, hy, hd⟩ := h.1 (.ref 2) hret
  refine ⟨.ref 2, hret, ?_⟩
  have hun : un exW exHc.cfg.core (.td 0) exO = .dict [(.str "a", .coll .list [.int 1, .int 2])] := by
    simp [exW, exHc, exO, Cfg.core, un, unTD, unL, findField, World.fields, Field.key, Obj.pyEq, Obj.num2?, mkColl,
      SK.unstructTo, CK.isSet]
  simp only [callPure, Option.some.injEq] at hy
  rw [← hun, hy]
  exact hd

end CattrsModel.Heap

#print axioms CattrsModel.Heap.run_ref_un
