import CattrsModel.Heap.TaggedCFrame
import CattrsModel.Heap.DenoteStable
/-!
# On mappings / instances the abstract tagged-union programs (`runTagged`) and the concrete closures (`runTaggedC`) agree
-/
namespace CattrsModel.Heap
open CattrsModel

theorem denote_ref_not_str (cs : List Cell) (n : Nat) (l : Loc) (o : Obj) (s : String)
    (h : denote cs n (.ref l) = some o) : o ≠ .str s := by
  cases n with
  | zero => simp [denote] at h
  | succ n =>
    simp only [denote] at h
    cases hc : cs[l]? with
    | none => simp [hc] at h
    | some c =>
      cases c <;> simp only [hc, Option.map_eq_some_iff, Option.some.injEq] at h
      all_goals first
        | (obtain ⟨_, _, rfl⟩ := h; intro h'; cases h')
        | (subst h; intro h'; cases h')

/-- looking the tag up in the denoted payload = denoting what is stored under the tag key -/
theorem find_denoteKV (cs : List Cell) (m : Nat) (name : String) : ∀ (kvs : List (HVal × HVal)) (okvs : List (Obj × Obj)),
    denoteKV cs m kvs = some okvs →
    (okvs.find? (fun kv => kv.1 == Obj.str name)).map (·.2) = (lookupS kvs name).bind (denote cs m)
  | [], okvs, h => by
    simp only [denoteKV, Option.some.injEq] at h
    subst h
    simp [lookupS]
  | (k, v) :: rest, okvs, h => by
    simp only [denoteKV] at h
    cases hk : denote cs m k with
    | none => simp [hk] at h
    | some a =>
      cases hv : denote cs m v with
      | none => simp [hk, hv] at h
      | some bb =>
        cases hr : denoteKV cs m rest with
        | none => simp [hk, hv, hr] at h
        | some r =>
          simp only [hk, hv, hr, Option.some.injEq] at h
          subst h
          have ih := find_denoteKV cs m name rest r hr
          have hkey : (a == Obj.str name) = keyIs k name := by
            cases k with
            | leaf o =>
              rw [denote_leaf] at hk
              cases hk
              unfold keyIs
              rw [Bool.eq_iff_iff, beq_iff_eq, beq_iff_eq]
              exact ⟨fun h => by rw [h], fun h => by cases h; rfl⟩
            | ref l =>
              have := denote_ref_not_str cs m l a name hk
              have h1 : (a == Obj.str name) = false := beq_eq_false_iff_ne.2 this
              have h2 : (HVal.ref l == HVal.leaf (Obj.str name)) = false :=
                beq_eq_false_iff_ne.2 (fun h => by cases h)
              unfold keyIs
              rw [h1, h2]
          simp only [List.find?, lookupS, hkey]
          cases keyIs k name <;> simp [ih, hv]

/-- the container `buildLoc` returns is the content of the cell it allocated -/
theorem buildLoc_cell (w : World) (fuel : Nat) (rec : Rec) (det doomed : Bool) (sh : Shape)
    (tasks : List (Call × HVal)) (st st' : St) (l : Loc) (c : Cell)
    (h : buildLoc w fuel rec det doomed sh tasks st = (some (l, c), st')) : st'.cells[l]? = some c := by
  unfold buildLoc Heap.bind at h
  cases hrt : runTasks rec det tasks st with
  | mk r st1 =>
    rw [hrt] at h
    cases r with
    | none => simp at h
    | some ys =>
      simp only [] at h
      cases doomed with
      | true => simp [Heap.raise] at h
      | false =>
        simp only [Bool.false_eq_true, if_false] at h
        have hst := assemble_state w fuel sh ys st1
        cases has : assemble w fuel sh ys st1 with
        | mk r2 st2 =>
          rw [has] at h hst
          simp only at hst
          subst hst
          cases r2 with
          | none => simp at h
          | some c2 =>
            simp only [alloc, Heap.ret, Prod.mk.injEq, Option.some.injEq] at h
            obtain ⟨⟨rfl, rfl⟩, rfl⟩ := h
            simp

/-- **unstructure**: on an instance the concrete closure (member hook, then a write into the returned cell) and the
abstract program `tagInsert` compute the same result and the same store -/
theorem runTaggedC_eq_un (w : World) (hc : HCfg) (n : Nat) (tg : Tagged) (v : HVal) (st : St) (c : Nat)
    (fs : List (String × HVal)) (hview : viewOf st v = some (.inst c fs)) :
    runTaggedC w hc (n + 1) tg false v st = runTagged w hc n tg false v st := by
  simp only [runTaggedC, runTagged, Bool.false_eq_true, if_false, runTaggedUnC, Heap.bind, viewM, hview, planTaggedUn]
  cases tg.tagOf c with
  | none => simp only [exec]
  | some tag =>
    have hrun : run w hc (n + 1) (.un (.cls c)) v st
        = exec w n (run w hc n) (planClsUn w hc.cfg c fs) st := by
      simp only [run, plan, hview, planUn_cls_inst]
    simp only [Heap.bind]
    rw [hrun]
    obtain ⟨sh, tasks, he⟩ := planClsUn_build w hc.cfg c fs
    rw [he]
    simp only [toTagInsert, exec, Heap.bind]
    cases hb : buildLoc w n (run w hc n) false false sh tasks st with
    | mk r st' =>
      cases r with
      | none => rfl
      | some lc =>
        obtain ⟨l, cell⟩ := lc
        have hcell := buildLoc_cell w n (run w hc n) false false sh tasks st st' l cell hb
        simp only [Heap.ret, setTag, Heap.bind, readLoc, hcell]
        cases cell <;> rfl

/-! ### structure -/

/-- on a mapping the class structure hook looks neither at the argument value nor at its pure reading -/
theorem planClsSt_dict (w : World) (cfg : Cfg) (c : Nat) (v v' : HVal) (kvs : List (HVal × HVal)) (obj obj' : Option Obj) :
    planClsSt w cfg c v (some (.dict kvs)) obj = planClsSt w cfg c v' (some (.dict kvs)) obj' := by
  unfold planClsSt
  simp only [itemsOf]

theorem run_st_cls_dict (w : World) (hc : HCfg) (n c : Nat) (v : HVal) (st : St) (kvs : List (HVal × HVal))
    (v' : HVal) (obj' : Option Obj) (hview : viewOf st v = some (.dict kvs)) :
    run w hc (n + 1) (.st (.cls c)) v st
      = exec w n (run w hc n) (planClsSt w hc.cfg c v' (some (.dict kvs)) obj') st := by
  have h : run w hc (n + 1) (.st (.cls c)) v st
      = exec w n (run w hc n) (planClsSt w hc.cfg c v (viewOf st v) (denote st.cells n v)) st := by
    simp only [run, plan, planSt_cls]
  rw [h, hview, planClsSt_dict w hc.cfg c v v' kvs _ obj']

/-- the store after `val = val.copy(); val.pop(name)` -/
def popSt (st : St) (c0 c1 : List (HVal × HVal)) : St :=
  { st with cells := (st.cells ++ [Cell.dict c0]).set st.cells.length (Cell.dict c1), raw := st.cells.length :: st.raw }

theorem popSt_view (st : St) (c0 c1 : List (HVal × HVal)) :
    viewOf (popSt st c0 c1) (.ref st.cells.length) = some (.dict c1) := by
  simp [viewOf, popSt]

theorem exec_popCopy (w : World) (n : Nat) (rec : Rec) (c0 c1 : List (HVal × HVal)) (inner : Prog) (st : St) :
    exec w n rec (.popCopy c0 c1 inner) st = exec w n rec inner (popSt st c0 c1) := by
  simp [exec, Heap.bind, allocRaw, write, popSt]

theorem copyPopCall_some (w : World) (hc : HCfg) (n : Nat) (tg : Tagged) (kvs : List (HVal × HVal)) (tv : HVal) (st : St)
    (hl : lookupS kvs tg.tagName = some tv) :
    copyPopCall w hc n tg (some (.dict kvs)) st
      = callMember w hc n tg tv (.ref st.cells.length) (popSt st kvs (dictDelS kvs tg.tagName)) := by
  simp [copyPopCall, hl, Heap.bind, allocRaw, write, popSt]

theorem copyPopCall_none (w : World) (hc : HCfg) (n : Nat) (tg : Tagged) (kvs : List (HVal × HVal)) (st : St)
    (hl : lookupS kvs tg.tagName = none) :
    copyPopCall w hc n tg (some (.dict kvs)) st = (none, popSt st kvs kvs) := by
  simp [copyPopCall, hl, Heap.bind, allocRaw, popSt, Heap.raise]

theorem tagObjM_eq (k : Nat) (tv : HVal) (st : St) : tagObjM k tv st = (some (denote st.cells k tv), st) := by
  cases tv with
  | leaf o => simp only [tagObjM, Heap.ret, denote_leaf]
  | ref l => rfl

theorem callMember_of_tag (w : World) (hc : HCfg) (n : Nat) (tg : Tagged) (tv : HVal) (t : Obj) (val : HVal) (st : St)
    (kvs : List (HVal × HVal)) (v' : HVal) (obj' : Option Obj) (hview : viewOf st val = some (.dict kvs))
    (ht : denote st.cells (n + 1) tv = some t) :
    callMember w hc (n + 1) tg tv val st
      = exec w n (run w hc n) (match tg.pick w (some t) with
          | some c => planClsSt w hc.cfg c v' (some (.dict kvs)) obj'
          | none => .fail) st := by
  simp only [callMember, Heap.bind, tagObjM_eq, ht]
  cases tg.pick w (some t) with
  | none => simp only [exec]
  | some c => exact run_st_cls_dict w hc n c val st kvs v' obj' hview

theorem popSt_extends (st : St) (c0 c1 : List (HVal × HVal)) : Extends st.cells (popSt st c0 c1).cells := by
  intro l c hc
  have hl : l < st.cells.length := (List.getElem?_eq_some_iff.1 hc).1
  have hne : st.cells.length ≠ l := Nat.ne_of_gt hl
  show ((st.cells ++ [Cell.dict c0]).set st.cells.length (Cell.dict c1))[l]? = some c
  rw [List.getElem?_set_ne hne, List.getElem?_append_left hl]
  exact hc

/-- **structure**: on a mapping whose pure reading exists at this fuel, the concrete closures (copy, pop, member hook
on the copy / lookup, member hook on the argument) and the abstract programs (`popCopy` with the inlined member hook /
the inlined member hook) compute the same result and the same store — including the position of the copy -/
theorem runTaggedC_eq_st (w : World) (hc : HCfg) (n : Nat) (tg : Tagged) (v : HVal) (st : St)
    (kvs : List (HVal × HVal)) (obj : Obj)
    (hview : viewOf st v = some (.dict kvs)) (hobj : denote st.cells n v = some obj) :
    runTaggedC w hc (n + 1) tg true v st = runTagged w hc n tg true v st := by
  -- the tag object: read from the pure payload (abstract) = read from the store, later and with more fuel (concrete)
  have hpick : ∀ tv, lookupS kvs tg.tagName = some tv → ∃ t, tagObjOf tg (denote st.cells n v) = some t ∧
      ∀ cs', Extends st.cells cs' → denote cs' (n + 1) tv = some t := by
    intro tv hl
    cases v with
    | leaf x => simp [viewOf] at hview
    | ref l =>
      have hcell : st.cells[l]? = some (.dict kvs) := hview
      cases n with
      | zero => simp [denote] at hobj
      | succ m =>
        simp only [denote, hcell] at hobj ⊢
        cases hd : denoteKV st.cells m kvs with
        | none => simp [hd] at hobj
        | some okvs =>
          obtain ⟨t, ht⟩ := denoteKV_lookup kvs okvs tv hd hl
          have := find_denoteKV st.cells m tg.tagName kvs okvs hd
          refine ⟨t, ?_, fun cs' hext => denote_stable hext m tv t ht _ (by omega)⟩
          simp only [Option.map_some, tagObjOf, this, hl, Option.bind_some, ht]
  simp only [runTaggedC, runTagged, if_true, runTaggedStC, Heap.bind, viewM, hview, planTaggedSt, tagIn]
  cases hl : lookupS kvs tg.tagName with
  | none =>
    simp only [Option.isSome_none, Bool.false_eq_true, if_false]
    cases tg.dflt with
    | none =>
      simp only []
      cases hf : (hc.cfg.gen && hc.cfg.forbid) with
      | true => simp only [if_true, copyPopCall_none w hc (n + 1) tg kvs st hl, exec_popCopy, exec]; rfl
      | false => simp only [Bool.false_eq_true, if_false, lookupCall, hl, exec]
    | some d =>
      simp only []
      exact run_st_cls_dict w hc n d v st kvs _ _ hview
  | some tv =>
    obtain ⟨t, hold, hnew⟩ := hpick tv hl
    simp only [Option.isSome_some, if_true, hold]
    have hcp : copyPopCall w hc (n + 1) tg (some (.dict kvs)) st
        = exec w n (run w hc n)
            (match tg.pick w (some t) with
              | some c => .popCopy kvs (dictDelS kvs tg.tagName)
                  (planClsSt w hc.cfg c (.leaf .none) (some (.dict (dictDelS kvs tg.tagName))) (denote st.cells n v))
              | none => .popCopy kvs (dictDelS kvs tg.tagName) .fail) st := by
      rw [copyPopCall_some w hc (n + 1) tg kvs _ st hl,
        callMember_of_tag w hc n tg tv t _ _ _ (.leaf .none) (denote st.cells n v) (popSt_view st kvs _)
          (hnew _ (popSt_extends st kvs _))]
      cases tg.pick w (some t) <;> simp only [exec_popCopy]
    have hlk : lookupCall w hc (n + 1) tg v (some (.dict kvs)) st
        = exec w n (run w hc n)
            (match tg.pick w (some t) with
              | some c => planClsSt w hc.cfg c (.leaf .none) (some (.dict kvs)) (denote st.cells n v)
              | none => .fail) st := by
      simp only [lookupCall, hl]
      exact callMember_of_tag w hc n tg tv t v st kvs (.leaf .none) (denote st.cells n v) hview
        (hnew _ (fun _ _ h => h))
    cases tg.dflt with
    | none =>
      simp only []
      cases hf : (hc.cfg.gen && hc.cfg.forbid) with
      | true => simp only [if_true]; exact hcp
      | false => simp only [Bool.false_eq_true, if_false]; exact hlk
    | some d =>
      simp only []
      cases hf : (hc.cfg.gen && hc.cfg.forbid) with
      | true => simp only [if_true]; exact hcp
      | false => simp only [Bool.false_eq_true, if_false]; exact hlk

/-! ### non-vacuity: the hypotheses of the two agreement theorems hold on the example stores of `TaggedCFrame` -/

example : viewOf tc_st (.ref 1)
      = some (.dict [(.leaf (.str "_type"), .leaf (.str "A")), (.leaf (.str "x"), .ref 0)]) ∧
    denote tc_st.cells 3 (.ref 1) = some (.dict [(.str "_type", .str "A"), (.str "x", .coll .list [.int 1])]) :=
  ⟨rfl, by simp [tc_st, denote, denoteKV, denoteL]⟩

example : viewOf tc_stUn (.ref 0) = some (.inst 0 [("x", .leaf (.int 1))]) := rfl

end CattrsModel.Heap
