import CattrsModel.Heap.Safe4
/-!
# `plan` only mentions the argument and the slot values of its cell, and never an unsafe program
-/
namespace CattrsModel.Heap
open CattrsModel

/-- where a value mentioned by a planned program comes from -/
def Src (v : HVal) (view : Option Cell) (x : HVal) : Prop :=
  x = v ∨ (∃ c, view = some c ∧ x ∈ c.children) ∨ ∃ o, x = .leaf o

def Planned (v : HVal) (view : Option Cell) (p : Prog) : Prop :=
  p.safe = true ∧ ∀ x, x ∈ p.vals → Src v view x

theorem Planned.ident (v : HVal) (view : Option Cell) : Planned v view (.ident v) :=
  ⟨rfl, fun x hx => by simp [Prog.vals] at hx; exact Or.inl hx⟩

theorem Planned.trivial {v view p} (hs : p.safe = true) (hv : p.vals = []) : Planned v view p :=
  ⟨hs, fun x hx => by rw [hv] at hx; simp at hx⟩

theorem Planned.build {v view} (det doomed : Bool) (sh : Shape) (tasks : List (Call × HVal))
    (h : ∀ x, x ∈ tasks.map (·.2) → Src v view x) : Planned v view (.build det doomed sh tasks) :=
  ⟨rfl, h⟩

theorem kvTasks_vals (kc vc : Call) : ∀ (kvs : List (HVal × HVal)) (x : HVal),
    x ∈ (kvTasks kc vc kvs).map (·.2) → x ∈ (Cell.dict kvs).children
  | [], x, h => by simp [kvTasks] at h
  | (k, v) :: rest, x, h => by
    simp only [kvTasks, List.map_cons, List.mem_cons] at h
    rcases h with rfl | rfl | h
    · exact mem_dict_children.2 ⟨(x, v), List.mem_cons_self .., Or.inl rfl⟩
    · exact mem_dict_children.2 ⟨(k, x), List.mem_cons_self .., Or.inr rfl⟩
    · obtain ⟨kv, hkv, hx⟩ := mem_dict_children.1 (kvTasks_vals kc vc rest x h)
      exact mem_dict_children.2 ⟨kv, List.mem_cons_of_mem _ hkv, hx⟩

theorem zipTasks_vals : ∀ (cs : List Call) (xs : List HVal) (x : HVal),
    x ∈ (zipTasks cs xs).map (·.2) → x ∈ xs
  | [], _, x, h => by simp [zipTasks] at h
  | _ :: _, [], x, h => by simp [zipTasks] at h
  | c :: cs, y :: ys, x, h => by
    simp only [zipTasks, List.map_cons, List.mem_cons] at h
    rcases h with rfl | h
    · exact List.mem_cons_self ..
    · exact List.mem_cons_of_mem _ (zipTasks_vals cs ys x h)

theorem mapTasks_vals (c : Call) (xs : List HVal) (x : HVal)
    (h : x ∈ List.map (fun t : Call × HVal => t.2) (List.map (fun y => (c, y)) xs)) : x ∈ xs := by
  simpa using h

theorem lookupS_mem : ∀ (kvs : List (HVal × HVal)) (s : String) (x : HVal),
    lookupS kvs s = some x → x ∈ (Cell.dict kvs).children
  | [], _, _, h => by simp [lookupS] at h
  | (k, v) :: rest, s, x, h => by
    simp only [lookupS] at h
    split at h
    · cases h
      exact mem_dict_children.2 ⟨(k, v), List.mem_cons_self .., Or.inr rfl⟩
    · obtain ⟨kv, hkv, hx⟩ := mem_dict_children.1 (lookupS_mem rest s x h)
      exact mem_dict_children.2 ⟨kv, List.mem_cons_of_mem _ hkv, hx⟩

def LeafOr (S : HVal → Prop) (x : HVal) : Prop := (∃ o, x = .leaf o) ∨ S x

theorem clsUnTasks_vals (cfg : Cfg) : ∀ (fds : List Field) (fs : List (String × HVal)) (x : HVal),
    x ∈ (clsUnTasks cfg fds fs).map (·.2) → LeafOr (fun z => z ∈ fs.map (fun p => p.2)) x
  | [], _, x, h => by simp [clsUnTasks] at h
  | _ :: _, [], x, h => by simp [clsUnTasks] at h
  | f :: fds, (s, y) :: rest, x, h => by
    have ih := clsUnTasks_vals cfg fds rest x
    simp only [clsUnTasks] at h
    split at h
    · simp only [List.map_cons, List.mem_cons] at h
      rcases h with rfl | rfl | h
      · exact Or.inl ⟨_, rfl⟩
      · exact Or.inr (by simp)
      · exact (ih h).imp id (fun h' => List.mem_cons_of_mem _ h')
    · exact (ih h).imp id (fun h' => List.mem_cons_of_mem _ h')

theorem clsUnTasksT_vals : ∀ (fds : List Field) (fs : List (String × HVal)) (x : HVal),
    x ∈ (clsUnTasksT fds fs).map (·.2) → x ∈ fs.map (·.2)
  | [], _, x, h => by simp [clsUnTasksT] at h
  | _ :: _, [], x, h => by simp [clsUnTasksT] at h
  | f :: fds, (s, y) :: rest, x, h => by
    simp only [clsUnTasksT, List.map_cons, List.mem_cons] at h
    rcases h with rfl | h
    · simp
    · exact List.mem_cons_of_mem _ (clsUnTasksT_vals fds rest x h)

theorem dfltTask_val {f : Field} {t : Call × HVal} (h : dfltTask f = some t) : t.2 = .leaf .none := by
  unfold dfltTask at h
  cases hd : f.dflt.value? with
  | none => simp [hd] at h
  | some d => simp [hd] at h; rw [← h]

theorem clsStTasks_vals : ∀ (fds : List Field) (kvs : List (HVal × HVal)) (x : HVal),
    x ∈ (clsStTasks fds kvs).1.map (·.2) → LeafOr (fun z => z ∈ (Cell.dict kvs).children) x
  | [], _, x, h => by simp [clsStTasks] at h
  | f :: fds, kvs, x, h => by
    have ih := clsStTasks_vals fds kvs x
    simp only [clsStTasks] at h
    have hdef : x ∈ (match dfltTask f with
        | some t => (t :: (clsStTasks fds kvs).1, (clsStTasks fds kvs).2)
        | none => ((clsStTasks fds kvs).1, true)).1.map (fun t : Call × HVal => t.2) → LeafOr (fun z => z ∈ (Cell.dict kvs).children) x := by
      intro h
      cases hd : dfltTask f with
      | none => rw [hd] at h; exact ih h
      | some t =>
        rw [hd] at h
        simp only [List.map_cons, List.mem_cons] at h
        rcases h with rfl | h
        · exact Or.inl ⟨_, dfltTask_val hd⟩
        · exact ih h
    split at h
    · exact hdef h
    · split at h
      · rename_i y hy
        simp only [List.map_cons, List.mem_cons] at h
        rcases h with rfl | h
        · exact Or.inr (lookupS_mem kvs f.name _ hy)
        · exact ih h
      · exact hdef h

end CattrsModel.Heap
