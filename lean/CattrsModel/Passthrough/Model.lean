import CattrsModel.Core.Py
/-!
# Model of `cattrs.strategies.configure_union_passthrough` (`strategies/_unions.py`)

Read line by line from the pinned source (after the repair "union passthrough matches literals by class and
value together").  Python `set`s are used by the code for membership tests only, so they are lists here and
`in` is list membership; the one place where the *collapse* of a set of values matters (`{0, False}` is `{0}`)
is the pre-repair formula, kept as `passthroughOld`.

* type objects are natural numbers; `S` (`args = set(union.__args__)`) is the configured set;
* a member of the union being structured is a class / other plain type object (`cls`), a `NewType`
  (`newtype base`, `get_newtype_base(t)` = `base`) or a `Literal[…]` whose values carry their class;
* a value is its class together with an `Obj` that decides `==` (`MyInt(1)`, `IE.X`, `1`, `True` and `1.0` are
  five values of five classes that are all `==`);
* `sub a c` is `is_subclass(a, c)` on configured classes — an arbitrary relation, nothing is assumed about it;
  `SubStar direct` (end of the file) is `issubclass` over a hierarchy given by its direct-base relation, for the
  statements about classes two or more levels below a member.
-/
namespace CattrsModel.Passthrough
open CattrsModel

inductive Member where
  | cls (c : Nat)
  | newtype (base : Nat)
  | lit (vs : List (Nat × Obj))
  deriving Repr, DecidableEq

/-- `is_literal(t)` -/
def Member.isLit : Member → Bool
  | .lit _ => true
  | _ => false

/-- `get_newtype_base(t) or t` of a non-literal member -/
def Member.base : Member → Option Nat
  | .cls c => some c
  | .newtype b => some b
  | .lit _ => Option.none

/-- `t.__args__` of a literal member -/
def Member.litVals : Member → List (Nat × Obj)
  | .lit vs => vs
  | _ => []

/-- the configuration: `configure_union_passthrough(Union[S…], converter)` -/
structure PS where
  S : List Nat
  sub : Nat → Nat → Bool

/-- by convention type object `0` is `NoneType` (the only place where a specific class matters) -/
def noneType : Nat := 0

/-- `(cl, v) in vals` for a set of `(class, value)` pairs: tuple equality = same class and `==` values -/
def pairMem (cl : Nat) (v : Obj) : List (Nat × Obj) → Bool
  | [] => false
  | (c, w) :: rest => (c == cl && Obj.pyEq w v) || pairMem cl v rest

/-- `literal_values = {(v.__class__, v) for t in exact_type.__args__ if is_literal(t) for v in t.__args__}` -/
def literalValues : List Member → List (Nat × Obj)
  | [] => []
  | m :: ms => (if m.isLit then m.litVals else []) ++ literalValues ms

/-- `literal_classes = {v.__class__ for t in … if is_literal(t) for v in t.__args__}` -/
def literalClasses (U : List Member) : List Nat := (literalValues U).map (·.1)

/-- `{get_newtype_base(t) or t for t in exact_type.__args__ if not is_literal(t) and (… in args)}` -/
def nonLiteral0 (P : PS) : List Member → List Nat
  | [] => []
  | m :: ms =>
    match m.base with
    | some b => if P.S.contains b then b :: nonLiteral0 P ms else nonLiteral0 P ms
    | Option.none => nonLiteral0 P ms

/-- `non_literal_classes |= {a for a in args if any(is_subclass(a, c) for c in non_literal_classes)}` -/
def nonLiteralClasses (P : PS) (U : List Member) : List Nat :=
  nonLiteral0 P U ++ P.S.filter (fun a => (nonLiteral0 P U).any (fun c => P.sub a c))

/-- `(get_newtype_base(a) or a) not in non_literal_classes and not is_literal(a)` -/
def isSpill (P : PS) (U : List Member) (a : Member) : Bool :=
  match a.base with
  | some b => !(nonLiteralClasses P U).contains b
  | Option.none => false

/-- `spillover = {a for a in exact_type.__args__ if …}` (in member order) -/
def spillover (P : PS) (U : List Member) : List Member := U.filter (isSpill P U)

inductive Out where
  | same                          -- `return val`
  | spill (ms : List Member)      -- `return converter.structure(val, Union[tuple(spillover)])`
  | reject                        -- `raise TypeError`
  deriving Repr, DecidableEq

/-- `structure_native_union(val, _)` as produced by `make_structure_native_union(U)` -/
def passthrough (P : PS) (U : List Member) (cl : Nat) (v : Obj) : Out :=
  if (literalClasses U).contains cl && pairMem cl v (literalValues U) then .same
  else if (nonLiteralClasses P U).contains cl then .same
  else if (spillover P U).isEmpty then .reject
  else .spill (spillover P U)

/-- positions of the spill-over members in `U` (what the driver reports) -/
def spillIdxFrom (P : PS) (U : List Member) : Nat → List Member → List Nat
  | _, [] => []
  | i, m :: ms => if isSpill P U m then i :: spillIdxFrom P U (i + 1) ms else spillIdxFrom P U (i + 1) ms

def spillIdx (P : PS) (U : List Member) : List Nat := spillIdxFrom P U 0 U

/-- `t is type(None)` -/
def Member.isNoneType : Member → Bool
  | .cls c => c == noneType
  | _ => false

/-- `contains_native_union(U)` for a union `U`:
`if len(type_args) == 2 and type(None) in type_args: return False`;
`return (literal_classes | non_literal_types) & args` -/
def applicable (P : PS) (U : List Member) : Bool :=
  if U.length == 2 && U.any Member.isNoneType then false
  else (literalClasses U ++ U.filterMap Member.base).any (fun t => P.S.contains t)

/-! ### the statement of C15, written from the property text (independent of the set algebra above)

"returns `v` itself exactly when `v`'s class is an accepted member of `U` (a configured subclass of a member counts;
NewTypes by base) or `v` equals a literal of `U` of the same class; otherwise the value is handed to the remaining
members of `U` if there are any, and rejected if not" -/

/-- `cl` is the class (base) of a member of `U` that the strategy was configured for, or a configured subclass of one -/
def Accepted (P : PS) (U : List Member) (cl : Nat) : Prop :=
  ∃ m ∈ U, ∃ b, m.base = some b ∧ b ∈ P.S ∧ (cl = b ∨ (cl ∈ P.S ∧ P.sub cl b = true))

/-- some `Literal[…]` member of `U` lists a value of class `cl` that is `==` to `v` -/
def LitMatch (U : List Member) (cl : Nat) (v : Obj) : Prop :=
  ∃ vs, Member.lit vs ∈ U ∧ ∃ w, (cl, w) ∈ vs ∧ Obj.pyEq w v = true

/-- a member the strategy does not handle: not a literal, and its class (base) is not configured -/
def Member.remaining (P : PS) (m : Member) : Bool :=
  match m.base with
  | some b => !P.S.contains b
  | Option.none => false

def acceptedB (P : PS) (U : List Member) (cl : Nat) : Bool :=
  U.any (fun m => match m.base with
    | some b => P.S.contains b && (cl == b || (P.S.contains cl && P.sub cl b))
    | Option.none => false)

def litMatchB (U : List Member) (cl : Nat) (v : Obj) : Bool :=
  U.any (fun m => m.litVals.any (fun p => p.1 == cl && Obj.pyEq p.2 v))

def specPassthrough (P : PS) (U : List Member) (cl : Nat) (v : Obj) : Out :=
  if acceptedB P U cl || litMatchB U cl v then .same
  else match U.filter (Member.remaining P) with
    | [] => .reject
    | m :: ms => .spill (m :: ms)

/-- "the same result": the spill-over type is a `Union`, i.e. a set of members -/
def Out.equiv : Out → Out → Prop
  | .same, .same => True
  | .reject, .reject => True
  | .spill a, .spill b => ∀ m, m ∈ a ↔ m ∈ b
  | _, _ => False

/-- … and under a permutation of the members the spill-over members are permuted -/
def Out.permEquiv : Out → Out → Prop
  | .same, .same => True
  | .reject, .reject => True
  | .spill a, .spill b => a.Perm b
  | _, _ => False

/-- `Optional[X]`: two members, one of them `NoneType` -/
def IsOptional (U : List Member) : Prop := U.length = 2 ∧ Member.cls noneType ∈ U

/-- the union mentions something the strategy was configured for: a member whose class (base) is configured, or a
literal value whose class is configured -/
def Touches (P : PS) (U : List Member) : Prop :=
  ∃ m ∈ U, (∃ b, m.base = some b ∧ b ∈ P.S) ∨ (∃ p ∈ m.litVals, p.1 ∈ P.S)

/-! ### the formula before the repair (kept for the negative witness) -/

/-- a Python `set` of values: later `==`-duplicates are dropped (`{0, False}` is `{0}`) -/
def valueSet (vs : List Obj) : List Obj := mkSet vs

/-- `val.__class__ in literal_classes and val in literal_values` with `literal_values` a set of bare values -/
def passthroughOld (P : PS) (U : List Member) (cl : Nat) (v : Obj) : Out :=
  if (literalClasses U).contains cl && Obj.memPy v (valueSet ((literalValues U).map (·.2))) then .same
  else if (nonLiteralClasses P U).contains cl then .same
  else if (spillover P U).isEmpty then .reject
  else .spill (spillover P U)

/-! ### `issubclass` over a class hierarchy, and the augmentation step reading direct bases only -/

/-- `issubclass(a, c)` as the reflexive-transitive closure of the direct-base relation (`c in a.__bases__`) -/
inductive SubStar (direct : Nat → Nat → Bool) : Nat → Nat → Prop where
  | refl (a : Nat) : SubStar direct a a
  | step {a b c : Nat} : direct a b = true → SubStar direct b c → SubStar direct a c

/-- NOT the code: `non_literal_classes |= {a for a in args if not non_literal_classes.isdisjoint(a.__bases__)}` — a
configured class is added only when it is a DIRECT child of an accepted member (negative witness) -/
def passthroughDirect (P : PS) (direct : Nat → Nat → Bool) (U : List Member) (cl : Nat) (v : Obj) : Out :=
  passthrough { P with sub := direct } U cl v

end CattrsModel.Passthrough
