import CattrsModel.Sexp
import CattrsModel.Core.Wire
import CattrsModel.Passthrough.Model
/-!
# Line-protocol operation of the union-passthrough model (driver only)

`PASS (S <type#>…) (sub (<a> <c>)…) (U <member>…) (vals (<class#> <obj>)…)`

* `<member>` = `(c <type#>)` | `(nt <id> <base type#>)` | `(o <k>)` (a type object that is neither a class of the
  universe, a NewType of one, nor a Literal; it gets the type number `1000+k`) | `(lit (<class#> <obj>)…)`
* `sub`: the pairs of configured classes with `issubclass(a, c)`
* reply `(res (app 0|1) <out>…)`, one `<out>` per value: `same` | `reject` | `(spill <member index>…)`
-/
namespace CattrsModel.Passthrough
open CattrsModel Sexp

def valOfSexp : Sexp → Option (Nat × Obj)
  | .list [c, o] => do pure ((← atomNat? c), (← objOfSexp o))
  | _ => Option.none

def memberOfSexp : Sexp → Option Member
  | .list [.atom "c", c] => (atomNat? c).map .cls
  | .list [.atom "nt", _, b] => (atomNat? b).map .newtype
  | .list [.atom "o", k] => (atomNat? k).map (fun k => .cls (1000 + k))
  | .list (.atom "lit" :: vs) => (vs.mapM valOfSexp).map .lit
  | _ => Option.none

def sexpOfOut (P : PS) (U : List Member) : Out → Sexp
  | .same => .atom "same"
  | .reject => .atom "reject"
  | .spill _ => .list (.atom "spill" :: (spillIdx P U).map ofNat)

def passHandle (op : String) (args : List Sexp) : Option Sexp :=
  match op, args with
  | "PASS", [.list (.atom "S" :: s), .list (.atom "sub" :: sb), .list (.atom "U" :: u), .list (.atom "vals" :: vs)] => do
      let S ← s.mapM atomNat?
      let sb ← sb.mapM (fun (e : Sexp) => match e with
        | .list [a, c] => do pure ((← atomNat? a), (← atomNat? c))
        | _ => Option.none)
      let U ← u.mapM memberOfSexp
      let vs ← vs.mapM valOfSexp
      let P : PS := { S := S, sub := fun a c => sb.contains (a, c) }
      pure (.list (.atom "res" :: .list [.atom "app", ofBool (applicable P U)]
                   :: vs.map (fun (cl, v) => sexpOfOut P U (passthrough P U cl v))))
  | _, _ => Option.none

end CattrsModel.Passthrough
