import CattrsModel.Passthrough.Model
import CattrsModel.Lemmas.Assoc
/-!
# Helper lemmas for the union-passthrough model: the set algebra of `make_structure_native_union`
-/
namespace CattrsModel.Passthrough
open CattrsModel

theorem pyEq_trans' {a b c : Obj} (h1 : Obj.pyEq a b = true) (h2 : Obj.pyEq b c = true) : Obj.pyEq a c = true := by
  unfold Obj.pyEq at *
  cases ha : Obj.num2? a <;> cases hb : Obj.num2? b <;> cases hc : Obj.num2? c <;> simp_all

theorem contains_iff {l : List Nat} {a : Nat} : l.contains a = true ↔ a ∈ l := by simp

/-! ### literals -/

theorem mem_literalValues {U : List Member} {p : Nat × Obj} :
    p ∈ literalValues U ↔ ∃ vs, Member.lit vs ∈ U ∧ p ∈ vs := by
  induction U with
  | nil => simp [literalValues]
  | cons m ms ih =>
    simp only [literalValues, List.mem_append, ih, List.mem_cons]
    constructor
    · rintro (h | ⟨vs, h1, h2⟩)
      · cases m with
        | lit vs => exact ⟨vs, Or.inl rfl, by simpa [Member.isLit, Member.litVals] using h⟩
        | cls c => simp [Member.isLit] at h
        | newtype b => simp [Member.isLit] at h
      · exact ⟨vs, Or.inr h1, h2⟩
    · rintro ⟨vs, h1 | h1, h2⟩
      · left; rw [← h1]; simpa [Member.isLit, Member.litVals] using h2
      · right; exact ⟨vs, h1, h2⟩

theorem pairMem_iff {cl : Nat} {v : Obj} {l : List (Nat × Obj)} :
    pairMem cl v l = true ↔ ∃ w, (cl, w) ∈ l ∧ Obj.pyEq w v = true := by
  induction l with
  | nil => simp [pairMem]
  | cons q rest ih =>
    obtain ⟨c, w⟩ := q
    simp only [pairMem, Bool.or_eq_true, Bool.and_eq_true, beq_iff_eq, ih, List.mem_cons, Prod.mk.injEq]
    constructor
    · rintro (⟨rfl, h⟩ | ⟨w', h1, h2⟩)
      · exact ⟨w, Or.inl ⟨rfl, rfl⟩, h⟩
      · exact ⟨w', Or.inr h1, h2⟩
    · rintro ⟨w', (⟨rfl, rfl⟩ | h1), h2⟩
      · exact Or.inl ⟨rfl, h2⟩
      · exact Or.inr ⟨w', h1, h2⟩

theorem pairMem_literalValues_iff {U : List Member} {cl : Nat} {v : Obj} :
    pairMem cl v (literalValues U) = true ↔ LitMatch U cl v := by
  rw [pairMem_iff]
  unfold LitMatch
  constructor
  · rintro ⟨w, h1, h2⟩
    obtain ⟨vs, h3, h4⟩ := mem_literalValues.mp h1
    exact ⟨vs, h3, w, h4, h2⟩
  · rintro ⟨vs, h3, w, h4, h2⟩
    exact ⟨w, mem_literalValues.mpr ⟨vs, h3, h4⟩, h2⟩

/-- the class guard `val.__class__ in literal_classes` is implied by the pair test -/
theorem literalClasses_of_pairMem {U : List Member} {cl : Nat} {v : Obj}
    (h : pairMem cl v (literalValues U) = true) : (literalClasses U).contains cl = true := by
  obtain ⟨w, h1, _⟩ := pairMem_iff.mp h
  rw [contains_iff]
  unfold literalClasses
  exact List.mem_map.mpr ⟨(cl, w), h1, rfl⟩

theorem litMatchB_iff {U : List Member} {cl : Nat} {v : Obj} : litMatchB U cl v = true ↔ LitMatch U cl v := by
  unfold litMatchB LitMatch
  simp only [List.any_eq_true, Bool.and_eq_true, beq_iff_eq]
  constructor
  · rintro ⟨m, hm, ⟨c, w⟩, hp, hc, hw⟩
    simp only at hc hw
    subst hc
    cases m with
    | lit vs => exact ⟨vs, hm, w, by simpa [Member.litVals] using hp, hw⟩
    | cls c => simp [Member.litVals] at hp
    | newtype b => simp [Member.litVals] at hp
  · rintro ⟨vs, hm, w, hp, hw⟩
    exact ⟨.lit vs, hm, (cl, w), by simpa [Member.litVals] using hp, rfl, hw⟩

/-! ### classes -/

theorem mem_nonLiteral0 {P : PS} {U : List Member} {b : Nat} :
    b ∈ nonLiteral0 P U ↔ ∃ m ∈ U, m.base = some b ∧ b ∈ P.S := by
  induction U with
  | nil => simp [nonLiteral0]
  | cons m ms ih =>
    simp only [nonLiteral0, List.mem_cons, exists_eq_or_imp]
    cases hb : m.base with
    | none => simp [ih]
    | some b' =>
      simp only
      by_cases hS : P.S.contains b' = true
      · rw [if_pos hS, List.mem_cons, ih]
        constructor
        · rintro (rfl | h)
          · exact Or.inl ⟨rfl, contains_iff.mp hS⟩
          · exact Or.inr h
        · rintro (⟨h1, _⟩ | h)
          · cases h1; exact Or.inl rfl
          · exact Or.inr h
      · rw [if_neg hS, ih]
        constructor
        · exact Or.inr
        · rintro (⟨h1, h2⟩ | h)
          · cases h1; exact absurd (contains_iff.mpr h2) hS
          · exact h

theorem mem_nonLiteralClasses {P : PS} {U : List Member} {cl : Nat} :
    cl ∈ nonLiteralClasses P U ↔ Accepted P U cl := by
  unfold nonLiteralClasses Accepted
  simp only [List.mem_append, List.mem_filter, List.any_eq_true, mem_nonLiteral0]
  constructor
  · rintro (⟨m, hm, hb, hS⟩ | ⟨hcl, c, ⟨m, hm, hb, hS⟩, hsub⟩)
    · exact ⟨m, hm, cl, hb, hS, Or.inl rfl⟩
    · exact ⟨m, hm, c, hb, hS, Or.inr ⟨hcl, hsub⟩⟩
  · rintro ⟨m, hm, b, hb, hS, (rfl | ⟨hcl, hsub⟩)⟩
    · exact Or.inl ⟨m, hm, hb, hS⟩
    · exact Or.inr ⟨hcl, b, ⟨m, hm, hb, hS⟩, hsub⟩

theorem nonLiteralClasses_sub_S {P : PS} {U : List Member} {cl : Nat} (h : cl ∈ nonLiteralClasses P U) : cl ∈ P.S := by
  obtain ⟨m, _, b, _, hS, (rfl | ⟨hcl, _⟩)⟩ := mem_nonLiteralClasses.mp h
  · exact hS
  · exact hcl

theorem acceptedB_iff {P : PS} {U : List Member} {cl : Nat} : acceptedB P U cl = true ↔ Accepted P U cl := by
  unfold acceptedB Accepted
  simp only [List.any_eq_true]
  constructor
  · rintro ⟨m, hm, h⟩
    cases hb : m.base with
    | none => rw [hb] at h; cases h
    | some b =>
      rw [hb] at h
      simp only [Bool.and_eq_true, Bool.or_eq_true, beq_iff_eq, contains_iff] at h
      exact ⟨m, hm, b, hb, h.1, h.2⟩
  · rintro ⟨m, hm, b, hb, hS, h⟩
    refine ⟨m, hm, ?_⟩
    rw [hb]
    simp only [Bool.and_eq_true, Bool.or_eq_true, beq_iff_eq, contains_iff]
    exact ⟨hS, h⟩

/-- for a member of `U`, "not in the augmented class set" is "class not configured" -/
theorem isSpill_eq_remaining {P : PS} {U : List Member} {m : Member} (hm : m ∈ U) :
    isSpill P U m = m.remaining P := by
  unfold isSpill Member.remaining
  cases hb : m.base with
  | none => rfl
  | some b =>
    simp only
    congr 1
    rw [Bool.eq_iff_iff, contains_iff, contains_iff]
    constructor
    · exact nonLiteralClasses_sub_S
    · intro hS
      exact mem_nonLiteralClasses.mpr ⟨m, hm, b, hb, hS, Or.inl rfl⟩

theorem spillover_eq {P : PS} {U : List Member} : spillover P U = U.filter (Member.remaining P) := by
  unfold spillover
  apply List.filter_congr
  intro m hm
  exact isSpill_eq_remaining hm

/-! ### model = statement -/

theorem passthrough_eq_spec (P : PS) (U : List Member) (cl : Nat) (v : Obj) :
    passthrough P U cl v = specPassthrough P U cl v := by
  unfold passthrough specPassthrough
  have h1 : ((literalClasses U).contains cl && pairMem cl v (literalValues U)) = litMatchB U cl v := by
    rw [Bool.eq_iff_iff, Bool.and_eq_true, litMatchB_iff, ← pairMem_literalValues_iff]
    exact ⟨fun h => h.2, fun h => ⟨literalClasses_of_pairMem h, h⟩⟩
  have h2 : (nonLiteralClasses P U).contains cl = acceptedB P U cl := by
    rw [Bool.eq_iff_iff, contains_iff, acceptedB_iff, mem_nonLiteralClasses]
  rw [h1, h2, spillover_eq]
  generalize List.filter (Member.remaining P) U = L
  cases litMatchB U cl v <;> cases acceptedB P U cl <;> cases L <;> simp

theorem spec_same_iff (P : PS) (U : List Member) (cl : Nat) (v : Obj) :
    specPassthrough P U cl v = .same ↔ (Accepted P U cl ∨ LitMatch U cl v) := by
  unfold specPassthrough
  rw [← acceptedB_iff, ← litMatchB_iff, ← Bool.or_eq_true]
  cases acceptedB P U cl || litMatchB U cl v
  · simp only [Bool.false_eq_true, if_false, iff_false]
    cases List.filter (Member.remaining P) U <;> simp
  · simp

/-! ### invariance -/

theorem Accepted_congr {P : PS} {U U' : List Member} (h : ∀ m, m ∈ U ↔ m ∈ U') (cl : Nat) :
    Accepted P U cl ↔ Accepted P U' cl := by
  unfold Accepted
  constructor
  · rintro ⟨m, hm, r⟩; exact ⟨m, (h m).mp hm, r⟩
  · rintro ⟨m, hm, r⟩; exact ⟨m, (h m).mpr hm, r⟩

theorem LitMatch_congr {U U' : List Member} (h : ∀ m, m ∈ U ↔ m ∈ U') (cl : Nat) (v : Obj) :
    LitMatch U cl v ↔ LitMatch U' cl v := by
  unfold LitMatch
  constructor
  · rintro ⟨vs, hm, r⟩; exact ⟨vs, (h _).mp hm, r⟩
  · rintro ⟨vs, hm, r⟩; exact ⟨vs, (h _).mpr hm, r⟩

theorem spec_cond_congr {P : PS} {U U' : List Member} (h : ∀ m, m ∈ U ↔ m ∈ U') (cl : Nat) (v : Obj) :
    (acceptedB P U cl || litMatchB U cl v) = (acceptedB P U' cl || litMatchB U' cl v) := by
  rw [Bool.eq_iff_iff, Bool.or_eq_true, Bool.or_eq_true, acceptedB_iff, acceptedB_iff, litMatchB_iff, litMatchB_iff,
    Accepted_congr h, LitMatch_congr h]

/-! ### the pre-repair set of bare values -/

theorem memPy_setAdd (v : Obj) (acc : List Obj) (x : Obj) :
    Obj.memPy v (setAdd acc x) = (Obj.memPy v acc || Obj.pyEq x v) := by
  unfold setAdd
  split
  · rename_i hx
    obtain ⟨y, hy, hyx⟩ := memPy_iff.mp hx
    cases hxv : Obj.pyEq x v
    · simp
    · have : Obj.memPy v acc = true := memPy_iff.mpr ⟨y, hy, pyEq_trans' hyx hxv⟩
      simp [this]
  · rw [memPy_append]; simp [Obj.memPy]

theorem memPy_foldl_setAdd (v : Obj) (vs : List Obj) (acc : List Obj) :
    Obj.memPy v (vs.foldl setAdd acc) = (Obj.memPy v acc || Obj.memPy v vs) := by
  induction vs generalizing acc with
  | nil => simp [Obj.memPy]
  | cons x xs ih =>
    simp only [List.foldl_cons, ih, memPy_setAdd, Obj.memPy, Bool.or_assoc]

theorem memPy_mkSet (v : Obj) (vs : List Obj) : Obj.memPy v (mkSet vs) = Obj.memPy v vs := by
  unfold mkSet
  rw [memPy_foldl_setAdd]; simp [Obj.memPy]

/-! ### positions reported by the driver -/

theorem mem_spillIdxFrom {P : PS} {U0 : List Member} (ms : List Member) (i j : Nat) :
    j ∈ spillIdxFrom P U0 i ms ↔ i ≤ j ∧ ∃ m, ms[j - i]? = some m ∧ isSpill P U0 m = true := by
  induction ms generalizing i with
  | nil => simp [spillIdxFrom]
  | cons m ms ih =>
    simp only [spillIdxFrom]
    by_cases hj : j = i
    · subst hj
      split
      · rename_i hm
        simp [hm]
      · rename_i hm
        rw [ih]
        simp only [Nat.sub_self, List.getElem?_cons_zero, Option.some.injEq, Nat.le_refl, true_and]
        constructor
        · rintro ⟨h, _⟩; omega
        · rintro ⟨m', rfl, h⟩; exact absurd h hm
    · have key : (i + 1 ≤ j ∧ ∃ m', ms[j - (i + 1)]? = some m' ∧ isSpill P U0 m' = true) ↔
          (i ≤ j ∧ ∃ m', (m :: ms)[j - i]? = some m' ∧ isSpill P U0 m' = true) := by
        constructor
        · rintro ⟨h1, m', h2, h3⟩
          refine ⟨by omega, m', ?_, h3⟩
          have : j - i = (j - (i + 1)) + 1 := by omega
          rw [this, List.getElem?_cons_succ]; exact h2
        · rintro ⟨h1, m', h2, h3⟩
          have hlt : i + 1 ≤ j := by omega
          refine ⟨hlt, m', ?_, h3⟩
          have : j - i = (j - (i + 1)) + 1 := by omega
          rw [this, List.getElem?_cons_succ] at h2; exact h2
      split
      · rw [List.mem_cons, ih, key]
        constructor
        · rintro (h | h)
          · exact absurd h hj
          · exact h
        · exact Or.inr
      · rw [ih, key]

/-- the positions the driver reports are exactly the positions of the spill-over members -/
theorem mem_spillIdx {P : PS} {U : List Member} {j : Nat} :
    j ∈ spillIdx P U ↔ ∃ m, U[j]? = some m ∧ m ∈ spillover P U := by
  unfold spillIdx
  rw [mem_spillIdxFrom]
  simp only [Nat.zero_le, true_and, Nat.sub_zero]
  unfold spillover
  constructor
  · rintro ⟨m, h1, h2⟩
    exact ⟨m, h1, List.mem_filter.mpr ⟨List.mem_of_getElem? h1, h2⟩⟩
  · rintro ⟨m, h1, h2⟩
    exact ⟨m, h1, (List.mem_filter.mp h2).2⟩

end CattrsModel.Passthrough
