import CattrsModel.Disambig.Model
/-!
# Lemmas about the disambiguator model

Part A: the fixpoint loop of the unique-field path (invariant, coverage, permutation invariance).
Part B: the literal path (selection, buckets, permutation invariance).
Part C: the recursion `resolveF`.
-/
namespace CattrsModel.Disambig

/-! ## Part A — unique-field path -/

section Uniq
variable (so : SetOrder) (t : Table)

theorem pinOf_some {rem : List Nat} {c : Nat} {k : String} (h : pinOf so t rem c = some k) :
    (t.cls c).keyIsReq k = true ∧ k ∈ (t.cls c).keys ∧
    ∀ c' ∈ rem, c' ≠ c → k ∉ (t.cls c').keys := by
  unfold pinOf at h
  have hp := List.find?_some h
  have hm := List.mem_of_find?_eq_some h
  have hm' : k ∈ uniqKeys t rem c := (so.perm _).mem_iff.mp hm
  unfold uniqKeys at hm'
  rw [List.mem_filter] at hm'
  refine ⟨hp, hm'.1, ?_⟩
  intro c' hc' hne
  have := hm'.2
  rw [List.all_eq_true] at this
  have h2 := this c' hc'
  simp [hne] at h2
  exact h2

theorem pinOf_none {rem : List Nat} {c : Nat} (h : pinOf so t rem c = Option.none) :
    ∀ k ∈ uniqKeys t rem c, (t.cls c).keyIsReq k = false := by
  unfold pinOf at h
  rw [List.find?_eq_none] at h
  intro k hk
  have := h k ((so.perm _).mem_iff.mpr hk)
  simpa using this

theorem keyIsReq_field {c : CSig} {k : String} (h : c.keyIsReq k = true) :
    ∃ f ∈ c.fields, f.key = k ∧ f.dreq = true := by
  unfold CSig.keyIsReq at h
  split at h
  · rename_i f hf
    have hm := List.mem_of_find?_eq_some hf
    have hp := List.find?_some hf
    exact ⟨f, by simpa using hm, by simpa using hp, h⟩
  · simp at h

/-- the invariant of the fixpoint loop -/
structure Inv (rem : List Nat) (pins : List (String × Nat)) : Prop where
  p1 : ∀ p ∈ pins, (t.cls p.2).keyIsReq p.1 = true ∧ p.2 ∉ rem
  p2 : ∀ p ∈ pins, ∀ c' ∈ rem, p.1 ∉ (t.cls c').keys
  p3 : pins.Pairwise (fun p q => p.2 ≠ q.2 ∧ p.1 ∉ (t.cls q.2).keys)
  p5 : rem.Nodup

theorem mem_pass {rem : List Nat} {p : String × Nat} (h : p ∈ pass so t rem) :
    p.2 ∈ rem ∧ (t.cls p.2).keyIsReq p.1 = true ∧ ∀ c' ∈ rem, c' ≠ p.2 → p.1 ∉ (t.cls c').keys := by
  unfold pass at h
  rw [List.mem_filterMap] at h
  obtain ⟨c, hc, hp⟩ := h
  cases hpk : pinOf so t rem c with
  | none => simp [hpk] at hp
  | some k =>
    simp [hpk] at hp
    subst hp
    obtain ⟨h1, _, h3⟩ := pinOf_some so t hpk
    exact ⟨hc, h1, h3⟩

theorem pass_pairwise {rem : List Nat} (hnd : rem.Nodup) :
    (pass so t rem).Pairwise (fun p q => p.2 ≠ q.2 ∧ p.1 ∉ (t.cls q.2).keys) := by
  unfold pass
  rw [List.pairwise_filterMap]
  unfold List.Nodup at hnd
  refine List.Pairwise.imp_of_mem ?_ hnd
  intro a b ha hb hab p hp q hq
  have hp' : p ∈ pass so t rem := by
    unfold pass; rw [List.mem_filterMap]; exact ⟨a, ha, hp⟩
  have hq' : q ∈ pass so t rem := by
    unfold pass; rw [List.mem_filterMap]; exact ⟨b, hb, hq⟩
  have hp2 : p.2 = a := by
    cases h : pinOf so t rem a <;> simp [h] at hp; subst hp; rfl
  have hq2 : q.2 = b := by
    cases h : pinOf so t rem b <;> simp [h] at hq; subst hq; rfl
  obtain ⟨_, _, hu⟩ := mem_pass so t hp'
  refine ⟨by rw [hp2, hq2]; exact hab, ?_⟩
  rw [hq2]
  exact hu b hb (by rw [hp2]; exact fun e => hab e.symm)

theorem inv_step {rem : List Nat} {pins : List (String × Nat)} (h : Inv t rem pins) :
    Inv t (rem.filter (fun c => !(((pass so t rem).map (·.2)).contains c))) (pins ++ pass so t rem) := by
  have hsub : ∀ c, c ∈ rem.filter (fun c => !(((pass so t rem).map (·.2)).contains c)) →
      c ∈ rem ∧ c ∉ (pass so t rem).map (·.2) := by
    intro c hc
    rw [List.mem_filter] at hc
    refine ⟨hc.1, ?_⟩
    have := hc.2
    simp at this
    intro hm
    rw [List.mem_map] at hm
    obtain ⟨q, hq, hqc⟩ := hm
    exact this q.1 (by rw [← hqc]; exact hq)
  constructor
  · intro p hp
    rw [List.mem_append] at hp
    rcases hp with hp | hp
    · exact ⟨(h.p1 p hp).1, fun hm => (h.p1 p hp).2 (hsub _ hm).1⟩
    · obtain ⟨_, hr, _⟩ := mem_pass so t hp
      exact ⟨hr, fun hm => (hsub _ hm).2 (List.mem_map.mpr ⟨p, hp, rfl⟩)⟩
  · intro p hp c' hc'
    rw [List.mem_append] at hp
    rcases hp with hp | hp
    · exact h.p2 p hp c' (hsub _ hc').1
    · obtain ⟨_, _, hu⟩ := mem_pass so t hp
      refine hu c' (hsub _ hc').1 ?_
      intro e
      exact (hsub _ hc').2 (List.mem_map.mpr ⟨p, hp, e.symm⟩)
  · rw [List.pairwise_append]
    refine ⟨h.p3, pass_pairwise so t h.p5, ?_⟩
    intro p hp q hq
    obtain ⟨hqr, _, _⟩ := mem_pass so t hq
    exact ⟨fun e => (h.p1 p hp).2 (e ▸ hqr), h.p2 p hp q.2 hqr⟩
  · exact h.p5.filter _

theorem inv_fix (n : Nat) : ∀ {rem pins}, Inv t rem pins →
    Inv t (fix so t n rem pins).2 (fix so t n rem pins).1 := by
  induction n with
  | zero => intro rem pins h; exact h
  | succ n ih =>
    intro rem pins h
    unfold fix
    simp only
    split
    · exact h
    · exact ih (inv_step so t h)

/-- coverage: a class is always either remaining or pinned -/
theorem cover_fix (n : Nat) : ∀ {rem pins} (c : Nat), (c ∈ rem ∨ c ∈ pins.map (·.2)) →
    (c ∈ (fix so t n rem pins).2 ∨ c ∈ (fix so t n rem pins).1.map (·.2)) := by
  induction n with
  | zero => intro rem pins c h; exact h
  | succ n ih =>
    intro rem pins c h
    unfold fix
    simp only
    split
    · exact h
    · apply ih
      rcases h with h | h
      · by_cases hc : c ∈ (pass so t rem).map (·.2)
        · right; rw [List.map_append, List.mem_append]; exact Or.inr hc
        · left; rw [List.mem_filter]; refine ⟨h, ?_⟩
          simp
          intro x hx
          exact hc (List.mem_map.mpr ⟨(x, c), hx, rfl⟩)
      · right; rw [List.map_append, List.mem_append]; exact Or.inl h

/-- what the unique-field path needs from a payload -/
def KeysOf (c : Nat) (keys : List String) : Prop :=
  (∀ f ∈ (t.cls c).fields, f.dreq = true → f.key ∈ keys) ∧ (∀ k ∈ keys, k ∈ (t.cls c).keys)

theorem resolve_pinned {rem pins} (h : Inv t rem pins) {c : Nat} {keys : List String}
    (hp : KeysOf t c keys) (hc : c ∈ pins.map (·.2)) (fb : Option Nat) :
    resolveU pins fb keys = some c := by
  have hp1 := h.p1
  have hp3 := h.p3
  clear h
  induction pins with
  | nil => simp at hc
  | cons q rest ih =>
    rw [List.pairwise_cons] at hp3
    unfold resolveU
    rw [List.find?_cons]
    by_cases hq : q.2 = c
    · have hk : q.1 ∈ keys := by
        obtain ⟨f, hf, hfk, hfr⟩ := keyIsReq_field (hp1 q (by simp)).1
        rw [hq] at hf
        rw [← hfk]
        exact hp.1 f hf hfr
      have : keys.contains q.1 = true := by simpa using hk
      rw [this]
      simp [hq]
    · have hcr : c ∈ rest.map (·.2) := by
        simp at hc
        rcases hc with hc | hc
        · exact absurd hc.symm hq
        · simpa using hc
      have hnot : keys.contains q.1 = false := by
        have : q.1 ∉ keys := by
          intro hk
          rw [List.mem_map] at hcr
          obtain ⟨r, hr, hrc⟩ := hcr
          have := (hp3.1 r hr).2
          rw [hrc] at this
          exact this (hp.2 _ hk)
        simpa using this
      rw [hnot]
      have := ih hcr (fun p hpm => hp1 p (by simp [hpm])) hp3.2
      unfold resolveU at this
      exact this

theorem resolve_fallback {rem pins} (h : Inv t rem pins) {c : Nat} {keys : List String}
    (hp : KeysOf t c keys) (hc : c ∈ rem) (fb : Option Nat) :
    resolveU pins fb keys = fb := by
  unfold resolveU
  have : pins.find? (fun p => keys.contains p.1) = Option.none := by
    rw [List.find?_eq_none]
    intro p hpm
    simp
    intro hk
    exact h.p2 p hpm c hc (hp.2 _ hk)
  rw [this]

/-! ### the stable sort is a permutation -/

theorem insertDesc_perm (x : Nat) (l : List Nat) : (insertDesc t x l).Perm (x :: l) := by
  induction l with
  | nil => exact List.Perm.refl _
  | cons y ys ih =>
    unfold insertDesc
    split
    · exact (List.Perm.cons y ih).trans (List.Perm.swap x y ys)
    · exact List.Perm.refl _

theorem sortDesc_perm (l : List Nat) : (sortDesc t l).Perm l := by
  induction l with
  | nil => exact List.Perm.refl _
  | cons x xs ih =>
    unfold sortDesc
    exact (insertDesc_perm t x _).trans (List.Perm.cons x ih)

/-- **unique-field path: never wrong and complete.**  Whenever `mkUniq` produces a decision function, it
maps every payload of every member to that member — whatever the set iteration order. -/
theorem uniq_correct (ms : List Nat) (hnd : ms.Nodup)
    (pins : List (String × Nat)) (fb : Option Nat)
    (hmk : mkUniq so t ms = some (pins, fb))
    (c : Nat) (hc : c ∈ ms) (keys : List String) (hp : KeysOf t c keys) :
    resolveU pins fb keys = some c := by
  unfold mkUniq at hmk
  simp only at hmk
  split at hmk
  · simp at hmk
  · rename_i hlen
    simp at hmk
    obtain ⟨hpins, hfb⟩ := hmk
    have hnd' : (sortDesc t ms).Nodup := (sortDesc_perm t ms).nodup_iff.mpr hnd
    have hc' : c ∈ sortDesc t ms := (sortDesc_perm t ms).mem_iff.mpr hc
    have hinv0 : Inv t (sortDesc t ms) [] := ⟨by simp, by simp, by simp, hnd'⟩
    have hinv := inv_fix so t (ms.length + 1) hinv0
    have hcov := cover_fix so t (ms.length + 1) (rem := sortDesc t ms) (pins := []) c (Or.inl hc')
    rw [hpins] at hinv hcov
    rcases hcov with hrem | hpin
    · have := resolve_fallback t hinv hp hrem fb
      rw [this, ← hfb]
      generalize (fix so t (ms.length + 1) (sortDesc t ms) []).2 = r at hrem hlen
      match r, hrem, hlen with
      | [x], hrem, _ => simp at hrem; simp [hrem]
      | [], hrem, _ => simp at hrem
      | _ :: _ :: _, _, hlen => simp at hlen
    · exact resolve_pinned t hinv hp hpin fb

end Uniq

/-! ### order / hash-seed independence of the unique-field path -/

section UniqPerm
variable (t : Table)

theorem all_perm {α} {l l' : List α} (h : l.Perm l') (f : α → Bool) : l.all f = l'.all f := by
  induction h with
  | nil => rfl
  | cons x _ ih => simp [List.all_cons, ih]
  | swap x y l => simp [List.all_cons, Bool.and_left_comm]
  | trans _ _ ih1 ih2 => rw [ih1, ih2]

theorem uniqKeys_perm {rem rem' : List Nat} (h : rem.Perm rem') (c : Nat) :
    uniqKeys t rem c = uniqKeys t rem' c := by
  unfold uniqKeys
  congr 1
  funext f
  exact all_perm h _

/-- has class `c` a pin among `rem`?  (independent of the set iteration order) -/
def pinnable (rem : List Nat) (c : Nat) : Bool :=
  (uniqKeys t rem c).any (fun k => (t.cls c).keyIsReq k)

theorem pinOf_isSome (so : SetOrder) (rem : List Nat) (c : Nat) :
    (pinOf so t rem c).isSome = pinnable t rem c := by
  unfold pinnable
  cases h : pinOf so t rem c with
  | none =>
    have := pinOf_none so t h
    symm
    simp only [Option.isSome_none]
    rw [List.any_eq_false]
    intro k hk
    simp [this k hk]
  | some k =>
    obtain ⟨h1, _, _⟩ := pinOf_some so t h
    have hm : k ∈ uniqKeys t rem c := by
      unfold pinOf at h
      exact (so.perm _).mem_iff.mp (List.mem_of_find?_eq_some h)
    symm
    simp only [Option.isSome_some]
    rw [List.any_eq_true]
    exact ⟨k, hm, h1⟩

theorem pass_snd (so : SetOrder) (rem : List Nat) :
    (pass so t rem).map (·.2) = rem.filter (fun c => pinnable t rem c) := by
  unfold pass
  have hu : ∀ c, (pinOf so t rem c).isSome = pinnable t rem c := pinOf_isSome t so rem
  generalize pinOf so t rem = u at hu
  generalize pinnable t rem = g at hu
  clear so
  induction rem with
  | nil => rfl
  | cons c rest ih =>
    rw [List.filterMap_cons, List.filter_cons]
    cases hp : u c with
    | none =>
      have := hu c
      rw [hp] at this
      simp at this
      simp [← this, ih]
    | some k =>
      have := hu c
      rw [hp] at this
      simp at this
      simp [← this, ih]

theorem next_eq (so : SetOrder) (rem : List Nat) :
    rem.filter (fun c => !(((pass so t rem).map (·.2)).contains c)) =
    rem.filter (fun c => !pinnable t rem c) := by
  rw [pass_snd]
  apply List.filter_congr
  intro c hc
  cases he : pinnable t rem c <;> simp [hc, he]

theorem pinnable_perm {rem rem' : List Nat} (h : rem.Perm rem') :
    pinnable t rem = pinnable t rem' := by
  funext c
  unfold pinnable
  rw [uniqKeys_perm t h]

theorem fix_perm (so so' : SetOrder) (n : Nat) : ∀ {rem rem' : List Nat} {pins pins'}, rem.Perm rem' →
    (fix so t n rem pins).2.Perm (fix so' t n rem' pins').2 := by
  induction n with
  | zero => intro rem rem' pins pins' h; exact h
  | succ n ih =>
    intro rem rem' pins pins' h
    unfold fix
    simp only
    have hemp : (pass so t rem).isEmpty = (pass so' t rem').isEmpty := by
      have e1 : (pass so t rem).isEmpty = ((pass so t rem).map (·.2)).isEmpty := by simp
      have e2 : (pass so' t rem').isEmpty = ((pass so' t rem').map (·.2)).isEmpty := by simp
      rw [e1, e2, pass_snd, pass_snd]
      have hp : (rem.filter (fun c => pinnable t rem c)).Perm
                (rem'.filter (fun c => pinnable t rem' c)) := by
        rw [pinnable_perm t h]; exact h.filter _
      cases h1 : (rem.filter (fun c => pinnable t rem c)) with
      | nil => rw [h1] at hp; rw [List.nil_perm.mp hp]
      | cons a l =>
        rw [h1] at hp
        cases h2 : (rem'.filter (fun c => pinnable t rem' c)) with
        | nil => rw [h2] at hp; exact absurd (List.perm_nil.mp hp) (by simp)
        | cons _ _ => rfl
    rw [hemp]
    split
    · exact h
    · apply ih
      rw [next_eq, next_eq, pinnable_perm t h]
      exact h.filter _

/-- whether the unique-field path accepts depends neither on the order of the members nor on the
iteration order of Python sets. -/
theorem mkUniq_isSome_perm (so so' : SetOrder) (ms ms' : List Nat) (h : ms.Perm ms') :
    (mkUniq so t ms).isSome = (mkUniq so' t ms').isSome := by
  unfold mkUniq
  simp only
  have hl : ms.length = ms'.length := h.length_eq
  have hs : (sortDesc t ms).Perm (sortDesc t ms') :=
    (sortDesc_perm t ms).trans (h.trans (sortDesc_perm t ms').symm)
  have hp := fix_perm t so so' (ms.length + 1) (pins := []) (pins' := []) hs
  rw [← hl]
  rw [hp.length_eq]
  split <;> rfl

end UniqPerm

/-! ## Part B — literal path -/

section Lit
variable (t : Table)

theorem pickDisc_mem (score : String → Nat) : ∀ (l : List String) (best : Option String) (d : String),
    pickDisc score l best = some d → d ∈ l ∨ best = some d := by
  intro l
  induction l with
  | nil => intro best d h; right; simpa [pickDisc] using h
  | cons x xs ih =>
    intro best d h
    cases best with
    | none =>
      simp only [pickDisc] at h
      rcases ih _ _ h with h1 | h1
      · left; exact List.mem_cons_of_mem _ h1
      · left; simp at h1; simp [h1]
    | some b =>
      simp only [pickDisc] at h
      rcases ih _ _ h with h1 | h1
      · left; exact List.mem_cons_of_mem _ h1
      · split at h1
        · left; simp at h1; simp [h1]
        · right; exact h1

theorem litSelect_some {dord : List String → List String} {ms : List Nat} {d : String}
    (h : litSelect dord t ms = some d) :
    d ∈ dord (discs t ms) ∧ maxBucket t ms d ≠ ms.length := by
  unfold litSelect at h
  split at h
  · rename_i d' hd'
    split at h
    · rename_i hne
      simp at h
      subst h
      rcases pickDisc_mem _ _ _ _ hd' with h1 | h1
      · exact ⟨h1, hne⟩
      · simp at h1
    · simp at h
  · simp at h

theorem mem_discs {ms : List Nat} {d : String} (h : d ∈ discs t ms) :
    ∀ m ∈ ms, d ∈ (t.cls m).litNames := by
  cases ms with
  | nil => simp [discs] at h
  | cons m rest =>
    unfold discs at h
    rw [List.mem_filter] at h
    intro m' hm'
    rw [List.mem_cons] at hm'
    rcases hm' with e | hm'
    · rw [e]; exact h.1
    · have := h.2
      rw [List.all_eq_true] at this
      simpa using this m' hm'

theorem discs_mem_iff {m : Nat} {rest : List Nat} {d : String} :
    d ∈ discs t (m :: rest) ↔ ∀ m' ∈ m :: rest, d ∈ (t.cls m').litNames := by
  constructor
  · exact mem_discs t
  · intro h
    unfold discs
    rw [List.mem_filter]
    refine ⟨h m (by simp), ?_⟩
    rw [List.all_eq_true]
    intro m' hm'
    simpa using h m' (List.mem_cons_of_mem _ hm')

theorem mem_litNames {c : CSig} {d : String} (h : d ∈ c.litNames) :
    ∃ f ∈ c.fields, f.name = d ∧ f.lit.isSome = true := by
  unfold CSig.litNames at h
  rw [List.mem_map] at h
  obtain ⟨f, hf, hn⟩ := h
  rw [List.mem_filter] at hf
  exact ⟨f, hf.1, hn, hf.2⟩

theorem find_name_nodup : ∀ (l : List Field), (l.map (·.name)).Nodup → ∀ f ∈ l,
    l.find? (fun g => g.name == f.name) = some f := by
  intro l
  induction l with
  | nil => intro _ f hf; simp at hf
  | cons g gs ih =>
    intro hnd f hf
    rw [List.map_cons, List.nodup_cons] at hnd
    rw [List.find?_cons]
    rw [List.mem_cons] at hf
    rcases hf with e | hf
    · subst e; simp
    · have hne : (g.name == f.name) = false := by
        have : g.name ≠ f.name := by
          intro e
          apply hnd.1
          rw [e]
          exact List.mem_map.mpr ⟨f, hf, rfl⟩
        simpa using this
      rw [hne]
      exact ih hnd.2 f hf

theorem litOf_field {c : CSig} (hwf : c.WF) {f : Field} (hf : f ∈ c.fields) :
    c.litOf f.name = f.lit.getD [] := by
  unfold CSig.litOf
  rw [find_name_nodup c.fields hwf.1 f hf]

theorem cls_WF (hwf : t.WF) (i : Nat) : (t.cls i).WF := by
  unfold Table.cls
  rw [List.getD_eq_getElem?_getD]
  cases h : t[i]? with
  | none => simp [CSig.WF]
  | some c => simp; exact hwf c (List.mem_of_getElem? h)

/-- a member's own discriminator value puts it in the bucket -/
theorem member_in_bucket (hwf : t.WF) {ms : List Nat} {k : Nat} (hk : k ∈ ms) {p : Payload}
    (hp : PayloadOf t k p) {d : String} (hd : d ∈ (t.cls k).litNames) {v : Nat}
    (hv : p.lookup d = some v) : k ∈ bucket t ms d v := by
  obtain ⟨f, hf, hn, hl⟩ := mem_litNames hd
  have hwk := cls_WF t hwf k
  have hkey : f.key = d := by rw [hwk.2 f hf hl, hn]
  cases hlit : f.lit with
  | none => rw [hlit] at hl; simp at hl
  | some vs =>
    have hvs : v ∈ vs := hp.2.2 f hf vs v hlit (by rw [hkey]; exact hv)
    unfold bucket
    rw [List.mem_filter]
    refine ⟨hk, ?_⟩
    have := litOf_field hwk hf
    rw [hn, hlit] at this
    rw [this]
    simpa using hvs

/-! ### sizes -/

theorem le_maxL {l : List Nat} {x : Nat} (h : x ∈ l) : x ≤ maxL l := by
  induction l with
  | nil => simp at h
  | cons y ys ih =>
    unfold maxL
    rw [List.mem_cons] at h
    rcases h with e | h
    · subst e; exact Nat.le_max_left _ _
    · exact Nat.le_trans (ih h) (Nat.le_max_right _ _)

theorem maxL_le {l : List Nat} {b : Nat} (h : ∀ x ∈ l, x ≤ b) : maxL l ≤ b := by
  induction l with
  | nil => simp [maxL]
  | cons y ys ih =>
    unfold maxL
    exact Nat.max_le.mpr ⟨h y (by simp), ih (fun x hx => h x (List.mem_cons_of_mem _ hx))⟩

theorem maxL_perm {l l' : List Nat} (h : l.Perm l') : maxL l = maxL l' := by
  induction h with
  | nil => rfl
  | cons x _ ih => simp [maxL, ih]
  | swap x y l => simp only [maxL]; omega
  | trans _ _ ih1 ih2 => rw [ih1, ih2]

theorem bucket_length_le (ms : List Nat) (d : String) (v : Nat) :
    (bucket t ms d v).length ≤ ms.length := List.length_filter_le _ _

theorem maxBucket_le (ms : List Nat) (d : String) : maxBucket t ms d ≤ ms.length := by
  unfold maxBucket
  apply maxL_le
  intro x hx
  rw [List.mem_map] at hx
  obtain ⟨v, _, e⟩ := hx
  rw [← e]
  exact bucket_length_le t ms d v

theorem mem_values_of_bucket {ms : List Nat} {d : String} {v : Nat} {m : Nat}
    (h : m ∈ bucket t ms d v) : v ∈ values t ms d := by
  unfold bucket at h
  rw [List.mem_filter] at h
  unfold values
  rw [List.mem_flatMap]
  exact ⟨m, h.1, by simpa using h.2⟩

theorem bucket_le_maxBucket {ms : List Nat} {d : String} {v : Nat} (h : v ∈ values t ms d) :
    (bucket t ms d v).length ≤ maxBucket t ms d := by
  unfold maxBucket
  apply le_maxL
  exact List.mem_map.mpr ⟨v, h, rfl⟩

/-- a sub-union is strictly smaller -/
theorem bucket_lt {dord : List String → List String} {ms : List Nat} {d : String}
    (hs : litSelect dord t ms = some d) {v : Nat} {m : Nat} (hm : m ∈ bucket t ms d v) :
    (bucket t ms d v).length < ms.length := by
  have h1 := bucket_le_maxBucket t (mem_values_of_bucket t hm)
  have h2 := maxBucket_le t ms d
  have h3 := (litSelect_some t hs).2
  omega

/-! ### permutation invariance -/

theorem bucket_perm {ms ms' : List Nat} (h : ms.Perm ms') (d : String) (v : Nat) :
    (bucket t ms d v).Perm (bucket t ms' d v) := h.filter _

theorem values_perm {ms ms' : List Nat} (h : ms.Perm ms') (d : String) :
    (values t ms d).Perm (values t ms' d) := by
  unfold values
  exact h.flatMap_right _

theorem maxBucket_perm {ms ms' : List Nat} (h : ms.Perm ms') (d : String) :
    maxBucket t ms d = maxBucket t ms' d := by
  unfold maxBucket
  have : (fun v => (bucket t ms d v).length) = (fun v => (bucket t ms' d v).length) := by
    funext v; exact (bucket_perm t h d v).length_eq
  rw [this]
  exact maxL_perm ((values_perm t h d).map _)

theorem litNames_nodup {c : CSig} (hwf : c.WF) : c.litNames.Nodup := by
  unfold CSig.litNames
  exact List.Nodup.sublist (List.Sublist.map _ List.filter_sublist) hwf.1

theorem discs_nodup (hwf : t.WF) (ms : List Nat) : (discs t ms).Nodup := by
  cases ms with
  | nil => simp [discs]
  | cons m rest =>
    unfold discs
    exact (litNames_nodup (cls_WF t hwf m)).filter _

theorem discs_perm (hwf : t.WF) {ms ms' : List Nat} (h : ms.Perm ms') :
    (discs t ms).Perm (discs t ms') := by
  rw [List.perm_ext_iff_of_nodup (discs_nodup t hwf ms) (discs_nodup t hwf ms')]
  intro d
  cases ms with
  | nil => rw [List.nil_perm.mp h]
  | cons m rest =>
    cases ms' with
    | nil => exact absurd (List.perm_nil.mp h) (by simp)
    | cons m' rest' =>
      rw [discs_mem_iff, discs_mem_iff]
      constructor
      · intro hh x hx; exact hh x (h.mem_iff.mpr hx)
      · intro hh x hx; exact hh x (h.mem_iff.mp hx)

end Lit

/-! ### `sorted` -/

theorem insertStr_perm (x : String) (l : List String) : (insertStr x l).Perm (x :: l) := by
  induction l with
  | nil => exact List.Perm.refl _
  | cons y ys ih =>
    unfold insertStr
    split
    · exact List.Perm.refl _
    · exact (List.Perm.cons y ih).trans (List.Perm.swap x y ys)

theorem sortStr_perm (l : List String) : (sortStr l).Perm l := by
  induction l with
  | nil => exact List.Perm.refl _
  | cons x xs ih =>
    unfold sortStr
    exact (insertStr_perm x _).trans (List.Perm.cons x ih)

theorem insertStr_sorted (x : String) (l : List String) (h : l.Pairwise (· ≤ ·)) :
    (insertStr x l).Pairwise (· ≤ ·) := by
  induction l with
  | nil => simp [insertStr]
  | cons y ys ih =>
    rw [List.pairwise_cons] at h
    unfold insertStr
    split
    · rename_i hxy
      rw [List.pairwise_cons]
      refine ⟨?_, List.pairwise_cons.mpr h⟩
      intro z hz
      rw [List.mem_cons] at hz
      rcases hz with e | hz
      · rw [e]; exact hxy
      · exact String.le_trans hxy (h.1 z hz)
    · rename_i hxy
      have hyx : y ≤ x := by
        rcases String.le_total x y with h1 | h1
        · exact absurd h1 hxy
        · exact h1
      rw [List.pairwise_cons]
      refine ⟨?_, ih h.2⟩
      intro z hz
      have := (insertStr_perm x ys).mem_iff.mp hz
      rw [List.mem_cons] at this
      rcases this with e | hz'
      · rw [e]; exact hyx
      · exact h.1 z hz'

theorem sortStr_sorted (l : List String) : (sortStr l).Pairwise (· ≤ ·) := by
  induction l with
  | nil => simp [sortStr]
  | cons x xs ih => unfold sortStr; exact insertStr_sorted x _ ih

/-- `sorted` of a set does not depend on how the set was enumerated -/
theorem sortStr_eq_of_perm {l l' : List String} (h : l.Perm l') : sortStr l = sortStr l' := by
  apply List.Perm.eq_of_pairwise (le := (· ≤ ·))
  · intro a b _ _ hab hba; exact String.le_antisymm hab hba
  · exact sortStr_sorted l
  · exact sortStr_sorted l'
  · exact (sortStr_perm l).trans (h.trans (sortStr_perm l').symm)

theorem litSelect_perm (t : Table) (hwf : t.WF) {ms ms' : List Nat} (h : ms.Perm ms') :
    litSelect sortStr t ms = litSelect sortStr t ms' := by
  unfold litSelect
  have h1 : maxBucket t ms = maxBucket t ms' := by funext d; exact maxBucket_perm t h d
  rw [h1, sortStr_eq_of_perm (discs_perm t hwf h), h.length_eq]

/-! ## Part C — the recursion through sub-unions -/

theorem demote_ok {o : Outcome} {j : Nat} (h : demote o = .ok j) : o = .ok j := by
  cases o <;> simp [demote] at h ⊢
  exact h

theorem keysOf_of_payload {t : Table} {k : Nat} {p : Payload} (hp : PayloadOf t k p) :
    KeysOf t k (pkeys p) := ⟨hp.1, hp.2.1⟩

theorem lookup_of_mem_keys : ∀ (p : Payload) (d : String), d ∈ pkeys p → ∃ v, p.lookup d = some v := by
  intro p
  induction p with
  | nil => intro d h; simp [pkeys] at h
  | cons kv rest ih =>
    intro d h
    obtain ⟨k, v⟩ := kv
    rw [List.lookup_cons]
    by_cases e : d == k
    · simp [e]
    · simp [e]
      simp [pkeys] at h
      rcases h with h | h
      · simp [h] at e
      · obtain ⟨v', hv'⟩ := h
        exact ih d (by simp [pkeys]; exact ⟨v', hv'⟩)

/-- the discriminator selected is a literal field of every member -/
theorem litSelect_litName {dord : List String → List String} (hsub : ∀ l x, x ∈ dord l → x ∈ l)
    {t : Table} {ms : List Nat} {d : String} (h : litSelect dord t ms = some d) :
    ∀ m ∈ ms, d ∈ (t.cls m).litNames :=
  mem_discs t (hsub _ _ (litSelect_some t h).1)

theorem sortStr_sub : ∀ l x, x ∈ sortStr l → x ∈ l :=
  fun l _ h => (sortStr_perm l).mem_iff.mp h

/-- **never wrong**, for every enumeration used in the discriminator loop (so also before the
hash-seed repair), every set iteration order, every fuel. -/
theorem resolveF_never_wrong (dord : List String → List String) (hsub : ∀ l x, x ∈ dord l → x ∈ l)
    (so : SetOrder) (t : Table) (hwf : t.WF) (p : Payload) :
    ∀ (n : Nat) (ms : List Nat), ms.Nodup → ∀ k ∈ ms, PayloadOf t k p →
      ∀ j, resolveF dord so t n ms p = .ok j → j = k := by
  intro n
  induction n with
  | zero => intro ms _ k _ _ j h; simp [resolveF] at h
  | succ n ih =>
    intro ms hnd k hk hp j h
    unfold resolveF at h
    split at h
    · simp at h
    · split at h
      · rename_i d hd
        split at h
        · simp at h
        · rename_i v hv
          have hkb : k ∈ bucket t ms d v :=
            member_in_bucket t hwf hk hp (litSelect_litName hsub hd k hk) hv
          split at h
          · simp at h
          · rename_i m hb
            rw [hb] at hkb
            simp at hkb
            simp at h
            rw [← h, hkb]
          · rename_i m m' rest hb
            have hndb : (bucket t ms d v).Nodup := hnd.filter _
            rw [hb] at hkb hndb
            exact ih _ hndb k hkb hp j (demote_ok h)
      · rename_i hnone
        split at h
        · simp at h
        · rename_i pins fb hmk
          have := uniq_correct so t ms hnd pins fb hmk k hk (pkeys p) (keysOf_of_payload hp)
          rw [this] at h
          simp at h
          exact h.symm

/-- **complete**: if creation succeeds here and in every reachable sub-union, a member payload with its
literal keys present resolves to its member. -/
theorem resolveF_complete (so : SetOrder) (t : Table) (hwf : t.WF) (p : Payload) :
    ∀ (n : Nat) (ms : List Nat), ms.Nodup → ∀ k ∈ ms, PayloadOf t k p → LitKeysPresent t k p →
      deepOk so t n ms = true → resolveF sortStr so t n ms p = .ok k := by
  intro n
  induction n with
  | zero => intro ms _ k _ _ _ h; simp [deepOk] at h
  | succ n ih =>
    intro ms hnd k hk hp hl h
    unfold deepOk at h
    rw [Bool.and_eq_true] at h
    obtain ⟨hlen, h⟩ := h
    have hlen' : ¬ ms.length < 2 := by simp at hlen; omega
    unfold resolveF
    rw [if_neg hlen']
    split at h
    · rename_i d hd
      try simp only [hd]
      have hdk := litSelect_litName sortStr_sub hd k hk
      obtain ⟨f, hf, hn, hlit⟩ := mem_litNames hdk
      have hkey : f.key = d := by rw [(cls_WF t hwf k).2 f hf hlit, hn]
      obtain ⟨v, hv⟩ := lookup_of_mem_keys p d (by rw [← hkey]; exact hl f hf hlit)
      simp only [hv]
      have hkb : k ∈ bucket t ms d v := member_in_bucket t hwf hk hp hdk hv
      rw [List.all_eq_true] at h
      have hvv := h v (mem_values_of_bucket t hkb)
      split
      · rename_i hb; rw [hb] at hkb; simp at hkb
      · rename_i m hb; rw [hb] at hkb; simp at hkb; rw [hkb]
      · rename_i m m' rest hb
        have hndb : (bucket t ms d v).Nodup := hnd.filter _
        rw [hb] at hkb hndb hvv
        simp only at hvv
        rw [ih _ hndb k hkb hp hl hvv]
        rfl
    · rename_i hnone
      try simp only [hnone]
      cases hmk : mkUniq so t ms with
      | none => rw [hmk] at h; simp at h
      | some r =>
        obtain ⟨pins, fb⟩ := r
        simp only
        rw [uniq_correct so t ms hnd pins fb hmk k hk (pkeys p) (keysOf_of_payload hp)]

/-- **order and hash-seed independence** of the whole decision, for member payloads -/
theorem resolveF_perm (so so' : SetOrder) (t : Table) (hwf : t.WF) (p : Payload) :
    ∀ (n : Nat) (ms ms' : List Nat), ms.Perm ms' → ms.Nodup → ∀ k ∈ ms, PayloadOf t k p →
      resolveF sortStr so t n ms p = resolveF sortStr so' t n ms' p := by
  intro n
  induction n with
  | zero => intro ms ms' _ _ k _ _; simp [resolveF]
  | succ n ih =>
    intro ms ms' hperm hnd k hk hp
    have hnd' : ms'.Nodup := hperm.nodup_iff.mp hnd
    have hk' : k ∈ ms' := hperm.mem_iff.mp hk
    unfold resolveF
    rw [← hperm.length_eq, ← litSelect_perm t hwf hperm]
    split
    · rfl
    · cases hd : litSelect sortStr t ms with
      | some d =>
        simp only
        cases hv : p.lookup d with
        | none => rfl
        | some v =>
          simp only
          have hkb : k ∈ bucket t ms d v :=
            member_in_bucket t hwf hk hp (litSelect_litName sortStr_sub hd k hk) hv
          have hbp := bucket_perm t hperm d v
          have hndb : (bucket t ms d v).Nodup := hnd.filter _
          generalize bucket t ms d v = b at hkb hbp hndb
          generalize bucket t ms' d v = b' at hbp
          match b, b', hbp, hkb, hndb with
          | [], _, _, hkb, _ => simp at hkb
          | [m], b', hbp, _, _ =>
            have : b' = [m] := List.perm_singleton.mp hbp.symm
            rw [this]
          | m :: m' :: rest, [], hbp, _, _ => exact absurd (List.perm_nil.mp hbp) (by simp)
          | m :: m' :: rest, [x], hbp, _, _ =>
            have := hbp.length_eq
            simp at this
          | m :: m' :: rest, x :: x' :: rest', hbp, hkb, hndb =>
            simp only
            rw [ih _ _ hbp hndb k hkb hp]
      | none =>
        simp only
        have hsome := mkUniq_isSome_perm t so so' ms ms' hperm
        cases h1 : mkUniq so t ms with
        | none =>
          rw [h1] at hsome
          cases h2 : mkUniq so' t ms' with
          | none => rfl
          | some r => rw [h2] at hsome; simp at hsome
        | some r =>
          rw [h1] at hsome
          cases h2 : mkUniq so' t ms' with
          | none => rw [h2] at hsome; simp at hsome
          | some r' =>
            obtain ⟨pins, fb⟩ := r
            obtain ⟨pins', fb'⟩ := r'
            simp only
            rw [uniq_correct so t ms hnd pins fb h1 k hk (pkeys p) (keysOf_of_payload hp),
                uniq_correct so' t ms' hnd' pins' fb' h2 k hk' (pkeys p) (keysOf_of_payload hp)]

/-! ## Part D — refusal when two members have no unique required key against each other -/

/-- every key of `a` that the disambiguator regards as required is also a key of `b` -/
def Shadowed (t : Table) (a b : Nat) : Prop :=
  ∀ k ∈ (t.cls a).keys, (t.cls a).keyIsReq k = true → k ∈ (t.cls b).keys

theorem not_pinnable_of_shadowed (t : Table) {rem : List Nat} {a b : Nat} (hb : b ∈ rem) (hne : b ≠ a)
    (hs : Shadowed t a b) : pinnable t rem a = false := by
  unfold pinnable
  rw [List.any_eq_false]
  intro k hk
  unfold uniqKeys at hk
  rw [List.mem_filter] at hk
  have h2 := hk.2
  rw [List.all_eq_true] at h2
  have h3 := h2 b hb
  simp [hne] at h3
  intro hreq
  exact h3 (hs k hk.1 hreq)

theorem fix_keeps (so : SetOrder) (t : Table) {a b : Nat} (hne : a ≠ b)
    (hab : Shadowed t a b) (hba : Shadowed t b a) (n : Nat) :
    ∀ {rem pins}, a ∈ rem → b ∈ rem → a ∈ (fix so t n rem pins).2 ∧ b ∈ (fix so t n rem pins).2 := by
  induction n with
  | zero => intro rem pins ha hb; exact ⟨ha, hb⟩
  | succ n ih =>
    intro rem pins ha hb
    unfold fix
    simp only
    split
    · exact ⟨ha, hb⟩
    · apply ih
      · rw [next_eq, List.mem_filter]
        exact ⟨ha, by simp [not_pinnable_of_shadowed t hb hne.symm hab]⟩
      · rw [next_eq, List.mem_filter]
        exact ⟨hb, by simp [not_pinnable_of_shadowed t ha hne hba]⟩

theorem length_gt_one_of_two_mem {l : List Nat} {a b : Nat} (ha : a ∈ l) (hb : b ∈ l) (hne : a ≠ b) :
    l.length > 1 := by
  match l, ha, hb with
  | [], ha, _ => simp at ha
  | [x], ha, hb =>
    simp at ha hb
    exact absurd (ha.trans hb.symm) hne
  | _ :: _ :: _, _, _ => simp

theorem mkUniq_none_of_shadowed (so : SetOrder) (t : Table) {ms : List Nat} {a b : Nat}
    (ha : a ∈ ms) (hb : b ∈ ms) (hne : a ≠ b) (hab : Shadowed t a b) (hba : Shadowed t b a) :
    mkUniq so t ms = Option.none := by
  unfold mkUniq
  simp only
  have ha' : a ∈ sortDesc t ms := (sortDesc_perm t ms).mem_iff.mpr ha
  have hb' : b ∈ sortDesc t ms := (sortDesc_perm t ms).mem_iff.mpr hb
  obtain ⟨h1, h2⟩ := fix_keeps so t hne hab hba (ms.length + 1) (pins := []) ha' hb'
  rw [if_pos (length_gt_one_of_two_mem h1 h2 hne)]

/-! ## Part E — small facts used by the property statements -/

theorem resolveF_ne_none (dord : List String → List String) (so : SetOrder) (t : Table) (p : Payload) :
    ∀ (n : Nat) (ms : List Nat), resolveF dord so t n ms p ≠ Outcome.none := by
  intro n
  induction n with
  | zero => intro ms; simp [resolveF]
  | succ n ih =>
    intro ms
    unfold resolveF
    split
    · simp
    · split
      · split
        · simp
        · split
          · simp
          · simp
          · intro h
            rename_i m m' rest hb
            have := ih (m :: m' :: rest)
            generalize resolveF dord so t n (m :: m' :: rest) p = o at h this
            cases o <;> simp [demote] at h this
      · split
        · simp
        · split <;> simp

/-- the fuel of `resolveF` is only a termination device: any two sufficient amounts give the same answer
(so `resolve`, which uses the number of members, loses nothing). -/
theorem resolveF_fuel_irrelevant (dord : List String → List String) (so : SetOrder) (t : Table) (p : Payload) :
    ∀ (n n' : Nat) (ms : List Nat), ms.length ≤ n → ms.length ≤ n' → 0 < n → 0 < n' →
      resolveF dord so t n ms p = resolveF dord so t n' ms p := by
  intro n
  induction n with
  | zero => intro n' ms _ _ h; omega
  | succ k ih =>
    intro n' ms h1 h2 _ h4
    obtain ⟨k', hk'⟩ : ∃ k', n' = k' + 1 := ⟨n' - 1, by omega⟩
    subst hk'
    unfold resolveF
    split
    · rfl
    · cases hd : litSelect dord t ms with
      | none => rfl
      | some d =>
        simp only
        cases hv : p.lookup d with
        | none => rfl
        | some v =>
          simp only
          cases hb : bucket t ms d v with
          | nil => rfl
          | cons m r =>
            cases r with
            | nil => rfl
            | cons m' rest =>
              simp only
              have hm : m ∈ bucket t ms d v := by rw [hb]; simp
              have hlt := bucket_lt t hd hm
              rw [hb] at hlt
              simp only [List.length_cons] at hlt h1 h2 ⊢
              rw [ih k' (m :: m' :: rest) (by simp only [List.length_cons]; omega)
                    (by simp only [List.length_cons]; omega) (by omega) (by omega)]

/-- executable versions of the hypotheses (used for the non-vacuity examples and by the driver) -/
def payloadOfB (t : Table) (c : Nat) (p : Payload) : Bool :=
  (t.cls c).fields.all (fun f => !f.dreq || (pkeys p).contains f.key) &&
  (pkeys p).all (fun k => (t.cls c).keys.contains k) &&
  (t.cls c).fields.all (fun f =>
    match f.lit, p.lookup f.key with
    | some vs, some v => vs.contains v
    | _, _ => true)

theorem payloadOfB_sound {t : Table} {c : Nat} {p : Payload} (h : payloadOfB t c p = true) :
    PayloadOf t c p := by
  unfold payloadOfB at h
  simp only [Bool.and_eq_true] at h
  obtain ⟨⟨h1, h2⟩, h3⟩ := h
  rw [List.all_eq_true] at h1 h2 h3
  refine ⟨?_, ?_, ?_⟩
  · intro f hf hr
    have := h1 f hf
    simpa [hr] using this
  · intro k hk
    simpa using h2 k hk
  · intro f hf vs v hl hv
    have := h3 f hf
    rw [hl, hv] at this
    simpa using this

def litKeysPresentB (t : Table) (c : Nat) (p : Payload) : Bool :=
  (t.cls c).fields.all (fun f => !f.lit.isSome || (pkeys p).contains f.key)

theorem litKeysPresentB_sound {t : Table} {c : Nat} {p : Payload} (h : litKeysPresentB t c p = true) :
    LitKeysPresent t c p := by
  unfold litKeysPresentB at h
  rw [List.all_eq_true] at h
  intro f hf hl
  have := h f hf
  simpa [hl] using this

def nodupB : List String → Bool
  | [] => true
  | x :: xs => !xs.contains x && nodupB xs

theorem nodupB_sound : ∀ l, nodupB l = true → l.Nodup := by
  intro l
  induction l with
  | nil => intro _; exact List.nodup_nil
  | cons x xs ih =>
    intro h
    simp only [nodupB, Bool.and_eq_true] at h
    rw [List.nodup_cons]
    exact ⟨by simpa using h.1, ih h.2⟩

def wfB (t : Table) : Bool :=
  t.all (fun c => nodupB (c.fields.map (·.name)) && c.fields.all (fun f => !f.lit.isSome || f.key == f.name))

theorem wfB_sound {t : Table} (h : wfB t = true) : t.WF := by
  unfold wfB at h
  rw [List.all_eq_true] at h
  intro c hc
  have := h c hc
  rw [Bool.and_eq_true] at this
  refine ⟨nodupB_sound _ this.1, ?_⟩
  intro f hf hl
  have h2 := this.2
  rw [List.all_eq_true] at h2
  have := h2 f hf
  simpa [hl] using this

end CattrsModel.Disambig
