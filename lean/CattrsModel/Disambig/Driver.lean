import CattrsModel.Sexp
import CattrsModel.Disambig.Lemmas
/-!
# Line-protocol operation of the disambiguator model (driver only)

`DIS <table> <members> <hasNone> <payloads>`

* `<table>`    `((<field>…) …)` one list per class; `<field>` = `(<name> <key> <dreq 0|1> <lit>)` with
               `<name>`/`<key>` string literals and `<lit>` = `N` or `(<nat>…)`
* `<members>`  `(<class index>…)` the union's members in order
* `<hasNone>`  `0|1`
* `<payloads>` `(<payload>…)`, `<payload>` = `N` (Python `None`) or `((<key> <nat>)…)`

reply `((wf b) (create b) (lit <name>|N) (deep b) (sub b) (passes n) (out <outcome>…))`, `<outcome>` = `(ok k)` | `none` |
`refuse-create` | `refuse-resolve`, one per payload.  The set iteration order used is the identity; by
`C12_order` the outcome for a member payload does not depend on it.
-/
namespace CattrsModel.Disambig
open CattrsModel Sexp

def strOf? : Sexp → Option String
  | .str s => some s
  | _ => Option.none

def fieldOfSexp : Sexp → Option Field
  | .list [n, k, r, l] => do
      let n ← strOf? n; let k ← strOf? k; let r ← bool? r
      let l ← match l with
        | .atom "N" => some Option.none
        | .list vs => (vs.mapM atomNat?).map some
        | _ => Option.none
      pure ⟨n, k, r, l⟩
  | _ => Option.none

def tableOfSexp : Sexp → Option Table
  | .list cs => cs.mapM (fun (c : Sexp) => match c with
      | .list fs => (fs.mapM fieldOfSexp).map CSig.mk
      | _ => Option.none)
  | _ => Option.none

def payloadOfSexp : Sexp → Option (Option Payload)
  | .atom "N" => some Option.none
  | .list kvs => (kvs.mapM (fun (kv : Sexp) => match kv with
      | .list [k, v] => do let k ← strOf? k; let v ← atomNat? v; pure (k, v)
      | _ => Option.none)).map some
  | _ => Option.none

def sexpOfOutcome : Outcome → Sexp
  | .ok k => .list [.atom "ok", ofNat k]
  | .none => .atom "none"
  | .refuseCreate => .atom "refuse-create"
  | .refuseResolve => .atom "refuse-resolve"

/-- number of productive passes of the fixpoint loop (evidence histogram only) -/
def passCount (so : SetOrder) (t : Table) : Nat → List Nat → Nat
  | 0, _ => 0
  | n+1, rem =>
    let p := pass so t rem
    if p.isEmpty then 0
    else 1 + passCount so t n (rem.filter (fun c => !((p.map (·.2)).contains c)))

def disambigHandle (op : String) (args : List Sexp) : Option Sexp :=
  match op, args with
  | "DIS", [tb, ms, hn, ps] => do
      let t ← tableOfSexp tb
      let ms ← match ms with
        | .list xs => xs.mapM atomNat?
        | _ => Option.none
      let hn ← bool? hn
      let ps ← match ps with
        | .list xs => xs.mapM payloadOfSexp
        | _ => Option.none
      let so := SetOrder.id
      let outs := ps.map (fun p => sexpOfOutcome (unionStructure so t hn ms p))
      let lit := match litSelect sortStr t ms with
        | some d => Sexp.str d
        | Option.none => Sexp.atom "N"
      pure (.list [.list [.atom "wf", ofBool (wfB t)],
                   .list [.atom "create", ofBool (createOk so t ms)],
                   .list [.atom "lit", lit],
                   .list [.atom "deep", ofBool (deepOk so t ms.length ms)],
                   .list [.atom "sub", ofBool (match litSelect sortStr t ms with
                     | some d => (values t ms d).any (fun v => decide ((bucket t ms d v).length ≥ 2))
                     | Option.none => false)],
                   .list [.atom "passes", ofNat (passCount so t (ms.length + 1) (sortDesc t ms))],
                   .list (.atom "out" :: outs)])
  | _, _ => Option.none

end CattrsModel.Disambig
