/-!
# Automatic union disambiguation (`cattrs/disambiguators.py: create_default_dis_func`,
# `converters.py: _gen_attrs_union_structure / _get_dis_func / _structure_optional`)

The model follows the code line by line (state of the tree after the two repairs
"unique-field disambiguation no longer depends on member order" and
"literal discriminator choice no longer depends on the hash seed"):

* a class is a list of fields; a field has its attribute `name`, the `key` under which it appears in the
  unstructured dict (`override(rename=…)`, else the name), the flag `dreq` = what the disambiguator takes
  for "has no default" (`cl_fields[name].default in (NOTHING, MISSING)` — true also for a dataclass field
  that only has a `default_factory`), and, for `Literal[...]`-typed fields, the literal values (coded as
  naturals by the harness; distinct Python values ↦ distinct codes);
* a union is a list `ms` of indices into the class table (identity of classes = index);
* Python `set` iteration (`for name in uniq`) is an ARBITRARY enumeration `SetOrder.iter`; every theorem is
  stated for all `SetOrder`s, which is how hash-seed independence becomes a theorem;
* the discriminator loop runs over `sorted(discriminators)`; the model is parametrised by the enumeration
  `dord` used there (`sortStr` for the code as it is; the parameter exists only so that the regression
  witness for the pre-repair behaviour can be stated).

No Mathlib.
-/
namespace CattrsModel.Disambig

structure Field where
  name : String
  key : String
  dreq : Bool
  lit : Option (List Nat)
  deriving Repr, DecidableEq, Inhabited

structure CSig where
  fields : List Field
  deriving Repr, DecidableEq, Inhabited

abbrev Table := List CSig

def Table.cls (t : Table) (i : Nat) : CSig := t.getD i ⟨[]⟩

/-- unstructured dict: key ↦ value code (only keys, and the values under literal keys, matter) -/
abbrev Payload := List (String × Nat)

def pkeys (p : Payload) : List String := p.map (·.1)

inductive Outcome where
  | ok (k : Nat)        -- structured as member `k`
  | none                -- `None` returned (optional wrapper)
  | refuseCreate        -- hook creation raises
  | refuseResolve       -- structuring raises
  deriving Repr, DecidableEq, Inhabited

/-- iteration order of a Python `set[str]` -/
structure SetOrder where
  iter : List String → List String
  perm : ∀ l, (iter l).Perm l

def SetOrder.id : SetOrder := ⟨fun l => l, fun _ => List.Perm.refl _⟩
def SetOrder.rev : SetOrder := ⟨List.reverse, fun l => List.reverse_perm l⟩

/-! ## `sorted(...)` on strings -/

def insertStr (x : String) : List String → List String
  | [] => [x]
  | y :: ys => if x ≤ y then x :: y :: ys else y :: insertStr x ys

def sortStr : List String → List String
  | [] => []
  | x :: xs => insertStr x (sortStr xs)

/-! ## literal-discriminator path -/

/-- `{at.name for at in fields(cl) if is_literal(at.type)}` -/
def CSig.litNames (c : CSig) : List String :=
  (c.fields.filter (fun f => f.lit.isSome)).map (·.name)

/-- `get_args(fields_dict(cl)[d].type)` -/
def CSig.litOf (c : CSig) (d : String) : List Nat :=
  match c.fields.find? (fun f => f.name == d) with
  | some f => f.lit.getD []
  | Option.none => []

/-- literal field names common to all members -/
def discs (t : Table) : List Nat → List String
  | [] => []
  | m :: rest => (t.cls m).litNames.filter (fun d => rest.all (fun m' => (t.cls m').litNames.contains d))

/-- `mapping[v]` : the members (in member order) whose literal set for `d` contains `v` -/
def bucket (t : Table) (ms : List Nat) (d : String) (v : Nat) : List Nat :=
  ms.filter (fun m => ((t.cls m).litOf d).contains v)

/-- the keys of `mapping` (with repetitions, harmless) -/
def values (t : Table) (ms : List Nat) (d : String) : List Nat :=
  ms.flatMap (fun m => (t.cls m).litOf d)

def maxL : List Nat → Nat
  | [] => 0
  | x :: xs => max x (maxL xs)

/-- `max(len(v) for v in mapping.values())` -/
def maxBucket (t : Table) (ms : List Nat) (d : String) : Nat :=
  maxL ((values t ms d).map (fun v => (bucket t ms d v).length))

/-- the `for discriminator in …: if best is None or max… <= max…(best): best = discriminator` loop -/
def pickDisc (score : String → Nat) : List String → Option String → Option String
  | [], best => best
  | d :: ds, Option.none => pickDisc score ds (some d)
  | d :: ds, some b => pickDisc score ds (if score d ≤ score b then some d else some b)

/-- the discriminator used, if the literal path is taken (`… and max(…) != len(classes)`) -/
def litSelect (dord : List String → List String) (t : Table) (ms : List Nat) : Option String :=
  match pickDisc (maxBucket t ms) (dord (discs t ms)) Option.none with
  | some d => if maxBucket t ms d ≠ ms.length then some d else Option.none
  | Option.none => Option.none

/-! ## unique-required-field path (fixpoint, single fallback) -/

def CSig.keys (c : CSig) : List String := c.fields.map (·.key)

def dedupStr : List String → List String
  | [] => []
  | x :: xs => if xs.contains x then dedupStr xs else x :: dedupStr xs

/-- `len(c_a[1])`: number of distinct (renamed) field names -/
def CSig.nkeys (c : CSig) : Nat := (dedupStr c.keys).length

/-- `cl_fields[back_map[k]].default in (NOTHING, MISSING)`; `back_map` keeps the LAST field renamed to `k` -/
def CSig.keyIsReq (c : CSig) (k : String) : Bool :=
  match c.fields.reverse.find? (fun f => f.key == k) with
  | some f => f.dreq
  | Option.none => false

/-- stable insertion of `x` into a list sorted by `nkeys` descending -/
def insertDesc (t : Table) (x : Nat) : List Nat → List Nat
  | [] => [x]
  | y :: ys => if (t.cls y).nkeys > (t.cls x).nkeys then y :: insertDesc t x ys else x :: y :: ys

/-- `sorted(cls_and_attrs, key=lambda c_a: len(c_a[1]), reverse=True)` (stable) -/
def sortDesc (t : Table) : List Nat → List Nat
  | [] => []
  | x :: xs => insertDesc t x (sortDesc t xs)

/-- `cl_reqs - other_reqs` where `other_reqs` is the union of the key sets of the other remaining classes -/
def uniqKeys (t : Table) (rem : List Nat) (c : Nat) : List String :=
  (t.cls c).keys.filter (fun k => rem.all (fun c' => c' == c || !((t.cls c').keys.contains k)))

/-- `for name in uniq: if <no default>: pin; break` -/
def pinOf (so : SetOrder) (t : Table) (rem : List Nat) (c : Nat) : Option String :=
  (so.iter (uniqKeys t rem c)).find? (fun k => (t.cls c).keyIsReq k)

/-- one pass of the `while made_progress` loop: the new `uniq_attrs_dict` entries, in order -/
def pass (so : SetOrder) (t : Table) (rem : List Nat) : List (String × Nat) :=
  rem.filterMap (fun c => (pinOf so t rem c).map (fun k => (k, c)))

/-- the loop (fuel = number of classes + 1 is enough: every productive pass pins at least one class) -/
def fix (so : SetOrder) (t : Table) : Nat → List Nat → List (String × Nat) → List (String × Nat) × List Nat
  | 0, rem, pins => (pins, rem)
  | n+1, rem, pins =>
    let p := pass so t rem
    if p.isEmpty then (pins, rem)
    else fix so t n (rem.filter (fun c => !((p.map (·.2)).contains c))) (pins ++ p)

/-- `uniq_attrs_dict` (insertion order) and the fallback; `none` = `TypeError("Could not disambiguate …")` -/
def mkUniq (so : SetOrder) (t : Table) (ms : List Nat) : Option (List (String × Nat) × Option Nat) :=
  let r := fix so t (ms.length + 1) (sortDesc t ms) []
  if r.2.length > 1 then Option.none else some (r.1, r.2.head?)

/-- `for k, v in uniq_attrs_dict.items(): if k in data: return v` ; then the fallback, else raise -/
def resolveU (pins : List (String × Nat)) (fb : Option Nat) (keys : List String) : Option Nat :=
  match pins.find? (fun p => keys.contains p.1) with
  | some p => some p.2
  | Option.none => fb

/-! ## the decision for a payload, including the recursion through sub-unions -/

/-- a failing hook creation for a sub-union happens while structuring -/
def demote : Outcome → Outcome
  | .refuseCreate => .refuseResolve
  | o => o

/-- `structure(p, Union[ms])` as far as the choice of the class goes.
Fuel: the number of members; every sub-union is strictly smaller. -/
def resolveF (dord : List String → List String) (so : SetOrder) (t : Table) : Nat → List Nat → Payload → Outcome
  | 0, _, _ => .refuseResolve
  | n+1, ms, p =>
    if ms.length < 2 then .refuseCreate else
    match litSelect dord t ms with
    | some d =>
      match p.lookup d with
      | Option.none => .refuseResolve                     -- KeyError: data[best_discriminator]
      | some v =>
        match bucket t ms d v with
        | [] => .refuseResolve                            -- KeyError: final_mapping[v]
        | [m] => .ok m
        | m :: m' :: rest => demote (resolveF dord so t n (m :: m' :: rest) p)   -- Union[tuple(v)]
    | Option.none =>
      match mkUniq so t ms with
      | Option.none => .refuseCreate
      | some (pins, fb) =>
        match resolveU pins fb (pkeys p) with
        | some m => .ok m
        | Option.none => .refuseResolve

def resolve (so : SetOrder) (t : Table) (ms : List Nat) (p : Payload) : Outcome :=
  resolveF sortStr so t ms.length ms p

/-- does `create_default_dis_func(*ms)` return (rather than raise)? -/
def createOk (so : SetOrder) (t : Table) (ms : List Nat) : Bool :=
  decide (2 ≤ ms.length) && ((litSelect sortStr t ms).isSome || (mkUniq so t ms).isSome)

/-- creation succeeds here and for every sub-union a member payload can be sent to -/
def deepOk (so : SetOrder) (t : Table) : Nat → List Nat → Bool
  | 0, _ => false
  | n+1, ms =>
    decide (2 ≤ ms.length) &&
    match litSelect sortStr t ms with
    | some d => (values t ms d).all (fun v =>
        match bucket t ms d v with
        | m :: m' :: rest => deepOk so t n (m :: m' :: rest)
        | _ => true)
    | Option.none => (mkUniq so t ms).isSome

/-- The union hook with the optional-`None` wrapper.  `Union[A, None]` is `is_optional` and goes to
`_structure_optional` (no disambiguation); with two or more classes the hook is
`_gen_attrs_union_structure` (created before anything is looked at, so a refused creation wins). -/
def unionStructure (so : SetOrder) (t : Table) (hasNone : Bool) (ms : List Nat) : Option Payload → Outcome
  | some p =>
    match hasNone, ms with
    | true, [m] => .ok m
    | _, _ => resolve so t ms p
  | Option.none =>
    match hasNone, ms with
    | true, [_] => .none
    | _, _ =>
      if createOk so t ms then (if hasNone then .none else .refuseResolve) else .refuseCreate

/-! ## specification vocabulary (used by the property statements) -/

/-- `p` is an unstructured form of an instance of member `c`: every key the disambiguator regards as
required is present (defaulted keys may be omitted), there are no foreign keys, and the value under every
literal-typed field is one of its literal values. -/
def PayloadOf (t : Table) (c : Nat) (p : Payload) : Prop :=
  (∀ f ∈ (t.cls c).fields, f.dreq = true → f.key ∈ pkeys p) ∧
  (∀ k ∈ pkeys p, k ∈ (t.cls c).keys) ∧
  (∀ f ∈ (t.cls c).fields, ∀ vs v, f.lit = some vs → p.lookup f.key = some v → v ∈ vs)

/-- the keys of all literal-typed fields are present (true of every `unstructure` output) -/
def LitKeysPresent (t : Table) (c : Nat) (p : Payload) : Prop :=
  ∀ f ∈ (t.cls c).fields, f.lit.isSome = true → f.key ∈ pkeys p

/-- attribute names of a class are distinct (always true in Python) and literal-typed fields are not
renamed (the literal path ignores renames: it reads `data[<attribute name>]`). -/
def CSig.WF (c : CSig) : Prop :=
  (c.fields.map (·.name)).Nodup ∧ ∀ f ∈ c.fields, f.lit.isSome = true → f.key = f.name

def Table.WF (t : Table) : Prop := ∀ c ∈ t, c.WF

def Outcome.isRefusal : Outcome → Bool
  | .refuseCreate => true
  | .refuseResolve => true
  | _ => false

end CattrsModel.Disambig
