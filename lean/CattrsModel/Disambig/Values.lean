import CattrsModel.Disambig.Lemmas
/-!
# What of a payload the disambiguator looks at

Only the KEYS of the dict, and the VALUES under keys that are `Literal`-typed attribute names of some class.  Hence the
value types of the other attributes — containers, nested classes, the `T` of a generic class and whatever it is bound
to in the parametrisation `K[arg]` the union member is written as — cannot influence which member is chosen
(`create_default_dis_func` works on `get_origin(cl) or cl`).  This is what lets the correspondence check code every
non-literal value as `0`.

No Mathlib.
-/
namespace CattrsModel.Disambig

/-- two payloads the disambiguator cannot tell apart -/
def SameView (t : Table) (p p' : Payload) : Prop :=
  pkeys p = pkeys p' ∧ ∀ d m, d ∈ (t.cls m).litNames → p.lookup d = p'.lookup d

theorem resolveF_sameView (so : SetOrder) (t : Table) (p p' : Payload) (h : SameView t p p') :
    ∀ (n : Nat) (ms : List Nat), resolveF sortStr so t n ms p = resolveF sortStr so t n ms p' := by
  intro n
  induction n with
  | zero => intro ms; rfl
  | succ k ih =>
    intro ms
    unfold resolveF
    split
    · rfl
    · rename_i hlen
      cases hd : litSelect sortStr t ms with
      | none => simp only [h.1]
      | some d =>
        simp only
        have hms : ∃ m, m ∈ ms := by
          cases ms with
          | nil => simp at hlen
          | cons m _ => exact ⟨m, by simp⟩
        obtain ⟨m, hm⟩ := hms
        have hlk : p.lookup d = p'.lookup d := h.2 d m (litSelect_litName sortStr_sub hd m hm)
        rw [hlk]
        cases p'.lookup d with
        | none => rfl
        | some v =>
          simp only
          cases bucket t ms d v with
          | nil => rfl
          | cons m r =>
            cases r with
            | nil => rfl
            | cons m' rest => simp only [ih (m :: m' :: rest)]

theorem unionStructure_sameView (so : SetOrder) (t : Table) (hasNone : Bool) (ms : List Nat) (p p' : Payload)
    (h : SameView t p p') : unionStructure so t hasNone ms (some p) = unionStructure so t hasNone ms (some p') := by
  simp only [unionStructure]
  split
  · rfl
  · exact resolveF_sameView so t p p' h ms.length ms

/-- executable version (non-vacuity example) -/
def sameViewB (t : Table) (p p' : Payload) : Bool :=
  pkeys p == pkeys p' && t.all (fun c => c.litNames.all (fun d => p.lookup d == p'.lookup d))

theorem cls_mem_or_empty (t : Table) (m : Nat) : t.cls m ∈ t ∨ t.cls m = ⟨[]⟩ := by
  unfold Table.cls
  by_cases hm : m < t.length
  · left
    simp [List.getD, List.getElem?_eq_getElem hm]
  · right
    simp [List.getD, List.getElem?_eq_none (Nat.le_of_not_lt hm)]

theorem sameViewB_sound {t : Table} {p p' : Payload} (h : sameViewB t p p' = true) : SameView t p p' := by
  simp only [sameViewB, Bool.and_eq_true, beq_iff_eq, List.all_eq_true] at h
  refine ⟨h.1, fun d m hd => ?_⟩
  cases cls_mem_or_empty t m with
  | inl hmem => exact h.2 _ hmem d hd
  | inr he => rw [he] at hd; simp [CSig.litNames] at hd

end CattrsModel.Disambig
