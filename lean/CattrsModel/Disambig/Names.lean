import CattrsModel.Disambig.Model
/-!
# The unique-required-field path does not look at attribute NAMES (nor at `__init__` aliases)

`_usable_attribute_names` turns every attribute into the dict key its hooks use (`override.rename`, else the name);
from there on `create_default_dis_func` works with keys and with "has no default" only.  `CSig.keyView` is that view;
two class tables with the same key view get the same pins, the same fallback and the same refusals -- whatever the
attributes are called (private `_x`, aliased, renamed).  Namespace `CattrsModel.Disambig` (file of the C12 lane).
-/
namespace CattrsModel.Disambig

/-- what the unique-field path sees of a class: per attribute, the dict key and "has no default" -/
def CSig.keyView (c : CSig) : List (String × Bool) := c.fields.map (fun f => (f.key, f.dreq))

/-- the two tables agree on the key view of every class -/
def SameKeyView (t t' : Table) : Prop := ∀ i, (t.cls i).keyView = (t'.cls i).keyView

theorem keys_of_keyView (c : CSig) : c.keys = c.keyView.map Prod.fst := by
  simp [CSig.keys, CSig.keyView, List.map_map, Function.comp_def]

private theorem find_dreq (k : String) : ∀ (l : List Field),
    ((l.find? (fun f => f.key == k)).map (·.dreq)) =
      ((l.map (fun f => (f.key, f.dreq))).find? (fun p => p.1 == k)).map Prod.snd
  | [] => rfl
  | f :: l => by
    by_cases h : (f.key == k) = true
    · simp [List.find?, h]
    · have h' : (f.key == k) = false := by simpa using h
      simp only [List.find?, List.map, h']
      exact find_dreq k l

theorem keyIsReq_of_keyView (c : CSig) (k : String) :
    c.keyIsReq k = (((c.keyView.reverse.find? (fun p => p.1 == k)).map Prod.snd).getD false) := by
  have h := find_dreq k c.fields.reverse
  unfold CSig.keyIsReq CSig.keyView
  rw [← List.map_reverse, ← h]
  cases c.fields.reverse.find? (fun f => f.key == k) <;> rfl

section
variable {t t' : Table} (h : SameKeyView t t')
include h

theorem SameKeyView.keys (i : Nat) : (t.cls i).keys = (t'.cls i).keys := by
  rw [keys_of_keyView, keys_of_keyView, h i]

theorem SameKeyView.keyIsReq (i : Nat) (k : String) : (t.cls i).keyIsReq k = (t'.cls i).keyIsReq k := by
  rw [keyIsReq_of_keyView, keyIsReq_of_keyView, h i]

theorem SameKeyView.nkeys (i : Nat) : (t.cls i).nkeys = (t'.cls i).nkeys := by
  simp only [CSig.nkeys, h.keys i]

theorem SameKeyView.insertDesc (x : Nat) : ∀ ys, insertDesc t x ys = insertDesc t' x ys
  | [] => rfl
  | y :: ys => by
    simp only [Disambig.insertDesc, h.nkeys y, h.nkeys x, SameKeyView.insertDesc x ys]

theorem SameKeyView.sortDesc : ∀ ms, sortDesc t ms = sortDesc t' ms
  | [] => rfl
  | x :: xs => by
    simp only [Disambig.sortDesc, SameKeyView.sortDesc xs, h.insertDesc x]

theorem SameKeyView.uniqKeys (rem : List Nat) (c : Nat) : uniqKeys t rem c = uniqKeys t' rem c := by
  simp only [Disambig.uniqKeys, h.keys]

theorem SameKeyView.pinOf (so : SetOrder) (rem : List Nat) (c : Nat) : pinOf so t rem c = pinOf so t' rem c := by
  simp only [Disambig.pinOf, h.uniqKeys, h.keyIsReq]

theorem SameKeyView.pass (so : SetOrder) (rem : List Nat) : pass so t rem = pass so t' rem := by
  simp only [Disambig.pass, h.pinOf]

theorem SameKeyView.fix (so : SetOrder) : ∀ n rem pins, fix so t n rem pins = fix so t' n rem pins
  | 0, _, _ => rfl
  | n + 1, rem, pins => by
    simp only [Disambig.fix, h.pass so rem, SameKeyView.fix so n]

theorem SameKeyView.mkUniq (so : SetOrder) (ms : List Nat) : mkUniq so t ms = mkUniq so t' ms := by
  simp only [Disambig.mkUniq, h.sortDesc, h.fix so]

end

end CattrsModel.Disambig

namespace CattrsModel.Disambig

/-- no `Literal`-typed attribute in any class of the table: the literal-discriminator path is never taken -/
def NoLits (t : Table) : Prop := ∀ i, ∀ f ∈ (t.cls i).fields, f.lit = Option.none

theorem NoLits.litNames {t : Table} (hl : NoLits t) (i : Nat) : (t.cls i).litNames = [] := by
  unfold CSig.litNames
  have : (t.cls i).fields.filter (fun f => f.lit.isSome) = [] := by
    rw [List.filter_eq_nil_iff]
    intro f hf
    simp [hl i f hf]
  rw [this]; rfl

theorem NoLits.litSelect {t : Table} (hl : NoLits t) (ms : List Nat) : litSelect sortStr t ms = Option.none := by
  have hd : discs t ms = [] := by
    cases ms with
    | nil => rfl
    | cons m rest => simp [discs, hl.litNames m]
  simp [Disambig.litSelect, hd, sortStr, pickDisc]

theorem resolveF_sameKeyView {t t' : Table} (h : SameKeyView t t') (hl : NoLits t) (hl' : NoLits t') (so : SetOrder)
    (n : Nat) (ms : List Nat) (p : Payload) : resolveF sortStr so t n ms p = resolveF sortStr so t' n ms p := by
  cases n with
  | zero => rfl
  | succ n => simp only [resolveF, hl.litSelect, hl'.litSelect, h.mkUniq so ms]

theorem createOk_sameKeyView {t t' : Table} (h : SameKeyView t t') (hl : NoLits t) (hl' : NoLits t') (so : SetOrder)
    (ms : List Nat) : createOk so t ms = createOk so t' ms := by
  simp only [createOk, hl.litSelect, hl'.litSelect, h.mkUniq so ms]

theorem unionStructure_sameKeyView {t t' : Table} (h : SameKeyView t t') (hl : NoLits t) (hl' : NoLits t') (so : SetOrder)
    (hasNone : Bool) (ms : List Nat) (p : Option Payload) :
    unionStructure so t hasNone ms p = unionStructure so t' hasNone ms p := by
  cases p with
  | none => simp only [unionStructure, createOk_sameKeyView h hl hl' so ms]
  | some p => simp only [unionStructure, resolve, resolveF_sameKeyView h hl hl' so]

end CattrsModel.Disambig
