import CattrsModel.Subclasses.Lemmas
/-!
# Hierarchies with UNDECORATED classes: what "descendant" means, and that discovery reaches all of them

`Tree.unionClasses` is what `_make_subclasses_tree` DISCOVERS (a walk over `__subclasses__()`), and the C14 round-trip
theorems are stated for the classes of that list.  The property speaks of the HIERARCHY: "every class K of the hierarchy
and every instance of K or of any descendant of K".  This file closes the gap:

* `Tree.Desc c k` — `c` is `k` or has `k` among its bases — is read off the class statements alone (`Node.parent`);
* `Tree.ParentsBelow` — a class is created after its base (always true in Python);
* `mem_preorderF_of_desc` / `mem_unionClasses_of_desc` / `mem_subclassesOf_of_desc`: the walk reaches EVERY descendant,
  through any number of intermediate classes and WHATEVER those declare.  In particular through classes that declare
  nothing at all: a plain, undecorated, behaviour-only class between attrs classes / dataclasses is a `Node` with
  `own = []`; it is an attrs class / dataclass by inheritance with exactly its base's fields (`fields_of_undecorated`).
* `Deco` marks which classes were THEMSELVES decorated (`__attrs_attrs__` / `__dataclass_fields__` in their own
  `__dict__`).  The code never asks; `preorderOwnF` is the discovery that does ask, in front of the recursion (a
  plausible "tidy-up"): it coincides with the real one on hierarchies where everything is decorated
  (`preorderOwnF_eq_of_all_decorated` — which is why such hierarchies cannot tell the two apart) and loses whole
  subtrees below an undecorated layer (witness in `Props/C14.lean`).

No Mathlib.
-/
namespace CattrsModel.Subclasses
open CattrsModel

/-- a class is created after its direct base: the base's index is smaller -/
def Tree.ParentsBelow (tr : Tree) : Prop := ∀ c q, (tr.node c).parent = some q → q < c

def Tree.parentsBelowB (tr : Tree) : Bool :=
  (List.range tr.size).all (fun c => match (tr.node c).parent with
    | some q => decide (q < c)
    | Option.none => true)

theorem node_of_size_le (tr : Tree) {c : Nat} (h : tr.size ≤ c) : tr.node c = ⟨Option.none, []⟩ := by
  unfold Tree.node Tree.size at *
  simp [List.getD, List.getElem?_eq_none h]

theorem parentsBelowB_sound {tr : Tree} (h : tr.parentsBelowB = true) : tr.ParentsBelow := by
  intro c q hq
  by_cases hc : c < tr.size
  · have := (List.all_eq_true.mp h) c (List.mem_range.mpr hc)
    rw [hq] at this
    simpa using this
  · rw [node_of_size_le tr (by omega)] at hq
    cases hq

/-- `c` is `k` itself or has `k` among its (direct or indirect) bases: the hierarchy relation of the property statement,
read off the class statements — nothing here knows how classes are discovered -/
inductive Tree.Desc (tr : Tree) : Nat → Nat → Prop
  | refl (k : Nat) : Tree.Desc tr k k
  | step {c q k : Nat} : (tr.node c).parent = some q → Tree.Desc tr q k → Tree.Desc tr c k

theorem Tree.Desc.le {tr : Tree} (hpb : tr.ParentsBelow) {c k : Nat} (h : tr.Desc c k) : k ≤ c := by
  induction h with
  | refl k => exact Nat.le_refl k
  | step hp _ ih => have := hpb _ _ hp; omega

/-- a strict descendant of `k` is a descendant of some DIRECT subclass `j` of `k` -/
theorem Tree.Desc.head {tr : Tree} {c k : Nat} (h : tr.Desc c k) :
    c = k ∨ ∃ j, (tr.node j).parent = some k ∧ tr.Desc c j := by
  induction h with
  | refl k => exact Or.inl rfl
  | @step c q k hp _ ih =>
    refine Or.inr ?_
    cases ih with
    | inl heq => subst heq; exact ⟨c, hp, Tree.Desc.refl c⟩
    | inr hj =>
      obtain ⟨j, hjp, hqj⟩ := hj
      exact ⟨j, hjp, Tree.Desc.step hp hqj⟩

theorem mem_children {tr : Tree} {j k : Nat} (hj : j < tr.size) (hp : (tr.node j).parent = some k) :
    j ∈ tr.children k := by
  unfold Tree.children
  simp only [List.mem_filter, List.mem_range]
  exact ⟨hj, by simp [hp]⟩

/-- **the walk over `__subclasses__()` reaches every descendant** — whatever lies in between -/
theorem mem_preorderF_of_desc {tr : Tree} (hpb : tr.ParentsBelow) :
    ∀ (n k c : Nat), tr.Desc c k → c < tr.size → c - k ≤ n → c ∈ tr.preorderF n k := by
  intro n
  induction n with
  | zero =>
    intro k c h _ hn
    have := h.le hpb
    have : c = k := by omega
    subst this
    exact self_mem_preorderF tr 0 c
  | succ n ih =>
    intro k c h hc hn
    cases h.head with
    | inl heq => subst heq; exact self_mem_preorderF tr (n + 1) c
    | inr hj =>
      obtain ⟨j, hjp, hcj⟩ := hj
      have hkj : k < j := hpb _ _ hjp
      have hjc : j ≤ c := hcj.le hpb
      have hmem : c ∈ tr.preorderF n j := ih j c hcj hc (by omega)
      simp only [Tree.preorderF, List.mem_cons, List.mem_flatMap]
      exact Or.inr ⟨j, mem_children (by omega) hjp, hmem⟩

theorem mem_unionClasses_of_desc {tr : Tree} (hpb : tr.ParentsBelow) {c : Nat} (hc : c < tr.size)
    (h : tr.Desc c 0) : c ∈ tr.unionClasses :=
  mem_preorderF_of_desc hpb tr.size 0 c h hc (by omega)

/-- `issubclass` (the walk up the bases, with the model's fuel) agrees with the hierarchy relation -/
theorem isSubF_of_desc {tr : Tree} (hpb : tr.ParentsBelow) :
    ∀ (n c k : Nat), tr.Desc c k → c - k ≤ n → tr.isSubF n c k = true := by
  intro n
  induction n with
  | zero =>
    intro c k h hn
    have := h.le hpb
    have : c = k := by omega
    subst this
    simp [Tree.isSubF]
  | succ n ih =>
    intro c k h hn
    cases h with
    | refl => simp [Tree.isSubF]
    | @step _ q _ hp hq =>
      have hqc : q < c := hpb _ _ hp
      have hkq : k ≤ q := hq.le hpb
      simp only [Tree.isSubF, hp, Bool.or_eq_true]
      exact Or.inr (ih q k hq (by omega))

theorem isSub_of_desc {tr : Tree} (hpb : tr.ParentsBelow) {c k : Nat} (hc : c < tr.size) (h : tr.Desc c k) :
    tr.isSub c k = true :=
  isSubF_of_desc hpb tr.size c k h (by omega)

theorem Tree.Desc.trans {tr : Tree} {c j k : Nat} (h1 : tr.Desc c j) (h2 : tr.Desc j k) : tr.Desc c k := by
  induction h1 with
  | refl => exact h2
  | step hp _ ih => exact Tree.Desc.step hp (ih h2)

/-- every descendant `D` of a class `K` of the hierarchy is a member of what the strategy takes for "`K` and its
subclasses" (`descendants K`, the list the reduced unions and sub-unions are built from) -/
theorem mem_subclassesOf_of_desc {tr : Tree} (hpb : tr.ParentsBelow) {K D : Nat} (hD : D < tr.size)
    (hK : tr.Desc K 0) (hDK : tr.Desc D K) : D ∈ tr.subclassesOf K :=
  mem_subclassesOf.mpr ⟨mem_unionClasses_of_desc hpb hD (hDK.trans hK), isSub_of_desc hpb hD hDK⟩

/-! ## an undecorated class has exactly its base's fields -/

theorem mergeFields_nil (inh : List SField) : mergeFields inh [] = inh := by
  simp [mergeFields]

theorem fieldsF_stable {tr : Tree} (hpb : tr.ParentsBelow) :
    ∀ (n c : Nat), c ≤ n → tr.fieldsF (n + 1) c = tr.fieldsF n c := by
  intro n
  induction n with
  | zero =>
    intro c hc
    have : c = 0 := by omega
    subst this
    cases hp : (tr.node 0).parent with
    | none => simp [Tree.fieldsF, hp]
    | some q => have := hpb _ _ hp; omega
  | succ n ih =>
    intro c hc
    cases hp : (tr.node c).parent with
    | none => simp [Tree.fieldsF, hp]
    | some q =>
      have hq : q < c := hpb _ _ hp
      have := ih q (by omega)
      simp only [Tree.fieldsF, hp] at this ⊢
      rw [this]

/-- A class that declares no fields (an undecorated, behaviour-only class — or a decorated one with an empty body) has
exactly the fields of its base: for everything the strategy, the disambiguator and the generated hooks look at it is an
attrs class / dataclass like its base. -/
theorem fields_of_undecorated {tr : Tree} (hpb : tr.ParentsBelow) {c q : Nat} (hc : c < tr.size)
    (hp : (tr.node c).parent = some q) (hown : (tr.node c).own = []) : tr.fields c = tr.fields q := by
  have hq : q < c := hpb _ _ hp
  unfold Tree.fields
  obtain ⟨s, hs⟩ : ∃ s, tr.size = s + 1 := ⟨tr.size - 1, by omega⟩
  rw [hs]
  simp only [Tree.fieldsF, hp, hown, mergeFields_nil]
  exact (fieldsF_stable hpb s q (by omega)).symm

/-! ## which classes were themselves decorated — and a discovery that asks -/

/-- `"__attrs_attrs__" in cl.__dict__ or "__dataclass_fields__" in cl.__dict__`: the class was itself decorated -/
abbrev Deco := Nat → Bool

/-- a hierarchy with undecorated classes: an undecorated class declares no fields -/
def Deco.Fits (dec : Deco) (tr : Tree) : Prop := ∀ c, dec c = false → (tr.node c).own = []

/-- NOT the code: `_make_subclasses_tree` with `if _is_own_class(scl)` in front of the recursion -/
def Tree.preorderOwnF (tr : Tree) (dec : Deco) : Nat → Nat → List Nat
  | 0, c => [c]
  | n+1, c => c :: ((tr.children c).filter dec).flatMap (tr.preorderOwnF dec n)

theorem flatMap_congr_mem {α β : Type} {l : List α} {f g : α → List β} (h : ∀ a ∈ l, f a = g a) :
    l.flatMap f = l.flatMap g := by
  induction l with
  | nil => rfl
  | cons x xs ih =>
    simp only [List.flatMap_cons]
    rw [h x (List.mem_cons_self ..), ih (fun a ha => h a (List.mem_cons_of_mem _ ha))]

theorem preorderOwnF_eq_of_all_decorated (tr : Tree) (dec : Deco) (hall : ∀ c, dec c = true) :
    ∀ n c, tr.preorderOwnF dec n c = tr.preorderF n c := by
  intro n
  induction n with
  | zero => intro c; rfl
  | succ n ih =>
    intro c
    have hf : (tr.children c).filter dec = tr.children c := List.filter_eq_self.mpr (fun a _ => hall a)
    simp only [Tree.preorderOwnF, Tree.preorderF, hf]
    rw [flatMap_congr_mem (fun a _ => ih a)]

end CattrsModel.Subclasses
