import CattrsModel.Sexp
import CattrsModel.Core.Wire
import CattrsModel.Disambig.Driver
import CattrsModel.Subclasses.Plain
/-!
# Line-protocol operation of the `include_subclasses` model (driver only)

`SUBCLS <tree> <strategy> <forbid 0|1> <rev 0|1> (<case>…)`

* `<tree>`     `((<parent#|-> (<sfield>…)) …)` one entry per class, class 0 is the root the strategy is applied to
               (or `(listed <that> (<indirect#>…) (<class tuple>…))`, see `treeOfSexp`);
               `<sfield>` = `(<name> <key> <dreq 0|1> <lit> <dv> <omit 0|1>)`, `<name>`/`<key>` string literals,
               `<lit>` = `N` | `(<nat>…)`, `<dv>` = `N` | `<nat>`
* `<strategy>` `auto` | `(union "<tag name>" (<obj>…))` (one tag per class, in class-index order)
* `<rev>`      enumerate the reduced unions (and string sets) in reverse — the outcome must not depend on it
* `<case>`     `(<K#> <instance>)`, `<instance>` = `(I <class#> ("<attr>" (i <nat>))…)`

reply `((apply b) (scope <name> b)… (cases (<un> <rt> <inscope b>)…))` with `<un>` = `(un <obj>)` | `(un-err)`,
`<rt>` = `(ok <obj>)` | `(err)`: `structure(unstructure(x, unstructure_as=K), K)` on a converter the strategy was
applied to (`(apply 0)`: applying it raises; the cases are then answered as if the registration had gone through).

`SUBCLSN (<tree>…) <strategy> <forbid> <rev> <inherit 0|1> (<case>…)`: the strategy applied once per tree, in order, to
ONE converter (or a copy of it), each tree an extension of the previous one; `<inherit>` = no `overrides` were given, so
each application captures the hooks the previous one left in the converter.  Reply as above, preceded by `(applies b…)`.
-/
namespace CattrsModel.Subclasses
open CattrsModel Sexp

def sfieldOfSexp : Sexp → Option SField
  | .list [n, k, r, l, dv, om] => do
      let sig ← Disambig.fieldOfSexp (.list [n, k, r, l])
      let dv ← match dv with
        | .atom "N" => some Option.none
        | x => (atomNat? x).map some
      let om ← bool? om
      pure ⟨sig, dv, om⟩
  | _ => Option.none

def nodesOfSexp : Sexp → Option (List Node)
  | .list ns => ns.mapM (fun (n : Sexp) => match n with
      | .list [p, .list fs] => do
          let p ← match p with
            | .atom "-" => some Option.none
            | x => (atomNat? x).map some
          let fs ← fs.mapM sfieldOfSexp
          pure (Node.mk p fs)
      | _ => Option.none)
  | _ => Option.none

/-- `<tree>` = `(<node>…)` | `(listed (<node>…) (<indirect#>…) (<class#>…))` (explicit `subclasses=`: the listed classes,
re-parented to their nearest listed ancestor; which of them do not have their direct base in the listing; the class
tuple `(cl, *subclasses)` in the order given, repetitions included) -/
def treeOfSexp : Sexp → Option Tree
  | .list [.atom "listed", ns, .list ind, .list order] => do
      let ns ← nodesOfSexp ns
      let ind ← ind.mapM atomNat?
      let order ← order.mapM atomNat?
      pure { nodes := ns, indirect := ind, order := order }
  | ns => (nodesOfSexp ns).map (fun l => { nodes := l })

def strategyOfSexp : Sexp → Option Strategy
  | .atom "auto" => some .auto
  | .list [.atom "union", .str name, .list tags] => do
      let ts ← tags.mapM objOfSexp
      pure (.union { tagName := name, tag := fun c => ts.getD c (.opaque c) })
  | _ => Option.none

def sexpOfRes : Option Obj → Sexp
  | some o => .list [.atom "ok", sexpOfObj o]
  | Option.none => .list [.atom "err"]

def mkSetup (tr : Tree) (strategy : Strategy) (forbid rev : Bool) (H : Tagged.Hooks) : Setup :=
  { tr := tr, strategy := strategy, forbid := forbid, H := H,
    so := if rev then Disambig.SetOrder.rev else Disambig.SetOrder.id,
    uo := if rev then UnionOrder.rev tr else UnionOrder.id tr }

/-- successive applications to one converter: the hooks each application captures are those in force after the
previous one (`inherit`: no `overrides` given) -/
def chainSetups (strategy : Strategy) (forbid rev inherit : Bool) : Option Setup → List Tree → List Setup
  | _, [] => []
  | prev, tr :: rest =>
    let plain := concHooks tr forbid
    let H := match prev with
      | some S => if inherit then S.hooksAfter plain else plain
      | Option.none => plain
    let S := mkSetup tr strategy forbid rev H
    S :: chainSetups strategy forbid rev inherit (some S) rest

def casesOfSexp (cases : List Sexp) : Option (List (Nat × Obj)) :=
  cases.mapM (fun (c : Sexp) => match c with
    | .list [k, x] => do pure ((← atomNat? k), (← objOfSexp x))
    | _ => Option.none)

/-- the `hierarchy` scope bit: the hypothesis of `C14_discovery_complete` (classes created after their bases) and its
conclusion evaluated on this tree (every class statement of the tree is found by the walk over `__subclasses__()`) -/
def hierarchyB (tr : Tree) : Bool :=
  tr.parentsBelowB && (List.range tr.size).all (fun c => tr.unionClasses.contains c)

def answer (S : Setup) (cs : List (Nat × Obj)) : List Sexp :=
  let outs := cs.map (fun (K, x) =>
    let u := S.un K x
    Sexp.list [match u with
               | some o => .list [.atom "un", sexpOfObj o]
               | Option.none => .list [.atom "un-err"],
               sexpOfRes (S.roundTrip K x),
               ofBool (caseInScope S K x)])
  [.list [.atom "apply", ofBool S.applyOk]] ++
    ((scopeBits S) ++ [("hierarchy", hierarchyB S.tr)]).map (fun (n, b) => .list [.atom "scope", .atom n, ofBool b]) ++
    [.list (.atom "cases" :: outs)]

/-- `SUBCLSN (<tree>…) <strategy> <forbid> <rev> <inherit 0|1> (<case>…)`: the strategy applied once per tree, in
order, to ONE converter (each tree an extension of the previous one); the cases are answered for the state after the
last application; reply as for `SUBCLS`, preceded by `(applies b…)` (does each application return). -/
def subclassesHandle (op : String) (args : List Sexp) : Option Sexp :=
  match op, args with
  | "SUBCLS", [tr, st, fb, rv, .list cases] => do
      let tr ← treeOfSexp tr
      let strategy ← strategyOfSexp st
      let forbid ← bool? fb
      let rev ← bool? rv
      let cs ← casesOfSexp cases
      pure (.list (answer (mkSetup tr strategy forbid rev (concHooks tr forbid)) cs))
  | "SUBCLSN", [.list trs, st, fb, rv, inh, .list cases] => do
      let trs ← trs.mapM treeOfSexp
      let strategy ← strategyOfSexp st
      let forbid ← bool? fb
      let rev ← bool? rv
      let inherit ← bool? inh
      let cs ← casesOfSexp cases
      let Ss := chainSetups strategy forbid rev inherit Option.none trs
      let last ← Ss.getLast?
      pure (.list (.list (.atom "applies" :: Ss.map (fun S => ofBool S.applyOk)) :: answer last cs))
  | _, _ => Option.none

end CattrsModel.Subclasses
