import CattrsModel.Subclasses.Model
import CattrsModel.Props.C12
import CattrsModel.Props.C13
/-!
# Lemmas about the `include_subclasses` model

Part A: the tree (membership in the reduced unions).
Part B: one call of the disambiguation function vs. `Disambig.resolve`; the automatic strategy's hooks.
Part C: the union strategy's hooks.
Part D: executable versions of the hypotheses (driver `scope` bits, non-vacuity examples).
-/
namespace CattrsModel.Subclasses
open CattrsModel Disambig

/-! ## Part A — the tree -/

theorem isSub_refl (tr : Tree) (c : Nat) : tr.isSub c c = true := by
  unfold Tree.isSub
  cases tr.size <;> simp [Tree.isSubF]

theorem mem_subclassesOf {tr : Tree} {c k : Nat} :
    c ∈ tr.subclassesOf k ↔ c ∈ tr.unionClasses ∧ tr.isSub c k = true := by
  unfold Tree.subclassesOf
  rw [List.mem_filter]

theorem self_mem_subclassesOf {tr : Tree} {k : Nat} (h : k ∈ tr.unionClasses) : k ∈ tr.subclassesOf k :=
  mem_subclassesOf.mpr ⟨h, isSub_refl tr k⟩

theorem mem_unionOrder {tr : Tree} (uo : UnionOrder tr) {c k : Nat} : c ∈ uo.mem k ↔ c ∈ tr.subclassesOf k :=
  (uo.perm k).mem_iff

theorem unionOrder_nodup {tr : Tree} (uo : UnionOrder tr) (h : tr.unionClasses.Nodup) (k : Nat) :
    (uo.mem k).Nodup :=
  (uo.perm k).nodup_iff.mpr (h.filter _)

/-- a list with at most one element has at most one member -/
theorem eq_of_mem_short {l : List Nat} {a b : Nat} (ha : a ∈ l) (hb : b ∈ l) (h : l.length < 2) : a = b := by
  match l, ha, hb, h with
  | [x], ha, hb, _ => simp at ha hb; rw [ha, hb]
  | _ :: _ :: _, _, _, h => simp at h; omega

theorem self_mem_preorderF (tr : Tree) (n c : Nat) : c ∈ tr.preorderF n c := by
  cases n <;> simp [Tree.preorderF]

/-- no class of the tree has a subclass in it: the tree is the root alone -/
theorem unionClasses_of_not_anyParent {tr : Tree} (hind : tr.indirect = []) (h : tr.anyParent = false) :
    tr.unionClasses = [0] := by
  unfold Tree.unionClasses
  cases hs : tr.size with
  | zero => rfl
  | succ n =>
    have h0 : (0 : Nat) ∈ tr.unionClasses := by
      unfold Tree.unionClasses; rw [hs]; simp [Tree.preorderF]
    unfold Tree.anyParent at h
    rw [List.any_eq_false] at h
    have hh := h 0 h0
    have hch : tr.children 0 = [] := by
      cases hc : tr.children 0 with
      | nil => rfl
      | cons c rest =>
        exfalso
        apply hh
        unfold Tree.hasSubclasses
        rw [List.any_eq_true]
        refine ⟨c, by rw [hc]; simp, ?_⟩
        rw [hind]
        have hmem : c ∈ tr.unionClasses := by
          unfold Tree.unionClasses
          rw [hs]
          simp only [Tree.preorderF, hc, List.flatMap_cons, List.mem_cons, List.mem_append]
          right; left
          exact self_mem_preorderF tr n c
        simpa using hmem
    simp [Tree.preorderF, hch]

/-! ## Part B — the automatic strategy -/

/-- one call of the disambiguation function, followed by the converter's own handling of a returned
`Union[...]`, is `Disambig.resolve` -/
theorem resolve_eq_disFn (so : SetOrder) (t : Table) (ms : List Nat) (pl : Payload) (h2 : 2 ≤ ms.length) :
    resolve so t ms pl =
      match disFn so t ms pl with
      | .cls m => .ok m
      | .sub l => demote (resolve so t l pl)
      | .raise true => .refuseCreate
      | .raise false => .refuseResolve := by
  show resolveF sortStr so t ms.length ms pl = _
  obtain ⟨n, hn⟩ : ∃ n, ms.length = n + 1 := ⟨ms.length - 1, by omega⟩
  rw [hn]
  conv => lhs; unfold resolveF
  unfold disFn
  rw [if_neg (by omega)]
  cases hd : litSelect sortStr t ms with
  | none =>
    simp only
    cases hm : mkUniq so t ms with
    | none => rfl
    | some r =>
      obtain ⟨pins, fb⟩ := r
      simp only
      cases resolveU pins fb (pkeys pl) <;> rfl
  | some d =>
    simp only
    cases hv : pl.lookup d with
    | none => rfl
    | some v =>
      simp only
      cases hb : bucket t ms d v with
      | nil => rfl
      | cons m r =>
        cases r with
        | nil => rfl
        | cons m' rest =>
          simp only
          have hm : m ∈ bucket t ms d v := by rw [hb]; simp
          have hlt := bucket_lt t hd hm
          rw [hb, hn] at hlt
          unfold resolve
          rw [resolveF_fuel_irrelevant sortStr so t pl n (m :: m' :: rest).length (m :: m' :: rest)
            (by omega) (Nat.le_refl _) (by simp only [List.length_cons] at hlt; omega) (by simp)]

/-- a payload of an inner class `K` itself is answered with `K` directly (not via a `Union[...]`) when the
class's literal values are its own (`LitDirect`) -/
theorem disFn_self (so : SetOrder) (t : Table) (hwf : t.WF) (ms : List Nat) (hnd : ms.Nodup)
    (h2 : 2 ≤ ms.length) (K : Nat) (hK : K ∈ ms) (pl : Payload) (hp : PayloadOf t K pl)
    (hl : LitKeysPresent t K pl) (hdeep : deepOk so t ms.length ms = true) (hdir : LitDirect t ms K) :
    disFn so t ms pl = .cls K := by
  have hres := C12_complete so t hwf ms hnd K hK pl hp hl hdeep
  rw [resolve_eq_disFn so t ms pl h2] at hres
  cases hdf : disFn so t ms pl with
  | cls m => rw [hdf] at hres; simp at hres; rw [hres]
  | raise b => rw [hdf] at hres; cases b <;> simp at hres
  | sub l =>
    exfalso
    unfold disFn at hdf
    cases hd : litSelect sortStr t ms with
    | none =>
      rw [hd] at hdf
      simp only at hdf
      cases hm : mkUniq so t ms with
      | none => rw [hm] at hdf; simp at hdf
      | some r =>
        obtain ⟨pins, fb⟩ := r
        rw [hm] at hdf
        simp only at hdf
        cases hr : resolveU pins fb (pkeys pl) <;> rw [hr] at hdf <;> simp at hdf
    | some d =>
      rw [hd] at hdf
      simp only at hdf
      have hdk := litSelect_litName sortStr_sub hd K hK
      obtain ⟨f, hf, hn, hlit⟩ := mem_litNames hdk
      have hwk := cls_WF t hwf K
      have hkey : f.key = d := by rw [hwk.2 f hf hlit, hn]
      obtain ⟨v, hv⟩ := lookup_of_mem_keys pl d (by rw [← hkey]; exact hl f hf hlit)
      rw [hv] at hdf
      simp only at hdf
      cases hlv : f.lit with
      | none => rw [hlv] at hlit; simp at hlit
      | some vs =>
        have hvs : v ∈ vs := hp.2.2 f hf vs v hlv (by rw [hkey]; exact hv)
        have hlo : (t.cls K).litOf d = vs := by
          have := litOf_field hwk hf
          rw [hn, hlv] at this
          simpa using this
        have hb := hdir d hd v (by rw [hlo]; exact hvs)
        rw [hb] at hdf
        simp at hdf

variable (so : SetOrder) (t : Table) (H : Tagged.Hooks) (mem : Nat → List Nat)

theorem stAutoF_leaf {K : Nat} (h : (mem K).length < 2) (n : Nat) (p : Obj) :
    stAutoF so t H mem (n + 1) K p = H.st K p := by
  unfold stAutoF
  rw [if_pos h]

theorem stAutoF_inner {K : Nat} (h : ¬ (mem K).length < 2) (n : Nat) (p : Obj) (pl : Payload)
    (hv : view p = some pl) :
    stAutoF so t H mem (n + 1) K p =
      match disFn so t (mem K) pl with
      | .cls m => if m = K then H.st K p else stAutoF so t H mem n m p
      | .sub l =>
        match resolve so t l pl with
        | .ok j => stAutoF so t H mem n j p
        | _ => Option.none
      | .raise _ => Option.none := by
  rw [stAutoF]
  rw [if_neg h, hv]
  rfl

/-- the hook registered for `D` applied to a payload of `D` itself runs `D`'s own hook -/
theorem stAutoF_exact (hwf : t.WF) (D : Nat) (hnd : (mem D).Nodup) (hD : D ∈ mem D)
    (hdeep : 2 ≤ (mem D).length → deepOk so t (mem D).length (mem D) = true)
    (hdir : 2 ≤ (mem D).length → LitDirect t (mem D) D)
    (p : Obj) (pl : Payload) (hv : view p = some pl) (hp : PayloadOf t D pl) (hl : LitKeysPresent t D pl)
    (n : Nat) : stAutoF so t H mem (n + 1) D p = H.st D p := by
  by_cases hleaf : (mem D).length < 2
  · exact stAutoF_leaf so t H mem hleaf n p
  · have h2 : 2 ≤ (mem D).length := by omega
    rw [stAutoF_inner so t H mem hleaf n p pl hv,
      disFn_self so t hwf (mem D) hnd h2 D hD pl hp hl (hdeep h2) (hdir h2)]
    simp

/-- **core of C14, automatic strategy**: structuring a payload of `D` as any `K` whose reduced union contains
`D` ends in `D`'s own hook -/
theorem stAutoF_roundtrip (hwf : t.WF) (hnd : ∀ k, (mem k).Nodup)
    (hdeep : ∀ k, k ∈ mem k → 2 ≤ (mem k).length → deepOk so t (mem k).length (mem k) = true)
    (hdir : ∀ k, k ∈ mem k → 2 ≤ (mem k).length → LitDirect t (mem k) k)
    (K D : Nat) (hK : K ∈ mem K) (hDK : D ∈ mem K) (hD : D ∈ mem D)
    (p : Obj) (pl : Payload) (hv : view p = some pl) (hp : PayloadOf t D pl) (hl : LitKeysPresent t D pl)
    (n : Nat) : stAutoF so t H mem (n + 2) K p = H.st D p := by
  have hex : ∀ n, stAutoF so t H mem (n + 1) D p = H.st D p :=
    stAutoF_exact so t H mem hwf D (hnd D) hD (hdeep D hD) (hdir D hD) p pl hv hp hl
  by_cases hleaf : (mem K).length < 2
  · have : D = K := eq_of_mem_short hDK hK hleaf
    subst this
    exact hex (n + 1)
  · have h2 : 2 ≤ (mem K).length := by omega
    have hres := C12_complete so t hwf (mem K) (hnd K) D hDK pl hp hl (hdeep K hK h2)
    rw [resolve_eq_disFn so t (mem K) pl h2] at hres
    rw [stAutoF_inner so t H mem hleaf (n + 1) p pl hv]
    cases hdf : disFn so t (mem K) pl with
    | cls m =>
      rw [hdf] at hres
      simp only [Outcome.ok.injEq] at hres
      subst hres
      simp only
      by_cases hmk : m = K
      · rw [if_pos hmk, hmk]
      · rw [if_neg hmk]; exact hex n
    | raise b => rw [hdf] at hres; cases b <;> simp at hres
    | sub l =>
      rw [hdf] at hres
      simp only at hres ⊢
      rw [demote_ok hres]
      exact hex n

/-- **never guesses at run time**: a payload that is an unstructured form of two different members of `K`'s
reduced union makes the hook raise -/
theorem stAutoF_refuses (hwf : t.WF) (K : Nat) (hnd : (mem K).Nodup) (h2 : 2 ≤ (mem K).length)
    (a b : Nat) (ha : a ∈ mem K) (hb : b ∈ mem K) (hab : a ≠ b)
    (p : Obj) (pl : Payload) (hv : view p = some pl) (hpa : PayloadOf t a pl) (hpb : PayloadOf t b pl)
    (n : Nat) : stAutoF so t H mem (n + 1) K p = Option.none := by
  have href := C12_refuses so t hwf (mem K) hnd a b ha hb hab pl hpa hpb
  rw [resolve_eq_disFn so t (mem K) pl h2] at href
  rw [stAutoF_inner so t H mem (by omega) n p pl hv]
  cases hdf : disFn so t (mem K) pl with
  | cls m => rw [hdf] at href; simp [Outcome.isRefusal] at href
  | raise b => rfl
  | sub l =>
    rw [hdf] at href
    simp only at href ⊢
    cases hr : resolve so t l pl with
    | ok j => rw [hr] at href; simp [demote, Outcome.isRefusal] at href
    | none => rfl
    | refuseCreate => rfl
    | refuseResolve => rfl

/-- **never the wrong class**: whatever the hook registered for `K` returns for a payload of `D` was produced by `D`'s
own hook — also where creation of some sub-union fails or the recursion does not end (then nothing is returned) -/
theorem stAutoF_never_wrong (hwf : t.WF) (hnd : ∀ k, (mem k).Nodup) (D : Nat) (hDD : D ∈ mem D)
    (p : Obj) (pl : Payload) (hv : view p = some pl) (hp : PayloadOf t D pl) :
    ∀ (n K : Nat), K ∈ mem K → D ∈ mem K → ∀ y, stAutoF so t H mem n K p = some y → H.st D p = some y := by
  intro n
  induction n with
  | zero => intro K _ _ y h; simp [stAutoF] at h
  | succ n ih =>
    intro K hK hDK y h
    by_cases hleaf : (mem K).length < 2
    · rw [stAutoF_leaf so t H mem hleaf n p] at h
      rw [eq_of_mem_short hDK hK hleaf]; exact h
    · have h2 : 2 ≤ (mem K).length := by omega
      have hnw : ∀ j, resolve so t (mem K) pl = .ok j → j = D :=
        fun j hj => C12_never_wrong so t hwf (mem K) (hnd K) D hDK pl hp j hj
      rw [resolve_eq_disFn so t (mem K) pl h2] at hnw
      rw [stAutoF_inner so t H mem hleaf n p pl hv] at h
      cases hdf : disFn so t (mem K) pl with
      | cls m =>
        rw [hdf] at hnw h
        have hm : m = D := hnw m rfl
        subst hm
        simp only at h
        by_cases hmk : m = K
        · rw [if_pos hmk] at h; rw [hmk]; exact h
        · rw [if_neg hmk] at h; exact ih m hDD hDD y h
      | raise b => rw [hdf] at h; simp at h
      | sub l =>
        rw [hdf] at hnw h
        simp only at hnw h
        cases hr : resolve so t l pl with
        | ok j =>
          rw [hr] at hnw h
          have hj : j = D := hnw j rfl
          subst hj
          exact ih j hDD hDD y h
        | none => rw [hr] at h; simp at h
        | refuseCreate => rw [hr] at h; simp at h
        | refuseResolve => rw [hr] at h; simp at h

/-! ## Part C — the union strategy -/

theorem injectiveOn_subclassesOf {tr : Tree} {us : UStrat} (h : Tagged.InjectiveOn us.tag tr.unionClasses)
    (K : Nat) : Tagged.InjectiveOn us.tag (tr.subclassesOf K) := by
  intro a ha b hb hab
  exact h a (mem_subclassesOf.mp ha).1 b (mem_subclassesOf.mp hb).1 hab

/-- going out: every class of the tree gets the FULL union's tagging hook -/
theorem unUnion_tagged (tr : Tree) (us : UStrat) (forbid : Bool) (Hk : Tagged.Hooks) (hany : tr.anyParent = true)
    (K D : Nat) (hD : D ∈ tr.unionClasses) (x : Obj) (kvs : List (Obj × Obj))
    (hx : Tagged.classOf x = some D) (hun : Hk.un D x = some (.dict kvs))
    (hfresh : dlookup kvs (.str us.tagName) = Option.none) :
    unUnion tr us forbid Hk K x = some (.dict (kvs ++ [(.str us.tagName, us.tag D)])) := by
  unfold unUnion
  rw [if_pos hany]
  exact C13_unstructure (fullTU tr us forbid) Hk x D kvs hx hD hun hfresh

/-- what the union hook registered for class `c` has to do with the tagged form of a member's dict -/
def GoodSh (tr : Tree) (us : UStrat) (forbid : Bool) (Hk : Tagged.Hooks) (h : Obj → Option Obj) (c : Nat) : Prop :=
  ∀ D ∈ tr.subclassesOf c, ∀ kvs : List (Obj × Obj), dlookup kvs (.str us.tagName) = Option.none →
    (forbid = false → Hk.st D (.dict (kvs ++ [(.str us.tagName, us.tag D)])) = Hk.st D (.dict kvs)) →
    h (.dict (kvs ++ [(.str us.tagName, us.tag D)])) = Hk.st D (.dict kvs)

/-- the union hook built for `cl` while every member of its sub-union still has its own hook: the tag selects `D`'s own
hook, which sees its own dict -/
theorem sh_good (tr : Tree) (us : UStrat) (forbid : Bool) (Hk : Tagged.Hooks) (hok : TreeOKUnion tr us)
    (cur : Nat → Obj → Option Obj) (cl : Nat) (hcur : ∀ D ∈ tr.subclassesOf cl, cur D = Hk.st D) :
    GoodSh tr us forbid Hk (fun p => Tagged.tagSt (subTU tr us forbid cl) { un := Hk.un, st := cur } p) cl := by
  intro D hDK kvs hfresh hign
  have hDu := (mem_subclassesOf.mp hDK).1
  have hfresh' : dlookup kvs (subTU tr us forbid cl).key = Option.none := hfresh
  have := C13_roundtrip_general (subTU tr us forbid cl) { un := Hk.un, st := cur } (injectiveOn_subclassesOf hok.inj cl)
    (kvs ++ [((subTU tr us forbid cl).key, us.tag D)]) (us.tag D) D hDK
    (Tagged.dlookup_append_fresh hfresh' _) (hok.hashable D hDu) (Obj.pyEq_refl _)
  show Tagged.tagSt (subTU tr us forbid cl) { un := Hk.un, st := cur }
    (.dict (kvs ++ [((subTU tr us forbid cl).key, us.tag D)])) = _
  rw [this]
  show cur D _ = _
  rw [hcur D hDK]
  cases forbid with
  | false =>
    show Hk.st D (.dict (kvs ++ [(.str us.tagName, us.tag D)])) = _
    exact hign rfl
  | true =>
    show Hk.st D (.dict (dictDel (kvs ++ [((subTU tr us true cl).key, us.tag D)]) (subTU tr us true cl).key)) = _
    rw [Tagged.dictDel_append_fresh hfresh']

/-- a class without subclasses is never given a union hook -/
theorem secondPass_leaf (tr : Tree) (us : UStrat) (forbid : Bool) (Hk : Tagged.Hooks) (K : Nat)
    (hleaf : ¬ 1 < (tr.subclassesOf K).length) :
    ∀ (order : List Nat) (cur : Nat → Obj → Option Obj), secondPass tr us forbid Hk order cur K = cur K := by
  intro order
  induction order with
  | nil => intro cur; rfl
  | cons cl rest ih =>
    intro cur
    unfold secondPass
    split
    · rename_i hin
      rw [ih]
      have : K ≠ cl := fun e => hleaf (e ▸ hin)
      simp [this]
    · exact ih cur

/-- invariant of the second pass under `OrderOKF`: classes that have not been given a union hook still have their own;
every union hook given so far does the right thing -/
theorem secondPass_inv (tr : Tree) (us : UStrat) (forbid : Bool) (Hk : Tagged.Hooks) (hok : TreeOKUnion tr us) :
    ∀ (order done : List Nat) (cur : Nat → Obj → Option Obj), OrderOKF tr order done →
      (∀ c, (c ∉ done ∨ ¬ 1 < (tr.subclassesOf c).length) → cur c = Hk.st c) →
      (∀ c ∈ done, 1 < (tr.subclassesOf c).length → GoodSh tr us forbid Hk (cur c) c) →
      ∀ c, (c ∈ done ∨ c ∈ order) → 1 < (tr.subclassesOf c).length →
        GoodSh tr us forbid Hk (secondPass tr us forbid Hk order cur c) c := by
  intro order
  induction order with
  | nil =>
    intro done cur _ _ h2 c hc hin
    rcases hc with hc | hc
    · exact h2 c hc hin
    · cases hc
  | cons cl rest ih =>
    intro done cur hord h1 h2 c hc hin
    obtain ⟨hcl, hrest⟩ := hord
    have hc' : c ∈ cl :: done ∨ c ∈ rest := by
      rcases hc with hc | hc
      · exact Or.inl (List.mem_cons_of_mem _ hc)
      · rcases List.mem_cons.mp hc with e | hc
        · exact Or.inl (e ▸ List.mem_cons_self)
        · exact Or.inr hc
    unfold secondPass
    split
    · rename_i hincl
      refine ih (cl :: done) _ hrest ?_ ?_ c hc' hin
      · intro d hd
        by_cases e : d = cl
        · subst e
          rcases hd with hd | hd
          · exact absurd List.mem_cons_self hd
          · exact absurd hincl hd
        · simp only [if_neg e]
          apply h1
          rcases hd with hd | hd
          · exact Or.inl (fun h => hd (List.mem_cons_of_mem _ h))
          · exact Or.inr hd
      · intro d hd hind
        by_cases e : d = cl
        · subst e
          simp only [if_true]
          apply sh_good tr us forbid Hk hok cur d
          intro D hD
          apply h1
          by_cases hDd : D ∈ done
          · exact Or.inr (hcl D hDd hD)
          · exact Or.inl hDd
        · simp only [if_neg e]
          rcases List.mem_cons.mp hd with e' | hd
          · exact absurd e' e
          · exact h2 d hd hind
    · rename_i hincl
      refine ih (cl :: done) cur hrest ?_ ?_ c hc' hin
      · intro d hd
        apply h1
        rcases hd with hd | hd
        · exact Or.inl (fun h => hd (List.mem_cons_of_mem _ h))
        · exact Or.inr hd
      · intro d hd hind
        rcases List.mem_cons.mp hd with e | hd
        · exact absurd (e ▸ hind) hincl
        · exact h2 d hd hind

/-- coming in, class with subclasses: the tag selects `D`'s own hook, which sees its own dict -/
theorem stUnion_inner (tr : Tree) (us : UStrat) (forbid : Bool) (Hk : Tagged.Hooks) (hok : TreeOKUnion tr us)
    (hord : OrderOK tr) (hany : tr.anyParent = true) (K D : Nat) (hK : K ∈ tr.unionClasses) (hDK : D ∈ tr.subclassesOf K)
    (hinner : 1 < (tr.subclassesOf K).length) (kvs : List (Obj × Obj))
    (hfresh : dlookup kvs (.str us.tagName) = Option.none)
    (hign : forbid = false → Hk.st D (.dict (kvs ++ [(.str us.tagName, us.tag D)])) = Hk.st D (.dict kvs)) :
    stUnion tr us forbid Hk K (.dict (kvs ++ [(.str us.tagName, us.tag D)])) = Hk.st D (.dict kvs) := by
  unfold stUnion
  rw [if_pos hany]
  exact secondPass_inv tr us forbid Hk hok tr.classTuple [] Hk.st hord (fun _ _ => rfl)
    (fun c hc => absurd hc (by simp)) K (Or.inr ((hok.tuple K).mpr hK)) hinner D hDK kvs hfresh hign

/-- coming in, class without subclasses: its own hook, handed the tagged dict -/
theorem stUnion_leaf (tr : Tree) (us : UStrat) (forbid : Bool) (Hk : Tagged.Hooks) (K : Nat)
    (hleaf : (tr.subclassesOf K).length ≤ 1) (p : Obj) : stUnion tr us forbid Hk K p = Hk.st K p := by
  unfold stUnion
  split
  · rw [secondPass_leaf tr us forbid Hk K (by omega)]
  · rfl

/-! ## Part D — executable versions of the hypotheses -/

def litDirectB (t : Table) (ms : List Nat) (K : Nat) : Bool :=
  match litSelect sortStr t ms with
  | some d => ((t.cls K).litOf d).all (fun v => bucket t ms d v == [K])
  | Option.none => true

theorem litDirectB_sound {t : Table} {ms : List Nat} {K : Nat} (h : litDirectB t ms K = true) :
    LitDirect t ms K := by
  intro d hd v hv
  unfold litDirectB at h
  rw [hd] at h
  simp only [List.all_eq_true] at h
  simpa using h v hv

def nodupNatB : List Nat → Bool
  | [] => true
  | x :: xs => !xs.contains x && nodupNatB xs

theorem nodupNatB_sound : ∀ l, nodupNatB l = true → l.Nodup := by
  intro l
  induction l with
  | nil => intro _; exact List.nodup_nil
  | cons x xs ih =>
    intro h
    simp only [nodupNatB, Bool.and_eq_true, Bool.not_eq_true', List.contains_eq_mem, decide_eq_false_iff_not] at h
    exact List.nodup_cons.mpr ⟨h.1, ih h.2⟩

def treeOKAutoB (tr : Tree) (so : SetOrder) (uo : UnionOrder tr) : Bool :=
  wfB tr.table && nodupNatB tr.unionClasses &&
  tr.unionClasses.all (fun K => decide ((uo.mem K).length < 2) || deepOk so tr.table (uo.mem K).length (uo.mem K))

theorem treeOKAutoB_sound {tr : Tree} {so : SetOrder} {uo : UnionOrder tr} (h : treeOKAutoB tr so uo = true) :
    TreeOKAuto tr so uo := by
  unfold treeOKAutoB at h
  simp only [Bool.and_eq_true, List.all_eq_true, Bool.or_eq_true, decide_eq_true_eq] at h
  refine ⟨wfB_sound h.1.1, nodupNatB_sound _ h.1.2, ?_⟩
  intro K hK h2
  rcases h.2 K hK with h' | h'
  · omega
  · exact h'

/-- no class with subclasses shares a literal discriminator value of its own with a descendant -/
def noLitLoopB (tr : Tree) (uo : UnionOrder tr) : Bool :=
  tr.unionClasses.all (fun K => decide ((uo.mem K).length < 2) || litDirectB tr.table (uo.mem K) K)

theorem noLitLoopB_sound {tr : Tree} {uo : UnionOrder tr} (h : noLitLoopB tr uo = true) :
    ∀ K ∈ tr.unionClasses, 2 ≤ (uo.mem K).length → LitDirect tr.table (uo.mem K) K := by
  intro K hK h2
  unfold noLitLoopB at h
  simp only [List.all_eq_true, Bool.or_eq_true, decide_eq_true_eq] at h
  rcases h K hK with h' | h'
  · omega
  · exact litDirectB_sound h'

def injB (tag : Nat → Obj) (cs : List Nat) : Bool :=
  cs.all (fun a => cs.all (fun b => !(Obj.pyEq (tag a) (tag b)) || decide (a = b)))

theorem injB_sound {tag : Nat → Obj} {cs : List Nat} (h : injB tag cs = true) : Tagged.InjectiveOn tag cs := by
  intro a ha b hb hab
  unfold injB at h
  simp only [List.all_eq_true, Bool.or_eq_true, Bool.not_eq_true', decide_eq_true_eq] at h
  rcases h a ha b hb with h' | h'
  · rw [hab] at h'; cases h'
  · exact h'

def treeOKUnionB (tr : Tree) (us : UStrat) : Bool :=
  injB us.tag tr.unionClasses && tr.unionClasses.all (fun c => Tagged.tagHashable (us.tag c)) &&
  tr.dups.all (fun c => decide (1 < (tr.subclassesOf c).length)) &&
  (tr.classTuple.all (fun c => tr.unionClasses.contains c) && tr.unionClasses.all (fun c => tr.classTuple.contains c))

theorem treeOKUnionB_sound {tr : Tree} {us : UStrat} (h : treeOKUnionB tr us = true) : TreeOKUnion tr us := by
  unfold treeOKUnionB at h
  simp only [Bool.and_eq_true, List.all_eq_true, decide_eq_true_eq, List.contains_eq_mem] at h
  exact ⟨injB_sound h.1.1.1, h.1.1.2, h.1.2, fun c => ⟨h.2.1 c, h.2.2 c⟩⟩

def orderOKFB (tr : Tree) : List Nat → List Nat → Bool
  | [], _ => true
  | cl :: rest, done =>
    done.all (fun c => !(tr.subclassesOf cl).contains c || !decide (1 < (tr.subclassesOf c).length)) &&
    orderOKFB tr rest (cl :: done)

theorem orderOKFB_sound (tr : Tree) : ∀ (order done : List Nat), orderOKFB tr order done = true → OrderOKF tr order done := by
  intro order
  induction order with
  | nil => intro _ _; trivial
  | cons cl rest ih =>
    intro done h
    simp only [orderOKFB, Bool.and_eq_true, List.all_eq_true, Bool.or_eq_true, Bool.not_eq_true',
      List.contains_eq_mem, decide_eq_false_iff_not] at h
    refine ⟨fun c hc hsub => ?_, ih _ h.2⟩
    rcases h.1 c hc with h' | h'
    · exact absurd hsub h'
    · exact h'

theorem orderOKFB_complete (tr : Tree) : ∀ (order done : List Nat), OrderOKF tr order done → orderOKFB tr order done = true := by
  intro order
  induction order with
  | nil => intro _ _; rfl
  | cons cl rest ih =>
    intro done h
    simp only [orderOKFB, Bool.and_eq_true, List.all_eq_true, Bool.or_eq_true, Bool.not_eq_true',
      List.contains_eq_mem, decide_eq_false_iff_not]
    refine ⟨fun c hc => ?_, ih _ h.2⟩
    by_cases hsub : c ∈ tr.subclassesOf cl
    · exact Or.inr (h.1 c hc hsub)
    · exact Or.inl (by simpa using hsub)

def orderOKB (tr : Tree) : Bool := orderOKFB tr tr.classTuple []

theorem not_orderOK_of_B {tr : Tree} (h : orderOKB tr = false) : ¬ OrderOK tr := by
  intro hok
  have := orderOKFB_complete tr _ _ hok
  unfold orderOKB at h
  rw [this] at h
  cases h

theorem orderOKB_sound {tr : Tree} (h : orderOKB tr = true) : OrderOK tr := orderOKFB_sound tr _ _ h

/-- a tree the union strategy accepts is one it can be applied to -/
theorem applyUnionOk_of_treeOK {tr : Tree} {us : UStrat} (h : TreeOKUnion tr us) : applyUnionOk tr us = true := by
  unfold applyUnionOk
  simp only [Bool.or_eq_true, Bool.not_eq_true', Bool.and_eq_true, List.all_eq_true, decide_eq_true_eq]
  exact Or.inr ⟨h.hashable, h.nodups⟩

/-- the driver's `scope` bits: the tree-level hypotheses of the C14 theorems -/
def scopeBits (S : Setup) : List (String × Bool) :=
  match S.strategy with
  | .auto => [("tree-ok", treeOKAutoB S.tr S.so S.uo), ("no-lit-loop", noLitLoopB S.tr S.uo)]
  | .union us => [("tree-ok", treeOKUnionB S.tr us), ("some-parent", S.tr.anyParent || S.tr.unionClasses == [0]),
                  ("order-ok", orderOKB S.tr)]

/-- all hypotheses of `C14_exact_subclass_partial` for one `(K, x)`, with the (concrete) hooks of `S` -/
def caseInScope (S : Setup) (K : Nat) (x : Obj) : Bool :=
  match Tagged.classOf x with
  | Option.none => false
  | some D =>
    S.tr.unionClasses.contains K && (S.tr.subclassesOf K).contains D &&
    match S.H.un D x with
    | some (.dict kvs) =>
      (S.H.st D (.dict kvs) == some x) &&
      match S.strategy with
      | .auto =>
        treeOKAutoB S.tr S.so S.uo && noLitLoopB S.tr S.uo &&
        match view (.dict kvs) with
        | some pl => payloadOfB S.tr.table D pl && litKeysPresentB S.tr.table D pl
        | Option.none => false
      | .union us =>
        treeOKUnionB S.tr us && (dlookup kvs (.str us.tagName)).isNone &&
        (S.forbid || S.H.st D (.dict (kvs ++ [(.str us.tagName, us.tag D)])) == S.H.st D (.dict kvs)) &&
        !(S.forbid && S.tr.anyParent && decide ((S.tr.subclassesOf K).length ≤ 1)) &&
        (S.tr.anyParent || S.tr.unionClasses == [0]) && orderOKB S.tr
    | _ => false

end CattrsModel.Subclasses
