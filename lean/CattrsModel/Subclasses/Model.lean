import CattrsModel.Disambig.Model
import CattrsModel.Tagged.Model
/-!
# Model of `cattrs.strategies.include_subclasses` (`strategies/_subclasses.py`)

Read line by line from the pinned source.  What is modelled:

* the class tree: every class has at most one direct base in the tree (`Node.parent`), its own declared
  fields, and — by inheritance, a redefinition replacing the inherited field of the same name — its
  effective fields, presented as the `Disambig` signatures the automatic disambiguator looks at;
* `_make_subclasses_tree` (pre-order walk over `__subclasses__()`), `_has_subclasses`, the per-class reduced
  union `set(tree(cl)) & set(given)` (a Python `set`: enumerated by an ARBITRARY `UnionOrder`) and the
  union-strategy variant `[c for c in union_classes if issubclass(c, cl)]`;
* what the strategy REGISTERS for every class `K` (`register`): automatic strategy — a structure hook that
  disambiguates among the reduced union of `K` and calls `K`'s own hook or `converter.structure(val, dis_cl)`
  (a plain hook for a leaf), and an unstructure hook dispatching on `val.__class__`; union strategy — after
  the first pass (own hooks), the FULL union's unstructure hook for every class, and the union structure hook
  of `K`'s sub-union for every class that has subclasses (a leaf keeps its own structure hook);
* when applying the strategy raises (`create_default_dis_func` refuses a reduced union; a tag is unhashable).

The per-class hooks the strategy captures (`make_dict_*_fn(cl, converter, **overrides)` or
`converter.get_*_hook(cl)`) are ABSTRACT (`Tagged.Hooks`): whatever the converter generated.  `Concrete`
(bottom) gives the executable hooks of int/Literal-typed fields used by the driver and the examples.

No Mathlib.
-/
namespace CattrsModel.Subclasses
open CattrsModel

/-- a field as declared in a class body: the disambiguator's view (`sig`: attribute name, dict key after the
`overrides` renames, "has no default" as `create_default_dis_func` sees it, literal values) plus what the
generated hooks need: the default value (`none` = required) and whether the unstructure hook omits the
field when it equals its default (`omit_if_default`). -/
structure SField where
  sig : Disambig.Field
  dv : Option Nat
  omitD : Bool
  deriving Repr, DecidableEq, Inhabited

structure Node where
  parent : Option Nat          -- the direct base class, as an index into the tree (`none`: the root)
  own : List SField            -- fields declared in the class body
  deriving Repr, DecidableEq, Inhabited

/-- The classes the strategy works on, as a tree.  With `subclasses=None` these are the root and all its descendants.
With an explicit `subclasses=(…)` they are the root and the LISTED classes: a listed class hangs below its nearest
listed ancestor (the code only ever asks `issubclass` / intersects real subtrees with the listing, so an omitted
intermediate class is transparent) and carries the fields of the omitted classes in between as its own.  Two places
of the code see more than that tree, hence two extra pieces of information:
* `indirect`: the classes whose direct base is NOT in the listing (`_has_subclasses` looks at `cl.__subclasses__()`,
  direct children only);
* `order`: the class tuple `(cl, *subclasses)` as given — any order, a class possibly more than once (listed twice; or
  found twice by `_make_subclasses_tree` in a diamond-shaped hierarchy); `[]` = the depth-first walk. -/
structure Tree where
  nodes : List Node
  indirect : List Nat := []
  order : List Nat := []
  deriving Repr, DecidableEq

def Tree.node (tr : Tree) (c : Nat) : Node := tr.nodes.getD c ⟨Option.none, []⟩
def Tree.size (tr : Tree) : Nat := tr.nodes.length

/-- `cl.__subclasses__()` restricted to the tree, in creation order -/
def Tree.children (tr : Tree) (c : Nat) : List Nat :=
  (List.range tr.size).filter (fun i => (tr.node i).parent == some c)

/-- `_make_subclasses_tree(cl)`: `[cl] + [sscl for scl in cl.__subclasses__() for sscl in tree(scl)]`
(fuel: the number of classes bounds the depth) -/
def Tree.preorderF (tr : Tree) : Nat → Nat → List Nat
  | 0, c => [c]
  | n+1, c => c :: (tr.children c).flatMap (tr.preorderF n)

/-- `parent_subclass_tree` / `union_classes` for `include_subclasses(<class 0>, converter)` -/
def Tree.unionClasses (tr : Tree) : List Nat := tr.preorderF tr.size 0

/-- `parent_subclass_tree` / `union_classes` in the order the code iterates over them -/
def Tree.classTuple (tr : Tree) : List Nat := if tr.order.isEmpty then tr.unionClasses else tr.order

/-- the classes that occur more than once in the class tuple -/
def Tree.dups (tr : Tree) : List Nat := tr.classTuple.filter (fun c => decide (1 < tr.classTuple.count c))

/-- `issubclass(c, k)` (walk up the bases) -/
def Tree.isSubF (tr : Tree) : Nat → Nat → Nat → Bool
  | 0, c, k => c == k
  | n+1, c, k => c == k ||
    match (tr.node c).parent with
    | some q => tr.isSubF n q k
    | Option.none => false

def Tree.isSub (tr : Tree) (c k : Nat) : Bool := tr.isSubF tr.size c k

/-- `tuple([c for c in union_classes if issubclass(c, cl)])` — `cl` and all its descendants, in tree order -/
def Tree.subclassesOf (tr : Tree) (k : Nat) : List Nat := tr.unionClasses.filter (fun c => tr.isSub c k)

/-- the descendants of `k` including `k` itself (vocabulary of the property statement) -/
abbrev Tree.descendants (tr : Tree) (k : Nat) : List Nat := tr.subclassesOf k

/-- `_has_subclasses(cl, union_classes)`: `bool(set(cl.__subclasses__()) & set(given))` — DIRECT subclasses only -/
def Tree.hasSubclasses (tr : Tree) (k : Nat) : Bool :=
  (tr.children k).any (fun c => tr.unionClasses.contains c && !tr.indirect.contains c)

/-! ## fields by inheritance -/

/-- attrs/dataclasses: a redefinition in the class body replaces the inherited attribute of the same name -/
def mergeFields (inh own : List SField) : List SField :=
  inh.filter (fun f => !(own.any (fun g => g.sig.name == f.sig.name))) ++ own

def Tree.fieldsF (tr : Tree) : Nat → Nat → List SField
  | 0, c => (tr.node c).own
  | n+1, c =>
    match (tr.node c).parent with
    | some q => mergeFields (tr.fieldsF n q) (tr.node c).own
    | Option.none => (tr.node c).own

/-- `attrs.fields(cl)` / `dataclasses.fields(cl)` (up to order, which nothing below depends on) -/
def Tree.fields (tr : Tree) (c : Nat) : List SField := tr.fieldsF tr.size c

/-- the class table the disambiguator sees: class index ↦ signature -/
def Tree.table (tr : Tree) : Disambig.Table :=
  (List.range tr.size).map (fun c => ⟨(tr.fields c).map (·.sig)⟩)

/-! ## enumeration of the reduced unions

`_get_union_type`: `class_tree = tuple(set(actual_subclass_tree) & set(given_subclasses_tree))` — the member
order of the reduced union of `cl` is the iteration order of a Python set of classes (it varies between
processes).  Modelled as an arbitrary enumeration of `subclassesOf cl`. -/
structure UnionOrder (tr : Tree) where
  mem : Nat → List Nat
  perm : ∀ k, (mem k).Perm (tr.subclassesOf k)

def UnionOrder.id (tr : Tree) : UnionOrder tr := ⟨tr.subclassesOf, fun _ => List.Perm.refl _⟩
def UnionOrder.rev (tr : Tree) : UnionOrder tr :=
  ⟨fun k => (tr.subclassesOf k).reverse, fun _ => List.reverse_perm _⟩

/-! ## the automatic strategy (`_include_subclasses_without_union_strategy`) -/

/-- the payload as the disambiguator reads it: keys, and the (coded) values under them -/
def viewKV : Obj × Obj → Option (String × Nat)
  | (.str k, .int v) => if 0 ≤ v then some (k, v.toNat) else Option.none
  | _ => Option.none

def view : Obj → Option Disambig.Payload
  | .dict kvs => kvs.mapM viewKV
  | _ => Option.none

/-- what `dis_fn(val)` returns -/
inductive DisCl where
  | cls (m : Nat)                -- a class
  | sub (ms : List Nat)          -- `Union[tuple(v)]`: several members share the literal value
  | raise (atCreate : Bool)      -- raises (`atCreate`: `create_default_dis_func` itself would have raised)
  deriving Repr, DecidableEq

/-- one call of the function returned by `create_default_dis_func(*ms)` -/
def disFn (so : Disambig.SetOrder) (t : Disambig.Table) (ms : List Nat) (p : Disambig.Payload) : DisCl :=
  match Disambig.litSelect Disambig.sortStr t ms with
  | some d =>
    match p.lookup d with
    | Option.none => .raise false
    | some v =>
      match Disambig.bucket t ms d v with
      | [] => .raise false
      | [m] => .cls m
      | m :: m' :: rest => .sub (m :: m' :: rest)
  | Option.none =>
    match Disambig.mkUniq so t ms with
    | Option.none => .raise true
    | some (pins, fb) =>
      match Disambig.resolveU pins fb (Disambig.pkeys p) with
      | some m => .cls m
      | Option.none => .raise false

/-- The structure hook registered for class `K` under `cls is K` (fuel counts the nested
`converter.structure` calls; running out of it is Python's `RecursionError`).

```
if subclass_union is None:  return _base_hook(val, _cl)
dis_cl = _dis_fn(val)
if dis_cl is _cl: return _base_hook(val, _cl)
return _c.structure(val, dis_cl)
```
`_c.structure(val, <class m>)` reaches the hook registered for `m` by this same strategy;
`_c.structure(val, Union[...])` reaches the converter's own union hook, which disambiguates again
(`Disambig.resolve`) and calls `self.structure(val, <class j>)`. -/
def stAutoF (so : Disambig.SetOrder) (t : Disambig.Table) (H : Tagged.Hooks) (mem : Nat → List Nat) :
    Nat → Nat → Obj → Option Obj
  | 0, _, _ => Option.none
  | n+1, K, p =>
    if (mem K).length < 2 then H.st K p
    else
      match view p with
      | Option.none => Option.none
      | some pl =>
        match disFn so t (mem K) pl with
        | .cls m => if m = K then H.st K p else stAutoF so t H mem n m p
        | .sub l =>
          match Disambig.resolve so t l pl with
          | .ok j => stAutoF so t H mem n j p
          | _ => Option.none
        | .raise _ => Option.none

/-- The unstructure hook registered for class `K`:
`if val.__class__ is _cl: return _base_hook(val)`; `return _c.unstructure(val, unstructure_as=val.__class__)`
— the latter reaches the hook registered for the run-time class, which takes its first branch. -/
def unAuto (H : Tagged.Hooks) (K : Nat) (x : Obj) : Option Obj :=
  match Tagged.classOf x with
  | some c => if c = K then H.un K x else H.un c x
  | Option.none => Option.none

/-- does applying the automatic strategy return (rather than raise)?  `_get_dis_func` is called for every
class with a reduced union of two or more. -/
def applyAutoOk (so : Disambig.SetOrder) (tr : Tree) (uo : UnionOrder tr) : Bool :=
  tr.unionClasses.all (fun K => decide ((uo.mem K).length < 2) || Disambig.createOk so tr.table (uo.mem K))

/-! ## a union strategy (`_include_subclasses_with_union_strategy` with `configure_tagged_union`) -/

/-- the union strategy: tag name and tag generator of `configure_tagged_union` -/
structure UStrat where
  tagName : String
  tag : Nat → Obj

/-- `final_union = Union[union_classes]`, configured by `union_strategy(final_union, converter)` -/
def fullTU (tr : Tree) (us : UStrat) (forbid : Bool) : Tagged.TU :=
  { members := tr.unionClasses, tag := us.tag, tagName := us.tagName, default := Option.none, forbid := forbid }

/-- `u = Union[subclasses]`, configured by `union_strategy(u, converter)` in the second pass -/
def subTU (tr : Tree) (us : UStrat) (forbid : Bool) (K : Nat) : Tagged.TU :=
  { members := tr.subclassesOf K, tag := us.tag, tagName := us.tagName, default := Option.none, forbid := forbid }

/-- `parent_classes` is non-empty (otherwise the strategy returns without registering anything) -/
def Tree.anyParent (tr : Tree) : Bool := tr.unionClasses.any tr.hasSubclasses

/-- The unstructure hook in force for class `K` after the strategy: the FULL union's tagging hook (second
pass, every class), or `K`'s own hook when nothing was registered. -/
def unUnion (tr : Tree) (us : UStrat) (forbid : Bool) (H : Tagged.Hooks) (K : Nat) (x : Obj) : Option Obj :=
  if tr.anyParent then Tagged.tagUn (fullTU tr us forbid) H x else H.un K x

/-- The second pass, one class of the tuple after the other: `if len(subclasses) > 1: union_strategy(u, converter);
sh = …; converter.register_structure_hook_func(cls_is_cl, sh)`.  `configure_tagged_union(u, converter)` fetches the member
hooks with `converter.get_structure_hook(member)` — the hooks in force AT THAT MOMENT (`cur`): the member's own hook of
the first pass, or, if the member was handled earlier in the tuple and has subclasses itself, the union hook `sh`
registered for it then. -/
def secondPass (tr : Tree) (us : UStrat) (forbid : Bool) (H : Tagged.Hooks) :
    List Nat → (Nat → Obj → Option Obj) → (Nat → Obj → Option Obj)
  | [], cur => cur
  | cl :: rest, cur =>
    if 1 < (tr.subclassesOf cl).length then
      secondPass tr us forbid H rest
        (fun c => if c = cl then (fun p => Tagged.tagSt (subTU tr us forbid cl) { un := H.un, st := cur } p) else cur c)
    else secondPass tr us forbid H rest cur

/-- The structure hook in force for class `K` afterwards: the `sh` registered for it (last) in the second pass when
`len(subclasses) > 1`; a class without subclasses keeps the hook of the first pass. -/
def stUnion (tr : Tree) (us : UStrat) (forbid : Bool) (H : Tagged.Hooks) (K : Nat) (p : Obj) : Option Obj :=
  if tr.anyParent then secondPass tr us forbid H tr.classTuple H.st K p else H.st K p

/-- The class tuple is in an order the second pass copes with: when a class is handled, none of the members of its
sub-union that have subclasses themselves has been handled before (true of the depth-first walk of a tree; false when a
class with subclasses is listed before one of its ancestors, or twice — finding F66 then, with `forbid_extra_keys`). -/
def OrderOKF (tr : Tree) : List Nat → List Nat → Prop
  | [], _ => True
  | cl :: rest, done =>
    (∀ c ∈ done, c ∈ tr.subclassesOf cl → ¬ 1 < (tr.subclassesOf c).length) ∧ OrderOKF tr rest (cl :: done)

def OrderOK (tr : Tree) : Prop := OrderOKF tr tr.classTuple []

/-- does applying the union strategy return?  Nothing happens without `parent_classes`; otherwise every tag must be
hashable, and a class that occurs twice in the class tuple must have another class below it: in the second pass
`subclasses = tuple([c for c in union_classes if issubclass(c, cl)])` is `(E, E)` for a duplicated `E` without
subclasses, `len(subclasses) > 1`, and `Union[(E, E)]` is `E` itself — `union_strategy(E, converter)` raises
`AttributeError: __args__`. -/
def applyUnionOk (tr : Tree) (us : UStrat) : Bool :=
  !tr.anyParent || (tr.unionClasses.all (fun c => Tagged.tagHashable (us.tag c)) &&
                    tr.dups.all (fun c => decide (1 < (tr.subclassesOf c).length)))

/-! ## both strategies behind one interface -/

inductive Strategy where
  | auto                       -- `union_strategy=None`
  | union (us : UStrat)        -- `union_strategy=configure_tagged_union` (possibly with tag name / generator)

/-- one application of `include_subclasses(<class 0>, converter, union_strategy=…, overrides=…)` -/
structure Setup where
  tr : Tree
  strategy : Strategy
  forbid : Bool                     -- `converter.forbid_extra_keys`
  H : Tagged.Hooks                  -- the per-class hooks the strategy captures
  so : Disambig.SetOrder            -- iteration order of Python `set[str]` inside the disambiguator
  uo : UnionOrder tr                -- iteration order of the sets of classes the reduced unions are built from

/-- enough for every chain of nested `structure` calls that terminates at all -/
def Setup.fuel (S : Setup) : Nat := S.tr.size + 2

/-- applying the strategy returns (rather than raises) -/
def Setup.applyOk (S : Setup) : Bool :=
  match S.strategy with
  | .auto => applyAutoOk S.so S.tr S.uo
  | .union us => applyUnionOk S.tr us

/-- `converter.unstructure(x, unstructure_as=K)` afterwards -/
def Setup.un (S : Setup) (K : Nat) (x : Obj) : Option Obj :=
  match S.strategy with
  | .auto => unAuto S.H K x
  | .union us => unUnion S.tr us S.forbid S.H K x

/-- `converter.structure(p, K)` afterwards -/
def Setup.st (S : Setup) (K : Nat) (p : Obj) : Option Obj :=
  match S.strategy with
  | .auto => stAutoF S.so S.tr.table S.H S.uo.mem S.fuel K p
  | .union us => stUnion S.tr us S.forbid S.H K p

/-- `converter.structure(converter.unstructure(x, unstructure_as=K), K)` -/
def Setup.roundTrip (S : Setup) (K : Nat) (x : Obj) : Option Obj := (S.un K x).bind (S.st K)

/-! ## applying the strategy again (same converter, or a copy of it, possibly after the hierarchy has grown)

Without `overrides` the strategy fetches the per-class hooks with `converter.get_*_hook(cl)`; on a converter the
strategy was applied to before, that returns — for a class the earlier application registered hooks for — those
strategy hooks (the predicates `cls is cl` are still in the dispatcher; newer registrations only shadow them). -/
def Setup.hooksAfter (S : Setup) (plain : Tagged.Hooks) : Tagged.Hooks :=
  { un := fun c x => if S.tr.unionClasses.contains c then S.un c x else plain.un c x
    st := fun c p => if S.tr.unionClasses.contains c then S.st c p else plain.st c p }

/-! ## specification vocabulary (used by the property statements) -/

/-- An inner class's own literal values (under the discriminator chosen for its reduced union) are carried by
no descendant: a payload of the class itself is then answered with the class, not with a `Union[...]` that
contains it.  Where this fails the code recurses without end (finding F47). -/
def LitDirect (t : Disambig.Table) (ms : List Nat) (K : Nat) : Prop :=
  ∀ d, Disambig.litSelect Disambig.sortStr t ms = some d →
    ∀ v ∈ (t.cls K).litOf d, Disambig.bucket t ms d v = [K]

/-- the tree is one the automatic strategy handles: "the disambiguator accepts every inner node's subtree
union" — hook creation succeeds for the reduced union of every class that has subclasses and for every literal
sub-union a payload can be routed to (`Disambig.deepOk`). -/
structure TreeOKAuto (tr : Tree) (so : Disambig.SetOrder) (uo : UnionOrder tr) : Prop where
  wf : tr.table.WF
  nodup : tr.unionClasses.Nodup
  deep : ∀ K ∈ tr.unionClasses, 2 ≤ (uo.mem K).length →
    Disambig.deepOk so tr.table (uo.mem K).length (uo.mem K) = true

/-- the union strategy's tag generator is injective on the tree and produces hashable tags; no class without
subclasses occurs twice in the class tuple (else applying the strategy raises, finding F64) -/
structure TreeOKUnion (tr : Tree) (us : UStrat) : Prop where
  inj : Tagged.InjectiveOn us.tag tr.unionClasses
  hashable : ∀ c ∈ tr.unionClasses, Tagged.tagHashable (us.tag c) = true
  nodups : ∀ c ∈ tr.dups, 1 < (tr.subclassesOf c).length
  tuple : ∀ c, c ∈ tr.classTuple ↔ c ∈ tr.unionClasses

def TreeOK (S : Setup) : Prop :=
  match S.strategy with
  | .auto => TreeOKAuto S.tr S.so S.uo
  | .union us => TreeOKUnion S.tr us

/-- `x` is an instance of EXACTLY class `D`, `kvs` is what `D`'s own unstructure hook makes of it, and `D`'s own
hooks round-trip it (C01/C09's business).  Per strategy: automatic — the dict is a payload of `D` in the
disambiguator's sense (its own keys only, required and literal keys present, literal values legal); union —
the tag name is not one of the dict's keys, and without `forbid_extra_keys` `D`'s structure hook ignores the
additional tag item. -/
def ConformsExact (S : Setup) (D : Nat) (x : Obj) (kvs : List (Obj × Obj)) : Prop :=
  Tagged.classOf x = some D ∧ S.H.un D x = some (.dict kvs) ∧ S.H.st D (.dict kvs) = some x ∧
  match S.strategy with
  | .auto => ∃ pl, view (.dict kvs) = some pl ∧ Disambig.PayloadOf S.tr.table D pl ∧
      Disambig.LitKeysPresent S.tr.table D pl
  | .union us => dlookup kvs (.str us.tagName) = Option.none ∧
      (S.forbid = false → S.H.st D (.dict (kvs ++ [(.str us.tagName, us.tag D)])) = S.H.st D (.dict kvs))

/-- region of finding F15: union strategy, `forbid_extra_keys`, and `K` has no subclasses in the tree (it keeps
its own structure hook but gets the tagging unstructure hook) -/
def F15Region (S : Setup) (K : Nat) : Prop :=
  match S.strategy with
  | .auto => False
  | .union _ => S.forbid = true ∧ S.tr.anyParent = true ∧ (S.tr.subclassesOf K).length ≤ 1

/-- region of finding F65: union strategy on an explicit listing with gaps such that no listed class is the DIRECT base
of a listed class — `parent_classes` is empty and the strategy returns without configuring anything, although the
listing has descendants to include -/
def F65Region (S : Setup) : Prop :=
  match S.strategy with
  | .auto => False
  | .union _ => S.tr.anyParent = false ∧ S.tr.unionClasses ≠ [0]

/-- region of finding F66: union strategy, `forbid_extra_keys`, a class tuple in which a class with subclasses comes
before one of its ancestors or occurs twice: the later union hook captures the earlier one as that member's hook, pops the
tag and hands the earlier one a payload without it -/
def F66Region (S : Setup) : Prop :=
  match S.strategy with
  | .auto => False
  | .union _ => ¬ OrderOK S.tr

/-- region of finding F47: automatic strategy, some class with subclasses shares one of its own literal
discriminator values with a descendant -/
def F47Region (S : Setup) : Prop :=
  match S.strategy with
  | .auto => ∃ K ∈ S.tr.unionClasses, 2 ≤ (S.uo.mem K).length ∧ ¬ LitDirect S.tr.table (S.uo.mem K) K
  | .union _ => False

/-! ## Concrete per-class hooks (driver, examples): classes whose fields are `int`- or `Literal`-typed

Values are coded as naturals (`Obj.int`); the generated dict hooks then are: -/

/-- `make_dict_unstructure_fn`: one item per field, under its key; omitted when `omit_if_default` applies
and the value equals the default.  (`none` = `AttributeError`: the object lacks the attribute.) -/
def concUnField (fvs : List (String × Obj)) (f : SField) : Option (List (Obj × Obj)) :=
  match fvs.lookup f.sig.name with
  | some (.int v) =>
    if f.omitD && f.dv == some v.toNat && decide (0 ≤ v) then some [] else some [(Obj.str f.sig.key, Obj.int v)]
  | _ => Option.none

def concUn (fs : List SField) (x : Obj) : Option Obj :=
  match x with
  | .inst _ fvs => (fs.mapM (concUnField fvs)).map (fun l => Obj.dict l.flatten)
  | _ => Option.none

/-- one field of `make_dict_structure_fn`'s result: the item under the key (validated against the literal
values), else the default, else `KeyError` -/
def concStField (kvs : List (Obj × Obj)) (f : SField) : Option (String × Obj) :=
  match dlookup kvs (.str f.sig.key) with
  | some (.int v) =>
    match f.sig.lit with
    | some vs => if 0 ≤ v && vs.contains v.toNat then some (f.sig.name, .int v) else Option.none
    | Option.none => some (f.sig.name, .int v)
  | some _ => Option.none
  | Option.none => f.dv.map (fun d => (f.sig.name, .int d))

/-- `make_dict_structure_fn(cl, converter)` with the converter's `forbid_extra_keys` -/
def concSt (forbid : Bool) (fs : List SField) (c : Nat) (p : Obj) : Option Obj :=
  match p with
  | .dict kvs =>
    if forbid && !(kvs.all (fun kv => fs.any (fun f => Obj.str f.sig.key == kv.1))) then Option.none
    else (fs.mapM (concStField kvs)).map (Obj.inst c)
  | _ => Option.none

def concHooks (tr : Tree) (forbid : Bool) : Tagged.Hooks :=
  { un := fun c x => concUn (tr.fields c) x, st := fun c p => concSt forbid (tr.fields c) c p }

end CattrsModel.Subclasses
