import CattrsModel.Sexp
import CattrsModel.Generics.Model
/-!
# Line-protocol operations of the generics model (driver only; no theorem depends on this file)

Annotation terms on the wire: `(tv "n")` `(lf "n")` `(app "c" a…)` `(ann a "m"…)` `self` `(pu a…)`.
`<pairs>` = `(("name" a)…)`; `<chain>` = `((lvl "name" ("param"…) <pairs: defaults> 0|1 <pairs: own fields> (a…: base args) [nb na])…)`,
head class first (`nb` / `na`: number of non-generic bases before / after the parametrised base); `<tgt>` = `bare` | `(alias a…)`.

* `DCW <pairs> <a|none> <a>`          → `(ok a)` | `err`          `deep_copy_with(t, mapping, self_is)`
* `SUBST <pairs> <a> <a>`             → `a`                       the specification (`self` as 2nd argument: `Self` stays)
* `INSCOPE <a>`                       → `1|0`                     `annOk` and not a bare `Self`
* `SCOPE <chain> (a…) [<tgt>]`        → `1|0`                     hypotheses of `C17_mono_partial`
* `MONO <chain> (a…) <a>`             → `<pairs>`                 `monoFields`
* `GENMAP <chain> <tgt>`              → `<pairs>`                 `generate_mapping(cl)` as a dict (each key once)
* `STRUCTGEN <chain> <tgt>`           → `(ok <pairs>)` | `refused`
* `STRUCTGENTD <chain> <tgt>`         → same, detailed TypedDict template
* `STRUCTGENTDFAST <chain> <tgt>`      → `(ok <pairs>)` | `refused`
* `UNSTRUCTGEN <chain> <tgt>`         → `(ok (("name" a|late)…))`   (`late`: unbound type variable, dispatched at run time)
* `REFUSES <chain> <tgt>`, `REFUSESTD <chain> <tgt>` → `1|0`
* `ALIAS ("param"…) <a> (a…)`         → `(ok a)` | `err`
* `MANGLE "cls" ("name"…)`            → `"structure_…"`
-/
namespace CattrsModel.Generics
open CattrsModel Sexp

partial def annOfSexp : Sexp → Option Ann
  | .atom "self" => some .self
  | .list [.atom "tv", .str n] => some (.tv n)
  | .list [.atom "lf", .str n] => some (.lf n)
  | .list (.atom "app" :: .str c :: as) => (as.mapM annOfSexp).map (.app c)
  | .list (.atom "ann" :: i :: ms) => do
      let i ← annOfSexp i
      let ms ← ms.mapM (fun (x : Sexp) => match x with
        | .str s => some s
        | _ => none)
      pure (.ann i ms)
  | .list (.atom "pu" :: ms) => (ms.mapM annOfSexp).map .pu
  | _ => none

partial def sexpOfAnn : Ann → Sexp
  | .tv n => .list [.atom "tv", .str n]
  | .lf n => .list [.atom "lf", .str n]
  | .app c as => .list (.atom "app" :: .str c :: as.map sexpOfAnn)
  | .ann i ms => .list (.atom "ann" :: sexpOfAnn i :: ms.map Sexp.str)
  | .self => .atom "self"
  | .pu ms => .list (.atom "pu" :: ms.map sexpOfAnn)

def annsOfSexp : Sexp → Option (List Ann)
  | .list xs => xs.mapM annOfSexp
  | _ => none

def strsOfSexp : Sexp → Option (List String)
  | .list xs => xs.mapM (fun (x : Sexp) => match x with
      | .str s => some s
      | _ => none)
  | _ => none

def pairsOfSexp : Sexp → Option (List (String × Ann))
  | .list xs => xs.mapM (fun (x : Sexp) => match x with
      | .list [.str n, a] => (annOfSexp a).map (fun a => (n, a))
      | _ => none)
  | _ => none

def sexpOfPairs (ps : List (String × Ann)) : Sexp :=
  .list (ps.map (fun p => .list [.str p.1, sexpOfAnn p.2]))

def levelOfSexp : Sexp → Option Level
  | .list [.atom "lvl", .str name, ps, dfl, gb, own, bargs] => do
      let ps ← strsOfSexp ps
      let dfl ← pairsOfSexp dfl
      let gb ← bool? gb
      let own ← pairsOfSexp own
      let bargs ← annsOfSexp bargs
      pure { name := name, params := ps, defaults := dfl, genericBase := gb, own := own, baseArgs := bargs }
  | .list [.atom "lvl", .str name, ps, dfl, gb, own, bargs, .atom pb, .atom pa] => do
      let ps ← strsOfSexp ps
      let dfl ← pairsOfSexp dfl
      let gb ← bool? gb
      let own ← pairsOfSexp own
      let bargs ← annsOfSexp bargs
      pure { name := name, params := ps, defaults := dfl, genericBase := gb, own := own, baseArgs := bargs,
             plainBefore := pb.toNat!, plainAfter := pa.toNat! }
  | _ => none

def chainOfSexp : Sexp → Option (List Level)
  | .list xs => xs.mapM levelOfSexp
  | _ => none

def targetOfSexp : Sexp → Option Target
  | .atom "bare" => some .bare
  | .list (.atom "alias" :: as) => (as.mapM annOfSexp).map .alias
  | _ => none

def sexpOfGen : Option (List (String × Ann)) → Sexp
  | some fs => .list [.atom "ok", sexpOfPairs fs]
  | none => .atom "refused"

def sexpOfRes : Option Ann → Sexp
  | some a => .list [.atom "ok", sexpOfAnn a]
  | none => .atom "err"

def genericsHandle (op : String) (args : List Sexp) : Option Sexp :=
  match op, args with
  | "DCW", [m, s, t] => do
      let m ← pairsOfSexp m
      let s ← match s with
        | .atom "none" => some none
        | s => (annOfSexp s).map some
      let t ← annOfSexp t
      pure (sexpOfRes (deepCopyWith m s t))
  | "SUBST", [m, s, t] => do
      let m ← pairsOfSexp m
      let s ← annOfSexp s
      let t ← annOfSexp t
      pure (sexpOfAnn (subst m (some s) t))
  | "INSCOPE", [t] => do
      let t ← annOfSexp t
      pure (ofBool (annOk t && !(t = .self)))
  | "SCOPE", [ch, as] => do
      let ch ← chainOfSexp ch
      let as ← annsOfSexp as
      pure (ofBool (scopeB ch as))
  | "SCOPE", [ch, as, tg] => do
      let ch ← chainOfSexp ch
      let as ← annsOfSexp as
      let tg ← targetOfSexp tg
      pure (ofBool (scopeB ch as && (targetArgs ch tg = some as)))
  | "MONO", [ch, as, s] => do
      let ch ← chainOfSexp ch
      let as ← annsOfSexp as
      let s ← annOfSexp s
      pure (sexpOfPairs (monoFields ch as (some s)))
  | "GENMAP", [ch, tg] => do
      let ch ← chainOfSexp ch
      let tg ← targetOfSexp tg
      pure (sexpOfPairs (effective (generateMapping ch tg []) []))
  | "STRUCTGEN", [ch, tg] => do
      let ch ← chainOfSexp ch
      let tg ← targetOfSexp tg
      pure (sexpOfGen (structGen ch tg))
  | "STRUCTGENTD", [ch, tg] => do
      let ch ← chainOfSexp ch
      let tg ← targetOfSexp tg
      pure (sexpOfGen (structGenTD ch tg))
  | "STRUCTGENTDFAST", [ch, tg] => do
      let ch ← chainOfSexp ch
      let tg ← targetOfSexp tg
      pure (sexpOfGen (structGenTDFast ch tg))
  | "UNSTRUCTGEN", [ch, tg] => do
      let ch ← chainOfSexp ch
      let tg ← targetOfSexp tg
      -- a field whose annotation is a type variable the mapping does not bind is dispatched at run time (`late`)
      let late := (allFields ch).map (fun nt => match nt.2 with
        | .tv n => (lookup (unstructMapping ch tg) n).isNone
        | _ => false)
      pure (.list [.atom "ok", .list (((unstructGen ch tg).zip late).map (fun p =>
        .list [.str p.1.1, if p.2 then .atom "late" else sexpOfAnn p.1.2]))])
  | "REFUSES", [ch, tg] => do
      let ch ← chainOfSexp ch
      let tg ← targetOfSexp tg
      pure (ofBool (refuses ch tg))
  | "REFUSESTD", [ch, tg] => do
      let ch ← chainOfSexp ch
      let tg ← targetOfSexp tg
      pure (ofBool (refusesTD ch tg))
  | "ALIAS", [ps, v, as] => do
      let ps ← strsOfSexp ps
      let v ← annOfSexp v
      let as ← annsOfSexp as
      pure (sexpOfRes (aliasResolve ps v as))
  | "MANGLE", [.str cls, ns] => do
      let ns ← strsOfSexp ns
      pure (.str (mangle cls ns))
  | _, _ => none

end CattrsModel.Generics
