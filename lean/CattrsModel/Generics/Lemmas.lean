import CattrsModel.Generics.Model
/-!
# Helper lemmas for the generics model (C17)
-/
namespace CattrsModel.Generics
set_option linter.unusedSectionVars false

/-! ## annotations -/

mutual
theorem subst_closed (m : Mapping) (s : Option Ann) : ∀ t, closed t = true → subst m s t = t
  | .tv _, h => by simp [closed] at h
  | .self, h => by simp [closed] at h
  | .lf _, _ => by simp [subst]
  | .app c as, h => by
      simp only [closed] at h
      simp [subst, substL_closed m s as h]
  | .ann i ms, h => by
      simp only [closed] at h
      simp [subst, subst_closed m s i h]
  | .pu ms, h => by
      simp only [closed] at h
      simp [subst, substL_closed m s ms h]
theorem substL_closed (m : Mapping) (s : Option Ann) : ∀ ts, closedL ts = true → substL m s ts = ts
  | [], _ => by simp [substL]
  | a :: as, h => by
      simp only [closedL, Bool.and_eq_true] at h
      simp [substL, subst_closed m s a h.1, substL_closed m s as h.2]
end

mutual
theorem rwArg_closed (m : Mapping) (s : Option Ann) : ∀ t, closed t = true → rwArg m s t = t
  | .tv _, h => by simp [closed] at h
  | .self, h => by simp [closed] at h
  | .lf _, _ => by simp [rwArg]
  | .app c as, h => by
      simp only [closed] at h
      simp [rwArg, rwArgs_closed m s as h]
  | .ann i ms, h => by
      simp only [closed] at h
      simp [rwArg, rwArg_closed m s i h]
  | .pu ms, _ => by simp [rwArg]
theorem rwArgs_closed (m : Mapping) (s : Option Ann) : ∀ ts, closedL ts = true → rwArgs m s ts = ts
  | [], _ => by simp [rwArgs]
  | a :: as, h => by
      simp only [closedL, Bool.and_eq_true] at h
      simp [rwArgs, rwArg_closed m s a h.1, rwArgs_closed m s as h.2]
end

/- the heart of C17: on annotations without an open PEP 604 union the recursive rewrite is true substitution -/
mutual
theorem rwArg_eq_subst (m : Mapping) (s : Option Ann) : ∀ t, annOk t = true → rwArg m s t = subst m s t
  | .tv _, _ => by simp [rwArg, subst]
  | .self, _ => by simp [rwArg, subst]
  | .lf _, _ => by simp [rwArg, subst]
  | .app c as, h => by
      simp only [annOk] at h
      simp [rwArg, subst, rwArgs_eq_substL m s as h]
  | .ann i ms, h => by
      simp only [annOk] at h
      simp [rwArg, subst, rwArg_eq_subst m s i h]
  | .pu ms, h => by
      simp only [annOk] at h
      simp [rwArg, subst, substL_closed m s ms h]
theorem rwArgs_eq_substL (m : Mapping) (s : Option Ann) : ∀ ts, annOkL ts = true → rwArgs m s ts = substL m s ts
  | [], _ => by simp [rwArgs, substL]
  | a :: as, h => by
      simp only [annOkL, Bool.and_eq_true] at h
      simp [rwArgs, substL, rwArg_eq_subst m s a h.1, rwArgs_eq_substL m s as h.2]
end

mutual
theorem subst_congr (m m' : Mapping) (s : Option Ann) :
    ∀ t, (∀ n, n ∈ tvars t → lookup m n = lookup m' n) → subst m s t = subst m' s t
  | .tv n, h => by simp [subst, h n (by simp [tvars])]
  | .self, _ => by simp [subst]
  | .lf _, _ => by simp [subst]
  | .app c as, h => by
      simp [subst, substL_congr m m' s as (fun n hn => h n (by simpa [tvars] using hn))]
  | .ann i ms, h => by
      simp [subst, subst_congr m m' s i (fun n hn => h n (by simpa [tvars] using hn))]
  | .pu ms, h => by
      simp [subst, substL_congr m m' s ms (fun n hn => h n (by simpa [tvars] using hn))]
theorem substL_congr (m m' : Mapping) (s : Option Ann) :
    ∀ ts, (∀ n, n ∈ tvarsL ts → lookup m n = lookup m' n) → substL m s ts = substL m' s ts
  | [], _ => by simp [substL]
  | a :: as, h => by
      simp [substL, subst_congr m m' s a (fun n hn => h n (by simp [tvarsL, hn])),
        substL_congr m m' s as (fun n hn => h n (by simp [tvarsL, hn]))]
end

mutual
theorem subst_self_irrel (m : Mapping) (s s' : Option Ann) :
    ∀ t, mentionsSelf t = false → subst m s t = subst m s' t
  | .tv _, _ => by simp [subst]
  | .self, h => by simp [mentionsSelf] at h
  | .lf _, _ => by simp [subst]
  | .app c as, h => by
      simp only [mentionsSelf] at h
      simp [subst, substL_self_irrel m s s' as h]
  | .ann i ms, h => by
      simp only [mentionsSelf] at h
      simp [subst, subst_self_irrel m s s' i h]
  | .pu ms, h => by
      simp only [mentionsSelf] at h
      simp [subst, substL_self_irrel m s s' ms h]
theorem substL_self_irrel (m : Mapping) (s s' : Option Ann) :
    ∀ ts, mentionsSelfL ts = false → substL m s ts = substL m s' ts
  | [], _ => by simp [substL]
  | a :: as, h => by
      simp only [mentionsSelfL, Bool.or_eq_false_iff] at h
      simp [substL, subst_self_irrel m s s' a h.1, substL_self_irrel m s s' as h.2]
end

/- the result of substituting closed types for every variable (and a closed type for `Self`) is closed -/
mutual
theorem closed_subst (m : Mapping) (s : Option Ann)
    (hs : ∀ c, s = some c → closed c = true) :
    ∀ t, annOk t = true → (∀ n, n ∈ tvars t → ∃ v, lookup m n = some v ∧ closed v = true) →
      (mentionsSelf t = true → s ≠ none) → closed (subst m s t) = true
  | .tv n, _, h, _ => by
      obtain ⟨v, hv, hc⟩ := h n (by simp [tvars])
      simp [subst, hv, hc]
  | .self, _, _, h => by
      cases s with
      | none => exact absurd rfl (h (by simp [mentionsSelf]))
      | some c => simpa [subst] using hs c rfl
  | .lf _, _, _, _ => by simp [subst, closed]
  | .app c as, ho, h, hself => by
      simp only [annOk] at ho
      simp only [subst, closed]
      exact closedL_substL m s hs as ho (fun n hn => h n (by simpa [tvars] using hn))
        (fun hm => hself (by simpa [mentionsSelf] using hm))
  | .ann i ms, ho, h, hself => by
      simp only [annOk] at ho
      simp only [subst, closed]
      exact closed_subst m s hs i ho (fun n hn => h n (by simpa [tvars] using hn))
        (fun hm => hself (by simpa [mentionsSelf] using hm))
  | .pu ms, ho, _, _ => by
      simp only [annOk] at ho
      simp [subst, closed, substL_closed m s ms ho, ho]
theorem closedL_substL (m : Mapping) (s : Option Ann)
    (hs : ∀ c, s = some c → closed c = true) :
    ∀ ts, annOkL ts = true → (∀ n, n ∈ tvarsL ts → ∃ v, lookup m n = some v ∧ closed v = true) →
      (mentionsSelfL ts = true → s ≠ none) → closedL (substL m s ts) = true
  | [], _, _, _ => by simp [substL, closedL]
  | a :: as, ho, h, hself => by
      simp only [annOkL, Bool.and_eq_true] at ho
      simp only [substL, closedL, Bool.and_eq_true]
      exact ⟨closed_subst m s hs a ho.1 (fun n hn => h n (by simp [tvarsL, hn]))
          (fun hm => hself (by simp [mentionsSelfL, hm])),
        closedL_substL m s hs as ho.2 (fun n hn => h n (by simp [tvarsL, hn]))
          (fun hm => hself (by simp [mentionsSelfL, hm]))⟩
end

theorem deepCopyWith_generic (m : Mapping) (s : Option Ann) (t : Ann) (h : genericNonBare t = true) :
    deepCopyWith m s t = some (rwArg m s t) := by
  cases t <;> simp [genericNonBare] at h <;> simp [deepCopyWith, rwArg]

theorem fieldRewrite_eq_dcw (m : Mapping) (cl : Ann) (t : Ann) (h : genericNonBare t = true) :
    deepCopyWith m (some cl) t = some (fieldRewrite m cl t) := by
  cases t <;> simp [genericNonBare] at h <;> simp [deepCopyWith, fieldRewrite]

theorem fieldRewrite_eq_subst (m : Mapping) (cl : Ann) (t : Ann) (ho : annOk t = true) (hs : t ≠ .self) :
    fieldRewrite m cl t = subst m (some cl) t := by
  cases t with
  | tv n => simp [fieldRewrite, subst]
  | lf n => simp [fieldRewrite, subst]
  | self => exact absurd rfl hs
  | app c as =>
      simp only [annOk] at ho
      simp [fieldRewrite, subst, rwArgs_eq_substL m (some cl) as ho]
  | ann i ms =>
      simp only [annOk] at ho
      simp [fieldRewrite, subst, rwArg_eq_subst m (some cl) i ho]
  | pu ms =>
      simp only [annOk] at ho
      simp [fieldRewrite, subst, substL_closed m (some cl) ms ho]


/-! ## mappings -/

theorem lookup_cons (k : String) (v : Ann) (m : Mapping) (n : String) :
    lookup ((k, v) :: m) n = if k = n then some v else lookup m n := rfl

theorem contains_eq_true_iff (ps : List String) (p : String) : ps.contains p = true ↔ p ∈ ps := by
  simp

theorem lookup_bindAll_notin (q : String) :
    ∀ (ps : List String) (as : List Ann) (m : Mapping), q ∉ ps → lookup (bindAll m ps as) q = lookup m q
  | [], _, m, _ => by simp [bindAll]
  | _ :: _, [], m, _ => by simp [bindAll]
  | p :: ps, a :: as, m, h => by
      have hp : p ≠ q := fun e => h (by simp [e])
      have hq : q ∉ ps := fun e => h (by simp [e])
      simp [bindAll, lookup_bindAll_notin q ps as _ hq, lookup_cons, hp]

theorem lookup_bindSkipTv_notin (q : String) :
    ∀ (ps : List String) (as : List Ann) (m : Mapping), q ∉ ps → lookup (bindSkipTv m ps as) q = lookup m q
  | [], _, m, _ => by simp [bindSkipTv]
  | _ :: _, [], m, _ => by simp [bindSkipTv]
  | p :: ps, a :: as, m, h => by
      have hp : p ≠ q := fun e => h (by simp [e])
      have hq : q ∉ ps := fun e => h (by simp [e])
      cases a <;> simp [bindSkipTv, lookup_bindSkipTv_notin q ps as _ hq, lookup_cons, hp]

theorem bindSkipTv_closed :
    ∀ (ps : List String) (as : List Ann) (m : Mapping), closedL as = true → bindSkipTv m ps as = bindAll m ps as
  | [], _, m, _ => by simp [bindSkipTv, bindAll]
  | _ :: _, [], m, _ => by simp [bindSkipTv, bindAll]
  | p :: ps, a :: as, m, h => by
      simp only [closedL, Bool.and_eq_true] at h
      cases a <;> simp [closed] at h <;> simp [bindSkipTv, bindAll, bindSkipTv_closed ps as _ (by simp [h])]

/-- every parameter that has an argument is bound to *some* argument, and that argument is one of the list -/
theorem lookup_bindAll_mem (q : String) :
    ∀ (ps : List String) (as : List Ann) (m : Mapping), q ∈ ps → ps.length ≤ as.length →
      ∃ v, lookup (bindAll m ps as) q = some v ∧ v ∈ as
  | [], _, _, h, _ => by simp at h
  | _ :: _, [], _, _, hl => by simp at hl
  | p :: ps, a :: as, m, h, hl => by
      by_cases hq : q ∈ ps
      · obtain ⟨v, hv, hm⟩ := lookup_bindAll_mem q ps as ((p, a) :: m) hq (by simpa using hl)
        exact ⟨v, by simpa [bindAll] using hv, by simp [hm]⟩
      · have hp : p = q := by
          cases List.mem_cons.mp h with
          | inl e => exact e.symm
          | inr e => exact absurd e hq
        exact ⟨a, by simp [bindAll, lookup_bindAll_notin q ps as _ hq, lookup_cons, hp], by simp⟩

theorem mem_closedL : ∀ (as : List Ann) (v : Ann), closedL as = true → v ∈ as → closed v = true
  | [], _, _, h => by simp at h
  | a :: as, v, hc, h => by
      simp only [closedL, Bool.and_eq_true] at hc
      cases List.mem_cons.mp h with
      | inl e => exact e ▸ hc.1
      | inr e => exact mem_closedL as v hc.2 e

/-- `dict(zip(ps, map(f, ps)))[q] = f(q)` -/
theorem lookup_bindAll_map (f : String → Ann) (q : String) :
    ∀ (ps : List String) (m : Mapping), q ∈ ps → lookup (bindAll m ps (ps.map f)) q = some (f q)
  | [], _, h => by simp at h
  | p :: ps, m, h => by
      by_cases hq : q ∈ ps
      · simpa [bindAll] using lookup_bindAll_map f q ps ((p, f p) :: m) hq
      · have hp : p = q := by
          cases List.mem_cons.mp h with
          | inl e => exact e.symm
          | inr e => exact absurd e hq
        simp [bindAll, lookup_bindAll_notin q ps _ _ hq, lookup_cons, hp]

theorem lookup_bindDefaults_notin (dfl : Mapping) (q : String) :
    ∀ (ps : List String) (m : Mapping), q ∉ ps → lookup (bindDefaults dfl m ps) q = lookup m q
  | [], m, _ => by simp [bindDefaults]
  | p :: ps, m, h => by
      have hp : p ≠ q := fun e => h (by simp [e])
      have hq : q ∉ ps := fun e => h (by simp [e])
      cases hd : lookup dfl p <;>
        simp [bindDefaults, hd, lookup_bindDefaults_notin dfl q ps _ hq, lookup_cons, hp]

theorem lookup_bindDefaults_mem (dfl : Mapping) (q : String) :
    ∀ (ps : List String) (m : Mapping), q ∈ ps → (∀ p, p ∈ ps → (lookup dfl p).isSome = true) →
      lookup (bindDefaults dfl m ps) q = lookup dfl q
  | [], _, h, _ => by simp at h
  | p :: ps, m, h, hall => by
      obtain ⟨d, hd⟩ := Option.isSome_iff_exists.mp (hall p (by simp))
      by_cases hq : q ∈ ps
      · simpa [bindDefaults, hd] using
          lookup_bindDefaults_mem dfl q ps ((p, d) :: m) hq (fun p' hp' => hall p' (by simp [hp']))
      · have hp : p = q := by
          cases List.mem_cons.mp h with
          | inl e => exact e.symm
          | inr e => exact absurd e hq
        subst hp
        simp [bindDefaults, hd, lookup_bindDefaults_notin dfl p ps _ hq, lookup_cons]


/-! ## the chain: the mapping handed to the templates versus level-by-level substitution -/

/-- the substitution `σ` of the monomorphised copy at one level and the mapping `m` of the implementation agree on
    the level's parameters, and bind them to closed types -/
def Agree (σ m : Mapping) (ps : List String) : Prop :=
  ∀ q, q ∈ ps → ∃ v, lookup σ q = some v ∧ lookup m q = some v ∧ closed v = true

theorem fieldOk_iff (ps : List String) (t : Ann) :
    fieldOk ps t = true ↔ annOk t = true ∧ t ≠ .self ∧ ∀ n, n ∈ tvars t → n ∈ ps := by
  simp [fieldOk, and_assoc]

theorem field_agree (σ m : Mapping) (ps : List String) (t : Ann) (s : Option Ann) (cl : Ann)
    (hA : Agree σ m ps) (hf : fieldOk ps t = true) (hs : s = some cl ∨ mentionsSelf t = false)
    (hcl : closed cl = true) :
    subst σ s t = fieldRewrite m cl t ∧ closed (fieldRewrite m cl t) = true := by
  obtain ⟨ho, hns, htv⟩ := (fieldOk_iff ps t).mp hf
  have h1 : subst σ s t = subst σ (some cl) t := by
    cases hs with
    | inl e => rw [e]
    | inr e => exact subst_self_irrel σ s (some cl) t e
  have h2 : subst σ (some cl) t = subst m (some cl) t :=
    subst_congr σ m (some cl) t (fun n hn => by
      obtain ⟨v, hv1, hv2, _⟩ := hA n (htv n hn)
      rw [hv1, hv2])
  rw [fieldRewrite_eq_subst m cl t ho hns]
  refine ⟨h1.trans h2, ?_⟩
  exact closed_subst m (some cl) (fun c hc => by cases hc; exact hcl) t ho
    (fun n hn => by
      obtain ⟨v, _, hv2, hc⟩ := hA n (htv n hn)
      exact ⟨v, hv2, hc⟩)
    (fun _ => by simp)

theorem substL_map_tv (σ : Mapping) (s : Option Ann) :
    ∀ ps : List String, substL σ s (ps.map Ann.tv) = ps.map (fun q => subst σ s (.tv q))
  | [] => by simp [substL]
  | p :: ps => by simp [substL, substL_map_tv σ s ps]

theorem rewriteFields_congr (f g : Ann → Ann) (fs : List (String × Ann))
    (h : ∀ nt, nt ∈ fs → f nt.2 = g nt.2) : rewriteFields f fs = rewriteFields g fs := by
  unfold rewriteFields
  exact List.map_congr_left (fun nt hnt => by rw [h nt hnt])

theorem rewriteFields_append (f : Ann → Ann) (a b : List (String × Ann)) :
    rewriteFields f (a ++ b) = rewriteFields f a ++ rewriteFields f b := by
  simp [rewriteFields]

theorem mem_rewriteFields (f : Ann → Ann) (fs : List (String × Ann)) (nt : String × Ann) :
    nt ∈ rewriteFields f fs ↔ ∃ x, x ∈ fs ∧ (x.1, f x.2) = nt := by
  simp [rewriteFields]

/-- levels whose parameters are passed through under the same name all the way up -/
theorem monoLevels_agree (m : Mapping) (cl : Ann) (s : Option Ann) (hcl : closed cl = true) :
    ∀ (L : List Level) (cur : List Ann),
      L.all levelOk = true → passThrough L = true →
      (s = some cl ∨ ∀ nt, nt ∈ allFields L → mentionsSelf nt.2 = false) →
      (∀ lv, L.head? = some lv → Agree (zipMap lv.params cur) m lv.params) →
      flattenRev (monoLevels s L cur) = rewriteFields (fieldRewrite m cl) (allFields L) ∧
      ∀ nt, nt ∈ rewriteFields (fieldRewrite m cl) (allFields L) → closed nt.2 = true
  | [], _, _, _, _, _ => by simp [monoLevels, flattenRev, allFields, rewriteFields]
  | lv :: rest, cur, hok, hpt, hself, hA => by
      have hA0 := hA lv rfl
      simp only [List.all_cons, Bool.and_eq_true] at hok
      have hlv : ∀ nt, nt ∈ lv.own → fieldOk lv.params nt.2 = true := by
        have := hok.1
        simp only [levelOk, List.all_eq_true] at this
        exact this
      -- the rest of the chain
      have hrest : passThrough rest = true ∧
          (∀ b, rest.head? = some b →
            Agree (zipMap b.params (substL (zipMap lv.params cur) none lv.baseArgs)) m b.params) := by
        cases rest with
        | nil => simp [passThrough]
        | cons b r =>
          simp only [passThrough, Bool.and_eq_true, decide_eq_true_eq, List.all_eq_true] at hpt
          refine ⟨hpt.2, ?_⟩
          intro b' hb'
          simp only [List.head?_cons, Option.some.injEq] at hb'
          subst hb'
          intro q hq
          have hq0 : q ∈ lv.params := by simpa using hpt.1.2 q hq
          obtain ⟨v, hv1, hv2, hc⟩ := hA0 q hq0
          refine ⟨v, ?_, hv2, hc⟩
          rw [hpt.1.1, substL_map_tv, zipMap, lookup_bindAll_map _ q b.params [] hq]
          simp [subst, hv1]
      have hselfR : s = some cl ∨ ∀ nt, nt ∈ allFields rest → mentionsSelf nt.2 = false := by
        cases hself with
        | inl e => exact Or.inl e
        | inr e => exact Or.inr (fun nt hnt => e nt (by simp [allFields, hnt]))
      obtain ⟨ih1, ih2⟩ := monoLevels_agree m cl s hcl rest
        (substL (zipMap lv.params cur) none lv.baseArgs) hok.2 hrest.1 hselfR hrest.2
      have hown : ∀ nt, nt ∈ lv.own →
          subst (zipMap lv.params cur) s nt.2 = fieldRewrite m cl nt.2 ∧
          closed (fieldRewrite m cl nt.2) = true := by
        intro nt hnt
        refine field_agree _ m lv.params nt.2 s cl hA0 (hlv nt hnt) ?_ hcl
        cases hself with
        | inl e => exact Or.inl e
        | inr e => exact Or.inr (e nt (by simp [allFields, hnt]))
      constructor
      · simp only [monoLevels, flattenRev, allFields, rewriteFields_append, ih1]
        congr 1
        exact rewriteFields_congr _ _ _ (fun nt hnt => (hown nt hnt).1)
      · intro nt hnt
        simp only [allFields, rewriteFields_append, List.mem_append] at hnt
        cases hnt with
        | inl h => exact ih2 nt h
        | inr h =>
          obtain ⟨x, hx, rfl⟩ := (mem_rewriteFields _ _ _).mp h
          exact (hown x hx).2

theorem bindSkipTv_nil_args (m : Mapping) (ps : List String) : bindSkipTv m ps [] = m := by
  cases ps <;> simp [bindSkipTv]

/-- the head class's own parameters are not touched by the base's bindings (needs: no base parameter bound to a
    closed type is named like an own parameter — otherwise F28 "capture") -/
theorem own_unaffected (own : List String) (p : String) (hp : p ∈ own) :
    ∀ (bps : List String) (bargs : List Ann) (m : Mapping), bindOk own bps bargs = true →
      lookup (bindSkipTv m bps bargs) p = lookup m p
  | [], _, m, _ => by simp [bindSkipTv]
  | _ :: _, [], m, _ => by simp [bindSkipTv]
  | bp :: bps, a :: as, m, h => by
      simp only [bindOk, Bool.and_eq_true, Bool.or_eq_true, decide_eq_true_eq, Bool.not_eq_true',
        contains_eq_true_iff] at h
      obtain ⟨h1, h2⟩ := h
      cases h1 with
      | inl e =>
        rw [e.1]
        simpa [bindSkipTv] using own_unaffected own p hp bps as m h2
      | inr e =>
        have hne : bp ≠ p := by
          intro ee
          have : own.contains bp = true := by simp [ee, hp]
          rw [this] at e
          exact absurd e.2 (by simp)
        have ih := own_unaffected own p hp bps as ((bp, a) :: m) h2
        cases a <;> simp [closed] at e <;> simp [bindSkipTv, ih, lookup_cons, hne]

/-- the base's parameters: passed through (same name) or bound to a closed type -/
theorem base_agree (σ0 : Mapping) (own : List String) :
    ∀ (bps : List String) (bargs : List Ann) (mA mB : Mapping),
      bindOk own bps bargs = true →
      (∀ p, p ∈ own → ∃ v, lookup σ0 p = some v ∧ lookup mB p = some v ∧ closed v = true) →
      ∀ q, q ∈ bps → ∃ v, lookup (bindAll mA bps (substL σ0 none bargs)) q = some v ∧
        lookup (bindSkipTv mB bps bargs) q = some v ∧ closed v = true
  | [], _, _, _, _, _, q, hq => by simp at hq
  | _ :: _, [], _, _, h, _, _, _ => by simp [bindOk] at h
  | bp :: bps, a :: as, mA, mB, h, hB, q, hq => by
      simp only [bindOk, Bool.and_eq_true, Bool.or_eq_true, decide_eq_true_eq, Bool.not_eq_true',
        contains_eq_true_iff] at h
      obtain ⟨h1, h2⟩ := h
      by_cases hqt : q ∈ bps
      · -- a later binding decides on both sides
        cases h1 with
        | inl e =>
          have := base_agree σ0 own bps as ((bp, subst σ0 none a) :: mA) mB h2 hB q hqt
          rw [e.1] at this ⊢
          simpa [bindAll, substL, bindSkipTv] using this
        | inr e =>
          have hnot : bp ∉ own := by
            intro hm
            have : own.contains bp = true := by simp [hm]
            rw [this] at e
            exact absurd e.2 (by simp)
          have hB' : ∀ p, p ∈ own → ∃ v, lookup σ0 p = some v ∧ lookup ((bp, a) :: mB) p = some v ∧
              closed v = true := by
            intro p hp
            obtain ⟨v, hv1, hv2, hc⟩ := hB p hp
            have hne : bp ≠ p := fun ee => hnot (ee ▸ hp)
            exact ⟨v, hv1, by simp [lookup_cons, hne, hv2], hc⟩
          have := base_agree σ0 own bps as ((bp, subst σ0 none a) :: mA) ((bp, a) :: mB) h2 hB' q hqt
          cases a <;> simp [closed] at e <;> simpa [bindAll, substL, bindSkipTv] using this
      · have hqb : bp = q := by
          cases List.mem_cons.mp hq with
          | inl e => exact e.symm
          | inr e => exact absurd e hqt
        subst hqb
        cases h1 with
        | inl e =>
          obtain ⟨v, hv1, hv2, hc⟩ := hB bp (by simpa using e.2)
          refine ⟨v, ?_, ?_, hc⟩
          · rw [e.1]
            simp [bindAll, substL, lookup_bindAll_notin bp bps _ _ hqt, lookup_cons, subst, hv1]
          · rw [e.1]
            simp [bindSkipTv, lookup_bindSkipTv_notin bp bps _ _ hqt, hv2]
        | inr e =>
          refine ⟨a, ?_, ?_, e.1⟩
          · simp [bindAll, substL, lookup_bindAll_notin bp bps _ _ hqt, lookup_cons, subst_closed σ0 none a e.1]
          · cases a <;> simp [closed] at e <;>
              simp [bindSkipTv, lookup_bindSkipTv_notin bp bps _ _ hqt, lookup_cons]


theorem any_of_all_ne_nil (f : String → Bool) : ∀ ps : List String, ps ≠ [] → ps.all f = true → ps.any f = true
  | [], h, _ => absurd rfl h
  | p :: ps, _, h => by
      simp only [List.all_cons, Bool.and_eq_true] at h
      simp [h.1]

/-! ## non-generic entries of `__orig_bases__` are skipped by both loops -/

theorem dropPlain_replicate_append (n : Nat) (r : List OrigBase) :
    dropPlain (List.replicate n .plain ++ r) = dropPlain r := by
  induction n with
  | zero => rfl
  | succ k ih => simpa [List.replicate_succ, dropPlain] using ih

theorem dropPlain_origBases (chain : List Level) : dropPlain (origBases chain) = origBasesCore chain := by
  match chain with
  | [] => rfl
  | [lv] =>
    simp only [origBases, origBasesCore, dropPlain_replicate_append]
    split <;> rfl
  | lv :: b :: r =>
    simp only [origBases, origBasesCore]
    rw [dropPlain_replicate_append]
    by_cases hb : lv.baseArgs.isEmpty = true
    · simp only [hb, ↓reduceIte, List.nil_append, dropPlain_replicate_append]
      split <;> rfl
    · simp only [hb, Bool.false_eq_true, ↓reduceIte, List.cons_append, List.nil_append, dropPlain,
        dropPlain_replicate_append]
      split <;> rfl

theorem genMapBare_dropPlain (dfl : Mapping) :
    ∀ (obs : List OrigBase) (m : Mapping), genMapBare dfl obs m = genMapBare dfl (dropPlain obs) m
  | [], _ => rfl
  | .param bps args :: r, m => by simp only [genMapBare, dropPlain]; exact genMapBare_dropPlain dfl r _
  | .generic ps :: r, m => by simp only [genMapBare, dropPlain]; exact genMapBare_dropPlain dfl r _
  | .plain :: r, m => by simp only [genMapBare, dropPlain]; exact genMapBare_dropPlain dfl r m

theorem firstParamBase_dropPlain : ∀ (obs : List OrigBase), firstParamBase obs = firstParamBase (dropPlain obs)
  | [] => rfl
  | .param _ _ :: _ => by simp only [firstParamBase, dropPlain]
  | .generic _ :: r => by simp only [firstParamBase, dropPlain]; exact firstParamBase_dropPlain r
  | .plain :: r => by simp only [firstParamBase, dropPlain]; exact firstParamBase_dropPlain r

theorem mem_param_dropPlain (bps : List String) (args : List Ann) :
    ∀ (obs : List OrigBase), OrigBase.param bps args ∈ obs → OrigBase.param bps args ∈ dropPlain obs
  | [], h => by simp at h
  | .param b a :: r, h => by
      simp only [dropPlain]
      rcases List.mem_cons.mp h with e | e
      · rw [e]; exact List.mem_cons_self
      · exact List.mem_cons_of_mem _ (mem_param_dropPlain bps args r e)
  | .generic ps :: r, h => by
      simp only [dropPlain]
      rcases List.mem_cons.mp h with e | e
      · cases e
      · exact List.mem_cons_of_mem _ (mem_param_dropPlain bps args r e)
  | .plain :: r, h => by
      simp only [dropPlain]
      rcases List.mem_cons.mp h with e | e
      · cases e
      · exact mem_param_dropPlain bps args r e

/-- what `generate_mapping(cl)` binds the head class's own parameters to: the arguments the target denotes -/
theorem headMapping_agree (lv : Level) (rest : List Level) (tgt : Target) (args : List Ann)
    (ht : targetArgs (lv :: rest) tgt = some args) (hlen : args.length = lv.params.length)
    (hcl : closedL args = true) :
    ∀ p, p ∈ lv.params → ∃ v, lookup (zipMap lv.params args) p = some v ∧
      lookup (generateMapping (lv :: rest) tgt []) p = some v ∧ closed v = true := by
  intro p hp
  cases tgt with
  | alias a =>
    simp only [targetArgs, Option.some.injEq] at ht
    subst ht
    obtain ⟨v, hv, hm⟩ := lookup_bindAll_mem p lv.params a [] hp (by omega)
    refine ⟨v, hv, ?_, mem_closedL a v hcl hm⟩
    simp only [generateMapping]
    rw [bindSkipTv_closed lv.params a [] hcl]
    exact hv
  | bare =>
    have hne : lv.params ≠ [] := by
      intro e
      rw [e] at hp
      simp at hp
    have hemp : lv.params.isEmpty = false := by
      cases h : lv.params with
      | nil => exact absurd h hne
      | cons _ _ => rfl
    simp only [targetArgs, hemp] at ht
    by_cases hg : (lv.genericBase && lv.params.all (fun p => (lookup (globalDefaults (lv :: rest)) p).isSome)) = true
    · rw [if_pos hg] at ht
      simp only [Bool.false_eq_true, ↓reduceIte, Option.some.injEq] at ht
      simp only [Bool.and_eq_true] at hg
      obtain ⟨hgb, hall⟩ := hg
      have hall' : ∀ q, q ∈ lv.params → (lookup (globalDefaults (lv :: rest)) q).isSome = true := by
        simpa [List.all_eq_true] using hall
      obtain ⟨d, hd⟩ := Option.isSome_iff_exists.mp (hall' p hp)
      have hany := any_of_all_ne_nil _ lv.params hne hall
      have hσ : lookup (zipMap lv.params args) p = some d := by
        rw [← ht, zipMap, lookup_bindAll_map _ p lv.params [] hp]
        simp [hd]
      have hdm : d ∈ args := by
        rw [← ht]
        exact List.mem_map.mpr ⟨p, hp, by simp [hd]⟩
      refine ⟨d, hσ, ?_, mem_closedL args d hcl hdm⟩
      have hgen : isGenericBare (lv :: rest) = true := by
        simp [isGenericBare, hemp]
      simp only [generateMapping, hgen, ↓reduceIte]
      rw [genMapBare_dropPlain, dropPlain_origBases]
      cases rest with
      | nil =>
        simp only [origBasesCore, hgb, hemp, Bool.not_false, Bool.and_self, ↓reduceIte, genMapBare, hany]
        rw [lookup_bindDefaults_mem _ p lv.params [] hp hall', hd]
      | cons b r =>
        by_cases hb : lv.baseArgs.isEmpty = true
        · simp only [origBasesCore, hb, ↓reduceIte, List.nil_append, hgb, hemp, Bool.not_false, Bool.and_self,
            genMapBare, hany]
          rw [lookup_bindDefaults_mem _ p lv.params [] hp hall', hd]
        · simp only [origBasesCore, hb, Bool.false_eq_true, ↓reduceIte, hgb, hemp, Bool.not_false, Bool.and_self,
            List.cons_append, List.nil_append, genMapBare, hany]
          rw [lookup_bindDefaults_mem _ p lv.params _ hp hall', hd]
    · rw [if_neg hg] at ht
      simp at ht

theorem firstParamBase_cons2 (lv b : Level) (r : List Level) (m : Mapping) :
    (match firstParamBase (origBases (lv :: b :: r)) with
      | some (bps, args) => bindSkipTv m bps args
      | none => m) = bindSkipTv m b.params lv.baseArgs := by
  rw [firstParamBase_dropPlain, dropPlain_origBases]
  by_cases hb : lv.baseArgs.isEmpty = true
  · have : lv.baseArgs = [] := by simpa using hb
    rw [this, bindSkipTv_nil_args]
    cases hg : (lv.genericBase && !lv.params.isEmpty) <;> simp [origBasesCore, this, hg, firstParamBase]
  · simp [origBasesCore, hb, firstParamBase]

theorem structMapping_cons2 (lv b : Level) (r : List Level) (tgt : Target) :
    structMapping (lv :: b :: r) tgt = bindSkipTv (generateMapping (lv :: b :: r) tgt []) b.params lv.baseArgs := by
  simp only [structMapping]
  exact firstParamBase_cons2 lv b r _

theorem structMapping_single (lv : Level) (tgt : Target) :
    structMapping [lv] tgt = generateMapping [lv] tgt [] := by
  simp only [structMapping]
  rw [firstParamBase_dropPlain, dropPlain_origBases]
  cases hg : (lv.genericBase && !lv.params.isEmpty) <;> simp [origBasesCore, hg, firstParamBase]


/-- core of `C17_mono_partial`: in scope, the mapping binds every own parameter and rewriting the fields with it is
    level-by-level substitution; all resulting field types are closed -/
theorem scope_core (lv : Level) (rest : List Level) (tgt : Target) (args : List Ann)
    (ht : targetArgs (lv :: rest) tgt = some args) (hs : scopeB (lv :: rest) args = true) :
    paramsBound (lv :: rest) (structMapping (lv :: rest) tgt) = true ∧
    rewriteFields (fieldRewrite (structMapping (lv :: rest) tgt) (selfIs (lv :: rest))) (allFields (lv :: rest)) =
      monoFields (lv :: rest) args (some (selfSpec (lv :: rest) args)) ∧
    ∀ nt, nt ∈ rewriteFields (fieldRewrite (structMapping (lv :: rest) tgt) (selfIs (lv :: rest)))
      (allFields (lv :: rest)) → closed nt.2 = true := by
  simp only [scopeB, Bool.and_eq_true, beq_iff_eq, Bool.or_eq_true] at hs
  obtain ⟨⟨⟨⟨hlen, hcl⟩, hok⟩, hselfc⟩, hrest⟩ := hs
  have hclS : closed (selfIs (lv :: rest)) = true := by simp [selfIs, closed]
  have hself : some (selfSpec (lv :: rest) args) = some (selfIs (lv :: rest)) ∨
      ∀ nt, nt ∈ allFields (lv :: rest) → mentionsSelf nt.2 = false := by
    cases hselfc with
    | inl e => exact Or.inl (by simp [selfSpec, selfIs, e])
    | inr e => exact Or.inr (by simpa [List.all_eq_true] using e)
  have hhead := headMapping_agree lv rest tgt args ht hlen hcl
  -- the two agreement facts, by cases on the rest of the chain
  have hAgree : Agree (zipMap lv.params args) (structMapping (lv :: rest) tgt) lv.params ∧
      passThrough rest = true ∧
      (∀ b, rest.head? = some b →
        Agree (zipMap b.params (substL (zipMap lv.params args) none lv.baseArgs))
          (structMapping (lv :: rest) tgt) b.params) := by
    cases rest with
    | nil =>
      refine ⟨?_, by simp [passThrough], by simp⟩
      rw [structMapping_single]
      exact hhead
    | cons b r =>
      simp only [Bool.and_eq_true] at hrest
      rw [structMapping_cons2]
      refine ⟨?_, hrest.2, ?_⟩
      · intro p hp
        obtain ⟨v, hv1, hv2, hc⟩ := hhead p hp
        exact ⟨v, hv1, by rw [own_unaffected lv.params p hp b.params lv.baseArgs _ hrest.1]; exact hv2, hc⟩
      · intro b' hb'
        simp only [List.head?_cons, Option.some.injEq] at hb'
        subst hb'
        intro q hq
        exact base_agree (zipMap lv.params args) lv.params b.params lv.baseArgs [] _ hrest.1 hhead q hq
  obtain ⟨hA0, hpt, hA1⟩ := hAgree
  simp only [List.all_cons, Bool.and_eq_true] at hok
  have hselfR : some (selfSpec (lv :: rest) args) = some (selfIs (lv :: rest)) ∨
      ∀ nt, nt ∈ allFields rest → mentionsSelf nt.2 = false := by
    cases hself with
    | inl e => exact Or.inl e
    | inr e => exact Or.inr (fun nt hnt => e nt (by simp [allFields, hnt]))
  obtain ⟨ih1, ih2⟩ := monoLevels_agree (structMapping (lv :: rest) tgt) (selfIs (lv :: rest))
    (some (selfSpec (lv :: rest) args)) hclS rest (substL (zipMap lv.params args) none lv.baseArgs)
    hok.2 hpt hselfR hA1
  have hlv : ∀ nt, nt ∈ lv.own → fieldOk lv.params nt.2 = true := by
    have := hok.1
    simp only [levelOk, List.all_eq_true] at this
    exact this
  have hown : ∀ nt, nt ∈ lv.own →
      subst (zipMap lv.params args) (some (selfSpec (lv :: rest) args)) nt.2 =
        fieldRewrite (structMapping (lv :: rest) tgt) (selfIs (lv :: rest)) nt.2 ∧
      closed (fieldRewrite (structMapping (lv :: rest) tgt) (selfIs (lv :: rest)) nt.2) = true := by
    intro nt hnt
    refine field_agree _ _ lv.params nt.2 _ _ hA0 (hlv nt hnt) ?_ hclS
    cases hself with
    | inl e => exact Or.inl e
    | inr e => exact Or.inr (e nt (by simp [allFields, hnt]))
  refine ⟨?_, ?_, ?_⟩
  · simp only [paramsBound, List.all_eq_true]
    intro p hp
    obtain ⟨v, _, hv2, _⟩ := hA0 p hp
    simp [hv2]
  · simp only [monoFields, monoLevels, flattenRev, allFields, rewriteFields_append, ih1]
    congr 1
    exact (rewriteFields_congr _ _ _ (fun nt hnt => (hown nt hnt).1)).symm
  · intro nt hnt
    simp only [allFields, rewriteFields_append, List.mem_append] at hnt
    cases hnt with
    | inl h => exact ih2 nt h
    | inr h =>
      obtain ⟨x, hx, rfl⟩ := (mem_rewriteFields _ _ _).mp h
      exact (hown x hx).2


/-! ## the second rewrite of the detailed TypedDict template -/

theorem genericRewrite_closed (m : Mapping) (cl : Ann) (t : Ann) (h : closed t = true) :
    genericRewrite m cl t = t := by
  cases t with
  | app c as =>
    simp only [closed] at h
    simp [genericRewrite, rwArgs_closed m (some cl) as h]
  | ann i ms =>
    simp only [closed] at h
    simp [genericRewrite, rwArg_closed m (some cl) i h]
  | _ => simp [genericRewrite]

theorem nrbCore_closed (t x : Ann) (h : closed t = true) (hx : nrbCore t = some x) : closed x = true := by
  cases t with
  | app c as =>
    cases as with
    | nil => simp [nrbCore] at hx
    | cons a r =>
      simp only [closed, closedL, Bool.and_eq_true] at h
      simp only [nrbCore] at hx
      split at hx
      · cases hx; exact h.1
      · cases hx
  | _ => simp [nrbCore] at hx

theorem stripNR_closed (t : Ann) (h : closed t = true) : closed (stripNR t) = true := by
  unfold stripNR
  cases hn : nrb t with
  | none => exact h
  | some x =>
    cases t with
    | ann i ms =>
      simp only [closed] at h
      exact nrbCore_closed i x h (by simpa [nrb] using hn)
    | app c as => exact nrbCore_closed _ x h (by simpa [nrb] using hn)
    | _ => simp [nrb, nrbCore] at hn

/-- in the scope of `C17_mono_partial` the field types are closed after the first rewrite: the second one is the identity -/
theorem tdRewrite_of_closed (m : Mapping) (cl t : Ann) (h : closed (fieldRewrite m cl t) = true) :
    tdRewrite m cl t = stripNR (fieldRewrite m cl t) :=
  genericRewrite_closed m cl _ (stripNR_closed _ h)

section idem
variable (m : Mapping) (cl : Ann) (hm : ∀ n v, lookup m n = some v → closed v = true) (hcl : closed cl = true)
include hm hcl

mutual
theorem rwArg_idem : ∀ t, rwArg m (some cl) (rwArg m (some cl) t) = rwArg m (some cl) t
  | .tv n => by
      cases hl : lookup m n with
      | none => simp [rwArg, hl]
      | some v => simp [rwArg, hl, rwArg_closed m (some cl) v (hm n v hl)]
  | .self => by simp [rwArg, rwArg_closed m (some cl) cl hcl]
  | .lf _ => by simp [rwArg]
  | .app c as => by simp [rwArg, rwArgs_idem as]
  | .ann i ms => by simp [rwArg, rwArg_idem i]
  | .pu ms => by simp [rwArg]
theorem rwArgs_idem : ∀ ts, rwArgs m (some cl) (rwArgs m (some cl) ts) = rwArgs m (some cl) ts
  | [] => by simp [rwArgs]
  | a :: as => by simp [rwArgs, rwArg_idem a, rwArgs_idem as]
end

theorem genericRewrite_rwArg (x : Ann) :
    genericRewrite m cl (rwArg m (some cl) x) = rwArg m (some cl) x := by
  cases x with
  | tv n =>
    cases hl : lookup m n with
    | none => simp [rwArg, hl, genericRewrite]
    | some v => simpa [rwArg, hl] using genericRewrite_closed m cl v (hm n v hl)
  | self => simpa [rwArg] using genericRewrite_closed m cl cl hcl
  | lf n => simp [rwArg, genericRewrite]
  | pu ms => simp [rwArg, genericRewrite]
  | app c as => simp [rwArg, genericRewrite, rwArgs_idem m cl hm hcl as]
  | ann i ms => simp [rwArg, genericRewrite, rwArg_idem m cl hm hcl i]

theorem nrbCore_rwArg_stable (i x : Ann) (h : nrbCore (rwArg m (some cl) i) = some x) :
    genericRewrite m cl x = x := by
  cases i with
  | tv n =>
    cases hl : lookup m n with
    | none => simp [rwArg, hl, nrbCore] at h
    | some v =>
      simp only [rwArg, hl] at h
      exact genericRewrite_closed m cl x (nrbCore_closed v x (hm n v hl) h)
  | self =>
    simp only [rwArg] at h
    exact genericRewrite_closed m cl x (nrbCore_closed cl x hcl h)
  | lf n => simp [rwArg, nrbCore] at h
  | pu ms => simp [rwArg, nrbCore] at h
  | ann j ms => simp [rwArg, nrbCore] at h
  | app c as =>
    cases as with
    | nil => simp [rwArg, rwArgs, nrbCore] at h
    | cons a r =>
      simp only [rwArg, rwArgs, nrbCore] at h
      split at h
      · cases h
        exact genericRewrite_rwArg m cl hm hcl a
      · cases h

/-- with closed bindings the second rewrite of the detailed TypedDict template changes nothing -/
theorem tdRewrite_eq (t : Ann) : tdRewrite m cl t = stripNR (fieldRewrite m cl t) := by
  unfold tdRewrite
  cases t with
  | tv n =>
    cases hl : lookup m n with
    | none => simp [fieldRewrite, hl, stripNR, nrb, nrbCore, genericRewrite]
    | some v =>
      simp only [fieldRewrite, hl]
      exact genericRewrite_closed m cl _ (stripNR_closed v (hm n v hl))
  | lf n => simp [fieldRewrite, stripNR, nrb, nrbCore, genericRewrite]
  | self => simp [fieldRewrite, stripNR, nrb, nrbCore, genericRewrite]
  | pu ms => simp [fieldRewrite, stripNR, nrb, nrbCore, genericRewrite]
  | app c as =>
    have hu : fieldRewrite m cl (.app c as) = rwArg m (some cl) (.app c as) := by simp [fieldRewrite, rwArg]
    rw [hu]
    unfold stripNR
    cases hn : nrb (rwArg m (some cl) (.app c as)) with
    | none => exact genericRewrite_rwArg m cl hm hcl _
    | some x =>
      have : nrbCore (rwArg m (some cl) (.app c as)) = some x := by simpa [rwArg, nrb] using hn
      exact nrbCore_rwArg_stable m cl hm hcl _ x this
  | ann i ms =>
    have hu : fieldRewrite m cl (.ann i ms) = rwArg m (some cl) (.ann i ms) := by simp [fieldRewrite, rwArg]
    rw [hu]
    unfold stripNR
    cases hn : nrb (rwArg m (some cl) (.ann i ms)) with
    | none => exact genericRewrite_rwArg m cl hm hcl _
    | some x =>
      have : nrbCore (rwArg m (some cl) i) = some x := by simpa [rwArg, nrb] using hn
      exact nrbCore_rwArg_stable m cl hm hcl _ x this

end idem

theorem rewriteFields_comp (f g : Ann → Ann) (fs : List (String × Ann)) :
    rewriteFields g (rewriteFields f fs) = rewriteFields (fun t => g (f t)) fs := by
  simp [rewriteFields, List.map_map, Function.comp_def]


/-! ## positional binding (`zip(parameters, args)`) -/

theorem lookup_bindSkipTv_zip (p : String) (a : Ann) (ha : ∀ n, a ≠ .tv n) :
    ∀ (ps : List String) (as : List Ann) (m : Mapping), ps.Nodup → (p, a) ∈ ps.zip as →
      lookup (bindSkipTv m ps as) p = some a
  | [], _, _, _, h => by simp at h
  | _ :: _, [], _, _, h => by simp at h
  | p0 :: ps, a0 :: as, m, hn, h => by
      simp only [List.nodup_cons] at hn
      simp only [List.zip_cons_cons, List.mem_cons, Prod.mk.injEq] at h
      cases h with
      | inl e =>
        obtain ⟨e1, e2⟩ := e
        subst e1 e2
        cases a <;> first | exact absurd rfl (ha _) | simp [bindSkipTv, lookup_bindSkipTv_notin p ps as _ hn.1, lookup_cons]
      | inr e =>
        cases a0 <;> simp [bindSkipTv, lookup_bindSkipTv_zip p a ha ps as _ hn.2 e]

/-- every argument given for `p` is itself a `TypeVar` (in particular: no argument at all) -/
def OnlyTv (ps : List String) (as : List Ann) (p : String) : Prop :=
  ∀ a, (p, a) ∈ ps.zip as → ∃ n, a = .tv n

theorem lookup_bindSkipTv_onlyTv (p : String) :
    ∀ (ps : List String) (as : List Ann) (m : Mapping), OnlyTv ps as p →
      lookup (bindSkipTv m ps as) p = lookup m p
  | [], _, m, _ => by simp [bindSkipTv]
  | _ :: _, [], m, _ => by simp [bindSkipTv]
  | p0 :: ps, a0 :: as, m, h => by
      have ht : OnlyTv ps as p := fun a ha => h a (by simp [ha])
      have ih := lookup_bindSkipTv_onlyTv p ps as
      by_cases hp : p0 = p
      · subst hp
        obtain ⟨n, hn⟩ := h a0 (by simp)
        subst hn
        simpa [bindSkipTv] using ih m ht
      · cases a0 <;> simp [bindSkipTv, ih _ ht, lookup_cons, hp]

theorem lookup_bindAll_cases (p : String) (v : Ann) :
    ∀ (ps : List String) (as : List Ann) (m : Mapping), lookup (bindAll m ps as) p = some v →
      (p, v) ∈ ps.zip as ∨ lookup m p = some v
  | [], _, m, h => by simpa [bindAll] using h
  | _ :: _, [], m, h => by simpa [bindAll] using h
  | p0 :: ps, a0 :: as, m, h => by
      simp only [bindAll] at h
      cases lookup_bindAll_cases p v ps as _ h with
      | inl e => exact Or.inl (by simp [e])
      | inr e =>
        simp only [lookup_cons] at e
        split at e
        · next hp => cases e; exact Or.inl (by simp [hp])
        · exact Or.inr e

theorem lookup_bindDefaults_nodefault (dfl : Mapping) (p : String) (hd : lookup dfl p = none) :
    ∀ (ps : List String) (m : Mapping), lookup (bindDefaults dfl m ps) p = lookup m p
  | [], m => by simp [bindDefaults]
  | p0 :: ps, m => by
      cases h0 : lookup dfl p0 with
      | none => simp [bindDefaults, h0, lookup_bindDefaults_nodefault dfl p hd ps]
      | some d =>
        have hne : p0 ≠ p := by
          intro e
          rw [e, hd] at h0
          cases h0
        simp [bindDefaults, h0, lookup_bindDefaults_nodefault dfl p hd ps, lookup_cons, hne]

/-- `p` is unbound in `m`, or bound to something that still mentions a type variable -/
def TvLike (m : Mapping) (p : String) : Prop :=
  lookup m p = none ∨ ∃ v, lookup m p = some v ∧ mentionsTv v = true

mutual
theorem mentionsTv_rwArg (m : Mapping) (s : Option Ann) (p : String) (h : TvLike m p) :
    ∀ t, p ∈ tvars t → mentionsTv (rwArg m s t) = true
  | .tv n, hp => by
      simp only [tvars, List.mem_singleton] at hp
      subst hp
      cases h with
      | inl e => simp [rwArg, e, mentionsTv]
      | inr e =>
        obtain ⟨v, hv, hm⟩ := e
        simp [rwArg, hv, hm]
  | .self, hp => by simp [tvars] at hp
  | .lf _, hp => by simp [tvars] at hp
  | .app c as, hp => by
      simp only [tvars] at hp
      simp [rwArg, mentionsTv, mentionsTvL_rwArgs m s p h as hp]
  | .ann i ms, hp => by
      simp only [tvars] at hp
      simp [rwArg, mentionsTv, mentionsTv_rwArg m s p h i hp]
  | .pu ms, hp => by
      simp only [tvars] at hp
      simp [rwArg, mentionsTv, mentionsTvL_of_tvarsL p ms hp]
theorem mentionsTvL_rwArgs (m : Mapping) (s : Option Ann) (p : String) (h : TvLike m p) :
    ∀ ts, p ∈ tvarsL ts → mentionsTvL (rwArgs m s ts) = true
  | [], hp => by simp [tvarsL] at hp
  | a :: as, hp => by
      simp only [tvarsL, List.mem_append] at hp
      cases hp with
      | inl e => simp [rwArgs, mentionsTvL, mentionsTv_rwArg m s p h a e]
      | inr e => simp [rwArgs, mentionsTvL, mentionsTvL_rwArgs m s p h as e]
theorem mentionsTv_of_tvars (p : String) : ∀ t, p ∈ tvars t → mentionsTv t = true
  | .tv _, _ => by simp [mentionsTv]
  | .self, hp => by simp [tvars] at hp
  | .lf _, hp => by simp [tvars] at hp
  | .app c as, hp => by
      simp only [tvars] at hp
      simp [mentionsTv, mentionsTvL_of_tvarsL p as hp]
  | .ann i ms, hp => by
      simp only [tvars] at hp
      simp [mentionsTv, mentionsTv_of_tvars p i hp]
  | .pu ms, hp => by
      simp only [tvars] at hp
      simp [mentionsTv, mentionsTvL_of_tvarsL p ms hp]
theorem mentionsTvL_of_tvarsL (p : String) : ∀ ts, p ∈ tvarsL ts → mentionsTvL ts = true
  | [], hp => by simp [tvarsL] at hp
  | a :: as, hp => by
      simp only [tvarsL, List.mem_append] at hp
      cases hp with
      | inl e => simp [mentionsTvL, mentionsTv_of_tvars p a e]
      | inr e => simp [mentionsTvL, mentionsTvL_of_tvarsL p as e]
end

theorem mentionsTv_fieldRewrite (m : Mapping) (cl : Ann) (p : String) (h : TvLike m p) (t : Ann)
    (hp : p ∈ tvars t) : mentionsTv (fieldRewrite m cl t) = true := by
  cases t with
  | tv n => simpa [fieldRewrite, rwArg] using mentionsTv_rwArg m (some cl) p h (.tv n) hp
  | app c as => simpa [fieldRewrite, rwArg] using mentionsTv_rwArg m (some cl) p h (.app c as) hp
  | ann i ms => simpa [fieldRewrite, rwArg] using mentionsTv_rwArg m (some cl) p h (.ann i ms) hp
  | lf n => simp [tvars] at hp
  | self => simp [tvars] at hp
  | pu ms => simpa [fieldRewrite] using mentionsTv_of_tvars p (.pu ms) hp

/-! ## the hook cache -/

def CacheOk (world : Nat → List Level) (c : HookCache) : Prop :=
  ∀ k r, cacheLookup c k = some r → r = structGen (world k.1) k.2

theorem getHook_ok (world : Nat → List Level) (c : HookCache) (k : Key) (h : CacheOk world c) :
    CacheOk world (getHook world c k).1 ∧ (getHook world c k).2 = structGen (world k.1) k.2 := by
  unfold getHook
  cases hl : cacheLookup c k with
  | some r => exact ⟨h, h k r hl⟩
  | none =>
    refine ⟨?_, rfl⟩
    intro k' r' hk'
    simp only [cacheLookup] at hk'
    split at hk'
    · next e => cases hk'; rw [← e]
    · exact h k' r' hk'

theorem runHist_ok (world : Nat → List Level) :
    ∀ (ks : List Key) (c : HookCache), CacheOk world c → CacheOk world (runHist world ks c)
  | [], _, h => h
  | k :: ks, c, h => runHist_ok world ks _ (getHook_ok world c k h).1

/-! ## function names -/

def sepJoin : List (List Char) → List Char
  | [] => []
  | n :: r => '_' :: sanitizeL n ++ sepJoin r

theorem foldl_mangle (ns : List (List Char)) : ∀ acc : List Char,
    ns.foldl (fun acc n => acc ++ '_' :: sanitizeL n) acc = acc ++ sepJoin ns := by
  induction ns with
  | nil => intro acc; simp [sepJoin]
  | cons n r ih => intro acc; simp [List.foldl_cons, ih, sepJoin]

theorem mangleL_eq (cls : List Char) (ns : List (List Char)) :
    mangleL cls ns = "structure_".toList ++ cls ++ sepJoin ns := by
  unfold mangleL
  rw [foldl_mangle]

/-- a name made of characters the sanitiser leaves alone and without the separator -/
def Plain (n : List Char) : Prop := ∀ c, c ∈ n → sanitizeChar c = c ∧ c ≠ '_'

theorem sanitizeL_id (n : List Char) (h : ∀ c, c ∈ n → sanitizeChar c = c) : sanitizeL n = n := by
  unfold sanitizeL
  induction n with
  | nil => rfl
  | cons c r ih =>
    simp only [List.map_cons]
    rw [h c (by simp), ih (fun c' hc' => h c' (by simp [hc']))]

def StartsSep (r : List Char) : Prop := r = [] ∨ ∃ t, r = '_' :: t

theorem split_unique : ∀ (n n' r r' : List Char), (∀ c, c ∈ n → c ≠ '_') → (∀ c, c ∈ n' → c ≠ '_') →
    StartsSep r → StartsSep r' → n ++ r = n' ++ r' → n = n' ∧ r = r'
  | [], [], _, _, _, _, _, _, h => ⟨rfl, by simpa using h⟩
  | [], c :: n', r, r', _, h2, hr, _, h => by
      simp only [List.nil_append, List.cons_append] at h
      cases hr with
      | inl e => rw [e] at h; cases h
      | inr e =>
        obtain ⟨t, ht⟩ := e
        rw [ht] at h
        injection h with hc _
        exact absurd hc.symm (h2 c (by simp))
  | c :: n, [], r, r', h1, _, _, hr', h => by
      simp only [List.nil_append, List.cons_append] at h
      cases hr' with
      | inl e => rw [e] at h; cases h
      | inr e =>
        obtain ⟨t, ht⟩ := e
        rw [ht] at h
        injection h with hc _
        exact absurd hc (h1 c (by simp))
  | c :: n, c' :: n', r, r', h1, h2, hr, hr', h => by
      simp only [List.cons_append] at h
      injection h with hc ht
      obtain ⟨e1, e2⟩ := split_unique n n' r r' (fun x hx => h1 x (by simp [hx]))
        (fun x hx => h2 x (by simp [hx])) hr hr' ht
      exact ⟨by rw [hc, e1], e2⟩

theorem sepJoin_startsSep (ns : List (List Char)) : StartsSep (sepJoin ns) := by
  cases ns with
  | nil => exact Or.inl rfl
  | cons n r => exact Or.inr ⟨_, rfl⟩

theorem sepJoin_injective : ∀ (ns ns' : List (List Char)), (∀ n, n ∈ ns → Plain n) → (∀ n, n ∈ ns' → Plain n) →
    sepJoin ns = sepJoin ns' → ns = ns'
  | [], [], _, _, _ => rfl
  | [], _ :: _, _, _, h => by simp [sepJoin] at h
  | _ :: _, [], _, _, h => by simp [sepJoin] at h
  | n :: r, n' :: r', h1, h2, h => by
      have hn := h1 n (by simp)
      have hn' := h2 n' (by simp)
      simp only [sepJoin, List.cons_append] at h
      injection h with _ h
      rw [sanitizeL_id n (fun c hc => (hn c hc).1), sanitizeL_id n' (fun c hc => (hn' c hc).1)] at h
      obtain ⟨e1, e2⟩ := split_unique n n' _ _ (fun c hc => (hn c hc).2) (fun c hc => (hn' c hc).2)
        (sepJoin_startsSep r) (sepJoin_startsSep r') h
      rw [e1, sepJoin_injective r r' (fun x hx => h1 x (by simp [hx])) (fun x hx => h2 x (by simp [hx])) e2]


/-! ## refusal of unbound parameters -/

theorem tvLike_bindAll (p : String) (ps : List String) (as : List Ann) (m : Mapping)
    (ho : OnlyTv ps as p) (h : TvLike m p) : TvLike (bindAll m ps as) p := by
  cases hl : lookup (bindAll m ps as) p with
  | none => exact Or.inl hl
  | some v =>
    refine Or.inr ⟨v, hl, ?_⟩
    cases lookup_bindAll_cases p v ps as m hl with
    | inl e =>
      obtain ⟨n, hn⟩ := ho v e
      simp [hn, mentionsTv]
    | inr e =>
      cases h with
      | inl e' => rw [e'] at e; cases e
      | inr e' =>
        obtain ⟨v', hv', hm'⟩ := e'
        rw [hv'] at e
        cases e
        exact hm'

theorem tvLike_genMapBare (dfl : Mapping) (p : String) (hd : lookup dfl p = none) :
    ∀ (obs : List OrigBase) (m : Mapping),
      (∀ bps args, OrigBase.param bps args ∈ obs → OnlyTv bps args p) → TvLike m p →
      TvLike (genMapBare dfl obs m) p
  | [], m, _, h => by simpa [genMapBare] using h
  | .param bps args :: r, m, ho, h => by
      simp only [genMapBare]
      exact tvLike_genMapBare dfl p hd r _ (fun b a hb => ho b a (by simp [hb]))
        (tvLike_bindAll p bps args m (ho bps args (by simp)) h)
  | .generic ps :: r, m, ho, h => by
      simp only [genMapBare]
      refine tvLike_genMapBare dfl p hd r _ (fun b a hb => ho b a (by simp [hb])) ?_
      split
      · unfold TvLike
        rw [lookup_bindDefaults_nodefault dfl p hd ps m]
        exact h
      · exact h
  | .plain :: r, m, ho, h => by
      simp only [genMapBare]
      exact tvLike_genMapBare dfl p hd r m (fun b a hb => ho b a (by simp [hb])) h

theorem mem_origBases_param (lv : Level) (rest : List Level) (bps : List String) (args : List Ann)
    (h : OrigBase.param bps args ∈ origBases (lv :: rest)) :
    ∃ b r, rest = b :: r ∧ bps = b.params ∧ args = lv.baseArgs := by
  have h := mem_param_dropPlain bps args _ h
  rw [dropPlain_origBases] at h
  cases rest with
  | nil =>
    simp only [origBasesCore] at h
    split at h <;> simp at h
  | cons b r =>
    refine ⟨b, r, rfl, ?_⟩
    simp only [origBasesCore, List.mem_append] at h
    cases h with
    | inl e =>
      split at e
      · simp at e
      · simpa using e
    | inr e =>
      split at e <;> simp at e

/-- a parameter that the target leaves unbound, that has no default and that the base does not bind to a concrete
    type is refused as soon as an own field mentions it -/
theorem unbound_refuses (lv : Level) (rest : List Level) (tgt : Target) (p : String)
    (hunb : match tgt with
      | .alias args => OnlyTv lv.params args p
      | .bare => lookup (globalDefaults (lv :: rest)) p = none)
    (hcap : ∀ b, rest.head? = some b → OnlyTv b.params lv.baseArgs p)
    (hused : ∃ nt, nt ∈ lv.own ∧ p ∈ tvars nt.2) : refuses (lv :: rest) tgt = true := by
  have hA : TvLike (generateMapping (lv :: rest) tgt []) p := by
    cases tgt with
    | alias args =>
      simp only at hunb
      left
      simp only [generateMapping]
      rw [lookup_bindSkipTv_onlyTv p lv.params args [] hunb]
      rfl
    | bare =>
      simp only at hunb
      simp only [generateMapping]
      split
      · refine tvLike_genMapBare _ p hunb _ [] ?_ (Or.inl rfl)
        intro bps args hmem
        obtain ⟨b, r, hr, hb, ha⟩ := mem_origBases_param lv rest bps args hmem
        rw [hb, ha]
        exact hcap b (by simp [hr])
      · exact Or.inl rfl
  have hB : TvLike (structMapping (lv :: rest) tgt) p := by
    cases rest with
    | nil => rw [structMapping_single]; exact hA
    | cons b r =>
      rw [structMapping_cons2]
      unfold TvLike
      rw [lookup_bindSkipTv_onlyTv p b.params lv.baseArgs _ (hcap b rfl)]
      exact hA
  unfold refuses
  cases hsg : structGen (lv :: rest) tgt with
  | none => rfl
  | some fs =>
    unfold structGen at hsg
    simp only at hsg
    split at hsg
    · cases hsg
      obtain ⟨nt, hnt, hp⟩ := hused
      simp only [List.any_eq_true]
      refine ⟨(nt.1, fieldRewrite (structMapping (lv :: rest) tgt) (selfIs (lv :: rest)) nt.2), ?_, ?_⟩
      · exact (mem_rewriteFields _ _ _).mpr ⟨nt, by simp [allFields, hnt], rfl⟩
      · exact mentionsTv_fieldRewrite _ _ p hB nt.2 hp
    · cases hsg

/-! ## generic aliases; refusal before any payload is looked at -/

theorem lookup_bindAll_zip (p : String) (a : Ann) :
    ∀ (ps : List String) (as : List Ann) (m : Mapping), ps.Nodup → (p, a) ∈ ps.zip as →
      lookup (bindAll m ps as) p = some a
  | [], _, _, _, h => by simp at h
  | _ :: _, [], _, _, h => by simp at h
  | q :: ps, b :: as, m, hn, h => by
      simp only [List.zip_cons_cons, List.mem_cons, Prod.mk.injEq] at h
      simp only [List.nodup_cons] at hn
      simp only [bindAll]
      rcases h with ⟨rfl, rfl⟩ | h
      · rw [lookup_bindAll_notin p ps as _ hn.1]
        simp [lookup]
      · exact lookup_bindAll_zip p a ps as _ hn.2 h

theorem aliasResolve_eq_subst (params : List String) (value : Ann) (args : List Ann)
    (hcl : closedL args = true) (hok : annOk value = true)
    (hname : ∀ n, dunderName value = some n → (∀ k, value ≠ .tv k) → lookup (zipMap params args) n = none)
    (hpu : ∀ ms, value ≠ .pu ms) :
    aliasResolve params value args = some (subst (zipMap params args) none value) := by
  have hm : bindSkipTv [] params args = zipMap params args := bindSkipTv_closed params args [] hcl
  simp only [aliasResolve, hm]
  cases value with
  | tv n =>
    simp only [dunderName, subst]
    cases h : lookup (zipMap params args) n <;> simp [deepCopyWith]
  | lf n =>
    have := hname _ rfl (by intro k e; cases e)
    simp only [dunderName, this, deepCopyWith, subst]
  | app c as =>
    have := hname _ rfl (by intro k e; cases e)
    simp only [annOk] at hok
    simp only [dunderName, this, deepCopyWith, subst, rwArgs_eq_substL _ none as hok]
  | ann i ms =>
    have := hname _ rfl (by intro k e; cases e)
    simp only [annOk] at hok
    simp only [dunderName, this, deepCopyWith, subst, rwArg_eq_subst _ none i hok]
  | self =>
    have := hname _ rfl (by intro k e; cases e)
    simp only [dunderName, this, deepCopyWith, subst]
  | pu ms => exact absurd rfl (hpu ms)

theorem none_genMapBare (dfl : Mapping) (p : String) (hd : lookup dfl p = none) :
    ∀ (obs : List OrigBase) (m : Mapping),
      (∀ bps args, OrigBase.param bps args ∈ obs → p ∉ bps) → lookup m p = none →
      lookup (genMapBare dfl obs m) p = none
  | [], m, _, h => by simpa [genMapBare] using h
  | .param bps args :: r, m, ho, h => by
      simp only [genMapBare]
      refine none_genMapBare dfl p hd r _ (fun b a hb => ho b a (by simp [hb])) ?_
      rw [lookup_bindAll_notin p bps args m (ho bps args (by simp))]
      exact h
  | .generic ps :: r, m, ho, h => by
      simp only [genMapBare]
      refine none_genMapBare dfl p hd r _ (fun b a hb => ho b a (by simp [hb])) ?_
      split
      · rw [lookup_bindDefaults_nodefault dfl p hd ps m]
        exact h
      · exact h
  | .plain :: r, m, ho, h => by
      simp only [genMapBare]
      exact none_genMapBare dfl p hd r m (fun b a hb => ho b a (by simp [hb])) h

/-- the mapping handed to the templates leaves `p` out altogether: creating the hook raises "Missing type for generic
    argument" whatever the payload -/
theorem unbound_upfront (lv : Level) (rest : List Level) (tgt : Target) (p : String) (hp : p ∈ lv.params)
    (hunb : match tgt with
      | .alias args => OnlyTv lv.params args p
      | .bare => lookup (globalDefaults (lv :: rest)) p = none)
    (hcap : ∀ b, rest.head? = some b → match tgt with
      | .alias _ => OnlyTv b.params lv.baseArgs p
      | .bare => p ∉ b.params) :
    paramsBound (lv :: rest) (structMapping (lv :: rest) tgt) = false := by
  have hA : lookup (generateMapping (lv :: rest) tgt []) p = none := by
    cases tgt with
    | alias args =>
      simp only at hunb
      simp only [generateMapping]
      rw [lookup_bindSkipTv_onlyTv p lv.params args [] hunb]
      rfl
    | bare =>
      simp only at hunb
      simp only [generateMapping]
      split
      · refine none_genMapBare _ p hunb _ [] ?_ rfl
        intro bps args hmem
        obtain ⟨b, r, hr, hb, _⟩ := mem_origBases_param lv rest bps args hmem
        rw [hb]
        have := hcap b (by simp [hr])
        simpa using this
      · rfl
  have hB : lookup (structMapping (lv :: rest) tgt) p = none := by
    cases rest with
    | nil => rw [structMapping_single]; exact hA
    | cons b r =>
      rw [structMapping_cons2]
      have hc := hcap b rfl
      cases tgt with
      | alias args =>
        simp only at hc
        rw [lookup_bindSkipTv_onlyTv p b.params lv.baseArgs _ hc]
        exact hA
      | bare =>
        simp only at hc
        rw [lookup_bindSkipTv_notin p b.params lv.baseArgs _ hc]
        exact hA
  simp only [paramsBound]
  rw [List.all_eq_false]
  exact ⟨p, hp, by simp [hB]⟩

mutual
theorem mentionsTv_closed : ∀ t, closed t = true → mentionsTv t = false
  | .tv _, h => by simp [closed] at h
  | .self, h => by simp [closed] at h
  | .lf _, _ => by simp [mentionsTv]
  | .app c as, h => by
      simp only [closed] at h
      simp [mentionsTv, mentionsTvL_closed as h]
  | .ann i ms, h => by
      simp only [closed] at h
      simp [mentionsTv, mentionsTv_closed i h]
  | .pu ms, h => by
      simp only [closed] at h
      simp [mentionsTv, mentionsTvL_closed ms h]
theorem mentionsTvL_closed : ∀ ts, closedL ts = true → mentionsTvL ts = false
  | [], _ => by simp [mentionsTvL]
  | a :: as, h => by
      simp only [closedL, Bool.and_eq_true] at h
      simp [mentionsTvL, mentionsTv_closed a h.1, mentionsTvL_closed as h.2]
end

theorem unstructMapping_eq (lv : Level) (rest : List Level) (tgt : Target) (args : List Ann)
    (hs : scopeB (lv :: rest) args = true) :
    unstructMapping (lv :: rest) tgt = structMapping (lv :: rest) tgt := by
  cases tgt with
  | alias a => rfl
  | bare =>
    simp only [unstructMapping]
    split
    · rfl
    · next hg =>
      have hg' : isGenericBare (lv :: rest) = false := by simpa using hg
      cases rest with
      | nil =>
        rw [structMapping_single]
        simp [generateMapping, hg']
      | cons b r =>
        rw [structMapping_cons2]
        have hb : b.params = [] := by
          simp only [isGenericBare, List.any_cons, Bool.or_eq_false_iff, Bool.not_eq_false',
            List.isEmpty_iff] at hg'
          exact hg'.2.1
        simp [generateMapping, hg', hb, bindSkipTv]


theorem targetArgs_bare (lv : Level) (rest : List Level) (args : List Ann) (hne : lv.params ≠ [])
    (ht : targetArgs (lv :: rest) .bare = some args) :
    lv.genericBase = true ∧ (∀ q, q ∈ lv.params → (lookup (globalDefaults (lv :: rest)) q).isSome = true) ∧
    args = lv.params.map (fun p => match lookup (globalDefaults (lv :: rest)) p with
      | some d => d
      | none => .tv p) := by
  have hemp : lv.params.isEmpty = false := by
    cases h : lv.params with
    | nil => exact absurd h hne
    | cons _ _ => rfl
  simp only [targetArgs, hemp] at ht
  by_cases hg : (lv.genericBase && lv.params.all (fun p => (lookup (globalDefaults (lv :: rest)) p).isSome)) = true
  · rw [if_pos hg] at ht
    simp only [Bool.false_eq_true, ↓reduceIte, Option.some.injEq] at ht
    simp only [Bool.and_eq_true, List.all_eq_true] at hg
    exact ⟨hg.1, hg.2, ht.symm⟩
  · rw [if_neg hg] at ht
    simp at ht

/-- PEP 696: for the bare class whose parameters all have (closed) defaults, `generate_mapping` binds each parameter to its default -/
theorem bare_defaults_mapping (lv : Level) (rest : List Level) (args : List Ann)
    (ht : targetArgs (lv :: rest) .bare = some args) (hcl : closedL args = true) (p : String) (hp : p ∈ lv.params) :
    ∃ d, lookup (globalDefaults (lv :: rest)) p = some d ∧
      lookup (generateMapping (lv :: rest) .bare []) p = some d := by
  have hne : lv.params ≠ [] := by
    intro e
    rw [e] at hp
    simp at hp
  obtain ⟨_, hall, hargs⟩ := targetArgs_bare lv rest args hne ht
  have hlen : args.length = lv.params.length := by rw [hargs]; simp
  obtain ⟨v, hv1, hv2, _⟩ := headMapping_agree lv rest .bare args ht hlen hcl p hp
  obtain ⟨d, hd⟩ := Option.isSome_iff_exists.mp (hall p hp)
  rw [hargs, zipMap, lookup_bindAll_map _ p lv.params [] hp] at hv1
  simp only [hd, Option.some.injEq] at hv1
  exact ⟨d, hd, by rw [hv1]; exact hv2⟩

end CattrsModel.Generics
