import CattrsModel.Generics.Lemmas
/-!
# PEP 696 defaults × inheritance, and the names of the generated functions as identifiers (C17)

* `withDefaults`: the same class chain with other PEP 696 defaults.  For a parametrised target `G[args…]` nothing the
  generators compute looks at a default (`structMapping_withDefaults` …): an explicit argument always wins, also where
  the parameter is handed on to a parametrised base (`class Child(Base[str, U], Generic[U])`).
* `bindDefaultTv` / `structMappingOverride`: the plausible "enhancement" that is NOT what `generate_mapping` does —
  binding a parameter whose argument is still a `TypeVar` to that variable's default.  Used only by the regression
  witness in `Props/C17.lean`.
* `identChar` / `reprChar` / `mangleL_ident`: the sanitiser turns every character that occurs in the `str()` of a
  PEP 604 union of (nested, multi-argument) builtin generics into an identifier character.
-/
namespace CattrsModel.Generics

/-- the same chain, every class with other PEP 696 defaults -/
def withDefaults (d : Level → Mapping) (chain : List Level) : List Level :=
  chain.map (fun lv => { lv with defaults := d lv })

theorem origBases_withDefaults (d : Level → Mapping) (chain : List Level) :
    origBases (withDefaults d chain) = origBases chain := by
  match chain with
  | [] => rfl
  | [lv] => simp [withDefaults, origBases]
  | lv :: b :: r => simp [withDefaults, origBases]

theorem allFields_withDefaults (d : Level → Mapping) (chain : List Level) :
    allFields (withDefaults d chain) = allFields chain := by
  induction chain with
  | nil => rfl
  | cons lv rest ih =>
    simp only [withDefaults, List.map_cons, allFields] at ih ⊢
    rw [ih]

theorem selfIs_withDefaults (d : Level → Mapping) (chain : List Level) :
    selfIs (withDefaults d chain) = selfIs chain := by
  cases chain <;> rfl

theorem paramsBound_withDefaults (d : Level → Mapping) (chain : List Level) (m : Mapping) :
    paramsBound (withDefaults d chain) m = paramsBound chain m := by
  cases chain <;> rfl

theorem generateMapping_alias_withDefaults (d : Level → Mapping) (chain : List Level) (args : List Ann) (old : Mapping) :
    generateMapping (withDefaults d chain) (.alias args) old = generateMapping chain (.alias args) old := by
  cases chain <;> rfl

theorem structMapping_withDefaults (d : Level → Mapping) (chain : List Level) (args : List Ann) :
    structMapping (withDefaults d chain) (.alias args) = structMapping chain (.alias args) := by
  simp only [structMapping, origBases_withDefaults, generateMapping_alias_withDefaults]

theorem unstructMapping_withDefaults (d : Level → Mapping) (chain : List Level) (args : List Ann) :
    unstructMapping (withDefaults d chain) (.alias args) = unstructMapping chain (.alias args) := by
  simp only [unstructMapping, structMapping_withDefaults]

/-! ## the regression: a still-open argument bound to its PEP 696 default -/

/-- NOT `generate_mapping`: as `bindSkipTv`, but an argument that is still a type variable WITH a default binds the
    parameter to that default (instead of leaving the binding inherited from `old_mapping` alone) -/
def bindDefaultTv (dfl : Mapping) (m : Mapping) : List String → List Ann → Mapping
  | p :: ps, a :: as =>
    match a with
    | .tv n =>
      match lookup dfl n with
      | some dv => bindDefaultTv dfl ((p, dv) :: m) ps as
      | none => bindDefaultTv dfl m ps as
    | _ => bindDefaultTv dfl ((p, a) :: m) ps as
  | _, _ => m

/-- `structMapping` for a parametrised target with `bindDefaultTv` in place of `bindSkipTv` (both calls of `generate_mapping`) -/
def structMappingOverride (chain : List Level) (args : List Ann) : Mapping :=
  match chain with
  | [] => []
  | lv :: _ =>
    let m := bindDefaultTv (globalDefaults chain) [] lv.params args
    match firstParamBase (origBases chain) with
    | some (bps, bargs) => bindDefaultTv (globalDefaults chain) m bps bargs
    | none => m

/-! ## generated function names are identifiers -/

/-- a character of a Python identifier -/
def identChar (c : Char) : Bool := c.isAlphanum || c == '_'

/-- the characters of the `str()` of unions of (nested, multi-argument) builtin generics and of dotted class paths:
    identifier characters and `[ ] . space , < > |` -/
def reprChar (c : Char) : Bool :=
  identChar c || c == '[' || c == ']' || c == '.' || c == ' ' || c == ',' || c == '<' || c == '>' || c == '|'

theorem sanitizeChar_ident (c : Char) (h : reprChar c = true) : identChar (sanitizeChar c) = true := by
  unfold sanitizeChar
  split
  · decide
  · rename_i h1
    split
    · decide
    · rename_i h2
      simp only [reprChar, Bool.or_eq_true, beq_iff_eq] at h
      simp only [not_or] at h1
      rcases h with (((((((h | h) | h) | h) | h) | h) | h) | h) | h
      · exact h
      · exact absurd h h1.1
      · exact absurd h h1.2.2.1
      · exact absurd h h1.2.1
      · exact absurd h h1.2.2.2.1
      · exact absurd h h1.2.2.2.2.1
      · exact absurd h h1.2.2.2.2.2.1
      · exact absurd h h1.2.2.2.2.2.2
      · exact absurd h h2

theorem sanitizeL_ident (n : List Char) (h : ∀ c, c ∈ n → reprChar c = true) :
    ∀ c, c ∈ sanitizeL n → identChar c = true := by
  intro c hc
  simp only [sanitizeL, List.mem_map] at hc
  obtain ⟨c0, h0, rfl⟩ := hc
  exact sanitizeChar_ident c0 (h c0 h0)

theorem sepJoin_ident (ns : List (List Char)) (h : ∀ n, n ∈ ns → ∀ c, c ∈ n → reprChar c = true) :
    ∀ c, c ∈ sepJoin ns → identChar c = true := by
  induction ns with
  | nil => intro c hc; simp [sepJoin] at hc
  | cons n r ih =>
    intro c hc
    simp only [sepJoin, List.mem_cons, List.mem_append] at hc
    rcases hc with (rfl | hc) | hc
    · decide
    · exact sanitizeL_ident n (h n (by simp)) c hc
    · exact ih (fun n' hn' => h n' (by simp [hn'])) c hc

theorem mangleL_ident (cls : List Char) (ns : List (List Char)) (hc : ∀ c, c ∈ cls → identChar c = true)
    (hn : ∀ n, n ∈ ns → ∀ c, c ∈ n → reprChar c = true) :
    ∀ c, c ∈ mangleL cls ns → identChar c = true := by
  intro c hm
  rw [mangleL_eq] at hm
  simp only [List.mem_append] at hm
  rcases hm with (hm | hm) | hm
  · have : ∀ c, c ∈ "structure_".toList → identChar c = true := by decide
    exact this c hm
  · exact hc c hm
  · exact sepJoin_ident ns hn c hm

end CattrsModel.Generics
