/-!
# Generics (C17): TypeVar mapping, recursive annotation rewrite, field types bound into generated hooks

Model of `cattrs/gen/_generics.py` (`generate_mapping`), `cattrs/_generics.py` (`deep_copy_with`),
`cattrs/_compat.py` (`copy_with`, `is_generic`, `is_bare`), the generic handling of
`cattrs/gen/__init__.py` (`make_dict_structure_fn`, `make_dict_unstructure_fn`, the `*_from_attrs` templates: how
the mapping is built and threaded, which field types are bound into the generated function, how the function is
named), `cattrs/gen/typeddicts.py` (`make_dict_structure_fn`: the detailed template rewrites twice) and
`cattrs/typealiases.py` (`type_alias_structure_factory`).  The repaired code is modelled (F12: top-level
`Annotated[T, …]` fields are rewritten; F13: only `TypeVar`s are substituted, never classes sharing a name; F30, F33:
the unstructure side builds the same mapping as the structure side).

What `typing` introspection returns (`get_args`, `__parameters__`, `__orig_bases__`, normalisation of unions) is an
input of the model: the harness supplies annotations in the canonical form of what `typing` actually built.

Multiple inheritance is modelled as far as `__orig_bases__` goes: any number of non-generic bases (plain mixins, an
empty `TypedDict`) may be listed before and after the parametrised base (`Level.plainBefore` / `Level.plainAfter`);
both loops over `__orig_bases__` skip them (`C17_plain_bases_skipped`).  The fields such a mixin contributes are
collected by attrs / dataclasses after the parametrised base's and before the class's own: the harness presents them
as leading own fields of the level.
A PLAIN subclass of a class without parameters (`class Leaf(IntNode)` below `class IntNode(Node[int])`) has no
`__orig_bases__` and no `__parameters__` of its own: attribute lookup finds the parent's, so for every function of this
model it is the parent class with more fields — the harness presents such a level merged into its parent (not for
TypedDicts, which always get their own `__orig_bases__`: recorded finding F63).
Not modelled: a class inheriting `__orig_bases__` from an unparametrised generic base WITH parameters (`class C(B)`
with `B` generic), an unsubscripted class among the bases of a class statement that has `__orig_bases__` of its own
(`class Tagged(Leaf, Generic[W])`: `make_dict_structure_fn` applies `generate_mapping` to the bare `Leaf`; covered by the
implementation-side oracle only), more than one parametrised base.  Core Lean only.
-/
namespace CattrsModel.Generics

/-- Annotation terms (the canonical form of a `typing` object).
* `tv n`       a `TypeVar` called `n`
* `lf n`       anything without arguments: a class, `None`, `...`, a bare generic class.  Distinct objects that share
               a Python `__name__` are told apart by a `!tag` suffix (`"T!cls"` is a *class* whose `__name__` is `T`)
* `app c as`   a parametrised generic `c[as…]` (`list[T]`, `Union[T, None]`, `In[T]`, a PEP 695 alias `A[T]`, `NotRequired[T]`)
* `ann i ms`   `Annotated[i, ms…]`
* `self`       `typing.Self`
* `pu ms`      a PEP 604 union object `a | b` (`types.UnionType`) -/
inductive Ann where
  | tv (n : String)
  | lf (n : String)
  | app (c : String) (args : List Ann)
  | ann (inner : Ann) (metadata : List String)
  | self
  | pu (ms : List Ann)
  deriving Repr, Inhabited

/-! Structural decidable equality (`deriving DecidableEq` is not available for nested inductives; generated). -/
mutual
def Ann.deq : (x y : Ann) → Decidable (x = y)
  | .tv a0, .tv b0 =>
    match (inferInstance : Decidable (a0 = b0)) with
    | isTrue h0 => isTrue (by rw [h0])
    | isFalse h => isFalse (by intro e; cases e; exact h rfl)
  | .tv a0, .lf b0 => isFalse (by intro e; cases e)
  | .tv a0, .app b0 b1 => isFalse (by intro e; cases e)
  | .tv a0, .ann b0 b1 => isFalse (by intro e; cases e)
  | .tv a0, .self => isFalse (by intro e; cases e)
  | .tv a0, .pu b0 => isFalse (by intro e; cases e)
  | .lf a0, .tv b0 => isFalse (by intro e; cases e)
  | .lf a0, .lf b0 =>
    match (inferInstance : Decidable (a0 = b0)) with
    | isTrue h0 => isTrue (by rw [h0])
    | isFalse h => isFalse (by intro e; cases e; exact h rfl)
  | .lf a0, .app b0 b1 => isFalse (by intro e; cases e)
  | .lf a0, .ann b0 b1 => isFalse (by intro e; cases e)
  | .lf a0, .self => isFalse (by intro e; cases e)
  | .lf a0, .pu b0 => isFalse (by intro e; cases e)
  | .app a0 a1, .tv b0 => isFalse (by intro e; cases e)
  | .app a0 a1, .lf b0 => isFalse (by intro e; cases e)
  | .app a0 a1, .app b0 b1 =>
    match (inferInstance : Decidable (a0 = b0)), Ann.deqL a1 b1 with
    | isTrue h0, isTrue h1 => isTrue (by rw [h0, h1])
    | isFalse h, _ => isFalse (by intro e; cases e; exact h rfl)
    | _, isFalse h => isFalse (by intro e; cases e; exact h rfl)
  | .app a0 a1, .ann b0 b1 => isFalse (by intro e; cases e)
  | .app a0 a1, .self => isFalse (by intro e; cases e)
  | .app a0 a1, .pu b0 => isFalse (by intro e; cases e)
  | .ann a0 a1, .tv b0 => isFalse (by intro e; cases e)
  | .ann a0 a1, .lf b0 => isFalse (by intro e; cases e)
  | .ann a0 a1, .app b0 b1 => isFalse (by intro e; cases e)
  | .ann a0 a1, .ann b0 b1 =>
    match Ann.deq a0 b0, (inferInstance : Decidable (a1 = b1)) with
    | isTrue h0, isTrue h1 => isTrue (by rw [h0, h1])
    | isFalse h, _ => isFalse (by intro e; cases e; exact h rfl)
    | _, isFalse h => isFalse (by intro e; cases e; exact h rfl)
  | .ann a0 a1, .self => isFalse (by intro e; cases e)
  | .ann a0 a1, .pu b0 => isFalse (by intro e; cases e)
  | .self, .tv b0 => isFalse (by intro e; cases e)
  | .self, .lf b0 => isFalse (by intro e; cases e)
  | .self, .app b0 b1 => isFalse (by intro e; cases e)
  | .self, .ann b0 b1 => isFalse (by intro e; cases e)
  | .self, .self => isTrue rfl
  | .self, .pu b0 => isFalse (by intro e; cases e)
  | .pu a0, .tv b0 => isFalse (by intro e; cases e)
  | .pu a0, .lf b0 => isFalse (by intro e; cases e)
  | .pu a0, .app b0 b1 => isFalse (by intro e; cases e)
  | .pu a0, .ann b0 b1 => isFalse (by intro e; cases e)
  | .pu a0, .self => isFalse (by intro e; cases e)
  | .pu a0, .pu b0 =>
    match Ann.deqL a0 b0 with
    | isTrue h0 => isTrue (by rw [h0])
    | isFalse h => isFalse (by intro e; cases e; exact h rfl)
termination_by structural x => x
def Ann.deqL : (x y : List Ann) → Decidable (x = y)
  | [], [] => isTrue rfl
  | [], _ :: _ => isFalse (by intro e; cases e)
  | _ :: _, [] => isFalse (by intro e; cases e)
  | a :: as, b :: bs => match Ann.deq a b, Ann.deqL as bs with
    | isTrue h1, isTrue h2 => isTrue (by rw [h1, h2])
    | isFalse h, _ => isFalse (by intro e; cases e; exact h rfl)
    | _, isFalse h => isFalse (by intro e; cases e; exact h rfl)
termination_by structural x => x
end
instance : DecidableEq Ann := Ann.deq

/-- `mapping: dict[str, type]`, newest assignment first (`mapping[k] = v` is `(k, v) :: m`) -/
abbrev Mapping := List (String × Ann)

def lookup : Mapping → String → Option Ann
  | [], _ => none
  | (k, v) :: r, n => if k = n then some v else lookup r n

/-- the dict as Python would show it: every key once, with its effective value -/
def effective : Mapping → List String → Mapping
  | [], _ => []
  | (k, v) :: r, seen => if seen.contains k then effective r seen else (k, v) :: effective r (k :: seen)

/-! ## predicates on annotations -/
mutual
/-- mentions neither a type variable nor `Self` -/
def closed : Ann → Bool
  | .tv _ => false
  | .self => false
  | .lf _ => true
  | .app _ as => closedL as
  | .ann i _ => closed i
  | .pu ms => closedL ms
termination_by structural x => x
def closedL : List Ann → Bool
  | [] => true
  | a :: as => closed a && closedL as
termination_by structural x => x
end

mutual
def mentionsSelf : Ann → Bool
  | .self => true
  | .tv _ => false
  | .lf _ => false
  | .app _ as => mentionsSelfL as
  | .ann i _ => mentionsSelf i
  | .pu ms => mentionsSelfL ms
termination_by structural x => x
def mentionsSelfL : List Ann → Bool
  | [] => false
  | a :: as => mentionsSelf a || mentionsSelfL as
termination_by structural x => x
end

mutual
/-- the names of the type variables occurring in an annotation -/
def tvars : Ann → List String
  | .tv n => [n]
  | .self => []
  | .lf _ => []
  | .app _ as => tvarsL as
  | .ann i _ => tvars i
  | .pu ms => tvarsL ms
termination_by structural x => x
def tvarsL : List Ann → List String
  | [] => []
  | a :: as => tvars a ++ tvarsL as
termination_by structural x => x
end

mutual
/-- every PEP 604 union object inside the annotation has only closed members (the scope of `C17_subst_partial`;
    its complement is the input shape of recorded finding F27) -/
def annOk : Ann → Bool
  | .tv _ => true
  | .self => true
  | .lf _ => true
  | .app _ as => annOkL as
  | .ann i _ => annOk i
  | .pu ms => closedL ms
termination_by structural x => x
def annOkL : List Ann → Bool
  | [] => true
  | a :: as => annOk a && annOkL as
termination_by structural x => x
end

/-! ## the specification: true (simultaneous, capture-free) substitution, everywhere -/
mutual
def subst (m : Mapping) (s : Option Ann) : Ann → Ann
  | .tv n => match lookup m n with
    | some v => v
    | none => .tv n
  | .lf n => .lf n
  | .app c as => .app c (substL m s as)
  | .ann i ms => .ann (subst m s i) ms
  | .self => match s with
    | some c => c
    | none => .self
  | .pu ms => .pu (substL m s ms)
termination_by structural x => x
def substL (m : Mapping) (s : Option Ann) : List Ann → List Ann
  | [] => []
  | a :: as => subst m s a :: substL m s as
termination_by structural x => x
end

/-! ## `deep_copy_with` (cattrs/_generics.py) -/
mutual
/-- one element of the generator expression in `deep_copy_with`:
    `self_is if a is Self and self_is is not NOTHING else (mapping[a.__name__] if isinstance(a, TypeVar) and
    a.__name__ in mapping else (deep_copy_with(a, mapping, self_is) if is_generic(a) else a))`.
    `is_generic` holds for parametrised generics and `Annotated` (recursive call, which rebuilds the same constructor
    with rewritten arguments — `copy_with` — or returns the object itself when nothing changed: the same term), and
    for bare generic classes (`get_args` is empty: returned as is).  A `types.UnionType` is **not** `is_generic`:
    it is left alone, whatever it contains. -/
def rwArg (m : Mapping) (s : Option Ann) : Ann → Ann
  | .self => match s with
    | some c => c
    | none => .self
  | .tv n => match lookup m n with
    | some v => v
    | none => .tv n
  | .app c as => .app c (rwArgs m s as)
  | .ann i ms => .ann (rwArg m s i) ms
  | .lf n => .lf n
  | .pu ms => .pu ms
termination_by structural x => x
def rwArgs (m : Mapping) (s : Option Ann) : List Ann → List Ann
  | [] => []
  | a :: as => rwArg m s a :: rwArgs m s as
termination_by structural x => x
end

/-- `deep_copy_with(t, mapping, self_is)`; `none` = raises (`copy_with` on a `types.UnionType`, which has no
    `__origin__`).  `args = get_args(t)` (for `Annotated` only the first argument is mapped); the result is
    `copy_with(t, new_args) if new_args != args else t`. -/
def deepCopyWith (m : Mapping) (s : Option Ann) : Ann → Option Ann
  | .app c as => some (.app c (rwArgs m s as))
  | .ann i ms => some (.ann (rwArg m s i) ms)
  | .pu ms => if rwArgs m s ms = ms then some (.pu ms) else none
  | t => some t

/-- `is_generic(t) and not is_bare(t)` -/
def genericNonBare : Ann → Bool
  | .app _ _ => true
  | .ann _ _ => true
  | _ => false

/-- the rewrite the templates apply to a field type:
    `if isinstance(t, TypeVar): t = typevar_map.get(t.__name__, t)
     elif is_generic(t) and not is_bare(t): t = deep_copy_with(t, typevar_map, cl)`
    (on those inputs `deep_copy_with` cannot raise: lemma `deepCopyWith_generic`) -/
def fieldRewrite (m : Mapping) (cl : Ann) : Ann → Ann
  | .tv n => match lookup m n with
    | some v => v
    | none => .tv n
  | .app c as => .app c (rwArgs m (some cl) as)
  | .ann i ms => .ann (rwArg m (some cl) i) ms
  | t => t

/-- the second `if is_generic(t) and not is_bare(t): t = deep_copy_with(t, mapping, cl)` of the detailed TypedDict template -/
def genericRewrite (m : Mapping) (cl : Ann) : Ann → Ann
  | .app c as => .app c (rwArgs m (some cl) as)
  | .ann i ms => .ann (rwArg m (some cl) i) ms
  | t => t

/-! ## class chains -/

/-- one class of a single-inheritance chain `class name(next[baseArgs…], Generic[params…])` -/
structure Level where
  name : String
  /-- `cls.__parameters__` -/
  params : List String
  /-- PEP 696 defaults of type variables -/
  defaults : Mapping
  /-- `Generic[params…]` is among `__orig_bases__` (explicitly, or implicitly by PEP 695 syntax) -/
  genericBase : Bool
  /-- the class's own annotations, in order -/
  own : List (String × Ann)
  /-- the arguments of the parametrised base (next level of the chain); `[]` at the last level -/
  baseArgs : List Ann
  /-- number of non-generic bases listed BEFORE the parametrised base (`class G(Mixin, B[T], Generic[T])`) -/
  plainBefore : Nat := 0
  /-- number of non-generic bases listed after the parametrised base and before `Generic[…]` -/
  plainAfter : Nat := 0
  deriving Repr, Inhabited

/-- the type handed to `structure` / `unstructure`: the class itself or `G[args…]` (`args` = `get_args`) -/
inductive Target where
  | bare
  | alias (args : List Ann)
  deriving Repr, DecidableEq

/-- an entry of `__orig_bases__` that `generate_mapping` looks at -/
inductive OrigBase where
  /-- `B[args…]`, with `B.__parameters__` -/
  | param (baseParams : List String) (args : List Ann)
  /-- `Generic[params…]` -/
  | generic (params : List String)
  /-- a non-generic class (a plain mixin, an empty `TypedDict`): no `__args__`, not `is_generic` -/
  | plain
  deriving Repr, DecidableEq

/-- the entries of `cl.__orig_bases__` that are parametrised (parametrised base first, `Generic[…]` last; `TypedDict`
    itself has no `__args__` and is skipped) -/
def origBasesCore : List Level → List OrigBase
  | [] => []
  | [lv] => if lv.genericBase && !lv.params.isEmpty then [.generic lv.params] else []
  | lv :: b :: _ =>
    (if lv.baseArgs.isEmpty then [] else [.param b.params lv.baseArgs]) ++
    (if lv.genericBase && !lv.params.isEmpty then [.generic lv.params] else [])

/-- `cl.__orig_bases__`, in the order of the class statement: non-generic bases, the parametrised base, further
    non-generic bases, `Generic[…]` -/
def origBases : List Level → List OrigBase
  | [] => []
  | [lv] => List.replicate lv.plainBefore .plain ++ (List.replicate lv.plainAfter .plain ++
      (if lv.genericBase && !lv.params.isEmpty then [.generic lv.params] else []))
  | lv :: b :: _ =>
    List.replicate lv.plainBefore .plain ++
    ((if lv.baseArgs.isEmpty then [] else [.param b.params lv.baseArgs]) ++
     (List.replicate lv.plainAfter .plain ++
      (if lv.genericBase && !lv.params.isEmpty then [.generic lv.params] else [])))

/-- `__orig_bases__` without its non-generic entries -/
def dropPlain : List OrigBase → List OrigBase
  | [] => []
  | .plain :: r => dropPlain r
  | b :: r => b :: dropPlain r

/-- type variables are shared by name across the chain: the PEP 696 default of a variable (`dict.update` order) -/
def globalDefaults : List Level → Mapping
  | [] => []
  | lv :: rest => globalDefaults rest ++ lv.defaults.reverse

/-- `for p, t in zip(parameters, get_args(cl)): if isinstance(t, TypeVar): continue; mapping[p.__name__] = t` -/
def bindSkipTv (m : Mapping) : List String → List Ann → Mapping
  | p :: ps, a :: as =>
    match a with
    | .tv _ => bindSkipTv m ps as
    | _ => bindSkipTv ((p, a) :: m) ps as
  | _, _ => m

/-- `for param, arg in zip(base_params, base_args): mapping[param.__name__] = arg` -/
def bindAll (m : Mapping) : List String → List Ann → Mapping
  | p :: ps, a :: as => bindAll ((p, a) :: m) ps as
  | _, _ => m

/-- the PEP 696 branch: the variables of `Generic[…]` that have a default are mapped to it -/
def bindDefaults (dfl : Mapping) (m : Mapping) : List String → Mapping
  | [] => m
  | p :: ps => match lookup dfl p with
    | some d => bindDefaults dfl ((p, d) :: m) ps
    | none => bindDefaults dfl m ps

/-- the `elif is_generic(cl)` branch of `generate_mapping`: loop over `__orig_bases__` -/
def genMapBare (dfl : Mapping) : List OrigBase → Mapping → Mapping
  | [], m => m
  | .param bps args :: r, m => genMapBare dfl r (bindAll m bps args)
  | .generic ps :: r, m =>
    genMapBare dfl r (if ps.any (fun p => (lookup dfl p).isSome) then bindDefaults dfl m ps else m)
  -- `if not hasattr(base, "__args__"): continue`
  | .plain :: r, m => genMapBare dfl r m

/-- `is_generic(cl)` for a bare class: a subclass of `Generic` that has `__orig_bases__` -/
def isGenericBare (chain : List Level) : Bool := chain.any (fun lv => !lv.params.isEmpty)

/-- `generate_mapping(cl, old)` -/
def generateMapping (chain : List Level) (tgt : Target) (old : Mapping) : Mapping :=
  match tgt, chain with
  | .alias args, lv :: _ => bindSkipTv old lv.params args
  | .alias _, [] => old
  | .bare, _ => if isGenericBare chain then genMapBare (globalDefaults chain) (origBases chain) old else old

/-- the first entry of `__orig_bases__` with `is_generic(base) and not str(base).startswith("typing.Generic")` -/
def firstParamBase : List OrigBase → Option (List String × List Ann)
  | [] => none
  | .param bps args :: _ => some (bps, args)
  | .generic _ :: r => firstParamBase r
  | .plain :: r => firstParamBase r

/-- the mapping `make_dict_structure_fn` hands to the template:
    `generate_mapping(cl)` if `is_generic(cl)`, then `generate_mapping(base, mapping)` for the first parametrised base
    of the origin class — one level only, keyed by the base's parameter *names* -/
def structMapping (chain : List Level) (tgt : Target) : Mapping :=
  let m := generateMapping chain tgt []
  match firstParamBase (origBases chain) with
  | some (bps, args) => bindSkipTv m bps args
  | none => m

/-- `make_dict_unstructure_fn` (after F33): the same, but everything inside `if is_generic(cl)` -/
def unstructMapping (chain : List Level) (tgt : Target) : Mapping :=
  match tgt with
  | .alias _ => structMapping chain tgt
  | .bare => if isGenericBare chain then structMapping chain tgt else []

/-- `adapted_fields(cl)` / `_adapted_fields(cl)`: inherited fields first -/
def allFields : List Level → List (String × Ann)
  | [] => []
  | lv :: rest => allFields rest ++ lv.own

/-- the `cl` the templates pass as `self_is`: the origin class, unparametrised -/
def selfIs (chain : List Level) : Ann :=
  match chain with
  | [] => .lf ""
  | lv :: _ => .lf lv.name

/-- `for p in cl.__parameters__: name_base = typevar_map[p.__name__]` succeeds for every parameter -/
def paramsBound (chain : List Level) (m : Mapping) : Bool :=
  match chain with
  | [] => true
  | lv :: _ => lv.params.all (fun p => (lookup m p).isSome)

def rewriteFields (f : Ann → Ann) (fs : List (String × Ann)) : List (String × Ann) :=
  fs.map (fun nt => (nt.1, f nt.2))

/-- the field types bound into the generated structure hook of an attrs class / dataclass (and the fast TypedDict
    template without `NotRequired`); `none` = creation refused with "Missing type for generic argument" -/
def structGen (chain : List Level) (tgt : Target) : Option (List (String × Ann)) :=
  let m := structMapping chain tgt
  if paramsBound chain m then some (rewriteFields (fieldRewrite m (selfIs chain)) (allFields chain)) else none

/-- the field types bound into the generated unstructure hook (no refusal there: an unbound variable is dispatched at run time) -/
def unstructGen (chain : List Level) (tgt : Target) : List (String × Ann) :=
  rewriteFields (fieldRewrite (unstructMapping chain tgt) (selfIs chain)) (allFields chain)

def isNR (c : String) : Bool := c == "NotRequired" || c == "Required"

def nrbCore : Ann → Option Ann
  | .app c (x :: _) => if isNR c then some x else none
  | _ => none

/-- `get_notrequired_base` -/
def nrb : Ann → Option Ann
  | .ann i _ => nrbCore i
  | t => nrbCore t

def stripNR (t : Ann) : Ann :=
  match nrb t with
  | some x => x
  | none => t

/-- detailed TypedDict template: rewrite, strip `NotRequired`, rewrite generics again -/
def tdRewrite (m : Mapping) (cl : Ann) (t : Ann) : Ann :=
  genericRewrite m cl (stripNR (fieldRewrite m cl t))

/-- fast TypedDict template: required keys rewrite then strip; non-required keys strip then rewrite -/
def tdRewriteFast (m : Mapping) (cl : Ann) (t : Ann) : Ann :=
  match nrb t with
  | some x => fieldRewrite m cl x
  | none => stripNR (fieldRewrite m cl t)

def structGenTD (chain : List Level) (tgt : Target) : Option (List (String × Ann)) :=
  let m := structMapping chain tgt
  if paramsBound chain m then some (rewriteFields (tdRewrite m (selfIs chain)) (allFields chain)) else none

def structGenTDFast (chain : List Level) (tgt : Target) : Option (List (String × Ann)) :=
  let m := structMapping chain tgt
  if paramsBound chain m then some (rewriteFields (tdRewriteFast m (selfIs chain)) (allFields chain)) else none

mutual
def mentionsTv : Ann → Bool
  | .tv _ => true
  | .self => false
  | .lf _ => false
  | .app _ as => mentionsTvL as
  | .ann i _ => mentionsTv i
  | .pu ms => mentionsTvL ms
termination_by structural x => x
def mentionsTvL : List Ann → Bool
  | [] => false
  | a :: as => mentionsTv a || mentionsTvL as
termination_by structural x => x
end

/-- structuring is refused: the hook cannot be created ("Missing type for generic argument"), or a field type bound
    into it still mentions a type variable — no hook exists for a `TypeVar`, so looking up the handler of that field
    raises `StructureHandlerNotFoundError` (with the default fallback factory already while the hook is generated) -/
def refuses (chain : List Level) (tgt : Target) : Bool :=
  match structGen chain tgt with
  | none => true
  | some fs => fs.any (fun nt => mentionsTv nt.2)

/-- the same for the detailed TypedDict template -/
def refusesTD (chain : List Level) (tgt : Target) : Bool :=
  match structGenTD chain tgt with
  | none => true
  | some fs => fs.any (fun nt => mentionsTv nt.2)

/-! ## the specification: the monomorphised copy -/

/-- `dict(zip(params, args))` -/
def zipMap (ps : List String) (as : List Ann) : Mapping := bindAll [] ps as

/-- own fields of every level, head class first; at each level the parameters are bound to the (substituted)
    arguments coming from below -/
def monoLevels (s : Option Ann) : List Level → List Ann → List (List (String × Ann))
  | [], _ => []
  | lv :: rest, cur =>
    rewriteFields (subst (zipMap lv.params cur) s) lv.own ::
      monoLevels s rest (substL (zipMap lv.params cur) none lv.baseArgs)

def flattenRev : List (List (String × Ann)) → List (String × Ann)
  | [] => []
  | fs :: rest => flattenRev rest ++ fs

/-- field types of the non-generic copy of the head class for arguments `args` (inherited fields first);
    `s` = what `Self` denotes -/
def monoFields (chain : List Level) (args : List Ann) (s : Option Ann) : List (String × Ann) :=
  flattenRev (monoLevels s chain args)

/-- what `Self` denotes in the copy: the class itself, i.e. `G[args…]` -/
def selfSpec (chain : List Level) (args : List Ann) : Ann :=
  match chain with
  | [] => .lf ""
  | lv :: _ => if lv.params.isEmpty then .lf lv.name else .app lv.name args

/-- the arguments a target denotes (`get_args`, or all PEP 696 defaults for the bare class) -/
def targetArgs (chain : List Level) : Target → Option (List Ann)
  | .alias args => some args
  | .bare =>
    match chain with
    | [] => none
    | lv :: _ =>
      if lv.params.isEmpty then some []
      else if lv.genericBase && lv.params.all (fun p => (lookup (globalDefaults chain) p).isSome) then
        some (lv.params.map (fun p => match lookup (globalDefaults chain) p with
          | some d => d
          | none => .tv p))
      else none

/-! ## scope of `C17_mono_partial` (complement = the input shapes of recorded findings F27, F28, F29) -/

def fieldOk (params : List String) (t : Ann) : Bool :=
  annOk t && !(t = .self) && (tvars t).all (fun n => params.contains n)

def levelOk (lv : Level) : Bool :=
  lv.own.all (fun nt => fieldOk lv.params nt.2)

/-- head class → its base: every base parameter is either passed through under the same name, or bound to a closed
    type and not named like one of the head class's own parameters -/
def bindOk (own : List String) : List String → List Ann → Bool
  | [], [] => true
  | bp :: bps, a :: as =>
    ((a = .tv bp && own.contains bp) || (closed a && !own.contains bp)) && bindOk own bps as
  | _, _ => false

/-- further up only same-name pass-through -/
def passThrough : List Level → Bool
  | [] => true
  | [_] => true
  | lv :: b :: rest =>
    (lv.baseArgs = b.params.map Ann.tv) && b.params.all (fun q => lv.params.contains q) && passThrough (b :: rest)

def scopeB (chain : List Level) (args : List Ann) : Bool :=
  match chain with
  | [] => false
  | lv :: rest =>
    (args.length == lv.params.length) && closedL args && chain.all levelOk &&
    (lv.params.isEmpty || (allFields chain).all (fun nt => !mentionsSelf nt.2)) &&
    (match rest with
     | [] => true
     | b :: _ => bindOk lv.params b.params lv.baseArgs && passThrough rest)

/-! ## generic aliases (`type_alias_structure_factory`) -/

/-- Python `__name__` of a leaf (the `!tag` suffix is not part of it) -/
def pyName (n : String) : String := String.ofList (n.toList.takeWhile (fun c => c != '!'))

/-- `base.__name__`; `none` = `AttributeError` (`types.UnionType`) -/
def dunderName : Ann → Option String
  | .tv n => some n
  | .lf n => some (pyName n)
  | .app c _ => some c
  | .ann _ _ => some "Annotated"
  | .self => some "Self"
  | .pu _ => none

/-- the type `type_alias_structure_factory` hands on for `Alias[args…]` (alias parameters `params`, `__value__` = `value`);
    `none` = raises -/
def aliasResolve (params : List String) (value : Ann) (args : List Ann) : Option Ann :=
  let m := bindSkipTv [] params args
  match dunderName value with
  | none => none
  | some n =>
    match lookup m n with
    | some v => some v
    | none => deepCopyWith m none value

/-- the type whose hook the UNSTRUCTURE side uses for `Alias[args…]`:
    `lambda t: self.get_unstructure_hook(get_type_alias_base(t))` — the alias' `__value__` as it stands; the arguments
    are ignored (recorded finding F50) -/
def aliasUnstructType (_params : List String) (value : Ann) (_args : List Ann) : Ann := value

/-! ## names of the generated structure functions -/

def sanitizeChar (c : Char) : Char :=
  if c = '[' ∨ c = '.' ∨ c = ']' ∨ c = ' ' ∨ c = ',' ∨ c = '<' ∨ c = '>' then '_'
  else if c = '|' then 'u' else c

/-- `re.sub(r"\|", "u", re.sub(r"[\[\.\] ,<>]", "_", name))` -/
def sanitizeL (n : List Char) : List Char := n.map sanitizeChar

/-- `fn_name = "structure_" + cl.__name__`, then `fn_name += f"_{name}"` per parameter (on character lists) -/
def mangleL (cls : List Char) (ns : List (List Char)) : List Char :=
  ns.foldl (fun acc n => acc ++ '_' :: sanitizeL n) ("structure_".toList ++ cls)

def mangle (cls : String) (names : List String) : String :=
  String.ofList (mangleL cls.toList (names.map String.toList))

/-! ## the hook cache of a converter, keyed by the full parametrised type -/

/-- cache key: class (index into the world of chains) and target -/
abbrev Key := Nat × Target

abbrev HookCache := List (Key × Option (List (String × Ann)))

def cacheLookup : HookCache → Key → Option (Option (List (String × Ann)))
  | [], _ => none
  | (k, r) :: rest, k' => if k = k' then some r else cacheLookup rest k'

/-- `converter.get_structure_hook(G[args])`: cached result or a freshly generated hook, then cached -/
def getHook (world : Nat → List Level) (c : HookCache) (k : Key) : HookCache × Option (List (String × Ann)) :=
  match cacheLookup c k with
  | some r => (c, r)
  | none => let r := structGen (world k.1) k.2; ((k, r) :: c, r)

def runHist (world : Nat → List Level) : List Key → HookCache → HookCache
  | [], c => c
  | k :: ks, c => runHist world ks (getHook world c k).1

end CattrsModel.Generics
