import CattrsModel.Conv.Basic
/-!
# Unstructuring

`un w cfg T x` mirrors hook *construction*: the handler at each position is resolved from the
declared type (`Converter`) or from the run-time class (`BaseConverter` inside collections,
`Any`/untyped positions everywhere).
-/
namespace CattrsModel

def mkColl (ck : CK) (ys : List Obj) : Obj := .coll ck (if ck.isSet then mkSet ys else ys)

/-- class used by a `Converter` for a container met at an `Any`-typed position -/
def CK.anyTo : CK → CK
  | .list | .tuple | .deque => .list
  | .set => .set
  | .fset => .fset

def enumValue (w : World) (e m : Nat) : Obj :=
  match (w.members e)[m]? with
  | some v => v
  | Option.none => .none

/-! ### `Literal[...]` containing enum members

`is_literal_containing_enums`: such a position is unstructured by run-time class (`self.unstructure`: a member becomes
its value) and structured by `_structure_enum_literal`: a dict from "the member's value, or the plain value itself" to
the literal's argument is indexed with the payload -- so the VALUE of a member is accepted and yields the member, the
member itself is not; of two arguments with `==` keys the later one wins. -/

-- (`Obj.isEnumM`, `litHasEnum`, `litConf`: Conv/Basic.lean)

/-- the key of a literal argument in `_structure_enum_literal`'s dict -/
def litKey (w : World) : Obj → Obj
  | .enumM e m => enumValue w e m
  | v => v

/-- `{key(x): x for x in args}[val]` -/
def litLookup (w : World) : List Obj → Obj → Option Obj
  | [], _ => Option.none
  | v :: vs, x =>
    match litLookup w vs x with
    | some r => some r
    | Option.none => if Obj.pyEq (litKey w v) x then some v else Option.none

/-- structuring at a `Literal[vs]` position: `_structure_enum_literal` when the literal contains enum members, else
`_structure_simple_literal` (`val in args`, the payload itself is returned) -/
def litStruct (w : World) (vs : List Obj) (x : Obj) : Option Obj :=
  if litHasEnum vs then litLookup w vs x
  else if Obj.memPy x vs then some x else Option.none

def findField (fds : List Field) (k : Obj) : Option Field :=
  fds.find? (fun f => Obj.pyEq f.key k)

/-- does the class hook emit this field? (generated dict hooks skip `init=False` fields) -/
def emits (cfg : Cfg) (f : Field) : Bool := f.init || !cfg.gen || cfg.tupleStrat

mutual
def un (w : World) (cfg : Cfg) : Ty → Obj → Obj
  | .any, x => unAny w cfg x
  | .enum _, .enumM e m => enumValue w e m
  -- a literal containing enum members: by run-time class (a member becomes its value); else `identity`
  | .lit vs, x => if litHasEnum vs then unAny w cfg x else x
  | .coll k t, .coll ck xs =>
      if cfg.gen then mkColl k.unstructTo (unL w cfg t xs)
      else mkColl ck (unAnyL w cfg xs)
  | .tupleHet ts, .coll .tuple xs =>
      if cfg.gen then .coll .tuple (unT w cfg ts xs) else .coll .tuple xs
  | .map _ kt vt, .dict kvs =>
      if cfg.gen then .dict (mkDict (unKV w cfg kt vt kvs)) else .dict (mkDict (unAnyKV w cfg kvs))
  -- an instance of a dict subclass: a `Converter` unstructures every mapping into a plain `dict`
  -- (`gen_unstructure_mapping`: `unstructure_to or dict`), a `BaseConverter` keeps the class (`_unstructure_mapping`)
  | .map _ kt vt, .mdict d kvs =>
      if cfg.gen then .dict (mkDict (unKV w cfg kt vt kvs)) else .mdict d (mkDict (unAnyKV w cfg kvs))
  | .opt _, .none => .none
  | .opt t, x => if cfg.gen then un w cfg t x else unAny w cfg x
  | .wrap k t, x =>
      if cfg.gen || k == .final || k == .alias then un w cfg t x else x
  | .cls c, .inst _ fs =>
      if cfg.tupleStrat then .coll .tuple (unFieldsT w cfg (w.fields c) fs)
      else .dict (unFields w cfg (w.fields c) fs)
  | .td c, .dict kvs =>
      -- BaseConverter has no TypedDict hook: the payload is handled as the dict it is, by run-time class
      if cfg.gen then .dict (unTD w cfg (w.fields c) kvs) else .dict (mkDict (unAnyKV w cfg kvs))
  -- `_unstructure_union` (both converter classes): by run-time class
  | .union _ _, x => unAny w cfg x
  -- `namedtuple_unstructure_factory` (Converter): a tuple of the items unstructured by their declared types (when
  -- no item needs conversion the instance itself is returned -- it IS that tuple); a BaseConverter has no
  -- NamedTuple hook: the instance is left as the tuple it is
  | .nt c, .inst _ fs => .coll .tuple (if cfg.gen then unT w cfg (w.ntTys c) (vals fs) else vals fs)
  | _, x => x
termination_by t x => (sizeOf x, sizeOf t)
decreasing_by
  all_goals first
    | decreasing_tactic
    | (apply Prod.Lex.left; have := sizeOf_vals_lt fs; simp; omega)
/-- unstructure by run-time class -/
def unAny (w : World) (cfg : Cfg) : Obj → Obj
  | .enumM e m => enumValue w e m
  | .coll ck xs => mkColl (if cfg.gen then ck.anyTo else ck) (unAnyL w cfg xs)
  | .dict kvs => .dict (mkDict (unAnyKV w cfg kvs))
  | .mdict d kvs => if cfg.gen then .dict (mkDict (unAnyKV w cfg kvs)) else .mdict d (mkDict (unAnyKV w cfg kvs))
  | .inst c fs =>
      if w.isNT c then .coll .tuple (if cfg.gen then unT w cfg (w.ntTys c) (vals fs) else vals fs)
      else if cfg.tupleStrat then .coll .tuple (unFieldsT w cfg (w.fields c) fs)
      else .dict (unFields w cfg (w.fields c) fs)
  | x => x
termination_by x => (sizeOf x, 0)
decreasing_by
  all_goals first
    | decreasing_tactic
    | (apply Prod.Lex.left; have := sizeOf_vals_lt fs; simp; omega)
def unL (w : World) (cfg : Cfg) (t : Ty) : List Obj → List Obj
  | [] => []
  | x :: xs => un w cfg t x :: unL w cfg t xs
termination_by xs => (sizeOf xs, sizeOf t)
def unAnyL (w : World) (cfg : Cfg) : List Obj → List Obj
  | [] => []
  | x :: xs => unAny w cfg x :: unAnyL w cfg xs
termination_by xs => (sizeOf xs, 0)
def unT (w : World) (cfg : Cfg) : List Ty → List Obj → List Obj
  | t :: ts, x :: xs => un w cfg t x :: unT w cfg ts xs
  | _, _ => []
termination_by ts xs => (sizeOf xs, sizeOf ts)
def unKV (w : World) (cfg : Cfg) (kt vt : Ty) : List (Obj × Obj) → List (Obj × Obj)
  | [] => []
  | (a, b) :: rest => (un w cfg kt a, un w cfg vt b) :: unKV w cfg kt vt rest
termination_by kvs => (sizeOf kvs, sizeOf kt + sizeOf vt)
def unAnyKV (w : World) (cfg : Cfg) : List (Obj × Obj) → List (Obj × Obj)
  | [] => []
  | (a, b) :: rest => (unAny w cfg a, unAny w cfg b) :: unAnyKV w cfg rest
termination_by kvs => (sizeOf kvs, 0)
/-- dict strategy: one entry per emitted field, keyed by field name -/
def unFields (w : World) (cfg : Cfg) : List Field → List (String × Obj) → List (Obj × Obj)
  | f :: fds, (_, x) :: rest =>
      if emits cfg f then
        (f.key, match f.ty with | Option.none => unAny w cfg x | some t => un w cfg t x) :: unFields w cfg fds rest
      else unFields w cfg fds rest
  | _, _ => []
termination_by _ fs => (sizeOf fs, 0)
/-- tuple strategy: every field, in declaration order -/
def unFieldsT (w : World) (cfg : Cfg) : List Field → List (String × Obj) → List Obj
  | f :: fds, (_, x) :: rest =>
      (match f.ty with | Option.none => unAny w cfg x | some t => un w cfg t x) :: unFieldsT w cfg fds rest
  | _, _ => []
termination_by _ fs => (sizeOf fs, 0)
/-- TypedDict: a copy of the payload with the declared keys' values unstructured in place -/
def unTD (w : World) (cfg : Cfg) (fds : List Field) : List (Obj × Obj) → List (Obj × Obj)
  | [] => []
  | (k, v) :: rest =>
      (k, match findField fds k with
          | Option.none => v
          | some f => (match f.ty with | Option.none => unAny w cfg v | some t => un w cfg t v))
        :: unTD w cfg fds rest
termination_by kvs => (sizeOf kvs, 0)
end

end CattrsModel
