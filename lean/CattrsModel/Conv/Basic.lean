import CattrsModel.Core.Ty
/-!
# Shared helpers of the data path: key access on arbitrary payloads, conformance
-/
namespace CattrsModel

/-! ### `k in o` and `o[k]` for an arbitrary payload `o` and a string key -/

def isPrefixC : List Char → List Char → Bool
  | [], _ => true
  | _ :: _, [] => false
  | a :: as, b :: bs => a == b && isPrefixC as bs

def isInfixC (pat : List Char) : List Char → Bool
  | [] => pat.isEmpty
  | c :: cs => isPrefixC pat (c :: cs) || isInfixC pat cs

/-- `key in o`; `none` = the test itself raises -/
def pyContains (o : Obj) (key : String) : Option Bool :=
  match o with
  | .dict kvs => some (dhas kvs (.str key))
  | .coll _ xs => some (Obj.memPy (.str key) xs)
  | .str s => some (isInfixC key.toList s.toList)
  | _ => Option.none

def nodupPy : List Obj → Bool
  | [] => true
  | x :: xs => !Obj.memPy x xs && nodupPy xs

def keysOf (kvs : List (Obj × Obj)) : List Obj := kvs.map (·.1)

theorem sizeOf_keysOf_lt (kvs : List (Obj × Obj)) : sizeOf (keysOf kvs) < 1 + sizeOf kvs := by
  induction kvs with
  | nil => simp [keysOf]
  | cons p rest ih =>
    cases p with
    | mk k v =>
      simp only [keysOf, List.map_cons, List.cons.sizeOf_spec, Prod.mk.sizeOf_spec] at *
      omega

/-- Iteration of a container payload: the items are sub-terms of the payload (`iterItems_lt`).  `str` / `bytes`
payloads are iterable too: see `leafItems`. -/
def iterItems (o : Obj) : Option (List Obj) :=
  match o with
  | .coll _ xs => some xs
  | .dict kvs => some (keysOf kvs)
  | _ => Option.none

theorem iterItems_lt {o xs} (h : iterItems o = some xs) : sizeOf xs < sizeOf o := by
  cases o <;> simp [iterItems] at h
  case coll k ys => subst h; simp; omega
  case dict kvs => subst h; have := sizeOf_keysOf_lt kvs; simp; omega

/-- What iterating a `str` / `bytes` payload yields (`for e in obj`): 1-character strings / ints.  These items are
not sub-terms of the payload (and a 1-character string yields itself), so the structuring functions hand such
payloads to a separate family (`stLF` / `stLD`) whose recursion is bounded by the type and, through classes, by a
fuel (`leafFuel`). -/
def leafItems : Obj → Option (List Obj)
  | .str s => some (s.toList.map (fun c => .str (String.singleton c)))
  | .bytes h => some ((hexBytes h.toList).map (fun n => Obj.int (Int.ofNat n)))
  | _ => Option.none

/-- `for e in obj` for any payload: container items, or the characters / byte values of a `str` / `bytes` -/
def allItems (o : Obj) : Option (List Obj) :=
  match iterItems o with
  | some xs => some xs
  | Option.none => leafItems o

/-- Bound on the number of tuple-strategy class / NamedTuple positions a `str` item can be threaded through: a
1-character string iterates to itself, so a longer chain revisits a class with the same payload -- the real code
recurses until `RecursionError`; the model answers "raises" when the fuel runs out. -/
def leafFuel (w : World) : Nat := w.classes.length + 1

/-- the key under which field `f` is read/written by the default hooks -/
def Field.key (f : Field) : Obj := .str f.name

def fieldNames (fds : List Field) : List Obj := fds.map Field.key

/-- keys of a payload that no included field accepts -/
def extraKeys (allowed : List Obj) (kvs : List (Obj × Obj)) : List Obj :=
  (keysOf kvs).filter (fun k => !Obj.memPy k allowed)

/-- default value of every field, for classes built without reading the payload -/
def defaultsOf : List Field → Option (List (String × Obj))
  | [] => some []
  | f :: fds => match f.dflt.value?, defaultsOf fds with
    | some v, some r => some ((f.name, v) :: r)
    | _, _ => Option.none

/-- what a mapping hook returns: a `Converter` builds the target class of the declared type
(`mapping_structure_factory`: `res = structure_to(res)`), a `BaseConverter` always a plain `dict` (`_structure_dict`) -/
def mapRes (cfg : Cfg) (k : MK) (kvs : List (Obj × Obj)) : Obj :=
  if cfg.gen then mkMapObj k kvs else .dict kvs

theorem mapRes_plain (cfg : Cfg) {k : MK} (kvs : List (Obj × Obj)) (hk : k.target = Option.none) :
    mapRes cfg k kvs = .dict kvs := by
  unfold mapRes mkMapObj; rw [hk]; simp

theorem mapRes_target (cfg : Cfg) {k : MK} {d : DK} (kvs : List (Obj × Obj)) (hg : cfg.gen = true) (hk : k.target = some d) :
    mapRes cfg k kvs = .mdict d kvs := by
  unfold mapRes mkMapObj; rw [hk]; simp [hg]

mutual
/-- every mapping type inside the type has the target class `dict` (`dict` / `Mapping` / `MutableMapping`): the mapping
types within a `BaseConverter`'s support -- its `_structure_dict` returns a plain `dict` whatever the declared class, it
has no hook for `Counter[K]`, and its `_unstructure_mapping` rebuilds `mapping.__class__(pairs)` (wrong for a `Counter`,
a `TypeError` for a `defaultdict`) -/
def Ty.plainMaps : Ty → Bool
  | .coll _ t => t.plainMaps
  | .tupleHet ts => Ty.plainMapsL ts
  | .map k kt vt => k.target.isNone && kt.plainMaps && vt.plainMaps
  | .opt t => t.plainMaps
  | .wrap _ t => t.plainMaps
  | _ => true
termination_by structural t => t
def Ty.plainMapsL : List Ty → Bool
  | [] => true
  | t :: ts => t.plainMaps && Ty.plainMapsL ts
termination_by structural ts => ts
end

/-- the same for every field type of the class table -/
def World.plainMaps (w : World) : Prop :=
  ∀ c, ∀ f ∈ w.fields c, ∀ t, f.ty = some t → t.plainMaps = true

/-- the mapping-class scope of a call: a `Converter` structures into every target class; a `BaseConverter` is only
asked about types (and class tables) whose mapping types all have the target class `dict` -/
def MapsInScope (w : World) (cfg : Cfg) (t : Ty) : Prop :=
  cfg.gen = true ∨ (w.plainMaps ∧ t.plainMaps = true)

/-! ### `Literal[...]` -/

def Obj.isEnumM : Obj → Bool
  | .enumM _ _ => true
  | _ => false

/-- `is_literal_containing_enums` -/
def litHasEnum (vs : List Obj) : Bool := vs.any Obj.isEnumM

/-- the values of `Literal[vs]`.  A literal containing enum members: exactly its arguments (the member itself, the
plain value itself -- `_structure_enum_literal` hands out the literal's own argument).  A literal of plain values:
whatever is `in` the arguments (`_structure_simple_literal` tests `val in args` and returns `val`: `True` for
`Literal[1]`). -/
def litConf (vs : List Obj) (x : Obj) : Bool :=
  if litHasEnum vs then vs.contains x else Obj.memPy x vs

/-! ### conformance: "x is a value of T at every depth" -/

mutual
def conf (w : World) : Ty → Obj → Bool
  | .any, _ => true
  | .int, .int _ => true
  | .float, .flt _ => true
  | .str, .str _ => true
  | .bytes, .bytes _ => true
  | .bool, .bool _ => true
  | .enum e, .enumM e' m => e == e' && decide (m < (w.members e).length)
  | .lit vs, x => litConf vs x
  | .coll k t, .coll ck xs =>
      ck == k.structTo && confL w t xs && (!ck.isSet || (nodupPy xs && hashableL w xs))
  | .tupleHet ts, .coll .tuple xs => confT w ts xs
  -- a mapping type: an instance of EXACTLY its target class (`dict` for `dict` / `Mapping` / `MutableMapping`;
  -- `OrderedDict`, `defaultdict`, `Counter` for those)
  | .map k kt vt, .dict kvs =>
      confKV w kt vt kvs && nodupPy (keysOf kvs) && hashableL w (keysOf kvs) && k.target.isNone
  | .map k kt vt, .mdict d kvs =>
      confKV w kt vt kvs && nodupPy (keysOf kvs) && hashableL w (keysOf kvs) && (k.target == some d)
  | .opt _, .none => true
  | .opt t, x => conf w t x
  | .wrap _ t, x => conf w t x
  | .cls c, .inst c' fs => c == c' && confF w (w.fields c) fs
  | .td c, .dict kvs => confTD w (w.fields c) kvs
  | .union _ hn, .none => hn
  | .union cs _, .inst c fs => cs.contains c && confF w (w.fields c) fs
  -- a NamedTuple instance: of exactly that (NamedTuple) class, its items conform to the field types
  | .nt c, .inst c' fs =>
      c == c' && w.isNT c && (fs.map (·.1) == w.ntNames c) && confT w (w.ntTys c) (vals fs)
  | _, _ => false
termination_by t x => (sizeOf x, sizeOf t)
decreasing_by
  all_goals first
    | decreasing_tactic
    | (apply Prod.Lex.left; have := sizeOf_vals_lt fs; simp; omega)
def confL (w : World) (t : Ty) : List Obj → Bool
  | [] => true
  | x :: xs => conf w t x && confL w t xs
termination_by xs => (sizeOf xs, sizeOf t)
def confT (w : World) : List Ty → List Obj → Bool
  | [], [] => true
  | t :: ts, x :: xs => conf w t x && confT w ts xs
  | _, _ => false
termination_by ts xs => (sizeOf xs, sizeOf ts)
def confKV (w : World) (kt vt : Ty) : List (Obj × Obj) → Bool
  | [] => true
  | (a, b) :: rest => conf w kt a && conf w vt b && confKV w kt vt rest
termination_by kvs => (sizeOf kvs, sizeOf kt + sizeOf vt)
/-- instance fields, in declaration order; untyped fields hold anything;
`init=False` fields hold their default -/
def confF (w : World) : List Field → List (String × Obj) → Bool
  | [], [] => true
  | f :: fds, (n, x) :: rest =>
      f.name == n
      && (match f.ty with | Option.none => true | some t => conf w t x)
      && (f.init || f.dflt.value? == some x)
      && confF w fds rest
  | _, _ => false
termination_by _ fs => (sizeOf fs, 0)
/-- TypedDict payloads: required keys present, declared keys conform; other keys are not inspected -/
def confTD (w : World) : List Field → (kvs : List (Obj × Obj)) → Bool
  | [], _ => true
  | f :: fds, kvs =>
      match h : dlookup kvs f.key with
      | Option.none => !f.required && confTD w fds kvs
      | some x => (match f.ty with | Option.none => true | some t => conf w t x) && confTD w fds kvs
termination_by fds kvs => (sizeOf kvs, fds.length)
decreasing_by
  all_goals first
    | decreasing_tactic
    | (apply Prod.Lex.left; exact dlookup_lt h)
end

end CattrsModel
