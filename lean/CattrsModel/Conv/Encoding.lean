import CattrsModel.Conv.Unstructure
/-!
# C03 vocabulary: primitive-only objects, genuine values, the documented encoding as a relation

Everything here is specification (no part of the executable data path uses it).
-/
namespace CattrsModel

/-! ### primitive-only objects -/

mutual
/-- Built only from dict, list, tuple, set, frozenset and None/bool/int/float/str/bytes; objects of unknown
classes (`opaque`) are allowed because the property says they are returned unchanged.  `dq`: are deques
tolerated (BaseConverter keeps the container class it finds)? -/
def Obj.prim (dq : Bool) : Obj → Bool
  | .enumM _ _ => false
  | .inst _ _ => false
  | .coll ck xs => (dq || ck != .deque) && Obj.primL dq xs
  | .dict kvs => Obj.primKV dq kvs
  | .mdict _ _ => false          -- an instance of a dict SUBCLASS is not a primitive
  | _ => true
termination_by structural x => x
def Obj.primL (dq : Bool) : List Obj → Bool
  | [] => true
  | x :: xs => x.prim dq && Obj.primL dq xs
termination_by structural xs => xs
def Obj.primKV (dq : Bool) : List (Obj × Obj) → Bool
  | [] => true
  | (k, v) :: rest => k.prim dq && v.prim dq && Obj.primKV dq rest
termination_by structural kvs => kvs
end

/-! ### genuine values

`wellTyped w T x`: `x` has the shape of a value of `T` at every depth — the part of "x is a value of T" that
unstructuring depends on: exact container classes, instances carrying values of their fields' types (also
inside `Any`-typed and untyped positions, where only the run-time class is known), TypedDict payloads with
declared keys only.  (Set/dict duplicate-freeness and required keys are irrelevant here and not demanded, so
the theorems are slightly stronger than "for every value of T".) -/

mutual
def wellTyped (w : World) : Ty → Obj → Bool
  | .any, x => wellTypedAny w x
  | .int, .int _ => true
  | .float, .flt _ => true
  | .str, .str _ => true
  | .bytes, .bytes _ => true
  | .bool, .bool _ => true
  | .enum e, .enumM e' m => e == e' && decide (m < (w.members e).length)
  -- a value of the literal; an enum member among the literal's values is a genuine member of its enum
  | .lit vs, x => Obj.memPy x vs && wellTypedAny w x
  | .coll k t, .coll ck xs => ck == k.structTo && wellTypedL w t xs
  | .tupleHet ts, .coll .tuple xs => wellTypedT w ts xs
  | .map _ kt vt, .dict kvs => wellTypedKV w kt vt kvs
  | .opt _, .none => true
  | .opt t, x => wellTyped w t x
  | .wrap _ t, x => wellTyped w t x
  -- (an instance of an attrs class / dataclass: the class named by a `.cls` position is not a NamedTuple class)
  | .cls c, .inst c' fs => c == c' && !w.isNT c && wellTypedF w (w.fields c) fs
  | .td c, .dict kvs => wellTypedTD w (w.fields c) kvs
  | .union _ hn, .none => hn
  | .union cs _, .inst c fs => cs.contains c && !w.isNT c && wellTypedF w (w.fields c) fs
  | .nt c, .inst c' fs => c == c' && w.isNT c && wellTypedT w (w.ntTys c) (vals fs)
  | _, _ => false
termination_by t x => (sizeOf x, sizeOf t)
decreasing_by
  all_goals first
    | decreasing_tactic
    | (apply Prod.Lex.left; have := sizeOf_vals_lt fs; simp; omega)
/-- by run-time class (`Any`-typed and untyped positions) -/
def wellTypedAny (w : World) : Obj → Bool
  | .enumM e m => decide (m < (w.members e).length)
  | .coll _ xs => wellTypedAnyL w xs
  | .dict kvs => wellTypedAnyKV w kvs
  | .inst c fs => if w.isNT c then wellTypedT w (w.ntTys c) (vals fs) else wellTypedF w (w.fields c) fs
  -- instances of dict subclasses (`OrderedDict`, `defaultdict`, `Counter`) are outside the C03 / C06 unstructure
  -- theorems (a `BaseConverter` keeps the class); C01 covers their unstructuring by a `Converter`
  | .mdict _ _ => false
  | _ => true
termination_by x => (sizeOf x, 0)
decreasing_by
  all_goals first
    | decreasing_tactic
    | (apply Prod.Lex.left; have := sizeOf_vals_lt fs; simp; omega)
def wellTypedL (w : World) (t : Ty) : List Obj → Bool
  | [] => true
  | x :: xs => wellTyped w t x && wellTypedL w t xs
termination_by xs => (sizeOf xs, sizeOf t)
def wellTypedAnyL (w : World) : List Obj → Bool
  | [] => true
  | x :: xs => wellTypedAny w x && wellTypedAnyL w xs
termination_by xs => (sizeOf xs, 0)
def wellTypedT (w : World) : List Ty → List Obj → Bool
  | [], [] => true
  | t :: ts, x :: xs => wellTyped w t x && wellTypedT w ts xs
  | _, _ => false
termination_by ts xs => (sizeOf xs, sizeOf ts)
def wellTypedKV (w : World) (kt vt : Ty) : List (Obj × Obj) → Bool
  | [] => true
  | (a, b) :: rest => wellTyped w kt a && wellTyped w vt b && wellTypedKV w kt vt rest
termination_by kvs => (sizeOf kvs, sizeOf kt + sizeOf vt)
def wellTypedAnyKV (w : World) : List (Obj × Obj) → Bool
  | [] => true
  | (a, b) :: rest => wellTypedAny w a && wellTypedAny w b && wellTypedAnyKV w rest
termination_by kvs => (sizeOf kvs, 0)
def wellTypedF (w : World) : List Field → List (String × Obj) → Bool
  | [], [] => true
  | f :: fds, (_, x) :: rest =>
      (match f.ty with | Option.none => wellTypedAny w x | some t => wellTyped w t x) && wellTypedF w fds rest
  | _, _ => false
termination_by _ fs => (sizeOf fs, 0)
/-- TypedDict payload: every key is a declared key holding a value of its type -/
def wellTypedTD (w : World) (fds : List Field) : List (Obj × Obj) → Bool
  | [] => true
  | (k, v) :: rest =>
      (match findField fds k with
        | Option.none => false
        | some f => (match f.ty with | Option.none => wellTypedAny w v | some t => wellTyped w t v))
      && wellTypedTD w fds rest
termination_by kvs => (sizeOf kvs, 0)
end

/-! ### documented type support for unstructuring -/

def Ty.isPrimLeaf : Ty → Bool
  | .int | .float | .str | .bytes | .bool => true
  | _ => false

def Obj.isLeafB : Obj → Bool
  | .none | .bool _ | .int _ | .flt _ | .str _ | .bytes _ => true
  | _ => false

/-- what `typing.Literal[...]` admits: leaf values and enum members -/
def Obj.isLitVal : Obj → Bool
  | .enumM _ _ => true
  | x => x.isLeafB

mutual
/-- `Converter` (`gen = true`): everything in the model's universe, literals over leaf values and enum members.
`BaseConverter`: no `Annotated`, no TypedDict, NewType only over primitives, heterogeneous tuples only of
primitives (DESIGN §7, "documented type support"); NamedTuples likewise only of primitives -- a class-table
condition, `World.SupU.ntPrim`. -/
def Ty.supU (gen : Bool) : Ty → Bool
  | .lit vs => vs.all Obj.isLitVal
  | .coll _ t => t.supU gen
  | .tupleHet ts => Ty.supUL gen ts && (gen || ts.all Ty.isPrimLeaf)
  -- (mapping types whose target class is not `dict` -- `OrderedDict`, `defaultdict`, `Counter` -- are a `Converter`'s)
  | .map k kt vt => kt.supU gen && vt.supU gen && (gen || k.target.isNone)
  | .opt t => t.supU gen
  | .wrap k t => t.supU gen && (gen || k == .final || k == .alias || (k == .newtype && t.isPrimLeaf))
  | .td _ => gen
  | _ => true
termination_by structural t => t
def Ty.supUL (gen : Bool) : List Ty → Bool
  | [] => true
  | t :: ts => t.supU gen && Ty.supUL gen ts
termination_by structural ts => ts
end

/-- every annotated field of every class is within the converter's support; enum values are leaves -/
structure World.SupU (w : World) (gen : Bool) : Prop where
  fieldsOK : ∀ c, ∀ f ∈ w.fields c, ∀ t, f.ty = some t → t.supU gen = true
  enumLeaf : ∀ e, ∀ v ∈ w.members e, v.isLeafB = true
  /-- a `BaseConverter` has no NamedTuple unstructure hook (the instance is left as it is): supported only when
  every field is of a primitive type -/
  ntPrim : gen = false → ∀ c, w.isNT c = true → ∀ f ∈ w.fields c, ∃ t, f.ty = some t ∧ t.isPrimLeaf = true

/-! ### recursion through TypedDicts

A TypedDict is a plain dict at run time.  When hook generation meets a reference cycle it falls back to late
binding on the *run-time class*, which for a TypedDict payload is `dict`: the nested levels of a
self-referential TypedDict are then not unstructured as the TypedDict (recorded finding F39).  The model does
not describe that fallback, so the C03 theorems are stated for class tables in which no TypedDict lies on a
reference cycle (`tdAcyclicB`); recursive attrs classes and dataclasses are in scope. -/

mutual
/-- classes (attrs/dataclass/TypedDict alike) mentioned in a type -/
def Ty.refs : Ty → List Nat
  | .cls c => [c]
  | .td c => [c]
  | .nt c => [c]
  | .union cs _ => cs
  | .coll _ t => t.refs
  | .opt t => t.refs
  | .wrap _ t => t.refs
  | .tupleHet ts => Ty.refsL ts
  | .map _ k v => k.refs ++ v.refs
  | _ => []
termination_by structural t => t
def Ty.refsL : List Ty → List Nat
  | [] => []
  | t :: ts => t.refs ++ Ty.refsL ts
termination_by structural ts => ts
end

def World.succ (w : World) (c : Nat) : List Nat :=
  (w.fields c).flatMap (fun f => match f.ty with | Option.none => [] | some t => t.refs)

/-- classes reachable from the frontier in at most `fuel` further steps -/
def World.reach (w : World) : Nat → List Nat → List Nat → List Nat
  | 0, _, seen => seen
  | fuel + 1, frontier, seen =>
    let next := (frontier.flatMap w.succ).eraseDups.filter (fun c => !seen.contains c)
    if next.isEmpty then seen else w.reach fuel next (seen ++ next)

def World.isTD (w : World) (c : Nat) : Bool :=
  match w.cls? c with | some k => k.kind == .typeddict | Option.none => false

/-- no TypedDict class can reach itself through field types -/
def World.tdAcyclicB (w : World) : Bool :=
  (List.range w.classes.length).all (fun c => !w.isTD c || !(w.reach w.classes.length (w.succ c) (w.succ c)).contains c)

/-- executable version of `World.SupU` (used by the driver to report whether a generated case satisfies the
theorems' hypotheses; `World.supUB_sound` proves it implies `World.SupU`) -/
def World.supUB (w : World) (gen : Bool) : Bool :=
  w.classes.all (fun c => c.fields.all (fun f => match f.ty with | Option.none => true | some t => t.supU gen))
  && w.enums.all (fun vs => vs.all Obj.isLeafB)
  && (gen || w.classes.all (fun c => c.kind != .namedtuple ||
        c.fields.all (fun f => match f.ty with | Option.none => false | some t => t.isPrimLeaf)))

theorem World.supUB_sound (w : World) (gen : Bool) (h : w.supUB gen = true) : w.SupU gen := by
  simp only [World.supUB, Bool.and_eq_true, List.all_eq_true] at h
  constructor
  · intro c f hf t ht
    unfold World.fields at hf
    cases hc : w.classes[c]? with
    | none => rw [hc] at hf; cases hf
    | some k =>
      rw [hc] at hf
      have := h.1.1 k (List.mem_of_getElem? hc) f hf
      rw [ht] at this; exact this
  · intro e v hv
    unfold World.members at hv
    cases he : w.enums[e]? with
    | none => rw [he] at hv; cases hv
    | some vs => rw [he] at hv; exact h.1.2 vs (List.mem_of_getElem? he) v hv
  · intro hg c hnt f hf
    have h2 := h.2
    simp only [hg, Bool.false_or, List.all_eq_true, Bool.or_eq_true, bne_iff_ne, ne_eq] at h2
    unfold World.fields at hf
    unfold World.isNT at hnt
    cases hc : w.classes[c]? with
    | none => rw [hc] at hf; cases hf
    | some k =>
      rw [hc] at hf hnt
      have hk : k.kind = .namedtuple := by simpa using hnt
      rcases h2 k (List.mem_of_getElem? hc) with h3 | h3
      · exact absurd hk h3
      · have := h3 f hf
        cases hty : f.ty with
        | none => rw [hty] at this; cases this
        | some t => rw [hty] at this; exact ⟨t, rfl, this⟩

/-! ### the documented encoding, as a relation

One rule per clause of the documentation / property statement.  `EncAs w cfg T x y`: "the documented encoding
of `x` as a `T` is `y`"; `EncRt w cfg x y`: encoding by run-time class.  A `Converter` encodes components by
their declared types and normalises sequences to lists; a `BaseConverter` encodes the components of
collections, mappings and optionals by run-time class and keeps the container class it finds. -/

mutual
inductive EncAs (w : World) (cfg : Cfg) : Ty → Obj → Obj → Prop
  /-- `Any`: by run-time class -/
  | any {x y} : EncRt w cfg x y → EncAs w cfg .any x y
  /-- primitives are themselves -/
  | int {i} : EncAs w cfg .int (.int i) (.int i)
  | float {k} : EncAs w cfg .float (.flt k) (.flt k)
  | str {s} : EncAs w cfg .str (.str s) (.str s)
  | bytes {h} : EncAs w cfg .bytes (.bytes h) (.bytes h)
  | bool {b} : EncAs w cfg .bool (.bool b) (.bool b)
  /-- enums become their values -/
  | enum {e m v} : (w.members e)[m]? = some v → EncAs w cfg (.enum e) (.enumM e m) v
  /-- literals of leaf values are themselves -/
  | lit {vs x} : litHasEnum vs = false → EncAs w cfg (.lit vs) x x
  /-- a literal containing enum members: by run-time class (a member becomes its value) -/
  | litE {vs x y} : litHasEnum vs = true → EncRt w cfg x y → EncAs w cfg (.lit vs) x y
  /-- Converter: sequences become lists, sets sets (frozensets frozensets), elements by declared type -/
  | collG {k t ck xs ys} : cfg.gen = true → EncL w cfg t xs ys →
      EncAs w cfg (.coll k t) (.coll ck xs) (mkColl k.unstructTo ys)
  /-- BaseConverter: same container class, elements by run-time class -/
  | collB {k t ck xs ys} : cfg.gen = false → EncRtL w cfg xs ys →
      EncAs w cfg (.coll k t) (.coll ck xs) (mkColl ck ys)
  /-- heterogeneous tuples become tuples, element-wise by declared type (Converter) -/
  | tupG {ts xs ys} : cfg.gen = true → EncT w cfg ts xs ys →
      EncAs w cfg (.tupleHet ts) (.coll .tuple xs) (.coll .tuple ys)
  | tupB {ts xs} : cfg.gen = false → EncAs w cfg (.tupleHet ts) (.coll .tuple xs) (.coll .tuple xs)
  /-- mappings become dicts with encoded keys and values -/
  | mapG {mk kt vt kvs out} : cfg.gen = true → EncKV w cfg kt vt kvs out →
      EncAs w cfg (.map mk kt vt) (.dict kvs) (.dict (mkDict out))
  | mapB {mk kt vt kvs out} : cfg.gen = false → EncRtKV w cfg kvs out →
      EncAs w cfg (.map mk kt vt) (.dict kvs) (.dict (mkDict out))
  /-- Optional: None is None, anything else as the underlying type -/
  | optNone {t} : EncAs w cfg (.opt t) .none .none
  | optG {t x y} : cfg.gen = true → x ≠ .none → EncAs w cfg t x y → EncAs w cfg (.opt t) x y
  | optB {t x y} : cfg.gen = false → x ≠ .none → EncRt w cfg x y → EncAs w cfg (.opt t) x y
  /-- NewType / Annotated / Final / alias: as the underlying type -/
  | wrap {k t x y} : (cfg.gen = true ∨ k = .final ∨ k = .alias) → EncAs w cfg t x y → EncAs w cfg (.wrap k t) x y
  /-- BaseConverter passes NewType/Annotated values through (supported only over primitives) -/
  | wrapB {k t x} : cfg.gen = false → k ≠ .final → k ≠ .alias → EncAs w cfg (.wrap k t) x x
  /-- classes: dict keyed by field name / tuple in field order -/
  | clsDict {c c' fs out} : cfg.tupleStrat = false → EncF w cfg (w.fields c) fs out →
      EncAs w cfg (.cls c) (.inst c' fs) (.dict out)
  | clsTuple {c c' fs out} : cfg.tupleStrat = true → EncFT w cfg (w.fields c) fs out →
      EncAs w cfg (.cls c) (.inst c' fs) (.coll .tuple out)
  /-- TypedDicts: a dict with the same keys, values encoded by the declared key types (Converter) -/
  | tdG {c kvs out} : cfg.gen = true → EncTD w cfg (w.fields c) kvs out → EncAs w cfg (.td c) (.dict kvs) (.dict out)
  | tdB {c kvs out} : cfg.gen = false → EncRtKV w cfg kvs out → EncAs w cfg (.td c) (.dict kvs) (.dict (mkDict out))
  /-- unions of classes (and `None`): by run-time class -/
  | union {cs hn x y} : EncRt w cfg x y → EncAs w cfg (.union cs hn) x y
  /-- named tuples become tuples, item-wise by the declared field types (Converter) -/
  | ntG {c c' fs ys} : cfg.gen = true → EncT w cfg (w.ntTys c) (vals fs) ys →
      EncAs w cfg (.nt c) (.inst c' fs) (.coll .tuple ys)
  /-- BaseConverter leaves a named tuple as the tuple it is (supported only over primitives) -/
  | ntB {c c' fs} : cfg.gen = false → EncAs w cfg (.nt c) (.inst c' fs) (.coll .tuple (vals fs))

/-- by run-time class -/
inductive EncRt (w : World) (cfg : Cfg) : Obj → Obj → Prop
  | none : EncRt w cfg .none .none
  | bool {b} : EncRt w cfg (.bool b) (.bool b)
  | int {i} : EncRt w cfg (.int i) (.int i)
  | flt {k} : EncRt w cfg (.flt k) (.flt k)
  | str {s} : EncRt w cfg (.str s) (.str s)
  | bytes {h} : EncRt w cfg (.bytes h) (.bytes h)
  /-- values of unknown classes are returned unchanged -/
  | opaque {n} : EncRt w cfg (.opaque n) (.opaque n)
  | enum {e m v} : (w.members e)[m]? = some v → EncRt w cfg (.enumM e m) v
  | coll {ck xs ys} : EncRtL w cfg xs ys →
      EncRt w cfg (.coll ck xs) (mkColl (if cfg.gen then ck.anyTo else ck) ys)
  | dict {kvs out} : EncRtKV w cfg kvs out → EncRt w cfg (.dict kvs) (.dict (mkDict out))
  | instDict {c fs out} : w.isNT c = false → cfg.tupleStrat = false → EncF w cfg (w.fields c) fs out →
      EncRt w cfg (.inst c fs) (.dict out)
  | instTuple {c fs out} : w.isNT c = false → cfg.tupleStrat = true → EncFT w cfg (w.fields c) fs out →
      EncRt w cfg (.inst c fs) (.coll .tuple out)
  /-- instances of NamedTuple classes: tuples (whatever the strategy) -/
  | ntG {c fs ys} : w.isNT c = true → cfg.gen = true → EncT w cfg (w.ntTys c) (vals fs) ys →
      EncRt w cfg (.inst c fs) (.coll .tuple ys)
  | ntB {c fs} : w.isNT c = true → cfg.gen = false → EncRt w cfg (.inst c fs) (.coll .tuple (vals fs))

inductive EncL (w : World) (cfg : Cfg) : Ty → List Obj → List Obj → Prop
  | nil {t} : EncL w cfg t [] []
  | cons {t x y xs ys} : EncAs w cfg t x y → EncL w cfg t xs ys → EncL w cfg t (x :: xs) (y :: ys)

inductive EncRtL (w : World) (cfg : Cfg) : List Obj → List Obj → Prop
  | nil : EncRtL w cfg [] []
  | cons {x y xs ys} : EncRt w cfg x y → EncRtL w cfg xs ys → EncRtL w cfg (x :: xs) (y :: ys)

inductive EncT (w : World) (cfg : Cfg) : List Ty → List Obj → List Obj → Prop
  | nil : EncT w cfg [] [] []
  | cons {t ts x y xs ys} : EncAs w cfg t x y → EncT w cfg ts xs ys → EncT w cfg (t :: ts) (x :: xs) (y :: ys)

inductive EncKV (w : World) (cfg : Cfg) : Ty → Ty → List (Obj × Obj) → List (Obj × Obj) → Prop
  | nil {kt vt} : EncKV w cfg kt vt [] []
  | cons {kt vt a b a' b' rest out} : EncAs w cfg kt a a' → EncAs w cfg vt b b' → EncKV w cfg kt vt rest out →
      EncKV w cfg kt vt ((a, b) :: rest) ((a', b') :: out)

inductive EncRtKV (w : World) (cfg : Cfg) : List (Obj × Obj) → List (Obj × Obj) → Prop
  | nil : EncRtKV w cfg [] []
  | cons {a b a' b' rest out} : EncRt w cfg a a' → EncRt w cfg b b' → EncRtKV w cfg rest out →
      EncRtKV w cfg ((a, b) :: rest) ((a', b') :: out)

/-- one dict entry per emitted field, keyed by the field's name, in declaration order; untyped fields by
run-time class; the generated dict hooks leave out `init=False` fields -/
inductive EncF (w : World) (cfg : Cfg) : List Field → List (String × Obj) → List (Obj × Obj) → Prop
  | nil : EncF w cfg [] [] []
  | typed {f fds n x y rest out t} : emits cfg f = true → f.ty = some t → EncAs w cfg t x y → EncF w cfg fds rest out →
      EncF w cfg (f :: fds) ((n, x) :: rest) ((.str f.name, y) :: out)
  | untyped {f fds n x y rest out} : emits cfg f = true → f.ty = Option.none → EncRt w cfg x y → EncF w cfg fds rest out →
      EncF w cfg (f :: fds) ((n, x) :: rest) ((.str f.name, y) :: out)
  | skipped {f fds n x rest out} : emits cfg f = false → EncF w cfg fds rest out →
      EncF w cfg (f :: fds) ((n, x) :: rest) out

/-- tuple strategy: every field in declaration order -/
inductive EncFT (w : World) (cfg : Cfg) : List Field → List (String × Obj) → List Obj → Prop
  | nil : EncFT w cfg [] [] []
  | typed {f fds n x y rest out t} : f.ty = some t → EncAs w cfg t x y → EncFT w cfg fds rest out →
      EncFT w cfg (f :: fds) ((n, x) :: rest) (y :: out)
  | untyped {f fds n x y rest out} : f.ty = Option.none → EncRt w cfg x y → EncFT w cfg fds rest out →
      EncFT w cfg (f :: fds) ((n, x) :: rest) (y :: out)

inductive EncTD (w : World) (cfg : Cfg) : List Field → List (Obj × Obj) → List (Obj × Obj) → Prop
  | nil {fds} : EncTD w cfg fds [] []
  | typed {fds k v y rest out f t} : findField fds k = some f → f.ty = some t → EncAs w cfg t v y →
      EncTD w cfg fds rest out → EncTD w cfg fds ((k, v) :: rest) ((k, y) :: out)
  | untyped {fds k v y rest out f} : findField fds k = some f → f.ty = Option.none → EncRt w cfg v y →
      EncTD w cfg fds rest out → EncTD w cfg fds ((k, v) :: rest) ((k, y) :: out)
end

end CattrsModel
