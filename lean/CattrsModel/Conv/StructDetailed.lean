import CattrsModel.Conv.StructFast
/-!
# Structuring, `detailed_validation=True`

Errors are *trees*: `cve` = `ClassValidationError` (children annotated with the attribute
name when an `AttributeValidationNote` is attached), `ive` = `IterableValidationError`
(children annotated with index / key), `extra` = `ForbiddenExtraKeysError`, `leaf` = any other
exception (its Python class is not part of any property).
-/
namespace CattrsModel

inductive Err where
  | leaf
  | extra (ks : List Obj)
  | cve (es : List (Option String × Err))
  | ive (es : List (Option Obj × Err))
  deriving Repr, Inhabited

def Ty.isAny : Ty → Bool
  | .any => true
  | _ => false

abbrev Res := Except Err Obj

def Res.toOption : Res → Option Obj
  | .ok v => some v
  | .error _ => Option.none

/-- generated detailed class hook on a payload that is not a `dict`.
`'k' in o` is evaluated outside the `try`; `o['k']` always raises and is recorded. -/
def nonMappingFieldsD (o : Obj) : List Field → Option (List (Option String × Err))
  | [] => some []
  | f :: fds =>
    if f.dflt.value?.isSome then
      match pyContains o f.name with
      | Option.none => Option.none                          -- the membership test raised: bare error
      | some false => nonMappingFieldsD o fds
      | some true => (nonMappingFieldsD o fds).map ((some f.name, Err.leaf) :: ·)
    else (nonMappingFieldsD o fds).map ((some f.name, Err.leaf) :: ·)

def nonMappingClsGenD (w : World) (cfg : Cfg) (c : Nat) (o : Obj) : Res :=
  match nonMappingFieldsD o (initFields (w.fields c)) with
  | Option.none => .error .leaf
  | some errs =>
    if cfg.forbid then .error .leaf                         -- `o.keys()` raises, outside any `try`
    else if !errs.isEmpty then .error (.cve errs)
    else match defaultsOf (w.fields c) with
      | some fs => .ok (.inst c fs)
      | Option.none => .error (.cve [(Option.none, .leaf)])

/-! ### `str` / `bytes` payloads at iterating positions, detailed templates (see `stLF`) -/

mutual
def stLD (w : World) (cfg : Cfg) : Nat → Ty → Obj → Res
  | _, .any, x => .ok x
  | _, .int, x => match x.toInt? with | some i => .ok (.int i) | Option.none => .error .leaf
  | _, .float, x => match x.toFlt? with | some i => .ok (.flt i) | Option.none => .error .leaf
  | _, .str, x => .ok (.str (pyStr x))
  | _, .bytes, x => match x.toBytes? with | some i => .ok (.bytes i) | Option.none => .error .leaf
  | _, .bool, x => .ok (.bool x.truthy)
  | _, .enum e, x => match enumOf w e x with | some v => .ok v | Option.none => .error .leaf
  | _, .lit vs, x => match litStruct w vs x with | some v => .ok v | Option.none => .error .leaf
  | n, .coll k t, o =>
      match leafItems o with
      | Option.none => .error .leaf
      | some xs =>
        if t.isAny then
          match finishColl w k.structTo xs with
          | some r => .ok r
          | Option.none => .error .leaf
        else
          let (ys, errs) := stLDL w cfg n t k.structTo.isSet 0 xs
          if !errs.isEmpty then .error (.ive errs)
          else .ok (mkColl k.structTo ys)
  | n, .tupleHet ts, o =>
      match leafItems o with
      | Option.none => .error .leaf
      | some xs =>
        let (ys, errs) := stLDT w cfg n 0 ts xs
        let errs := if xs.length != ts.length then errs ++ [(Option.none, Err.leaf)] else errs
        if !errs.isEmpty then .error (.ive errs) else .ok (.coll .tuple ys)
  | _, .opt _, .none => .ok .none
  | n, .opt t, x => stLD w cfg n t x
  | n, .wrap _ t, x => stLD w cfg n t x
  | n, .cls c, o =>
      if cfg.tupleStrat then
        match n with
        | 0 => .error .leaf                                  -- fuel exhausted: `RecursionError`
        | n' + 1 =>
          match leafItems o with
          | Option.none => .error .leaf
          | some xs =>
            match stLDFieldsT w cfg n' (w.fields c) xs with
            | .ok fs => .ok (.inst c fs)
            | .error e => .error e
      else if cfg.gen then nonMappingClsGenD w cfg c o
      else match nonMappingClsInterp w c with
        | some v => .ok v
        | Option.none => .error .leaf
  | _, .td _, _ => if cfg.gen then .error (.cve [(Option.none, .leaf)]) else .error .leaf
  | n, .union cs hn, o =>
      match unionPick w cs hn o with
      | .ok m => if h : m ∈ cs then stLD w cfg n (.cls m) o else .error .leaf
      | .none => .ok .none
      | _ => .error .leaf
  | n, .nt c, o =>
      match n with
      | 0 => .error .leaf
      | n' + 1 =>
        match leafItems o with
        | Option.none => .error .leaf
        | some xs =>
          if w.isNT c then
            let (ys, errs) := stLDT w cfg n' 0 (w.ntTys c) xs
            let errs := if xs.length != (w.ntTys c).length then errs ++ [(Option.none, Err.leaf)] else errs
            if !errs.isEmpty then .error (.ive errs) else .ok (ntMk w c ys)
          else .error .leaf
  | _, _, _ => .error .leaf
termination_by n t _ => (n, sizeOf t, 0)
decreasing_by
  all_goals first
    | decreasing_tactic
    | (apply Prod.Lex.right; apply Prod.Lex.left; have := List.sizeOf_lt_of_mem h; simp at this ⊢; omega)
def stLDL (w : World) (cfg : Cfg) (n : Nat) (t : Ty) (isSet : Bool) (ix : Nat) : List Obj → List Obj × List (Option Obj × Err)
  | [] => ([], [])
  | x :: xs =>
    let (ys, errs) := stLDL w cfg n t isSet (ix + 1) xs
    match stLD w cfg n t x with
    | .ok y => if isSet && !hashable w y then (ys, (some (.int ix), Err.leaf) :: errs) else (y :: ys, errs)
    | .error e => (ys, (some (.int ix), e) :: errs)
termination_by xs => (n, sizeOf t, xs.length + 1)
def stLDT (w : World) (cfg : Cfg) (n : Nat) (ix : Nat) : List Ty → List Obj → List Obj × List (Option Obj × Err)
  | t :: ts, x :: xs =>
    let (ys, errs) := stLDT w cfg n (ix + 1) ts xs
    match stLD w cfg n t x with
    | .ok y => (y :: ys, errs)
    | .error e => (ys, (some (.int ix), e) :: errs)
  | _, _ => ([], [])
termination_by ts _ => (n, sizeOf ts, 0)
def stLDFieldsT (w : World) (cfg : Cfg) (n : Nat) : List Field → List Obj → Except Err (List (String × Obj))
  | [], _ => .ok []
  | f :: fds, [] =>
      match f.dflt.value? with
      | Option.none => .error .leaf
      | some d => (stLDFieldsT w cfg n fds []).map ((f.name, d) :: ·)
  | f :: fds, x :: xs =>
      if !f.init then
        match f.dflt.value? with
        | Option.none => .error .leaf
        | some d => (stLDFieldsT w cfg n fds xs).map ((f.name, d) :: ·)
      else
        match (match f.ty with | Option.none => Except.ok x | some t => stLD w cfg n t x) with
        | .error e => .error e
        | .ok y => (stLDFieldsT w cfg n fds xs).map ((f.name, y) :: ·)
termination_by fds _ => (n + 1, 0, fds.length)
end

mutual
def stD (w : World) (cfg : Cfg) : Ty → Obj → Res
  | .any, x => .ok x
  | .int, x => match x.toInt? with | some i => .ok (.int i) | Option.none => .error .leaf
  | .float, x => match x.toFlt? with | some i => .ok (.flt i) | Option.none => .error .leaf
  | .str, x => .ok (.str (pyStr x))
  | .bytes, x => match x.toBytes? with | some i => .ok (.bytes i) | Option.none => .error .leaf
  | .bool, x => .ok (.bool x.truthy)
  | .enum e, x => match enumOf w e x with | some v => .ok v | Option.none => .error .leaf
  | .lit vs, x => match litStruct w vs x with | some v => .ok v | Option.none => .error .leaf
  | .coll k t, o =>
      match h : iterItems o with
      | Option.none => stLD w cfg (leafFuel w) (.coll k t) o
      | some xs =>
        if t.isAny then
          match finishColl w k.structTo xs with
          | some r => .ok r
          | Option.none => .error .leaf
        else
          let (ys, errs) := stDL w cfg t k.structTo.isSet 0 xs
          if !errs.isEmpty then .error (.ive errs)
          else .ok (mkColl k.structTo ys)
  | .tupleHet ts, o =>
      match h : iterItems o with
      | Option.none => stLD w cfg (leafFuel w) (.tupleHet ts) o
      | some xs =>
        let (ys, errs) := stDT w cfg 0 ts xs
        let errs := if xs.length != ts.length then errs ++ [(Option.none, Err.leaf)] else errs
        if !errs.isEmpty then .error (.ive errs) else .ok (.coll .tuple ys)
  | .map k kt vt, .dict kvs =>
      let (r, errs) := stDKV w cfg kt vt kvs
      if !errs.isEmpty then .error (.ive errs) else .ok (mapRes cfg k (mkDict r))
  | .opt _, .none => .ok .none
  | .opt t, x => stD w cfg t x
  | .wrap _ t, x => stD w cfg t x
  | .cls c, .dict kvs =>
      if cfg.tupleStrat then
        match stDFieldsT w cfg (w.fields c) (keysOf kvs) with
        | .ok fs => .ok (.inst c fs)
        | .error e => .error e
      else if cfg.gen then
        let (fs, errs) := stDFields w cfg (w.fields c) kvs
        let ex := extraKeys (fieldNames (initFields (w.fields c))) kvs
        let errs := if cfg.forbid && !ex.isEmpty then errs ++ [(Option.none, Err.extra ex)] else errs
        if !errs.isEmpty then .error (.cve errs) else .ok (.inst c fs)
      else
        match stDFieldsI w cfg (w.fields c) kvs with
        | .ok fs => .ok (.inst c fs)
        | .error e => .error e
  | .cls c, o =>
      if cfg.tupleStrat then
        match h : iterItems o with
        | Option.none => stLD w cfg (leafFuel w) (.cls c) o
        | some xs =>
          match stDFieldsT w cfg (w.fields c) xs with
          | .ok fs => .ok (.inst c fs)
          | .error e => .error e
      else if cfg.gen then nonMappingClsGenD w cfg c o
      else match nonMappingClsInterp w c with
        | some v => .ok v
        | Option.none => .error .leaf
  | .td c, .dict kvs =>
      if !cfg.gen then .error .leaf
      else
        let (res, errs) := stDTD w cfg (w.fields c) kvs kvs
        let ex := extraKeys (fieldNames (w.fields c)) kvs
        let errs := if cfg.forbid && !ex.isEmpty then errs ++ [(Option.none, Err.extra ex)] else errs
        if !errs.isEmpty then .error (.cve errs) else .ok (.dict res)
  | .td _, _ => if cfg.gen then .error (.cve [(Option.none, .leaf)]) else .error .leaf
  | .union cs hn, o =>
      -- the union hook adds no group of its own: the decision function's exception is a bare one, the
      -- chosen class's error tree propagates unchanged
      match unionPick w cs hn o with
      | .ok m => if h : m ∈ cs then stD w cfg (.cls m) o else .error .leaf
      | .none => .ok .none
      | _ => .error .leaf
  | .nt c, o =>
      -- the heterogeneous-tuple hook's group (index notes, one un-indexed leaf for a wrong arity), then `cl(*res)`
      match h : iterItems o with
      | Option.none => stLD w cfg (leafFuel w) (.nt c) o
      | some xs =>
        if w.isNT c then
          let (ys, errs) := stDT w cfg 0 (w.ntTys c) xs
          let errs := if xs.length != (w.ntTys c).length then errs ++ [(Option.none, Err.leaf)] else errs
          if !errs.isEmpty then .error (.ive errs) else .ok (ntMk w c ys)
        else .error .leaf
  | _, _ => .error .leaf
termination_by t x => (sizeOf x, sizeOf t)
decreasing_by
  all_goals first
    | decreasing_tactic
    | (apply Prod.Lex.left; exact iterItems_lt h)
    | (apply Prod.Lex.left; have := sizeOf_keysOf_lt kvs; simp; omega)
    | (apply Prod.Lex.right; have := List.sizeOf_lt_of_mem h; simp at this ⊢; omega)
/-- homogeneous collection: every element is tried; failures are recorded with their index.
For sets an unhashable result is a failure of that element (`res.add` is inside the `try`). -/
def stDL (w : World) (cfg : Cfg) (t : Ty) (isSet : Bool) (ix : Nat) : List Obj → List Obj × List (Option Obj × Err)
  | [] => ([], [])
  | x :: xs =>
    let (ys, errs) := stDL w cfg t isSet (ix + 1) xs
    match stD w cfg t x with
    | .ok y => if isSet && !hashable w y then (ys, (some (.int ix), Err.leaf) :: errs) else (y :: ys, errs)
    | .error e => (ys, (some (.int ix), e) :: errs)
termination_by xs => (sizeOf xs, sizeOf t)
/-- heterogeneous tuple: `zip(types, items)` -/
def stDT (w : World) (cfg : Cfg) (ix : Nat) : List Ty → List Obj → List Obj × List (Option Obj × Err)
  | t :: ts, x :: xs =>
    let (ys, errs) := stDT w cfg (ix + 1) ts xs
    match stD w cfg t x with
    | .ok y => (y :: ys, errs)
    | .error e => (ys, (some (.int ix), e) :: errs)
  | _, _ => ([], [])
termination_by ts xs => (sizeOf xs, sizeOf ts)
/-- mapping: value first, then key (and the insertion, which needs a hashable key) -/
def stDKV (w : World) (cfg : Cfg) (kt vt : Ty) : List (Obj × Obj) → List (Obj × Obj) × List (Option Obj × Err)
  | [] => ([], [])
  | (a, b) :: rest =>
    let (r, errs) := stDKV w cfg kt vt rest
    match stD w cfg vt b with
    | .error e => (r, (some a, e) :: errs)
    | .ok b' =>
      match stD w cfg kt a with
      | .error e => (r, (some a, e) :: errs)
      | .ok a' => if hashable w a' then ((a', b') :: r, errs) else (r, (some a, Err.leaf) :: errs)
termination_by kvs => (sizeOf kvs, sizeOf kt + sizeOf vt)
/-- generated detailed class hook on a `dict` payload -/
def stDFields (w : World) (cfg : Cfg) : List Field → (kvs : List (Obj × Obj)) → List (String × Obj) × List (Option String × Err)
  | [], _ => ([], [])
  | f :: fds, kvs =>
    let (fs, errs) := stDFields w cfg fds kvs
    if !f.init then
      match f.dflt.value? with
      | Option.none => (fs, (Option.none, Err.leaf) :: errs)
      | some d => ((f.name, d) :: fs, errs)
    else
      match h : dlookup kvs f.key with
      | Option.none => match f.dflt.value? with
        | Option.none => (fs, (some f.name, Err.leaf) :: errs)
        | some d => ((f.name, d) :: fs, errs)
      | some x =>
        match (match f.ty with | Option.none => Except.ok x | some t => stD w cfg t x) with
        | .error e => (fs, (some f.name, e) :: errs)
        | .ok y => ((f.name, y) :: fs, errs)
termination_by fds kvs => (sizeOf kvs, fds.length)
decreasing_by
  all_goals first
    | decreasing_tactic
    | (apply Prod.Lex.left; exact dlookup_lt h)
/-- interpretive `structure_attrs_fromdict` under detailed validation: no class-level group,
the first failing attribute's exception propagates unchanged -/
def stDFieldsI (w : World) (cfg : Cfg) : List Field → (kvs : List (Obj × Obj)) → Except Err (List (String × Obj))
  | [], _ => .ok []
  | f :: fds, kvs =>
    if !f.init then
      match f.dflt.value? with
      | Option.none => .error .leaf
      | some d => (stDFieldsI w cfg fds kvs).map ((f.name, d) :: ·)
    else
      match h : dlookup kvs f.key with
      | Option.none => match f.dflt.value? with
        | Option.none => (stDFieldsI w cfg fds kvs).bind (fun _ => .error .leaf)
        | some d => (stDFieldsI w cfg fds kvs).map ((f.name, d) :: ·)
      | some x =>
        match (match f.ty with | Option.none => Except.ok x | some t => stD w cfg t x) with
        | .error e => .error e
        | .ok y => (stDFieldsI w cfg fds kvs).map ((f.name, y) :: ·)
termination_by fds kvs => (sizeOf kvs, fds.length)
decreasing_by
  all_goals first
    | decreasing_tactic
    | (apply Prod.Lex.left; exact dlookup_lt h)
/-- tuple strategy under detailed validation (interpretive, first error propagates) -/
def stDFieldsT (w : World) (cfg : Cfg) : List Field → List Obj → Except Err (List (String × Obj))
  | [], _ => .ok []
  | f :: fds, [] =>
      match f.dflt.value? with
      | Option.none => .error .leaf
      | some d => (stDFieldsT w cfg fds []).map ((f.name, d) :: ·)
  | f :: fds, x :: xs =>
      if !f.init then
        match f.dflt.value? with
        | Option.none => .error .leaf
        | some d => (stDFieldsT w cfg fds xs).map ((f.name, d) :: ·)
      else
        match (match f.ty with | Option.none => Except.ok x | some t => stD w cfg t x) with
        | .error e => .error e
        | .ok y => (stDFieldsT w cfg fds xs).map ((f.name, y) :: ·)
termination_by fds xs => (sizeOf xs, fds.length)
/-- TypedDict, detailed -/
def stDTD (w : World) (cfg : Cfg) : List Field → (kvs : List (Obj × Obj)) → List (Obj × Obj) → List (Obj × Obj) × List (Option String × Err)
  | [], _, res => (res, [])
  | f :: fds, kvs, res =>
      match h : dlookup kvs f.key with
      | Option.none =>
        let (r, errs) := stDTD w cfg fds kvs res
        if f.required then (r, (some f.name, Err.leaf) :: errs) else (r, errs)
      | some x =>
        match (match f.ty with | Option.none => Except.ok x | some t => stD w cfg t x) with
        | .error e =>
          let (r, errs) := stDTD w cfg fds kvs res
          (r, (some f.name, e) :: errs)
        | .ok y => stDTD w cfg fds kvs (dictSet res f.key y)
termination_by fds kvs _ => (sizeOf kvs, fds.length)
decreasing_by
  all_goals first
    | decreasing_tactic
    | (apply Prod.Lex.left; exact dlookup_lt h)
end

/-- The configuration with the validation-mode flag erased: the flag only *selects the template*. -/
def Cfg.core (cfg : Cfg) : Cfg := { cfg with detailed := false }

/-- `converter.structure(o, T)`: accepted value, or `none` when the call raises. -/
def convStructure (w : World) (cfg : Cfg) (t : Ty) (o : Obj) : Option Obj :=
  if cfg.detailed then Res.toOption (stD w cfg.core t o) else stF w cfg.core t o

/-- `converter.unstructure(x, unstructure_as=T)` -/
def convUnstructure (w : World) (cfg : Cfg) (t : Ty) (x : Obj) : Obj := un w cfg.core t x

end CattrsModel
