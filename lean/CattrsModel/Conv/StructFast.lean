import CattrsModel.Conv.Unstructure
import CattrsModel.Conv.Union
/-!
# Structuring, `detailed_validation=False`

`stF w cfg T o = none` means the call raises (which exception is not part of any property);
`some v` is the returned value.  Field processing is order-normalised to declaration order:
with "first error wins" and indistinguishable errors the order is unobservable.
-/
namespace CattrsModel

/-- build the result container; sets need hashable elements -/
def finishColl (w : World) (ck : CK) (ys : List Obj) : Option Obj :=
  if ck.isSet then (if hashableL w ys then some (.coll ck (mkSet ys)) else Option.none)
  else some (.coll ck ys)

def initFields (fds : List Field) : List Field := fds.filter (·.init)

/-- generated class hook, payload is not a `dict`: every test `'k' in o` must answer `False` -/
def nonMappingClsGen (w : World) (cfg : Cfg) (c : Nat) (o : Obj) : Option Obj :=
  if cfg.forbid then Option.none
  else if (initFields (w.fields c)).all (fun f => f.dflt.value?.isSome && pyContains o f.name == some false) then
    (defaultsOf (w.fields c)).map (.inst c)
  else Option.none

/-- interpretive `structure_attrs_fromdict`, payload is not a `dict`: `obj[name]` raises -/
def nonMappingClsInterp (w : World) (c : Nat) : Option Obj :=
  if (initFields (w.fields c)).isEmpty then (defaultsOf (w.fields c)).map (.inst c) else Option.none

/-! ### `str` / `bytes` payloads at iterating positions

A collection / heterogeneous-tuple / NamedTuple / tuple-strategy class position structures ANY iterable: a `str`
iterates into 1-character strings, `bytes` into ints.  The items are not sub-terms of the payload, so they are
structured by this family: the same templates, iteration by `leafItems`, recursion bounded by the type and -- through
classes, whose field types come from the class table -- by a fuel. -/

mutual
def stLF (w : World) (cfg : Cfg) : Nat → Ty → Obj → Option Obj
  | _, .any, x => some x
  | _, .int, x => x.toInt?.map .int
  | _, .float, x => x.toFlt?.map .flt
  | _, .str, x => some (.str (pyStr x))
  | _, .bytes, x => x.toBytes?.map .bytes
  | _, .bool, x => some (.bool x.truthy)
  | _, .enum e, x => enumOf w e x
  | _, .lit vs, x => litStruct w vs x
  | n, .coll k t, o =>
      match leafItems o with
      | Option.none => Option.none
      | some xs => match stLFL w cfg n t xs with
        | Option.none => Option.none
        | some ys => finishColl w k.structTo ys
  | n, .tupleHet ts, o =>
      match leafItems o with
      | Option.none => Option.none
      | some xs => (stLFT w cfg n ts xs).map (.coll .tuple)
  | _, .opt _, .none => some .none
  | n, .opt t, x => stLF w cfg n t x
  | n, .wrap _ t, x => stLF w cfg n t x
  | n, .cls c, o =>
      if cfg.tupleStrat then
        match n with
        | 0 => Option.none                                   -- fuel exhausted: `RecursionError`
        | n' + 1 =>
          match leafItems o with
          | Option.none => Option.none
          | some xs => (stLFFieldsT w cfg n' (w.fields c) xs).map (.inst c)
      else if cfg.gen then nonMappingClsGen w cfg c o
      else nonMappingClsInterp w c
  | n, .union cs hn, o =>
      match unionPick w cs hn o with
      | .ok m => if h : m ∈ cs then stLF w cfg n (.cls m) o else Option.none
      | .none => some .none
      | _ => Option.none
  | n, .nt c, o =>
      match n with
      | 0 => Option.none
      | n' + 1 =>
        match leafItems o with
        | Option.none => Option.none
        | some xs => if w.isNT c then (stLFT w cfg n' (w.ntTys c) xs).map (ntMk w c) else Option.none
  | _, _, _ => Option.none
termination_by n t _ => (n, sizeOf t, 0)
decreasing_by
  all_goals first
    | decreasing_tactic
    | (apply Prod.Lex.right; apply Prod.Lex.left; have := List.sizeOf_lt_of_mem h; simp at this ⊢; omega)
def stLFL (w : World) (cfg : Cfg) (n : Nat) (t : Ty) : List Obj → Option (List Obj)
  | [] => some []
  | x :: xs => match stLF w cfg n t x with
    | Option.none => Option.none
    | some y => (stLFL w cfg n t xs).map (y :: ·)
termination_by xs => (n, sizeOf t, xs.length + 1)
def stLFT (w : World) (cfg : Cfg) (n : Nat) : List Ty → List Obj → Option (List Obj)
  | [], [] => some []
  | t :: ts, x :: xs => match stLF w cfg n t x with
    | Option.none => Option.none
    | some y => (stLFT w cfg n ts xs).map (y :: ·)
  | _, _ => Option.none
termination_by ts _ => (n, sizeOf ts, 0)
def stLFFieldsT (w : World) (cfg : Cfg) (n : Nat) : List Field → List Obj → Option (List (String × Obj))
  | [], _ => some []
  | f :: fds, [] =>
      match f.dflt.value? with
      | Option.none => Option.none
      | some d => (stLFFieldsT w cfg n fds []).map ((f.name, d) :: ·)
  | f :: fds, x :: xs =>
      if !f.init then
        match f.dflt.value? with
        | Option.none => Option.none
        | some d => (stLFFieldsT w cfg n fds xs).map ((f.name, d) :: ·)
      else
        match (match f.ty with | Option.none => some x | some t => stLF w cfg n t x) with
        | Option.none => Option.none
        | some y => (stLFFieldsT w cfg n fds xs).map ((f.name, y) :: ·)
termination_by fds _ => (n + 1, 0, fds.length)
end

mutual
def stF (w : World) (cfg : Cfg) : Ty → Obj → Option Obj
  | .any, x => some x
  | .int, x => x.toInt?.map .int
  | .float, x => x.toFlt?.map .flt
  | .str, x => some (.str (pyStr x))
  | .bytes, x => x.toBytes?.map .bytes
  | .bool, x => some (.bool x.truthy)
  | .enum e, x => enumOf w e x
  | .lit vs, x => litStruct w vs x
  | .coll k t, o =>
      match h : iterItems o with
      | Option.none => stLF w cfg (leafFuel w) (.coll k t) o       -- a `str` / `bytes` payload (else not iterable)
      | some xs => match stFL w cfg t xs with
        | Option.none => Option.none
        | some ys => finishColl w k.structTo ys
  | .tupleHet ts, o =>
      match h : iterItems o with
      | Option.none => stLF w cfg (leafFuel w) (.tupleHet ts) o
      | some xs => (stFT w cfg ts xs).map (.coll .tuple)
  | .map k kt vt, .dict kvs =>
      match stFKV w cfg kt vt kvs with
      | Option.none => Option.none
      | some r => if hashableL w (keysOf r) then some (mapRes cfg k (mkDict r)) else Option.none
  | .opt _, .none => some .none
  | .opt t, x => stF w cfg t x
  | .wrap _ t, x => stF w cfg t x
  | .cls c, .dict kvs =>
      if cfg.tupleStrat then (stFFieldsT w cfg (w.fields c) (keysOf kvs)).map (.inst c)
      else match stFFields w cfg (w.fields c) kvs with
        | Option.none => Option.none
        | some fs =>
          if cfg.gen && cfg.forbid && !(extraKeys (fieldNames (initFields (w.fields c))) kvs).isEmpty then Option.none
          else some (.inst c fs)
  | .cls c, o =>
      if cfg.tupleStrat then
        match h : iterItems o with
        | Option.none => stLF w cfg (leafFuel w) (.cls c) o
        | some xs => (stFFieldsT w cfg (w.fields c) xs).map (.inst c)
      else if cfg.gen then nonMappingClsGen w cfg c o
      else nonMappingClsInterp w c
  | .td c, .dict kvs =>
      if !cfg.gen then Option.none
      else match stFTD w cfg (w.fields c) kvs kvs with
        | Option.none => Option.none
        | some res =>
          if cfg.forbid && !(extraKeys (fieldNames (w.fields c)) kvs).isEmpty then Option.none
          else some (.dict res)
  | .union cs hn, o =>
      -- `structure_attrs_union`: `self.structure(obj, dis_fn(obj))`; a refused creation or resolution raises
      match unionPick w cs hn o with
      | .ok m => if h : m ∈ cs then stF w cfg (.cls m) o else Option.none
      | .none => some .none
      | _ => Option.none
  | .nt c, o =>
      -- `namedtuple_structure_factory` (both converter classes): `cl(*structure(o, tuple[T1, ..., Tn]))`
      match h : iterItems o with
      | Option.none => stLF w cfg (leafFuel w) (.nt c) o
      | some xs => if w.isNT c then (stFT w cfg (w.ntTys c) xs).map (ntMk w c) else Option.none
  | _, _ => Option.none
termination_by t x => (sizeOf x, sizeOf t)
decreasing_by
  all_goals first
    | decreasing_tactic
    | (apply Prod.Lex.left; exact iterItems_lt h)
    | (apply Prod.Lex.left; have := sizeOf_keysOf_lt kvs; simp; omega)
    | (apply Prod.Lex.right; have := List.sizeOf_lt_of_mem h; simp at this ⊢; omega)
def stFL (w : World) (cfg : Cfg) (t : Ty) : List Obj → Option (List Obj)
  | [] => some []
  | x :: xs => match stF w cfg t x with
    | Option.none => Option.none
    | some y => (stFL w cfg t xs).map (y :: ·)
termination_by xs => (sizeOf xs, sizeOf t)
/-- heterogeneous tuple: exact arity -/
def stFT (w : World) (cfg : Cfg) : List Ty → List Obj → Option (List Obj)
  | [], [] => some []
  | t :: ts, x :: xs => match stF w cfg t x with
    | Option.none => Option.none
    | some y => (stFT w cfg ts xs).map (y :: ·)
  | _, _ => Option.none
termination_by ts xs => (sizeOf xs, sizeOf ts)
def stFKV (w : World) (cfg : Cfg) (kt vt : Ty) : List (Obj × Obj) → Option (List (Obj × Obj))
  | [] => some []
  | (a, b) :: rest => match stF w cfg kt a, stF w cfg vt b with
    | some a', some b' => (stFKV w cfg kt vt rest).map ((a', b') :: ·)
    | _, _ => Option.none
termination_by kvs => (sizeOf kvs, sizeOf kt + sizeOf vt)
/-- class fields read by key from a `dict` payload (generated and interpretive hooks agree here) -/
def stFFields (w : World) (cfg : Cfg) : List Field → (kvs : List (Obj × Obj)) → Option (List (String × Obj))
  | [], _ => some []
  | f :: fds, kvs =>
    if !f.init then
      match f.dflt.value? with
      | Option.none => Option.none
      | some d => (stFFields w cfg fds kvs).map ((f.name, d) :: ·)
    else
      match h : dlookup kvs f.key with
      | Option.none => match f.dflt.value? with
        | Option.none => Option.none
        | some d => (stFFields w cfg fds kvs).map ((f.name, d) :: ·)
      | some x =>
        match (match f.ty with | Option.none => some x | some t => stF w cfg t x) with
        | Option.none => Option.none
        | some y => (stFFields w cfg fds kvs).map ((f.name, y) :: ·)
termination_by fds kvs => (sizeOf kvs, fds.length)
decreasing_by
  all_goals first
    | decreasing_tactic
    | (apply Prod.Lex.left; exact dlookup_lt h)
/-- tuple strategy (`structure_attrs_fromtuple`): fields are zipped with the items -/
def stFFieldsT (w : World) (cfg : Cfg) : List Field → List Obj → Option (List (String × Obj))
  | [], _ => some []
  | f :: fds, [] =>
      match f.dflt.value? with
      | Option.none => Option.none
      | some d => (stFFieldsT w cfg fds []).map ((f.name, d) :: ·)
  | f :: fds, x :: xs =>
      if !f.init then
        match f.dflt.value? with
        | Option.none => Option.none
        | some d => (stFFieldsT w cfg fds xs).map ((f.name, d) :: ·)
      else
        match (match f.ty with | Option.none => some x | some t => stF w cfg t x) with
        | Option.none => Option.none
        | some y => (stFFieldsT w cfg fds xs).map ((f.name, y) :: ·)
termination_by fds xs => (sizeOf xs, fds.length)
/-- TypedDict: start from a copy of the payload, replace the declared keys' values -/
def stFTD (w : World) (cfg : Cfg) : List Field → (kvs : List (Obj × Obj)) → List (Obj × Obj) → Option (List (Obj × Obj))
  | [], _, res => some res
  | f :: fds, kvs, res =>
      match h : dlookup kvs f.key with
      | Option.none => if f.required then Option.none else stFTD w cfg fds kvs res
      | some x =>
        match (match f.ty with | Option.none => some x | some t => stF w cfg t x) with
        | Option.none => Option.none
        | some y => stFTD w cfg fds kvs (dictSet res f.key y)
termination_by fds kvs _ => (sizeOf kvs, fds.length)
decreasing_by
  all_goals first
    | decreasing_tactic
    | (apply Prod.Lex.left; exact dlookup_lt h)
end

end CattrsModel
