import CattrsModel.Core.Ty
import CattrsModel.Disambig.Model
/-!
# Class unions in the data path: the bridge to the disambiguator model

`Ty.union cs hasNone` is `Union[K…]` / `Union[K…, None]` of attrs classes / dataclasses of the class table.
Structuring (`converters.py: _gen_attrs_union_structure`) asks `create_default_dis_func` for a decision
function and structures the payload as the class it names.  The decision function has its own complete model
(`Disambig/Model.lean`, property C12); this file builds its inputs from the data-path universe:

* `World.table`   — the class signatures the disambiguator sees (`adapted_fields` / `fields_dict`): attribute
                    name, key (= name: the data path has no renames), "has no default", literal values;
* `litCode`       — literal values are compared by Python `==`/hash (`final_mapping[data[d]]`); the disambiguator
                    model works with natural-number codes, so a value is coded by the position of the first
                    `==`-equal value among all literal values of the class table (`World.litPool`), values equal
                    to none of them get one further code;
* `disPayload`    — what the decision function can see of a `dict` payload: its string keys and the codes of
                    the values under them;
* `unionPick`     — the outcome for an arbitrary payload.

Python's `set` iteration order inside `create_default_dis_func` is fixed to `SetOrder.id` here; by
`C12_order` the outcome does not depend on it.
-/
namespace CattrsModel

/-- all values of `Literal[...]`-typed attributes of the class table -/
def World.litPool (w : World) : List Obj :=
  w.classes.flatMap (fun c => c.fields.flatMap (fun f => match f.ty with | some (.lit vs) => vs | _ => []))

/-- code of a value: index of the first `==`-equal pool value (`pool.length` when there is none) -/
def litCode : List Obj → Obj → Nat
  | [], _ => 0
  | u :: pool, v => if Obj.pyEq u v then 0 else litCode pool v + 1

/-- the signature of one attribute as `create_default_dis_func` reads it: `is_literal(at.type)` looks at the
annotation itself (a `Literal` under `Final`/`Annotated`/NewType/alias does not count); "no default" is
`default is NOTHING` (attrs) resp. neither `default` nor `default_factory` (dataclasses) -/
def sigField (pool : List Obj) (f : Field) : Disambig.Field :=
  { name := f.name, key := f.name, dreq := f.dflt.value?.isNone,
    lit := match f.ty with | some (.lit vs) => some (vs.map (litCode pool)) | _ => Option.none }

def sigOf (pool : List Obj) (c : Cls) : Disambig.CSig := ⟨c.fields.map (sigField pool)⟩

/-- **the bridge**: the class table as the disambiguator sees it (same indices) -/
def World.table (w : World) : Disambig.Table := w.classes.map (sigOf w.litPool)

/-- string keys of a dict payload with the codes of their values (first occurrence first, as `data[k]`) -/
def disPayload (pool : List Obj) : List (Obj × Obj) → Disambig.Payload
  | [] => []
  | (.str k, v) :: rest => (k, litCode pool v) :: disPayload pool rest
  | _ :: rest => disPayload pool rest

/-- `is_supported_union`: every member is an attrs class or a dataclass -/
def unionMembersOk (w : World) (cs : List Nat) : Bool :=
  cs.all (fun c => match w.cls? c with | some k => k.kind != .typeddict && k.kind != .namedtuple | Option.none => false)

/-- `structure(o, Union[cs…(, None)])` as far as the choice of the member goes. -/
def unionPick (w : World) (cs : List Nat) (hasNone : Bool) (o : Obj) : Disambig.Outcome :=
  if !unionMembersOk w cs then .refuseCreate
  else match o with
    | .none => Disambig.unionStructure Disambig.SetOrder.id w.table hasNone cs Option.none
    | .dict kvs => Disambig.unionStructure Disambig.SetOrder.id w.table hasNone cs (some (disPayload w.litPool kvs))
    | _ =>
      -- `isinstance(data, Mapping)` fails inside the decision function; `Optional[K]` has none
      match hasNone, cs with
      | true, [m] => .ok m
      | _, _ => if Disambig.createOk Disambig.SetOrder.id w.table cs then .refuseResolve else .refuseCreate

end CattrsModel
