import CattrsModel.Core.Wire
import CattrsModel.Conv.Encoding
import CattrsModel.Lemmas.RoundTripInterp
/-!
# Line-protocol operations of the data-path model (driver only)
-/
namespace CattrsModel
open Sexp

/-! ### payloads on which the outcome of a union hook depends on Python's `set` iteration order

`create_default_dis_func` pins each class to ONE of its unique required keys, whichever the iteration of a `set`
yields first (hash-seed dependent).  For the unstructured form of a member instance this makes no difference
(`C12_order`); for an arbitrary (mutated) payload that holds some but not all of a class's candidate keys it does.
The model fixes one enumeration, so such payloads are answered `unmodelled`. -/

/-- per pinned class: the keys it can be pinned to (required, unique among the classes not yet pinned) -/
partial def pinCands (t : Disambig.Table) (rem : List Nat) : List (Nat × List String) :=
  let p := rem.filterMap (fun c =>
    let ks := (Disambig.uniqKeys t rem c).filter (fun k => (t.cls c).keyIsReq k)
    if ks.isEmpty then Option.none else some (c, ks))
  if p.isEmpty then [] else p ++ pinCands t (rem.filter (fun c => !(p.map (·.1)).contains c))

partial def orderSensitive (t : Disambig.Table) (ms : List Nat) (p : Disambig.Payload) : Bool :=
  if ms.length < 2 then false else
  match Disambig.litSelect Disambig.sortStr t ms with
  | some d =>
    match p.lookup d with
    | Option.none => false
    | some v =>
      match Disambig.bucket t ms d v with
      | m :: m' :: rest => orderSensitive t (m :: m' :: rest) p
      | _ => false
  | Option.none =>
    let keys := Disambig.pkeys p
    (pinCands t (Disambig.sortDesc t ms)).any (fun ck => ck.2.any keys.contains && !ck.2.all keys.contains)

/-- `str` / `bytes` payload at an iterating position: does the traversal of `stLF` run out of fuel (a class met again
with the same 1-character string: the real code recurses until `RecursionError`, which the detailed templates wrap
hundreds of levels deep)?  Over-approximation; such cases are answered `unmodelled`. -/
partial def leafOut (w : World) (cfg : Cfg) : Nat → Ty → Obj → Bool
  | n, .coll _ t, o =>
      match leafItems o with
      | Option.none => false
      | some xs => xs.any (leafOut w cfg n t)
  | n, .tupleHet ts, o =>
      match leafItems o with
      | Option.none => false
      | some xs => (ts.zip xs).any (fun (t, x) => leafOut w cfg n t x)
  | n, .opt t, o => leafOut w cfg n t o
  | n, .wrap _ t, o => leafOut w cfg n t o
  | n, .cls c, o =>
      if cfg.tupleStrat then
        match n, leafItems o with
        | _, Option.none => false
        | 0, some _ => true
        | n' + 1, some xs => ((w.fields c).zip xs).any (fun (f, x) => match f.ty with
            | some t => leafOut w cfg n' t x
            | Option.none => false)
      else false
  | n, .union cs hn, o =>
      (match unionPick w cs hn o with
       | .ok m => leafOut w cfg n (.cls m) o
       | _ => false)
  | n, .nt c, o =>
      match n, leafItems o with
      | _, Option.none => false
      | 0, some _ => true
      | n' + 1, some xs => ((w.ntTys c).zip xs).any (fun (t, x) => leafOut w cfg n' t x)
  | _, _, _ => false

/-- Is the call outside the modelled fragment? (over-approximation; such cases are answered
`unmodelled` and excluded from the comparison) -/
partial def unmodelledSTcore (w : World) (cfg : Cfg) : Ty → Obj → Bool
  | .coll k t, o =>
      match o with
      | .str _ | .bytes _ => leafOut w cfg (leafFuel w) (.coll k t) o
      | .coll _ xs => xs.any (unmodelledSTcore w cfg t)
      | .dict kvs => kvs.any (fun kv => unmodelledSTcore w cfg t kv.1)
      | _ => false
  | .tupleHet ts, o =>
      match o with
      | .str _ | .bytes _ => leafOut w cfg (leafFuel w) (.tupleHet ts) o
      | .coll _ xs => (ts.zip xs).any (fun (t, x) => unmodelledSTcore w cfg t x)
      | .dict kvs => (ts.zip kvs).any (fun (t, kv) => unmodelledSTcore w cfg t kv.1)
      | _ => false
  | .nt c, o =>
      match o with
      | .str _ | .bytes _ => leafOut w cfg (leafFuel w) (.nt c) o
      | _ => unmodelledSTcore w cfg (.tupleHet (w.ntTys c)) o
  | .map _ kt vt, o =>
      match o with
      | .dict kvs => kvs.any (fun kv => unmodelledSTcore w cfg kt kv.1 || unmodelledSTcore w cfg vt kv.2)
      | _ => false
  | .opt t, o => unmodelledSTcore w cfg t o
  | .wrap _ t, o => unmodelledSTcore w cfg t o
  | .cls c, o =>
      if cfg.tupleStrat then
        match o with
        | .str _ | .bytes _ => leafOut w cfg (leafFuel w) (.cls c) o
        | .coll _ xs => ((w.fields c).zip xs).any (fun (f, x) => match f.ty with | some t => unmodelledSTcore w cfg t x | Option.none => false)
        | .dict kvs => ((w.fields c).zip kvs).any (fun (f, kv) => match f.ty with | some t => unmodelledSTcore w cfg t kv.1 | Option.none => false)
        | _ => false
      else match o with
        | .dict kvs => (w.fields c).any (fun f => match f.ty, dlookup kvs f.key with
            | some t, some v => unmodelledSTcore w cfg t v
            | _, _ => false)
        | _ => false
  | .td c, o =>
      !cfg.gen || (match o with
        | .dict kvs => (w.fields c).any (fun f => match f.ty, dlookup kvs f.key with
            | some t, some v => unmodelledSTcore w cfg t v
            | _, _ => false)
        | _ => false)
  | .union cs hn, o =>
      (match o with
       | .dict kvs => orderSensitive w.table cs (disPayload w.litPool kvs)
       | _ => false) ||
      match unionPick w cs hn o with
      | .ok m => unmodelledSTcore w cfg (.cls m) o
      | _ => false
  | _, _ => false


/-- diagnostic (driver only): which clauses of `unmodelledST` fire -/
partial def whyCore (w : World) (cfg : Cfg) : Ty → Obj → List String
  | .coll k t, o =>
      match o with
      | .str _ | .bytes _ => if leafOut w cfg (leafFuel w) (.coll k t) o then ["leaf-fuel"] else []
      | .coll _ xs => xs.flatMap (whyCore w cfg t)
      | .dict kvs => kvs.flatMap (fun kv => whyCore w cfg t kv.1)
      | _ => []
  | .tupleHet ts, o =>
      match o with
      | .str _ | .bytes _ => if leafOut w cfg (leafFuel w) (.tupleHet ts) o then ["leaf-fuel"] else []
      | .coll _ xs => (ts.zip xs).flatMap (fun (t, x) => whyCore w cfg t x)
      | .dict kvs => (ts.zip kvs).flatMap (fun (t, kv) => whyCore w cfg t kv.1)
      | _ => []
  | .nt c, o =>
      match o with
      | .str _ | .bytes _ => if leafOut w cfg (leafFuel w) (.nt c) o then ["leaf-fuel"] else []
      | _ => whyCore w cfg (.tupleHet (w.ntTys c)) o
  | .map _ kt vt, o =>
      match o with
      | .dict kvs => kvs.flatMap (fun kv => whyCore w cfg kt kv.1 ++ whyCore w cfg vt kv.2)
      | _ => []
  | .opt t, o => whyCore w cfg t o
  | .wrap _ t, o => whyCore w cfg t o
  | .cls c, o =>
      if cfg.tupleStrat then
        match o with
        | .str _ | .bytes _ => if leafOut w cfg (leafFuel w) (.cls c) o then ["leaf-fuel"] else []
        | .coll _ xs => ((w.fields c).zip xs).flatMap (fun (f, x) => match f.ty with | some t => whyCore w cfg t x | Option.none => [])
        | .dict kvs => ((w.fields c).zip kvs).flatMap (fun (f, kv) => match f.ty with | some t => whyCore w cfg t kv.1 | Option.none => [])
        | _ => []
      else match o with
        | .dict kvs => (w.fields c).flatMap (fun f => match f.ty, dlookup kvs f.key with
            | some t, some v => whyCore w cfg t v
            | _, _ => [])
        | _ => []
  | .td c, o =>
      (if !cfg.gen then ["td-nogen"] else []) ++ (match o with
        | .dict kvs => (w.fields c).flatMap (fun f => match f.ty, dlookup kvs f.key with
            | some t, some v => whyCore w cfg t v
            | _, _ => [])
        | _ => [])
  | .union cs hn, o =>
      (match o with
       | .dict kvs => if orderSensitive w.table cs (disPayload w.litPool kvs) then ["order-sensitive"] else []
       | _ => []) ++
      match unionPick w cs hn o with
      | .ok m => whyCore w cfg (.cls m) o
      | _ => []
  | _, _ => []

/-! ### hook creation

The data-path model decides a refused creation of a union hook where the union position is *reached* by the payload.
The real hook factories create the hooks of component types eagerly (a `list[Union[A, B]]` hook cannot be created
when the union's cannot, whatever the payload), so a refused union that is merely *reachable* from the type makes the
call fail before any payload is looked at.  The driver answers such cases itself when the refused union is the
type at hand, and `unmodelled` when it is nested. -/

partial def tyUnions : Ty → List (List Nat)
  | .union cs _ => [cs]
  | .coll _ t => tyUnions t
  | .opt t => tyUnions t
  | .wrap _ t => tyUnions t
  | .tupleHet ts => ts.flatMap tyUnions
  | .map _ k v => tyUnions k ++ tyUnions v
  | _ => []

/-- `create_default_dis_func` raises (or the union is not a supported one) -/
def unionRefused (w : World) (cs : List Nat) : Bool :=
  !(unionMembersOk w cs && Disambig.createOk Disambig.SetOrder.id w.table cs)

/-- the type itself and the field types of every class reachable from it -/
def reachTypes (w : World) (ty : Ty) : List Ty :=
  ty :: (w.reach w.classes.length ty.refs ty.refs).flatMap (fun c => (w.fields c).filterMap (·.ty))

def refusedReach (w : World) (ty : Ty) : Bool :=
  (reachTypes w ty).any (fun t => (tyUnions t).any (unionRefused w))

def topRefused (w : World) : Ty → Bool
  | .union cs _ => unionRefused w cs
  | _ => false

/-- does the payload contain an instance of a NamedTuple class?  Such an object IS a tuple for the structuring
code (iterable, sized, `==` to the plain tuple); the model's payloads hold plain tuples instead. -/
partial def hasNTInst (w : World) : Obj → Bool
  | .inst c fs => w.isNT c || fs.any (fun p => hasNTInst w p.2)
  | .coll _ xs => xs.any (hasNTInst w)
  | .dict kvs => kvs.any (fun p => hasNTInst w p.1 || hasNTInst w p.2)
  | _ => false

/-- does the PAYLOAD contain an instance of a dict subclass (`OrderedDict` / `defaultdict` / `Counter`)?  The structuring
model reads mappings out of plain `dict` payloads only (what a `Converter` unstructures to). -/
partial def hasMDict : Obj → Bool
  | .mdict _ _ => true
  | .inst _ fs => fs.any (fun p => hasMDict p.2)
  | .coll _ xs => xs.any hasMDict
  | .dict kvs => kvs.any (fun p => hasMDict p.1 || hasMDict p.2)
  | _ => false

/-- Is the call outside the modelled fragment?  (payload shapes the model does not cover, or a refused union
hook that is only reachable, not reached) -/
def unmodelledST (w : World) (cfg : Cfg) (ty : Ty) (o : Obj) : Bool :=
  refusedReach w ty || unmodelledSTcore w cfg ty o || hasNTInst w o || hasMDict o

def hasMark (s : String) : Bool := (s.splitOn "\\uffff").length > 1

def replyObj (o : Obj) : Sexp :=
  let s := sexpOfObj o
  if hasMark s.toString then .atom "unmodelled" else .list [.atom "ok", s]

def convHandle (w : World) (op : String) (args : List Sexp) : Option Sexp :=
  match op, args with
  | "UN", [cfg, ty, o] => do
      let cfg ← cfgOfSexp cfg; let ty ← tyOfSexp ty; let o ← objOfSexp o
      if !conf w ty o then some (.atom "unmodelled") else some (replyObj (convUnstructure w cfg ty o))
  | "ST", [cfg, ty, o] => do
      let cfg ← cfgOfSexp cfg; let ty ← tyOfSexp ty; let o ← objOfSexp o
      if topRefused w ty then
        some (if cfg.detailed then .list [.atom "err", sexpOfErr .leaf] else .list [.atom "err"])
      else if unmodelledSTcore w cfg ty o || hasNTInst w o || hasMDict o then some (.atom "unmodelled")
      else if refusedReach w ty then
        -- a refused union nested in the type: if the payload reaches it (the model raises) the call fails whether the
        -- hook is created eagerly or lazily; if not, it depends on the factory (eager: raises; lazy: fine) -- not modelled
        match stF w cfg.core ty o with
        | Option.none => some (if cfg.detailed then .list [.atom "err", sexpOfErr .leaf] else .list [.atom "err"])
        | some _ => some (.atom "unmodelled")
      else if cfg.detailed then
        match stD w cfg.core ty o with
        | .ok v => some (replyObj v)
        | .error e => some (.list [.atom "err", sexpOfErr e])
      else
        match stF w cfg.core ty o with
        | some v => some (replyObj v)
        | Option.none => some (.list [.atom "err"])
  | "C03SCOPE", [cfg, ty, o] => do
      -- hypotheses of the C03 theorems on this case, and the model's own primitive-only verdict
      let cfg ← cfgOfSexp cfg; let ty ← tyOfSexp ty; let o ← objOfSexp o
      some (.list [ofBool (wellTyped w ty o), ofBool (ty.supU cfg.gen && w.supUB cfg.gen && w.tdAcyclicB),
                   ofBool ((convUnstructure w cfg ty o).prim (!cfg.gen))])
  | "USCOPE", [tup, ty] => do
      -- union hypotheses of the C01 theorems (`unionsOK`) for this type and for the class table; refusal reachable?
      let tup ← bool? tup; let ty ← tyOfSexp ty
      let wok := w.classes.all (fun c => c.fields.all (fun f => match f.ty with
        | some t => t.unionsOK w tup | Option.none => true))
      some (.list [ofBool (ty.unionsOK w tup && wok), ofBool (refusedReach w ty), ofBool ty.noUnion])
  | "NTSCOPE", [ty] => do
      -- NamedTuple hypotheses of the C01 theorems for BaseConverter-unstructured data (`Ty.ntOK`, `World.ntOK`) for this
      -- type: (type and whole class table, type and the classes it reaches, no NamedTuple class reachable at all)
      let ty ← tyOfSexp ty
      let clsOK := fun (c : Cls) =>
        c.fields.all (fun f => match f.ty with | some t => t.ntOK w | Option.none => true)
        && (c.kind != .namedtuple || c.fields.all (fun f => match f.ty with | some t => t.isPrimLeaf | Option.none => false))
      let reach := w.reach w.classes.length ty.refs ty.refs
      some (.list [ofBool (ty.ntOK w && w.classes.all clsOK),
                   ofBool (ty.ntOK w && reach.all (fun c => match w.cls? c with | some k => clsOK k | Option.none => true)),
                   ofBool (reach.all (fun c => !w.isNT c))])
  | "WHY", [cfg, ty, o] => do
      let cfg ← cfgOfSexp cfg; let ty ← tyOfSexp ty; let o ← objOfSexp o
      let r := (if topRefused w ty then ["top-refused"] else []) ++ whyCore w cfg ty o
        ++ (if hasNTInst w o then ["nt-inst"] else [])
        ++ (if refusedReach w ty then ["refused-reach"] else [])
      some (.list (r.eraseDups.map Sexp.atom))
  | "CONF", [ty, o] => do
      let ty ← tyOfSexp ty; let o ← objOfSexp o
      some (ofBool (conf w ty o))
  | _, _ => Option.none

end CattrsModel
