import CattrsModel.Core.Wire
import CattrsModel.Conv.Encoding
/-!
# Line-protocol operations of the data-path model (driver only)
-/
namespace CattrsModel
open Sexp

/-- Is the call outside the modelled fragment? (over-approximation; such cases are answered
`unmodelled` and excluded from the comparison) -/
partial def unmodelledST (w : World) (cfg : Cfg) : Ty → Obj → Bool
  | .coll _ t, o =>
      match o with
      | .str _ | .bytes _ => true
      | .coll _ xs => xs.any (unmodelledST w cfg t)
      | .dict kvs => kvs.any (fun kv => unmodelledST w cfg t kv.1)
      | _ => false
  | .tupleHet ts, o =>
      match o with
      | .str _ | .bytes _ => true
      | .coll _ xs => (ts.zip xs).any (fun (t, x) => unmodelledST w cfg t x)
      | .dict kvs => (ts.zip kvs).any (fun (t, kv) => unmodelledST w cfg t kv.1)
      | _ => false
  | .map _ kt vt, o =>
      match o with
      | .dict kvs => kvs.any (fun kv => unmodelledST w cfg kt kv.1 || unmodelledST w cfg vt kv.2)
      | .coll _ _ => true          -- dict(iterable of pairs)
      | .str _ | .bytes _ => true
      | _ => false
  | .opt t, o => unmodelledST w cfg t o
  | .wrap _ t, o => unmodelledST w cfg t o
  | .cls c, o =>
      if cfg.tupleStrat then
        match o with
        | .str _ | .bytes _ => true
        | .coll _ xs => ((w.fields c).zip xs).any (fun (f, x) => match f.ty with | some t => unmodelledST w cfg t x | Option.none => false)
        | .dict kvs => ((w.fields c).zip kvs).any (fun (f, kv) => match f.ty with | some t => unmodelledST w cfg t kv.1 | Option.none => false)
        | _ => false
      else match o with
        | .dict kvs => (w.fields c).any (fun f => match f.ty, dlookup kvs f.key with
            | some t, some v => unmodelledST w cfg t v
            | _, _ => false)
        | _ => false
  | .td c, o =>
      !cfg.gen || (match o with
        | .dict kvs => (w.fields c).any (fun f => match f.ty, dlookup kvs f.key with
            | some t, some v => unmodelledST w cfg t v
            | _, _ => false)
        | _ => false)
  | _, _ => false

def hasMark (s : String) : Bool := (s.splitOn "\\uffff").length > 1

def replyObj (o : Obj) : Sexp :=
  let s := sexpOfObj o
  if hasMark s.toString then .atom "unmodelled" else .list [.atom "ok", s]

def convHandle (w : World) (op : String) (args : List Sexp) : Option Sexp :=
  match op, args with
  | "UN", [cfg, ty, o] => do
      let cfg ← cfgOfSexp cfg; let ty ← tyOfSexp ty; let o ← objOfSexp o
      if !conf w ty o then some (.atom "unmodelled") else some (replyObj (convUnstructure w cfg ty o))
  | "ST", [cfg, ty, o] => do
      let cfg ← cfgOfSexp cfg; let ty ← tyOfSexp ty; let o ← objOfSexp o
      if unmodelledST w cfg ty o then some (.atom "unmodelled")
      else if cfg.detailed then
        match stD w cfg.core ty o with
        | .ok v => some (replyObj v)
        | .error e => some (.list [.atom "err", sexpOfErr e])
      else
        match stF w cfg.core ty o with
        | some v => some (replyObj v)
        | Option.none => some (.list [.atom "err"])
  | "C03SCOPE", [cfg, ty, o] => do
      -- hypotheses of the C03 theorems on this case, and the model's own primitive-only verdict
      let cfg ← cfgOfSexp cfg; let ty ← tyOfSexp ty; let o ← objOfSexp o
      some (.list [ofBool (wellTyped w ty o), ofBool (ty.supU cfg.gen && w.supUB cfg.gen && w.tdAcyclicB),
                   ofBool ((convUnstructure w cfg ty o).prim (!cfg.gen))])
  | "CONF", [ty, o] => do
      let ty ← tyOfSexp ty; let o ← objOfSexp o
      some (ofBool (conf w ty o))
  | _, _ => Option.none

end CattrsModel
