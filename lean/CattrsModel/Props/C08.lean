import CattrsModel.Dispatch.LemmasHist
import CattrsModel.Dispatch.StoreHist
/-!
# C08 — caches are transparent: behaviour depends only on options and registrations

Model: `CattrsModel/Dispatch/Model.lean`.  The machine has the two cache layers of `MultiStrategyDispatch`
(`lru_cache` in front of `dispatch_without_caching`, and the direct table consulted after the class registry), and
every way they are written: cached dispatch (`get_*_hook`, `structure`, `unstructure`), the nested cached/uncached
dispatches a hook factory makes for the component types while the outer dispatch is still running, the
`register_cls_list(.., direct=True)` of Converter's collection factories (direct-table write followed by
`cache_clear()`, in the middle of a dispatch), the call-time dispatches of late-binding hooks; and every way they are
invalidated: `register_cls_list` (`clear_direct` + `cache_clear`), `register_func_list` (same), the union registry
path of `register_structure_hook` (`clear_cache`).

`CacheOK F s`: every `lru` entry and every direct-table entry is what the cache-free lookup `resolve` gives for the
*current* registrations.  It holds initially and is preserved by every operation (C08_inv); hence warm-ups are
unobservable (C08_transparent, _call, C08_fresh_replay) and registrations take effect immediately, also for types
that were used before (C08_registration_immediate).

Not modelled: `linecache` (third cache named in the property text; exercised by the implementation-side oracle
only), and that the real `lru_cache` does not memoise a dispatch that raised (the model memoises the `fallback`
term: more entries, same invariant).
-/
namespace CattrsModel
open Dispatch

/-- **C08_inv.**  The cache invariant holds for a freshly constructed converter and is preserved by EVERY
operation from EVERY state satisfying it: each registration path, cached and uncached dispatch with all nested
dispatches and direct-table writes, and calls. Operations other than registrations leave the registrations alone. -/
theorem C08_inv (F : Facts) :
    (∀ cfg, CacheOK F (init cfg)) ∧
    (∀ s op, CacheOK F s → CacheOK F (step F s op)) ∧
    (∀ s op, CacheOK F s → op.isReg = false → (step F s op).regs = s.regs) := by
  refine ⟨init_ok F, fun s op hs => (step_good F s op hs).1, fun s op hs hr => ?_⟩
  rw [(step_good F s op hs).2, regStep_nonreg F _ op hr]

/-- **C08_transparent.**  After any interleaving of registrations with warm-up dispatches and calls, what the
cached dispatch (and `dispatch_without_caching`) returns for any type is the cache-free lookup for the
registrations alone — those of a fresh converter that received only the registrations. -/
theorem C08_transparent (F : Facts) (cfg : Cfg) (ops : List Op) (t : TyKey) :
    (dispatch F (run F (init cfg) ops) t).2 = resolve F (run F (init cfg) (ops.filter Op.isReg)).regs t ∧
    (dispatchUncached F (run F (init cfg) ops) t).2 =
      resolve F (run F (init cfg) (ops.filter Op.isReg)).regs t := by
  have g := run_init F cfg ops
  have g' := run_init F cfg (ops.filter Op.isReg)
  rw [g'.2, regsAfter_filter]
  exact ⟨by rw [(dispatch_good F _ t g.1).val, g.2], by rw [(dispatchUncached_good F _ t g.1).val, g.2]⟩

/-- **C08_transparent_call.**  The same for the result of `structure` / `unstructure` (dispatch, then the call with
its call-time dispatches): it is the call tree determined by the registrations alone. -/
theorem C08_transparent_call (F : Facts) (cfg : Cfg) (ops : List Op) (t : TyKey) :
    (call F (run F (init cfg) ops) t).2 =
      behave F (run F (init cfg) (ops.filter Op.isReg)).regs
        (resolve F (run F (init cfg) (ops.filter Op.isReg)).regs t) t := by
  have g := run_init F cfg ops
  have g' := run_init F cfg (ops.filter Op.isReg)
  rw [g'.2, regsAfter_filter, (call_good F _ t g.1).2.2, g.2]

/-- **C08_fresh_replay.**  The warmed converter and a fresh converter that replays only the registrations answer
every later call, cached dispatch and uncached dispatch identically — both run through the real (cached) machine. -/
theorem C08_fresh_replay (F : Facts) (cfg : Cfg) (ops : List Op) (t : TyKey) :
    (call F (run F (init cfg) ops) t).2 = (call F (run F (init cfg) (ops.filter Op.isReg)) t).2 ∧
    (dispatch F (run F (init cfg) ops) t).2 = (dispatch F (run F (init cfg) (ops.filter Op.isReg)) t).2 ∧
    (dispatchUncached F (run F (init cfg) ops) t).2 =
      (dispatchUncached F (run F (init cfg) (ops.filter Op.isReg)) t).2 := by
  have g := run_init F cfg ops
  have g' := run_init F cfg (ops.filter Op.isReg)
  have e : RegEquiv (run F (init cfg) ops).regs (run F (init cfg) (ops.filter Op.isReg)).regs := by
    rw [g.2, g'.2, regsAfter_filter]; exact RegEquiv.rfl' _
  have := obs_eq_of_equiv F _ _ g.1 g'.1 e t
  exact ⟨this.2.2, this.1, this.2.1⟩

/-- **C08_registration_immediate.**  A registration made after any history (in particular after the type was
dispatched, called, or used as a component, so that it sits in both caches) takes effect at once: the next
dispatch / call sees the lookup for the registrations *including* the new one. -/
theorem C08_registration_immediate (F : Facts) (cfg : Cfg) (ops : List Op) (op : Op) (t : TyKey) :
    (dispatch F (run F (init cfg) (ops ++ [op])) t).2 = resolve F (regStep F (regsAfter F cfg ops) op) t ∧
    (call F (run F (init cfg) (ops ++ [op])) t).2 =
      behave F (regStep F (regsAfter F cfg ops) op) (resolve F (regStep F (regsAfter F cfg ops) op) t) t := by
  have g := run_init F cfg (ops ++ [op])
  have hr : regsAfter F cfg (ops ++ [op]) = regStep F (regsAfter F cfg ops) op := by
    simp [regsAfter, List.foldl_append]
  rw [← hr]
  exact ⟨by rw [(dispatch_good F _ t g.1).val, g.2], by rw [(call_good F _ t g.1).2.2, g.2]⟩

/-- instance: a class hook registered for the most specific class of `t`'s MRO is what the very next dispatch of `t`
returns, whatever was cached before -/
theorem C08_registration_immediate_class (F : Facts) (cfg : Cfg) (ops : List Op) (c tag : Nat) (t : TyKey)
    (rest : List TyKey) (hm : F.mro t = c :: rest) (hu : F.isUnion c = false) (hn : F.isNewtype c = false) :
    (dispatch F (run F (init cfg) (ops ++ [.regHook c tag])) t).2 = .user tag := by
  rw [(C08_registration_immediate F cfg ops _ t).1, resolve_unfold]
  simp [choose, classTier, hm, regStep, hu, hn, alookup]

/-- instance: a predicate hook accepting `t` is returned by the very next dispatch of `t` unless a class of its MRO
has a registration -/
theorem C08_registration_immediate_pred (F : Facts) (cfg : Cfg) (ops : List Op) (p tag : Nat) (t : TyKey)
    (hc : classTier F (regsAfter F cfg ops) t = none) (hp : F.holds p t = true) :
    (dispatch F (run F (init cfg) (ops ++ [.regPred { pred := .tbl p, kind := .plain, tag := tag }])) t).2
      = .user tag := by
  rw [(C08_registration_immediate F cfg ops _ t).1, resolve_unfold]
  have : classTier F (regStep F (regsAfter F cfg ops)
      (.regPred { pred := .tbl p, kind := .plain, tag := tag })) t = none := by
    simpa [classTier, regStep] using hc
  unfold choose
  rw [this]
  simp [firstEntry, regStep, Entry.accepts, PredRef.holds, hp, entryHook]

/-- **C08_transparent_store.**  Transparency for a converter ANYWHERE in a program, copies included: "a converter's
behaviour is a function of its construction options and its registration history alone".  After ANY store history
(operations on any converter — registrations, warm-up dispatches and calls —, `copy` steps with any option overrides,
copies of copies), every converter of the store answers every call, cached dispatch and uncached dispatch exactly as
a FRESH converter that is constructed as its origin says (`o.cfg`: for a copy the constructor under the copy's options
with the source's fallback factory) and replays only the REGISTRATIONS of its own history (`o.hist.filter Op.isReg`:
for a copy those its source had received when the copy was taken, then its own).  In particular nothing the source of
a copy was USED for before the copy — what sits in its lru cache and its direct table — reaches the copy. -/
theorem C08_transparent_store (F : Facts) (st : Bool) (sg : List (TyKey × Hook)) (cfgs : List Cfg)
    (hcfgs : ∀ c ∈ cfgs, c.fits st sg) (sops : List SOp) (hsops : ∀ op ∈ sops, op.fits st sg)
    (i : Nat) (s : St) (o : Origin)
    (hs : (srun F (cfgs.map init) sops)[i]? = some s) (ho : (origins cfgs sops)[i]? = some o) (t : TyKey) :
    let f := run F (init o.cfg) (o.hist.filter Op.isReg)
    (call F s t).2 = (call F f t).2 ∧ (dispatch F s t).2 = (dispatch F f t).2 ∧
      (dispatchUncached F s t).2 = (dispatchUncached F f t).2 := by
  intro f
  have k := (srun_tracked F st sg sops _ _ (tracked_fresh F st sg cfgs hcfgs) hsops).2 i s o hs ho
  have gf := run_init F o.cfg (o.hist.filter Op.isReg)
  have e : RegEquiv s.regs f.regs := by
    rw [gf.2, regsAfter_filter]; exact k.equiv
  have := obs_eq_of_equiv F s f k.ok gf.1 e t
  exact ⟨this.2.2, this.1, this.2.1⟩

/-! ## fallback factories whose hooks are built out of other hooks

`unstructure_fallback_factory` / `structure_fallback_factory` are construction options; the documented uses (chained
converters, factories composing `conv.get_*_hook(field type)`) make hooks that DEPEND on the current registrations.
`dispatch_without_caching` asks the fallback factory exactly when `FunctionDispatch.dispatch` found no entry, with the type
alone: a composing fallback factory is one more factory entry of the constructor's predicate list, LAST, with an
always-true predicate (row `p` of `Facts.holds`), looking its component hooks up cached or uncached (`sub`).  Every theorem
above quantifies over all `Cfg`, so it covers such converters; the instance is spelled out because the check ties it to
the code (`dispatch_common.COMPOSE_FB`: histories and the immediacy sweep under such factories go through `RUNHIST`). -/

/-- `cfg` constructed with a composing fallback factory (tag `fb`) -/
def withComposingFallback (cfg : Cfg) (fb p : Nat) (sub : SubMode) : Cfg :=
  { cfg with fb := fb, preds := cfg.preds ++ [{ pred := .tbl p, kind := .factory, tag := fb, builtin := true, sub := sub }] }

/-- **C08_composing_fallback.**  A converter whose fallback factory composes the hooks of component types: after any
interleaving, every call / cached / uncached dispatch equals that of a fresh converter replaying only the registrations, and
equals the cache-free lookup for the registrations -- in particular a hook the fallback made before a registration for one of
its component types is not served afterwards. -/
theorem C08_composing_fallback (F : Facts) (cfg : Cfg) (fb p : Nat) (sub : SubMode) (ops : List Op) (t : TyKey) :
    let c := withComposingFallback cfg fb p sub
    (call F (run F (init c) ops) t).2 = (call F (run F (init c) (ops.filter Op.isReg)) t).2 ∧
    (dispatch F (run F (init c) ops) t).2 = resolve F (run F (init c) (ops.filter Op.isReg)).regs t ∧
    (dispatchUncached F (run F (init c) ops) t).2 = resolve F (run F (init c) (ops.filter Op.isReg)).regs t := by
  intro c
  exact ⟨(C08_fresh_replay F c ops t).1, (C08_transparent F c ops t).1, (C08_transparent F c ops t).2⟩

/-! ## non-vacuity -/
namespace C08ex

/-- 0 = class A, 1 = list[A], 2 = dict[str, list[A]] (component 1), 3 = str -/
def F : Facts :=
  { mro := fun t => match t with | 0 => [0] | 3 => [3] | _ => []
    holds := fun p t => p == 1 && (t == 0 || t == 1)
    isUnion := fun _ => false
    isNewtype := fun _ => false
    late := fun _ => false
    comps := fun t => match t with | 1 => [0] | 2 => [3, 1] | _ => []
    rank := fun t => match t with | 1 => 1 | 2 => 2 | _ => 0 }

/-- Converter-like unstructure table: collection factories that write the direct table during dispatch -/
def cfg : Cfg :=
  { isStruct := false, fb := 0
    single := [(3, .builtin 100)]
    preds := [ { pred := .exact 0, kind := .factory, tag := 200, builtin := true, sub := .uncached },
               { pred := .exact 1, kind := .factory, tag := 201, builtin := true, sub := .uncached, direct := true },
               { pred := .exact 2, kind := .factory, tag := 202, builtin := true, sub := .uncached, direct := true } ] }

def warm : List Op := [.call 2, .dispatch 1, .dispatchNC 0]

-- the warm-ups really fill both caches (the nested direct write of list[A] clears the lru mid-dispatch)
example : ((run F (init cfg) warm).lru.map (·.1), (run F (init cfg) warm).direct.map (·.1)) = ([1, 2], [2, 1]) := by
  decide
example : (dispatch F (run F (init cfg) warm) 2).2 =
    .made 202 2 false [.builtin 100, .made 201 1 false [.made 200 0 false []]] := by decide
-- registering a class hook for A afterwards is visible at once, also nested two levels down
example : (dispatch F (run F (init cfg) (warm ++ [.regHook 0 7])) 2).2 =
    .made 202 2 false [.builtin 100, .made 201 1 false [.user 7]] := by decide
example : (run F (init cfg) (warm ++ [.regHook 0 7] ++ warm)).lru ≠ [] ∧
    CacheOK F (run F (init cfg) (warm ++ [.regHook 0 7] ++ warm)) :=
  ⟨by decide, (run_init F cfg _).1⟩
example : ((warm ++ [Op.regHook 0 7] ++ warm).filter Op.isReg).length = 1 := by decide

/-- a store: the source is warmed on everything (both caches full), copied under other options (lists handled by
another built-in hook, 301), then the SOURCE registers a class hook for A -/
def cfg' : Cfg :=
  { cfg with preds := [ { pred := .exact 0, kind := .factory, tag := 200, builtin := true, sub := .uncached },
                        { pred := .exact 1, kind := .factory, tag := 301, builtin := true, sub := .uncached, direct := true },
                        { pred := .exact 2, kind := .factory, tag := 202, builtin := true, sub := .uncached, direct := true } ] }

def shist : List SOp := (warm.map (SOp.on 0)) ++ [.copy 0 cfg', .on 0 (.regHook 0 7), .on 1 (.call 2)]

example : cfg.fits false cfg.single ∧ cfg'.fits false cfg.single := ⟨⟨by decide, rfl, rfl⟩, ⟨by decide, rfl, rfl⟩⟩
-- the source's caches were full when the copy was taken ...
example : ((srun F [init cfg] (warm.map (SOp.on 0)))[0]?.map (fun s => (s.lru.length, s.direct.length))) = some (2, 2) := by decide
-- ... the copy nevertheless builds list[A] with ITS built-in hook (301) and does not see the source's later hook for A
example : (srun F [init cfg] shist).map (fun s => (dispatch F s 2).2) =
    [ .made 202 2 false [.builtin 100, .made 201 1 false [.user 7]],
      .made 202 2 false [.builtin 100, .made 301 1 false [.made 200 0 false []]] ] := by decide
example : (origins [cfg] shist).map (fun o => (o.hist.filter Op.isReg).length) = [1, 0] := rfl

/-- 4 = a plain class no entry handles; the composing fallback factory (7005, cached look-ups; predicate row 9 = always
true) builds its hook out of the hook of class A (component 0) -/
def Ffb : Facts :=
  { F with holds := fun p t => p == 9 || F.holds p t
           comps := fun t => match t with | 4 => [0] | t => F.comps t
           rank := fun t => match t with | 4 => 1 | t => F.rank t }

def cfgFb : Cfg := withComposingFallback cfg 7005 9 .cached

-- the fallback is reached for type 4 and composes A's current hook; the hook sits in the lru cache afterwards
example : (dispatch Ffb (run Ffb (init cfgFb) [.call 4]) 4).2 = .made 7005 4 false [.made 200 0 false []] := by decide
example : alookup (run Ffb (init cfgFb) [.call 4]).lru 4 = some (.made 7005 4 false [.made 200 0 false []]) := by decide
-- a hook registered for A AFTER the fallback hook was made and cached is part of the next answer
example : (dispatch Ffb (run Ffb (init cfgFb) [.call 4, .regHook 0 7]) 4).2 = .made 7005 4 false [.user 7] := by decide
example : (dispatchUncached Ffb (run Ffb (init cfgFb) [.call 4, .dispatchNC 4, .regHook 0 7, .call 4]) 4).2
    = .made 7005 4 false [.user 7] := by decide
-- types with an entry of their own never reach the fallback entry
example : (dispatch Ffb (run Ffb (init cfgFb) []) 1).2 = .made 201 1 false [.made 200 0 false []] := by decide

end C08ex
end CattrsModel
