import CattrsModel.FieldConv.Lemmas
import CattrsModel.FieldConv.History
import CattrsModel.FieldConv.Presence
import CattrsModel.Core.ObjDecEq
/-!
# C20 — attrs field converters compose with structure hooks as documented

Property theorems only.  Model: `FieldConv/Model.lean` (`findHandler` = `find_structure_handler`, `genFast` /
`genDetailed` = the two templates of `make_dict_structure_fn_from_attrs` followed by the class's `__init__`,
`interpDict` / `interpTuple` = `structure_attrs_fromdict` / `structure_attrs_fromtuple` over
`_structure_attribute`).  `classSpec` / `fieldSpec` is the declarative rule of the property statement.

All theorems quantify over: the type language `T`, the dispatch `env.disp` (which types have a hook, which hook,
eager or legacy fallback), the hooks and constructors themselves (arbitrary functions that may raise), every
attribute list (any length, any mix of typed / untyped / unsupported, with or without converter `K` — an
arbitrary partial function —, with or without default), every payload, `prefer_attrib_converters`, the
validation mode and the converter class.

**Full statement** (what C20 asks; it is *false* for the code as it is, see the two witnesses at the end):

    ∀ cfg env fields kvs, structDict cfg env fields kvs = classSpec env cfg.prefer (rawsDict fields kvs)
    ∀ cfg env fields xs,  structTuple cfg env fields xs = classSpec env cfg.prefer (rawsTuple fields xs)

What is proved: the exact behaviour of both templates without any hypothesis (`C20_gen_exact`,
`C20_modes_agree`), and the full statement under the two hypotheses that exclude exactly the regions of the
recorded findings F35 (`NoLazyEscape`) and F36 (`NoDeepSHNF`).
-/
namespace CattrsModel
open FieldConv

variable {T : Type}

/-! ### the rule itself, spelled out (so that `fieldSpec` can be compared with the property text) -/

/-- with `prefer_attrib_converters=True` a field with converter `K` gets `K raw`, whatever its type -/
theorem C20_rule_prefer (env : Env T) (f : FField T) (k : Obj → Option Obj) (raw : Obj) (hk : f.conv = some k) :
    fieldSpec env true f raw = k raw := by
  simp [fieldSpec, hk]

/-- default mode, the field's type has a hook: `K (hook raw)` (an error when the hook raises) -/
theorem C20_rule_hook (env : Env T) (f : FField T) (k : Obj → Option Obj) (t : T) (raw : Obj)
    (hk : f.conv = some k) (ht : f.ty = some t) (hh : hasHook env t = true) :
    fieldSpec env false f raw = (hookResult env t raw).bind k := by
  simp [fieldSpec, hk, ht, hh]

/-- default mode, no hook can be found for the field's type (the lookup answers "not found": it raises
`StructureHandlerNotFoundError` or returns `raise_error`): `K raw` -/
theorem C20_rule_nohook (env : Env T) (f : FField T) (k : Obj → Option Obj) (t : T) (raw : Obj)
    (hk : f.conv = some k) (ht : f.ty = some t) (hh : hasHook env t = false) (hb : lookupBroken env t = false) :
    fieldSpec env false f raw = k raw := by
  simp [fieldSpec, hk, ht, hh, hb]

/-- outside the property text: a lookup that raises some *other* exception (a registered hook factory that
raises) is an error for the field in default mode, in every code path -/
theorem C20_rule_lookup_broken (env : Env T) (f : FField T) (t : T) (raw : Obj)
    (ht : f.ty = some t) (hb : lookupBroken env t = true) :
    fieldSpec env false f raw = Option.none := by
  have hh : hasHook env t = false := by
    unfold lookupBroken at hb
    unfold hasHook
    cases hd : env.disp t <;> simp [hd] at hb ⊢
  have hr : hookResult env t raw = Option.none := by
    unfold lookupBroken at hb
    unfold hookResult
    cases hd : env.disp t <;> simp [hd] at hb ⊢
  cases hk : f.conv <;> simp [fieldSpec, hk, ht, hh, hb, hr]

/-- default mode, the field has no type: `K raw` -/
theorem C20_rule_untyped (env : Env T) (f : FField T) (k : Obj → Option Obj) (raw : Obj)
    (hk : f.conv = some k) (ht : f.ty = Option.none) :
    fieldSpec env false f raw = k raw := by
  simp [fieldSpec, hk, ht]

/-- default mode, the field's type closes a REFERENCE CYCLE: looking its hook up while the class hook is being generated
ends in a `RecursionError`.  That is not "no hook can be found": `find_structure_handler` answers with the late-bound
`c.structure` (its outer `except RecursionError`), the template emits `c.structure(o[k], t)`, and the rule's
"`T`'s structure hook" is what that call reaches: the value is `K (hook raw)`, in the generated templates and in
`_structure_attribute` alike. -/
theorem C20_rule_cycle (env : Env T) (f : FField T) (k : Obj → Option Obj) (t : T) (raw : Obj)
    (hk : f.conv = some k) (ht : f.ty = some t) (hc : env.disp t = .cycle) :
    findHandler env false f = some (.late t) ∧
    fieldSpec env false f raw = (env.late t raw).toOption.bind k ∧
    (applyHandler env (.late t) raw).toOption.bind (applyConv f) = fieldSpec env false f raw ∧
    ((env.late t raw ≠ .shnf) → (structAttr env false f raw).bind (applyConv f) = fieldSpec env false f raw) := by
  have hac : applyConv f = k := by funext v; simp [applyConv, hk]
  refine ⟨?_, ?_, ?_, ?_⟩
  · simp [findHandler, hk, ht, hc]
  · simp [fieldSpec, hk, ht, hasHook, hookResult, hc]
  · simp [fieldSpec, hk, ht, hasHook, hookResult, hc, applyHandler, hac]
  · intro hne
    rw [hac]
    simp only [structAttr, fieldSpec, hk, ht, hasHook, hookResult, hc, callDisp]
    cases hr : env.late t raw <;> simp_all [HR.toOption]

/-- fields without a converter are unaffected by the flag -/
theorem C20_rule_noconv (env : Env T) (f : FField T) (raw : Obj) (hk : f.conv = Option.none) :
    fieldSpec env true f raw = fieldSpec env false f raw := by
  simp [fieldSpec, hk]

/-! ### generated templates -/

/-- Exact behaviour of both generated templates, **no hypothesis**: hook generation fails (for every payload)
iff some attribute without converter has a type for which the lookup raises; otherwise the structured instance is
given, field by field, by the rule. -/
theorem C20_gen_exact (env : Env T) (prefer : Bool) (fields : List (FField T)) (kvs : List (String × Obj)) :
    genFast env prefer fields kvs
      = (if eagerFail env prefer fields = true then Option.none else classSpec env prefer (rawsDict fields kvs))
    ∧ genDetailed env prefer fields kvs
      = (if eagerFail env prefer fields = true then Option.none else classSpec env prefer (rawsDict fields kvs)) := by
  have hfast : genFast env prefer fields kvs
      = (if eagerFail env prefer fields = true then Option.none else classSpec env prefer (rawsDict fields kvs)) := by
    unfold genFast
    cases hg : genHandlers env prefer fields with
    | none =>
      have := (genHandlers_none_iff env prefer fields).1 hg
      simp [this]
    | some hs =>
      have hne : ¬ eagerFail env prefer fields = true := by
        intro he
        have := (genHandlers_none_iff env prefer fields).2 he
        simp [hg] at this
      simp only [hne]
      exact fast_spec env prefer kvs fields hs hg
  refine ⟨hfast, ?_⟩
  rw [← hfast]
  unfold genDetailed genFast
  cases hg : genHandlers env prefer fields with
  | none => rfl
  | some hs =>
    simp only []
    rw [detailed_fast env kvs hs]
    cases (detailedArgs env kvs hs).2 <;> rfl

/-- `detailed_validation` never changes the outcome (**no hypothesis**). -/
theorem C20_modes_agree (env : Env T) (prefer : Bool) (fields : List (FField T)) (kvs : List (String × Obj)) :
    genDetailed env prefer fields kvs = genFast env prefer fields kvs := by
  have h := C20_gen_exact env prefer fields kvs
  rw [h.1, h.2]

/-- C20 for the generated templates, both validation modes (F35 region excluded by `NoLazyEscape`; hooks that
raise `StructureHandlerNotFoundError` inside are *allowed* here). -/
theorem C20_gen_spec_partial (env : Env T) (prefer : Bool) (fields : List (FField T)) (kvs : List (String × Obj))
    (hne : NoLazyEscape env prefer fields) :
    genFast env prefer fields kvs = classSpec env prefer (rawsDict fields kvs)
    ∧ genDetailed env prefer fields kvs = classSpec env prefer (rawsDict fields kvs) := by
  have h := C20_gen_exact env prefer fields kvs
  rw [h.1, h.2]
  by_cases he : eagerFail env prefer fields = true
  · have : classSpec env prefer (rawsDict fields kvs) = Option.none := by
      apply classSpec_eager
      · intro p hp hep
        exact hne p.1 (rawsDict_mem fields kvs p hp) hep
      · rw [rawsDict_any]; exact he
    simp [he, this]
  · simp [he]

/-! ### interpretive path -/

/-- C20 for `_structure_attribute` under both interpretive drivers (dict and tuple payloads); F36 region excluded
by `NoDeepSHNF`; no restriction on defaults. -/
theorem C20_interp_spec_partial (env : Env T) (hn : NoDeepSHNF env) (prefer : Bool) (fields : List (FField T)) :
    (∀ kvs, interpDict env prefer fields kvs = classSpec env prefer (rawsDict fields kvs))
    ∧ (∀ xs, interpTuple env prefer fields xs = classSpec env prefer (rawsTuple fields xs)) :=
  ⟨fun kvs => interpDict_spec env hn prefer kvs fields, fun xs => interpTuple_spec env hn prefer fields xs⟩

/-- one attribute: `_structure_attribute` then the converter = the rule -/
theorem C20_interp_field_partial (env : Env T) (hn : NoDeepSHNF env) (prefer : Bool) (f : FField T) (raw : Obj) :
    (structAttr env prefer f raw).bind (applyConv f) = fieldSpec env prefer f raw :=
  structAttr_spec env hn prefer f raw

/-! ### agreement -/

/-- Every configuration computes the rule: `Converter` (either template), `BaseConverter`, dict and tuple
strategies. -/
theorem C20_spec_partial (env : Env T) (hn : NoDeepSHNF env) (fields : List (FField T)) (cfg : FCfg)
    (hne : NoLazyEscape env cfg.prefer fields) :
    (∀ kvs, structDict cfg env fields kvs = classSpec env cfg.prefer (rawsDict fields kvs))
    ∧ (∀ xs, structTuple cfg env fields xs = classSpec env cfg.prefer (rawsTuple fields xs)) := by
  constructor
  · intro kvs
    unfold structDict
    cases hg : cfg.gen <;> cases hd : cfg.detailed <;> simp
    · exact (C20_interp_spec_partial env hn cfg.prefer fields).1 kvs
    · exact (C20_interp_spec_partial env hn cfg.prefer fields).1 kvs
    · exact (C20_gen_spec_partial env cfg.prefer fields kvs hne).1
    · exact (C20_gen_spec_partial env cfg.prefer fields kvs hne).2
  · intro xs
    exact (C20_interp_spec_partial env hn cfg.prefer fields).2 xs

/-- Converter = BaseConverter = both templates: two converters with the same `prefer_attrib_converters`
structure every payload to the same instance or both raise. -/
theorem C20_agree_partial (env : Env T) (hn : NoDeepSHNF env) (fields : List (FField T))
    (c1 c2 : FCfg) (hp : c1.prefer = c2.prefer) (hne : NoLazyEscape env c1.prefer fields) :
    (∀ kvs, structDict c1 env fields kvs = structDict c2 env fields kvs)
    ∧ (∀ xs, structTuple c1 env fields xs = structTuple c2 env fields xs) := by
  have h1 := C20_spec_partial env hn fields c1 hne
  have h2 := C20_spec_partial env hn fields c2 (hp ▸ hne)
  constructor
  · intro kvs; rw [h1.1, h2.1, hp]
  · intro xs; rw [h1.2, h2.2, hp]

/-- classes none of whose fields has a converter: the flag changes nothing, in any configuration -/
theorem C20_flag_irrelevant_without_converters (env : Env T) (args : Args T)
    (h : ∀ p ∈ args, p.1.conv = Option.none) :
    classSpec env true args = classSpec env false args := by
  induction args with
  | nil => rfl
  | cons p rest ih =>
    obtain ⟨f, r⟩ := p
    have hf : f.conv = Option.none := h (f, r) (by simp)
    have ih' := ih (fun p hp => h p (by simp [hp]))
    simp only [classSpec]
    rw [ih']
    cases r with
    | none => rfl
    | some raw => simp only [fieldOutcome]; rw [C20_rule_noconv env f raw hf]

/-! ### non-vacuity and the two negative witnesses -/
section Examples

/-- types: 0 = `int` (`_structure_call`), 1 = a class without any hook, 2 = `Optional[<1>]` (its hook exists
and raises `StructureHandlerNotFoundError` for anything but `None`), 3 = `list[int]`-like hook -/
def exEnv : Env Nat :=
  { disp := fun t =>
      match t with
      | 0 => .structureCall
      | 1 => .notFound
      | 2 => .fn (fun x => match x with | .none => .ok .none | _ => .shnf)
      | _ => .fn (fun x => match x with | .coll _ xs => .ok (.coll .list xs) | _ => .fail)
    construct := fun _ x =>
      match x with
      | .int i => .ok (.int i)
      | .str "5" => .ok (.int 5)
      | _ => .fail }

/-- the same without type 2: satisfies `NoDeepSHNF` -/
def exEnvOk : Env Nat :=
  { exEnv with disp := fun t => match t with | 2 => .notFound | t => exEnv.disp t }

def exK (tag : String) : Obj → Option Obj := fun x =>
  match x with
  | .str "boom" => Option.none
  | x => some (.coll .tuple [.str tag, x])

def exFields : List (FField Nat) :=
  [ { name := "a", ty := some 0, conv := some (exK "Ka"), dflt := Option.none },
    { name := "b", ty := Option.none, conv := some (exK "Kb"), dflt := some (.str "d") },
    { name := "c", ty := some 1, conv := some (exK "Kc"), dflt := Option.none },
    { name := "d", ty := some 0, conv := Option.none, dflt := some (.int 0) } ]

def exPayload : List (String × Obj) := [("a", .str "5"), ("c", .str "5"), ("d", .str "5")]

theorem exEnvOk_noDeep : NoDeepSHNF exEnvOk := by
  constructor
  · intro t h x hd
    match t with
    | 0 => simp [exEnvOk, exEnv] at hd
    | 1 => simp [exEnvOk, exEnv] at hd
    | 2 => simp [exEnvOk] at hd
    | (n+3) =>
      simp [exEnvOk, exEnv] at hd
      subst hd
      cases x <;> simp
  · refine ⟨?_, ?_⟩
    · intro t x _
      simp only [exEnvOk, exEnv]
      split <;> simp
    · intro t x _
      simp [exEnvOk, exEnv]

theorem exFields_noEscape (prefer : Bool) : NoLazyEscape exEnvOk prefer exFields := by
  intro f hf he
  simp [exFields] at hf
  rcases hf with rfl | rfl | rfl | rfl <;> simp [eagerField, exEnvOk, exEnv] at he ⊢

/-- default mode: `a` = K(hook raw), `b` = K(default), `c` = K(raw) (no hook), `d` = hook raw -/
example : classSpec exEnvOk false (rawsDict exFields exPayload)
    = some [("a", .coll .tuple [.str "Ka", .int 5]), ("b", .coll .tuple [.str "Kb", .str "d"]),
            ("c", .coll .tuple [.str "Kc", .str "5"]), ("d", .int 5)] := by
  simp [classSpec, rawsDict, exFields, exPayload, lookup, fieldOutcome, fieldSpec, hasHook, hookResult, lookupBroken,
    exEnvOk, exEnv, exK, applyConv, HR.toOption]

/-- with the flag: `a` = K(raw) -/
example : classSpec exEnvOk true (rawsDict exFields exPayload)
    = some [("a", .coll .tuple [.str "Ka", .str "5"]), ("b", .coll .tuple [.str "Kb", .str "d"]),
            ("c", .coll .tuple [.str "Kc", .str "5"]), ("d", .int 5)] := by
  simp [classSpec, rawsDict, exFields, exPayload, lookup, fieldOutcome, fieldSpec, hookResult,
    exEnvOk, exEnv, exK, applyConv, HR.toOption]

/-- the hypotheses of `C20_agree_partial` are satisfiable on this non-trivial class, and all four dict
configurations compute the instance above -/
example (cfg : FCfg) (hp : cfg.prefer = false) :
    structDict cfg exEnvOk exFields exPayload
    = some [("a", .coll .tuple [.str "Ka", .int 5]), ("b", .coll .tuple [.str "Kb", .str "d"]),
            ("c", .coll .tuple [.str "Kc", .str "5"]), ("d", .int 5)] := by
  rw [(C20_spec_partial exEnvOk exEnvOk_noDeep exFields cfg (exFields_noEscape _)).1 exPayload, hp]
  simp [classSpec, rawsDict, exFields, exPayload, lookup, fieldOutcome, fieldSpec, hasHook, hookResult, lookupBroken,
    exEnvOk, exEnv, exK, applyConv, HR.toOption]

/-- an invalid payload (`a` is not an int) is rejected by default and accepted with the flag -/
example : classSpec exEnvOk false (rawsDict exFields [("a", .str "zz"), ("c", .int 1)]) = Option.none
    ∧ (classSpec exEnvOk true (rawsDict exFields [("a", .str "zz"), ("c", .int 1)])).isSome = true := by
  simp [classSpec, rawsDict, exFields, lookup, fieldOutcome, fieldSpec, hasHook, hookResult, exEnvOk, exEnv,
    exK, applyConv, HR.toOption]

/-- **F35** (negative witness, replayed on the implementation by the check): one attribute of an unsupported
type, no converter, a default; empty payload.  The generated hook cannot be created, the interpretive path
returns the default: the full agreement statement is false. -/
def f35Fields : List (FField Nat) := [ { name := "x", ty := some 1, conv := Option.none, dflt := some (.str "7") } ]

theorem C20_F35_witness :
    genFast exEnv false f35Fields [] = Option.none
    ∧ genDetailed exEnv false f35Fields [] = Option.none
    ∧ interpDict exEnv false f35Fields [] = some [("x", .str "7")]
    ∧ classSpec exEnv false (rawsDict f35Fields []) = some [("x", .str "7")]
    ∧ ¬ NoLazyEscape exEnv false f35Fields := by
  refine ⟨?_, ?_, ?_, ?_, ?_⟩
  · simp [genFast, genHandlers, findHandler, f35Fields, exEnv]
  · simp [genDetailed, genHandlers, findHandler, f35Fields, exEnv]
  · simp [interpDict, interpDictArgs, lookup, attrsInit, applyConv, f35Fields]
  · simp [classSpec, rawsDict, lookup, fieldOutcome, applyConv, f35Fields]
  · intro h
    have := h _ (List.mem_singleton.2 rfl) (by simp [eagerField, exEnv])
    simp at this

/-- **F36** (negative witness, replayed on the implementation by the check): one attribute of type
`Optional[U]` with a converter; payload `{"x": "5"}`, flag off.  The templates raise (as the rule says: the hook
exists and raises), `_structure_attribute` swallows the inner `StructureHandlerNotFoundError` and yields
`K raw`. -/
def f36Fields : List (FField Nat) := [ { name := "x", ty := some 2, conv := some (exK "K"), dflt := Option.none } ]

theorem C20_F36_witness :
    genFast exEnv false f36Fields [("x", .str "5")] = Option.none
    ∧ genDetailed exEnv false f36Fields [("x", .str "5")] = Option.none
    ∧ classSpec exEnv false (rawsDict f36Fields [("x", .str "5")]) = Option.none
    ∧ interpDict exEnv false f36Fields [("x", .str "5")] = some [("x", .coll .tuple [.str "K", .str "5"])]
    ∧ ¬ NoDeepSHNF exEnv := by
  refine ⟨?_, ?_, ?_, ?_, ?_⟩
  · simp [genFast, genHandlers, findHandler, fastArgs, fastArg, lookup, applyHandler, callDisp, HR.toOption, f36Fields, exEnv]
  · simp [genDetailed, genHandlers, findHandler, detailedArgs, detailedArg, lookup, applyHandler, callDisp, HR.toOption,
      f36Fields, exEnv]
  · simp [classSpec, rawsDict, lookup, fieldOutcome, fieldSpec, hasHook, hookResult, HR.toOption, f36Fields, exEnv]
  · simp [interpDict, interpDictArgs, structAttr, lookup, attrsInit, applyConv, callDisp, f36Fields, exEnv, exK]
  · intro h
    have := h.1 2 _ (.str "5") rfl
    simp at this

/-! ### reference cycles -/

/-- type 4 = a class that is being generated (`Node` inside `Node`): the lookup ends in a `RecursionError`; at call
time `c.structure(x, Node)` builds the instance (here: wraps the raw value in a list, so that it is recognisable) -/
def exCyc : Env Nat :=
  { exEnv with
    disp := fun t => match t with | 4 => .cycle | t => exEnv.disp t
    late := fun _ x => .ok (.coll .list [x]) }

def cycField : FField Nat := { name := "link", ty := some 4, conv := some (exK "K"), dflt := some .none }

def cycFields : List (FField Nat) := [cycField]

/-- non-vacuity of `C20_rule_cycle` / `C20_gen_exact` on a cycle-closing converter field, and the **regression
witness** (replayed on the implementation by the reference-cycle stream of the check): both templates and the
interpretive path give `K (hook raw)`; had the `RecursionError` been taken for "no hook can be found" (handler `None`),
the field would hold `K raw`. -/
theorem C20_cycle_witness :
    findHandler exCyc false cycField = some (.late 4)
    ∧ genFast exCyc false cycFields [("link", .str "n")] = some [("link", .coll .tuple [.str "K", .coll .list [.str "n"]])]
    ∧ genDetailed exCyc false cycFields [("link", .str "n")] = some [("link", .coll .tuple [.str "K", .coll .list [.str "n"]])]
    ∧ interpDict exCyc false cycFields [("link", .str "n")] = some [("link", .coll .tuple [.str "K", .coll .list [.str "n"]])]
    ∧ (applyHandler exCyc Handler.none (.str "n")).toOption.bind (exK "K") = some (.coll .tuple [.str "K", .str "n"])
    ∧ (applyHandler exCyc Handler.none (.str "n")).toOption.bind (exK "K") ≠ fieldSpec exCyc false cycField (.str "n") := by
  refine ⟨?_, ?_, ?_, ?_, ?_, ?_⟩
  · simp [findHandler, cycField, exCyc]
  · simp [genFast, genHandlers, findHandler, fastArgs, fastArg, lookup, applyHandler, attrsInit, applyConv, HR.toOption,
      cycFields, cycField, exCyc, exK]
  · simp [genDetailed, genHandlers, findHandler, detailedArgs, detailedArg, lookup, applyHandler, attrsInit, applyConv,
      HR.toOption, cycFields, cycField, exCyc, exK]
  · simp [interpDict, interpDictArgs, structAttr, lookup, attrsInit, applyConv, callDisp, cycFields, cycField, exCyc, exK]
  · simp [applyHandler, HR.toOption, exK]
  · simp [applyHandler, HR.toOption, exK, fieldSpec, hasHook, hookResult, cycField, exCyc]

end Examples

/-! ### one converter over time: structure, register, structure again -/

/-- **The handler choice is a function of the CURRENT registrations.**  For every configuration, every world of
classes, every meaning of the registrations (`envAt`: an arbitrary function from the registrations made so far to the
lookup — whatever precedence the dispatch gives the three registration APIs), and every history of registrations,
`structure` calls and `copy()`s on ONE converter: a `structure` call now answers exactly what a converter holding the
current registrations answers (`structDict` under `envAt (regsOf hist [])`) — whatever was structured before, in
particular a converter field whose type had no hook then and has one now.  With `C20_spec_partial` that is the
three-way rule under the current registrations. -/
theorem C20_history_current {R : Type} (cfg : FCfg) (world : Nat → List (FField T)) (envAt : List R → Env T)
    (hist : List (Step R)) (cls : Nat) (kvs : List (String × Obj)) :
    (useStep cfg world envAt (run cfg world envAt hist init) cls kvs).2
      = structDict cfg (envAt (regsOf hist [])) (world cls) kvs :=
  history_current cfg world envAt hist cls kvs

/-- … hence (F35 / F36 regions excluded as in `C20_spec_partial`) it is the documented rule under the current
registrations, and two converters with the same flag agree after ANY two histories that made the same registrations. -/
theorem C20_history_rule_partial {R : Type} (cfg : FCfg) (world : Nat → List (FField T)) (envAt : List R → Env T)
    (hist : List (Step R)) (cls : Nat) (kvs : List (String × Obj))
    (hn : NoDeepSHNF (envAt (regsOf hist []))) (hne : NoLazyEscape (envAt (regsOf hist [])) cfg.prefer (world cls)) :
    (useStep cfg world envAt (run cfg world envAt hist init) cls kvs).2
      = classSpec (envAt (regsOf hist [])) cfg.prefer (rawsDict (world cls) kvs) := by
  rw [C20_history_current]
  exact (C20_spec_partial _ hn (world cls) cfg hne).1 kvs

section HistoryExamples

/-- registrations are type indices; a registered type gets a hook that wraps the raw value in a list -/
def hEnvAt (regs : List Nat) : Env Nat :=
  { disp := fun t => if regs.contains t then .fn (fun x => .ok (.coll .list [x])) else .notFound
    construct := fun _ _ => .fail }

def hWorld : Nat → List (FField Nat) := fun _ =>
  [ { name := "x", ty := some 1, conv := some (exK "K"), dflt := Option.none } ]

def hCfg : FCfg := { gen := true, tupleStrat := false, detailed := false, prefer := false }

def hHist : List (Step Nat) := [.use 0 [("x", .str "5")], .reg 1]

/-- non-vacuity: before the registration `K raw`, after it `K (hook raw)` -/
example : (useStep hCfg hWorld hEnvAt (init : CState Nat Nat) 0 [("x", .str "5")]).2
      = some [("x", .coll .tuple [.str "K", .str "5"])]
    ∧ (useStep hCfg hWorld hEnvAt (run hCfg hWorld hEnvAt hHist init) 0 [("x", .str "5")]).2
      = some [("x", .coll .tuple [.str "K", .coll .list [.str "5"]])] := by
  constructor
  · simp [useStep, hCfg, init, hcLookup, genHandlers, findHandler, hWorld, hEnvAt, runHandlers, fastArgs, fastArg, lookup,
      applyHandler, attrsInit, applyConv, HR.toOption, exK]
  · rw [C20_history_current]
    simp [structDict, hCfg, genFast, genHandlers, findHandler, hWorld, hEnvAt, regsOf, hHist, fastArgs, fastArg, lookup,
      applyHandler, callDisp, attrsInit, applyConv, HR.toOption, exK]

/-- **Negative witness** (replayed on the implementation by the registration-history stream of the check): the same
machine WITHOUT the invalidation — a memo of earlier decisions that registrations do not clear — still answers `K raw`
after the hook was registered, where the rule under the current registrations gives `K (hook raw)`. -/
theorem C20_history_stale_witness :
    (useStep hCfg hWorld hEnvAt (runWith false hCfg hWorld hEnvAt hHist init) 0 [("x", .str "5")]).2
      = some [("x", .coll .tuple [.str "K", .str "5"])]
    ∧ structDict hCfg (hEnvAt (regsOf hHist [])) (hWorld 0) [("x", .str "5")]
      = some [("x", .coll .tuple [.str "K", .coll .list [.str "5"]])] := by
  constructor
  · simp [runWith, stepWith, useStep, hCfg, init, hHist, hcLookup, genHandlers, findHandler, hWorld, hEnvAt, runHandlers,
      fastArgs, fastArg, lookup, applyHandler, attrsInit, applyConv, HR.toOption, exK]
  · simp [structDict, hCfg, genFast, genHandlers, findHandler, hWorld, hEnvAt, regsOf, hHist, fastArgs, fastArg, lookup,
      applyHandler, callDisp, attrsInit, applyConv, HR.toOption, exK]

end HistoryExamples

/-! ### what counts as "declares a converter": presence, not truthiness (`FieldConv/Presence.lean`)

A converter may be a callable OBJECT whose truth value is `False`.  The generated templates test `a.converter is not None`
and are covered by the theorems above as they stand (`findHandler` reads `f.conv.isSome`); `_structure_attribute` tests
truthiness.  Full statement (false for the code as it is, `C20_falsy_witness`; finding candidate F74):

    ∀ cfg env ps kvs, structDictP cfg env ps kvs = classSpec env cfg.prefer (rawsDict (ps.map (·.f)) kvs)
-/
section PresenceTheorems
open FieldConv.Presence

/-- the generating Converter, both templates, converter objects of ANY truth value: the rule (F35 region excluded) -/
theorem C20_gen_presence_partial (env : Env T) (prefer detailed : Bool) (ps : List (PField T)) (kvs : List (String × Obj))
    (hne : NoLazyEscape env prefer (ps.map (·.f))) :
    structDictP { gen := true, tupleStrat := false, detailed := detailed, prefer := prefer } env ps kvs
      = classSpec env prefer (rawsDict (ps.map (·.f)) kvs) := by
  have h := C20_gen_spec_partial env prefer (ps.map (·.f)) kvs hne
  cases detailed <;> simp [structDictP, structDict, h.1, h.2]

/-- the interpretive path (BaseConverter; both classes under the tuple strategy) computes the rule when every converter
object is truthy (and outside the F36 region) -/
theorem C20_interp_truthy_partial (env : Env T) (hn : NoDeepSHNF env) (prefer : Bool) (ps : List (PField T))
    (h : ∀ p ∈ ps, p.truthy = true) :
    (∀ kvs, interpDictP env prefer ps kvs = classSpec env prefer (rawsDict (ps.map (·.f)) kvs))
    ∧ (∀ xs, interpTupleP env prefer ps xs = classSpec env prefer (rawsTuple (ps.map (·.f)) xs)) := by
  have hs := C20_interp_spec_partial env hn prefer (ps.map (·.f))
  exact ⟨fun kvs => by rw [interpDictP_truthy env prefer ps kvs h]; exact hs.1 kvs,
         fun xs => by rw [interpTupleP_truthy env prefer ps xs h]; exact hs.2 xs⟩

/-- exactly what the interpretive path does with a FALSY converter: `_structure_attribute` answers as for the attribute
WITHOUT converter (the rule's no-converter case: the hook's result, an error when there is no hook, whatever the flag),
and `__init__` then applies the converter to that -/
theorem C20_interp_falsy_exact (env : Env T) (hn : NoDeepSHNF env) (prefer : Bool) (p : PField T) (raw : Obj)
    (hf : p.truthy = false) :
    structAttrP env prefer p raw = fieldSpec env prefer { p.f with conv := Option.none } raw := by
  have h := structAttr_spec env hn prefer { p.f with conv := Option.none } raw
  have hb : ∀ x : Option Obj, x.bind (applyConv ({ p.f with conv := Option.none } : FField T)) = x := by
    intro x; cases x <;> simp [applyConv]
  rw [hb] at h
  rw [structAttrP_seen]
  simp only [PField.seen, hf]
  exact h

def fkA : PField Nat := { f := { name := "a", ty := some 0, conv := some (exK "Ka"), dflt := Option.none }, truthy := false }
def fkC : PField Nat := { f := { name := "c", ty := some 1, conv := some (exK "Kc"), dflt := Option.none }, truthy := false }

/-- non-vacuity of `C20_gen_presence_partial` / `C20_interp_truthy_partial`: hypotheses hold, results are the rule's -/
example : NoLazyEscape exEnvOk true ([fkA, fkC].map (·.f)) := by
  intro f hf he
  simp [fkA, fkC] at hf
  rcases hf with rfl | rfl <;> simp [eagerField, exEnvOk, exEnv] at he ⊢

/-- **Negative witness** (F74 candidate; replayed on the implementation by the class-shape stream and, once recorded, by
the main stream): a falsy converter object.  Flag on, `a: <type with hook>`: the interpretive path gives `K (hook raw)`
where the rule (and the generated path) give `K raw`; flag off, `c: <type without hook>`: the interpretive path raises
where the rule (and the generated path) give `K raw`. -/
theorem C20_falsy_witness :
    interpDictP exEnvOk true [fkA] [("a", .str "5")] = some [("a", .coll .tuple [.str "Ka", .int 5])]
    ∧ classSpec exEnvOk true (rawsDict [fkA.f] [("a", .str "5")]) = some [("a", .coll .tuple [.str "Ka", .str "5"])]
    ∧ structDictP { gen := true, tupleStrat := false, detailed := true, prefer := true } exEnvOk [fkA] [("a", .str "5")]
        = some [("a", .coll .tuple [.str "Ka", .str "5"])]
    ∧ interpDictP exEnvOk false [fkC] [("c", .str "5")] = Option.none
    ∧ classSpec exEnvOk false (rawsDict [fkC.f] [("c", .str "5")]) = some [("c", .coll .tuple [.str "Kc", .str "5"])]
    ∧ structDictP { gen := true, tupleStrat := false, detailed := false, prefer := false } exEnvOk [fkC] [("c", .str "5")]
        = some [("c", .coll .tuple [.str "Kc", .str "5"])] := by
  refine ⟨?_, ?_, ?_, ?_, ?_, ?_⟩
  · simp [interpDictP, interpDictArgsP, structAttrP, fkA, lookup, callDisp, exEnvOk, exEnv, attrsInit, applyConv, exK]
  · simp [classSpec, rawsDict, fieldOutcome, fieldSpec, fkA, lookup, exK]
  · simp [structDictP, structDict, genDetailed, genHandlers, findHandler, detailedArgs, detailedArg, fkA, lookup, applyHandler,
      attrsInit, applyConv, HR.toOption, exK]
  · simp [interpDictP, interpDictArgsP, structAttrP, fkC, lookup, callDisp, exEnvOk, exEnv]
  · simp [classSpec, rawsDict, fieldOutcome, fieldSpec, fkC, lookup, hasHook, lookupBroken, exEnvOk, exEnv, exK]
  · simp [structDictP, structDict, genFast, genHandlers, findHandler, fastArgs, fastArg, fkC, lookup, applyHandler, exEnvOk, exEnv,
      attrsInit, applyConv, HR.toOption, exK]

end PresenceTheorems

end CattrsModel
