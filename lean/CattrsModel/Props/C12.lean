import CattrsModel.Disambig.Values
import CattrsModel.Disambig.Names
/-!
# C12 — automatic union disambiguation never picks the wrong class; it refuses instead

Model: `CattrsModel/Disambig/Model.lean` (both paths of `create_default_dis_func`, the recursion through
literal sub-unions, the optional-`None` wrapper).  `so : SetOrder` is the iteration order of Python sets
(`for name in uniq`) — every theorem is ∀ `so`, which is what "does not depend on the hash seed" means;
member order is the list `ms` of class indices — `C12_order*` quantify over its permutations.

Hypotheses that appear below and why:
* `t.WF`: attribute names of a class are distinct (always true in Python) and literal-typed fields are not
  renamed.  Renames are custom configuration (outside C12); the literal path reads `data[<attribute name>]`
  and would pick a wrong class if another field were renamed onto the discriminator's name.  In the
  unique-field path renames are modelled in full.
* `ms.Nodup`: `typing.Union` removes duplicates.
* `PayloadOf t k p`: `p` is an unstructured form of an instance of member `k` — keys the disambiguator
  regards as required are present (others may be omitted), no foreign keys, literal fields hold one of
  their literal values.
-/
namespace CattrsModel
open Disambig

/-! ## never wrong -/

/-- **C12_never_wrong.**  If structuring a payload of member `k` as the union yields an instance of a
member at all, it is member `k` — for every set iteration order and every member order. -/
theorem C12_never_wrong (so : SetOrder) (t : Table) (hwf : t.WF) (ms : List Nat) (hnd : ms.Nodup)
    (k : Nat) (hk : k ∈ ms) (p : Payload) (hp : PayloadOf t k p)
    (j : Nat) (h : resolve so t ms p = .ok j) : j = k :=
  resolveF_never_wrong sortStr sortStr_sub so t hwf p ms.length ms hnd k hk hp j h

/-- the same through the optional-`None` wrapper (`Union[A, B, None]`, `Optional[A]`) -/
theorem C12_never_wrong_optional (so : SetOrder) (t : Table) (hwf : t.WF) (hasNone : Bool)
    (ms : List Nat) (hnd : ms.Nodup) (k : Nat) (hk : k ∈ ms) (p : Payload) (hp : PayloadOf t k p)
    (j : Nat) (h : unionStructure so t hasNone ms (some p) = .ok j) : j = k := by
  simp only [unionStructure] at h
  split at h
  · simp at hk h; rw [← h, hk]
  · exact C12_never_wrong so t hwf ms hnd k hk p hp j h

/-- never wrong also held before the hash-seed repair: for ANY enumeration `dord` of the candidate
discriminators (the old code iterated a `set`). -/
theorem C12_never_wrong_any_discriminator_order (dord : List String → List String)
    (hd : ∀ l, (dord l).Perm l) (so : SetOrder) (t : Table) (hwf : t.WF) (ms : List Nat) (hnd : ms.Nodup)
    (k : Nat) (hk : k ∈ ms) (p : Payload) (hp : PayloadOf t k p)
    (j : Nat) (h : resolveF dord so t ms.length ms p = .ok j) : j = k :=
  resolveF_never_wrong dord (fun l _ hx => (hd l).mem_iff.mp hx) so t hwf p ms.length ms hnd k hk hp j h

/-! ## complete -/

/-- **C12_complete.**  If the hook for the union and for every literal sub-union a payload can be routed to
can be created (`deepOk`), then every payload of member `k` in which the literal-typed keys are present
(defaulted NON-literal keys may be omitted) is structured as member `k`. -/
theorem C12_complete (so : SetOrder) (t : Table) (hwf : t.WF) (ms : List Nat) (hnd : ms.Nodup)
    (k : Nat) (hk : k ∈ ms) (p : Payload) (hp : PayloadOf t k p) (hl : LitKeysPresent t k p)
    (hok : deepOk so t ms.length ms = true) : resolve so t ms p = .ok k :=
  resolveF_complete so t hwf p ms.length ms hnd k hk hp hl hok

/-- Unique-field path alone (no usable literal discriminator): creation succeeded ⇒ every member payload,
with any defaulted keys omitted, is structured as its member.  (`t.WF` not needed: renames are handled.) -/
theorem C12_complete_unique (so : SetOrder) (t : Table) (ms : List Nat) (hnd : ms.Nodup)
    (hlit : litSelect sortStr t ms = Option.none) (hok : createOk so t ms = true)
    (k : Nat) (hk : k ∈ ms) (p : Payload) (hp : PayloadOf t k p) : resolve so t ms p = .ok k := by
  unfold createOk at hok
  rw [hlit] at hok
  simp at hok
  obtain ⟨hlen, hmk⟩ := hok
  unfold resolve
  obtain ⟨n, hn⟩ : ∃ n, ms.length = n + 1 := ⟨ms.length - 1, by omega⟩
  rw [hn]
  unfold resolveF
  rw [if_neg (by omega), hlit]
  simp only
  cases h : mkUniq so t ms with
  | none => rw [h] at hmk; simp at hmk
  | some r =>
    obtain ⟨pins, fb⟩ := r
    simp only
    rw [uniq_correct so t ms hnd pins fb h k hk (pkeys p) (keysOf_of_payload hp)]

/-! ## refuses instead of guessing -/

/-- **C12_refuses.**  If a payload is an unstructured form of two different members (they cannot be told
apart on it), structuring raises — at hook creation or while structuring — whatever the orders. -/
theorem C12_refuses (so : SetOrder) (t : Table) (hwf : t.WF) (ms : List Nat) (hnd : ms.Nodup)
    (a b : Nat) (ha : a ∈ ms) (hb : b ∈ ms) (hab : a ≠ b) (p : Payload)
    (hpa : PayloadOf t a p) (hpb : PayloadOf t b p) : (resolve so t ms p).isRefusal = true := by
  cases h : resolve so t ms p with
  | ok j =>
    have h1 := C12_never_wrong so t hwf ms hnd a ha p hpa j h
    have h2 := C12_never_wrong so t hwf ms hnd b hb p hpb j h
    exact absurd (h1.symm.trans h2) hab
  | none => exact absurd h (resolveF_ne_none _ _ _ _ _ _)
  | refuseCreate => rfl
  | refuseResolve => rfl

/-- **C12_refuses_create** (syntactic form).  No usable literal discriminator, and two members `a ≠ b` such
that every required key of each is also a key of the other (no unique required field between them):
hook creation raises, for every set order and member order. -/
theorem C12_refuses_create (so : SetOrder) (t : Table) (ms : List Nat)
    (hlit : litSelect sortStr t ms = Option.none)
    (a b : Nat) (ha : a ∈ ms) (hb : b ∈ ms) (hab : a ≠ b)
    (h1 : Shadowed t a b) (h2 : Shadowed t b a) :
    createOk so t ms = false ∧ ∀ p, resolve so t ms p = .refuseCreate := by
  have hmk := mkUniq_none_of_shadowed so t ha hb hab h1 h2
  constructor
  · unfold createOk; rw [hlit, hmk]; simp
  · intro p
    unfold resolve
    have hlen := length_gt_one_of_two_mem ha hb hab
    obtain ⟨n, hn⟩ : ∃ n, ms.length = n + 1 := ⟨ms.length - 1, by omega⟩
    rw [hn]
    unfold resolveF
    rw [if_neg (by omega), hlit, hmk]

/-! ## order and hash-seed independence -/

/-- **C12_order.**  For a permutation of the members and two arbitrary set iteration orders, every member
payload gets the same outcome (same member, or the same kind of refusal). -/
theorem C12_order (so so' : SetOrder) (t : Table) (hwf : t.WF) (ms ms' : List Nat) (hperm : ms.Perm ms')
    (hnd : ms.Nodup) (k : Nat) (hk : k ∈ ms) (p : Payload) (hp : PayloadOf t k p) :
    resolve so t ms p = resolve so' t ms' p := by
  unfold resolve
  rw [← hperm.length_eq]
  exact resolveF_perm so so' t hwf p ms.length ms ms' hperm hnd k hk hp

/-- accept/refuse of hook creation is independent of member order and set iteration order -/
theorem C12_order_create (so so' : SetOrder) (t : Table) (hwf : t.WF) (ms ms' : List Nat)
    (hperm : ms.Perm ms') : createOk so t ms = createOk so' t ms' := by
  unfold createOk
  rw [hperm.length_eq, litSelect_perm t hwf hperm, mkUniq_isSome_perm t so so' ms ms' hperm]

/-- the same for the wrapped hook: `None` and member payloads -/
theorem C12_order_optional (so so' : SetOrder) (t : Table) (hwf : t.WF) (hasNone : Bool)
    (ms ms' : List Nat) (hperm : ms.Perm ms') (hnd : ms.Nodup) (x : Option Payload)
    (hx : ∀ p, x = some p → ∃ k ∈ ms, PayloadOf t k p) :
    unionStructure so t hasNone ms x = unionStructure so' t hasNone ms' x := by
  have hcr := C12_order_create so so' t hwf ms ms' hperm
  cases x with
  | none =>
    simp only [unionStructure]
    cases hasNone with
    | false => simp only; rw [hcr]
    | true =>
      match ms, ms', hperm, hcr with
      | [m], ms', hperm, _ =>
        have : ms' = [m] := List.perm_singleton.mp hperm.symm
        rw [this]
      | [], ms', hperm, hcr =>
        have e := List.nil_perm.mp hperm
        subst e
        simp only
        rw [hcr]
      | a :: b :: r, [], hperm, _ => exact absurd (List.perm_nil.mp hperm) (by simp)
      | a :: b :: r, [x], hperm, _ => have := hperm.length_eq; simp at this
      | a :: b :: r, x :: y :: r', hperm, hcr => simp only; rw [hcr]
  | some p =>
    obtain ⟨k, hk, hp⟩ := hx p rfl
    have hres := C12_order so so' t hwf ms ms' hperm hnd k hk p hp
    simp only [unionStructure]
    cases hasNone with
    | false => simpa using hres
    | true =>
      match ms, ms', hperm, hres with
      | [m], ms', hperm, _ =>
        have : ms' = [m] := List.perm_singleton.mp hperm.symm
        rw [this]
      | [], _, _, _ => simp at hk
      | a :: b :: r, [], hperm, _ => exact absurd (List.perm_nil.mp hperm) (by simp)
      | a :: b :: r, [x], hperm, _ => have := hperm.length_eq; simp at this
      | a :: b :: r, x :: y :: r', _, hres => simpa using hres

/-- `None` is returned as `None` whenever the wrapped hook exists -/
theorem C12_optional_none (so : SetOrder) (t : Table) (ms : List Nat)
    (h : createOk so t ms = true ∨ ms.length = 1) :
    unionStructure so t true ms Option.none = .none := by
  simp only [unionStructure]
  match ms, h with
  | [m], _ => rfl
  | [], h => rcases h with h | h <;> simp [createOk] at h
  | a :: b :: r, h =>
    rcases h with h | h
    · simp only; rw [h]; rfl
    · simp at h

/-- model adequacy: the fuel of the recursion (number of members) is only a termination device -/
theorem C12_fuel_irrelevant (so : SetOrder) (t : Table) (ms : List Nat) (p : Payload) (n : Nat)
    (h : ms.length ≤ n) (h0 : 0 < ms.length) : resolveF sortStr so t n ms p = resolve so t ms p :=
  resolveF_fuel_irrelevant sortStr so t p n ms.length ms h (Nat.le_refl _) (by omega) h0

/-- **C12_only_keys_and_literal_values.**  The choice of the member depends on the KEYS of the payload and on the values
under `Literal`-typed attribute names only: two payloads that agree there get the same outcome, for every union, member
order and set iteration order.  So the value types of the other attributes — containers, nested classes, the `T` of a
generic class and what the parametrisation `K[arg]` binds it to — cannot make the disambiguator pick another member (the
code works on `get_origin(cl) or cl`; what it must hand back is the member as written, which the check's oracle
observes on the structured result). -/
theorem C12_only_keys_and_literal_values (so : SetOrder) (t : Table) (hasNone : Bool) (ms : List Nat)
    (p p' : Payload) (h : SameView t p p') :
    unionStructure so t hasNone ms (some p) = unionStructure so t hasNone ms (some p') :=
  unionStructure_sameView so t hasNone ms p p' h

/-! ## non-vacuity: concrete unions satisfying the hypotheses -/

/-- `A{x,a} | B{x,y} | C{y}` (all required): the union on which the pre-repair single pass depended on the
member order.  Accepted in all orders; each member's payload is structured as that member. -/
def tF3 : Table :=
  [⟨[⟨"x", "x", true, Option.none⟩, ⟨"a", "a", true, Option.none⟩]⟩,
   ⟨[⟨"x", "x", true, Option.none⟩, ⟨"y", "y", true, Option.none⟩]⟩,
   ⟨[⟨"y", "y", true, Option.none⟩]⟩]

example : tF3.WF := wfB_sound (by decide)
example : PayloadOf tF3 1 [("x", 0), ("y", 0)] := payloadOfB_sound (by decide)
example : PayloadOf tF3 2 [("y", 7)] := payloadOfB_sound (by decide)
example : deepOk SetOrder.id tF3 3 [0, 1, 2] = true := by decide
example : resolve SetOrder.id tF3 [0, 1, 2] [("x", 0), ("y", 0)] = .ok 1 := by decide
example : resolve SetOrder.rev tF3 [2, 0, 1] [("y", 7)] = .ok 2 := by decide
example : createOk SetOrder.id tF3 [2, 1, 0] = true := by decide
example : [0, 1, 2].Perm [2, 0, 1] := by decide

/-- defaults and a rename: `A{a, d=…}`, `B{a, e renamed to "d"}` — both classes have the key set `{a, d}`,
neither has a required key of its own ⇒ two classes remain unpinned ⇒ hook creation is refused. -/
def tRefuse : Table :=
  [⟨[⟨"a", "a", true, Option.none⟩, ⟨"d", "d", false, Option.none⟩]⟩,
   ⟨[⟨"a", "a", true, Option.none⟩, ⟨"e", "d", true, Option.none⟩]⟩]

example : Shadowed tRefuse 0 1 ∧ Shadowed tRefuse 1 0 := by
  constructor <;> (intro k hk _; simp [tRefuse, Table.cls, CSig.keys] at hk ⊢; exact hk)
example : litSelect sortStr tRefuse [0, 1] = Option.none := by decide
example : resolve SetOrder.id tRefuse [1, 0] [("a", 1), ("d", 2)] = .refuseCreate := by decide
/-- … and that payload is indeed an unstructured form of both members (hypotheses of `C12_refuses`) -/
example : PayloadOf tRefuse 0 [("a", 1), ("d", 2)] ∧ PayloadOf tRefuse 1 [("a", 1), ("d", 2)] :=
  ⟨payloadOfB_sound (by decide), payloadOfB_sound (by decide)⟩

/-- The literal union of finding F22: `A{t1: Literal[1], t2: Literal["x"]}`, `B{t1: Literal[1, 2],
t2: Literal["x"]}`, `C{t1: Literal[2], t2: Literal["y"]}` (values coded 1, 2, 10 = "x", 11 = "y").
Both discriminators have a largest bucket of two. -/
def tF22 : Table :=
  [⟨[⟨"t1", "t1", true, some [1]⟩, ⟨"t2", "t2", true, some [10]⟩]⟩,
   ⟨[⟨"t1", "t1", true, some [1, 2]⟩, ⟨"t2", "t2", true, some [10]⟩]⟩,
   ⟨[⟨"t1", "t1", true, some [2]⟩, ⟨"t2", "t2", true, some [11]⟩]⟩]

example : tF22.WF := wfB_sound (by decide)
example : PayloadOf tF22 2 [("t1", 2), ("t2", 11)] ∧ LitKeysPresent tF22 2 [("t1", 2), ("t2", 11)] :=
  ⟨payloadOfB_sound (by decide), litKeysPresentB_sound (by decide)⟩
/-- `C` is told apart by the literal value of `t2` (the last minimiser in sorted order) … -/
example : resolve SetOrder.id tF22 [0, 1, 2] [("t1", 2), ("t2", 11)] = .ok 2 := by decide
/-- … while `B(2, "x")` is sent to the sub-union `A | B`, for which no hook can be created: refused, in
every member order (here two of them; `C12_order` gives all). -/
example : resolve SetOrder.id tF22 [0, 1, 2] [("t1", 2), ("t2", 10)] = .refuseResolve := by decide
example : resolve SetOrder.rev tF22 [2, 1, 0] [("t1", 2), ("t2", 10)] = .refuseResolve := by decide
/-- a literal union with a genuine sub-union recursion that succeeds: add a unique required key to `B` -/
def tSub : Table :=
  [⟨[⟨"t1", "t1", true, some [1]⟩, ⟨"t2", "t2", true, some [10]⟩]⟩,
   ⟨[⟨"t1", "t1", true, some [1, 2]⟩, ⟨"t2", "t2", true, some [10]⟩, ⟨"u", "u", true, Option.none⟩]⟩,
   ⟨[⟨"t1", "t1", true, some [2]⟩, ⟨"t2", "t2", true, some [11]⟩]⟩]
example : deepOk SetOrder.id tSub 3 [0, 1, 2] = true := by decide
example : resolve SetOrder.id tSub [2, 0, 1] [("t1", 1), ("t2", 10), ("u", 5)] = .ok 1 := by decide
example : resolve SetOrder.id tSub [1, 2, 0] [("t1", 1), ("t2", 10)] = .ok 0 := by decide
example : unionStructure SetOrder.id tSub true [1, 2, 0] Option.none = .none := by decide
example : unionStructure SetOrder.id tSub true [1] (some [("t1", 1), ("t2", 10), ("u", 5)]) = .ok 1 := by decide

/-- non-vacuity of `C12_only_keys_and_literal_values`: on `tSub` the value under the non-literal key `u` is irrelevant
(`5` vs `0`: what the check sends for a container or a nested instance), the values under `t1`, `t2` are not -/
example : SameView tSub [("t1", 1), ("t2", 10), ("u", 5)] [("t1", 1), ("t2", 10), ("u", 0)] :=
  sameViewB_sound (by decide)
example : unionStructure SetOrder.id tSub false [2, 0, 1] (some [("t1", 1), ("t2", 10), ("u", 0)]) = .ok 1 := by decide
example : unionStructure SetOrder.id tSub false [2, 0, 1] (some [("t1", 2), ("t2", 11), ("u", 0)]) ≠ .ok 1 := by decide

/-! ## regression witness for finding F22 (repaired by `sorted(discriminators)`) -/

/-- With an arbitrary enumeration of the candidate discriminators (the pre-repair code iterated a `set`,
so the enumeration depended on `PYTHONHASHSEED`) the outcome for a valid member payload is NOT determined:
on `tF22`, `B(t1=2, t2="x")` is structured as `B` under one enumeration and refused under the other.
(`C12_order` is therefore false of the pre-repair code; `C12_never_wrong_any_discriminator_order` still
holds of it.) -/
theorem C12_F22_literal_tie_witness :
    ∃ (dord dord' : List String → List String), (∀ l, (dord l).Perm l) ∧ (∀ l, (dord' l).Perm l) ∧
      ∃ (t : Table) (ms : List Nat) (k : Nat) (p : Payload), t.WF ∧ ms.Nodup ∧ k ∈ ms ∧ PayloadOf t k p ∧
        resolveF dord SetOrder.id t ms.length ms p = .ok k ∧
        resolveF dord' SetOrder.id t ms.length ms p = .refuseResolve :=
  ⟨List.reverse, fun l => l, fun l => List.reverse_perm l, fun l => List.Perm.refl l,
   tF22, [0, 1, 2], 1, [("t1", 2), ("t2", 10)],
   wfB_sound (by decide), by decide, by decide, payloadOfB_sound (by decide), by decide, by decide⟩

/-! ## regression witness: a private attribute renamed onto another member's key -/

/-- `Account{_key renamed to "key"}` and `Token{key, ttl = 60}`: both members put the required key `"key"` into their
unstructured form, neither has a required key of its own. -/
def tPrivate : Table :=
  [⟨[⟨"_key", "key", true, Option.none⟩]⟩,
   ⟨[⟨"key", "key", true, Option.none⟩, ⟨"ttl", "ttl", false, Option.none⟩]⟩]

/-- what a disambiguator sees that misses the override of the private attribute (it looks the override up under
another spelling -- the `__init__` alias `key` -- finds none and falls back to the attribute NAME) -/
def tPrivateMissed : Table :=
  [⟨[⟨"_key", "_key", true, Option.none⟩]⟩,
   ⟨[⟨"key", "key", true, Option.none⟩, ⟨"ttl", "ttl", false, Option.none⟩]⟩]

/-- The renamed key is what counts.  With the members' real keys the union is refused at hook creation (in every member
order: `C12_order_create`); a disambiguator that reads the un-renamed name for the private attribute creates the hook
and structures the unstructured form `{"key": 7}` of an `Account` as a `Token` -- the wrong member, silently.  (The
payload is an unstructured form of member 0 of the real table and is NOT one of member 0 of the misread table: the
never-wrong theorem is about the table the hooks really use.)  The check replays the union on the implementation. -/
theorem C12_private_rename_witness :
    tPrivate.WF ∧ PayloadOf tPrivate 0 [("key", 7)] ∧
    resolve SetOrder.id tPrivate [0, 1] [("key", 7)] = .refuseCreate ∧
    resolve SetOrder.id tPrivate [1, 0] [("key", 7)] = .refuseCreate ∧
    resolve SetOrder.id tPrivateMissed [0, 1] [("key", 7)] = .ok 1 ∧
    resolve SetOrder.rev tPrivateMissed [1, 0] [("key", 7)] = .ok 1 :=
  ⟨wfB_sound (by decide), payloadOfB_sound (by decide), by decide, by decide, by decide, by decide⟩

/-! ## attribute names and `__init__` aliases are irrelevant in the unique-field path -/

/-- **C12_names_irrelevant.**  In a union without Literal-typed attributes (the unique-required-field path) the outcome
-- which member, `None`, or which refusal -- is a function of the classes' KEY VIEW alone: per attribute the dict key its
hooks use (`override(rename=...)`, else the name) and whether it has a default.  Two class tables with the same key view
behave identically for every payload, member order, set iteration order and optional wrapper, whatever the attributes
are CALLED: private names (`_key`, whose attrs `__init__` alias is `key`), explicit aliases, or a rename that makes the
name and the key differ.  (With Literal-typed attributes the literal path reads `data[<attribute name>]`: there the
name of the literal attribute is its key, hypothesis `WF`.) -/
theorem C12_names_irrelevant (so : SetOrder) (t t' : Table) (h : SameKeyView t t') (hl : NoLits t) (hl' : NoLits t')
    (hasNone : Bool) (ms : List Nat) (p : Option Payload) :
    unionStructure so t hasNone ms p = unionStructure so t' hasNone ms p :=
  unionStructure_sameKeyView h hl hl' so hasNone ms p

/-- non-vacuity: `Account{_key -> "key"}` and the same class with a PUBLIC attribute `key` have the same key view -/
def tPublic : Table :=
  [⟨[⟨"key", "key", true, Option.none⟩]⟩,
   ⟨[⟨"key", "key", true, Option.none⟩, ⟨"ttl", "ttl", false, Option.none⟩]⟩]

example : SameKeyView tPrivate tPublic := by
  intro i
  rcases i with _ | _ | i <;> simp [Table.cls, tPrivate, tPublic, CSig.keyView]
example : NoLits tPrivate ∧ NoLits tPublic := by
  constructor <;> (intro i f hf; rcases i with _ | _ | i <;> simp [Table.cls, tPrivate, tPublic] at hf <;>
    (try rcases hf with rfl | rfl) <;> (try subst hf) <;> rfl)
example : unionStructure SetOrder.id tPublic false [0, 1] (some [("key", 7)]) = .refuseCreate := by decide
/-- … while the misread table of the witness above does NOT have the key view of the real one -/
example : ¬ SameKeyView tPrivate tPrivateMissed := by
  intro h; have := h 0; simp [Table.cls, tPrivate, tPrivateMissed, CSig.keyView] at this

end CattrsModel
