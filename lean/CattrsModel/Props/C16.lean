import Std.Data.String.ToInt
import CattrsModel.Preconf.Lemmas
/-!
# C16 — preconfigured converters: loads(dumps(x, unstructure_as=T), T) == x

Property theorems only.  Model: `Preconf/Model.lean` (format layers of `cattrs.preconf.{json,pyyaml,msgspec}`
over an abstract codec).  The property is *partial* by design: the serialisation libraries are not modelled; their
behaviour is the hypothesis `enc` ("the library can encode r") / `norm` (`decode (encode r)`), and the
string-level behaviour of CPython (`isoformat`/`fromisoformat`, base85/base64, `str`/`int`, `repr`/`float`) is the
law record `Env.OK`.  Both are diff-checked against the real libraries by the check on every generated case.

Scope predicates (all decidable):
* `w.WF`          enum tables as Python builds them (int/str values, pairwise distinct, consistent with the mix-in);
* `sup w cf T`    `FmtSupported`: the types the property quantifies over for this format.  Excluded, because the
                  unchanged tree violates the property there (recorded findings, replayed by the check):
                  F17 int-valued Enum mapping keys, F18 bool mapping keys, F41 int/bool Literal mapping keys (json,
                  msgspec); F19 msgspec `deque[T]` with pass-through elements; F20 msgspec mappings keyed by a plain
                  str-valued Enum whose values need a hook; F42 `Counter[K]` keys are never unstructured;
* `confP w T x`   x is a value of T at every depth (sets and dict keys duplicate-free);
* `withinLimits`  ints within msgspec's documented 64-bit range (floats are finite and datetimes naive by
                  construction of the object universe).

Full statement (every constructor, every nesting):

    theorem C16_roundtrip (w env cf T x) : w.WF → env.OK → sup w cf T → confP w T x → withinLimits cf.fmt x →
        enc w cf.fmt (unP w env cf T x) = true ∧ stP w env cf T (norm w env cf.fmt (unP w env cf T x)) = some x

Proved below as `C16_roundtrip_partial` with the extra hypothesis `frag cf T`: all leaf types (int, float, str,
bytes, bool, datetime, date, enums of the three kinds, literals, native unions), Optional, every homogeneous
sequence kind (incl. the msgspec pass-through decisions identity / to_builtins), json sets and frozensets, pyyaml
frozensets, heterogeneous tuples, and attrs classes / dataclasses through the generated dict hooks — nested without
bound, for all three formats, with or without a user hook pair on `float`.  Not yet proved (the executable model
covers them and the check compares them on every run; the check also verifies on every generated case that the
model satisfies the full statement): mappings and `Counter`, TypedDicts, collections unstructured to a
`set`/`frozenset` (pyyaml `set`, msgspec sets — they need the injectivity of the element encoding), and msgspec
classes handed to `to_builtins` wholesale.
-/
namespace CattrsModel
open Preconf

/-- **Round trip through the serialisation format** (fragment `frag`, see the header): `dumps` succeeds — the
unstructured data contains only what the library can encode — and `loads(dumps(x, unstructure_as=T), T)` is `x`
with `x`'s class at every depth (model objects carry their classes). -/
theorem C16_roundtrip_partial (w : EW) (env : Env) (cf : Conf) (t : PTy) (x : Obj)
    (hw : w.WF = true) (he : env.OK) (hs : sup w cf t = true) (hf : frag cf t = true)
    (hc : confP w t x = true) (_hl : withinLimits cf.fmt x = true) :
    enc w cf.fmt (unP w env cf t x) = true
      ∧ stP w env cf t (norm w env cf.fmt (unP w env cf t x)) = some x :=
  rt_frag hw he t x hs hf hc

/-- the same as a statement about `loads ∘ dumps` -/
theorem C16_loads_dumps_partial (w : EW) (env : Env) (cf : Conf) (t : PTy) (x : Obj)
    (hw : w.WF = true) (he : env.OK) (hs : sup w cf t = true) (hf : frag cf t = true)
    (hc : confP w t x = true) (hl : withinLimits cf.fmt x = true) :
    roundTrip w env cf t x = some x := by
  obtain ⟨h1, h2⟩ := C16_roundtrip_partial w env cf t x hw he hs hf hc hl
  simp [roundTrip, h1, h2]

theorem customF_of_float {cf : Conf} (hu : cf.uhook.isSome = true) :
    ∀ (fs : List (String × PTy)) (n : String), (n, PTy.float) ∈ fs → customF cf fs = true
  | [], _, h => by simp at h
  | (n0, t0) :: fs, n, h => by
      simp only [List.mem_cons, Prod.mk.injEq] at h
      rcases h with ⟨_, rfl⟩ | h
      · simp [customF, hk, hu]
      · simp [customF, customF_of_float hu fs n h]

/-- **User hooks are honoured for attrs classes and dataclasses alike.**  With a hook pair registered on `float`
(`v ↦ v + d/2` / `v ↦ float(v) - d/2`, any `d`), every class — `dc = false` (attrs) or `dc = true` (dataclass) —
with a `float` field round-trips on every format: in particular the msgspec converter does not hand such a
dataclass to `to_builtins` (which would skip the unstructure hook and then apply the structure hook: F8). -/
theorem C16_user_hooks (w : EW) (env : Env) (fmt : Fmt) (d : Int) (c : Nat) (dc : Bool)
    (fs : List (String × PTy)) (x : Obj) (n : String)
    (hw : w.WF = true) (he : env.OK) (hfl : (n, PTy.float) ∈ fs)
    (hs : sup w ⟨fmt, some d⟩ (.cls c dc fs) = true) (hf : fragF ⟨fmt, some d⟩ fs = true)
    (hc : confP w (.cls c dc fs) x = true) :
    roundTrip w env ⟨fmt, some d⟩ (.cls c dc fs) x = some x := by
  have hcust : customF ⟨fmt, some d⟩ fs = true := customF_of_float rfl fs n hfl
  have hfrag : frag ⟨fmt, some d⟩ (.cls c dc fs) = true := by simp [frag, hcust, hf]
  obtain ⟨h1, h2⟩ := rt_frag hw he (.cls c dc fs) x hs hfrag hc
  simp [roundTrip, h1, h2]

/-! ### Non-vacuity -/
section Examples

/-- an environment satisfying the assumed string-level laws (identity codings, `Int.repr`/`String.toInt?`) -/
def c16Env : Env where
  iso n := String.ofList (List.replicate n 'x')
  unIso s := some s.length
  b85 h := h
  unb85 s := some s
  b64 h := h
  unb64 s := some s
  intStr i := i.repr
  parseInt s := s.toInt?
  fltStr k := k.repr
  parseFlt s := s.toInt?

theorem c16Env_ok : c16Env.OK where
  iso n := by simp [c16Env]
  b85 _ := rfl
  b85e := rfl
  b64 _ := rfl
  int i := Int.toInt?_repr i
  flt k := Int.toInt?_repr k

def exW : EW := { enums := [(.intMix, [.int 1, .int 2]), (.plain, [.str "a"])] }

/-- a dataclass with a float field (user hook), a private field, optional bytes in a list, a heterogeneous tuple of
a datetime and enum members, nested in a deque of optionals -/
def exT : PTy :=
  .coll .deque (.opt (.cls 0 true
    [("a", .float), ("_p", .coll .list (.opt .bytes)), ("t", .tupleHet [.datetime, .enum 0, .enum 1]),
     ("s", .coll .tupleHomo .date)]))

def exX : Obj :=
  .coll .deque [.none, .inst 0
    [("a", .flt 3), ("_p", .coll .list [.none, .bytes "00ff"]), ("t", .coll .tuple [.opaque 4, .enumM 0 1, .enumM 1 0]),
     ("s", .coll .tuple [.opaque 7, .opaque 9])]]

example : exW.WF = true := by decide
example : sup exW ⟨.msgspec, some 2000⟩ exT = true := by decide
example : frag ⟨.msgspec, some 2000⟩ exT = true := by decide
example : sup exW ⟨.json, Option.none⟩ exT = true := by decide
example : frag ⟨.json, Option.none⟩ exT = true := by decide
example : confP exW exT exX = true := by decide
example : withinLimits .msgspec exX = true := by decide
example : sup exW ⟨.json, Option.none⟩ (.coll .fset (.enum 1)) = true ∧ frag ⟨.json, Option.none⟩ (.coll .fset (.enum 1)) = true
    ∧ confP exW (.coll .fset (.enum 1)) (.coll .fset [.enumM 1 0]) = true := by decide
example : roundTrip exW c16Env ⟨.msgspec, some 2000⟩ exT exX = some exX :=
  C16_loads_dumps_partial _ _ _ _ _ (by decide) c16Env_ok (by decide) (by decide) (by decide) (by decide)
end Examples

/-! ### Negative witnesses: the recorded findings (each input is replayed on the real code by the check) -/
section Witnesses

/-- F17 (json, also msgspec): a mapping keyed by an int-valued Enum does not come back — the key arrives as the
string `intStr 1`, which is not a value of the enum. -/
theorem C16_F17_int_enum_key_witness (env : Env) :
    roundTrip { enums := [(.intMix, [.int 1])] } env ⟨.json, Option.none⟩ (.map .dict (.enum 0) .int)
      (.dict [(.enumM 0 0, .int 1)]) = Option.none := by
  simp [roundTrip, unP, enc, encKV, encKey, norm, normKV, normKey, mkDict, dictSet, stP, mapOpt, enumOfP, enumIdx,
    EW.kind, EW.members, EW.value, Obj.pyEq, Obj.num2?, toIntE]

/-- F18 (json): a `False` key comes back as `True` (`bool("false")`). -/
theorem C16_F18_bool_key_witness (env : Env) :
    roundTrip { enums := [] } env ⟨.json, Option.none⟩ (.map .dict .bool .int) (.dict [(.bool false, .int 1)])
      = some (.dict [(.bool true, .int 1)]) := by
  simp [roundTrip, unP, enc, encKV, encKey, norm, normKV, normKey, mkDict, dictSet, stP, mapOpt, toIntE, Obj.truthy]

/-- F19 (msgspec): `deque[int]` is passed through and the library cannot encode a deque. -/
theorem C16_F19_deque_witness (env : Env) :
    roundTrip { enums := [] } env ⟨.msgspec, Option.none⟩ (.coll .deque .int) (.coll .deque [.int 1]) = Option.none := by
  simp [roundTrip, unP, hk, isSetK, enc]

/-- F20 (msgspec): a mapping keyed by a plain str-valued Enum with values that need a hook keeps the members as
keys, which the encoder refuses. -/
theorem C16_F20_plain_str_enum_key_witness (env : Env) :
    roundTrip { enums := [(.plain, [.str "a"])] } env ⟨.msgspec, Option.none⟩ (.map .dict (.enum 0) (.opt .int))
      (.dict [(.enumM 0 0, .int 1)]) = Option.none := by
  simp [roundTrip, unP, hk, enc, encKV, encKey, mkDict, dictSet, EW.kind, EW.value, EW.members, isIntObj]

/-- F41 (json, also msgspec): an int-valued Literal key comes back as a string the literal hook rejects. -/
theorem C16_F41_int_literal_key_witness (env : Env) :
    roundTrip { enums := [] } env ⟨.json, Option.none⟩ (.map .dict (.lit [.int 1]) .int) (.dict [(.int 1, .int 1)])
      = Option.none := by
  simp [roundTrip, unP, enc, encKV, encKey, norm, normKV, normKey, mkDict, dictSet, stP, mapOpt, Obj.memPy, Obj.pyEq,
    Obj.num2?, toIntE]

/-- F42 (every converter; here json): `Counter[bytes]` keys are not unstructured, and json cannot encode bytes keys. -/
theorem C16_F42_counter_key_witness (env : Env) :
    roundTrip { enums := [] } env ⟨.json, Option.none⟩ (.map .counter .bytes .int) (.dict [(.bytes "61", .int 1)])
      = Option.none := by
  simp [roundTrip, unP, enc, encKV, encKey, mkDict, dictSet]

/-- F8 (repaired in /repo by 14bc408): had the msgspec converter handed a dataclass with a hooked `float` field to
`to_builtins` (the pre-fix decision), the unstructure hook would be skipped and the structure hook applied:
`D(a=1.0)` comes back as `D(a=1.0 - d/2)`. -/
theorem C16_F8_dataclass_passthrough_witness (env : Env) (d : Int) (hd : d ≠ 0) :
    stP { enums := [] } env ⟨.msgspec, some d⟩ (.cls 0 true [("a", .float)])
        (norm { enums := [] } env .msgspec (toB { enums := [] } env (.inst 0 [("a", .flt 2)])))
      ≠ some (.inst 0 [("a", .flt 2)]) := by
  simp [toB, toBF, norm, normKV, normKey, mkDict, dictSet, stP, Preconf.stF, dlookup, Obj.pyEq, Obj.num2?, toFltE]
  omega

end Witnesses

end CattrsModel
