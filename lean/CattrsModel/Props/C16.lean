import Std.Data.String.ToInt
import CattrsModel.Preconf.Lemmas7
/-!
# C16 — preconfigured converters: loads(dumps(x, unstructure_as=T), T) == x

Property theorems only.  Model: `Preconf/Model.lean` (format layers of `cattrs.preconf.{json,pyyaml,msgspec}`
over an abstract codec).  The property is *partial* by design in one respect only: the serialisation libraries are
not modelled; their behaviour is the hypothesis `enc` ("the library can encode r") / `norm` (`decode (encode r)`),
and the string-level behaviour of CPython (`isoformat`/`fromisoformat`, base85/base64, `str`/`int`, `repr`/`float`)
is the law record `Env.OK`.  Both are diff-checked against the real libraries by the check on every generated case.

Scope predicates (all decidable):
* `w.WF`          enum tables as Python builds them (int/str values, pairwise distinct, consistent with the mix-in);
* `sup w cf T`    `FmtSupported`: the types the property quantifies over for this format.  Excluded, because the
                  unchanged tree violates the property there (recorded findings, replayed by the check):
                  F17 int-valued Enum mapping keys, F18 bool mapping keys, F41 int/bool Literal mapping keys (json,
                  msgspec); F19 msgspec `deque[T]` with pass-through elements; F20 msgspec mappings keyed by a plain
                  str-valued Enum whose values need a hook (a `Counter`'s counts always do: their handler is that of
                  `Any`).  `Counter[K]` is supported for every key type `K` a mapping supports (F42 — the keys of a
                  Counter were never unstructured — is repaired in /repo; the model is the repaired code);
* `confP w T x`   x is a value of T at every depth (sets and dict keys duplicate-free);
* `withinLimits`  ints within msgspec's documented 64-bit range (floats are finite and datetimes naive by
                  construction of the object universe; the model's codec does not depend on the magnitude of ints,
                  so the hypothesis is carried for the statement's sake and not used by the proof).

`C16_roundtrip` below is the full statement: every constructor of the type language, every nesting, all three
formats, with or without a user hook pair on `float` — leaf types (int, float, str, bytes, bool, datetime, date,
enums of the three kinds, literals, native unions), Optional, every homogeneous sequence kind (incl. the msgspec
pass-through decisions identity / to_builtins), sets and frozensets whether they are unstructured to a list (json,
pyyaml frozensets) or to a `set`/`frozenset` (pyyaml sets, msgspec: by the injectivity of the element encoding up to
Python `==`, `unP_inj`), heterogeneous tuples, mappings of every kind (generated mapping hook, msgspec pass-through
to `to_builtins`; keys as sent / as decoded: `key_unP`, `key_toB`; `Counter[K]` is a mapping that is never passed
through), attrs classes and
dataclasses through the generated dict hooks or (msgspec) handed wholesale to `to_builtins` (`rtb`), TypedDicts by
entrywise hooks (json, pyyaml) or (msgspec) as bare mappings unstructured by run-time class (`rtr`).
Proof: `Preconf/Lemmas.lean` … `Lemmas7.lean` (`rt_all`: mutual structural recursion on the type).
-/
namespace CattrsModel
open Preconf

/-- **Round trip through the serialisation format**, for every supported type: `dumps` succeeds — the unstructured
data contains only what the library can encode — and `loads(dumps(x, unstructure_as=T), T)` is `x` with `x`'s class at
every depth (model objects carry their classes). -/
theorem C16_roundtrip (w : EW) (env : Env) (cf : Conf) (t : PTy) (x : Obj)
    (hw : w.WF = true) (he : env.OK) (hs : sup w cf t = true)
    (hc : confP w t x = true) (_hl : withinLimits cf.fmt x = true) :
    enc w cf.fmt (unP w env cf t x) = true
      ∧ stP w env cf t (norm w env cf.fmt (unP w env cf t x)) = some x :=
  rt_all hw he t x hs hc

/-- the same as a statement about `loads ∘ dumps` -/
theorem C16_loads_dumps (w : EW) (env : Env) (cf : Conf) (t : PTy) (x : Obj)
    (hw : w.WF = true) (he : env.OK) (hs : sup w cf t = true)
    (hc : confP w t x = true) (hl : withinLimits cf.fmt x = true) :
    roundTrip w env cf t x = some x := by
  obtain ⟨h1, h2⟩ := C16_roundtrip w env cf t x hw he hs hc hl
  simp [roundTrip, h1, h2]

/-- msgspec, TypedDict payloads: values met by **run-time class** (`converter.unstructure(v)` without a declared
type, which is how the msgspec converter treats the entries of a TypedDict) also survive the codec and are
rebuilt by `structure(·, T)`. -/
theorem C16_runtime_class (w : EW) (env : Env) (uh : Option Int) (t : PTy) (x : Obj)
    (hw : w.WF = true) (he : env.OK) (hs : sup w ⟨.msgspec, uh⟩ t = true) (hsafe : rtSafe w t = true)
    (hc : confP w t x = true) :
    enc w .msgspec (unRT w env ⟨.msgspec, uh⟩ t x) = true
      ∧ stP w env ⟨.msgspec, uh⟩ t (norm w env .msgspec (unRT w env ⟨.msgspec, uh⟩ t x)) = some x :=
  rtr hw he rfl t x hs hsafe hc

theorem customF_of_float {cf : Conf} (hu : cf.uhook.isSome = true) :
    ∀ (fs : List (String × PTy)) (n : String), (n, PTy.float) ∈ fs → customF cf fs = true
  | [], _, h => by simp at h
  | (n0, t0) :: fs, n, h => by
      simp only [List.mem_cons, Prod.mk.injEq] at h
      rcases h with ⟨_, rfl⟩ | h
      · simp [customF, hk, hu]
      · simp [customF, customF_of_float hu fs n h]

/-- **User hooks are honoured for attrs classes and dataclasses alike.**  With a hook pair registered on `float`
(`v ↦ v + d/2` / `v ↦ float(v) - d/2`, any `d`), every class — `dc = false` (attrs) or `dc = true` (dataclass) —
with a `float` field round-trips on every format, and on msgspec such a class is *not* handed to `to_builtins`
(which would skip the unstructure hook and then apply the structure hook: F8): its unstructured form is the dict
built by the generated hook. -/
theorem C16_user_hooks (w : EW) (env : Env) (fmt : Fmt) (d : Int) (c : Nat) (dc : Bool)
    (fs : List (String × PTy)) (x : Obj) (n : String)
    (hw : w.WF = true) (he : env.OK) (hfl : (n, PTy.float) ∈ fs)
    (hs : sup w ⟨fmt, some d⟩ (.cls c dc fs) = true)
    (hc : confP w (.cls c dc fs) x = true) :
    roundTrip w env ⟨fmt, some d⟩ (.cls c dc fs) x = some x
      ∧ ∃ vs, x = .inst c vs ∧ unP w env ⟨fmt, some d⟩ (.cls c dc fs) x = .dict (unF w env ⟨fmt, some d⟩ fs vs) := by
  have hcust : customF ⟨fmt, some d⟩ fs = true := customF_of_float rfl fs n hfl
  obtain ⟨h1, h2⟩ := rt_all (env := env) hw he (.cls c dc fs) x hs hc
  refine ⟨by simp [roundTrip, h1, h2], ?_⟩
  cases x <;> simp [confP] at hc
  rename_i c' vs
  obtain ⟨rfl, _⟩ := hc
  exact ⟨vs, rfl, by simp [unP, hcust]⟩

/-! ### Non-vacuity -/
section Examples

/-- an environment satisfying the assumed string-level laws (identity codings, `Int.repr`/`String.toInt?`) -/
def c16Env : Env where
  iso n := String.ofList (List.replicate n 'x')
  unIso s := some s.length
  b85 h := h
  unb85 s := some s
  b64 h := h
  unb64 s := some s
  intStr i := i.repr
  parseInt s := s.toInt?
  fltStr k := k.repr
  parseFlt s := s.toInt?

theorem c16Env_ok : c16Env.OK where
  iso n := by simp [c16Env]
  b85 _ := rfl
  b85e := rfl
  b64 _ := rfl
  int i := Int.toInt?_repr i
  flt k := Int.toInt?_repr k

def exW : EW := { enums := [(.intMix, [.int 1, .int 2]), (.plain, [.str "a"])] }

/-- a dataclass with a float field (user hook), a private field, optional bytes in a list, a heterogeneous tuple of
a datetime and enum members, nested in a deque of optionals -/
def exT : PTy :=
  .coll .deque (.opt (.cls 0 true
    [("a", .float), ("_p", .coll .list (.opt .bytes)), ("t", .tupleHet [.datetime, .enum 0, .enum 1]),
     ("s", .coll .tupleHomo .date)]))

def exX : Obj :=
  .coll .deque [.none, .inst 0
    [("a", .flt 3), ("_p", .coll .list [.none, .bytes "00ff"]), ("t", .coll .tuple [.opaque 4, .enumM 0 1, .enumM 1 0]),
     ("s", .coll .tuple [.opaque 7, .opaque 9])]]

example : exW.WF = true := by decide
example : sup exW ⟨.msgspec, some 2000⟩ exT = true := by decide
example : sup exW ⟨.json, Option.none⟩ exT = true := by decide
example : confP exW exT exX = true := by decide
example : withinLimits .msgspec exX = true := by decide
example : sup exW ⟨.json, Option.none⟩ (.coll .fset (.enum 1)) = true
    ∧ confP exW (.coll .fset (.enum 1)) (.coll .fset [.enumM 1 0]) = true := by decide
example : roundTrip exW c16Env ⟨.msgspec, some 2000⟩ exT exX = some exX :=
  C16_loads_dumps _ _ _ _ _ (by decide) c16Env_ok (by decide) (by decide) (by decide)

/-- a TypedDict holding a mapping with int keys and set values, a `Counter`, a dataclass without custom fields
(msgspec: handed to `to_builtins`), a frozenset of enum members and an optional date -/
def exT2 : PTy :=
  .td [("m", true, .map .dict .int (.coll .set .str)), ("c", false, .map .counter .str .int),
       ("p", true, .cls 1 true [("x", .int), ("d", .datetime), ("b", .bytes)]),
       ("f", false, .coll .fset (.enum 0)), ("o", true, .opt .date)]

def exX2 : Obj :=
  .dict [(.str "m", .dict [(.int 1, .coll .set [.str "a", .str "b"]), (.int 2, .coll .set [])]),
         (.str "c", .dict [(.str "k", .int 2)]),
         (.str "p", .inst 1 [("x", .int 3), ("d", .opaque 4), ("b", .bytes "00ff")]),
         (.str "f", .coll .fset [.enumM 0 1, .enumM 0 0]), (.str "o", .opaque 5)]

example : sup exW ⟨.msgspec, Option.none⟩ exT2 = true ∧ sup exW ⟨.yaml, some 3⟩ exT2 = true
    ∧ sup exW ⟨.json, Option.none⟩ exT2 = true := by decide
example : confP exW exT2 exX2 = true := by decide
example : withinLimits .msgspec exX2 = true := by decide
example : roundTrip exW c16Env ⟨.msgspec, Option.none⟩ exT2 exX2 = some exX2 :=
  C16_loads_dumps _ _ _ _ _ (by decide) c16Env_ok (by decide) (by decide) (by decide)
example : roundTrip exW c16Env ⟨.yaml, some 3⟩ exT2 exX2 = some exX2 :=
  C16_loads_dumps _ _ _ _ _ (by decide) c16Env_ok (by decide) (by decide) (by decide)
example : rtSafe exW exT2 = true := by decide
/-- `Counter[K]` for key types whose values need unstructuring: bytes, datetime, a plain Enum, a hooked float -/
example : sup exW ⟨.json, Option.none⟩ (.map .counter .bytes .int) = true
    ∧ sup exW ⟨.json, Option.none⟩ (.map .counter .datetime .int) = true
    ∧ sup exW ⟨.yaml, Option.none⟩ (.map .counter (.enum 1) .int) = true
    ∧ sup exW ⟨.json, Option.none⟩ (.map .counter (.enum 1) .int) = true
    ∧ sup exW ⟨.msgspec, some 7⟩ (.map .counter .float .int) = true
    ∧ confP exW (.map .counter (.enum 1) .int) (.dict [(.enumM 1 0, .int 3)]) = true := by decide
example : roundTrip exW c16Env ⟨.yaml, Option.none⟩ (.map .counter (.enum 1) .int) (.dict [(.enumM 1 0, .int 3)])
    = some (.dict [(.enumM 1 0, .int 3)]) :=
  C16_loads_dumps _ _ _ _ _ (by decide) c16Env_ok (by decide) (by decide) (by decide)
/-- the user-hook theorem applies to the class of `exT` (a dataclass with a hooked `float` field) on msgspec -/
example : sup exW ⟨.msgspec, some 2000⟩ (.cls 0 true [("a", .float), ("t", .tupleHet [.datetime, .enum 0])]) = true
    ∧ confP exW (.cls 0 true [("a", .float), ("t", .tupleHet [.datetime, .enum 0])])
        (.inst 0 [("a", .flt 3), ("t", .coll .tuple [.opaque 4, .enumM 0 1])]) = true := by decide
end Examples

/-! ### Negative witnesses: the recorded findings (each input is replayed on the real code by the check) -/
section Witnesses

/-- F17 (json, also msgspec): a mapping keyed by an int-valued Enum does not come back — the key arrives as the
string `intStr 1`, which is not a value of the enum. -/
theorem C16_F17_int_enum_key_witness (env : Env) :
    roundTrip { enums := [(.intMix, [.int 1])] } env ⟨.json, Option.none⟩ (.map .dict (.enum 0) .int)
      (.dict [(.enumM 0 0, .int 1)]) = Option.none := by
  simp [roundTrip, unP, enc, encKV, encKey, norm, normKV, normKey, mkDict, dictSet, stP, mapOpt, enumOfP, enumIdx,
    EW.kind, EW.members, EW.value, Obj.pyEq, Obj.num2?, toIntE]

/-- F18 (json): a `False` key comes back as `True` (`bool("false")`). -/
theorem C16_F18_bool_key_witness (env : Env) :
    roundTrip { enums := [] } env ⟨.json, Option.none⟩ (.map .dict .bool .int) (.dict [(.bool false, .int 1)])
      = some (.dict [(.bool true, .int 1)]) := by
  simp [roundTrip, unP, enc, encKV, encKey, norm, normKV, normKey, mkDict, dictSet, stP, mapOpt, toIntE, Obj.truthy]

/-- F19 (msgspec): `deque[int]` is passed through and the library cannot encode a deque. -/
theorem C16_F19_deque_witness (env : Env) :
    roundTrip { enums := [] } env ⟨.msgspec, Option.none⟩ (.coll .deque .int) (.coll .deque [.int 1]) = Option.none := by
  simp [roundTrip, unP, hk, isSetK, enc]

/-- F20 (msgspec): a mapping keyed by a plain str-valued Enum with values that need a hook keeps the members as
keys, which the encoder refuses. -/
theorem C16_F20_plain_str_enum_key_witness (env : Env) :
    roundTrip { enums := [(.plain, [.str "a"])] } env ⟨.msgspec, Option.none⟩ (.map .dict (.enum 0) (.opt .int))
      (.dict [(.enumM 0 0, .int 1)]) = Option.none := by
  simp [roundTrip, unP, hk, enc, encKV, encKey, mkDict, dictSet, EW.kind, EW.value, EW.members, isIntObj]

/-- F41 (json, also msgspec): an int-valued Literal key comes back as a string the literal hook rejects. -/
theorem C16_F41_int_literal_key_witness (env : Env) :
    roundTrip { enums := [] } env ⟨.json, Option.none⟩ (.map .dict (.lit [.int 1]) .int) (.dict [(.int 1, .int 1)])
      = Option.none := by
  simp [roundTrip, unP, enc, encKV, encKey, norm, normKV, normKey, mkDict, dictSet, stP, mapOpt, Obj.memPy, Obj.pyEq,
    Obj.num2?, toIntE]

/-- F42 (repaired in /repo): had the keys of a `Counter[bytes]` been left as they are (the pre-fix key type was the
tuple `(K,)`, whose handler is the identity), the unstructured form `{b"a": 1}` would not be encodable by json; with
the repaired handler the round trip holds (next example: an instance of `C16_loads_dumps`). -/
theorem C16_F42_counter_key_witness :
    enc { enums := [] } .json (.dict (mkDict [(.bytes "61", .int 1)])) = false := by
  simp [enc, encKV, encKey, mkDict, dictSet]

example : roundTrip { enums := [] } c16Env ⟨.json, Option.none⟩ (.map .counter .bytes .int) (.dict [(.bytes "61", .int 1)])
    = some (.dict [(.bytes "61", .int 1)]) :=
  C16_loads_dumps _ _ _ _ _ (by decide) c16Env_ok (by decide) (by decide) (by decide)

/-- F8 (repaired in /repo by 14bc408): had the msgspec converter handed a dataclass with a hooked `float` field to
`to_builtins` (the pre-fix decision), the unstructure hook would be skipped and the structure hook applied:
`D(a=1.0)` comes back as `D(a=1.0 - d/2)`. -/
theorem C16_F8_dataclass_passthrough_witness (env : Env) (d : Int) (hd : d ≠ 0) :
    stP { enums := [] } env ⟨.msgspec, some d⟩ (.cls 0 true [("a", .float)])
        (norm { enums := [] } env .msgspec (toB { enums := [] } env (.inst 0 [("a", .flt 2)])))
      ≠ some (.inst 0 [("a", .flt 2)]) := by
  simp [toB, toBF, norm, normKV, normKey, mkDict, dictSet, stP, Preconf.stF, dlookup, Obj.pyEq, Obj.num2?, toFltE]
  omega

end Witnesses

end CattrsModel
