import CattrsModel.GenHook.RoundTrip
import CattrsModel.GenHook.TDLemmas
import CattrsModel.GenHook.TDLemmas3
import CattrsModel.GenHook.QuoteLemmas
import CattrsModel.Props.C10
import CattrsModel.GenHook.NestedRT2
import CattrsModel.GenHook.NestedKeys
import CattrsModel.GenHook.NestedForbid2
import CattrsModel.GenHook.OmitFalsy
/-!
# C09 — customised generated hooks: emitted key set, round trip, generation never fails

Property theorems only (model: `GenHook/Model.lean`).  The hooks of a class are folds over its attribute
list; the handlers of the attribute *types* are parameters (`un`, `st`), so every statement holds for
whatever the converter resolved for the component types — in particular for the hooks of nested
customised classes.  attrs classes, dataclasses and NamedTuples (pseudo-attributes) share one generator,
hence one set of theorems (`GCls.kind` is not consulted by it); TypedDicts have their own.
`hstClsWith forbid` selects the template by `c.hc.detailed`, so each statement covers both templates.
-/
namespace CattrsModel
open GenHook

/-! ## emitted keys -/

/-- **Key set.**  For every class (any mix and order of attribute kinds), every customisation whose final
keys are pairwise distinct, every instance and every handlers: the generated unstructure hook returns a
dict whose keys are exactly `expectedKeys`, in that order. -/
theorem C09_keys (un : UnFn) (frozen : Bool) (hc : HookCfg) (attrs : List Attr) (fs : List (String × Obj))
    (hcons : ConsistentCls frozen hc attrs = true) :
    ∃ kvs, hunCls un hc attrs fs = .dict kvs ∧ keysOf kvs = (expectedKeys hc attrs fs).map Obj.str := by
  obtain ⟨hK, -⟩ := consistentCls_unpack hcons
  exact ⟨_, (keysOf_hunCls un hc attrs fs hK).1, (keysOf_hunCls un hc attrs fs hK).2⟩

/-- **What `expectedKeys` says**, declaratively: `k` is emitted iff it is the final key (rename | alias |
name) of an attribute that is handled (not omitted; `init=False` only with the include flag or `omit=False`)
and is not dropped by `omit_if_default` (which applies only to attributes with a default, and drops the
entry exactly when the value `==` the default / the factory's result). -/
theorem C09_keys_spec (hc : HookCfg) (attrs : List Attr) (fs : List (String × Obj)) (k : String) :
    k ∈ expectedKeys hc attrs fs ↔
      ∃ p ∈ attrs.zip fs, included hc p.1 = true ∧ keyName hc p.1 = k ∧
        ¬ (oidApplies hc p.1 = true ∧ defaultEq p.1 p.2.2 = true) :=
  mem_expectedKeys_iff hc k attrs fs

/-- no key is emitted twice -/
theorem C09_keys_nodup (frozen : Bool) (hc : HookCfg) (attrs : List Attr) (fs : List (String × Obj))
    (hcons : ConsistentCls frozen hc attrs = true) : (expectedKeys hc attrs fs).Nodup :=
  expectedKeys_nodup hc attrs fs (consistentCls_unpack hcons).1

/-! ## round trip -/

/-- **Round trip** (attrs classes, dataclasses, NamedTuples; both templates; forbid on or off).
For every class `c` with a consistent customisation, every instance `fs`, and handlers that round-trip on
the values of the handled attributes without custom hooks (`st t (un t v) = ok (rt a v)`): structuring the
output of the unstructure hook succeeds and rebuilds `restored …` — every handled attribute holds what its
handlers restore, every other one its default. -/
theorem C09_roundtrip (un : UnFn) (st : StFn) (ci : Nat) (c : GCls) (fs : List (String × Obj))
    (rt : Attr → Obj → Obj) (forbid : Bool)
    (hcons : ConsistentCls c.frozen c.hc c.attrs = true) (hlen : fs.length = c.attrs.length)
    (hrt : ∀ p ∈ c.attrs.zip fs, included c.hc p.1 = true → GenHook.emitted c.hc p.1 p.2.2 = true → (ovOf c.hc p.1).sh = none →
      st p.1.ty (un p.1.ty p.2.2) = .ok (rt p.1 p.2.2)) :
    hstClsWith forbid st ci c (hunCls un c.hc c.attrs fs)
      = .ok (.inst ci (restored c.hc (rtWithHooks c.hc rt) c.attrs fs)) := by
  have hsu := (consistentCls_unpack hcons).2.2.2.2.1
  have hrt' : ∀ p ∈ c.attrs.zip fs, included c.hc p.1 = true → GenHook.emitted c.hc p.1 p.2.2 = true →
      attrSt st (ovOf c.hc p.1) p.1 (attrUn un (ovOf c.hc p.1) p.1 p.2.2) = .ok (rtWithHooks c.hc rt p.1 p.2.2) := by
    intro p hp hi he
    have hpa : p.1 ∈ c.attrs := (List.of_mem_zip hp).1
    have hpair := hsu p.1 hpa
    cases hs : (ovOf c.hc p.1).sh with
    | none =>
      rw [hs] at hpair
      simp only [attrSt, attrUn, hs, ← hpair, rtWithHooks, Option.isSome_none, Bool.false_eq_true, if_false]
      exact hrt p hp hi he hs
    | some n =>
      rw [hs] at hpair
      simp [attrSt, attrUn, hs, ← hpair, rtWithHooks, tagUnwrap, tagWrap]
  unfold hstClsWith
  split
  · exact hstClsD_hunCls un st ci c fs _ forbid hcons hlen hrt'
  · exact hstClsF_hunCls un st ci c fs _ forbid hcons hlen hrt'

/-- **Reading of `restored`**: the rebuilt instance agrees with the original on every handled attribute — it
holds what the attribute's handlers restore, or, when `omit_if_default` dropped the entry, the default, which
is `==` to the original value. -/
theorem C09_restored_agrees (hc : HookCfg) (rt : Attr → Obj → Obj) (attrs : List Attr) (fs : List (String × Obj))
    (p : Attr × String × Obj) (hp : p ∈ attrs.zip fs) (hi : included hc p.1 = true) :
    ∃ y, (p.1.name, y) ∈ restored hc rt attrs fs ∧
      (GenHook.emitted hc p.1 p.2.2 = true → y = rt p.1 p.2.2) ∧
      (GenHook.emitted hc p.1 p.2.2 = false → ∃ d, p.1.dflt.value? = some d ∧ y = d ∧ pyEqD p.2.2 d = true) := by
  rw [restored_eq_map]
  refine ⟨_, List.mem_map.mpr ⟨p, hp, rfl⟩, ?_, ?_⟩
  · intro he; simp [hi, he]
  · intro he
    have hne : (GenHook.emitted hc p.1 p.2.2 = true) = False := by simp [he]
    simp only [hi, he, Bool.and_false, Bool.false_eq_true, if_false]
    simp only [GenHook.emitted, Bool.not_eq_false', Bool.and_eq_true, defaultEq] at he
    cases hd : p.1.dflt.value? with
    | none => rw [hd] at he; simp at he
    | some d => rw [hd] at he; exact ⟨d, rfl, rfl, he.2⟩

/-- **TypedDict round trip, `forbid_extra_keys` off** (copy-then-patch; both templates).  Subsumed by
`C09_td_roundtrip` (forbid flag quantified) and `C09_td_roundtrip_outcome` below; kept under its name because
they are derived from it.  For a consistent
customisation (distinct final keys, no rename onto a declared name — the recorded region F24), an instance
that has its required keys and no key colliding with a rename target: structuring the output of the
unstructure hook succeeds, and every handled key is present in the result iff it was present in the
instance, holding what its handlers restore. -/
theorem C09_td_roundtrip_partial (un : UnFn) (unIsId : Option Ty → Bool) (st : StFn) (ci : Nat) (c : GCls)
    (inst : List (Obj × Obj)) (rt : Attr → Obj → Obj)
    (hcons : ConsistentTD c.hc c.attrs = true)
    (hid : ∀ t v, unIsId t = true → un t v = v)
    (hreq : ∀ a ∈ c.attrs, tdIncluded c.hc a = true → a.required = true → (dlookup inst (.str a.name)).isSome = true)
    (hfree : ∀ a ∈ c.attrs, tdIncluded c.hc a = true → ∀ r, (ovOf c.hc a).rename = some r → dlookup inst (.str r) = none)
    (hrt : ∀ a ∈ c.attrs, tdIncluded c.hc a = true → (ovOf c.hc a).sh = none → ∀ v, dlookup inst (.str a.name) = some v →
      st a.ty (un a.ty v) = .ok (rt a v)) :
    ∃ res, hstTDWith false st ci c (hunTD un unIsId c.hc c.attrs inst) = .ok (.dict res) ∧
      ∀ a ∈ c.attrs, tdIncluded c.hc a = true →
        dlookup res (.str a.name) = (dlookup inst (.str a.name)).map (rtWithHooks c.hc rt a) := by
  have hsu := (consistentTD_facts hcons).2
  have hrt' : ∀ a ∈ c.attrs, tdIncluded c.hc a = true → ∀ v, dlookup inst (.str a.name) = some v →
      attrSt st (ovOf c.hc a) a (attrUn un (ovOf c.hc a) a v) = .ok (rtWithHooks c.hc rt a v) := by
    intro a ha hi v hv
    have hpair := hsu a ha
    cases hs : (ovOf c.hc a).sh with
    | none =>
      rw [hs] at hpair
      simp only [attrSt, attrUn, hs, ← hpair, rtWithHooks, Option.isSome_none, Bool.false_eq_true, if_false]
      exact hrt a ha hi hs v hv
    | some n =>
      rw [hs] at hpair
      simp [attrSt, attrUn, hs, ← hpair, rtWithHooks, tagUnwrap, tagWrap]
  unfold hstTDWith
  split
  · exact hstTDD_hunTD un unIsId st ci c inst _ hcons hid hreq hfree hrt'
  · exact hstTDF_hunTD un unIsId st ci c inst _ hcons hid hreq hfree hrt'

/-- **TypedDict key set** (the part about handled keys): in the output of the unstructure hook, the final key
(rename | name) of every handled key holds the unstructured entry, and is present iff the entry is present in
the instance.  (The complete statement — popped names absent, every other key unchanged — is `C09_td_keys`
below, which needs the instance's keys to be duplicate-free; this part does not.) -/
theorem C09_td_keys_partial (un : UnFn) (unIsId : Option Ty → Bool) (hc : HookCfg) (attrs : List Attr)
    (inst : List (Obj × Obj))
    (hcons : ConsistentTD hc attrs = true)
    (hid : ∀ t v, unIsId t = true → un t v = v)
    (hfree : ∀ a ∈ attrs, tdIncluded hc a = true → ∀ r, (ovOf hc a).rename = some r → dlookup inst (.str r) = none)
    (hreq : ∀ a ∈ attrs, tdIncluded hc a = true → a.required = true → (dlookup inst (.str a.name)).isSome = true) :
    ∃ out, hunTD un unIsId hc attrs inst = .dict out ∧
      ∀ a ∈ attrs, tdIncluded hc a = true →
        dlookup out (.str (tdKey hc a)) = (dlookup inst (.str a.name)).map (attrUn un (ovOf hc a) a) :=
  ⟨_, rfl, hunTDSteps_main un unIsId hc inst hid attrs inst (consistentTD_facts hcons).1 (fun _ _ => rfl) hfree hreq⟩

/-- **TypedDict key set, complete** — what the unstructure hook (`res = instance.copy()`, then `pop` / assign per
attribute) leaves under **every** key `k` of the output, string or not.  For a consistent customisation, an
instance with no key colliding with a rename target, and duplicate-free instance keys (true of every real
dict):
* `k` the final key (rename | name) of a handled attribute `a` ↦ the unstructured entry of `a`, present iff
  `a.name` is present in the instance;
* `k` the name of an omitted attribute, or the old name of a renamed one ↦ absent (it was popped);
* every other key — undeclared keys of the instance, non-string keys — ↦ exactly as in the instance;
and the keys of the output are again duplicate-free.  The three cases are exhaustive (a handled attribute that
is not renamed has its own name as final key) and, under `ConsistentTD`, disjoint. -/
theorem C09_td_keys (un : UnFn) (unIsId : Option Ty → Bool) (hc : HookCfg) (attrs : List Attr)
    (inst : List (Obj × Obj))
    (hcons : ConsistentTD hc attrs = true)
    (hid : ∀ t v, unIsId t = true → un t v = v)
    (hfree : ∀ a ∈ attrs, tdIncluded hc a = true → ∀ r, (ovOf hc a).rename = some r → dlookup inst (.str r) = none)
    (hnd : nodupPy (keysOf inst) = true)
    (hreq : ∀ a ∈ attrs, tdIncluded hc a = true → a.required = true → (dlookup inst (.str a.name)).isSome = true) :
    ∃ out, hunTD un unIsId hc attrs inst = .dict out ∧
      (∀ a ∈ attrs, tdIncluded hc a = true →
        dlookup out (.str (tdKey hc a)) = (dlookup inst (.str a.name)).map (attrUn un (ovOf hc a) a)) ∧
      (∀ a ∈ attrs, (tdIncluded hc a = false ∨ (ovOf hc a).rename.isSome = true) →
        dlookup out (.str a.name) = none) ∧
      (∀ k : Obj, (∀ a ∈ attrs, k ≠ .str a.name ∧ (tdIncluded hc a = true → k ≠ .str (tdKey hc a))) →
        dlookup out k = dlookup inst k) ∧
      nodupPy (keysOf out) = true :=
  ⟨_, rfl, hunTDSteps_keys un unIsId hc inst hid attrs (consistentTD_facts hcons).1 hfree hnd hreq⟩

/-- **Which keys the output has** (corollary of `C09_td_keys`, one line per key): `k` is a key of the output iff
it is the final key of a handled attribute whose entry is present in the instance, or it is a key of the
instance that is not a declared name. -/
theorem C09_td_keys_present (un : UnFn) (unIsId : Option Ty → Bool) (hc : HookCfg) (attrs : List Attr)
    (inst : List (Obj × Obj))
    (hcons : ConsistentTD hc attrs = true)
    (hid : ∀ t v, unIsId t = true → un t v = v)
    (hfree : ∀ a ∈ attrs, tdIncluded hc a = true → ∀ r, (ovOf hc a).rename = some r → dlookup inst (.str r) = none)
    (hnd : nodupPy (keysOf inst) = true)
    (hreq : ∀ a ∈ attrs, tdIncluded hc a = true → a.required = true → (dlookup inst (.str a.name)).isSome = true) :
    ∃ out, hunTD un unIsId hc attrs inst = .dict out ∧ ∀ k : Obj,
      ((dlookup out k).isSome = true ↔
        (∃ a ∈ attrs, tdIncluded hc a = true ∧ k = .str (tdKey hc a) ∧ (dlookup inst (.str a.name)).isSome = true) ∨
        ((∀ a ∈ attrs, k ≠ .str a.name) ∧ (dlookup inst k).isSome = true)) := by
  obtain ⟨out, ho, h1, h2, h3, -⟩ := C09_td_keys un unIsId hc attrs inst hcons hid hfree hnd hreq
  refine ⟨out, ho, fun k => ?_⟩
  by_cases hA : ∃ a ∈ attrs, tdIncluded hc a = true ∧ k = .str (tdKey hc a)
  · obtain ⟨a, ha, hi, rfl⟩ := hA
    rw [h1 a ha hi, Option.isSome_map]
    constructor
    · intro h; exact Or.inl ⟨a, ha, hi, rfl, h⟩
    · rintro (⟨b, hb, hib, hkb, hs⟩ | ⟨hn, hs⟩)
      · have e2 := h1 b hb hib
        rw [← hkb, h1 a ha hi] at e2
        have e3 := congrArg Option.isSome e2
        simp only [Option.isSome_map] at e3
        rw [e3]; exact hs
      · exfalso
        cases hr : (ovOf hc a).rename with
        | none => exact hn a ha (by simp [tdKey, hr])
        | some r =>
          have hk : tdKey hc a = r := by simp [tdKey, hr]
          rw [hk, hfree a ha hi r hr] at hs; cases hs
  · by_cases hB : ∃ a ∈ attrs, k = .str a.name
    · obtain ⟨a, ha, rfl⟩ := hB
      have hpop : tdIncluded hc a = false ∨ (ovOf hc a).rename.isSome = true := by
        cases hi : tdIncluded hc a with
        | false => exact Or.inl rfl
        | true =>
          cases hr : (ovOf hc a).rename with
          | some r => exact Or.inr rfl
          | none => exact absurd ⟨a, ha, hi, by simp [tdKey, hr]⟩ hA
      rw [h2 a ha hpop]
      constructor
      · intro h; cases h
      · rintro (⟨b, hb, hib, hkb, -⟩ | ⟨hn, -⟩)
        · exact absurd ⟨b, hb, hib, hkb⟩ hA
        · exact absurd rfl (hn a ha)
    · have hn : ∀ a ∈ attrs, k ≠ .str a.name := fun a ha e => hB ⟨a, ha, e⟩
      rw [h3 k (fun a ha => ⟨hn a ha, fun hi e => hA ⟨a, ha, hi, e⟩⟩)]
      constructor
      · intro h; exact Or.inr ⟨hn, h⟩
      · rintro (⟨b, hb, hib, hkb, -⟩ | ⟨-, hs⟩)
        · exact absurd ⟨b, hb, hib, hkb⟩ hA
        · exact hs

/-- **`KeyError` on a missing required key.**  The generated unstructure hook reads a required key without the guard
`if 'a' in instance` (only non-required keys get it).  For a consistent customisation: if a handled required key whose
assignment line is emitted -- its handler is not the identity, or it is renamed -- is absent from the instance, the
hook raises `KeyError` (the model's output carries `keyErrMark` under the key's final name; an unstructure hook has no
`try`, so the exception is the outcome of the whole call).  The key statements above assume the required keys
present (`hreq`); this is the complementary case. -/
theorem C09_td_keyerror (un : UnFn) (unIsId : Option Ty → Bool) (hc : HookCfg) (attrs : List Attr)
    (inst : List (Obj × Obj)) (hcons : ConsistentTD hc attrs = true)
    (a : Attr) (ha : a ∈ attrs) (hi : tdIncluded hc a = true) (hreq : a.required = true)
    (habs : dlookup inst (.str a.name) = none)
    (hline : ((ovOf hc a).uh.isNone && unIsId a.ty && (ovOf hc a).rename.isNone) = false) :
    ∃ out, hunTD un unIsId hc attrs inst = .dict out ∧ dlookup out (.str (tdKey hc a)) = some keyErrMark :=
  ⟨_, rfl, hunTDSteps_keyerror un unIsId hc inst a hi hreq habs hline attrs inst (consistentTD_facts hcons).1 ha⟩

/-- **TypedDict round trip, outcome with `forbid_extra_keys` on** (both templates).  The forbid check of the
generated structure hook accepts exactly the final keys of the handled attributes (`allowed_fields`); the
unstructure hook starts from a copy of the instance, so the keys of the instance that the TypedDict does not
declare survive into the payload, and they are the only keys the check rejects (names of omitted keys and
old names of renamed keys were popped).  Hence, for a consistent customisation and an instance with its
required keys, no key colliding with a rename target and duplicate-free keys: the round trip with the option
off succeeds (`res`, every handled key restored); with the option **on** it succeeds with the same `res` when
every key of the instance is a declared name, and otherwise fails with a `ForbiddenExtraKeysError` that
reports exactly the undeclared keys of the instance (`tdUndeclared`, instance order, non-string keys
included). -/
theorem C09_td_roundtrip_outcome (un : UnFn) (unIsId : Option Ty → Bool) (st : StFn) (ci : Nat) (c : GCls)
    (inst : List (Obj × Obj)) (rt : Attr → Obj → Obj)
    (hcons : ConsistentTD c.hc c.attrs = true)
    (hid : ∀ t v, unIsId t = true → un t v = v)
    (hreq : ∀ a ∈ c.attrs, tdIncluded c.hc a = true → a.required = true → (dlookup inst (.str a.name)).isSome = true)
    (hfree : ∀ a ∈ c.attrs, tdIncluded c.hc a = true → ∀ r, (ovOf c.hc a).rename = some r → dlookup inst (.str r) = none)
    (hrt : ∀ a ∈ c.attrs, tdIncluded c.hc a = true → (ovOf c.hc a).sh = none → ∀ v, dlookup inst (.str a.name) = some v →
      st a.ty (un a.ty v) = .ok (rt a v))
    (hnd : nodupPy (keysOf inst) = true) :
    ∃ res, hstTDWith false st ci c (hunTD un unIsId c.hc c.attrs inst) = .ok (.dict res) ∧
      (∀ a ∈ c.attrs, tdIncluded c.hc a = true →
        dlookup res (.str a.name) = (dlookup inst (.str a.name)).map (rtWithHooks c.hc rt a)) ∧
      hstTDWith true st ci c (hunTD un unIsId c.hc c.attrs inst) =
        (if (tdUndeclared c.attrs inst).isEmpty then .ok (.dict res)
         else .error (forbidReport c.hc.detailed ci (tdUndeclared c.attrs inst))) := by
  obtain ⟨res, hoff, hres⟩ := C09_td_roundtrip_partial un unIsId st ci c inst rt hcons hid hreq hfree hrt
  have hex := extraKeys_hunTDSteps un unIsId c.hc inst c.attrs (consistentTD_facts hcons).1 hfree hnd
  refine ⟨res, hoff, hres, ?_⟩
  unfold hunTD at hoff ⊢
  cases hu : tdUndeclared c.attrs inst with
  | nil =>
    rw [hu] at hex
    simp only [List.isEmpty_nil, if_true]
    exact (C10_td_forbid_ok_iff st ci c _ _).mpr ⟨hoff, hex⟩
  | cons x xs =>
    rw [hu] at hex
    simp only [List.isEmpty_cons, Bool.false_eq_true, if_false]
    rw [← hex]
    exact C10_td_forbid_reports st ci c _ _ hoff (by rw [hex]; exact List.cons_ne_nil _ _)

/-- **TypedDict round trip** (copy-then-patch; both templates; `forbid_extra_keys` **on or off**).  For a
consistent customisation (distinct final keys, no rename onto a declared name — the recorded region F24), an
instance that has its required keys and no key colliding with a rename target, and — when the option is on —
whose keys are duplicate-free (true of every real dict) and all declared by the TypedDict (an undeclared key
is copied through by the unstructure hook and then rejected by the forbid check: `C09_td_roundtrip_outcome`
— that hypothesis is necessary): structuring the output of the unstructure hook succeeds, and every handled key
is present in the result iff it was present in the instance, holding what its handlers restore.
(`forbid := false` is `C09_td_roundtrip_partial`.) -/
theorem C09_td_roundtrip (un : UnFn) (unIsId : Option Ty → Bool) (st : StFn) (ci : Nat) (c : GCls)
    (inst : List (Obj × Obj)) (rt : Attr → Obj → Obj) (forbid : Bool)
    (hcons : ConsistentTD c.hc c.attrs = true)
    (hid : ∀ t v, unIsId t = true → un t v = v)
    (hreq : ∀ a ∈ c.attrs, tdIncluded c.hc a = true → a.required = true → (dlookup inst (.str a.name)).isSome = true)
    (hfree : ∀ a ∈ c.attrs, tdIncluded c.hc a = true → ∀ r, (ovOf c.hc a).rename = some r → dlookup inst (.str r) = none)
    (hrt : ∀ a ∈ c.attrs, tdIncluded c.hc a = true → (ovOf c.hc a).sh = none → ∀ v, dlookup inst (.str a.name) = some v →
      st a.ty (un a.ty v) = .ok (rt a v))
    (hnd : forbid = true → nodupPy (keysOf inst) = true)
    (hdecl : forbid = true → ∀ k ∈ keysOf inst, ∃ a ∈ c.attrs, k = .str a.name) :
    ∃ res, hstTDWith forbid st ci c (hunTD un unIsId c.hc c.attrs inst) = .ok (.dict res) ∧
      ∀ a ∈ c.attrs, tdIncluded c.hc a = true →
        dlookup res (.str a.name) = (dlookup inst (.str a.name)).map (rtWithHooks c.hc rt a) := by
  cases forbid with
  | false => exact C09_td_roundtrip_partial un unIsId st ci c inst rt hcons hid hreq hfree hrt
  | true =>
    obtain ⟨res, -, hres, hon⟩ := C09_td_roundtrip_outcome un unIsId st ci c inst rt hcons hid hreq hfree hrt (hnd rfl)
    have hu : tdUndeclared c.attrs inst = [] := (tdUndeclared_eq_nil_iff c.attrs inst).mpr (hdecl rfl)
    rw [hu] at hon
    exact ⟨res, hon, hres⟩

/-- the declaredness hypothesis of `C09_td_roundtrip` is necessary: with the option on, the round trip of an
instance with an undeclared key fails (under the other hypotheses) -/
theorem C09_td_roundtrip_forbid_iff (un : UnFn) (unIsId : Option Ty → Bool) (st : StFn) (ci : Nat) (c : GCls)
    (inst : List (Obj × Obj)) (rt : Attr → Obj → Obj)
    (hcons : ConsistentTD c.hc c.attrs = true)
    (hid : ∀ t v, unIsId t = true → un t v = v)
    (hreq : ∀ a ∈ c.attrs, tdIncluded c.hc a = true → a.required = true → (dlookup inst (.str a.name)).isSome = true)
    (hfree : ∀ a ∈ c.attrs, tdIncluded c.hc a = true → ∀ r, (ovOf c.hc a).rename = some r → dlookup inst (.str r) = none)
    (hrt : ∀ a ∈ c.attrs, tdIncluded c.hc a = true → (ovOf c.hc a).sh = none → ∀ v, dlookup inst (.str a.name) = some v →
      st a.ty (un a.ty v) = .ok (rt a v))
    (hnd : nodupPy (keysOf inst) = true) :
    (∃ y, hstTDWith true st ci c (hunTD un unIsId c.hc c.attrs inst) = .ok y) ↔
      ∀ k ∈ keysOf inst, ∃ a ∈ c.attrs, k = .str a.name := by
  obtain ⟨res, -, -, hon⟩ := C09_td_roundtrip_outcome un unIsId st ci c inst rt hcons hid hreq hfree hrt hnd
  rw [← tdUndeclared_eq_nil_iff, hon]
  cases hu : tdUndeclared c.attrs inst with
  | nil => simp
  | cons x xs => simp

/-- **Converter-level options** (`Converter(omit_if_default=, forbid_extra_keys=, type_overrides=)`) resolve to a
per-class configuration (`convHc`: the override of an attribute is the entry of its type); keys and round trip
are the statements above at that configuration. -/
theorem C09_converter_level (teq : Ty → Ty → Bool) (co : ConvOpts) (un : UnFn) (st : StFn) (ci : Nat)
    (kind : GKind) (frozen : Bool) (attrs : List Attr) (fs : List (String × Obj)) (rt : Attr → Obj → Obj)
    (hcons : ConsistentCls frozen (convHc teq co kind attrs) attrs = true) (hlen : fs.length = attrs.length)
    (hrt : ∀ p ∈ attrs.zip fs, included (convHc teq co kind attrs) p.1 = true →
      GenHook.emitted (convHc teq co kind attrs) p.1 p.2.2 = true → (ovOf (convHc teq co kind attrs) p.1).sh = none →
      st p.1.ty (un p.1.ty p.2.2) = .ok (rt p.1 p.2.2)) :
    let c : GCls := { kind := kind, frozen := frozen, attrs := attrs, hc := convHc teq co kind attrs }
    (∃ kvs, hunCls un c.hc attrs fs = .dict kvs ∧ keysOf kvs = (expectedKeys c.hc attrs fs).map Obj.str) ∧
    hstCls st ci c (hunCls un c.hc attrs fs) = .ok (.inst ci (restored c.hc (rtWithHooks c.hc rt) attrs fs)) := by
  intro c
  exact ⟨C09_keys un frozen _ attrs fs hcons, C09_roundtrip un st ci c fs rt c.hc.forbid hcons hlen hrt⟩

/-! ## hook generation never fails: key quoting -/

/-- **Quoting.**  `repr(k)` — what `{kn!r}` splices into the generated source — is, for **every** string `k`
(quotes, backslashes, line breaks, control and non-ASCII characters, keywords, the empty string), a
well-formed literal that denotes `k` again. -/
theorem C09_quoting (k : String) : pyUnquote (pyQuote k) = some k := pyUnquote_pyQuote k

/-- **Generation never fails**: for every attribute list (any order, any kinds) and every customisation,
every key and attribute name spliced into the source is a well-formed literal. -/
theorem C09_genok (hc : HookCfg) (attrs : List Attr) : genOk hc attrs = true := genOk_always hc attrs

/-! ## non-vacuity and negative witnesses -/
section Examples

def C09Ex.exAttr (n al : String) (t : Ty) (d : Dflt) (ini : Bool) : Attr :=
  { name := n, alias := al, ty := some t, dflt := d, init := ini, required := true, kwOnly := false }

def C09Ex.idUn : UnFn := fun _ v => v
def C09Ex.idSt : StFn := fun _ v => .ok v

/-- a class with a renamed, an aliased, a defaulted (`omit_if_default`) and an `init=False` attribute -/
def C09Ex.exHc : HookCfg :=
  { ovs := [("a", { Ovr.neutral with rename := some "it's" }), ("c", { Ovr.neutral with oid := some true, sh := some 3, uh := some 3 })],
    useAlias := true, inclInitFalse := true, oid := false, forbid := true, detailed := true }
def C09Ex.exCls : GCls :=
  { kind := .attrs, frozen := false, hc := C09Ex.exHc,
    attrs := [C09Ex.exAttr "a" "a" .int .none true, C09Ex.exAttr "_b" "b" .str .none true,
              C09Ex.exAttr "c" "c" .int (.const (.int 7)) true, C09Ex.exAttr "d" "d" .int (.factory (.int 0)) false] }

example : ConsistentCls C09Ex.exCls.frozen C09Ex.exCls.hc C09Ex.exCls.attrs = true := by decide
example : hunCls C09Ex.idUn C09Ex.exHc C09Ex.exCls.attrs [("a", .int 1), ("_b", .str "x"), ("c", .flt 14), ("d", .int 5)]
    = .dict [(.str "it's", .int 1), (.str "b", .str "x"), (.str "d", .int 5)] := by decide
example : expectedKeys C09Ex.exHc C09Ex.exCls.attrs [("a", .int 1), ("_b", .str "x"), ("c", .int 8), ("d", .int 5)]
    = ["it's", "b", "d", "c"] := by decide
example : hstClsWith true C09Ex.idSt 0 C09Ex.exCls (hunCls C09Ex.idUn C09Ex.exHc C09Ex.exCls.attrs [("a", .int 1), ("_b", .str "x"), ("c", .int 8), ("d", .int 5)])
    = .ok (.inst 0 [("a", .int 1), ("_b", .str "x"), ("c", .int 8), ("d", .int 5)]) := by rfl
/-- the same through a NamedTuple's pseudo-attributes, fast template -/
example : hstClsWith false C09Ex.idSt 0 { C09Ex.exCls with kind := .namedtuple, hc := { C09Ex.exHc with detailed := false, inclInitFalse := false, useAlias := false } }
    (hunCls C09Ex.idUn { C09Ex.exHc with detailed := false, inclInitFalse := false, useAlias := false } C09Ex.exCls.attrs
      [("a", .int 1), ("_b", .str "x"), ("c", .flt 14), ("d", .int 5)])
    = .ok (.inst 0 [("a", .int 1), ("_b", .str "x"), ("c", .int 7), ("d", .int 0)]) := by rfl

def C09Ex.exTD (ovs : List (String × Ovr)) : GCls :=
  { kind := .typeddict, frozen := false,
    hc := { ovs := ovs, useAlias := false, inclInitFalse := false, oid := false, forbid := false, detailed := true },
    attrs := [C09Ex.exAttr "a" "a" .int .none true, { C09Ex.exAttr "b" "b" .int .none true with required := false }] }

example : ConsistentTD (C09Ex.exTD [("a", { Ovr.neutral with rename := some "new\nline" })]).hc (C09Ex.exTD []).attrs = true := by decide
example : hstTDWith false C09Ex.idSt 0 (C09Ex.exTD [("a", { Ovr.neutral with rename := some "k" })])
    (hunTD C09Ex.idUn (fun _ => true) (C09Ex.exTD [("a", { Ovr.neutral with rename := some "k" })]).hc (C09Ex.exTD []).attrs [(.str "a", .int 1)])
    = .ok (.dict [(.str "a", .int 1)]) := by rfl
example : pyQuote "it's" = "\"it's\"" := by decide
example : pyQuote "a\nb\\" = "'a\\nb\\\\'" := by decide

/-- TypedDict `{a: int, b: NotRequired[int], c: int}` with `a → 'k'` and `c` omitted -/
def C09Ex.exTD3 (detailed : Bool) : GCls :=
  { kind := .typeddict, frozen := false,
    hc := { ovs := [("a", { Ovr.neutral with rename := some "k" }), ("c", { Ovr.neutral with omitted := some true })],
            useAlias := false, inclInitFalse := false, oid := false, forbid := true, detailed := detailed },
    attrs := [C09Ex.exAttr "a" "a" .int .none true, { C09Ex.exAttr "b" "b" .int .none true with required := false },
              C09Ex.exAttr "c" "c" .int .none true] }
/-- an instance with declared keys only, and one with an undeclared string key and a non-string key -/
def C09Ex.inst3 : List (Obj × Obj) := [(.str "a", .int 1), (.str "c", .int 3), (.str "b", .int 2)]
def C09Ex.inst3x : List (Obj × Obj) := [(.str "a", .int 1), (.str "zzz", .int 9), (.str "c", .int 3), (.int 5, .int 6)]

theorem C09Ex.exTD3_hfree (detailed : Bool) (inst : List (Obj × Obj)) (h : dlookup inst (.str "k") = none) :
    ∀ a ∈ (C09Ex.exTD3 detailed).attrs, tdIncluded (C09Ex.exTD3 detailed).hc a = true →
      ∀ r, (ovOf (C09Ex.exTD3 detailed).hc a).rename = some r → dlookup inst (.str r) = none := by
  intro a ha _ r hr
  simp only [C09Ex.exTD3, List.mem_cons, List.not_mem_nil, or_false] at ha
  rcases ha with rfl | rfl | rfl
  · have e : (ovOf (C09Ex.exTD3 detailed).hc (C09Ex.exAttr "a" "a" .int .none true)).rename = some "k" := by
      cases detailed <;> decide
    rw [e] at hr; cases hr; exact h
  · have e : (ovOf (C09Ex.exTD3 detailed).hc { C09Ex.exAttr "b" "b" .int .none true with required := false }).rename = none := by
      cases detailed <;> decide
    rw [e] at hr; cases hr
  · have e : (ovOf (C09Ex.exTD3 detailed).hc (C09Ex.exAttr "c" "c" .int .none true)).rename = none := by
      cases detailed <;> decide
    rw [e] at hr; cases hr

theorem C09Ex.exTD3_hreq (detailed : Bool) (inst : List (Obj × Obj))
    (h : (dlookup inst (.str "a")).isSome = true) :
    ∀ a ∈ (C09Ex.exTD3 detailed).attrs, tdIncluded (C09Ex.exTD3 detailed).hc a = true → a.required = true →
      (dlookup inst (.str a.name)).isSome = true := by
  intro a ha hi hrq
  simp only [C09Ex.exTD3, List.mem_cons, List.not_mem_nil, or_false] at ha
  rcases ha with rfl | rfl | rfl
  · exact h
  · cases hrq
  · exfalso; revert hi; cases detailed <;> decide

/-- non-vacuity of `C09_td_keys` / `C09_td_keys_present`: the hypotheses hold for the instance with undeclared
keys, and the output is as the three clauses say (`k` assigned, `a` and `c` popped, `zzz` and `5` kept) -/
example : ConsistentTD (C09Ex.exTD3 true).hc (C09Ex.exTD3 true).attrs = true := by decide
example : nodupPy (keysOf C09Ex.inst3x) = true := by decide
example : hunTD C09Ex.idUn (fun _ => true) (C09Ex.exTD3 true).hc (C09Ex.exTD3 true).attrs C09Ex.inst3x
    = .dict [(.str "zzz", .int 9), (.int 5, .int 6), (.str "k", .int 1)] := by decide
example : ∃ out, hunTD C09Ex.idUn (fun _ => true) (C09Ex.exTD3 true).hc (C09Ex.exTD3 true).attrs C09Ex.inst3x = .dict out ∧
    ∀ k : Obj, ((dlookup out k).isSome = true ↔
      (∃ a ∈ (C09Ex.exTD3 true).attrs, tdIncluded (C09Ex.exTD3 true).hc a = true ∧ k = .str (tdKey (C09Ex.exTD3 true).hc a) ∧
        (dlookup C09Ex.inst3x (.str a.name)).isSome = true) ∨
      ((∀ a ∈ (C09Ex.exTD3 true).attrs, k ≠ .str a.name) ∧ (dlookup C09Ex.inst3x k).isSome = true)) :=
  C09_td_keys_present C09Ex.idUn (fun _ => true) (C09Ex.exTD3 true).hc (C09Ex.exTD3 true).attrs C09Ex.inst3x
    (by decide) (fun _ _ _ => rfl) (C09Ex.exTD3_hfree true _ (by decide)) (by decide) (C09Ex.exTD3_hreq true _ (by decide))

/-- non-vacuity of `C09_td_roundtrip` with the option on, both templates: all hypotheses hold for `inst3`
(renamed, omitted and non-required keys present) and the round trip yields `{'b': 2, 'a': 1}` -/
example (detailed : Bool) : ∃ res, hstTDWith true C09Ex.idSt 0 (C09Ex.exTD3 detailed)
      (hunTD C09Ex.idUn (fun _ => true) (C09Ex.exTD3 detailed).hc (C09Ex.exTD3 detailed).attrs C09Ex.inst3) = .ok (.dict res) ∧
    ∀ a ∈ (C09Ex.exTD3 detailed).attrs, tdIncluded (C09Ex.exTD3 detailed).hc a = true →
      dlookup res (.str a.name) = (dlookup C09Ex.inst3 (.str a.name)).map (rtWithHooks (C09Ex.exTD3 detailed).hc (fun _ v => v) a) :=
  C09_td_roundtrip C09Ex.idUn (fun _ => true) C09Ex.idSt 0 (C09Ex.exTD3 detailed) C09Ex.inst3 (fun _ v => v) true
    (by cases detailed <;> decide) (fun _ _ _ => rfl) (C09Ex.exTD3_hreq detailed _ (by decide))
    (C09Ex.exTD3_hfree detailed _ (by decide)) (fun _ _ _ _ _ _ => rfl) (fun _ => by decide)
    (fun _ => (tdUndeclared_eq_nil_iff _ _).mp (by cases detailed <;> decide))
example : hstTDWith true C09Ex.idSt 0 (C09Ex.exTD3 true)
    (hunTD C09Ex.idUn (fun _ => true) (C09Ex.exTD3 true).hc (C09Ex.exTD3 true).attrs C09Ex.inst3)
    = .ok (.dict [(.str "b", .int 2), (.str "a", .int 1)]) := by rfl
example : hstTDWith true C09Ex.idSt 0 (C09Ex.exTD3 false)
    (hunTD C09Ex.idUn (fun _ => true) (C09Ex.exTD3 false).hc (C09Ex.exTD3 false).attrs C09Ex.inst3)
    = .ok (.dict [(.str "b", .int 2), (.str "a", .int 1)]) := by rfl

/-- non-vacuity of `C09_td_roundtrip_outcome`, failing branch: the undeclared keys of `inst3x` are `zzz` and `5`,
and both templates report exactly them -/
example : tdUndeclared (C09Ex.exTD3 true).attrs C09Ex.inst3x = [.str "zzz", .int 5] := by decide
example : hstTDWith true C09Ex.idSt 0 (C09Ex.exTD3 true)
    (hunTD C09Ex.idUn (fun _ => true) (C09Ex.exTD3 true).hc (C09Ex.exTD3 true).attrs C09Ex.inst3x)
    = .error (.cve [(none, .extra 0 [.str "zzz", .int 5])]) := by rfl
example : hstTDWith true C09Ex.idSt 0 (C09Ex.exTD3 false)
    (hunTD C09Ex.idUn (fun _ => true) (C09Ex.exTD3 false).hc (C09Ex.exTD3 false).attrs C09Ex.inst3x)
    = .error (.extra 0 [.str "zzz", .int 5]) := by rfl
example (detailed : Bool) : ¬ ∃ y, hstTDWith true C09Ex.idSt 0 (C09Ex.exTD3 detailed)
    (hunTD C09Ex.idUn (fun _ => true) (C09Ex.exTD3 detailed).hc (C09Ex.exTD3 detailed).attrs C09Ex.inst3x) = .ok y := by
  rw [C09_td_roundtrip_forbid_iff C09Ex.idUn (fun _ => true) C09Ex.idSt 0 (C09Ex.exTD3 detailed) C09Ex.inst3x (fun _ v => v)
    (by cases detailed <;> decide) (fun _ _ _ => rfl) (C09Ex.exTD3_hreq detailed _ (by decide))
    (C09Ex.exTD3_hfree detailed _ (by decide)) (fun _ _ _ _ _ _ => rfl) (by decide), ← tdUndeclared_eq_nil_iff]
  cases detailed <;> decide

/-- and when the line is not emitted (identity handler, no rename) a missing required key goes unnoticed: the copy is
returned as it is -/
example : hunTD C09Ex.idUn (fun _ => true) (C09Ex.exTD []).hc (C09Ex.exTD []).attrs [(.str "b", .int 2)] = .dict [(.str "b", .int 2)] := by
  decide
/-- non-vacuity of `C09_td_keyerror`: `a` renamed to `k`, absent -/
example : hunTD C09Ex.idUn (fun _ => true) (C09Ex.exTD [("a", { Ovr.neutral with rename := some "k" })]).hc (C09Ex.exTD []).attrs
    [(.str "b", .int 2)] = .dict [(.str "b", .int 2), (.str "k", keyErrMark)] := by decide

/-- **F24 (recorded finding).**  TypedDict `{a, b}` with `a → 'b'`, `b → 'c'` is outside `ConsistentTD`, and the
copy-then-patch hook loses a key: `{'a': 1, 'b': 2}` unstructures to `{'c': 2}` instead of `{'b': 1, 'c': 2}`. -/
theorem C09_F24_td_rename_witness :
    ConsistentTD (C09Ex.exTD [("a", { Ovr.neutral with rename := some "b" }), ("b", { Ovr.neutral with rename := some "c" })]).hc (C09Ex.exTD []).attrs = false
    ∧ hunTD C09Ex.idUn (fun _ => true) (C09Ex.exTD [("a", { Ovr.neutral with rename := some "b" }), ("b", { Ovr.neutral with rename := some "c" })]).hc
        (C09Ex.exTD []).attrs [(.str "a", .int 1), (.str "b", .int 2)] = .dict [(.str "c", .int 2)] := by decide

/-- **F24, second shape**: renaming a key onto its own name makes the detailed structure hook delete it. -/
theorem C09_F24_td_self_rename_witness :
    hstTDWith false C09Ex.idSt 0 (C09Ex.exTD [("a", { Ovr.neutral with rename := some "a" })]) (.dict [(.str "a", .int 1), (.str "b", .int 2)])
      = .ok (.dict [(.str "b", .int 2)]) := by rfl

/-- **F25 (recorded finding).**  A frozen class whose hooks handle an `init=False` attribute is outside
`ConsistentCls`; the structure hook assigns the attribute after `__init__` and fails. -/
theorem C09_F25_frozen_init_false_witness :
    ConsistentCls true C09Ex.exHc C09Ex.exCls.attrs = false
    ∧ hstClsWith false C09Ex.idSt 0 { C09Ex.exCls with frozen := true }
        (hunCls C09Ex.idUn C09Ex.exHc C09Ex.exCls.attrs [("a", .int 1), ("_b", .str "x"), ("c", .int 7), ("d", .int 5)])
      = .error (.cve [(some "d", .leaf)]) := ⟨by decide, by rfl⟩

end Examples

/-! ## unbounded nesting: the composition `unTy` / `stTy`

`unTy g n` / `stTy g n` tie the class hooks of the table `g` together through the field types (`n` = recursion
budget).  `gconf g d t x`: `x` is a value of `t`, nested at most `d` type constructors deep, inside the fragment of the
composition (classes / TypedDicts / NamedTuples with dict hooks, through optionals, NewType / Annotated / Final /
alias wrappers and non-set collections; class-free positions: any type of the data path, with C01's hypotheses).  The
statements hold for **every** `d` and every budget `n ≥ d` -- nesting of any depth, fuel eliminated. -/

/-- **Round trip at any nesting depth.**  For every class table in which every class has a consistent
customisation (enum tables as Python builds them), every type, every depth `d`, every value conforming within depth
`d`, and every budget `n ≥ d`: `structure(unstructure(x, T), T)` succeeds and the result agrees with `x` on every
handled attribute at every class position (`AgreesAt`: same class; a handled attribute holds the original value under
a custom hook pair, a value that agrees at the attribute's type otherwise, or the default -- `==` to the original --
when `omit_if_default` dropped it; TypedDict keys present iff they were; class-free positions equal). -/
theorem C09_roundtrip_nested (g : GWorld) (hcons : g.consistent = true) (hwe : g.core.WFE)
    (d : Nat) (t : Option Ty) (x : Obj) (hx : gconf g d t x = true) (n : Nat) (hn : d ≤ n) :
    ∃ y, stTy g n t (unTy g n t x) = .ok y ∧ AgreesAt g d t x y :=
  roundtrip_nested g hcons hwe d t x hx n hn

/-- **Emitted keys at any nesting depth**: under the same hypotheses the output of the composition has, at every
class position, exactly the keys `expectedKeys` in order, the entry of every emitted attribute satisfying the same
statement at the attribute's type (TypedDict positions: the three clauses of `C09_td_keys`). -/
theorem C09_keys_nested (g : GWorld) (hcons : g.consistent = true)
    (d : Nat) (t : Option Ty) (x : Obj) (hx : gconf g d t x = true) (n : Nat) (hn : d ≤ n) :
    KeysAt g d t x (unTy g n t x) :=
  keys_nested g hcons d t x hx n hn

/-- **Fuel sufficiency.**  Once the recursion budget suffices for a payload -- structuring succeeds -- the result is
the same at every larger budget (every payload, every class table, consistent or not). -/
theorem C09_fuel_sufficient (g : GWorld) (n m : Nat) (hnm : n ≤ m) (t : Option Ty) (p y : Obj)
    (h : stTy g n t p = .ok y) : stTy g m t p = .ok y :=
  stTy_mono g hnm h

/-- hence the round trip of a conforming value has one result for all sufficient budgets -/
theorem C09_roundtrip_nested_stable (g : GWorld) (hcons : g.consistent = true) (hwe : g.core.WFE)
    (d : Nat) (t : Option Ty) (x : Obj) (hx : gconf g d t x = true) (n m : Nat) (hn : d ≤ n) (hnm : n ≤ m) :
    ∃ y, stTy g n t (unTy g n t x) = .ok y ∧ stTy g m t (unTy g n t x) = .ok y ∧ AgreesAt g d t x y := by
  obtain ⟨y, h1, h2⟩ := roundtrip_nested g hcons hwe d t x hx n hn
  exact ⟨y, h1, stTy_mono g hnm h1, h2⟩

section NestedExample
/-- three levels: dataclass 2 → Optional[TypedDict 1] → list[attrs class 0]; renames, a custom hook pair,
`omit_if_default`, a forbidding leaf class -/
def C09Ex.nestWorld : GWorld :=
  { detailed := true, enums := [],
    classes :=
      [ { kind := .attrs, frozen := false,
          hc := { ovs := [("a", { Ovr.neutral with rename := some "it's" }), ("b", { Ovr.neutral with sh := some 2, uh := some 2 })],
                  useAlias := false, inclInitFalse := false, oid := false, forbid := true, detailed := false },
          attrs := [C09Ex.exAttr "a" "a" .int .none true, C09Ex.exAttr "b" "b" .str .none true] },
        { kind := .typeddict, frozen := false,
          hc := { ovs := [("x", { Ovr.neutral with rename := some "xs" })], useAlias := false, inclInitFalse := false,
                  oid := false, forbid := false, detailed := true },
          attrs := [C09Ex.exAttr "x" "x" (.coll .list (.cls 0)) .none true,
                    { C09Ex.exAttr "y" "y" .int .none true with required := false }] },
        { kind := .dataclass, frozen := false,
          hc := { ovs := [], useAlias := false, inclInitFalse := false, oid := true, forbid := false, detailed := true },
          attrs := [C09Ex.exAttr "inner" "inner" (.opt (.td 1)) .none true, C09Ex.exAttr "n" "n" .int (.const (.int 0)) true] } ] }

def C09Ex.nestValue : Obj :=
  .inst 2 [("inner", .dict [(.str "x", .coll .list [.inst 0 [("a", .int 1), ("b", .str "u")], .inst 0 [("a", .int 2), ("b", .str "v")]])]),
           ("n", .int 0)]

theorem C09Ex.nestWorld_WFE : C09Ex.nestWorld.core.WFE :=
  ⟨fun e v hv => by simp [World.members, GWorld.core, C09Ex.nestWorld] at hv,
   fun e => by simp [World.members, GWorld.core, C09Ex.nestWorld, nodupPy]⟩

example : C09Ex.nestWorld.consistent = true := by decide

theorem C09Ex.nestValue_conf : gconf C09Ex.nestWorld 6 (some (.cls 2)) C09Ex.nestValue = true := by
  decide

/-- non-vacuity of `C09_roundtrip_nested` / `C09_keys_nested`: the hypotheses hold for the three-level value -/
example : ∃ y, stTy C09Ex.nestWorld 9 (some (.cls 2)) (unTy C09Ex.nestWorld 9 (some (.cls 2)) C09Ex.nestValue) = .ok y ∧
    AgreesAt C09Ex.nestWorld 6 (some (.cls 2)) C09Ex.nestValue y :=
  C09_roundtrip_nested _ (by decide) C09Ex.nestWorld_WFE 6 _ _ C09Ex.nestValue_conf 9 (by omega)

end NestedExample

/-! ## `omit_if_default` is about `==` to the default, for every value -- falsy ones included (round 3) -/

/-- **Absent exactly when `omit_if_default` applies and the value `==` the default.**  For a consistent customisation and
any handled attribute of any instance: its key is among the emitted keys iff it is NOT the case that `omit_if_default`
applies to it and its value `==` the default (the constant, or what the factory returns).  Nothing else about the value
matters -- in particular not its truthiness. -/
theorem C09_omit_iff_equals_default (frozen : Bool) (hc : HookCfg) (attrs : List Attr) (fs : List (String × Obj))
    (hcons : ConsistentCls frozen hc attrs = true) (p : Attr × String × Obj) (hp : p ∈ attrs.zip fs)
    (hi : included hc p.1 = true) :
    keyName hc p.1 ∈ expectedKeys hc attrs fs ↔ ¬ (oidApplies hc p.1 = true ∧ defaultEq p.1 p.2.2 = true) := by
  obtain ⟨hK, hN, -⟩ := consistentCls_unpack hcons
  rw [C09_keys_spec]
  constructor
  · rintro ⟨q, hq, hqi, hqk, hqn⟩
    have hq1 : q.1 ∈ attrs.filter (included hc) := List.mem_filter.mpr ⟨(List.of_mem_zip hq).1, hqi⟩
    have hp1 : p.1 ∈ attrs.filter (included hc) := List.mem_filter.mpr ⟨(List.of_mem_zip hp).1, hi⟩
    have h1 : q.1 = p.1 := nodup_map_inj _ _ hK _ hq1 _ hp1 hqk
    have h2 : q.2 = p.2 := by
      have hq' : (p.1, q.2) ∈ attrs.zip fs := by rw [← h1]; exact hq
      exact zip_functional attrs fs p.1 q.2 p.2 (nodup_of_nodup_map _ _ hN) hq' hp
    have : q = p := Prod.ext h1 h2
    rw [this] at hqn; exact hqn
  · intro h
    exact ⟨p, hp, hi, rfl, h⟩

/-- **A value that is not `==` the default is kept and restored, whatever else it is.**  Under the hypotheses of
`C09_roundtrip`: if the value of a handled attribute is not `==` its default (e.g. `None`, `0`, `""`, `()` or `{}` where the
default is `Factory(list)`), its key is emitted and the rebuilt instance holds what the attribute's handlers restore from
that value -- not the default. -/
theorem C09_not_default_survives (un : UnFn) (st : StFn) (ci : Nat) (c : GCls) (fs : List (String × Obj))
    (rt : Attr → Obj → Obj) (forbid : Bool)
    (hcons : ConsistentCls c.frozen c.hc c.attrs = true) (hlen : fs.length = c.attrs.length)
    (hrt : ∀ p ∈ c.attrs.zip fs, included c.hc p.1 = true → GenHook.emitted c.hc p.1 p.2.2 = true → (ovOf c.hc p.1).sh = none →
      st p.1.ty (un p.1.ty p.2.2) = .ok (rt p.1 p.2.2))
    (p : Attr × String × Obj) (hp : p ∈ c.attrs.zip fs) (hi : included c.hc p.1 = true)
    (hne : defaultEq p.1 p.2.2 = false) :
    keyName c.hc p.1 ∈ expectedKeys c.hc c.attrs fs ∧
    ∃ fs', hstClsWith forbid st ci c (hunCls un c.hc c.attrs fs) = .ok (.inst ci fs') ∧
      (p.1.name, rtWithHooks c.hc rt p.1 p.2.2) ∈ fs' := by
  refine ⟨(C09_omit_iff_equals_default c.frozen c.hc c.attrs fs hcons p hp hi).mpr (by simp [hne]), _,
    C09_roundtrip un st ci c fs rt forbid hcons hlen hrt, ?_⟩
  rw [restored_eq_map]
  refine List.mem_map.mpr ⟨p, hp, ?_⟩
  simp [hi, GenHook.emitted, hne]

/-- **What `==` an empty-collection factory default**: with `factory=list` the attribute is dropped iff the value IS an
empty list; with `factory=dict` iff it is an empty dict (`pyEqD_empty_tuple` / `pyEqD_empty_set`: likewise for `tuple`,
and for `set` / `frozenset` up to the class of the empty set). -/
theorem C09_empty_factory_default (hc : HookCfg) (a : Attr) (v : Obj) (ha : oidApplies hc a = true) :
    (a.dflt = .factory (.coll .list []) → (GenHook.emitted hc a v = false ↔ v = .coll .list [])) ∧
    (a.dflt = .factory (.dict []) → (GenHook.emitted hc a v = false ↔ v = .dict [])) := by
  constructor <;> intro hd
  · simp [GenHook.emitted, ha, defaultEq, hd, Dflt.value?, pyEqD_empty_list]
  · simp [GenHook.emitted, ha, defaultEq, hd, Dflt.value?, pyEqD_empty_dict]

section FalsyExamples
def C09Ex.fAttr : Attr :=
  { name := "tags", alias := "tags", ty := some (.opt (.coll .list .int)), dflt := .factory (.coll .list []), init := true,
    required := true, kwOnly := false }
def C09Ex.fHc : HookCfg := { ovs := [], useAlias := false, inclInitFalse := false, oid := true, forbid := false, detailed := true }
def C09Ex.fCls : GCls := { kind := .attrs, frozen := false, attrs := [C09Ex.fAttr], hc := C09Ex.fHc }

/-- non-vacuity of `C09_not_default_survives`: `tags=None` under `Factory(list)` and converter-wide omit_if_default is emitted
and restored; `tags=[]` is dropped and comes back as the default -/
example : ConsistentCls false C09Ex.fHc [C09Ex.fAttr] = true := by decide
example : defaultEq C09Ex.fAttr .none = false := by decide
example : hunCls C09Ex.idUn C09Ex.fHc [C09Ex.fAttr] [("tags", .none)] = .dict [(.str "tags", .none)] := by rfl
example : hstClsWith false C09Ex.idSt 0 C09Ex.fCls (hunCls C09Ex.idUn C09Ex.fHc [C09Ex.fAttr] [("tags", .none)])
    = .ok (.inst 0 [("tags", .none)]) := by rfl
example : hunCls C09Ex.idUn C09Ex.fHc [C09Ex.fAttr] [("tags", .coll .list [])] = .dict [] := by rfl
end FalsyExamples

/-- **Negative witness (what the seeded regression does)**: a guard by truthiness (`if instance.x:`) instead of
`!= factory()` agrees with the specification on the default itself and on truthy values, but drops every falsy value that
is not the default: `None`, `0`, `0.0`, `False`, `""`, `b""`, `()`, `set()`, `{}` under `Factory(list)`. -/
theorem C09_truthiness_guard_witness :
    ∀ v ∈ [Obj.none, .int 0, .flt 0, .bool false, .str "", .bytes "", .coll .tuple [], .coll .set [], .dict []],
      GenHook.emitted C09Ex.fHc C09Ex.fAttr v = true ∧ emittedByTruthiness C09Ex.fHc C09Ex.fAttr v = false := by
  decide

end CattrsModel
