import CattrsModel.GenHook.RoundTrip
import CattrsModel.GenHook.TDLemmas
import CattrsModel.GenHook.QuoteLemmas
/-!
# C09 — customised generated hooks: emitted key set, round trip, generation never fails

Property theorems only (model: `GenHook/Model.lean`).  The hooks of a class are folds over its attribute
list; the handlers of the attribute *types* are parameters (`un`, `st`), so every statement holds for
whatever the converter resolved for the component types — in particular for the hooks of nested
customised classes.  attrs classes, dataclasses and NamedTuples (pseudo-attributes) share one generator,
hence one set of theorems (`GCls.kind` is not consulted by it); TypedDicts have their own.
`hstClsWith forbid` selects the template by `c.hc.detailed`, so each statement covers both templates.
-/
namespace CattrsModel
open GenHook

/-! ## emitted keys -/

/-- **Key set.**  For every class (any mix and order of attribute kinds), every customisation whose final
keys are pairwise distinct, every instance and every handlers: the generated unstructure hook returns a
dict whose keys are exactly `expectedKeys`, in that order. -/
theorem C09_keys (un : UnFn) (frozen : Bool) (hc : HookCfg) (attrs : List Attr) (fs : List (String × Obj))
    (hcons : ConsistentCls frozen hc attrs = true) :
    ∃ kvs, hunCls un hc attrs fs = .dict kvs ∧ keysOf kvs = (expectedKeys hc attrs fs).map Obj.str := by
  obtain ⟨hK, -⟩ := consistentCls_unpack hcons
  exact ⟨_, (keysOf_hunCls un hc attrs fs hK).1, (keysOf_hunCls un hc attrs fs hK).2⟩

/-- **What `expectedKeys` says**, declaratively: `k` is emitted iff it is the final key (rename | alias |
name) of an attribute that is handled (not omitted; `init=False` only with the include flag or `omit=False`)
and is not dropped by `omit_if_default` (which applies only to attributes with a default, and drops the
entry exactly when the value `==` the default / the factory's result). -/
theorem C09_keys_spec (hc : HookCfg) (attrs : List Attr) (fs : List (String × Obj)) (k : String) :
    k ∈ expectedKeys hc attrs fs ↔
      ∃ p ∈ attrs.zip fs, included hc p.1 = true ∧ keyName hc p.1 = k ∧
        ¬ (oidApplies hc p.1 = true ∧ defaultEq p.1 p.2.2 = true) :=
  mem_expectedKeys_iff hc k attrs fs

/-- no key is emitted twice -/
theorem C09_keys_nodup (frozen : Bool) (hc : HookCfg) (attrs : List Attr) (fs : List (String × Obj))
    (hcons : ConsistentCls frozen hc attrs = true) : (expectedKeys hc attrs fs).Nodup :=
  expectedKeys_nodup hc attrs fs (consistentCls_unpack hcons).1

/-! ## round trip -/

/-- **Round trip** (attrs classes, dataclasses, NamedTuples; both templates; forbid on or off).
For every class `c` with a consistent customisation, every instance `fs`, and handlers that round-trip on
the values of the handled attributes without custom hooks (`st t (un t v) = ok (rt a v)`): structuring the
output of the unstructure hook succeeds and rebuilds `restored …` — every handled attribute holds what its
handlers restore, every other one its default. -/
theorem C09_roundtrip (un : UnFn) (st : StFn) (ci : Nat) (c : GCls) (fs : List (String × Obj))
    (rt : Attr → Obj → Obj) (forbid : Bool)
    (hcons : ConsistentCls c.frozen c.hc c.attrs = true) (hlen : fs.length = c.attrs.length)
    (hrt : ∀ p ∈ c.attrs.zip fs, included c.hc p.1 = true → emitted c.hc p.1 p.2.2 = true → (ovOf c.hc p.1).sh = none →
      st p.1.ty (un p.1.ty p.2.2) = .ok (rt p.1 p.2.2)) :
    hstClsWith forbid st ci c (hunCls un c.hc c.attrs fs)
      = .ok (.inst ci (restored c.hc (rtWithHooks c.hc rt) c.attrs fs)) := by
  have hsu := (consistentCls_unpack hcons).2.2.2.2.1
  have hrt' : ∀ p ∈ c.attrs.zip fs, included c.hc p.1 = true → emitted c.hc p.1 p.2.2 = true →
      attrSt st (ovOf c.hc p.1) p.1 (attrUn un (ovOf c.hc p.1) p.1 p.2.2) = .ok (rtWithHooks c.hc rt p.1 p.2.2) := by
    intro p hp hi he
    have hpa : p.1 ∈ c.attrs := (List.of_mem_zip hp).1
    have hpair := hsu p.1 hpa
    cases hs : (ovOf c.hc p.1).sh with
    | none =>
      rw [hs] at hpair
      simp only [attrSt, attrUn, hs, ← hpair, rtWithHooks, Option.isSome_none, Bool.false_eq_true, if_false]
      exact hrt p hp hi he hs
    | some n =>
      rw [hs] at hpair
      simp [attrSt, attrUn, hs, ← hpair, rtWithHooks, tagUnwrap, tagWrap]
  unfold hstClsWith
  split
  · exact hstClsD_hunCls un st ci c fs _ forbid hcons hlen hrt'
  · exact hstClsF_hunCls un st ci c fs _ forbid hcons hlen hrt'

/-- **Reading of `restored`**: the rebuilt instance agrees with the original on every handled attribute — it
holds what the attribute's handlers restore, or, when `omit_if_default` dropped the entry, the default, which
is `==` to the original value. -/
theorem C09_restored_agrees (hc : HookCfg) (rt : Attr → Obj → Obj) (attrs : List Attr) (fs : List (String × Obj))
    (p : Attr × String × Obj) (hp : p ∈ attrs.zip fs) (hi : included hc p.1 = true) :
    ∃ y, (p.1.name, y) ∈ restored hc rt attrs fs ∧
      (emitted hc p.1 p.2.2 = true → y = rt p.1 p.2.2) ∧
      (emitted hc p.1 p.2.2 = false → ∃ d, p.1.dflt.value? = some d ∧ y = d ∧ pyEqD p.2.2 d = true) := by
  rw [restored_eq_map]
  refine ⟨_, List.mem_map.mpr ⟨p, hp, rfl⟩, ?_, ?_⟩
  · intro he; simp [hi, he]
  · intro he
    have hne : (emitted hc p.1 p.2.2 = true) = False := by simp [he]
    simp only [hi, he, Bool.and_false, Bool.false_eq_true, if_false]
    simp only [emitted, Bool.not_eq_false', Bool.and_eq_true, defaultEq] at he
    cases hd : p.1.dflt.value? with
    | none => rw [hd] at he; simp at he
    | some d => rw [hd] at he; exact ⟨d, rfl, rfl, he.2⟩

/-- **TypedDict round trip** (copy-then-patch; both templates; `forbid_extra_keys` off — with it on the same
follows from `C10_td_forbid_ok_iff` whenever the emitted keys are all accepted).  For a consistent
customisation (distinct final keys, no rename onto a declared name — the recorded region F24), an instance
that has its required keys and no key colliding with a rename target: structuring the output of the
unstructure hook succeeds, and every handled key is present in the result iff it was present in the
instance, holding what its handlers restore. -/
theorem C09_td_roundtrip_partial (un : UnFn) (unIsId : Option Ty → Bool) (st : StFn) (ci : Nat) (c : GCls)
    (inst : List (Obj × Obj)) (rt : Attr → Obj → Obj)
    (hcons : ConsistentTD c.hc c.attrs = true)
    (hid : ∀ t v, unIsId t = true → un t v = v)
    (hreq : ∀ a ∈ c.attrs, tdIncluded c.hc a = true → a.required = true → (dlookup inst (.str a.name)).isSome = true)
    (hfree : ∀ a ∈ c.attrs, tdIncluded c.hc a = true → ∀ r, (ovOf c.hc a).rename = some r → dlookup inst (.str r) = none)
    (hrt : ∀ a ∈ c.attrs, tdIncluded c.hc a = true → (ovOf c.hc a).sh = none → ∀ v, dlookup inst (.str a.name) = some v →
      st a.ty (un a.ty v) = .ok (rt a v)) :
    ∃ res, hstTDWith false st ci c (hunTD un unIsId c.hc c.attrs inst) = .ok (.dict res) ∧
      ∀ a ∈ c.attrs, tdIncluded c.hc a = true →
        dlookup res (.str a.name) = (dlookup inst (.str a.name)).map (rtWithHooks c.hc rt a) := by
  have hsu := (consistentTD_facts hcons).2
  have hrt' : ∀ a ∈ c.attrs, tdIncluded c.hc a = true → ∀ v, dlookup inst (.str a.name) = some v →
      attrSt st (ovOf c.hc a) a (attrUn un (ovOf c.hc a) a v) = .ok (rtWithHooks c.hc rt a v) := by
    intro a ha hi v hv
    have hpair := hsu a ha
    cases hs : (ovOf c.hc a).sh with
    | none =>
      rw [hs] at hpair
      simp only [attrSt, attrUn, hs, ← hpair, rtWithHooks, Option.isSome_none, Bool.false_eq_true, if_false]
      exact hrt a ha hi hs v hv
    | some n =>
      rw [hs] at hpair
      simp [attrSt, attrUn, hs, ← hpair, rtWithHooks, tagUnwrap, tagWrap]
  unfold hstTDWith
  split
  · exact hstTDD_hunTD un unIsId st ci c inst _ hcons hid hreq hfree hrt'
  · exact hstTDF_hunTD un unIsId st ci c inst _ hcons hid hreq hfree hrt'

/-- **TypedDict key set** (the part about handled keys): in the output of the unstructure hook, the final key
(rename | name) of every handled key holds the unstructured entry, and is present iff the entry is present in
the instance.  (Not stated here: that the *old* name of a renamed / omitted key is gone — it is popped from
the copy, `dictDel`, which removes it when the instance has no duplicate keys.) -/
theorem C09_td_keys_partial (un : UnFn) (unIsId : Option Ty → Bool) (hc : HookCfg) (attrs : List Attr)
    (inst : List (Obj × Obj))
    (hcons : ConsistentTD hc attrs = true)
    (hid : ∀ t v, unIsId t = true → un t v = v)
    (hfree : ∀ a ∈ attrs, tdIncluded hc a = true → ∀ r, (ovOf hc a).rename = some r → dlookup inst (.str r) = none) :
    ∃ out, hunTD un unIsId hc attrs inst = .dict out ∧
      ∀ a ∈ attrs, tdIncluded hc a = true →
        dlookup out (.str (tdKey hc a)) = (dlookup inst (.str a.name)).map (attrUn un (ovOf hc a) a) :=
  ⟨_, rfl, hunTDSteps_main un unIsId hc inst hid attrs inst (consistentTD_facts hcons).1 (fun _ _ => rfl) hfree⟩

/-- **Converter-level options** (`Converter(omit_if_default=, forbid_extra_keys=, type_overrides=)`) resolve to a
per-class configuration (`convHc`: the override of an attribute is the entry of its type); keys and round trip
are the statements above at that configuration. -/
theorem C09_converter_level (teq : Ty → Ty → Bool) (co : ConvOpts) (un : UnFn) (st : StFn) (ci : Nat)
    (kind : GKind) (frozen : Bool) (attrs : List Attr) (fs : List (String × Obj)) (rt : Attr → Obj → Obj)
    (hcons : ConsistentCls frozen (convHc teq co kind attrs) attrs = true) (hlen : fs.length = attrs.length)
    (hrt : ∀ p ∈ attrs.zip fs, included (convHc teq co kind attrs) p.1 = true →
      emitted (convHc teq co kind attrs) p.1 p.2.2 = true → (ovOf (convHc teq co kind attrs) p.1).sh = none →
      st p.1.ty (un p.1.ty p.2.2) = .ok (rt p.1 p.2.2)) :
    let c : GCls := { kind := kind, frozen := frozen, attrs := attrs, hc := convHc teq co kind attrs }
    (∃ kvs, hunCls un c.hc attrs fs = .dict kvs ∧ keysOf kvs = (expectedKeys c.hc attrs fs).map Obj.str) ∧
    hstCls st ci c (hunCls un c.hc attrs fs) = .ok (.inst ci (restored c.hc (rtWithHooks c.hc rt) attrs fs)) := by
  intro c
  exact ⟨C09_keys un frozen _ attrs fs hcons, C09_roundtrip un st ci c fs rt c.hc.forbid hcons hlen hrt⟩

/-! ## hook generation never fails: key quoting -/

/-- **Quoting.**  `repr(k)` — what `{kn!r}` splices into the generated source — is, for **every** string `k`
(quotes, backslashes, line breaks, control and non-ASCII characters, keywords, the empty string), a
well-formed literal that denotes `k` again. -/
theorem C09_quoting (k : String) : pyUnquote (pyQuote k) = some k := pyUnquote_pyQuote k

/-- **Generation never fails**: for every attribute list (any order, any kinds) and every customisation,
every key and attribute name spliced into the source is a well-formed literal. -/
theorem C09_genok (hc : HookCfg) (attrs : List Attr) : genOk hc attrs = true := genOk_always hc attrs

/-! ## non-vacuity and negative witnesses -/
section Examples

def C09Ex.exAttr (n al : String) (t : Ty) (d : Dflt) (ini : Bool) : Attr :=
  { name := n, alias := al, ty := some t, dflt := d, init := ini, required := true, kwOnly := false }

def C09Ex.idUn : UnFn := fun _ v => v
def C09Ex.idSt : StFn := fun _ v => .ok v

/-- a class with a renamed, an aliased, a defaulted (`omit_if_default`) and an `init=False` attribute -/
def C09Ex.exHc : HookCfg :=
  { ovs := [("a", { Ovr.neutral with rename := some "it's" }), ("c", { Ovr.neutral with oid := some true, sh := some 3, uh := some 3 })],
    useAlias := true, inclInitFalse := true, oid := false, forbid := true, detailed := true }
def C09Ex.exCls : GCls :=
  { kind := .attrs, frozen := false, hc := C09Ex.exHc,
    attrs := [C09Ex.exAttr "a" "a" .int .none true, C09Ex.exAttr "_b" "b" .str .none true,
              C09Ex.exAttr "c" "c" .int (.const (.int 7)) true, C09Ex.exAttr "d" "d" .int (.factory (.int 0)) false] }

example : ConsistentCls C09Ex.exCls.frozen C09Ex.exCls.hc C09Ex.exCls.attrs = true := by decide
example : hunCls C09Ex.idUn C09Ex.exHc C09Ex.exCls.attrs [("a", .int 1), ("_b", .str "x"), ("c", .flt 14), ("d", .int 5)]
    = .dict [(.str "it's", .int 1), (.str "b", .str "x"), (.str "d", .int 5)] := by decide
example : expectedKeys C09Ex.exHc C09Ex.exCls.attrs [("a", .int 1), ("_b", .str "x"), ("c", .int 8), ("d", .int 5)]
    = ["it's", "b", "d", "c"] := by decide
example : hstClsWith true C09Ex.idSt 0 C09Ex.exCls (hunCls C09Ex.idUn C09Ex.exHc C09Ex.exCls.attrs [("a", .int 1), ("_b", .str "x"), ("c", .int 8), ("d", .int 5)])
    = .ok (.inst 0 [("a", .int 1), ("_b", .str "x"), ("c", .int 8), ("d", .int 5)]) := by rfl
/-- the same through a NamedTuple's pseudo-attributes, fast template -/
example : hstClsWith false C09Ex.idSt 0 { C09Ex.exCls with kind := .namedtuple, hc := { C09Ex.exHc with detailed := false, inclInitFalse := false, useAlias := false } }
    (hunCls C09Ex.idUn { C09Ex.exHc with detailed := false, inclInitFalse := false, useAlias := false } C09Ex.exCls.attrs
      [("a", .int 1), ("_b", .str "x"), ("c", .flt 14), ("d", .int 5)])
    = .ok (.inst 0 [("a", .int 1), ("_b", .str "x"), ("c", .int 7), ("d", .int 0)]) := by rfl

def C09Ex.exTD (ovs : List (String × Ovr)) : GCls :=
  { kind := .typeddict, frozen := false,
    hc := { ovs := ovs, useAlias := false, inclInitFalse := false, oid := false, forbid := false, detailed := true },
    attrs := [C09Ex.exAttr "a" "a" .int .none true, { C09Ex.exAttr "b" "b" .int .none true with required := false }] }

example : ConsistentTD (C09Ex.exTD [("a", { Ovr.neutral with rename := some "new\nline" })]).hc (C09Ex.exTD []).attrs = true := by decide
example : hstTDWith false C09Ex.idSt 0 (C09Ex.exTD [("a", { Ovr.neutral with rename := some "k" })])
    (hunTD C09Ex.idUn (fun _ => true) (C09Ex.exTD [("a", { Ovr.neutral with rename := some "k" })]).hc (C09Ex.exTD []).attrs [(.str "a", .int 1)])
    = .ok (.dict [(.str "a", .int 1)]) := by rfl
example : pyQuote "it's" = "\"it's\"" := by decide
example : pyQuote "a\nb\\" = "'a\\nb\\\\'" := by decide

/-- **F24 (recorded finding).**  TypedDict `{a, b}` with `a → 'b'`, `b → 'c'` is outside `ConsistentTD`, and the
copy-then-patch hook loses a key: `{'a': 1, 'b': 2}` unstructures to `{'c': 2}` instead of `{'b': 1, 'c': 2}`. -/
theorem C09_F24_td_rename_witness :
    ConsistentTD (C09Ex.exTD [("a", { Ovr.neutral with rename := some "b" }), ("b", { Ovr.neutral with rename := some "c" })]).hc (C09Ex.exTD []).attrs = false
    ∧ hunTD C09Ex.idUn (fun _ => true) (C09Ex.exTD [("a", { Ovr.neutral with rename := some "b" }), ("b", { Ovr.neutral with rename := some "c" })]).hc
        (C09Ex.exTD []).attrs [(.str "a", .int 1), (.str "b", .int 2)] = .dict [(.str "c", .int 2)] := by decide

/-- **F24, second shape**: renaming a key onto its own name makes the detailed structure hook delete it. -/
theorem C09_F24_td_self_rename_witness :
    hstTDWith false C09Ex.idSt 0 (C09Ex.exTD [("a", { Ovr.neutral with rename := some "a" })]) (.dict [(.str "a", .int 1), (.str "b", .int 2)])
      = .ok (.dict [(.str "b", .int 2)]) := by rfl

/-- **F25 (recorded finding).**  A frozen class whose hooks handle an `init=False` attribute is outside
`ConsistentCls`; the structure hook assigns the attribute after `__init__` and fails. -/
theorem C09_F25_frozen_init_false_witness :
    ConsistentCls true C09Ex.exHc C09Ex.exCls.attrs = false
    ∧ hstClsWith false C09Ex.idSt 0 { C09Ex.exCls with frozen := true }
        (hunCls C09Ex.idUn C09Ex.exHc C09Ex.exCls.attrs [("a", .int 1), ("_b", .str "x"), ("c", .int 7), ("d", .int 5)])
      = .error (.cve [(some "d", .leaf)]) := ⟨by decide, by rfl⟩

end Examples

end CattrsModel
