import CattrsModel.Lemmas.ModesAgree
import CattrsModel.Lemmas.UnfoldLeaf
/-!
# C04 — `detailed_validation` changes only error reporting, never acceptance or results

Property theorems only.  `convStructure w cfg T o` is `converter.structure(o, T)` of the model: the
`detailed` flag of `cfg` selects the detailed template `stD` (error trees) or the fast template
`stF` (first error wins); everything else is shared.  NamedTuple positions (`Ty.nt`) run the heterogeneous-tuple
hook over the field types and then `cl(*res)`: the fast template checks the arity first and raises a bare error,
the detailed one structures the zipped items and appends an un-indexed leaf to the iterable group.
`str` / `bytes` payloads at iterating positions are iterated into 1-character strings / ints by both templates
(`stLF` / `stLD`, agreement: `Leaf.modes_agree`).
-/
namespace CattrsModel

/-- For every world (class table), every other converter option, every type and **every input
object**: the converter with `detailed_validation=True` accepts iff the otherwise identical one
with `detailed_validation=False` accepts, and the accepted results are equal. -/
theorem C04_modes_agree (w : World) (cfg : Cfg) (t : Ty) (o : Obj) :
    convStructure w { cfg with detailed := true } t o = convStructure w { cfg with detailed := false } t o := by
  simp only [convStructure, Cfg.core, if_true, Bool.false_eq_true, if_false]
  exact modes_agree w _ t o

/-- The same statement on the two templates directly (any configuration, also nested positions). -/
theorem C04_templates_agree (w : World) (cfg : Cfg) (t : Ty) (o : Obj) :
    Res.toOption (stD w cfg t o) = stF w cfg t o := modes_agree w cfg t o

/-- Corollary: an error tree is produced exactly when the fast template raises. -/
theorem C04_error_iff (w : World) (cfg : Cfg) (t : Ty) (o : Obj) :
    (∃ e, stD w cfg t o = .error e) ↔ stF w cfg t o = Option.none := by
  rw [← modes_agree w cfg t o]
  cases stD w cfg t o <;> simp [Res.toOption]

/-! Non-vacuity: a class with a required, a defaulted and an `init=False` field; a payload with a bad
leaf is rejected by both templates, a good one accepted by both with the same instance. -/
section Examples
def exWorld : World :=
  { classes := [{ kind := .attrs, frozen := false, fields :=
      [ { name := "a", alias := "a", ty := some .int, dflt := .none, init := true, required := true },
        { name := "b", alias := "b", ty := some (.coll .list .str), dflt := .factory (.coll .list []), init := true, required := true },
        { name := "c", alias := "c", ty := some .int, dflt := .const (.int 7), init := false, required := true } ] }],
    enums := [] }
def exCfg : Cfg := { gen := true, tupleStrat := false, detailed := false, forbid := true }

example : stF exWorld exCfg (.cls 0) (.dict [(.str "a", .str "12")])
    = some (.inst 0 [("a", .int 12), ("b", .coll .list []), ("c", .int 7)]) := by
  simp [stF, stFFields, exWorld, exCfg, World.fields, Field.key, dlookup, Obj.pyEq, Obj.num2?, Dflt.value?,
    Obj.toInt?, parseInt?, isDigit, digitsVal, extraKeys, keysOf, fieldNames, initFields, Obj.memPy]
example : ∃ e, stD exWorld exCfg (.cls 0) (.dict [(.str "a", .str "x"), (.str "zz", .int 1)]) = .error e := by
  rw [C04_error_iff]
  simp [stF, stFFields, exWorld, exCfg, World.fields, Field.key, dlookup, Obj.pyEq, Obj.num2?,
    Obj.toInt?, parseInt?, isDigit]

/-! Non-vacuity for class unions: members told apart by their unique required attribute; a payload of member 1 with a
bad leaf is rejected by both templates (the union hook adds no group of its own: the class-level group of the chosen
member is the whole tree), a good one is accepted as member 1; two members with the same attributes are refused. -/
def c04WorldU : World :=
  { classes :=
      [ { kind := .attrs, frozen := false, fields :=
            [ { name := "a", alias := "a", ty := some .int, dflt := .none, init := true, required := true } ] },
        { kind := .dataclass, frozen := false, fields :=
            [ { name := "b", alias := "b", ty := some .int, dflt := .none, init := true, required := true } ] },
        { kind := .attrs, frozen := false, fields :=
            [ { name := "a", alias := "a", ty := some .int, dflt := .none, init := true, required := true } ] } ],
    enums := [] }
def c04CfgU : Cfg := { gen := true, tupleStrat := false, detailed := false, forbid := false }

example : stF c04WorldU c04CfgU (.union [0, 1] true) (.dict [(.str "b", .str "12")]) = some (.inst 1 [("b", .int 12)]) := by
  have hp : unionPick c04WorldU [0, 1] true (.dict [(.str "b", .str "12")]) = .ok 1 := by decide
  rw [stF_union, hp]
  simp [stF, stFFields, c04WorldU, c04CfgU, World.fields, Field.key, dlookup, Obj.pyEq, Obj.num2?, Dflt.value?,
    Obj.toInt?, parseInt?, isDigit, digitsVal]
example : stD c04WorldU c04CfgU (.union [0, 1] true) (.dict [(.str "b", .str "x")]) = .error (.cve [(some "b", .leaf)]) := by
  have hp : unionPick c04WorldU [0, 1] true (.dict [(.str "b", .str "x")]) = .ok 1 := by decide
  rw [stD_union, hp]
  simp [stD, stDFields, c04WorldU, c04CfgU, World.fields, Field.key, dlookup, Obj.pyEq, Obj.num2?, Dflt.value?,
    Obj.toInt?, parseInt?, isDigit, extraKeys, keysOf, fieldNames, initFields, Obj.memPy]
example : stF c04WorldU c04CfgU (.union [0, 1] true) .none = some .none := by
  have hp : unionPick c04WorldU [0, 1] true .none = .none := by decide
  rw [stF_union, hp]
/-- indistinguishable members: hook creation is refused, whatever the payload (here a perfectly good one) -/
example : stF c04WorldU c04CfgU (.union [0, 2] false) (.dict [(.str "a", .int 1)]) = Option.none ∧
    (∃ e, stD c04WorldU c04CfgU (.union [0, 2] false) (.dict [(.str "a", .int 1)]) = .error e) := by
  have hp : unionPick c04WorldU [0, 2] false (.dict [(.str "a", .int 1)]) = .refuseCreate := by decide
  constructor
  · rw [stF_union, hp]
  · rw [C04_error_iff, stF_union, hp]
/-- a `str` payload at a collection position is iterated by both templates: `structure("1x", list[int])` raises in both
modes (the detailed one reports index 1), `structure("12", list[int]) == [1, 2]` in both -/
example : stF c04WorldU c04CfgU (.coll .list .int) (.str "1x") = Option.none ∧
    stD c04WorldU c04CfgU (.coll .list .int) (.str "1x") = .error (.ive [(some (.int 1), .leaf)]) := by
  constructor
  · simp [stF, iterItems, Leaf.stLF_coll, leafItems, stLFL, stLF, Obj.toInt?, parseInt?, digitsVal, isDigit]
  · simp [stD, iterItems, Leaf.stLD_coll, leafItems, stLDL, stLD, Obj.toInt?, SK.structTo, CK.isSet, parseInt?,
      digitsVal, isDigit, Ty.isAny]
example : stD c04WorldU c04CfgU (.coll .list .int) (.str "12") = .ok (.coll .list [.int 1, .int 2]) := by
  simp [stD, iterItems, Leaf.stLD_coll, leafItems, stLDL, stLD, Obj.toInt?, SK.structTo, CK.isSet, parseInt?,
    digitsVal, isDigit, Ty.isAny, mkColl, hashable]
/-- mapping target classes: `structure({"a": "2", "b": 1}, Counter[str])` is the `Counter({'a': 2, 'b': 1})` in BOTH modes
(a fast template that fed `Counter` an iterable of pairs would return `Counter({('a', 2): 1, ('b', 1): 1})`) -/
example : stF exWorld { exCfg with forbid := false } (.map .counter .str .int) (.dict [(.str "a", .str "2"), (.str "b", .int 1)])
      = some (.mdict .counter [(.str "a", .int 2), (.str "b", .int 1)])
    ∧ stD exWorld { exCfg with forbid := false } (.map .counter .str .int) (.dict [(.str "a", .str "2"), (.str "b", .int 1)])
      = .ok (.mdict .counter [(.str "a", .int 2), (.str "b", .int 1)]) := by
  constructor
  · simp [stF, stFKV, exCfg, pyStr, Obj.toInt?, parseInt?, isDigit, digitsVal, keysOf, hashableL, hashable, mapRes, mkMapObj,
      MK.target, mkDict, dictSet, Obj.pyEq, Obj.num2?]
  · simp [stD, stDKV, exCfg, pyStr, Obj.toInt?, parseInt?, isDigit, digitsVal, hashable, mapRes, mkMapObj,
      MK.target, mkDict, dictSet, Obj.pyEq, Obj.num2?]

end Examples

end CattrsModel
