import CattrsModel.Subclasses.Plain
/-!
# C14 — `include_subclasses` preserves the exact subclass through a base-typed round trip

Model: `CattrsModel/Subclasses/Model.lean` (class trees with inherited / redefined fields, the reduced union of every
class, the hooks the strategy registers for every class under both strategies), built on the disambiguator model of
C12 and the tagged-union model of C13.  A `Setup` is one application of the strategy: tree, strategy, the converter's
`forbid_extra_keys`, the per-class hooks `H` the strategy captures (abstract: whatever the converter generated —
overrides, `omit_if_default`, `detailed_validation` live there), and the two enumeration orders Python leaves open
(`so`: sets of strings inside the disambiguator, `uo`: the sets of classes the reduced unions are built from).
Every theorem is for ALL trees (any size, depth, branching), all `K`, `D`, hooks and orders.

**Full statement (as the property reads; FALSE of the code as it is — see the two witnesses below):**
```
theorem C14_exact_subclass (S : Setup) (hok : TreeOK S) (K D : Nat) (hK : K ∈ S.tr.unionClasses)
    (hD : D ∈ S.tr.descendants K) (x : Obj) (kvs : List (Obj × Obj)) (hx : ConformsExact S D x kvs) :
    S.roundTrip K x = some x
```
What is proved is `C14_exact_subclass_partial`: the same with the extra hypotheses `¬ F15Region S K`,
`¬ F47Region S`, `¬ F65Region S` and `¬ F66Region S`, each of which excludes exactly the region of a recorded finding:
* F15 — union strategy, `forbid_extra_keys`, `K` without subclasses: `K` keeps its own structure hook but gets the
  union's tagging unstructure hook (`C14_F15_leaf_tag_forbidden_witness`);
* F47 — automatic strategy, a class with subclasses shares one of its own literal discriminator values with a
  descendant: the disambiguator answers `Union[K, …]`, the converter's union hook picks `K`, which re-enters `K`'s
  hook — endless recursion (`C14_F47_literal_recursion_witness`).
* F65 — union strategy on an explicit `subclasses=` listing in which no listed class is the DIRECT base of a listed
  class: `parent_classes` is empty, nothing is configured (`C14_F65_gap_nothing_configured_witness`); excluded by the
  third extra hypothesis `¬ F65Region S`.
* F66 — union strategy, explicit listing in which a class WITH subclasses is handled before one of its ancestors (or
  twice): the later union hook captures the earlier one as that member's own hook; under `forbid_extra_keys` it pops the
  tag before the captured hook looks for it (`C14_F66_inner_before_ancestor_witness`); excluded by `¬ F66Region S`
  (= `OrderOK`; without `forbid_extra_keys` the round trip survives such an order too, which is shown on the witness but
  not proved in general).
(`TreeOK` for the union strategy also asks that no class without subclasses occurs twice in the class tuple: then
applying the strategy raises — finding F64, `C14_F64_duplicate_leaf_witness`.)
`ConformsExact` itself carries, for the automatic strategy, C12's payload hypotheses (keys the disambiguator takes for
required are present, literal keys are present).  Two converter configurations violate them for perfectly good
instances — F48 (defaulted literal discriminator + `omit_if_default`) and F49 (a dataclass `default_factory` field
is taken for a required one + `omit_if_default`); both are reproduced by the model (`C14_F48_…`, `C14_F49_…_witness`)
and recorded as findings (F49 has since been repaired in the code: a `default_factory` field no longer counts as
required; the harness now sends `dreq = false` for such fields and the F49 witness below documents the old behaviour).
Repeated application (same converter or a copy, possibly after the hierarchy has grown) is modelled by
`Setup.hooksAfter`: the later application captures the earlier one's hooks; `C14_reapplied_hooks_auto` shows they meet
`ConformsExact`'s demand on captured hooks.  For the union strategy with `forbid_extra_keys` they do NOT (the earlier
union hook looks for the tag the later one has popped): finding F58, reproduced by the driver's `SUBCLSN`.
-/
namespace CattrsModel
open Subclasses

/-! ## the round trip -/

/-- **C14_exact_subclass_auto_partial.**  Automatic strategy: the disambiguator accepts every reduced union
(`TreeOKAuto`), no class shares a literal value of its own with a descendant (F47 excluded).  Then for every class
`K` of the tree and every `D` among `K` and its descendants, a payload of an instance of exactly `D` structured
as `K` is handed to `D`'s own hook — whatever the enumeration orders and however deep the tree. -/
theorem C14_exact_subclass_auto_partial (tr : Tree) (so : Disambig.SetOrder) (uo : UnionOrder tr) (H : Tagged.Hooks)
    (hok : TreeOKAuto tr so uo)
    (h43 : ∀ K ∈ tr.unionClasses, 2 ≤ (uo.mem K).length → LitDirect tr.table (uo.mem K) K)
    (K D : Nat) (hK : K ∈ tr.unionClasses) (hD : D ∈ tr.descendants K)
    (p : Obj) (pl : Disambig.Payload) (hv : view p = some pl) (hp : Disambig.PayloadOf tr.table D pl)
    (hl : Disambig.LitKeysPresent tr.table D pl) (n : Nat) :
    stAutoF so tr.table H uo.mem (n + 2) K p = H.st D p := by
  have hDu : D ∈ tr.unionClasses := (mem_subclassesOf.mp hD).1
  have hmem : ∀ k, k ∈ uo.mem k → k ∈ tr.unionClasses := fun k hk => (mem_subclassesOf.mp ((mem_unionOrder uo).mp hk)).1
  exact stAutoF_roundtrip so tr.table H uo.mem hok.wf (unionOrder_nodup uo hok.nodup)
    (fun k hk h2 => hok.deep k (hmem k hk) h2) (fun k hk h2 => h43 k (hmem k hk) h2)
    K D ((mem_unionOrder uo).mpr (self_mem_subclassesOf hK)) ((mem_unionOrder uo).mpr hD)
    ((mem_unionOrder uo).mpr (self_mem_subclassesOf hDu)) p pl hv hp hl n

/-- The automatic strategy on trees whose reduced unions are told apart by unique attributes (no usable literal
discriminator anywhere): nothing is excluded — full strength for that family. -/
theorem C14_exact_subclass_auto_unique (tr : Tree) (so : Disambig.SetOrder) (uo : UnionOrder tr) (H : Tagged.Hooks)
    (hok : TreeOKAuto tr so uo)
    (hnolit : ∀ K ∈ tr.unionClasses, Disambig.litSelect Disambig.sortStr tr.table (uo.mem K) = Option.none)
    (K D : Nat) (hK : K ∈ tr.unionClasses) (hD : D ∈ tr.descendants K)
    (p : Obj) (pl : Disambig.Payload) (hv : view p = some pl) (hp : Disambig.PayloadOf tr.table D pl)
    (hl : Disambig.LitKeysPresent tr.table D pl) (n : Nat) :
    stAutoF so tr.table H uo.mem (n + 2) K p = H.st D p :=
  C14_exact_subclass_auto_partial tr so uo H hok
    (fun k hk _ d hd => by rw [hnolit k hk] at hd; cases hd) K D hK hD p pl hv hp hl n

/-- **C14_exact_subclass_union_partial.**  Union strategy (`configure_tagged_union`, any tag name and generator):
injective, hashable tags; `K` not in the F15 region.  Then for every `K` and every `D` among `K` and its descendants
the round trip of an instance of exactly `D` through `K` returns it. -/
theorem C14_exact_subclass_union_partial (tr : Tree) (us : UStrat) (forbid : Bool) (H : Tagged.Hooks)
    (hok : TreeOKUnion tr us) (K D : Nat) (hK : K ∈ tr.unionClasses) (hD : D ∈ tr.descendants K)
    (x : Obj) (kvs : List (Obj × Obj)) (hx : Tagged.classOf x = some D) (hun : H.un D x = some (.dict kvs))
    (hst : H.st D (.dict kvs) = some x) (hfresh : dlookup kvs (.str us.tagName) = Option.none)
    (hign : forbid = false → H.st D (.dict (kvs ++ [(.str us.tagName, us.tag D)])) = H.st D (.dict kvs))
    (h15 : ¬ (forbid = true ∧ tr.anyParent = true ∧ (tr.subclassesOf K).length ≤ 1))
    (h65 : ¬ (tr.anyParent = false ∧ tr.unionClasses ≠ [0])) (hord : OrderOK tr) :
    (unUnion tr us forbid H K x).bind (stUnion tr us forbid H K) = some x := by
  have hDu : D ∈ tr.unionClasses := (mem_subclassesOf.mp hD).1
  cases hany : tr.anyParent with
  | false =>
    -- nothing was registered: the tree is the root alone
    have huc : tr.unionClasses = [0] := Classical.byContradiction (fun hne => h65 ⟨hany, hne⟩)
    have hK0 : K = 0 := by rw [huc] at hK; simpa using hK
    have hD0 : D = 0 := by rw [huc] at hDu; simpa using hDu
    subst hK0; subst hD0
    simp [unUnion, stUnion, hany, hun, hst]
  | true =>
    rw [unUnion_tagged tr us forbid H hany K D hDu x kvs hx hun hfresh]
    simp only [Option.bind_some]
    by_cases hinner : 1 < (tr.subclassesOf K).length
    · rw [stUnion_inner tr us forbid H hok hord hany K D hK hD hinner kvs hfresh hign, hst]
    · have hleaf : (tr.subclassesOf K).length ≤ 1 := by omega
      have hDK : D = K := eq_of_mem_short (l := tr.subclassesOf K) hD (self_mem_subclassesOf hK) (by omega)
      subst hDK
      rw [stUnion_leaf tr us forbid H D hleaf]
      cases hf : forbid with
      | false => rw [hign hf, hst]
      | true => exact absurd ⟨hf, hany, hleaf⟩ h15

/-- **C14_exact_subclass_partial.**  Both strategies behind one statement: the property as it reads, minus the
regions of the two recorded findings. -/
theorem C14_exact_subclass_partial (S : Setup) (hok : TreeOK S) (K D : Nat) (hK : K ∈ S.tr.unionClasses)
    (hD : D ∈ S.tr.descendants K) (x : Obj) (kvs : List (Obj × Obj)) (hx : ConformsExact S D x kvs)
    (h15 : ¬ F15Region S K) (h43 : ¬ F47Region S) (h65 : ¬ F65Region S) (h66 : ¬ F66Region S) :
    S.roundTrip K x = some x := by
  obtain ⟨tr, strategy, forbid, H, so, uo⟩ := S
  obtain ⟨hcls, hun, hst, hrest⟩ := hx
  cases strategy with
  | auto =>
    simp only [TreeOK] at hok
    simp only at hrest
    obtain ⟨pl, hv, hp, hl⟩ := hrest
    have h43' : ∀ K ∈ tr.unionClasses, 2 ≤ (uo.mem K).length → LitDirect tr.table (uo.mem K) K := by
      intro k hk h2
      apply Classical.byContradiction
      intro hn
      exact h43 ⟨k, hk, h2, hn⟩
    have hunA : unAuto H K x = some (.dict kvs) := by
      simp only [unAuto, hcls]
      split
      · rename_i h; rw [← h]; exact hun
      · exact hun
    simp only [Setup.roundTrip, Setup.un, Setup.st, hunA, Option.bind_some, Setup.fuel]
    rw [C14_exact_subclass_auto_partial tr so uo H hok h43' K D hK hD (.dict kvs) pl hv hp hl tr.size]
    exact hst
  | union us =>
    simp only [TreeOK] at hok
    simp only at hrest
    exact C14_exact_subclass_union_partial tr us forbid H hok K D hK hD x kvs hcls hun hst hrest.1 hrest.2
      (fun h => h15 h) (fun h => h65 h) (Classical.byContradiction (fun h => h66 h))

/-- **C14_order_independent.**  The reduced unions are built from Python sets of classes and the disambiguator iterates
sets of strings: both enumeration orders vary between processes.  Wherever the round-trip theorem applies, the outcome
is the same for any two choices of them. -/
theorem C14_order_independent (S : Setup) (so' : Disambig.SetOrder) (uo' : UnionOrder S.tr)
    (hok : TreeOK S) (hok' : TreeOK { S with so := so', uo := uo' }) (K D : Nat) (hK : K ∈ S.tr.unionClasses)
    (hD : D ∈ S.tr.descendants K) (x : Obj) (kvs : List (Obj × Obj)) (hx : ConformsExact S D x kvs)
    (h15 : ¬ F15Region S K) (h43 : ¬ F47Region S) (h43' : ¬ F47Region { S with so := so', uo := uo' })
    (h65 : ¬ F65Region S) (h66 : ¬ F66Region S) :
    ({ S with so := so', uo := uo' } : Setup).roundTrip K x = S.roundTrip K x := by
  rw [C14_exact_subclass_partial S hok K D hK hD x kvs hx h15 h43 h65 h66]
  exact C14_exact_subclass_partial { S with so := so', uo := uo' } hok' K D hK hD x kvs hx h15 h43' h65 h66

/-- **C14_reapplied_hooks_auto.**  Applying the automatic strategy AGAIN to the same converter (or to a copy of it), e.g.
after the hierarchy has grown: the later application captures, for every class `D` the earlier one registered hooks for,
those hooks (`Setup.hooksAfter`).  They still round-trip `D`'s own instances — which is exactly what `ConformsExact`
asks of the captured hooks, so `C14_exact_subclass_partial` applies to the later application on the grown tree. -/
theorem C14_reapplied_hooks_auto (S1 : Setup) (hs : S1.strategy = .auto) (plain : Tagged.Hooks)
    (hok : TreeOK S1) (h47 : ¬ F47Region S1) (D : Nat) (hD : D ∈ S1.tr.unionClasses)
    (x : Obj) (kvs : List (Obj × Obj)) (hx : ConformsExact S1 D x kvs) :
    (S1.hooksAfter plain).un D x = some (.dict kvs) ∧ (S1.hooksAfter plain).st D (.dict kvs) = some x := by
  have h15 : ¬ F15Region S1 D := by unfold F15Region; rw [hs]; exact fun h => h
  have h65 : ¬ F65Region S1 := by unfold F65Region; rw [hs]; exact fun h => h
  have h66 : ¬ F66Region S1 := by unfold F66Region; rw [hs]; exact fun h => h
  have hrt := C14_exact_subclass_partial S1 hok D D hD (self_mem_subclassesOf hD) x kvs hx h15 h47 h65 h66
  have hun : S1.un D x = some (.dict kvs) := by
    unfold Setup.un
    rw [hs]
    simp only [unAuto, hx.1, if_true]
    exact hx.2.1
  have hc : S1.tr.unionClasses.contains D = true := by simpa using hD
  unfold Setup.roundTrip at hrt
  rw [hun] at hrt
  simp only [Option.bind_some] at hrt
  exact ⟨by simp only [Setup.hooksAfter, hc, if_true]; exact hun,
         by simp only [Setup.hooksAfter, hc, if_true]; exact hrt⟩

/-! ## refusing instead of guessing -/

/-- **C14_refuses.**  Automatic strategy: if the reduced union of some class `K` of the tree has no usable literal
discriminator and contains two different classes neither of which has a required key of its own with respect to the
other (every required key of each is a key of the other — e.g. a subclass that adds only defaulted fields, or nothing),
then APPLYING the strategy raises: no hook is registered that could guess. -/
theorem C14_refuses (S : Setup) (hs : S.strategy = .auto) (K : Nat) (hK : K ∈ S.tr.unionClasses)
    (hlit : Disambig.litSelect Disambig.sortStr S.tr.table (S.uo.mem K) = Option.none)
    (a b : Nat) (ha : a ∈ S.tr.descendants K) (hb : b ∈ S.tr.descendants K) (hab : a ≠ b)
    (h1 : Disambig.Shadowed S.tr.table a b) (h2 : Disambig.Shadowed S.tr.table b a) : S.applyOk = false := by
  have ha' := (mem_unionOrder S.uo).mpr ha
  have hb' := (mem_unionOrder S.uo).mpr hb
  have hcr := (C12_refuses_create S.so S.tr.table (S.uo.mem K) hlit a b ha' hb' hab h1 h2).1
  have hlen := Disambig.length_gt_one_of_two_mem ha' hb' hab
  unfold Setup.applyOk
  rw [hs]
  simp only [applyAutoOk]
  rw [List.all_eq_false]
  refine ⟨K, hK, ?_⟩
  rw [hcr]
  simp
  omega

/-- **C14_never_guesses.**  Automatic strategy, at run time: a payload that is an unstructured form of two different
classes of `K`'s reduced union is never handed to either of them — the hook registered for `K` raises. -/
theorem C14_never_guesses (S : Setup) (hs : S.strategy = .auto) (hwf : S.tr.table.WF) (hnd : S.tr.unionClasses.Nodup)
    (K : Nat) (a b : Nat) (ha : a ∈ S.tr.descendants K) (hb : b ∈ S.tr.descendants K) (hab : a ≠ b)
    (p : Obj) (pl : Disambig.Payload) (hv : view p = some pl)
    (hpa : Disambig.PayloadOf S.tr.table a pl) (hpb : Disambig.PayloadOf S.tr.table b pl) :
    S.st K p = Option.none := by
  have ha' := (mem_unionOrder S.uo).mpr ha
  have hb' := (mem_unionOrder S.uo).mpr hb
  have hlen := Disambig.length_gt_one_of_two_mem ha' hb' hab
  unfold Setup.st
  rw [hs]
  exact stAutoF_refuses S.so S.tr.table S.H S.uo.mem hwf K (unionOrder_nodup S.uo hnd K) (by omega)
    a b ha' hb' hab p pl hv hpa hpb (S.tr.size + 1)

/-- **C14_never_misattributes.**  Automatic strategy, every tree and every enumeration order, no acceptance hypothesis
at all: whatever `structure(p, K)` returns for an unstructured form `p` of an instance of `D` (required and own keys,
legal literal values) was produced by `D`'s own hook from `p` — never by the hook of `K` or of another descendant. -/
theorem C14_never_misattributes (S : Setup) (hs : S.strategy = .auto) (hwf : S.tr.table.WF)
    (hnd : S.tr.unionClasses.Nodup) (K D : Nat) (hK : K ∈ S.tr.unionClasses) (hD : D ∈ S.tr.descendants K)
    (p : Obj) (pl : Disambig.Payload) (hv : view p = some pl) (hp : Disambig.PayloadOf S.tr.table D pl)
    (y : Obj) (h : S.st K p = some y) : S.H.st D p = some y := by
  have hDu : D ∈ S.tr.unionClasses := (mem_subclassesOf.mp hD).1
  unfold Setup.st at h
  rw [hs] at h
  exact stAutoF_never_wrong S.so S.tr.table S.H S.uo.mem hwf (unionOrder_nodup S.uo hnd) D
    ((mem_unionOrder S.uo).mpr (self_mem_subclassesOf hDu)) p pl hv hp S.fuel K
    ((mem_unionOrder S.uo).mpr (self_mem_subclassesOf hK)) ((mem_unionOrder S.uo).mpr hD) y h

/-- Mechanism of F15, for every tree: under the union strategy a class without subclasses structures with its OWN
hook (so a `forbid_extra_keys` hook sees the tag), while its unstructure hook is the full union's tagging hook. -/
theorem C14_union_leaf_keeps_own_hook (tr : Tree) (us : UStrat) (forbid : Bool) (H : Tagged.Hooks) (K : Nat)
    (hleaf : (tr.subclassesOf K).length ≤ 1) (p : Obj) : stUnion tr us forbid H K p = H.st K p :=
  stUnion_leaf tr us forbid H K hleaf p

/-! ## the hierarchy, not the discovered list: every descendant, through any intermediate classes

The theorems above quantify over the classes the strategy DISCOVERED (`tr.unionClasses`, `tr.descendants K`).  The
property speaks of the hierarchy ("every class K of the hierarchy and every instance of K or of any descendant of K").
`Tree.Desc` is the hierarchy relation read off the class statements; the next theorems show that nothing is lost on the
way — whatever the classes in between declare, in particular when they declare nothing at all (plain, undecorated,
behaviour-only classes between attrs classes / dataclasses; undecorated leaves). -/

/-- **C14_discovery_complete.**  In every hierarchy (classes created after their bases) the walk over `__subclasses__()`
finds every class `K` below the root, and every `D` that is `K` or has `K` among its bases — through any number of
intermediate classes — is a member of what the strategy takes for "`K` and its subclasses". -/
theorem C14_discovery_complete (tr : Tree) (hpb : tr.ParentsBelow) (K D : Nat) (hD : D < tr.size)
    (hK : tr.Desc K 0) (hDK : tr.Desc D K) : K ∈ tr.unionClasses ∧ D ∈ tr.descendants K :=
  ⟨mem_unionClasses_of_desc hpb (Nat.lt_of_le_of_lt (hDK.le hpb) hD) hK, mem_subclassesOf_of_desc hpb hD hK hDK⟩

/-- **C14_exact_subclass_hierarchy_partial.**  The round-trip theorem for the hierarchy relation itself: `K` any class of
the hierarchy, `D` equal to `K` or below it through ANY chain of bases.  (Partial for the same reason as
`C14_exact_subclass_partial`: the regions of the recorded findings are excluded.) -/
theorem C14_exact_subclass_hierarchy_partial (S : Setup) (hok : TreeOK S) (hpb : S.tr.ParentsBelow) (K D : Nat)
    (hD : D < S.tr.size) (hK : S.tr.Desc K 0) (hDK : S.tr.Desc D K)
    (x : Obj) (kvs : List (Obj × Obj)) (hx : ConformsExact S D x kvs)
    (h15 : ¬ F15Region S K) (h43 : ¬ F47Region S) (h65 : ¬ F65Region S) (h66 : ¬ F66Region S) :
    S.roundTrip K x = some x :=
  have h := C14_discovery_complete S.tr hpb K D hD hK hDK
  C14_exact_subclass_partial S hok K D h.1 h.2 x kvs hx h15 h43 h65 h66

/-- **C14_undecorated_inherits_fields.**  A class that declares no fields — an undecorated, behaviour-only class (or a
decorated one with an empty body) — has exactly its base's fields: to the strategy, the disambiguator and the generated
hooks it is an attrs class / dataclass like its base, and a legitimate `K` and `D` of the theorems above. -/
theorem C14_undecorated_inherits_fields (tr : Tree) (hpb : tr.ParentsBelow) (c q : Nat) (hc : c < tr.size)
    (hp : (tr.node c).parent = some q) (hown : (tr.node c).own = []) : tr.fields c = tr.fields q :=
  fields_of_undecorated hpb hc hp hown

/-- **C14_own_filter_invisible_when_all_decorated.**  A discovery that keeps only subclasses which were THEMSELVES
decorated (`Tree.preorderOwnF`, not the code) finds exactly what the real one finds as long as every class is decorated:
hierarchies without undecorated classes cannot tell the two apart — the check has to generate undecorated ones. -/
theorem C14_own_filter_invisible_when_all_decorated (tr : Tree) (dec : Deco) (hall : ∀ c, dec c = true) (n c : Nat) :
    tr.preorderOwnF dec n c = tr.preorderF n c :=
  preorderOwnF_eq_of_all_decorated tr dec hall n c

/-! ## non-vacuity and negative witnesses -/
section Examples
open Disambig (payloadOfB_sound litKeysPresentB_sound)

def c14Fld (n : String) (lit : Option (List Nat) := Option.none) : SField := ⟨⟨n, n, true, lit⟩, Option.none, false⟩

/-- the fixture of the project's own tests: `Parent{a}`, `Child1(Parent){b}`, `GrandChild(Child1){c}`, `Child2(Parent){d}` -/
def c14Tree : Tree :=
  { nodes := [⟨Option.none, [c14Fld "a"]⟩, ⟨some 0, [c14Fld "b"]⟩, ⟨some 1, [c14Fld "c"]⟩, ⟨some 0, [c14Fld "d"]⟩] }

def c14Tags : UStrat :=
  ⟨"_type", fun c => .str (match c with | 0 => "Parent" | 1 => "Child1" | 2 => "GrandChild" | _ => "Child2")⟩

def c14Auto (forbid : Bool) : Setup :=
  { tr := c14Tree, strategy := .auto, forbid := forbid, H := concHooks c14Tree forbid,
    so := Disambig.SetOrder.id, uo := UnionOrder.id c14Tree }

def c14Union (forbid : Bool) : Setup :=
  { tr := c14Tree, strategy := .union c14Tags, forbid := forbid, H := concHooks c14Tree forbid,
    so := Disambig.SetOrder.id, uo := UnionOrder.id c14Tree }

def c14Grand : Obj := .inst 2 [("a", .int 1), ("b", .int 2), ("c", .int 3)]
def c14GrandKvs : List (Obj × Obj) := [(.str "a", .int 1), (.str "b", .int 2), (.str "c", .int 3)]
def c14Child2 : Obj := .inst 3 [("a", .int 1), ("d", .int 4)]
def c14Child2Kvs : List (Obj × Obj) := [(.str "a", .int 1), (.str "d", .int 4)]

example : c14Tree.unionClasses = [0, 1, 2, 3] := by decide
example : c14Tree.descendants 1 = [1, 2] ∧ c14Tree.descendants 3 = [3] := by decide
example : (c14Tree.fields 2).map (·.sig.name) = ["a", "b", "c"] := by decide

theorem c14Auto_ok (f : Bool) : TreeOK (c14Auto f) := by
  show TreeOKAuto c14Tree Disambig.SetOrder.id (UnionOrder.id c14Tree)
  exact treeOKAutoB_sound (by decide)

theorem c14Auto_no43 (f : Bool) : ¬ F47Region (c14Auto f) := by
  rintro ⟨K, hK, h2, hn⟩
  exact hn (noLitLoopB_sound (tr := c14Tree) (uo := UnionOrder.id c14Tree) (by decide) K hK h2)

theorem c14Union_ok (f : Bool) : TreeOK (c14Union f) := by
  show TreeOKUnion c14Tree c14Tags
  exact treeOKUnionB_sound (by decide)

/-- non-vacuity of `C14_exact_subclass_partial`, automatic strategy, `forbid_extra_keys`: a `GrandChild` instance
structured as `Parent` (two levels up) comes back as exactly that `GrandChild` -/
example : (c14Auto true).roundTrip 0 c14Grand = some c14Grand :=
  C14_exact_subclass_partial (c14Auto true) (c14Auto_ok true) 0 2 (by decide) (by decide) c14Grand c14GrandKvs
    ⟨rfl, by decide, by decide,
      ⟨[("a", 1), ("b", 2), ("c", 3)], by decide, payloadOfB_sound (by decide), litKeysPresentB_sound (by decide)⟩⟩
    (fun h => h) (c14Auto_no43 true) (fun h => h) (fun h => h)

/-- non-vacuity of `C14_never_misattributes`: the hypotheses hold for the same case, and the conclusion is about a
result that exists -/
example : (c14Auto true).H.st 2 (.dict c14GrandKvs) = some c14Grand :=
  C14_never_misattributes (c14Auto true) rfl (Disambig.wfB_sound (by decide)) (by decide) 0 2 (by decide) (by decide)
    (.dict c14GrandKvs) [("a", 1), ("b", 2), ("c", 3)] (by decide) (payloadOfB_sound (by decide)) c14Grand (by decide)

/-- … union strategy, `forbid_extra_keys`, `K = Child1` (has a subclass): same -/
example : (c14Union true).roundTrip 1 c14Grand = some c14Grand :=
  C14_exact_subclass_partial (c14Union true) (c14Union_ok true) 1 2 (by decide) (by decide) c14Grand c14GrandKvs
    ⟨rfl, by decide, by decide, by decide, fun h => by cases h⟩
    (fun h => by have := h.2.2; revert this; decide) (fun h => h) (fun h => by have := h.1; revert this; decide)
    (fun h => h (orderOKB_sound (by decide)))

/-- … union strategy without `forbid_extra_keys`, `K = Child2` (no subclasses): the own hook ignores the tag -/
example : (c14Union false).roundTrip 3 c14Child2 = some c14Child2 :=
  C14_exact_subclass_partial (c14Union false) (c14Union_ok false) 3 3 (by decide) (by decide) c14Child2 c14Child2Kvs
    ⟨rfl, by decide, by decide, by decide, fun _ => by decide⟩
    (fun h => by cases h.1) (fun h => h) (fun h => by have := h.1; revert this; decide)
    (fun h => h (orderOKB_sound (by decide)))

/-- **C14_F15_leaf_tag_forbidden_witness** (negative witness, finding F15).  All hypotheses of the full statement hold
for the union strategy on the four-class fixture with `forbid_extra_keys`, `K = D = Child2`, yet the round trip raises:
the full statement is false of the code as it is. -/
theorem C14_F15_leaf_tag_forbidden_witness :
    ∃ (S : Setup) (K D : Nat) (x : Obj) (kvs : List (Obj × Obj)), TreeOK S ∧ K ∈ S.tr.unionClasses ∧
      D ∈ S.tr.descendants K ∧ ConformsExact S D x kvs ∧ F15Region S K ∧ ¬ F47Region S ∧
      S.roundTrip K x = Option.none :=
  ⟨c14Union true, 3, 3, c14Child2, c14Child2Kvs, c14Union_ok true, by decide, by decide,
    ⟨rfl, by decide, by decide, by decide, fun h => by cases h⟩,
    ⟨rfl, by decide, by decide⟩, fun h => h, by decide⟩

/-- `P{k: Literal[1]}`, `C1(P){x}` (does not redefine `k`), `C2(P){k: Literal[2]}` -/
def c14LitTree : Tree :=
  { nodes := [⟨Option.none, [c14Fld "k" (some [1])]⟩, ⟨some 0, [c14Fld "x"]⟩, ⟨some 0, [c14Fld "k" (some [2])]⟩] }

def c14Lit : Setup :=
  { tr := c14LitTree, strategy := .auto, forbid := false, H := concHooks c14LitTree false,
    so := Disambig.SetOrder.id, uo := UnionOrder.id c14LitTree }

/-- the subclasses of that tree do round-trip through the base (the literal value routes `C1`'s payload to the
sub-union `P | C1`, which is told apart by `x`) … -/
example : c14Lit.roundTrip 0 (.inst 1 [("k", .int 1), ("x", .int 5)]) = some (.inst 1 [("k", .int 1), ("x", .int 5)]) := by
  decide
example : c14Lit.roundTrip 0 (.inst 2 [("k", .int 2)]) = some (.inst 2 [("k", .int 2)]) := by decide

/-- **C14_F47_literal_recursion_witness** (negative witness, finding F47).  … but an instance of `P` itself does not:
the strategy is accepted (`TreeOK`, `applyOk`), every hypothesis of the full statement holds, and the round trip of
`P(k=1)` through `P` raises (the model runs out of fuel where Python raises `RecursionError`). -/
theorem C14_F47_literal_recursion_witness :
    ∃ (S : Setup) (K D : Nat) (x : Obj) (kvs : List (Obj × Obj)), TreeOK S ∧ S.applyOk = true ∧
      K ∈ S.tr.unionClasses ∧ D ∈ S.tr.descendants K ∧ ConformsExact S D x kvs ∧ ¬ F15Region S K ∧ F47Region S ∧
      S.roundTrip K x = Option.none := by
  refine ⟨c14Lit, 0, 0, .inst 0 [("k", .int 1)], [(.str "k", .int 1)], ?_, by decide, by decide, by decide,
    ⟨rfl, by decide, by decide,
      ⟨[("k", 1)], by decide, payloadOfB_sound (by decide), litKeysPresentB_sound (by decide)⟩⟩,
    fun h => h, ⟨0, by decide, by decide, ?_⟩, by decide⟩
  · show TreeOKAuto c14LitTree Disambig.SetOrder.id (UnionOrder.id c14LitTree)
    exact treeOKAutoB_sound (by decide)
  · intro h
    have := h "k" (by decide) 1 (by decide)
    revert this
    decide

/-- non-vacuity of `C14_refuses`: `P{a}`, `C(P){b = 0}` (the subclass adds only a defaulted field) — applying the
automatic strategy raises -/
def c14Refuse : Setup :=
  let tr : Tree := { nodes := [⟨Option.none, [c14Fld "a"]⟩, ⟨some 0, [⟨⟨"b", "b", false, Option.none⟩, some 0, false⟩]⟩] }
  { tr := tr, strategy := .auto, forbid := false, H := concHooks tr false,
    so := Disambig.SetOrder.id, uo := UnionOrder.id tr }

example : c14Refuse.applyOk = false :=
  C14_refuses c14Refuse rfl 0 (by decide) (by decide) 0 1 (by decide) (by decide) (by decide)
    (by intro k hk _; revert hk; simp [c14Refuse, Tree.table, Tree.fields, Tree.fieldsF, Tree.node, Tree.size,
          mergeFields, Disambig.Table.cls, Disambig.CSig.keys, c14Fld]; intro h; simp [h])
    (by intro k hk hr; revert hk hr; simp [c14Refuse, Tree.table, Tree.fields, Tree.fieldsF, Tree.node, Tree.size,
          mergeFields, Disambig.Table.cls, Disambig.CSig.keys, Disambig.CSig.keyIsReq, c14Fld]
        intro h; rcases h with h | h <;> simp [h])

/-- non-vacuity of `C14_never_guesses`: in the literal tree make `x` defaulted, then `{k: 1}` is a form of both `P` and
`C1` and the hook for `P` raises on it -/
def c14Shared : Setup :=
  let tr : Tree := { nodes := [⟨Option.none, [c14Fld "k" (some [1])]⟩,
                     ⟨some 0, [⟨⟨"x", "x", false, Option.none⟩, some 0, false⟩]⟩,
                     ⟨some 0, [c14Fld "k" (some [2])]⟩] }
  { tr := tr, strategy := .auto, forbid := false, H := concHooks tr false,
    so := Disambig.SetOrder.id, uo := UnionOrder.id tr }

example : c14Shared.st 0 (.dict [(.str "k", .int 1)]) = Option.none :=
  C14_never_guesses c14Shared rfl (Disambig.wfB_sound (by decide)) (by decide) 0 0 1 (by decide) (by decide) (by decide)
    (.dict [(.str "k", .int 1)]) [("k", 1)] (by decide) (payloadOfB_sound (by decide)) (payloadOfB_sound (by decide))

/-! ### the two disambiguator-level findings that surface through `include_subclasses` (F48, F49)

`ConformsExact` (automatic strategy) asks — as C12 does — that the keys the disambiguator regards as required
(`dreq`) and the keys of literal-typed fields be present in the unstructured form.  Two configurations break that
although nothing is wrong with the instance; the model reproduces both: -/

/-- dataclasses `P{a}`, `C(P){e = field(default_factory=…)}` with `omit_if_default`: the disambiguator takes `e` for a
required field (`dreq = true`) and recognises `C` by it, the unstructure hook leaves it out -/
def c14Factory : Setup :=
  let tr : Tree := { nodes := [⟨Option.none, [c14Fld "a"]⟩, ⟨some 0, [⟨⟨"e", "e", true, Option.none⟩, some 1, true⟩]⟩] }
  { tr := tr, strategy := .auto, forbid := false, H := concHooks tr false,
    so := Disambig.SetOrder.id, uo := UnionOrder.id tr }

/-- **C14_F49_factory_default_witness** (finding F49): the strategy is accepted, and `C(a=1)` structured as `P` comes
back as `P(a=1)` — the subclass is silently lost. -/
theorem C14_F49_factory_default_witness :
    c14Factory.applyOk = true ∧
    c14Factory.roundTrip 0 (.inst 1 [("a", .int 1), ("e", .int 1)]) = some (.inst 0 [("a", .int 1)]) := by decide

/-- whereas an instance whose `e` differs from the default round-trips -/
example : c14Factory.roundTrip 0 (.inst 1 [("a", .int 1), ("e", .int 2)]) = some (.inst 1 [("a", .int 1), ("e", .int 2)]) := by
  decide

/-- `P{k: Literal[1] = 1}`, `C(P){k: Literal[2] = 2, x}` with `omit_if_default` -/
def c14LitOmit : Setup :=
  let tr : Tree := { nodes := [⟨Option.none, [⟨⟨"k", "k", false, some [1]⟩, some 1, true⟩]⟩,
                     ⟨some 0, [⟨⟨"k", "k", false, some [2]⟩, some 2, true⟩, c14Fld "x"]⟩] }
  { tr := tr, strategy := .auto, forbid := false, H := concHooks tr false,
    so := Disambig.SetOrder.id, uo := UnionOrder.id tr }

/-- **C14_F48_literal_omitted_witness** (finding F48): accepted, and the round trip of `P()` raises (`data["k"]`). -/
theorem C14_F48_literal_omitted_witness :
    c14LitOmit.applyOk = true ∧ c14LitOmit.roundTrip 0 (.inst 0 [("k", .int 1)]) = Option.none := by decide

/-- the union strategy applied a second time to the same converter (same fixture, `forbid_extra_keys`): the per-class
hooks it captures are those of the first application -/
def c14UnionTwice : Setup :=
  { c14Union true with H := (c14Union true).hooksAfter (concHooks c14Tree true) }

/-- **C14_F58_union_reapplied_witness** (finding F58): after the second application an instance of `Parent` itself no
longer round-trips through `Parent` (the new union hook pops the tag, the captured old one looks for it), while it did
after the first; without `forbid_extra_keys` the second application is harmless. -/
theorem C14_F58_union_reapplied_witness :
    (c14Union true).roundTrip 0 (.inst 0 [("a", .int 1)]) = some (.inst 0 [("a", .int 1)]) ∧
    c14UnionTwice.applyOk = true ∧ c14UnionTwice.roundTrip 0 (.inst 0 [("a", .int 1)]) = Option.none ∧
    ({ c14Union false with H := (c14Union false).hooksAfter (concHooks c14Tree false) } : Setup).roundTrip 0
      (.inst 0 [("a", .int 1)]) = some (.inst 0 [("a", .int 1)]) := by decide

/-- non-vacuity of `C14_reapplied_hooks_auto` -/
example : ((c14Auto true).hooksAfter (concHooks c14Tree true)).st 2 (.dict c14GrandKvs) = some c14Grand :=
  (C14_reapplied_hooks_auto (c14Auto true) rfl (concHooks c14Tree true) (c14Auto_ok true) (c14Auto_no43 true) 2 (by decide)
    c14Grand c14GrandKvs
    ⟨rfl, by decide, by decide,
      ⟨[("a", 1), ("b", 2), ("c", 3)], by decide, payloadOfB_sound (by decide), litKeysPresentB_sound (by decide)⟩⟩).2

/-! ### explicit `subclasses=` listings: gaps and duplicates -/

/-- `K{a}` → `_Helper(K){h}` → `Leaf(_Helper){l}` and `M(K){m}`, listed as `subclasses=(M, Leaf)`: `Leaf` hangs below `K`
(carrying `h`), its direct base is not listed -/
def c14GapTree : Tree :=
  { nodes := [⟨Option.none, [c14Fld "a"]⟩, ⟨some 0, [c14Fld "m"]⟩, ⟨some 0, [c14Fld "h", c14Fld "l"]⟩], indirect := [2] }

def c14GapTags : UStrat := ⟨"_type", fun c => .str (match c with | 0 => "K" | 1 => "M" | _ => "Leaf")⟩

def c14Gap (tr : Tree) : Setup :=
  { tr := tr, strategy := .union c14GapTags, forbid := false, H := concHooks tr false,
    so := Disambig.SetOrder.id, uo := UnionOrder.id tr }

def c14Leaf : Obj := .inst 2 [("a", .int 1), ("h", .int 2), ("l", .int 3)]

/-- non-vacuity with a gap: another listed class IS a direct child of `K`, the strategy configures everything and the
leaf below the omitted helper comes back through `K` as itself -/
example : (c14Gap c14GapTree).roundTrip 0 c14Leaf = some c14Leaf :=
  C14_exact_subclass_partial (c14Gap c14GapTree)
    (by show TreeOKUnion c14GapTree c14GapTags; exact treeOKUnionB_sound (by decide)) 0 2 (by decide) (by decide)
    c14Leaf [(.str "a", .int 1), (.str "h", .int 2), (.str "l", .int 3)]
    ⟨rfl, by decide, by decide, by decide, fun _ => by decide⟩
    (fun h => by cases h.1) (fun h => h) (fun h => by have := h.1; revert this; decide)
    (fun h => h (orderOKB_sound (by decide)))

def c14GapOnly : Setup :=
  c14Gap { nodes := [⟨Option.none, [c14Fld "a"]⟩, ⟨some 0, [c14Fld "h", c14Fld "l"]⟩], indirect := [1] }

/-- **C14_F65_gap_nothing_configured_witness** (finding F65): the same hierarchy listed as `subclasses=(Leaf,)` — no
listed class is a DIRECT base of a listed class, `parent_classes` is empty, the union strategy returns without
configuring anything (`applyOk`), every hypothesis of the full statement holds, and the `Leaf` comes back through `K` as a
bare `K(a=1)`. -/
theorem C14_F65_gap_nothing_configured_witness :
    TreeOK c14GapOnly ∧ c14GapOnly.applyOk = true ∧ F65Region c14GapOnly ∧ ¬ F15Region c14GapOnly 0 ∧
    ConformsExact c14GapOnly 1 (.inst 1 [("a", .int 1), ("h", .int 2), ("l", .int 3)])
      [(.str "a", .int 1), (.str "h", .int 2), (.str "l", .int 3)] ∧
    c14GapOnly.roundTrip 0 (.inst 1 [("a", .int 1), ("h", .int 2), ("l", .int 3)]) = some (.inst 0 [("a", .int 1)]) := by
  refine ⟨?_, by decide, ⟨by decide, by decide⟩, (fun h => by cases h.1),
    ⟨rfl, by decide, by decide, by decide, fun _ => by decide⟩, by decide⟩
  show TreeOKUnion _ c14GapTags
  exact treeOKUnionB_sound (by decide)

/-- **C14_F64_duplicate_leaf_witness** (finding F64): a class without subclasses that occurs twice in the class tuple
(listed twice in `subclasses=`; or reached twice by `_make_subclasses_tree` in a diamond) makes the union strategy raise
while it is applied (`Union[(E, E)]` is `E`, which has no `__args__`); listed once, or with a class below it, it is fine;
the automatic strategy does not mind. -/
theorem C14_F64_duplicate_leaf_witness :
    applyUnionOk { c14GapTree with order := [0, 1, 2, 1] } c14GapTags = false ∧
    applyUnionOk c14GapTree c14GapTags = true ∧
    applyUnionOk { c14Tree with order := [0, 1, 2, 3, 1] } c14Tags = true ∧
    applyAutoOk Disambig.SetOrder.id { c14GapTree with order := [0, 1, 2, 1] } (UnionOrder.id _) = true := by decide

/-- the four-class fixture listed level by level with `GrandChild` first: `subclasses=(GrandChild, Child1, Child2)` -/
def c14Backwards (forbid : Bool) : Setup :=
  let tr : Tree := { c14Tree with order := [0, 2, 1, 3] }
  { tr := tr, strategy := .union c14Tags, forbid := forbid, H := concHooks tr forbid,
    so := Disambig.SetOrder.id, uo := UnionOrder.id tr }

/-- … a listing is fine as long as no class WITH subclasses precedes an ancestor (non-vacuity of `OrderOK` beyond the
depth-first order) -/
example : OrderOK (c14Backwards true).tr ∧ (c14Backwards true).roundTrip 0 c14Grand = some c14Grand := by
  exact ⟨orderOKB_sound (by decide), by decide⟩

/-- a chain `A{a}` > `B{b}` > `C{c}` > `D{d}`, listed as `subclasses=(C, D, B)`: `C` (which has the subclass `D`) is handled
before its ancestor `B` -/
def c14ChainTree (order : List Nat) : Tree :=
  { nodes := [⟨Option.none, [c14Fld "a"]⟩, ⟨some 0, [c14Fld "b"]⟩, ⟨some 1, [c14Fld "c"]⟩, ⟨some 2, [c14Fld "d"]⟩],
    order := order }

def c14Chain (order : List Nat) (forbid : Bool) : Setup :=
  { tr := c14ChainTree order, strategy := .union ⟨"_type", fun c => .int c⟩, forbid := forbid,
    H := concHooks (c14ChainTree order) forbid, so := Disambig.SetOrder.id, uo := UnionOrder.id _ }

/-- **C14_F66_inner_before_ancestor_witness** (finding F66).  With `C` handled before `B`, `B`'s union hook captures `C`'s
union hook as `C`'s own hook; under `forbid_extra_keys` it pops the tag first, and the captured hook then looks for it in
vain: an instance of `C` no longer round-trips through `B` (it still does through the root `A`, which was handled first,
and through `C`; without `forbid_extra_keys`; and in the depth-first order). -/
theorem C14_F66_inner_before_ancestor_witness :
    ¬ OrderOK (c14ChainTree [0, 2, 3, 1]) ∧ (c14Chain [0, 2, 3, 1] true).applyOk = true ∧
    (c14Chain [0, 2, 3, 1] true).roundTrip 1 (.inst 2 [("a", .int 1), ("b", .int 2), ("c", .int 3)]) = Option.none ∧
    (c14Chain [0, 2, 3, 1] true).roundTrip 0 (.inst 2 [("a", .int 1), ("b", .int 2), ("c", .int 3)]) =
      some (.inst 2 [("a", .int 1), ("b", .int 2), ("c", .int 3)]) ∧
    (c14Chain [0, 2, 3, 1] false).roundTrip 1 (.inst 2 [("a", .int 1), ("b", .int 2), ("c", .int 3)]) =
      some (.inst 2 [("a", .int 1), ("b", .int 2), ("c", .int 3)]) ∧
    (c14Chain [] true).roundTrip 1 (.inst 2 [("a", .int 1), ("b", .int 2), ("c", .int 3)]) =
      some (.inst 2 [("a", .int 1), ("b", .int 2), ("c", .int 3)]) :=
  ⟨not_orderOK_of_B (by decide), by decide, by decide, by decide, by decide, by decide⟩

/-- `Shape{a}` > `Polygon` (UNDECORATED: behaviour only) > {`Triangle{b}`, `Rect{c}` > `Square{d}`}; `Shape` > `Circle{e}` -/
def c14ShapeTree : Tree :=
  { nodes := [⟨Option.none, [c14Fld "a"]⟩, ⟨some 0, []⟩, ⟨some 1, [c14Fld "b"]⟩, ⟨some 1, [c14Fld "c"]⟩,
              ⟨some 3, [c14Fld "d"]⟩, ⟨some 0, [c14Fld "e"]⟩] }

/-- which of them were themselves decorated: all but `Polygon` -/
def c14ShapeDec : Deco := fun c => c != 1

def c14Shape (forbid : Bool) : Setup :=
  { tr := c14ShapeTree, strategy := .union ⟨"_type", fun c => .int c⟩, forbid := forbid,
    H := concHooks c14ShapeTree forbid, so := Disambig.SetOrder.id, uo := UnionOrder.id _ }

def c14Square : Obj := .inst 4 [("a", .int 1), ("c", .int 3), ("d", .int 4)]
def c14SquareKvs : List (Obj × Obj) := [(.str "a", .int 1), (.str "c", .int 3), (.str "d", .int 4)]

theorem c14Shape_pb : c14ShapeTree.ParentsBelow := parentsBelowB_sound (by decide)

/-- `Square` is below `Shape` through `Rect` and the undecorated `Polygon` -/
theorem c14Square_desc : c14ShapeTree.Desc 4 0 :=
  .step (q := 3) rfl (.step (q := 1) rfl (.step (q := 0) rfl (.refl 0)))

/-- non-vacuity of `C14_exact_subclass_hierarchy_partial`: a `Square` through the root `Shape`, two decorated and one
undecorated class in between (union strategy, `forbid_extra_keys`) -/
example : (c14Shape true).roundTrip 0 c14Square = some c14Square :=
  C14_exact_subclass_hierarchy_partial (c14Shape true) (treeOKUnionB_sound (by decide)) c14Shape_pb 0 4 (by decide)
    (.refl 0) c14Square_desc c14Square c14SquareKvs
    ⟨rfl, by decide, by decide, by decide, fun h => by cases h⟩
    (fun h => by have := h.2.2; revert this; decide) (fun h => h) (fun h => by have := h.1; revert this; decide)
    (fun h => h (orderOKB_sound (by decide)))

/-- … and through `K = Polygon`, the undecorated class itself -/
example : (c14Shape true).roundTrip 1 c14Square = some c14Square :=
  C14_exact_subclass_hierarchy_partial (c14Shape true) (treeOKUnionB_sound (by decide)) c14Shape_pb 1 4 (by decide)
    (.step (q := 0) rfl (.refl 0)) (.step (q := 3) rfl (.step (q := 1) rfl (.refl 1))) c14Square c14SquareKvs
    ⟨rfl, by decide, by decide, by decide, fun h => by cases h⟩
    (fun h => by have := h.2.2; revert this; decide) (fun h => h) (fun h => by have := h.1; revert this; decide)
    (fun h => h (orderOKB_sound (by decide)))

/-- non-vacuity of `C14_undecorated_inherits_fields`: `Polygon` has `Shape`'s field -/
example : c14ShapeTree.fields 1 = c14ShapeTree.fields 0 :=
  C14_undecorated_inherits_fields c14ShapeTree c14Shape_pb 1 0 (by decide) rfl rfl

/-- **C14_undecorated_layer_witness** (what the regression "keep only subclasses that were themselves decorated, in front
of the recursion" would show).  On the Shape hierarchy the decoration marking fits (the undecorated class declares
nothing), the real discovery finds all six classes and an instance of `Square` round-trips through `Shape` and through the
undecorated `Polygon` — while the filtering discovery is left with `Shape` and `Circle`: `Polygon` AND ITS WHOLE SUBTREE
are gone, so `Square` would be unknown to `Shape`'s union. -/
theorem C14_undecorated_layer_witness :
    c14ShapeDec.Fits c14ShapeTree ∧ c14ShapeTree.unionClasses = [0, 1, 2, 3, 4, 5] ∧
    (c14Shape true).applyOk = true ∧
    (c14Shape true).roundTrip 0 c14Square = some c14Square ∧ (c14Shape false).roundTrip 1 c14Square = some c14Square ∧
    (c14Shape false).roundTrip 1 (.inst 1 [("a", .int 7)]) = some (.inst 1 [("a", .int 7)]) ∧
    c14ShapeTree.preorderOwnF c14ShapeDec c14ShapeTree.size 0 = [0, 5] ∧
    4 ∉ c14ShapeTree.preorderOwnF c14ShapeDec c14ShapeTree.size 0 := by
  refine ⟨?_, by decide, by decide, by decide, by decide, by decide, by decide, by decide⟩
  intro c hc
  have : c = 1 := by
    simp only [c14ShapeDec, bne_eq_false_iff_eq] at hc
    exact hc
  subst this
  rfl

end Examples

end CattrsModel
