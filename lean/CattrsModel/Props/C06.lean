import CattrsModel.Lemmas.GenInterpTyped
/-!
# C06 — the generated-code `Converter` and the interpretive `BaseConverter` agree on common types

Property theorems only.  `cfg.gen` selects the engine: `true` = `Converter` (hooks generated per class),
`false` = `BaseConverter` (`structure_attrs_fromdict/fromtuple`, `unstructure_attrs_asdict/astuple`,
`_unstructure_seq/_mapping` dispatching on the run-time class).  The common type support is
`Ty.supU false` / `World.SupU false` (what `BaseConverter.__init__` registers hooks for: no TypedDict, no
`Annotated`, NewType, heterogeneous tuples and NamedTuples over primitives only -- `World.SupU.ntPrim`; a NamedTuple
position is a tuple position for `mapsAtCls`, and both engines run the same NamedTuple structure hook).
-/
namespace CattrsModel
open GenInterp

/-- **Structuring.**  For every class table and type in the common support, every shared configuration (strategy,
validation mode; `forbid_extra_keys` is a `Converter`-only option and off) and **every input object** `o` — valid,
mutated or junk, `str` / `bytes` at iterating positions included (they are iterated) — whose class positions hold
mappings (`mapsAtCls`; no condition at all under the tuple strategy,
where both classes run the same interpretive code): the two converters both reject `o`, or both accept it with
equal results. -/
theorem C06_struct_agree (w : World) (cfg : Cfg) (t : Ty) (o : Obj)
    (hs : t.supU false = true) (hws : w.SupU false) (hf : cfg.forbid = false)
    (hm : cfg.tupleStrat = true ∨ mapsAtCls w t o = true) :
    convStructure w { cfg with gen := true } t o = convStructure w { cfg with gen := false } t o := by
  rw [convStructure_eq_stF, convStructure_eq_stF]
  exact struct_agree w ({ cfg with gen := true } : Cfg).core ({ cfg with gen := false } : Cfg).core hws rfl rfl hf hs hm

/-- The same on the fast template directly (nested positions, any pair of configurations that differ in `gen`). -/
theorem C06_struct_agree_fast (w : World) (c1 c2 : Cfg) (t : Ty) (o : Obj)
    (hs : t.supU false = true) (hws : w.SupU false)
    (hg : c2.gen = false) (ht : c2.tupleStrat = c1.tupleStrat) (hf : c1.forbid = false)
    (hm : c1.tupleStrat = true ∨ mapsAtCls w t o = true) :
    stF w c1 t o = stF w c2 t o := struct_agree w c1 c2 hws hg ht hf hs hm

/-- **The hypothesis on the input cannot be dropped** (dict strategy): for a class whose fields all have defaults
the generated hook accepts the empty list (`'a' in []` is `False`, so every default is taken), the interpretive
`structure_attrs_fromdict` raises on `[]['a']`… — replayed on the implementation by the check on every run. -/
def c06W1 : World :=
  { classes := [{ kind := .attrs, frozen := false, fields :=
      [ { name := "a", alias := "a", ty := some .int, dflt := .const (.int 3), init := true, required := true } ] }],
    enums := [] }
def c06Dict : Cfg := { gen := true, tupleStrat := false, detailed := false, forbid := false }

theorem C06_nonmapping_witness :
    convStructure c06W1 { c06Dict with gen := true } (.cls 0) (.coll .list []) = some (.inst 0 [("a", .int 3)]) ∧
    convStructure c06W1 { c06Dict with gen := false } (.cls 0) (.coll .list []) = Option.none ∧
    mapsAtCls c06W1 (.cls 0) (.coll .list []) = false := by
  refine ⟨?_, ?_, ?_⟩
  · simp [convStructure, c06Dict, Cfg.core, stF, nonMappingClsGen, c06W1, World.fields, initFields, defaultsOf,
      Dflt.value?, pyContains, Obj.memPy]
  · simp [convStructure, c06Dict, Cfg.core, stF, nonMappingClsInterp, c06W1, World.fields, initFields]
  · simp [mapsAtCls]

/-- **Unstructuring** (partial: see below).  For a well-typed value `x` of a type in the common support whose set
elements and dict keys are scalars (`scalarKeys`; otherwise `Converter` raises, recorded finding F10), under the
tuple strategy or when no class has an `init=False` field: the two converters produce the same unstructured data
up to `Converter` turning tuples and deques into lists (`normSeq`).

Full statement (NOT a theorem — `C06_initfalse_witness` refutes it; recorded finding F43):
  `t.supU false → w.SupU false → wellTyped w t x → (scalarKeys x) →
     normSeq (convUnstructure w {cfg with gen := false} t x) = normSeq (convUnstructure w {cfg with gen := true} t x)`
What is missing in the proved version is exactly the region of F43: dict strategy and a class with an
`init=False` field (`BaseConverter` emits it, `Converter` leaves it out). -/
theorem C06_unstruct_agree_partial (w : World) (cfg : Cfg) (t : Ty) (x : Obj)
    (hs : t.supU false = true) (hws : w.SupU false)
    (hI : cfg.tupleStrat = true ∨ (AllInit w))
    (hwt : wellTyped w t x = true) (hsk : (scalarKeys x) = true) :
    normSeq (convUnstructure w { cfg with gen := false } t x) = normSeq (convUnstructure w { cfg with gen := true } t x) :=
  ((un_agree_aux w ({ cfg with gen := false } : Cfg).core ({ cfg with gen := true } : Cfg).core hws rfl rfl rfl hI
      (sizeOf x)).2 (sizeOf t) t x (Nat.le_refl _) (Nat.le_refl _) hs hwt hsk).2

/-- The same with type-level hypotheses only: no `Any` position and no untyped field, set-element and mapping-key
types hashable primitives (`keysHP` / `KeysHP`, i.e. `Ty.hashPrim` as in the C01 round trip) — then every
well-typed value has scalar set elements and dict keys (`scalarKeys_of_typed`). -/
theorem C06_unstruct_agree_typed_partial (w : World) (cfg : Cfg) (t : Ty) (x : Obj)
    (hs : t.supU false = true) (hws : w.SupU false) (hp : (keysHP t) = true) (hk : (KeysHP w))
    (hI : cfg.tupleStrat = true ∨ (AllInit w))
    (hwt : wellTyped w t x = true) :
    normSeq (convUnstructure w { cfg with gen := false } t x) = normSeq (convUnstructure w { cfg with gen := true } t x) :=
  C06_unstruct_agree_partial w cfg t x hs hws hI hwt (scalarKeys_of_typed w hws hk hp hs hwt)

/-- The heart of it: `BaseConverter`'s encoding by RUN-TIME class (what it does inside every collection, mapping
and Optional) coincides, up to `normSeq`, with `Converter`'s encoding by DECLARED type. -/
theorem C06_runtime_vs_declared (w : World) (cB cG : Cfg) (t : Ty) (x : Obj)
    (hB : cB.gen = false) (hG : cG.gen = true) (hT : cB.tupleStrat = cG.tupleStrat)
    (hs : t.supU false = true) (hws : w.SupU false)
    (hI : cG.tupleStrat = true ∨ (AllInit w))
    (hwt : wellTyped w t x = true) (hsk : (scalarKeys x) = true) :
    normSeq (unAny w cB x) = normSeq (un w cG t x) :=
  ((un_agree_aux w cB cG hws hB hG hT hI (sizeOf x)).2 (sizeOf t) t x (Nat.le_refl _) (Nat.le_refl _) hs hwt hsk).1

/-- **F43**: `class A: a: int; b: int = field(default=5, init=False)`, dict strategy:
`BaseConverter().unstructure(A(1)) == {'a': 1, 'b': 5}`, `Converter().unstructure(A(1)) == {'a': 1}`. -/
def c06W2 : World :=
  { classes := [{ kind := .attrs, frozen := false, fields :=
      [ { name := "a", alias := "a", ty := some .int, dflt := .none, init := true, required := true },
        { name := "b", alias := "b", ty := some .int, dflt := .const (.int 5), init := false, required := true } ] }],
    enums := [] }
def c06A1 : Obj := .inst 0 [("a", .int 1), ("b", .int 5)]

theorem C06_initfalse_witness :
    normSeq (convUnstructure c06W2 { c06Dict with gen := false } (.cls 0) c06A1)
        = .dict [(.str "a", .int 1), (.str "b", .int 5)] ∧
    normSeq (convUnstructure c06W2 { c06Dict with gen := true } (.cls 0) c06A1) = .dict [(.str "a", .int 1)] ∧
    wellTyped c06W2 (.cls 0) c06A1 = true ∧ (scalarKeys c06A1) = true := by
  refine ⟨?_, ?_, ?_, ?_⟩
  · simp [convUnstructure, c06Dict, Cfg.core, c06A1, un, unFields, emits, c06W2, World.fields, Field.key, normSeq, normSeqKV]
  · simp [convUnstructure, c06Dict, Cfg.core, c06A1, un, unFields, emits, c06W2, World.fields, Field.key, normSeq, normSeqKV]
  · simp [c06A1, c06W2, wellTyped, wellTypedF, World.fields, World.isNT]
  · simp [c06A1, scalarKeys, scalarKeysF]

/-! Non-vacuity: a recursive class with a homogeneous-tuple field and an `Any` field; a value on which the two
engines really differ before normalisation, and a nested payload satisfying `mapsAtCls`. -/
section Examples
def c06W3 : World :=
  { classes := [{ kind := .attrs, frozen := false, fields :=
      [ { name := "a", alias := "a", ty := some .int, dflt := .none, init := true, required := true },
        { name := "b", alias := "b", ty := some (.coll .tupleHomo .int), dflt := .none, init := true, required := true },
        { name := "c", alias := "c", ty := some .any, dflt := .none, init := true, required := true },
        { name := "d", alias := "d", ty := some (.opt (.cls 0)), dflt := .const .none, init := true, required := true } ] }],
    enums := [] }
def c06X3 : Obj :=
  .inst 0 [("a", .int 1), ("b", .coll .tuple [.int 1, .int 2]), ("c", .coll .deque [.coll .tuple [.int 3]]), ("d", .none)]

example : (Ty.coll .list (.cls 0)).supU false = true := by simp [Ty.supU]
example : c06W3.SupU false := World.supUB_sound _ _ (by decide)
example : (AllInit c06W3) := allInitB_sound _ (by decide)
example : (scalarKeys c06X3) = true := by decide
example : wellTyped c06W3 (.coll .list (.cls 0)) (.coll .list [c06X3]) = true := by
  simp [c06X3, c06W3, wellTyped, wellTypedL, wellTypedF, wellTypedAny, wellTypedAnyL, World.fields, SK.structTo, World.isNT]
example : convUnstructure c06W3 { c06Dict with gen := false } (.cls 0) c06X3 =
    .dict [(.str "a", .int 1), (.str "b", .coll .tuple [.int 1, .int 2]),
           (.str "c", .coll .deque [.coll .tuple [.int 3]]), (.str "d", .none)] := by
  simp [convUnstructure, c06Dict, Cfg.core, c06X3, c06W3, un, unAny, unAnyL, unFields, emits, World.fields, Field.key,
    mkColl, CK.isSet]
example : convUnstructure c06W3 { c06Dict with gen := true } (.cls 0) c06X3 =
    .dict [(.str "a", .int 1), (.str "b", .coll .list [.int 1, .int 2]),
           (.str "c", .coll .list [.coll .list [.int 3]]), (.str "d", .none)] := by
  simp [convUnstructure, c06Dict, Cfg.core, c06X3, c06W3, un, unL, unAny, unAnyL, unFields, emits, World.fields, Field.key,
    mkColl, CK.isSet, CK.anyTo, SK.unstructTo]
example : keysHP (Ty.map .dict (.opt (.enum 0)) (.coll .fset .str)) = true := by simp [keysHP, Ty.hashPrim, SK.structTo, CK.isSet]
example : (KeysHP c06W1) := by
  intro c f hf
  match c with
  | 0 => simp [c06W1, World.fields] at hf; subst hf; exact ⟨.int, rfl, rfl⟩
  | n + 1 => simp [c06W1, World.fields] at hf
/-- a payload with a nested class position holding a mapping, and a junk leaf -/
def c06P3 : Obj :=
  .dict [(.str "a", .str "x"), (.str "b", .coll .list []), (.str "c", .none),
         (.str "d", .dict [(.str "a", .int 1)])]
example : mapsAtCls c06W3 (.cls 0) c06P3 = true := by
  simp [c06P3, c06W3, mapsAtCls, mapsAtClsF, mapsAtClsL, World.fields, Field.key, dlookup, Obj.pyEq, Obj.num2?, iterItems]
example : mapsAtCls c06W3 (.cls 0) (.dict [(.str "d", .coll .list [])]) = false := by
  simp [c06W3, mapsAtCls, mapsAtClsF, World.fields, Field.key, dlookup, Obj.pyEq, Obj.num2?]
/-- a `str` payload at a collection position is iterated (both engines run the same collection hooks): its characters
are no mappings, so the hypothesis holds for `list[int]` and fails for `list[K]` -/
example : mapsAtCls c06W3 (.coll .list .int) (.str "12") = true := by
  simp [mapsAtCls, iterItems, mapsAtClsLf, leafItems, mapsAtClsLfL]
example : mapsAtCls c06W3 (.coll .list (.cls 0)) (.str "12") = false := by
  simp [mapsAtCls, iterItems, mapsAtClsLf, leafItems, mapsAtClsLfL]
end Examples

end CattrsModel
