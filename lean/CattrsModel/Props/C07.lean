import CattrsModel.Dispatch.LemmasHist
import CattrsModel.Dispatch.StoreHist
import CattrsModel.Dispatch.Sig
/-!
# C07 — hook precedence follows the documented rule after any registration history

Model: `CattrsModel/Dispatch/Model.lean`.  `run F (init cfg) h` is a converter constructed as `cfg` (one of its two
hook tables) after the operations `h` — registrations through every public path (`Op.regHook`: class / subclass /
NewType / union, routed as `register_*_hook` routes them; `Op.regPred`: predicate hooks, hook factories, factories
taking the converter) *interleaved with any dispatches and calls*.  `spec F cfg h t` is the documented rule, written
over the history itself (it looks at registrations only):

1. the most specific class of `t`'s MRO that has a registration — its latest hook (the constructor's own class
   registrations are the oldest);
2. else the most recently registered predicate hook / hook factory / exact-type (NewType; union when
   unstructuring) registration that accepts `t`;
3. else the converter's built-in behaviour for `t` (the constructor's predicate list; the hooks given to
   `register_structure_hook(Union[..], f)` sit here, behind the built-in union-registry predicate — as in the code);
4. else the fallback factory applied to `t`.

Factories are handed `t` itself, and the converter iff registered as extended (`Hook.made f t withConv subs`), and
the hooks they capture for component types are the ones the same rule selects.

All theorems are ∀ facts (MROs, predicate truth tables, component structure), ∀ constructions, ∀ histories, ∀ types.
-/
namespace CattrsModel
open Dispatch

/-- **C07_precedence.**  After any history, the cache-free lookup of the registration state the real
registration paths have built selects exactly the hook the documented rule names. -/
theorem C07_precedence (F : Facts) (cfg : Cfg) (h : List Op) (t : TyKey) :
    resolve F (run F (init cfg) h).regs t = spec F cfg h t := by
  rw [(run_init F cfg h).2]; exact resolve_spec F cfg h t

/-- **C07_precedence_cached.**  The same through the real machine: what `dispatch` (with the `lru_cache`, the
direct table and whatever earlier dispatches and calls of the history left in them) and
`dispatch_without_caching` return is the hook the rule names. -/
theorem C07_precedence_cached (F : Facts) (cfg : Cfg) (h : List Op) (t : TyKey) :
    (dispatch F (run F (init cfg) h) t).2 = spec F cfg h t ∧
      (dispatchUncached F (run F (init cfg) h) t).2 = spec F cfg h t := by
  have g := run_init F cfg h
  constructor
  · rw [(dispatch_good F _ t g.1).val, g.2]; exact resolve_spec F cfg h t
  · rw [(dispatchUncached_good F _ t g.1).val, g.2]; exact resolve_spec F cfg h t

/-- **C07_factory_args.**  When the rule reaches a hook factory for `t` (no class of the MRO has a registration,
`e` is the first accepting entry, newest user registration first, then the built-in ones), the hook returned for
`t` is that factory applied to `t` itself — and to the converter iff it was registered as an extended factory —
having captured, for the component types, the hooks the rule selects for them. -/
theorem C07_factory_args (F : Facts) (cfg : Cfg) (h : List Op) (t : TyKey) (e : Entry)
    (hcls : (F.mro t).findSome? (classHook F cfg h) = none)
    (hent : (userEntries F cfg h ++ cfg.preds).find? (fun e => specAccepts F cfg h e t) = some e) :
    (e.kind = .factory → (dispatch F (run F (init cfg) h) t).2 =
        .made e.tag t false (if e.wantsSubs then (F.sub t).map (spec F cfg h) else [])) ∧
    (e.kind = .extended → (dispatch F (run F (init cfg) h) t).2 =
        .made e.tag t true (if e.wantsSubs then (F.sub t).map (spec F cfg h) else [])) := by
  have hs : spec F cfg h t = specEntryHook F cfg h e t ((F.sub t).map (spec F cfg h)) := by
    rw [spec_unfold]
    unfold specChoose
    rw [hcls]
    simp only
    rw [List.find?_append] at hent
    cases hu : (userEntries F cfg h).find? (fun e => specAccepts F cfg h e t) with
    | some e' => rw [hu] at hent; simp at hent; rw [hent]
    | none =>
      rw [hu] at hent
      simp only [Option.none_or] at hent
      rw [hent]
  rw [(C07_precedence_cached F cfg h t).1, hs]
  constructor <;> intro hk <;> simp [specEntryHook, hk]

/-- **C07_factory_kind.**  "Factories receive T (and the converter when they ask for it)" at the level of the
factory's signature (`Dispatch/Sig.lean`): for every signature whose second parameter — if there is one — is an
ordinary positional parameter or a defaulted keyword-only one, `_is_extended_factory` (the code, `Sig.kindOf`) files
the factory as converter-taking exactly when it exposes an additional required parameter (the documented rule,
`Sig.asksConverter`) — whatever else follows: further optional parameters, `*args`, `**kwargs`, keyword-only
parameters; and on EVERY signature a factory that asks is filed as extended, and the call cattrs then makes binds
whenever the documented call binds, unless the second parameter is `**kwargs`. -/
theorem C07_factory_kind (s : Sig.Sig) :
    (Sig.regular s = true → Sig.kindOf s = (if Sig.asksConverter s then Kind.extended else Kind.factory)) ∧
    (Sig.asksConverter s = true → Sig.kindOf s = Kind.extended) ∧
    (Sig.acceptsPos s (Sig.docArity s) = true → (∀ p q rest, s = p :: q :: rest → q.kind ≠ .varKw) →
      Sig.acceptsPos s (Sig.implArity s) = true) := by
  refine ⟨fun h => ?_, fun h => ?_, Sig.impl_call_binds s⟩
  · unfold Sig.kindOf; rw [Sig.isExtended_eq_asks s h]
  · unfold Sig.kindOf; rw [Sig.asks_imp_extended s h]; rfl

/-- **C07_factory_receives.**  The two halves joined: when the rule reaches, for `t`, a hook factory that was
registered from a (regular) signature `s`, the hook returned for `t` is that factory applied to `t` — and to the
converter iff the signature asks for it. -/
theorem C07_factory_receives (F : Facts) (cfg : Cfg) (h : List Op) (t : TyKey) (e : Entry) (s : Sig.Sig)
    (hreg : Sig.regular s = true) (hk : e.kind = Sig.kindOf s)
    (hcls : (F.mro t).findSome? (classHook F cfg h) = none)
    (hent : (userEntries F cfg h ++ cfg.preds).find? (fun e => specAccepts F cfg h e t) = some e) :
    (dispatch F (run F (init cfg) h) t).2 =
      .made e.tag t (Sig.asksConverter s) (if e.wantsSubs then (F.sub t).map (spec F cfg h) else []) := by
  have ha := C07_factory_args F cfg h t e hcls hent
  rw [(C07_factory_kind s).1 hreg] at hk
  cases hq : Sig.asksConverter s with
  | true => rw [hq] at hk; exact ha.2 hk
  | false => rw [hq] at hk; exact ha.1 hk

/-- **C07_factory_kind_F61_witness** (negative, recorded finding F61).  Outside `Sig.regular` code and documentation
part: `def fac(typ, **opts)` does not ask for the converter, is filed as extended, and the call `fac(T, converter)`
does not bind although `fac(T)` would; `def fac(typ, *rest)` is handed a converter it did not ask for. -/
theorem C07_factory_kind_F61_witness :
    (let s : Sig.Sig := [⟨.posOrKw, false⟩, ⟨.varKw, false⟩]
     Sig.asksConverter s = false ∧ Sig.kindOf s = Kind.extended ∧
       Sig.acceptsPos s (Sig.docArity s) = true ∧ Sig.acceptsPos s (Sig.implArity s) = false) ∧
    (let s : Sig.Sig := [⟨.posOrKw, false⟩, ⟨.varPos, false⟩]
     Sig.asksConverter s = false ∧ Sig.kindOf s = Kind.extended ∧ Sig.acceptsPos s (Sig.implArity s) = true) := by
  decide

/-- **C07_nested.**  The hook used for a type nested inside another one is chosen by the same rule: the hook for
`t` is the rule's choice at `t`, applied to the hooks *the machine dispatches* for the component types of `t`
(`list[T]`, `Optional[T]`, `dict[K, T]`, fields of a class, the base of a NewType, the members of a union) — and
those are the rule's choices for the components. -/
theorem C07_nested (F : Facts) (hF : F.WF) (cfg : Cfg) (h : List Op) (t : TyKey) :
    (dispatch F (run F (init cfg) h) t).2 =
        specChoose F cfg h t ((F.comps t).map (fun c => (dispatch F (run F (init cfg) h) c).2)) ∧
      ∀ c ∈ F.comps t, (dispatch F (run F (init cfg) h) c).2 = spec F cfg h c := by
  constructor
  · rw [(C07_precedence_cached F cfg h t).1, spec_unfold, sub_eq_comps F hF]
    congr 1
    exact List.map_congr_left (fun c _ => (C07_precedence_cached F cfg h c).1.symm)
  · intro c _; exact (C07_precedence_cached F cfg h c).1

/-- **C07_nested_call.**  `structure` / `unstructure` on `t`: the observable call tree is the one in which the
top-level dispatch and every call-time dispatch of a late-binding built-in hook (BaseConverter's
`_unstructure_seq`, `structure_attrs_fromdict`, `_structure_optional`, …) follow the rule. -/
theorem C07_nested_call (F : Facts) (cfg : Cfg) (h : List Op) (t : TyKey) :
    (call F (run F (init cfg) h) t).2 = specCall F cfg h t := by
  have g := run_init F cfg h
  rw [(call_good F _ t g.1).2.2, g.2]
  exact specCall_eq F cfg h t

/-- unfolding `specCall` at a late-binding built-in hook: its children are the calls of the hooks the rule selects
for the component types -/
theorem C07_nested_call_late (F : Facts) (cfg : Cfg) (h : List Op) (t : TyKey) (b : Nat)
    (hb : spec F cfg h t = .builtin b) (hl : F.late b = true) :
    (call F (run F (init cfg) h) t).2 = .made b t false ((F.sub t).map (specCall F cfg h)) := by
  rw [C07_nested_call]
  unfold specCall
  rw [behaveWith_unfold, hb]
  simp [behaveCore, hl]

/-- **C07_precedence_store.**  The rule for a converter ANYWHERE in a program — in particular one obtained through
`copy()` / `deepcopy` / `copy(**overrides)`, a copy of a copy, with registrations made on it, on its source and on
other converters before and after the copy was taken.  Start from any freshly constructed converters and run any
store history (`SOp.on i op`: registration / dispatch / call on converter `i`; `SOp.copy src cfg'`).  `origins`
(Dispatch/StoreHist.lean) reads off the store history alone, for every converter, how it was constructed (`o.cfg`: for
a copy what `__init__` registers under the copy's options, with the source's fallback factory) and ITS history
(`o.hist`: for a copy the registrations its source had received when the copy was taken, followed by the operations
addressed to the copy itself — nothing done to the source or to any other converter afterwards).  Then every converter
of the final store answers — cache-free lookup, cached and uncached dispatch, and calls (nested lookups included) —
exactly what the documented rule selects for its own construction and its own history. -/
theorem C07_precedence_store (F : Facts) (st : Bool) (sg : List (TyKey × Hook)) (cfgs : List Cfg)
    (hcfgs : ∀ c ∈ cfgs, c.fits st sg) (sops : List SOp) (hsops : ∀ op ∈ sops, op.fits st sg) :
    (srun F (cfgs.map init) sops).length = (origins cfgs sops).length ∧
    ∀ (i : Nat) (s : St) (o : Origin),
      (srun F (cfgs.map init) sops)[i]? = some s → (origins cfgs sops)[i]? = some o → ∀ t : TyKey,
        resolve F s.regs t = spec F o.cfg o.hist t ∧
        (dispatch F s t).2 = spec F o.cfg o.hist t ∧
        (dispatchUncached F s t).2 = spec F o.cfg o.hist t ∧
        (call F s t).2 = specCall F o.cfg o.hist t := by
  have tr := srun_tracked F st sg sops _ _ (tracked_fresh F st sg cfgs hcfgs) hsops
  refine ⟨tr.1, fun i s o hs ho t => ?_⟩
  have k := tr.2 i s o hs ho
  have hr : ∀ t, resolve F s.regs t = resolve F (regsAfter F o.cfg o.hist) t := resolve_congr F k.equiv
  have hres : resolve F s.regs t = spec F o.cfg o.hist t := by rw [hr, resolve_spec]
  refine ⟨hres, ?_, ?_, ?_⟩
  · rw [(dispatch_good F s t k.ok).val, hres]
  · rw [(dispatchUncached_good F s t k.ok).val, hres]
  · rw [(call_good F s t k.ok).2.2, hr, behave_congr F hr]
    exact specCall_eq F o.cfg o.hist t

/-- **C07_copy_history.**  What `origins` says about the converter a `copy` appends, spelled out: it sits at the next
index, is constructed as `cfg'` with the source's fallback factory, and starts with the registrations of the source's
history; an operation addressed to converter `i` is appended to the history of `i` and of no other converter. -/
theorem C07_copy_history (os : List Origin) (src : Nat) (cfg' : Cfg) (o : Origin) (ho : os[src]? = some o) (i : Nat) (op : Op) :
    (ostep os (.copy src cfg'))[os.length]? =
        some { cfg := { cfg' with fb := o.cfg.fb }, hist := o.hist.filter Op.isReg } ∧
    (∀ j, j < os.length → (ostep os (.copy src cfg'))[j]? = os[j]?) ∧
    (ostep os (.on i op))[i]? = os[i]?.map (fun o => { o with hist := o.hist ++ [op] }) ∧
    (∀ j, j ≠ i → (ostep os (.on i op))[j]? = os[j]?) := by
  refine ⟨?_, fun j hj => ?_, ?_, fun j hj => ?_⟩
  · simp [ostep, ho, Origin.copied]
  · simp only [ostep, ho]; exact List.getElem?_append_left hj
  · simp [ostep, Origin.snoc]
  · simp only [ostep, List.getElem?_modify, if_neg (Ne.symm hj)]
    cases os[j]? <;> rfl

/-! ## non-vacuity: a concrete universe, construction and history -/
namespace C07ex

/-- 0 = class A, 1 = class B(A), 2 = int, 3 = NewType NA of A, 4 = list[B], 5 = Union[A, int], 6 = class P -/
def F : Facts :=
  { mro := fun t => match t with | 0 => [0] | 1 => [1, 0] | 2 => [2] | 6 => [6] | _ => []
    holds := fun p t => match p with
      | 1 => t == 0 || t == 1 || t == 4 || t == 5
      | 2 => t == 6
      | _ => false
    isUnion := fun t => t == 5
    isNewtype := fun t => t == 3
    late := fun n => n == 300
    comps := fun t => match t with | 3 => [0] | 4 => [1] | 5 => [0] | _ => []
    rank := fun t => match t with | 3 => 1 | 4 => 1 | 5 => 1 | _ => 0 }

theorem F_wf : F.WF := by
  intro t c hc
  unfold F at hc ⊢
  match t with
  | 3 => simp at hc; subst hc; decide
  | 4 => simp at hc; subst hc; decide
  | 5 => simp at hc; subst hc; decide
  | 0 | 1 | 2 => simp at hc
  | n+6 => simp at hc

/-- a structure table: `int` by class, attrs classes by a generating factory, NewTypes and lists by factories that
look up the component hooks, the union registry entry -/
def cfg : Cfg :=
  { isStruct := true, fb := 0
    single := [(2, .builtin 100)]
    preds := [ { pred := .tbl 0, kind := .unionreg, tag := 0, builtin := true },
               { pred := .exact 0, kind := .factory, tag := 200, builtin := true, sub := .uncached },
               { pred := .exact 1, kind := .factory, tag := 201, builtin := true, sub := .uncached },
               { pred := .exact 3, kind := .factory, tag := 203, builtin := true, sub := .cached },
               { pred := .exact 4, kind := .extended, tag := 204, builtin := true, sub := .cached, direct := true } ] }

/-- warm-ups interleaved with: a class hook for A, a predicate hook (accepts A, B, list[B], the union), a NewType
hook, an extended factory on the same predicate, a union hook, a plain factory for P -/
def hist : List Op :=
  [ .call 4, .regHook 0 1, .dispatch 1, .regPred { pred := .tbl 1, kind := .plain, tag := 2 }, .call 4,
    .regHook 3 3, .regPred { pred := .tbl 1, kind := .extended, tag := 4, sub := .cached }, .dispatchNC 4,
    .regHook 5 5, .regPred { pred := .tbl 2, kind := .factory, tag := 6 } ]

-- B: the class hook registered for its base A beats both newer predicate registrations
example : spec F cfg hist 1 = .user 1 := by decide
example : (dispatch F (run F (init cfg) hist) 1).2 = .user 1 := (C07_precedence_cached F cfg hist 1).1
-- list[B]: the newest accepting registration is the extended factory; it gets list[B], the converter, and B's hook
example : spec F cfg hist 4 = .made 4 4 true [.user 1] := by decide
-- NA: exact-type registration (NewType) — not reached by the predicate, not by A's class hook
example : spec F cfg hist 3 = .user 3 := by decide
-- the union: the extended factory (a user predicate) outranks the union-registry hook 5, which is a built-in entry
example : spec F cfg hist 5 = .made 4 5 true [.user 1] := by decide
-- int: built-in class registration;  P: plain factory, handed P and no converter;  7: nothing → fallback factory
example : spec F cfg hist 2 = .builtin 100 := by decide
example : spec F cfg hist 6 = .made 6 6 false [] := by decide
example : spec F cfg hist 7 = .fallback 0 7 := by decide
-- without the predicate registrations the union hook is found through the built-in union-registry entry
example : spec F cfg [.regHook 5 5] 5 = .user 5 := by decide
-- hypotheses of C07_factory_args are satisfiable (list[B], entry = the extended factory)
example : (F.mro 4).findSome? (classHook F cfg hist) = none ∧
    ((userEntries F cfg hist ++ cfg.preds).find? (fun e => specAccepts F cfg hist e 4)).map (·.tag) = some 4 := by
  decide

-- signatures: `def f(typ, upper=False, **opts)` is a plain factory, `def f(typ, converter, flag=False, **kw)` an
-- extended one; both regular, both calls bind
example : Sig.regular [⟨.posOrKw, false⟩, ⟨.posOrKw, true⟩, ⟨.varKw, false⟩] = true ∧
    Sig.kindOf [⟨.posOrKw, false⟩, ⟨.posOrKw, true⟩, ⟨.varKw, false⟩] = Kind.factory ∧
    Sig.kindOf [⟨.posOrKw, false⟩, ⟨.posOrKw, false⟩, ⟨.posOrKw, true⟩, ⟨.varKw, false⟩] = Kind.extended ∧
    Sig.acceptsPos [⟨.posOrKw, false⟩, ⟨.posOrKw, true⟩, ⟨.varKw, false⟩] 1 = true ∧
    Sig.acceptsPos [⟨.posOrKw, false⟩, ⟨.posOrKw, false⟩, ⟨.posOrKw, true⟩, ⟨.varKw, false⟩] 2 = true := by decide
-- hypotheses of C07_factory_receives are satisfiable: list[B], the extended factory registered from `(t, c)`
example : (dispatch F (run F (init cfg) hist) 4).2 = .made 4 4 true [.user 1] :=
  (C07_factory_receives F cfg hist 4 { pred := .tbl 1, kind := .extended, tag := 4, sub := .cached }
    [⟨.posOrKw, false⟩, ⟨.posOrKw, false⟩] (by decide) (by decide) (by decide) rfl).trans (by decide)

/-! store histories: a copy taken in the middle of a history, registrations on both sides afterwards -/

/-- an Annotated-like spelling of A (key 7): a built-in factory that looks the hook of A up through the converter -/
def Fs : Facts :=
  { F with comps := fun t => if t = 7 then [0] else F.comps t, rank := fun t => if t = 7 then 1 else F.rank t }

def cfgS : Cfg :=
  { cfg with preds := cfg.preds ++ [{ pred := .exact 7, kind := .factory, tag := 207, builtin := true, sub := .cached }] }

def shist : List SOp :=
  [ .on 0 (.regHook 0 1), .on 0 (.call 7), .copy 0 cfgS, .on 1 (.regHook 0 2), .on 0 (.regPred { pred := .tbl 2, kind := .plain, tag := 3 }),
    .copy 1 cfgS, .on 2 (.regHook 3 4), .on 0 (.regHook 0 5) ]

example : cfgS.fits true cfgS.single := ⟨by decide, rfl, rfl⟩
example : ∀ op ∈ shist, op.fits true cfgS.single := by
  intro op hop
  simp only [shist, List.mem_cons, List.not_mem_nil, or_false] at hop
  rcases hop with rfl | rfl | rfl | rfl | rfl | rfl | rfl | rfl <;>
    first | trivial | exact ⟨by decide, rfl, rfl⟩
-- the histories of the three converters: the copy (1) has the source's first registration and its own, not the
-- source's later ones; the copy of the copy (2) has those of (1) at ITS copy time and its own
example : (origins [cfgS] shist).map (fun o => o.hist.filter Op.isReg) =
    [ [.regHook 0 1, .regPred { pred := .tbl 2, kind := .plain, tag := 3 }, .regHook 0 5],
      [.regHook 0 1, .regHook 0 2], [.regHook 0 1, .regHook 0 2, .regHook 3 4] ] := rfl
-- A spelled plainly (0) and through the Annotated-like factory (7), on the three converters: each sees the latest
-- class hook of ITS history — also nested; P (6) has the predicate hook only on the source
example : (srun Fs [init cfgS] shist).map (fun s => ((dispatch Fs s 0).2, (dispatch Fs s 7).2, (dispatch Fs s 6).2)) =
    [ (.user 5, .made 207 7 false [.user 5], .user 3), (.user 2, .made 207 7 false [.user 2], .fallback 0 6),
      (.user 2, .made 207 7 false [.user 2], .fallback 0 6) ] := by decide
example : (dispatch Fs ((srun Fs [init cfgS] shist)[1]!) 7).2 = spec Fs cfgS [.regHook 0 1, .regHook 0 2] 7 := by decide

/-- a BaseConverter-like unstructure table: lists handled by a late-binding hook (300) -/
def cfgLate : Cfg :=
  { isStruct := false, fb := 0, single := []
    preds := [ { pred := .exact 4, kind := .plain, tag := 300, builtin := true } ] }

example : spec F cfgLate [.regHook 0 9] 4 = .builtin 300 := by decide
-- the call-time dispatch of the element type B finds the hook registered for its base class A
example : (call F (run F (init cfgLate) [.call 4, .regHook 0 9]) 4).2 = .made 300 4 false [.user 9] :=
  (C07_nested_call_late F cfgLate _ 4 300 (by decide) (by decide)).trans (by decide)

end C07ex
end CattrsModel
