import CattrsModel.Lemmas.Encoding
/-!
# C03 — unstructured output is primitive-only and equals the documented encoding

Property theorems only.  Vocabulary (`Conv/Encoding.lean`):
* `Obj.prim dq o`      `o` is built only from dict/list/tuple/set/frozenset and None/bool/int/float/str/bytes
                       (objects of unknown classes are allowed: the property says they are returned unchanged;
                       `dq` = deques tolerated, true exactly for `BaseConverter`, which keeps the container class
                       it finds — its documented behaviour for sequences);
* `wellTyped w T x`    `x` is a value of `T` at every depth (exact classes; instances, also those met at `Any` /
                       untyped positions, hold values of their fields' types; TypedDict payloads have declared keys
                       only);
* `T.supU gen`, `w.SupU gen`   the documented type support of the converter class (`gen = true`: `Converter`); a
                       `BaseConverter` has no NamedTuple hook and leaves the instance as it is: NamedTuple classes are in
                       its support only with fields of primitive types (`World.SupU.ntPrim`);
* `w.tdAcyclicB`       no TypedDict lies on a reference cycle of the class table.  The hypothesis is not used by the
                       proofs: it marks the region in which the model is validated against the code — for a
                       self-referential TypedDict cattrs unstructures the nested levels by run-time class (recorded
                       finding F39), which the model does not describe.  Recursive attrs classes and dataclasses are
                       in scope;
* `EncAs w cfg T x y`  the documented encoding table, one inductive rule per clause of the statement
                       (classes → dict by field name / tuple in field order, enums → values, sequences → lists,
                       heterogeneous and named tuples → tuples (`EncAs.ntG`: item-wise by the declared field types;
                       the pass-through "a named tuple that needs no conversion may pass through as the tuple it is"
                       is not observable here -- the instance IS that tuple), sets → sets, mappings → dicts with encoded
                       keys and values,
                       Optional/NewType/Annotated/Final/alias → underlying, `Any`/untyped → by run-time class `EncRt`,
                       unknown classes unchanged).

All theorems hold for every class table, every type, every value, both converter classes, both strategies
(validation mode is irrelevant to unstructuring and erased by `Cfg.core`).
-/
namespace CattrsModel

/-- **Primitive-only.**  No attrs/dataclass instance and no enum member survives at any depth. -/
theorem C03_primitive (w : World) (cfg : Cfg) (t : Ty) (x : Obj) (_hacyc : w.tdAcyclicB = true)
    (hws : w.SupU cfg.gen) (hs : t.supU cfg.gen = true) (hx : wellTyped w t x = true) :
    (convUnstructure w cfg t x).prim (!cfg.gen) = true := by
  unfold convUnstructure
  exact un_prim w cfg.core (by simpa [Cfg.core] using hws) (by simpa [Cfg.core] using hs) hx

/-- the same for `Converter`, spelled out: no deque either -/
theorem C03_primitive_converter (w : World) (cfg : Cfg) (t : Ty) (x : Obj) (hacyc : w.tdAcyclicB = true) (hg : cfg.gen = true)
    (hws : w.SupU true) (hs : t.supU true = true) (hx : wellTyped w t x = true) :
    (convUnstructure w cfg t x).prim false = true := by
  have := C03_primitive w cfg t x hacyc (by rw [hg]; exact hws) (by rw [hg]; exact hs) hx
  simpa [hg] using this

/-- **Equals the documented encoding**: the output is related to the input by the documentation table … -/
theorem C03_encoding (w : World) (cfg : Cfg) (t : Ty) (x : Obj) (_hacyc : w.tdAcyclicB = true)
    (hws : w.SupU cfg.gen) (hs : t.supU cfg.gen = true) (hx : wellTyped w t x = true) :
    EncAs w cfg.core t x (convUnstructure w cfg t x) := by
  unfold convUnstructure
  exact un_enc w cfg.core (by simpa [Cfg.core] using hws) (by simpa [Cfg.core] using hs) hx

/-- … and the table determines the output: anything the documentation allows is what `unstructure` returns. -/
theorem C03_encoding_unique (w : World) (cfg : Cfg) (t : Ty) (x y : Obj)
    (h : EncAs w cfg.core t x y) : y = convUnstructure w cfg t x :=
  encAs_fun w cfg.core h

/-- `Any`-typed, untyped and union positions are encoded by run-time class -/
theorem C03_any_by_runtime_class (w : World) (cfg : Cfg) (x : Obj) :
    convUnstructure w cfg .any x = unAny w cfg.core x := by
  simp [convUnstructure, un]

/-- values of unknown classes are returned unchanged -/
theorem C03_unknown_unchanged (w : World) (cfg : Cfg) (n : Nat) :
    convUnstructure w cfg .any (.opaque n) = .opaque n := by
  simp [convUnstructure, un, unAny]

/-! Non-vacuity: the world of the C01 example (class with a set-of-enum field inside a TypedDict) -/
section Examples
def c03World : World :=
  { classes :=
      [ { kind := .attrs, frozen := false, fields :=
            [ { name := "a", alias := "a", ty := some .int, dflt := .none, init := true, required := true },
              { name := "u", alias := "u", ty := Option.none, dflt := .none, init := true, required := true },
              { name := "t", alias := "t", ty := some (.coll .set (.enum 0)), dflt := .factory (.coll .set []), init := true, required := true } ] },
        { kind := .typeddict, frozen := false, fields :=
            [ { name := "k", alias := "k", ty := some (.coll .tupleHomo (.opt (.cls 0))), dflt := .none, init := true, required := true } ] } ],
    enums := [[.int 1, .str "x"]] }

def c03Value : Obj :=
  .dict [(.str "k", .coll .tuple [.none, .inst 0 [("a", .int 3), ("u", .coll .deque [.enumM 0 0]), ("t", .coll .set [.enumM 0 1, .enumM 0 0])]])]

example : wellTyped c03World (.td 1) c03Value = true := by
  simp [c03Value, c03World, wellTyped, wellTypedTD, wellTypedL, wellTypedF, wellTypedAny, wellTypedAnyL, findField,
    World.fields, World.members, Field.key, Obj.pyEq, Obj.num2?, SK.structTo, World.isNT]
example : (Ty.td 1).supU true = true := by simp [Ty.supU]
example : c03World.tdAcyclicB = true := by decide
example : c03World.SupU true := by
  constructor
  · intro c f hf t ht
    match c with
    | 0 => simp [c03World, World.fields] at hf; rcases hf with rfl | rfl | rfl <;> simp at ht <;> subst ht <;> simp [Ty.supU]
    | 1 => simp [c03World, World.fields] at hf; subst hf; simp at ht; subst ht; simp [Ty.supU]
    | n + 2 => simp [c03World, World.fields] at hf
  · intro e v hv
    match e with
    | 0 => simp [c03World, World.members] at hv; rcases hv with rfl | rfl <;> rfl
    | n + 1 => simp [c03World, World.members] at hv
  · intro hg; cases hg

/-! NamedTuples: `class P(NamedTuple): k: K0; e: E0` inside a list, met by declared type and (second component) at an
`Any` position by run-time class; the `Converter` emits tuples whatever the strategy. -/
def c03WorldN : World :=
  { classes :=
      [ { kind := .attrs, frozen := false, fields :=
            [ { name := "a", alias := "a", ty := some .int, dflt := .none, init := true, required := true } ] },
        { kind := .namedtuple, frozen := true, fields :=
            [ { name := "k", alias := "k", ty := some (.cls 0), dflt := .none, init := true, required := true },
              { name := "e", alias := "e", ty := some (.enum 0), dflt := .none, init := true, required := true } ] } ],
    enums := [[.int 1, .str "x"]] }

def c03ValueN : Obj :=
  .coll .tuple [.coll .list [.inst 1 [("k", .inst 0 [("a", .int 3)]), ("e", .enumM 0 1)]],
                .inst 1 [("k", .inst 0 [("a", .int 4)]), ("e", .enumM 0 0)]]

example : wellTyped c03WorldN (.tupleHet [.coll .list (.nt 1), .any]) c03ValueN = true := by
  simp [c03ValueN, c03WorldN, wellTyped, wellTypedT, wellTypedL, wellTypedF, wellTypedAny, World.fields, World.members,
    World.isNT, World.ntTys, Field.tyA, vals, SK.structTo]
example : c03WorldN.SupU true := World.supUB_sound _ _ (by decide)
example : convUnstructure c03WorldN ⟨true, false, false, false⟩ (.tupleHet [.coll .list (.nt 1), .any]) c03ValueN
    = .coll .tuple [.coll .list [.coll .tuple [.dict [(.str "a", .int 3)], .str "x"]],
                    .coll .tuple [.dict [(.str "a", .int 4)], .int 1]] := by
  simp [convUnstructure, Cfg.core, c03ValueN, c03WorldN, un, unT, unL, unAny, unFields, emits, World.fields, World.ntTys,
    World.isNT, Field.tyA, vals, Field.key, enumValue, World.members, mkColl, SK.unstructTo, CK.isSet]
end Examples

end CattrsModel
