import CattrsModel.Heap.TaggedLemmas
/-!
# C11 — un/structuring never mutates its argument nor aliases its mutable containers

*Partial w.r.t. object identity*: identities of immutable objects (interning, `tuple(t) is t`,
`frozenset(f) is f`) are CPython behaviour and not part of the model (`Cell.mutable`).

Setting: a store `st` (the caller's heap, well-formed: `wfStore`), an argument `v` in it, a
hook invocation `run w hc n call v` for *any* world, configuration (Converter / BaseConverter,
both strategies, both validation modes, `forbid_extra_keys`, TypedDict overrides), type / call,
value and nesting fuel.  Result: `(run … st).1` (`none` = an exception propagated) and the store
afterwards `(run … st).2` — available on the error path too.

NamedTuples (`Ty.nt`, `planNTUn` / `planSt`): structuring builds a new instance; unstructuring by a `Converter`
builds a new tuple unless no item needs conversion (`cols._is_passthrough`: every field hook is `identity`),
in which case -- and always for a `BaseConverter`, which has no NamedTuple hook -- the instance itself is returned:
a logged pass-through ("a named tuple that needs no conversion may pass through as the tuple it is"); the instance
is an immutable tuple, so its identity is not observable (the driver does not report it as an alias).
-/
namespace CattrsModel
open Heap

/-- **Frame.** Every location that existed before the call — in particular every location
reachable from the argument — holds the same content afterwards, whether the call returns or
raises. -/
theorem C11_frame (w : World) (hc : HCfg) (n : Nat) (call : Call) (v : HVal) (st : St)
    (hwf : wfStore st = true) (hv : inB st.cells.length v = true) :
    ∀ l : Nat, l < st.cells.length → (run w hc n call v st).2.cells[l]? = st.cells[l]? :=
  (run_hookOK w hc st.cells.length n st.cells.length call v (inB_argOld hv) st (wfStore_closed hwf)
    (Nat.le_refl _) (Nat.le_refl _) (wfStore_inv hwf)).1.frame

/-- the statement in the property's words: what is reachable from the argument is untouched -/
theorem C11_frame_reachable (w : World) (hc : HCfg) (n : Nat) (call : Call) (v : HVal) (st : St)
    (hwf : wfStore st = true) (hv : inB st.cells.length v = true) (l : Loc) (hl : Reach st.cells v l) :
    (run w hc n call v st).2.cells[l]? = st.cells[l]? :=
  C11_frame w hc n call v st hwf hv l
    (reach_old (fun _ _ => rfl) (wfStore_closed hwf) hl (inB_argOld hv)).2

/-- **Frame, for the whole program family**: any safe program (whatever `plan` would choose),
run with any sub-hooks that are themselves invocations of `run`. -/
theorem C11_frame_program (w : World) (hc : HCfg) (n fuel : Nat) (p : Prog) (st : St)
    (hs : p.safe = true) (hp : p.WF st.cells.length) (hwf : wfStore st = true) :
    ∀ l : Nat, l < st.cells.length → (exec w fuel (run w hc n) p st).2.cells[l]? = st.cells[l]? :=
  (exec_spec (run_hookOK w hc st.cells.length n) w fuel p st.cells.length hs hp st (wfStore_closed hwf)
    (Nat.le_refl _) (Nat.le_refl _) (wfStore_inv hwf)).1.frame

/-- `plan` (the model of hook construction) never leaves the safe family -/
theorem C11_planned_safe (w : World) (hc : HCfg) (n : Nat) (call : Call) (v : HVal) (view : Option Cell)
    (obj : Option Obj) : (plan w hc n call v view obj).safe = true :=
  (plan_planned w hc n call v view obj).1

/-- **Freshness.** A caller's location reachable from the result is reachable (in the caller's
store) from a location that the call *logged* as handed out by reference.  Logging happens in
exactly two places of the model: `Prog.ident` (the documented pass-throughs: `Any`/untyped
positions when structuring; unknown classes, identity hooks and the TypedDict identity short-cut
when unstructuring) and the survivors of a TypedDict `o.copy()` (finding F34, see below). -/
theorem C11_fresh (w : World) (hc : HCfg) (n : Nat) (call : Call) (v : HVal) (st : St)
    (hwf : wfStore st = true) (hv : inB st.cells.length v = true)
    (r : HVal) (hr : (run w hc n call v st).1 = some r) (l : Loc)
    (hreach : Reach (run w hc n call v st).2.cells r l) (hl : l < st.cells.length) :
    ∃ p, p ∈ (run w hc n call v st).2.log ∧ p < st.cells.length ∧ Reach st.cells (.ref p) l := by
  have h := run_hookOK w hc st.cells.length n st.cells.length call v (inB_argOld hv) st (wfStore_closed hwf)
    (Nat.le_refl _) (Nat.le_refl _) (wfStore_inv hwf)
  exact reach_fresh (h.1.inv (wfStore_inv hwf)) h.1.frame (wfStore_closed hwf) hreach (h.2 r hr).2 hl

theorem C11_fresh_program (w : World) (hc : HCfg) (n fuel : Nat) (p : Prog) (st : St)
    (hs : p.safe = true) (hp : p.WF st.cells.length) (hwf : wfStore st = true)
    (r : HVal) (hr : (exec w fuel (run w hc n) p st).1 = some r) (l : Loc)
    (hreach : Reach (exec w fuel (run w hc n) p st).2.cells r l) (hl : l < st.cells.length) :
    ∃ q, q ∈ (exec w fuel (run w hc n) p st).2.log ∧ q < st.cells.length ∧ Reach st.cells (.ref q) l := by
  have h := exec_spec (run_hookOK w hc st.cells.length n) w fuel p st.cells.length hs hp st (wfStore_closed hwf)
    (Nat.le_refl _) (Nat.le_refl _) (wfStore_inv hwf)
  exact reach_fresh (h.1.inv (wfStore_inv hwf)) h.1.frame (wfStore_closed hwf) hreach (h.2 r hr).2 hl

/-- **Frame, tagged unions** (`configure_tagged_union`, all four structure closures and the tag
insertion on unstructure; `isSt` selects the direction). -/
theorem C11_tagged_frame (w : World) (hc : HCfg) (n : Nat) (tg : Tagged) (isSt : Bool) (v : HVal) (st : St)
    (hwf : wfStore st = true) (hv : inB st.cells.length v = true) :
    ∀ l : Nat, l < st.cells.length → (runTagged w hc n tg isSt v st).2.cells[l]? = st.cells[l]? :=
  (runTagged_spec w hc n tg isSt st.cells.length st.cells.length v (inB_argOld hv) st (wfStore_closed hwf)
    (Nat.le_refl _) (Nat.le_refl _) (wfStore_inv hwf)).1.frame

/-- **Freshness, tagged unions.** -/
theorem C11_tagged_fresh (w : World) (hc : HCfg) (n : Nat) (tg : Tagged) (isSt : Bool) (v : HVal) (st : St)
    (hwf : wfStore st = true) (hv : inB st.cells.length v = true)
    (r : HVal) (hr : (runTagged w hc n tg isSt v st).1 = some r) (l : Loc)
    (hreach : Reach (runTagged w hc n tg isSt v st).2.cells r l) (hl : l < st.cells.length) :
    ∃ p, p ∈ (runTagged w hc n tg isSt v st).2.log ∧ p < st.cells.length ∧ Reach st.cells (.ref p) l := by
  have h := runTagged_spec w hc n tg isSt st.cells.length st.cells.length v (inB_argOld hv) st (wfStore_closed hwf)
    (Nat.le_refl _) (Nat.le_refl _) (wfStore_inv hwf)
  exact reach_fresh (h.1.inv (wfStore_inv hwf)) h.1.frame (wfStore_closed hwf) hreach (h.2 r hr).2 hl

/-
Full statement of the property (NOT provable for the code as it is — finding F34): the same as
`C11_fresh` with a log that only `Prog.ident` writes.  The TypedDict hooks start from a shallow
`o.copy()`, so whatever sits under an undeclared (or omitted) key is handed out by reference; the
model logs these survivors (`exec`, case `copyPatch`) and `C11_typeddict_extras_alias_witness`
shows a concrete program without any `ident` whose result shares a caller's container.
-/

/-! ### negative witnesses -/

def c11_w0 : World := { classes := [], enums := [] }

/-- caller's store: `0 ↦ {'_type': 'A', 'x': 1}` -/
def c11_stTagged : St :=
  { cells := [.dict [(.leaf (.str "_type"), .leaf (.str "A")), (.leaf (.str "x"), .leaf (.int 1))]] }

/-- the tagged-union structure hook with `val = val.copy()` removed: `val.pop('_type'); A(x=val['x'])` -/
def c11_popNoCopy : Prog :=
  .popInPlace 0 [(.leaf (.str "x"), .leaf (.int 1))]
    (.build false false (.inst 0 ["x"]) [(.pass, .leaf (.int 1))])

/-- **Negative witness**: without the copy the hook mutates its argument — the frame property
fails for a program outside the safe family (`c11_popNoCopy.safe = false`). -/
theorem C11_pop_without_copy_witness :
    c11_popNoCopy.safe = false ∧ wfStore c11_stTagged = true ∧ c11_popNoCopy.WF c11_stTagged.cells.length ∧
    (exec c11_w0 1 (run c11_w0 { cfg := default } 1) c11_popNoCopy c11_stTagged).1 = some (.ref 1) ∧
    (exec c11_w0 1 (run c11_w0 { cfg := default } 1) c11_popNoCopy c11_stTagged).2.cells[0]? ≠ c11_stTagged.cells[0]? := by
  refine ⟨rfl, by decide, ?_, by decide, by decide⟩
  intro x hx
  simp only [c11_popNoCopy, Prog.vals, List.map_cons, List.map_nil, List.mem_cons, List.not_mem_nil, or_false] at hx
  rcases hx with rfl | rfl
  · show 0 < 1
    decide
  · trivial

/-- with the copy (`popCopy`, what the code does) the same call leaves location 0 alone -/
example :
    (exec c11_w0 1 (run c11_w0 { cfg := default } 1)
      (.popCopy [(.leaf (.str "_type"), .leaf (.str "A")), (.leaf (.str "x"), .leaf (.int 1))]
        [(.leaf (.str "x"), .leaf (.int 1))]
        (.build false false (.inst 0 ["x"]) [(.pass, .leaf (.int 1))])) c11_stTagged).2.cells[0]?
      = c11_stTagged.cells[0]? := by decide

/-- caller's store: `0 ↦ [1]`, `1 ↦ {'zzz': <0>}` -/
def c11_stExtras : St :=
  { cells := [.coll .list [.leaf (.int 1)], .dict [(.leaf (.str "zzz"), .ref 0)]] }

/-- `structure({'zzz': [1]}, TD)` for a TypedDict that does not declare `zzz`: `res = o.copy(); return res` -/
def c11_tdCopyOnly : Prog := .copyPatch false false false 1 [(.leaf (.str "zzz"), .ref 0)] []

/-- **Negative witness for the full statement (finding F34)**: a safe program that never executes
`ident`, and whose result nevertheless shares the caller's mutable list at location 0. -/
theorem C11_typeddict_extras_alias_witness :
    c11_tdCopyOnly.safe = true ∧ wfStore c11_stExtras = true ∧
    (exec c11_w0 0 (fun _ _ => raise) c11_tdCopyOnly c11_stExtras).1 = some (.ref 2) ∧
    Reach (exec c11_w0 0 (fun _ _ => raise) c11_tdCopyOnly c11_stExtras).2.cells (.ref 2) 0 ∧
    (exec c11_w0 0 (fun _ _ => raise) c11_tdCopyOnly c11_stExtras).2.log = [0] := by
  refine ⟨rfl, by decide, by decide, ?_, by decide⟩
  refine Reach.step (c := .dict [(.leaf (.str "zzz"), .ref 0)]) (v := .ref 0) (by decide) (by decide) (Reach.here 0)

/-! ### non-vacuity -/

/-- one attrs class `A` with an untyped attribute `x` -/
def c11_wTag : World :=
  { classes := [Cls.mk .attrs false [Field.mk "x" "x" none Dflt.none true true]], enums := [] }

/-- what the model plans for the real tagged-union structure hook (forbid_extra_keys, no default) on
the content of `c11_stTagged`: exactly the safe twin `popCopy` of the witness program `c11_popNoCopy` -/
example :
    planTaggedSt c11_wTag { gen := true, tupleStrat := false, detailed := false, forbid := true }
      { tagName := "_type", members := [(0, "A")], dflt := none }
      (some (.dict [(.leaf (.str "_type"), .leaf (.str "A")), (.leaf (.str "x"), .leaf (.int 1))]))
      (some (.dict [(.str "_type", .str "A"), (.str "x", .int 1)]))
    = .popCopy [(.leaf (.str "_type"), .leaf (.str "A")), (.leaf (.str "x"), .leaf (.int 1))]
        [(.leaf (.str "x"), .leaf (.int 1))]
        (.build false false (.inst 0 ["x"]) [(.pass, .leaf (.int 1))]) := by
  rfl

/-- caller's store: `0 ↦ [1]`, `1 ↦ [<0>, 'a']`; argument `<1>`; `structure(arg, list[Any])` -/
def c11_stNest : St := { cells := [.coll .list [.leaf (.int 1)], .coll .list [.ref 0, .leaf (.str "a")]] }

example : wfStore c11_stNest = true ∧ inB c11_stNest.cells.length (.ref 1) = true := by decide

/-- the call returns a *fresh* list `<2>` whose first element is the caller's inner list `<0>`
(an `Any`-typed position: logged), and the caller's cells are unchanged -/
example :
    (run c11_w0 { cfg := default } 3 (.st (.coll .list .any)) (.ref 1) c11_stNest).1 = some (.ref 2) ∧
    (run c11_w0 { cfg := default } 3 (.st (.coll .list .any)) (.ref 1) c11_stNest).2.cells
      = c11_stNest.cells ++ [.coll .list [.ref 0, .leaf (.str "a")]] ∧
    (run c11_w0 { cfg := default } 3 (.st (.coll .list .any)) (.ref 1) c11_stNest).2.log = [0] := by decide

/-- unstructuring the same argument as `list[list[int]]` copies both levels: nothing is logged -/
example :
    (run c11_w0 { cfg := { gen := true, tupleStrat := false, detailed := true, forbid := false } } 4
        (.un (.coll .list (.coll .list .int))) (.ref 1) c11_stNest).2.log = [] := by decide

end CattrsModel
