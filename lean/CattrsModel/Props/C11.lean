import CattrsModel.Heap.TaggedLemmas
import CattrsModel.Heap.RefSt8
import CattrsModel.Heap.RefUn13
import CattrsModel.Heap.FreshFull
import CattrsModel.Heap.FreshRegion
import CattrsModel.Heap.FreshExamples
import CattrsModel.Heap.Documented3
import CattrsModel.Heap.TaggedCEquiv
import CattrsModel.Heap.TaggedCFrame
/-!
# C11 — un/structuring never mutates its argument nor aliases its mutable containers

*Partial w.r.t. object identity*: identities of immutable objects (interning, `tuple(t) is t`,
`frozenset(f) is f`) are CPython behaviour and not part of the model (`Cell.mutable`).

Setting: a store `st` (the caller's heap, well-formed: `wfStore`), an argument `v` in it, a
hook invocation `run w hc n call v` for *any* world, configuration (Converter / BaseConverter,
both strategies, both validation modes, `forbid_extra_keys`, TypedDict overrides), type / call,
value and nesting fuel.  Result: `(run … st).1` (`none` = an exception propagated) and the store
afterwards `(run … st).2` — available on the error path too.

NamedTuples (`Ty.nt`, `planNTUn` / `planSt`): structuring builds a new instance; unstructuring by a `Converter`
builds a new tuple unless no item needs conversion (`cols._is_passthrough`: every field hook is `identity`),
in which case -- and always for a `BaseConverter`, which has no NamedTuple hook -- the instance itself is returned:
a logged pass-through ("a named tuple that needs no conversion may pass through as the tuple it is"); the instance
is an immutable tuple, so its identity is not observable (the driver does not report it as an alias).
-/
namespace CattrsModel
open Heap

/-- **Frame.** Every location that existed before the call — in particular every location
reachable from the argument — holds the same content afterwards, whether the call returns or
raises. -/
theorem C11_frame (w : World) (hc : HCfg) (n : Nat) (call : Call) (v : HVal) (st : St)
    (hwf : wfStore st = true) (hv : inB st.cells.length v = true) :
    ∀ l : Nat, l < st.cells.length → (run w hc n call v st).2.cells[l]? = st.cells[l]? :=
  (run_hookOK w hc st.cells.length n st.cells.length call v (inB_argOld hv) st (wfStore_closed hwf)
    (Nat.le_refl _) (Nat.le_refl _) (wfStore_inv hwf)).1.frame

/-- the statement in the property's words: what is reachable from the argument is untouched -/
theorem C11_frame_reachable (w : World) (hc : HCfg) (n : Nat) (call : Call) (v : HVal) (st : St)
    (hwf : wfStore st = true) (hv : inB st.cells.length v = true) (l : Loc) (hl : Reach st.cells v l) :
    (run w hc n call v st).2.cells[l]? = st.cells[l]? :=
  C11_frame w hc n call v st hwf hv l
    (reach_old (fun _ _ => rfl) (wfStore_closed hwf) hl (inB_argOld hv)).2

/-- **Frame, for the whole program family**: any safe program (whatever `plan` would choose),
run with any sub-hooks that are themselves invocations of `run`. -/
theorem C11_frame_program (w : World) (hc : HCfg) (n fuel : Nat) (p : Prog) (st : St)
    (hs : p.safe = true) (hp : p.WF st.cells.length) (hwf : wfStore st = true) :
    ∀ l : Nat, l < st.cells.length → (exec w fuel (run w hc n) p st).2.cells[l]? = st.cells[l]? :=
  (exec_spec (run_hookOK w hc st.cells.length n) w fuel p st.cells.length hs hp st (wfStore_closed hwf)
    (Nat.le_refl _) (Nat.le_refl _) (wfStore_inv hwf)).1.frame

/-- `plan` (the model of hook construction) never leaves the safe family -/
theorem C11_planned_safe (w : World) (hc : HCfg) (n : Nat) (call : Call) (v : HVal) (view : Option Cell)
    (obj : Option Obj) : (plan w hc n call v view obj).safe = true :=
  (plan_planned w hc n call v view obj).1

/-- **Freshness.** A caller's location reachable from the result is reachable (in the caller's
store) from a location that the call *logged* as handed out by reference.  Logging happens in
exactly two places of the model: `Prog.ident` (the documented pass-throughs: `Any`/untyped
positions when structuring; unknown classes, identity hooks and the TypedDict identity short-cut
when unstructuring) and the survivors of a TypedDict `o.copy()` (finding F34, see below). -/
theorem C11_fresh (w : World) (hc : HCfg) (n : Nat) (call : Call) (v : HVal) (st : St)
    (hwf : wfStore st = true) (hv : inB st.cells.length v = true)
    (r : HVal) (hr : (run w hc n call v st).1 = some r) (l : Loc)
    (hreach : Reach (run w hc n call v st).2.cells r l) (hl : l < st.cells.length) :
    ∃ p, p ∈ (run w hc n call v st).2.log ∧ p < st.cells.length ∧ Reach st.cells (.ref p) l := by
  have h := run_hookOK w hc st.cells.length n st.cells.length call v (inB_argOld hv) st (wfStore_closed hwf)
    (Nat.le_refl _) (Nat.le_refl _) (wfStore_inv hwf)
  exact reach_fresh (h.1.inv (wfStore_inv hwf)) h.1.frame (wfStore_closed hwf) hreach (h.2 r hr).2 hl

theorem C11_fresh_program (w : World) (hc : HCfg) (n fuel : Nat) (p : Prog) (st : St)
    (hs : p.safe = true) (hp : p.WF st.cells.length) (hwf : wfStore st = true)
    (r : HVal) (hr : (exec w fuel (run w hc n) p st).1 = some r) (l : Loc)
    (hreach : Reach (exec w fuel (run w hc n) p st).2.cells r l) (hl : l < st.cells.length) :
    ∃ q, q ∈ (exec w fuel (run w hc n) p st).2.log ∧ q < st.cells.length ∧ Reach st.cells (.ref q) l := by
  have h := exec_spec (run_hookOK w hc st.cells.length n) w fuel p st.cells.length hs hp st (wfStore_closed hwf)
    (Nat.le_refl _) (Nat.le_refl _) (wfStore_inv hwf)
  exact reach_fresh (h.1.inv (wfStore_inv hwf)) h.1.frame (wfStore_closed hwf) hreach (h.2 r hr).2 hl

/-- **Frame, tagged unions** (`configure_tagged_union`, all four structure closures and the tag
insertion on unstructure; `isSt` selects the direction). -/
theorem C11_tagged_frame (w : World) (hc : HCfg) (n : Nat) (tg : Tagged) (isSt : Bool) (v : HVal) (st : St)
    (hwf : wfStore st = true) (hv : inB st.cells.length v = true) :
    ∀ l : Nat, l < st.cells.length → (runTagged w hc n tg isSt v st).2.cells[l]? = st.cells[l]? :=
  (runTagged_spec w hc n tg isSt st.cells.length st.cells.length v (inB_argOld hv) st (wfStore_closed hwf)
    (Nat.le_refl _) (Nat.le_refl _) (wfStore_inv hwf)).1.frame

/-- **Freshness, tagged unions.** -/
theorem C11_tagged_fresh (w : World) (hc : HCfg) (n : Nat) (tg : Tagged) (isSt : Bool) (v : HVal) (st : St)
    (hwf : wfStore st = true) (hv : inB st.cells.length v = true)
    (r : HVal) (hr : (runTagged w hc n tg isSt v st).1 = some r) (l : Loc)
    (hreach : Reach (runTagged w hc n tg isSt v st).2.cells r l) (hl : l < st.cells.length) :
    ∃ p, p ∈ (runTagged w hc n tg isSt v st).2.log ∧ p < st.cells.length ∧ Reach st.cells (.ref p) l := by
  have h := runTagged_spec w hc n tg isSt st.cells.length st.cells.length v (inB_argOld hv) st (wfStore_closed hwf)
    (Nat.le_refl _) (Nat.le_refl _) (wfStore_inv hwf)
  exact reach_fresh (h.1.inv (wfStore_inv hwf)) h.1.frame (wfStore_closed hwf) hreach (h.2 r hr).2 hl

/-
Full statement of the property (NOT provable for the code as it is — finding F34): the same as
`C11_fresh` with a log that only `Prog.ident` writes.  The TypedDict hooks start from a shallow
`o.copy()`, so whatever sits under an undeclared (or omitted) key is handed out by reference; the
model logs these survivors (`exec`, case `copyPatch`) and `C11_typeddict_extras_alias_witness`
shows a concrete program without any `ident` whose result shares a caller's container.
-/

/-! ### negative witnesses -/

def c11_w0 : World := { classes := [], enums := [] }

/-- caller's store: `0 ↦ {'_type': 'A', 'x': 1}` -/
def c11_stTagged : St :=
  { cells := [.dict [(.leaf (.str "_type"), .leaf (.str "A")), (.leaf (.str "x"), .leaf (.int 1))]] }

/-- the tagged-union structure hook with `val = val.copy()` removed: `val.pop('_type'); A(x=val['x'])` -/
def c11_popNoCopy : Prog :=
  .popInPlace 0 [(.leaf (.str "x"), .leaf (.int 1))]
    (.build false false (.inst 0 ["x"]) [(.pass, .leaf (.int 1))])

/-- **Negative witness**: without the copy the hook mutates its argument — the frame property
fails for a program outside the safe family (`c11_popNoCopy.safe = false`). -/
theorem C11_pop_without_copy_witness :
    c11_popNoCopy.safe = false ∧ wfStore c11_stTagged = true ∧ c11_popNoCopy.WF c11_stTagged.cells.length ∧
    (exec c11_w0 1 (run c11_w0 { cfg := default } 1) c11_popNoCopy c11_stTagged).1 = some (.ref 1) ∧
    (exec c11_w0 1 (run c11_w0 { cfg := default } 1) c11_popNoCopy c11_stTagged).2.cells[0]? ≠ c11_stTagged.cells[0]? := by
  refine ⟨rfl, by decide, ?_, by decide, by decide⟩
  intro x hx
  simp only [c11_popNoCopy, Prog.vals, List.map_cons, List.map_nil, List.mem_cons, List.not_mem_nil, or_false] at hx
  rcases hx with rfl | rfl
  · show 0 < 1
    decide
  · trivial

/-- with the copy (`popCopy`, what the code does) the same call leaves location 0 alone -/
example :
    (exec c11_w0 1 (run c11_w0 { cfg := default } 1)
      (.popCopy [(.leaf (.str "_type"), .leaf (.str "A")), (.leaf (.str "x"), .leaf (.int 1))]
        [(.leaf (.str "x"), .leaf (.int 1))]
        (.build false false (.inst 0 ["x"]) [(.pass, .leaf (.int 1))])) c11_stTagged).2.cells[0]?
      = c11_stTagged.cells[0]? := by decide

/-- caller's store: `0 ↦ [1]`, `1 ↦ {'zzz': <0>}` -/
def c11_stExtras : St :=
  { cells := [.coll .list [.leaf (.int 1)], .dict [(.leaf (.str "zzz"), .ref 0)]] }

/-- `structure({'zzz': [1]}, TD)` for a TypedDict that does not declare `zzz`: `res = o.copy(); return res` -/
def c11_tdCopyOnly : Prog := .copyPatch false false false 1 [(.leaf (.str "zzz"), .ref 0)] []

/-- **Negative witness for the full statement (finding F34)**: a safe program that never executes
`ident`, and whose result nevertheless shares the caller's mutable list at location 0. -/
theorem C11_typeddict_extras_alias_witness :
    c11_tdCopyOnly.safe = true ∧ wfStore c11_stExtras = true ∧
    (exec c11_w0 0 (fun _ _ => raise) c11_tdCopyOnly c11_stExtras).1 = some (.ref 2) ∧
    Reach (exec c11_w0 0 (fun _ _ => raise) c11_tdCopyOnly c11_stExtras).2.cells (.ref 2) 0 ∧
    (exec c11_w0 0 (fun _ _ => raise) c11_tdCopyOnly c11_stExtras).2.log = [0] := by
  refine ⟨rfl, by decide, by decide, ?_, by decide⟩
  refine Reach.step (c := .dict [(.leaf (.str "zzz"), .ref 0)]) (v := .ref 0) (by decide) (by decide) (Reach.here 0)

/-! ### non-vacuity -/

/-- one attrs class `A` with an untyped attribute `x` -/
def c11_wTag : World :=
  { classes := [Cls.mk .attrs false [Field.mk "x" "x" none Dflt.none true true]], enums := [] }

/-- what the model plans for the real tagged-union structure hook (forbid_extra_keys, no default) on
the content of `c11_stTagged`: exactly the safe twin `popCopy` of the witness program `c11_popNoCopy` -/
example :
    planTaggedSt c11_wTag { gen := true, tupleStrat := false, detailed := false, forbid := true }
      { tagName := "_type", members := [(0, "A")], dflt := none }
      (some (.dict [(.leaf (.str "_type"), .leaf (.str "A")), (.leaf (.str "x"), .leaf (.int 1))]))
      (some (.dict [(.str "_type", .str "A"), (.str "x", .int 1)]))
    = .popCopy [(.leaf (.str "_type"), .leaf (.str "A")), (.leaf (.str "x"), .leaf (.int 1))]
        [(.leaf (.str "x"), .leaf (.int 1))]
        (.build false false (.inst 0 ["x"]) [(.pass, .leaf (.int 1))]) := by
  rfl

/-- caller's store: `0 ↦ [1]`, `1 ↦ [<0>, 'a']`; argument `<1>`; `structure(arg, list[Any])` -/
def c11_stNest : St := { cells := [.coll .list [.leaf (.int 1)], .coll .list [.ref 0, .leaf (.str "a")]] }

example : wfStore c11_stNest = true ∧ inB c11_stNest.cells.length (.ref 1) = true := by decide

/-- the call returns a *fresh* list `<2>` whose first element is the caller's inner list `<0>`
(an `Any`-typed position: logged), and the caller's cells are unchanged -/
example :
    (run c11_w0 { cfg := default } 3 (.st (.coll .list .any)) (.ref 1) c11_stNest).1 = some (.ref 2) ∧
    (run c11_w0 { cfg := default } 3 (.st (.coll .list .any)) (.ref 1) c11_stNest).2.cells
      = c11_stNest.cells ++ [.coll .list [.ref 0, .leaf (.str "a")]] ∧
    (run c11_w0 { cfg := default } 3 (.st (.coll .list .any)) (.ref 1) c11_stNest).2.log = [0] := by decide

/-- unstructuring the same argument as `list[list[int]]` copies both levels: nothing is logged -/
example :
    (run c11_w0 { cfg := { gen := true, tupleStrat := false, detailed := true, forbid := false } } 4
        (.un (.coll .list (.coll .list .int))) (.ref 1) c11_stNest).2.log = [] := by decide


/-! ## Refinement of the heap programs to the pure data-path model (the model C01–C06 are proved about)

Setting: the argument `v` reads as the pure object `o` within `k` reference hops of the caller's store
(`denote st.cells k v = some o`); the store is well formed (`wfStore`) and *proper* (`properStore`: a `.leaf` slot
holds a leaf object, never a container — what `inject` builds); `dW w` = 1 + depth of the deepest default value of the
class table (an all-defaults instance is that much deeper than the payload it was built from).  The configuration
has no TypedDict overrides (`hc.ovr = []`: the pure model has none).  `WLit` / `litLeaf`: `Literal[...]` members are
leaf objects (as `typing.Literal` demands). -/

/-- **The heap program of `structure` computes what the pure model computes — every type (unions and NamedTuples
included), every configuration (Converter / BaseConverter, both strategies, BOTH validation modes, forbid_extra_keys),
every store, every argument, every sufficient fuel**: with fuel `n ≥ k + dW w + 1` a returned value reads, in the final
store, as the result of `convStructure` (= `stF`, = `stD` up to the error tree, `C04_templates_agree`), and a call that
raises WITHOUT having left the modelled fragment (`unmod = false`) means `convStructure` rejects.

Partial.  The full statement (NOT a theorem since the pure model iterates `str` / `bytes` payloads -- `stLF`/`stLD`,
`structure("12", list[int]) == [1, 2]` -- while the heap planner answers `unmodelled` for them, `PlanSt.noItems`):
  `(run w hc n (.st t) v st).1 = none → convStructure w hc.cfg t o = none`   (no `unmod` premise).
What is missing is exactly the iteration of a `str` / `bytes` argument at a collection / heterogeneous-tuple / NamedTuple
/ tuple-strategy class position; the ghost flag `St.unmod` is set by the program `unmodelled` and never reset
(`Ev.unmodKeep`). -/
theorem C11_refines_pure_structure (w : World) (hc : HCfg) (hovr : hc.ovr = []) (hw : WLit w)
    (t : Ty) (hl : litLeaf t = true) (v : HVal) (st : St)
    (hwf : wfStore st = true) (hps : properStore st = true) (hv : inB st.cells.length v = true) (hpv : Proper v)
    (k : Nat) (o : Obj) (hden : denote st.cells k v = some o) (n : Nat) (hn : k + dW w + 1 ≤ n) :
    (∀ r, (run w hc n (.st t) v st).1 = some r →
      ∃ y, convStructure w hc.cfg t o = some y ∧ denote (run w hc n (.st t) v st).2.cells (k + dW w) r = some y) ∧
    ((run w hc n (.st t) v st).1 = none → (run w hc n (.st t) v st).2.unmod = false →
      convStructure w hc.cfg t o = none) := by
  obtain ⟨K, rfl⟩ : ∃ K, n = K + dW w + 1 := ⟨n - dW w - 1, by omega⟩
  have h := run_ref_st w hc hovr hw st.cells.length K (.st t) v st k o (Good.of_wf hwf hps) (inB_argOld hv) hpv hden
    (by omega) hl
  rw [conv_eq]
  exact ⟨h.1, fun hr hu => h.2 hr trivial hu⟩

/-- the same ok/err in one line -/
theorem C11_refines_pure_structure_okerr (w : World) (hc : HCfg) (hovr : hc.ovr = []) (hw : WLit w)
    (t : Ty) (hl : litLeaf t = true) (v : HVal) (st : St)
    (hwf : wfStore st = true) (hps : properStore st = true) (hv : inB st.cells.length v = true) (hpv : Proper v)
    (k : Nat) (o : Obj) (hden : denote st.cells k v = some o) (n : Nat) (hn : k + dW w + 1 ≤ n)
    (hu : (run w hc n (.st t) v st).2.unmod = false) :
    (run w hc n (.st t) v st).1.isSome = (convStructure w hc.cfg t o).isSome := by
  have h := C11_refines_pure_structure w hc hovr hw t hl v st hwf hps hv hpv k o hden n hn
  cases hr : (run w hc n (.st t) v st).1 with
  | none => rw [h.2 hr hu]; rfl
  | some r => obtain ⟨y, hy, _⟩ := h.1 r hr; rw [hy]; rfl

/-- **Fuel eliminated**: two runs with sufficient fuel agree on ok/err and their results read as the same object. -/
theorem C11_structure_fuel_independent (w : World) (hc : HCfg) (hovr : hc.ovr = []) (hw : WLit w)
    (t : Ty) (hl : litLeaf t = true) (v : HVal) (st : St)
    (hwf : wfStore st = true) (hps : properStore st = true) (hv : inB st.cells.length v = true) (hpv : Proper v)
    (k : Nat) (o : Obj) (hden : denote st.cells k v = some o) (n n' : Nat) (hn : k + dW w + 1 ≤ n) (hn' : k + dW w + 1 ≤ n')
    (hu : (run w hc n (.st t) v st).2.unmod = false) (hu' : (run w hc n' (.st t) v st).2.unmod = false) :
    (run w hc n (.st t) v st).1.isSome = (run w hc n' (.st t) v st).1.isSome ∧
    ∀ r r', (run w hc n (.st t) v st).1 = some r → (run w hc n' (.st t) v st).1 = some r' →
      ∃ y, denote (run w hc n (.st t) v st).2.cells (k + dW w) r = some y ∧
           denote (run w hc n' (.st t) v st).2.cells (k + dW w) r' = some y := by
  refine ⟨by rw [C11_refines_pure_structure_okerr w hc hovr hw t hl v st hwf hps hv hpv k o hden n hn hu,
    C11_refines_pure_structure_okerr w hc hovr hw t hl v st hwf hps hv hpv k o hden n' hn' hu'], fun r r' hr hr' => ?_⟩
  obtain ⟨y, hy, hd1⟩ := (C11_refines_pure_structure w hc hovr hw t hl v st hwf hps hv hpv k o hden n hn).1 r hr
  obtain ⟨y', hy', hd2⟩ := (C11_refines_pure_structure w hc hovr hw t hl v st hwf hps hv hpv k o hden n' hn').1 r' hr'
  rw [hy] at hy'; cases hy'
  exact ⟨y, hd1, hd2⟩

/-- non-vacuity: `structure(['1'], list[int])` on the store `0 ↦ ['1']` -/
example : WLit c11_w0 ∧ litLeaf (.coll .list .int) = true ∧
    wfStore { cells := [.coll .list [.leaf (.str "1")]] } = true ∧
    properStore { cells := [.coll .list [.leaf (.str "1")]] } = true ∧ Proper (.ref 0) ∧
    denote [Cell.coll .list [.leaf (.str "1")]] 1 (.ref 0) = some (.coll .list [.str "1"]) := by
  refine ⟨fun c f hf => ?_, rfl, by decide, by decide, Proper.ref 0, ?_⟩
  · simp [World.fields, c11_w0] at hf
  · simp [denote, denoteL]

/-- **The heap program of `unstructure` computes what the pure model computes** (partial, see below): for an
argument that reads as a value `o` of the type (`conf`), whose instances conform to their classes at every depth,
whose dicts have pairwise non-`==` keys and which holds no NamedTuple instance (`OKU`), in a class table with
distinct field names (`WorldOK`), with any fuel `n ≥ k + 1`: a returned value reads, in the final store and within
the same `k` hops, as `convUnstructure w hc.cfg t o` (= `un`).  Every type and configuration: collections, mappings,
heterogeneous tuples, classes (dict / tuple strategy, `init=False` fields), `Any` / unions / `Optional` / wrappers by
run-time class, enums, the TypedDict hooks (BaseConverter mapping path, identity short-cut — `isIdUn` is sound —,
copy-then-patch hook = `unTD`).

Full statement (NOT proved): the same without `!w.isNT c` in `OKU` and with "the call returns".  Missing:
(i) NamedTuple pass-through returns the instance itself where the pure model returns the plain tuple of its items
— equal only up to "a NamedTuple instance is that tuple" (an erasure on both sides is needed; measured: all
`agree = 0` cases with outcome ok are of this kind); (ii) the pure `un` is total while the hook can raise
`TypeError: unhashable` when an unstructured set member / dict key is unhashable (recorded finding F10; measured: all
`agree = 0` cases with outcome err), so no statement is made when the call raises. -/
theorem C11_refines_pure_unstructure_partial (w : World) (hc : HCfg) (hovr : hc.ovr = []) (hw : WorldOK w)
    (t : Ty) (v : HVal) (st : St)
    (hwf : wfStore st = true) (hps : properStore st = true) (hv : inB st.cells.length v = true) (hpv : Proper v)
    (k : Nat) (o : Obj) (hden : denote st.cells k v = some o) (hconf : conf w t o = true) (hoku : OKU w o = true)
    (n : Nat) (hn : k + 1 ≤ n) :
    ∀ r, (run w hc n (.un t) v st).1 = some r →
      denote (run w hc n (.un t) v st).2.cells k r = some (convUnstructure w hc.cfg t o) := by
  obtain ⟨K, rfl⟩ : ∃ K, n = K + 1 := ⟨n - 1, by omega⟩
  intro r hr
  obtain ⟨y, hy, hd⟩ := (run_ref_un w hc hovr hw st.cells.length K (.un t) v st k o (Good.of_wf hwf hps) (inB_argOld hv)
    hpv hden (by omega) ⟨hconf, hoku⟩).1 r hr
  simp only [callPure, Option.some.injEq] at hy
  subst hy
  exact hd

/-- **`C11_refines_pure`**: both directions together (partial because of the unstructure half). -/
theorem C11_refines_pure (w : World) (hc : HCfg) (hovr : hc.ovr = []) (hw : WLit w) (hwo : WorldOK w)
    (t : Ty) (hl : litLeaf t = true) (v : HVal) (st : St)
    (hwf : wfStore st = true) (hps : properStore st = true) (hv : inB st.cells.length v = true) (hpv : Proper v)
    (k : Nat) (o : Obj) (hden : denote st.cells k v = some o) (n : Nat) (hn : k + dW w + 1 ≤ n) :
    ((∀ r, (run w hc n (.st t) v st).1 = some r →
        ∃ y, convStructure w hc.cfg t o = some y ∧ denote (run w hc n (.st t) v st).2.cells (k + dW w) r = some y) ∧
      ((run w hc n (.st t) v st).1 = none → (run w hc n (.st t) v st).2.unmod = false →
        convStructure w hc.cfg t o = none)) ∧
    (conf w t o = true → OKU w o = true → ∀ r, (run w hc n (.un t) v st).1 = some r →
      denote (run w hc n (.un t) v st).2.cells k r = some (convUnstructure w hc.cfg t o)) :=
  ⟨C11_refines_pure_structure w hc hovr hw t hl v st hwf hps hv hpv k o hden n hn,
   fun hconf hoku => C11_refines_pure_unstructure_partial w hc hovr hwo t v st hwf hps hv hpv k o hden hconf hoku n
     (by omega)⟩

/-! ## Full freshness on the F34-free region; where `ident` can occur -/

/-- **`ident` occurs exactly at the documented positions** (syntactic, about `plan`; both directions): when
structuring — untyped attributes and `Any` (under `Optional` / wrappers); when unstructuring — immutable leaves,
instances of unknown classes, types whose hook is the identity (leaf types, BaseConverter heterogeneous tuples /
NewType / Annotated, the identity-TypedDict short-cut, the NamedTuple pass-through), and a value that does not have
the run-time shape of the declared type (`DocUn.mismatch`: only the frame property is claimed there). -/
theorem C11_ident_only_at_documented_positions (w : World) (hc : HCfg) (n : Nat) (call : Call) (v : HVal)
    (view : Option Cell) (obj : Option Obj) (v' : HVal) (h : plan w hc n call v view obj = .ident v') :
    v' = v ∧ DocPos w hc n call v view :=
  ident_only_at_documented_positions w hc n call v view obj v' h

theorem C11_documented_positions_plan_ident (w : World) (hc : HCfg) (n : Nat) (call : Call) (v : HVal)
    (view : Option Cell) (obj : Option Obj) (h : DocPos w hc n call v view) :
    plan w hc n call v view obj = .ident v :=
  documented_positions_plan_ident w hc n call v view obj h

/-- **Full freshness** on the F34-free region (`f34free`: at every TypedDict position the run meets, evaluated in the
caller's store, every entry of the payload / instance dict is assigned by a patch — declared keys only, none omitted):
every caller location reachable from the result is reachable from a location logged by `Prog.ident` (the ghost `ilog`
is written by `ident` only), and that location was logged at a documented position. -/
theorem C11_fresh_full (w : World) (hc : HCfg) (n : Nat) (call : Call) (v : HVal) (st : St)
    (hwf : wfStore st = true) (hv : inB st.cells.length v = true)
    (hlog : st.log = []) (hilog : st.ilog = [])
    (hreg : f34free w hc (fun _ => False) st.cells n call v)
    (r : HVal) (hr : (run w hc n call v st).1 = some r) (l : Loc)
    (hreach : Reach (run w hc n call v st).2.cells r l) (hl : l < st.cells.length) :
    ∃ p, p < st.cells.length ∧ Reach st.cells (.ref p) l ∧ p ∈ (run w hc n call v st).2.ilog ∧
      ∃ n' call', DocPos w hc n' call' (.ref p) (viewOf st (.ref p)) :=
  fresh_full_documented w hc n call v st hwf hv hlog hilog hreg r hr l hreach hl

/-- the region contains every TypedDict structure call under `forbid_extra_keys`' own test (declared keys only) -/
theorem C11_f34free_of_declared_keys (D : Nat → Prop) (hc : HCfg) (c : Nat) (kvs : List (HVal × HVal)) (fds : List Field)
    (hd : KeysDistinct kvs) (hdecl : keyStrs kvs (tdStPatches hc c kvs fds).2.2 = true) :
    NoExtras D kvs (tdStPatches hc c kvs fds).1 :=
  tdSt_noExtras D hc c kvs fds hd hdecl

/-! ## Tagged unions: the concrete composition (closure of `configure_tagged_union` ∘ the converter's member hook) -/

theorem C11_taggedC_frame (w : World) (hc : HCfg) (n : Nat) (tg : Tagged) (isSt : Bool) (v : HVal) (st : St)
    (hwf : wfStore st = true) (hv : inB st.cells.length v = true) :
    ∀ l : Nat, l < st.cells.length → (runTaggedC w hc n tg isSt v st).2.cells[l]? = st.cells[l]? :=
  taggedC_frame w hc n tg isSt v st hwf hv

theorem C11_taggedC_fresh (w : World) (hc : HCfg) (n : Nat) (tg : Tagged) (isSt : Bool) (v : HVal) (st : St)
    (hwf : wfStore st = true) (hv : inB st.cells.length v = true)
    (r : HVal) (hr : (runTaggedC w hc n tg isSt v st).1 = some r) (l : Loc)
    (hreach : Reach (runTaggedC w hc n tg isSt v st).2.cells r l) (hl : l < st.cells.length) :
    ∃ p, p ∈ (runTaggedC w hc n tg isSt v st).2.log ∧ p < st.cells.length ∧ Reach st.cells (.ref p) l :=
  taggedC_fresh w hc n tg isSt v st hwf hv r hr l hreach hl

/-- on mapping payloads / instances the abstract model of `Tagged.lean` and the concrete composition coincide
(result and whole final store) -/
theorem C11_taggedC_eq_abstract (w : World) (hc : HCfg) (n : Nat) (tg : Tagged) (v : HVal) (st : St) :
    (∀ c fs, viewOf st v = some (.inst c fs) → runTaggedC w hc (n + 1) tg false v st = runTagged w hc n tg false v st) ∧
    (∀ kvs obj, viewOf st v = some (.dict kvs) → denote st.cells n v = some obj →
      runTaggedC w hc (n + 1) tg true v st = runTagged w hc n tg true v st) :=
  ⟨fun c fs h => runTaggedC_eq_un w hc n tg v st c fs h, fun kvs obj h h' => runTaggedC_eq_st w hc n tg v st kvs obj h h'⟩

end CattrsModel
