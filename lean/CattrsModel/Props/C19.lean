import CattrsModel.Threads.Lemmas
import CattrsModel.Threads.SlotLemmas
import CattrsModel.Threads.ReplayLemmas
import CattrsModel.Threads.Locks
/-!
# C19 — a shared converter is thread-safe, including concurrent first use of a type      (PARTIAL)

Statement (properties.jsonl): concurrent structure / unstructure calls on one shared converter from many threads,
including the first use of each type during which hooks are generated and cached, return exactly what the same
calls return when executed sequentially, and never raise errors that the sequential execution does not raise.

What is proved here — for EVERY schedule (induction over the schedule, `runSched_induct`), EVERY number of threads
(threads are indexed by `Nat`), EVERY type graph and EVERY assignment of calls to threads — about the model of
`CattrsModel/Threads/Model.lean`:

* log level (`wsRun`): `C19_projection`, `C19_shared_log_witness`;
* generation machine (`tstep` / `gstep` / `runSched`): `C19_frame`, `C19_ws_is_own_stack`, `C19_no_false_cycle`,
  `C19_calls_preserved`, `C19_cache_ok`, `C19_serialisable` (+ `C19_serialisable_seq`), `C19_shared_breaks`;
* the machine extended by the working-set SWAP of `strategies/_subclasses.py` (`runOps`, `Threads/Slot.lean`):
  `C19_swap_frame`, `C19_swap_ws`, `C19_swap_no_false_cycle`, `C19_swap_cache_ok`;
* the REFINED machine (attribute slot that is deleted when the set becomes empty, identities of set objects, swap;
  `runOpsR`): `C19_slot_unobservable` — it is the abstract machine under every extended schedule and never faults;
* replay of observed interleavings (`Threads/Replay.lean`, what corr:C19:GENSCHED runs): `C19_replay_is_schedule`,
  `C19_silent_steps_local`, `C19_silent_steps_commute`.

PARTIAL because (and only because) of what the model takes as atomic: one `tstep` is one access to the memo
tables / one test-and-add on the working set / one remove; the atomicity of a single `dict` / `set` /
`lru_cache` operation under the GIL is ASSUMED, and real interleavings are sampled by the check at statement
granularity only.  Liveness (every thread eventually finishes) is not claimed: the theorems are safety
properties of every prefix of every interleaving.  A late-bound reference (`converter.structure`) that misses
the memo tables at run time is given the cache-free meaning by definition of `behave` (that sequential
generation is correct is the business of C01 / C08).
-/
namespace CattrsModel
open Threads

/-! ## Log level -/

/-- **C19_projection** (full).  With thread-local working sets, what thread `i` sees after ANY interleaved log —
its attribute slot, every set reachable from it, and every answer it received — is what it sees when only its
own accesses are replayed.  (`s`, `s'` are any two states that look the same to `i`; take `s = s'`.) -/
theorem C19_projection (i : Nat) (log : List WsEv) (s s' : WsState) (h : s.agree i s') :
    (wsRun false log s).1.slot i = (wsRun false (log.filter (fun e => decide (e.tid = i))) s').1.slot i ∧
    (wsRun false log s).1.store i = (wsRun false (log.filter (fun e => decide (e.tid = i))) s').1.store i ∧
    ownAnswers i log (wsRun false log s).2 = (wsRun false (log.filter (fun e => decide (e.tid = i))) s').2 :=
  let r := wsRun_projection i log s s' h
  ⟨r.1.1, r.1.2, r.2⟩

/-- non-vacuity: an interleaved log of two threads generating the same class; thread 1's answers are those of
its own four accesses (its `get` raises AttributeError although thread 0 has stored a set in between). -/
example :
    let log : List WsEv := [⟨0, .get⟩, ⟨0, .set 1 []⟩, ⟨1, .get⟩, ⟨0, .add 1 7⟩, ⟨1, .set 2 []⟩, ⟨1, .mem 2 7⟩,
                            ⟨1, .add 2 7⟩, ⟨0, .rm 1 7⟩, ⟨1, .rm 2 7⟩]
    ownAnswers 1 log (wsRun false log WsState.init).2 = [.attrErr, .unit, .bool false, .unit, .unit] := by
  decide

/-- **C19_shared_log_witness** (negative witness).  The same log replayed with ONE shared slot / store predicts
other answers: thread 1's `get` finds thread 0's set and its membership test is answered by thread 0's `add` —
exactly what the check would see in the real log if `already_generating` stopped being a `threading.local`. -/
theorem C19_shared_log_witness :
    let log : List WsEv := [⟨0, .get⟩, ⟨0, .set 1 []⟩, ⟨0, .add 1 7⟩, ⟨1, .get⟩, ⟨1, .mem 1 7⟩]
    (wsRun false log WsState.init).2 = [.attrErr, .unit, .unit, .attrErr, .bool false] ∧
    (wsRun true log WsState.init).2 = [.attrErr, .unit, .unit, .found 1, .bool true] := by
  decide

/-! ## Generation machine -/

/-- **C19_frame** (full).  Steps of other threads do not touch thread `j`: neither its control state / stack /
results nor its working set. -/
theorem C19_frame (G : Graph) (j : Nat) (sched : List Nat) (hs : ∀ x ∈ sched, x ≠ j) (s : GState) :
    (runSched false G sched s).threads j = s.threads j ∧ (runSched false G sched s).ws j = s.ws j := by
  induction sched generalizing s with
  | nil => exact ⟨rfl, rfl⟩
  | cons i is ih =>
    have hi : j ≠ i := fun h => hs i (by simp) h.symm
    have := ih (fun x hx => hs x (by simp [hx])) (gstep false G s i)
    rw [runSched_cons, this.1, this.2, gstep_thread_other _ _ _ _ _ hi, gstep_ws_other _ _ _ _ hi]
    exact ⟨rfl, rfl⟩

/-- **C19_ws_is_own_stack** (full).  Under every schedule the working set a thread sees is exactly the list of
classes of ITS OWN unfinished factories (innermost first). -/
theorem C19_ws_is_own_stack (G : Graph) (calls : Nat → List Nat) (sched : List Nat) (i : Nat) :
    (runSched false G sched (GState.init calls)).ws i
      = wsOf G ((runSched false G sched (GState.init calls)).threads i).stack :=
  runSched_WsLocal calls sched i

/-- every factory that uses the working set also catches `RecursionError` for its nested dispatches (true of
all of them in cattrs: the attrs / dataclass / NamedTuple dict factories and the TypedDict unstructure factory;
transcribed in `c19.py: model_graph` and checked by corr:C19:GENRUN) -/
def WsCatch (G : Graph) : Prop := ∀ n, (G.node n).usesWs = true → (G.node n).catches = true

/-- **C19_no_false_cycle** (partial: atomicity granularity).  With thread-local working sets, under every schedule:
(1) every call finished so far returned a hook — no `RecursionError` / `KeyError` ever escapes;
(2) no `KeyError` is in flight and a `RecursionError` in flight has a catching factory of the same thread below it;
(3) no `remove` ever failed;
(4) whatever thread `i` does next: if its test-and-add finds the class, an unfinished factory of thread `i`
    ITSELF is generating that class (a real cycle), and its `remove` does not fail. -/
theorem C19_no_false_cycle (G : Graph) (hG : WsCatch G) (calls : Nat → List Nat) (sched : List Nat) (i : Nat) :
    let s := runSched false G sched (GState.init calls)
    (∀ r o, (r, o) ∈ (s.threads i).results → o.isOk = true) ∧
    (s.threads i).ctl ≠ .raise .key ∧
    ((s.threads i).ctl = .raise .recur → ∃ f ∈ (s.threads i).stack, (G.node f.node).catches = true) ∧
    (∀ n, (i, Ev.exit n false) ∉ s.trace) ∧
    evOK (s.threads i) (tstep G (s.threads i) (s.ws i) s.mem).ev := by
  intro s
  have inv := runSched_LInv hG calls sched
  have ne := inv.noesc i
  exact ⟨ne.results, ne.nokey, ne.caught, inv.trace i,
    (tstep_NoEsc G hG _ _ _ (inv.ginv.sinv i) (inv.ws i) ne).2⟩

/-- **C19_calls_preserved** (full; any sharing mode).  The k-th result of a thread answers the k-th call it was
given: results so far ++ calls still to make = the calls it was given, under every schedule. -/
theorem C19_calls_preserved (shared : Bool) (G : Graph) (calls : Nat → List Nat) (sched : List Nat) (i : Nat) :
    let th := (runSched shared G sched (GState.init calls)).threads i
    th.results.map (·.1) ++ th.calls = calls i ∧ (th.finished = true → th.results.map (·.1) = calls i) := by
  intro th
  have h : th.results.map (·.1) ++ th.calls = calls i :=
    ((runSched_GInv (shared := shared) (G := G) calls sched).sinv i).calls
  refine ⟨h, ?_⟩
  intro hf
  have : th.calls = [] := by
    unfold Thread.finished at hf
    split at hf
    · assumption
    · cases hf
  rw [this] at h
  simpa using h

/-- **C19_cache_ok** (partial: atomicity granularity; any sharing mode).  Under every schedule every cell of both
memo tables is well typed for its key and therefore behaves, to every depth, like the cache-free sequential
resolution: recomputation by racing threads is idempotent, whoever wins a write. -/
theorem C19_cache_ok (shared : Bool) (G : Graph) (calls : Nat → List Nat) (sched : List Nat) (n : Nat) (h : Hook) :
    let s := runSched shared G sched (GState.init calls)
    (s.mem.lru n = some h ∨ s.mem.direct n = some h) →
    Hook.wt G h n = true ∧ ∀ k, behave G s.mem k h = spec G k n := by
  intro s hm
  have inv := runSched_GInv (shared := shared) (G := G) calls sched
  have hw : Hook.wt G h n = true := by
    rcases hm with hm | hm
    · exact inv.mem.1 n h hm
    · exact inv.mem.2 n h hm
  exact ⟨hw, fun k => behave_eq_spec G s.mem inv.mem k h n hw⟩

/-- every hook handed to a caller, under any schedule and any sharing mode, behaves like the cache-free resolution
of the type it was asked for -/
theorem C19_hooks_behave_spec (shared : Bool) (G : Graph) (calls : Nat → List Nat) (sched : List Nat) (i r : Nat)
    (h : Hook) :
    let s := runSched shared G sched (GState.init calls)
    (r, Outcome.ok h) ∈ (s.threads i).results → ∀ k, behave G s.mem k h = spec G k r := by
  intro s hm k
  have inv := runSched_GInv (shared := shared) (G := G) calls sched
  exact behave_eq_spec G s.mem inv.mem k h r ((inv.twt i).results r h hm)

/-- **C19_serialisable** (partial: atomicity granularity).  Take ANY two schedules of the same calls (for instance
an arbitrary interleaving and the sequential execution).  Whenever thread `i` has got its j-th result in both,
the two results answer the same call, both are hooks (no exception), and the two hooks behave identically to
every depth — equality of behaviour, not of hook terms: which references are late-bound and which cells were
found in the memo depends on the schedule. -/
theorem C19_serialisable (G : Graph) (hG : WsCatch G) (calls : Nat → List Nat) (sched₁ sched₂ : List Nat)
    (i j : Nat) (r₁ r₂ : Nat) (o₁ o₂ : Outcome) :
    let s₁ := runSched false G sched₁ (GState.init calls)
    let s₂ := runSched false G sched₂ (GState.init calls)
    (s₁.threads i).results[j]? = some (r₁, o₁) → (s₂.threads i).results[j]? = some (r₂, o₂) →
    r₁ = r₂ ∧ ∃ h₁ h₂, o₁ = .ok h₁ ∧ o₂ = .ok h₂ ∧ ∀ k, behave G s₁.mem k h₁ = behave G s₂.mem k h₂ := by
  intro s₁ s₂ e₁ e₂
  have m₁ := List.mem_of_getElem? e₁
  have m₂ := List.mem_of_getElem? e₂
  have c₁ : (s₁.threads i).results.map (·.1) ++ (s₁.threads i).calls = calls i :=
    (C19_calls_preserved false G calls sched₁ i).1
  have c₂ : (s₂.threads i).results.map (·.1) ++ (s₂.threads i).calls = calls i :=
    (C19_calls_preserved false G calls sched₂ i).1
  have key : ∀ (l : List (Nat × Outcome)) (rest : List Nat) (r : Nat) (o : Outcome),
      l[j]? = some (r, o) → (l.map (·.1) ++ rest)[j]? = some r := by
    intro l rest r o e
    obtain ⟨hlt, _⟩ := List.getElem?_eq_some_iff.1 e
    rw [List.getElem?_append_left (by simpa using hlt)]
    simp [e]
  have hr : r₁ = r₂ := by
    have a₁ := key _ (s₁.threads i).calls _ _ e₁
    have a₂ := key _ (s₂.threads i).calls _ _ e₂
    rw [c₁] at a₁
    rw [c₂, a₁] at a₂
    exact Option.some.inj a₂
  have ok₁ := (C19_no_false_cycle G hG calls sched₁ i).1 r₁ o₁ m₁
  have ok₂ := (C19_no_false_cycle G hG calls sched₂ i).1 r₂ o₂ m₂
  cases o₁ with
  | exc e => cases ok₁
  | ok h₁ =>
    cases o₂ with
    | exc e => cases ok₂
    | ok h₂ =>
      refine ⟨hr, h₁, h₂, rfl, rfl, fun k => ?_⟩
      rw [C19_hooks_behave_spec false G calls sched₁ i r₁ h₁ m₁ k,
          C19_hooks_behave_spec false G calls sched₂ i r₂ h₂ m₂ k, hr]

/-- the sequential execution (`runSeq`: thread 0 to completion, then thread 1, …) is one of the schedules, so the
comparison "any interleaving vs sequential" is an instance of `C19_serialisable` -/
theorem C19_serialisable_seq (G : Graph) (hG : WsCatch G) (calls : Nat → List Nat) (sched : List Nat)
    (fuel : Nat) (ids : List Nat) (i j : Nat) (r₁ r₂ : Nat) (o₁ o₂ : Outcome) :
    let s₁ := runSched false G sched (GState.init calls)
    let s₂ := runSeq false G fuel ids (GState.init calls)
    (s₁.threads i).results[j]? = some (r₁, o₁) → (s₂.threads i).results[j]? = some (r₂, o₂) →
    r₁ = r₂ ∧ ∃ h₁ h₂, o₁ = .ok h₁ ∧ o₂ = .ok h₂ ∧ ∀ k, behave G s₁.mem k h₁ = behave G s₂.mem k h₂ := by
  obtain ⟨sched₂, h₂⟩ := runSeq_is_sched false G fuel ids (GState.init calls)
  intro s₁ s₂
  have := C19_serialisable G hG calls sched sched₂ i j r₁ r₂ o₁ o₂
  simp only [s₂, h₂]
  exact this

/-! ### Non-vacuity: a recursive graph, two threads, a real interleaving -/

/-- `K0 {a: K1, b: list[K0]}`, `K1 {c: Optional[K0]}` for unstructuring: node 0 = K0, 1 = K1 (both use the working
set and catch), 2 = `list[K0]` (registers direct, element hook not through the lru), 3 = `Optional[K0]` (through the lru) -/
def exG : Graph :=
  [⟨true, true, false, [(1, false), (2, false)]⟩, ⟨true, true, false, [(3, false)]⟩,
   ⟨false, false, true, [(0, false)]⟩, ⟨false, false, false, [(0, true)]⟩]

def exCalls : Nat → List Nat
  | 0 => [0, 2]
  | 1 => [1, 0]
  | _ => []

/-- round-robin of two threads, long enough for both to finish -/
def exSched : List Nat := (List.range 140).map (· % 2)

example : WsCatch exG := by
  intro n
  match n with
  | 0 | 1 | 2 | 3 => decide
  | n + 4 => simp [exG, Graph.node]

set_option maxRecDepth 8000 in
/-- both threads finish all calls with hooks, BOTH detected a (real) cycle on the way, both tables got written,
the lru entry of K0 was wiped by the `cache_clear` of the direct registration of `list[K0]` -/
example :
    let s := runSched false exG exSched (GState.init exCalls)
    (s.threads 0).finished = true ∧ (s.threads 1).finished = true ∧
    (s.threads 0).results.map (·.1) = [0, 2] ∧ (s.threads 1).results.map (·.1) = [1, 0] ∧
    (s.threads 0).results.all (·.2.isOk) = true ∧ (s.threads 1).results.all (·.2.isOk) = true ∧
    (0, Ev.enter 0 false) ∈ s.trace ∧ (1, Ev.enter 1 false) ∈ s.trace ∧
    (s.mem.lru 2).isSome = true ∧ (s.mem.lru 0).isNone = true ∧ (s.mem.direct 2).isSome = true := by
  decide

example : spec exG 3 0 = .node 0 [.node 1 [.node 3 [.leaf]], .node 2 [.node 0 [.leaf, .leaf]]] := rfl

/-- an ill-typed cell WOULD be visible: `behave` really distinguishes hooks -/
example : behave exG Mem.init 2 (.mk 0 [.late 2, .late 2]) ≠ spec exG 2 0 := by
  simp [behave, spec, exG, Graph.node, Mem.find, Mem.init]

/-! ### Negative witness: one shared working set -/

/-- a single class `K0 {x: int}`: its factory uses the working set (and catches) -/
def wG : Graph := [⟨true, true, false, []⟩]

def wCalls : Nat → List Nat
  | 0 => [0]
  | 1 => [0]
  | _ => []

/-- **C19_shared_breaks** (negative witness).  With ONE working set shared by all threads there is a schedule in
which thread 1's outermost test-and-add finds the class although thread 1 is not generating anything (its stack is
empty — a FALSE cycle): the `RecursionError` escapes to its caller.  The same calls executed sequentially, and the
same schedule with thread-local working sets, return hooks. -/
theorem C19_shared_breaks :
    WsCatch wG ∧
    (let s := runSched true wG [0, 0, 0, 0, 1, 1, 1, 1, 1] (GState.init wCalls)
     (s.threads 1).results.any (·.2.isRec) = true ∧ (1, Ev.enter 0 false) ∈ s.trace ∧
     ((runSched true wG [0, 0, 0, 0, 1, 1, 1] (GState.init wCalls)).threads 1).stack.isEmpty = true) ∧
    (let s := runSeq true wG 100 [0, 1] (GState.init wCalls)
     (s.threads 0).finished = true ∧ (s.threads 1).finished = true ∧
     (s.threads 0).results.all (·.2.isOk) = true ∧ (s.threads 1).results.all (·.2.isOk) = true) ∧
    (let s := runSched false wG [0, 0, 0, 0, 1, 1, 1, 1, 1, 1, 1] (GState.init wCalls)
     (s.threads 1).finished = true ∧ (s.threads 1).results.all (·.2.isOk) = true) := by
  refine ⟨?_, by decide, by decide, by decide⟩
  intro n
  match n with
  | 0 => decide
  | n + 1 => simp [wG, Graph.node]

/-! ## The working-set swap of `strategies/_subclasses.py` and the attribute slot -/

/-- **C19_swap_frame** (full).  Operations of other threads — steps AND swaps — touch neither thread `j`'s control
state / stack / results nor its working set. -/
theorem C19_swap_frame (G : Graph) (j : Nat) (ops : List SOp) (hs : ∀ op ∈ ops, op.tid ≠ j) (s : GState) :
    (runOps false G ops s).threads j = s.threads j ∧ (runOps false G ops s).ws j = s.ws j := by
  induction ops generalizing s with
  | nil => exact ⟨rfl, rfl⟩
  | cons op ops ih =>
    have := ih (fun x hx => hs x (by simp [hx])) (gop false G s op)
    rw [runOps_cons, this.1, this.2]
    have hop := hs op (by simp)
    cases op with
    | step i =>
      have hi : j ≠ i := fun h => hop h.symm
      exact ⟨gstep_thread_other _ _ _ _ _ hi, gstep_ws_other _ _ _ _ hi⟩
    | swap i P =>
      have hi : j ≠ i := fun h => hop h.symm
      refine ⟨by rw [gop, (gswap_threads false s i P).1], ?_⟩
      simp only [gop, gswap]
      split
      · simp [hi]
      · rfl

/-- **C19_swap_ws** (full).  Under every extended schedule a thread's working set is its OWN unfinished factories
(innermost first) followed by the classes of one of its OWN swaps (or nothing). -/
theorem C19_swap_ws (G : Graph) (calls : Nat → List Nat) (ops : List SOp) (i : Nat) :
    let s := runOps false G ops (GState.init calls)
    ∃ P, s.ws i = wsOf G (s.threads i).stack ++ P ∧ (P = [] ∨ SOp.swap i P ∈ ops) := by
  have := (runOps_XInv calls ops [] _ (XInv_init G calls)).ws i
  simpa using this

/-- **C19_swap_no_false_cycle** (partial: atomicity granularity).  Under every extended schedule: no `KeyError` is in
flight, no `remove` ever failed, and whatever thread `i` does next, its `remove` does not fail and if its test-and-add
finds the class then an unfinished factory of thread `i` ITSELF is generating it or thread `i` ITSELF put it there
by a swap (forced late binding — the purpose of the swap).  Never because of another thread.
(With forced classes a `RecursionError` reaches the caller when the ROOT of a call is forced; `_subclasses.py`
never asks for a forced class.) -/
theorem C19_swap_no_false_cycle (G : Graph) (calls : Nat → List Nat) (ops : List SOp) (i : Nat) :
    let s := runOps false G ops (GState.init calls)
    (s.threads i).ctl ≠ .raise .key ∧ (∀ n, (i, Ev.exit n false) ∉ s.trace) ∧
    ∃ P, (P = [] ∨ SOp.swap i P ∈ ops) ∧ evOKph (s.threads i) P (tstep G (s.threads i) (s.ws i) s.mem).ev := by
  intro s
  have inv := runOps_XInv calls ops [] _ (XInv_init G calls)
  simp only [List.nil_append] at inv
  obtain ⟨P, hP, hP'⟩ := inv.ws i
  exact ⟨inv.nokey i, inv.trace i, P, hP', (tstep_NoKey G _ _ _ P hP (inv.nokey i)).2⟩

/-- **C19_swap_cache_ok** (partial: atomicity granularity; any sharing mode).  `C19_cache_ok` and
`C19_calls_preserved` for extended schedules: swaps cannot make a memo cell ill-typed or lose a call. -/
theorem C19_swap_cache_ok (shared : Bool) (G : Graph) (calls : Nat → List Nat) (ops : List SOp) (n : Nat) (h : Hook) :
    let s := runOps shared G ops (GState.init calls)
    ((s.mem.lru n = some h ∨ s.mem.direct n = some h) → Hook.wt G h n = true ∧ ∀ k, behave G s.mem k h = spec G k n) ∧
    ∀ i, (s.threads i).results.map (·.1) ++ (s.threads i).calls = calls i := by
  intro s
  have inv := runOps_GInv (shared := shared) (G := G) calls ops _ (GInv_init G calls)
  refine ⟨?_, fun i => (inv.sinv i).calls⟩
  intro hm
  have hw : Hook.wt G h n = true := by
    rcases hm with hm | hm
    · exact inv.mem.1 n h hm
    · exact inv.mem.2 n h hm
  exact ⟨hw, fun k => behave_eq_spec G s.mem inv.mem k h n hw⟩

/-- plain schedules are the extended schedules without swaps: everything above specialises to `runSched` -/
theorem C19_ops_extend_sched (shared : Bool) (G : Graph) (sched : List Nat) (s : GState) :
    runOps shared G (sched.map .step) s = runSched shared G sched s :=
  runOps_steps shared G sched s

/-- **C19_slot_unobservable** (full).  The refined machine keeps, per thread, the attribute slot (absent / a set
object), the members of every set object, and for every unfinished working-set factory the set object IT holds; a
factory creates and stores a set when the attribute is absent, removes its class from the object it holds and
deletes the attribute when that object became empty; a swap stores a fresh object.  Under EVERY extended schedule:
(1) forgetting slots and identities gives exactly the state of the abstract machine — every control decision,
memo cell, result and event is the same; (2) `del` never meets an absent attribute (no `AttributeError`);
(3) every unfinished factory of a thread holds THE object its slot holds (nobody works on a stale set), one per
working-set factory on its stack. -/
theorem C19_slot_unobservable (G : Graph) (calls : Nat → List Nat) (ops : List SOp) :
    let r := runOpsR G ops (RState.init calls)
    r.abs = runOps false G ops (GState.init calls) ∧ r.fault = false ∧
    ∀ i, (∀ sid ∈ r.sids i, (r.cells i).slot = some sid) ∧ (r.sids i).length = (wsOf G (r.threads i).stack).length := by
  intro r
  have h := runOpsR_sim (G := G) calls ops [] (RState.init calls) rfl (RInvG_init G calls)
  simp only [List.nil_append] at h
  exact ⟨h.1, h.2.fault, fun i => ⟨(h.2.thr i).held, (h.2.thr i).len⟩⟩

/-! ### Non-vacuity: the first pass of `include_subclasses` on `K0 {a: K1}`, `K1(K0) {b: K0}` -/

/-- node 0 = K0, 1 = K1 (fields of K0 and its own), 2 = the top-level `get_unstructure_hook(K0, cache_result=False)` -/
def swG : Graph := [⟨true, true, false, [(1, false)]⟩, ⟨true, true, false, [(1, false), (0, false)]⟩,
                    ⟨false, false, false, [(0, false)]⟩]

def swOps : List SOp := [.swap 0 [1]] ++ (List.replicate 20 (.step 0)) ++ [.swap 0 []]

/-- K1 is forced: thread 0 finds it although it never started generating it; the call returns a hook; the refined
machine ends with an EMPTY set in the slot (not deleted), no fault; without the swap K1 is generated (entered) -/
example :
    let r := runOpsR swG swOps (RState.init (fun i => if i = 0 then [2] else []))
    (r.threads 0).finished = true ∧ (r.threads 0).results.all (·.2.isOk) = true ∧
    (0, Ev.enter 1 false) ∈ r.trace ∧ (0, Ev.enter 1 true) ∉ r.trace ∧
    slotView r 0 = some [] ∧ r.fault = false ∧
    (0, Ev.enter 1 true) ∈ (runOpsR swG (List.replicate 30 (.step 0)) (RState.init (fun i => if i = 0 then [2] else []))).trace ∧
    slotView (runOpsR swG (List.replicate 30 (.step 0)) (RState.init (fun i => if i = 0 then [2] else []))) 0 = none := by
  decide

/-! ## Replaying observed interleavings (corr:C19:GENSCHED / corr:C19:SWAP) -/

/-- **C19_replay_is_schedule** (full).  What the driver computes for an observed interleaving — on the abstract
machine (`replay`) and on the refined one (`replayR`) — is `runSched` / `runOpsR` of the expanded schedule it returns,
and the forgetful image of the latter is `runOps` of it: all theorems above apply to exactly that state. -/
theorem C19_replay_is_schedule (G : Graph) (fuel : Nat) (calls : Nat → List Nat) :
    (∀ (shared : Bool) (tids : List Nat) (s : GState),
      (replay shared G fuel tids s).1 = runSched shared G (replay shared G fuel tids s).2.2 s) ∧
    (∀ (items : List SOp),
      let r := replayR G fuel items (RState.init calls)
      r.1 = runOpsR G r.2.2 (RState.init calls) ∧ r.1.abs = runOps false G r.2.2 (GState.init calls) ∧
      r.1.fault = false) := by
  refine ⟨fun shared tids s => replay_is_sched shared G fuel tids s, ?_⟩
  intro items r
  have h1 := replayR_is_ops G fuel items (RState.init calls)
  have h2 := C19_slot_unobservable G calls r.2.2
  refine ⟨h1, ?_, ?_⟩
  · rw [h1]; exact h2.1
  · rw [h1]; exact h2.2.1

/-- **C19_silent_steps_local** (full).  A step that `accOf` reports no access for changes neither the memo tables
nor the working set and emits no event: between two observed accesses a thread only moves its own control state,
which no other thread reads (`C19_frame`), so where those steps sit in the replayed schedule is immaterial. -/
theorem C19_silent_steps_local (G : Graph) (th : Thread) (ws : List Nat) (M : Mem) (h : accOf G th ws M = none) :
    (tstep G th ws M).mem = M ∧ (tstep G th ws M).ws = ws ∧ (tstep G th ws M).ev = none :=
  tstep_silent G th ws M h

/-- **C19_silent_steps_commute** (full).  A step without access of thread `i` commutes with ANY step of another thread
`j` (thread-local working sets): two schedules that differ only in where such steps sit between the observed accesses
lead to the same global state — the replay of an observed interleaving is determined by the order of the accesses. -/
theorem C19_silent_steps_commute (G : Graph) (s : GState) (i j : Nat) (hij : i ≠ j)
    (h : accOf G (s.threads i) (s.ws i) s.mem = none) :
    gstep false G (gstep false G s i) j = gstep false G (gstep false G s j) i :=
  gstep_silent_comm G s i j hij h

example : accOf exG ⟨.run, [⟨0, true, [], [(1, false)]⟩], [0], []⟩ [0] Mem.init = none := by decide
example : accOf exG ⟨.disp 0 true, [], [0], []⟩ [] Mem.init = some (.lruRead 0 false) := by decide

/-! ## Progress of the lock-free machine, and what a lock per class would cost -/

/-- **C19_machine_never_waits** (full; any sharing mode).  The generation machine has no waiting step: whenever an
unfinished thread is scheduled it moves (its control state or its stack changes), whatever the other threads did —
there is nothing a thread could wait for, so no schedule can leave unfinished threads without an enabled step.
(Not a termination claim: a thread may move for ever on a graph with a cycle that avoids every working-set factory.) -/
theorem C19_machine_never_waits (shared : Bool) (G : Graph) (s : GState) (i : Nat)
    (hf : (s.threads i).finished = false) :
    ((gstep shared G s i).threads i).ctl ≠ (s.threads i).ctl ∨
    ((gstep shared G s i).threads i).stack.length ≠ (s.threads i).stack.length := by
  rw [gstep_thread_self]
  exact tstep_moves G _ _ _ hf

/-- **C19_lock_free_progress** (full).  In the lock model a thread whose program takes no lock is enabled in every
reachable state until it is finished. -/
theorem C19_lock_free_progress (progs : Nat → List LOp) (sched : List Nat) (i : Nat)
    (hfree : ∀ op ∈ progs i, op.isAcq = false) :
    let s := (LState.init progs).run sched
    s.progs i ≠ [] → s.enabled i = true := by
  intro s hne
  obtain ⟨pre, hp⟩ := LState.run_progs_suffix sched (LState.init progs) i
  have hfree' : ∀ op ∈ s.progs i, op.isAcq = false := by
    intro op hop
    exact hfree op (by rw [show progs i = (LState.init progs).progs i from rfl, hp]; simp [s, hop])
  unfold LState.enabled
  cases hq : s.progs i with
  | nil => exact absurd hq hne
  | cons op rest =>
    cases op with
    | rel l => rfl
    | acq l => have := hfree' (.acq l) (by rw [hq]; simp); cases this

/-- **C19_lock_order_deadlock_witness** (negative witness).  One reentrant lock per class around the generation of its
hook: thread 0 first-uses the cycle K0 ⇄ K1 at K0 (lock 0, then lock 1 for the nested generation), thread 1 at K1
(lock 1, then lock 0).  After ONE step of each, both are unfinished and neither is enabled — under every continuation
the state stays as it is; run one after the other, both finish. -/
theorem C19_lock_order_deadlock_witness :
    let progs : Nat → List LOp := fun i =>
      if i = 0 then [.acq 0, .acq 1, .rel 1, .rel 0] else if i = 1 then [.acq 1, .acq 0, .rel 0, .rel 1] else []
    let s := (LState.init progs).run [0, 1]
    (s.progs 0 ≠ [] ∧ s.progs 1 ≠ [] ∧ s.enabled 0 = false ∧ s.enabled 1 = false) ∧
    (∀ sched : List Nat, ((s.run sched).progs 0 = s.progs 0 ∧ (s.run sched).progs 1 = s.progs 1)) ∧
    (let t := (LState.init progs).run [0, 0, 0, 0, 1, 1, 1, 1]; t.progs 0 = [] ∧ t.progs 1 = []) := by
  intro progs s
  have hs : s.enabled 0 = false ∧ s.enabled 1 = false := by decide
  refine ⟨⟨by decide, by decide, hs.1, hs.2⟩, ?_, by decide⟩
  -- nobody else has anything to do and neither of the two is enabled: every step is the identity
  have hstuck : ∀ i, s.step i = s := by
    intro i
    have : s.enabled i = false := by
      by_cases h0 : i = 0
      · subst h0; exact hs.1
      · by_cases h1 : i = 1
        · subst h1; exact hs.2
        · have hp : s.progs i = [] := by
            have e1 := LState.step_progs_other (LState.init progs) 0 i h0
            have e2 := LState.step_progs_other ((LState.init progs).step 0) 1 i h1
            show (((LState.init progs).step 0).step 1).progs i = []
            rw [e2, e1]
            simp [LState.init, progs, h0, h1]
          simp [LState.enabled, hp]
    simp [LState.step, this]
  intro sched
  have : s.run sched = s := by
    induction sched with
    | nil => rfl
    | cons i is ih => simpa [LState.run, hstuck i] using ih
  rw [this]; exact ⟨rfl, rfl⟩

end CattrsModel
