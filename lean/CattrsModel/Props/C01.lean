import CattrsModel.Lemmas.RoundTrip
import CattrsModel.Lemmas.RoundTripInterp
import CattrsModel.Lemmas.ModesAgree
/-!
# C01 — round trip: structure(unstructure(x, T), T) == x

Property theorems only.  Instances carry their class, sets and dicts their exact elements, so
equality of model objects is "equal and of x's class at every depth".

Scope predicates (all decidable, all satisfied by the generated cases — see the evidence):
* `w.WF`, `w.WFE`   class tables and enums as Python builds them (defaults conform, field names distinct,
                    enum values are distinct non-None leaves — `Optional[Enum]` with a None-valued member is the
                    recorded finding F32, excluded here);
* `Ty.supG td`      the supported constructors of the property statement: no `Any`; set elements and mapping
                    keys with hashable-leaf encodings (anything else is the recorded finding F10);
                    `td` = "TypedDicts allowed", true exactly when the structuring converter is a `Converter`;
* `Ty.supB`          BaseConverter's documented support inside that scope (data *unstructured* by a BaseConverter):
                    additionally no TypedDict, no `Annotated` (no BaseConverter hook pair exists for either), NewType
                    and heterogeneous tuples over primitives only (BaseConverter passes their values through
                    unchanged), `Literal` over leaf values or containing enum members;
* `World.supBOn S`   the same world-level demand (`World.supB`: every field typed and in `Ty.supB`) restricted to a
                    closed set `S` of classes (`C01_roundtrip_interp_on`);
* `Ty.supPair cu cs` = `supG cs.gen` when `cu` is a Converter, `supB` when `cu` is a BaseConverter;
* `Ty.unionsOK w tup`, `World.unionsOK tup`   the two world-dependent scope conditions of a type.  (1) every `Literal[...]`
                    CONTAINING ENUM MEMBERS is in the round-trip scope (`litOK`): its arguments are genuine members / leaf
                    values and each is found again under its own key in `_structure_enum_literal`'s dict
                    `{(a.value if isinstance(a, Enum) else a): a for a in args}` -- the keys are pairwise different under
                    `==` (`Literal[E.A, 1]` with `E.A.value == 1` is outside: `C01_enum_literal_collision_witness`).  Such a
                    literal is unstructured by run-time class (a member becomes its value) and structured back to the
                    member; not admitted as set element / mapping key (`Ty.hashPrim`).  The values of such a literal are
                    exactly its arguments (`litConf`; a plain-value literal admits whatever is `in` its arguments, as the
                    simple-literal hook does).  (2) every class union `Union[K…(, None)]` in the type / in the field types of the
                    class table is in the round-trip scope (`unionOKB`), stated with the predicates of the disambiguator
                    model (C12): distinct attrs/dataclass members; the decision function can be created for the union and for
                    every literal sub-union a member payload can be routed to (`Disambig.deepOk`, the hypothesis of
                    `C12_complete`); every `Literal`-typed attribute of a member is an `__init__` argument (the generated dict
                    hooks do not emit `init=False` attributes, so a literal discriminator among them would be missing);
                    `tup` = the tuple strategy, under which NO union is in scope (the decision function only accepts
                    mappings); a `Literal`-typed attribute of a union member is enum-free (discriminators).  Types without
                    unions and without enum-member literals satisfy it trivially (`noUnion_unionsOK`).  The bridge
                    `World.table : World → Disambig.Table` and the lemma that the dict emitted for a conforming instance
                    of member `k` is a `Disambig.PayloadOf … k` (`payloadOf_unFields`) are in `Conv/Union.lean` and
                    `Lemmas/UnionPayload.lean`; `unionPick_member` applies `C12_complete`;
* `Ty.ntOK w`, `World.ntOK` / `World.ntOKOn S`   (data unstructured by a BaseConverter only) NamedTuples within
                    BaseConverter's support: a BaseConverter has no NamedTuple unstructure hook -- an instance is left as
                    the tuple it is, wherever it is met -- so NamedTuple classes must have fields of primitive types only
                    (as for heterogeneous tuples and NewTypes), and class-typed positions (`.cls`, union members) name
                    attrs classes / dataclasses, not NamedTuple classes (in Python a class is one or the other; the model's
                    class table could say otherwise).  Class tables without NamedTuple classes satisfy both trivially
                    (`World.noNT.ntOK`, `noNT_ntOK`).  Data unstructured by a `Converter` needs neither: `C01_roundtrip`
                    covers NamedTuples with fields of any supported type (`Ty.supG` of `.nt c` is `true`; the fields are
                    covered by `World.supG`), structured back by either converter class;
* `conf w T x`, `x.valid`   x is a value of T (an existing Python object: dict keys duplicate-free); for `T = .nt c`:
                    an instance of exactly that NamedTuple class whose items conform to the field types.

`C01_roundtrip` (Converter-unstructured data) and `C01_roundtrip_interp` (BaseConverter-unstructured data) are the
two halves of the statement; `C01_roundtrip_full` is their union over all four pairs of converter classes and
`C01_roundtrip_cross` the special case of the common support.
-/
namespace CattrsModel

/-- **Round trip, data unstructured by a `Converter`.**  For every class table, type, value,
strategy (dict/tuple), every combination of validation modes, and for the structuring converter being
either a `Converter` or a `BaseConverter` with the same strategy (forbid_extra_keys off):
`structure(unstructure(x, T), T)` returns `x`. -/
theorem C01_roundtrip (w : World) (cu cs : Cfg) (t : Ty) (x : Obj)
    (hgen : cu.gen = true) (hstrat : cs.tupleStrat = cu.tupleStrat) (hforbid : cs.forbid = false)
    (hw : w.WF) (hwe : w.WFE) (hws : w.supG cs.gen) (hs : t.supG cs.gen = true)
    (hwu : w.unionsOK cs.tupleStrat) (hu : t.unionsOK w cs.tupleStrat = true)
    (hc : conf w t x = true) (hv : x.valid = true) :
    convStructure w cs t (convUnstructure w cu t x) = some x := by
  unfold convStructure convUnstructure
  have key := roundtrip w cu.core cs.core (by simpa [Cfg.core] using hgen) (by simpa [Cfg.core] using hstrat)
    (by simpa [Cfg.core] using hforbid) hw hwe (by simpa [Cfg.core] using hws) (by simpa [Cfg.core] using hwu)
    t x (by simpa [Cfg.core] using hs) (by simpa [Cfg.core] using hu) hc hv
  split
  · rw [modes_agree]; exact key
  · exact key

/-- the same on the templates: same converter, any validation mode -/
theorem C01_roundtrip_same (w : World) (cfg : Cfg) (t : Ty) (x : Obj)
    (hgen : cfg.gen = true) (hforbid : cfg.forbid = false)
    (hw : w.WF) (hwe : w.WFE) (hws : w.supG true) (hs : t.supG true = true)
    (hwu : w.unionsOK cfg.tupleStrat) (hu : t.unionsOK w cfg.tupleStrat = true)
    (hc : conf w t x = true) (hv : x.valid = true) :
    convStructure w cfg t (convUnstructure w cfg t x) = some x :=
  C01_roundtrip w cfg cfg t x hgen rfl hforbid hw hwe (by rw [hgen]; exact hws) (by rw [hgen]; exact hs) hwu hu hc hv

/-- **Round trip, data unstructured by a `BaseConverter`.**  A `BaseConverter` unstructures the components of
collections, mappings and optionals by their run-time class, keeps container classes, passes NewType values and
heterogeneous tuples through, and (dict strategy) also emits `init=False` attributes.  For every class table, type
in its support, value, strategy, every combination of validation modes, and for the structuring converter being
either a `BaseConverter` or a `Converter` with the same strategy (forbid_extra_keys off):
`structure(unstructure(x, T), T)` returns `x`. -/
theorem C01_roundtrip_interp (w : World) (cu cs : Cfg) (t : Ty) (x : Obj)
    (hgen : cu.gen = false) (hstrat : cs.tupleStrat = cu.tupleStrat) (hforbid : cs.forbid = false)
    (hw : w.WF) (hwe : w.WFE) (hws : w.supB) (hs : t.supB = true)
    (hwk : w.ntOK) (hk : t.ntOK w = true)
    (hwu : w.unionsOK cs.tupleStrat) (hu : t.unionsOK w cs.tupleStrat = true)
    (hc : conf w t x = true) (hv : x.valid = true) :
    convStructure w cs t (convUnstructure w cu t x) = some x := by
  unfold convStructure convUnstructure
  have key := roundtrip_interp w cu.core cs.core (by simpa [Cfg.core] using hgen) (by simpa [Cfg.core] using hstrat)
    (by simpa [Cfg.core] using hforbid) hw hwe hws hwk (by simpa [Cfg.core] using hwu) t x hs hk (by simpa [Cfg.core] using hu) hc hv
  split
  · rw [modes_agree]; exact key
  · exact key

/-- The same with the support hypothesis demanded only of the classes the type can reach: `S` is any set of
classes that contains those mentioned by `t` and is closed under "mentioned by a field type of a member".  Classes of
the table outside `S` (say, one with an `Annotated` field, which only a `Converter` supports) are unconstrained. -/
theorem C01_roundtrip_interp_on (w : World) (cu cs : Cfg) (t : Ty) (x : Obj) (S : Nat → Prop)
    (hgen : cu.gen = false) (hstrat : cs.tupleStrat = cu.tupleStrat) (hforbid : cs.forbid = false)
    (hw : w.WF) (hwe : w.WFE) (hws : w.supBOn S) (hs : t.supB = true) (hr : ∀ c ∈ t.refs, S c)
    (hwk : w.ntOKOn S) (hk : t.ntOK w = true)
    (hwu : ∀ c, S c → ∀ f ∈ w.fields c, ∀ t, f.ty = some t → t.unionsOK w cs.tupleStrat = true)
    (hu : t.unionsOK w cs.tupleStrat = true)
    (hc : conf w t x = true) (hv : x.valid = true) :
    convStructure w cs t (convUnstructure w cu t x) = some x := by
  unfold convStructure convUnstructure
  have key := roundtrip_interp_on w cu.core cs.core (by simpa [Cfg.core] using hgen) (by simpa [Cfg.core] using hstrat)
    (by simpa [Cfg.core] using hforbid) hw hwe S hws hwk (by simpa [Cfg.core] using hwu) t x hs hk hr (by simpa [Cfg.core] using hu) hc hv
  split
  · rw [modes_agree]; exact key
  · exact key

/-- **Round trip, the whole statement**: any unstructuring converter class, any structuring converter class, same
strategy, any combination of validation modes, each unstructuring class within its documented support. -/
theorem C01_roundtrip_full (w : World) (cu cs : Cfg) (t : Ty) (x : Obj)
    (hstrat : cs.tupleStrat = cu.tupleStrat) (hforbid : cs.forbid = false)
    (hw : w.WF) (hwe : w.WFE) (hws : w.supPair cu cs) (hs : t.supPair cu cs = true)
    (hwk : cu.gen = false → w.ntOK) (hk : cu.gen = false → t.ntOK w = true)
    (hwu : w.unionsOK cs.tupleStrat) (hu : t.unionsOK w cs.tupleStrat = true)
    (hc : conf w t x = true) (hv : x.valid = true) :
    convStructure w cs t (convUnstructure w cu t x) = some x := by
  unfold convStructure convUnstructure
  have key := roundtrip_full w cu.core cs.core (by simpa [Cfg.core] using hstrat)
    (by simpa [Cfg.core] using hforbid) hw hwe hws (by simpa [Cfg.core] using hwk) (by simpa [Cfg.core] using hwu) t x hs
    (by simpa [Cfg.core] using hk) (by simpa [Cfg.core] using hu) hc hv
  split
  · rw [modes_agree]; exact key
  · exact key

/-- **Crossing the two converter classes** inside their common support (`Ty.supB`): data unstructured by either
class is structured back by either class. -/
theorem C01_roundtrip_cross (w : World) (cu cs : Cfg) (t : Ty) (x : Obj)
    (hstrat : cs.tupleStrat = cu.tupleStrat) (hforbid : cs.forbid = false)
    (hw : w.WF) (hwe : w.WFE) (hws : w.supB) (hs : t.supB = true)
    (hwk : w.ntOK) (hk : t.ntOK w = true)
    (hwu : w.unionsOK cs.tupleStrat) (hu : t.unionsOK w cs.tupleStrat = true)
    (hc : conf w t x = true) (hv : x.valid = true) :
    convStructure w cs t (convUnstructure w cu t x) = some x := by
  unfold convStructure convUnstructure
  have key := roundtrip_cross w cu.core cs.core (by simpa [Cfg.core] using hstrat)
    (by simpa [Cfg.core] using hforbid) hw hwe hws hwk (by simpa [Cfg.core] using hwu) t x hs hk (by simpa [Cfg.core] using hu) hc hv
  split
  · rw [modes_agree]; exact key
  · exact key

/-! Non-vacuity: a recursive-looking world (a class holding a list of optional class instances, a
TypedDict, an enum-keyed dict) with a value satisfying every hypothesis. -/
section Examples
def rtWorld : World :=
  { classes :=
      [ { kind := .attrs, frozen := false, fields :=
            [ { name := "a", alias := "a", ty := some .int, dflt := .none, init := true, required := true },
              { name := "t", alias := "t", ty := some (.coll .set (.enum 0)), dflt := .factory (.coll .set []), init := true, required := true } ] },
        { kind := .typeddict, frozen := false, fields :=
            [ { name := "k", alias := "k", ty := some (.coll .list (.opt (.cls 0))), dflt := .none, init := true, required := true } ] } ],
    enums := [[.int 1, .str "x"]] }

def rtValue : Obj :=
  .dict [(.str "k", .coll .list [.none, .inst 0 [("a", .int 3), ("t", .coll .set [.enumM 0 1, .enumM 0 0])]])]

example : conf rtWorld (.td 1) rtValue = true := by
  simp [rtValue, rtWorld, conf, confTD, confL, confF, World.fields, World.members, dlookup, Field.key, Obj.pyEq,
    Obj.num2?, SK.structTo, CK.isSet, MK.target, nodupPy, Obj.memPy, hashableL, hashable, Dflt.value?]
example : rtValue.valid = true := by
  simp [rtValue, Obj.valid, Obj.validKV, Obj.validL, Obj.validF, keysOf, nodupPy, Obj.memPy]
example : (Ty.td 1).supG true = true := by simp [Ty.supG]

/-! Non-vacuity for BaseConverter-unstructured data: `rtWorld` without the TypedDict.  Class 0 has an `init=False`
attribute (emitted by the interpretive dict hook, ignored by structuring), a set of enum members and a NewType
over `int`; class 1 holds a list of optional instances of class 0, an enum-keyed mapping of deques and a
heterogeneous tuple of primitives.  Every hypothesis of `C01_roundtrip_interp` holds, and the conclusion is
instantiated for a `BaseConverter` feeding a `Converter` in detailed mode. -/
def rtWorldB : World :=
  { classes :=
      [ { kind := .attrs, frozen := false, fields :=
            [ { name := "a", alias := "a", ty := some (.wrap .newtype .int), dflt := .none, init := true, required := true },
              { name := "t", alias := "t", ty := some (.coll .set (.enum 0)), dflt := .factory (.coll .set []), init := true, required := true },
              { name := "z", alias := "z", ty := some .int, dflt := .const (.int 7), init := false, required := true } ] },
        { kind := .dataclass, frozen := false, fields :=
            [ { name := "k", alias := "k", ty := some (.coll .list (.opt (.cls 0))), dflt := .none, init := true, required := true },
              { name := "m", alias := "m", ty := some (.map .dict (.enum 0) (.coll .deque .str)), dflt := .none, init := true, required := true },
              { name := "p", alias := "p", ty := some (.tupleHet [.int, .str]), dflt := .none, init := true, required := true } ] } ],
    enums := [[.int 1, .str "x"]] }

def rtValueB : Obj :=
  .inst 1 [("k", .coll .list [.none, .inst 0 [("a", .int 3), ("t", .coll .set [.enumM 0 1, .enumM 0 0]), ("z", .int 7)]]),
           ("m", .dict [(.enumM 0 1, .coll .deque [.str "b"])]),
           ("p", .coll .tuple [.int 1, .str "q"])]

theorem rtWorldB_WF : rtWorldB.WF := by
  constructor
  · intro c f hf d hd
    match c with
    | 0 =>
      simp [rtWorldB, World.fields] at hf
      rcases hf with rfl | rfl | rfl
      · simp [Dflt.value?] at hd
      · simp [Dflt.value?] at hd; subst hd
        simp [fconf, conf, confL, SK.structTo, CK.isSet, MK.target, nodupPy, hashableL]
      · simp [Dflt.value?] at hd; subst hd; simp [fconf, conf]
    | 1 =>
      simp [rtWorldB, World.fields] at hf
      rcases hf with rfl | rfl | rfl <;> simp [Dflt.value?] at hd
    | n + 2 => simp [rtWorldB, World.fields] at hf
  · intro c
    match c with
    | 0 => simp [rtWorldB, World.fields]
    | 1 => simp [rtWorldB, World.fields]
    | n + 2 => simp [rtWorldB, World.fields]

theorem rtWorldB_WFE : rtWorldB.WFE := by
  constructor
  · intro e v hv
    match e with
    | 0 =>
      simp [rtWorldB, World.members] at hv
      rcases hv with rfl | rfl <;> simp [Obj.isLeaf]
    | n + 1 => simp [rtWorldB, World.members] at hv
  · intro e
    match e with
    | 0 => simp [rtWorldB, World.members, nodupPy, Obj.memPy, Obj.pyEq, Obj.num2?]
    | n + 1 => simp [rtWorldB, World.members, nodupPy]

theorem rtWorldB_supB : rtWorldB.supB := by
  intro c f hf
  match c with
  | 0 =>
    simp [rtWorldB, World.fields] at hf
    rcases hf with rfl | rfl | rfl <;> simp [Ty.supB, Ty.isPrimLeaf, Ty.hashPrim, SK.structTo, CK.isSet, MK.target]
  | 1 =>
    simp [rtWorldB, World.fields] at hf
    rcases hf with rfl | rfl | rfl <;> simp [Ty.supB, Ty.isPrimLeaf, Ty.hashPrim, SK.structTo, CK.isSet, MK.target]
  | n + 2 => simp [rtWorldB, World.fields] at hf

theorem rtWorldB_noUnion : rtWorldB.noUnion := by
  intro c f hf t ht
  match c with
  | 0 =>
    simp [rtWorldB, World.fields] at hf
    rcases hf with rfl | rfl | rfl <;> (simp at ht; subst ht; simp [Ty.noUnion])
  | 1 =>
    simp [rtWorldB, World.fields] at hf
    rcases hf with rfl | rfl | rfl <;> (simp at ht; subst ht; simp [Ty.noUnion, Ty.noUnionL])
  | n + 2 => simp [rtWorldB, World.fields] at hf

theorem rtWorldB_noNT : rtWorldB.noNT := by
  intro c
  match c with
  | 0 => rfl
  | 1 => rfl
  | n + 2 => simp [World.isNT, rtWorldB]

theorem rtValueB_conf : conf rtWorldB (.cls 1) rtValueB = true := by
  simp [rtValueB, rtWorldB, conf, confL, confF, confT, confKV, World.fields, World.members, World.frozen, keysOf,
    Obj.pyEq, Obj.num2?, SK.structTo, CK.isSet, MK.target, nodupPy, Obj.memPy, hashableL, hashable, Dflt.value?]

theorem rtValueB_valid : rtValueB.valid = true := by
  simp [rtValueB, Obj.valid, Obj.validKV, Obj.validL, Obj.validF, keysOf, nodupPy, Obj.memPy]

/-- BaseConverter (dict strategy, fast) -> Converter (dict strategy, detailed validation) -/
example : convStructure rtWorldB ⟨true, false, true, false⟩ (.cls 1)
    (convUnstructure rtWorldB ⟨false, false, false, false⟩ (.cls 1) rtValueB) = some rtValueB :=
  C01_roundtrip_interp rtWorldB ⟨false, false, false, false⟩ ⟨true, false, true, false⟩ (.cls 1) rtValueB
    rfl rfl rfl rtWorldB_WF rtWorldB_WFE rtWorldB_supB (by simp [Ty.supB]) rtWorldB_noNT.ntOK (noNT_ntOK rtWorldB_noNT _)
    (rtWorldB_noUnion.unionsOK _) (by simp [Ty.unionsOK]) rtValueB_conf rtValueB_valid

/-- BaseConverter (tuple strategy) -> BaseConverter (tuple strategy, detailed validation), through the full statement -/
example : convStructure rtWorldB ⟨false, true, true, false⟩ (.cls 1)
    (convUnstructure rtWorldB ⟨false, true, false, false⟩ (.cls 1) rtValueB) = some rtValueB :=
  C01_roundtrip_full rtWorldB ⟨false, true, false, false⟩ ⟨false, true, true, false⟩ (.cls 1) rtValueB
    rfl rfl rtWorldB_WF rtWorldB_WFE (by simpa [World.supPair] using rtWorldB_supB) (by simp [Ty.supPair, Ty.supB])
    (fun _ => rtWorldB_noNT.ntOK) (fun _ => noNT_ntOK rtWorldB_noNT _)
    (rtWorldB_noUnion.unionsOK _) (by simp [Ty.unionsOK]) rtValueB_conf rtValueB_valid

/-! Non-vacuity of the `_on` form: the same table plus a class with an `Annotated` field (Converter-only, so
`World.supB` fails for the table as a whole); the value's type reaches classes 0 and 1 only. -/
def rtWorldB' : World :=
  { rtWorldB with classes := rtWorldB.classes ++
      [ { kind := .attrs, frozen := false, fields :=
            [ { name := "n", alias := "n", ty := some (.wrap .annotated .int), dflt := .none, init := true, required := true } ] } ] }

theorem rtWorldB'_WF : rtWorldB'.WF := by
  constructor
  · intro c f hf d hd
    match c with
    | 0 =>
      simp [rtWorldB', rtWorldB, World.fields] at hf
      rcases hf with rfl | rfl | rfl
      · simp [Dflt.value?] at hd
      · simp [Dflt.value?] at hd; subst hd
        simp [fconf, conf, confL, SK.structTo, CK.isSet, MK.target, nodupPy, hashableL]
      · simp [Dflt.value?] at hd; subst hd; simp [fconf, conf]
    | 1 =>
      simp [rtWorldB', rtWorldB, World.fields] at hf
      rcases hf with rfl | rfl | rfl <;> simp [Dflt.value?] at hd
    | 2 =>
      simp [rtWorldB', rtWorldB, World.fields] at hf
      subst hf; simp [Dflt.value?] at hd
    | n + 3 => simp [rtWorldB', rtWorldB, World.fields] at hf
  · intro c
    match c with
    | 0 => simp [rtWorldB', rtWorldB, World.fields]
    | 1 => simp [rtWorldB', rtWorldB, World.fields]
    | 2 => simp [rtWorldB', rtWorldB, World.fields]
    | n + 3 => simp [rtWorldB', rtWorldB, World.fields]

example : ¬ rtWorldB'.supB := by
  intro h
  obtain ⟨t, ht, hs⟩ := h 2 { name := "n", alias := "n", ty := some (.wrap .annotated .int), dflt := .none, init := true, required := true }
    (by simp [rtWorldB', rtWorldB, World.fields])
  simp at ht; subst ht
  simp [Ty.supB, Ty.isPrimLeaf] at hs

theorem rtWorldB'_supBOn : rtWorldB'.supBOn (fun c => c < 2) := by
  constructor
  intro c hc f hf
  match c with
  | 0 =>
    simp [rtWorldB', rtWorldB, World.fields] at hf
    rcases hf with rfl | rfl | rfl <;>
      simp [Ty.supB, Ty.isPrimLeaf, Ty.hashPrim, SK.structTo, CK.isSet, MK.target, Ty.refs]
  | 1 =>
    simp [rtWorldB', rtWorldB, World.fields] at hf
    rcases hf with rfl | rfl | rfl <;>
      simp [Ty.supB, Ty.isPrimLeaf, Ty.hashPrim, SK.structTo, CK.isSet, MK.target, Ty.refs, Ty.refsL]
  | n + 2 => have : n + 2 < 2 := hc; omega

example : convStructure rtWorldB' ⟨false, false, true, false⟩ (.cls 1)
    (convUnstructure rtWorldB' ⟨false, false, false, false⟩ (.cls 1) rtValueB) = some rtValueB :=
  C01_roundtrip_interp_on rtWorldB' ⟨false, false, false, false⟩ ⟨false, false, true, false⟩ (.cls 1) rtValueB (fun c => c < 2)
    rfl rfl rfl rtWorldB'_WF
    ⟨fun e v hv => rtWorldB_WFE.enumLeaf e v hv, fun e => rtWorldB_WFE.enumDistinct e⟩
    rtWorldB'_supBOn (by simp [Ty.supB]) (by simp [Ty.refs])
    (World.noNT.ntOKOn (w := rtWorldB') (by
      intro c
      match c with
      | 0 => rfl
      | 1 => rfl
      | 2 => rfl
      | n + 3 => simp [World.isNT, rtWorldB', rtWorldB]) _)
    (noNT_ntOK (w := rtWorldB') (by
      intro c
      match c with
      | 0 => rfl
      | 1 => rfl
      | 2 => rfl
      | n + 3 => simp [World.isNT, rtWorldB', rtWorldB]) _)
    (by
      intro c hc f hf t ht
      have hc2 : c < 2 := hc
      have : rtWorldB'.fields c = rtWorldB.fields c := by
        match c with
        | 0 => rfl
        | 1 => rfl
        | n + 2 => omega
      rw [this] at hf
      exact noUnion_unionsOK _ _ t (rtWorldB_noUnion c f hf t ht))
    (by simp [Ty.unionsOK])
    (by simp [rtValueB, rtWorldB', rtWorldB, conf, confL, confF, confT, confKV, World.fields, World.members, World.frozen,
          keysOf, Obj.pyEq, Obj.num2?, SK.structTo, CK.isSet, MK.target, nodupPy, Obj.memPy, hashableL, hashable, Dflt.value?])
    rtValueB_valid

/-! Non-vacuity for class unions: class 0 (attrs, `a: int`) and class 1 (dataclass, `b: str`, `s: int = 0`) are told
apart by their unique required attributes; class 2 holds a `list[Union[K0, K1, None]]` and a `Union[K0, K1]`.
Every hypothesis holds (the union hypotheses `unionsOK` are decided by evaluating the disambiguator model), and the
conclusion is instantiated for a `Converter` feeding a `BaseConverter` in detailed mode. -/
def rtWorldU : World :=
  { classes :=
      [ { kind := .attrs, frozen := false, fields :=
            [ { name := "a", alias := "a", ty := some .int, dflt := .none, init := true, required := true } ] },
        { kind := .dataclass, frozen := false, fields :=
            [ { name := "b", alias := "b", ty := some .str, dflt := .none, init := true, required := true },
              { name := "s", alias := "s", ty := some .int, dflt := .const (.int 0), init := true, required := true } ] },
        { kind := .attrs, frozen := false, fields :=
            [ { name := "us", alias := "us", ty := some (.coll .list (.union [0, 1] true)), dflt := .none, init := true, required := true },
              { name := "u", alias := "u", ty := some (.union [0, 1] false), dflt := .none, init := true, required := true } ] } ],
    enums := [] }

def rtValueU : Obj :=
  .inst 2 [("us", .coll .list [.inst 0 [("a", .int 1)], .none, .inst 1 [("b", .str "q"), ("s", .int 0)]]),
           ("u", .inst 1 [("b", .str "z"), ("s", .int 5)])]

theorem rtWorldU_WF : rtWorldU.WF := by
  constructor
  · intro c f hf d hd
    match c with
    | 0 => simp [rtWorldU, World.fields] at hf; subst hf; simp [Dflt.value?] at hd
    | 1 =>
      simp [rtWorldU, World.fields] at hf
      rcases hf with rfl | rfl
      · simp [Dflt.value?] at hd
      · simp [Dflt.value?] at hd; subst hd; simp [fconf, conf]
    | 2 =>
      simp [rtWorldU, World.fields] at hf
      rcases hf with rfl | rfl <;> simp [Dflt.value?] at hd
    | n + 3 => simp [rtWorldU, World.fields] at hf
  · intro c
    match c with
    | 0 => simp [rtWorldU, World.fields]
    | 1 => simp [rtWorldU, World.fields]
    | 2 => simp [rtWorldU, World.fields]
    | n + 3 => simp [rtWorldU, World.fields]

theorem rtWorldU_WFE : rtWorldU.WFE := by
  constructor
  · intro e v hv; simp [rtWorldU, World.members] at hv
  · intro e; simp [rtWorldU, World.members, nodupPy]

theorem rtWorldU_unionOK : unionOKB rtWorldU [0, 1] = true := by decide

theorem rtWorldU_supG : rtWorldU.supG false := by
  intro c f hf
  match c with
  | 0 => simp [rtWorldU, World.fields] at hf; subst hf; simp [Ty.supG]
  | 1 => simp [rtWorldU, World.fields] at hf; rcases hf with rfl | rfl <;> simp [Ty.supG]
  | 2 => simp [rtWorldU, World.fields] at hf; rcases hf with rfl | rfl <;> simp [Ty.supG, SK.structTo, CK.isSet, MK.target]
  | n + 3 => simp [rtWorldU, World.fields] at hf

theorem rtWorldU_unionsOK : rtWorldU.unionsOK false := by
  intro c f hf t ht
  match c with
  | 0 => simp [rtWorldU, World.fields] at hf; subst hf; simp at ht; subst ht; simp [Ty.unionsOK]
  | 1 =>
    simp [rtWorldU, World.fields] at hf
    rcases hf with rfl | rfl <;> (simp at ht; subst ht; simp [Ty.unionsOK])
  | 2 =>
    simp [rtWorldU, World.fields] at hf
    rcases hf with rfl | rfl <;> (simp at ht; subst ht; simp [Ty.unionsOK, rtWorldU_unionOK])
  | n + 3 => simp [rtWorldU, World.fields] at hf

theorem rtWorldU_noNT : rtWorldU.noNT := by
  intro c
  match c with
  | 0 => rfl
  | 1 => rfl
  | 2 => rfl
  | n + 3 => simp [World.isNT, rtWorldU]

theorem rtValueU_conf : conf rtWorldU (.cls 2) rtValueU = true := by
  simp [rtValueU, rtWorldU, conf, confL, confF, World.fields, SK.structTo, CK.isSet, MK.target, Dflt.value?]

theorem rtValueU_valid : rtValueU.valid = true := by
  simp [rtValueU, Obj.valid, Obj.validL, Obj.validF]

/-- Converter (dict strategy, fast) -> BaseConverter (dict strategy, detailed validation), through unions -/
example : convStructure rtWorldU ⟨false, false, true, false⟩ (.cls 2)
    (convUnstructure rtWorldU ⟨true, false, false, false⟩ (.cls 2) rtValueU) = some rtValueU :=
  C01_roundtrip rtWorldU ⟨true, false, false, false⟩ ⟨false, false, true, false⟩ (.cls 2) rtValueU
    rfl rfl rfl rtWorldU_WF rtWorldU_WFE rtWorldU_supG (by simp [Ty.supG]) rtWorldU_unionsOK (by simp [Ty.unionsOK])
    rtValueU_conf rtValueU_valid

/-- the union itself as the top-level type, data unstructured by a `BaseConverter` -/
example : convStructure rtWorldU ⟨true, false, false, false⟩ (.union [0, 1] true)
    (convUnstructure rtWorldU ⟨false, false, false, false⟩ (.union [0, 1] true) (.inst 1 [("b", .str "z"), ("s", .int 5)]))
    = some (.inst 1 [("b", .str "z"), ("s", .int 5)]) :=
  C01_roundtrip_full rtWorldU ⟨false, false, false, false⟩ ⟨true, false, false, false⟩ (.union [0, 1] true) _
    rfl rfl rtWorldU_WF rtWorldU_WFE
    (by
      simp only [World.supPair, Bool.false_eq_true, if_false]
      intro c f hf
      match c with
      | 0 => simp [rtWorldU, World.fields] at hf; subst hf; simp [Ty.supB]
      | 1 => simp [rtWorldU, World.fields] at hf; rcases hf with rfl | rfl <;> simp [Ty.supB]
      | 2 => simp [rtWorldU, World.fields] at hf; rcases hf with rfl | rfl <;> simp [Ty.supB, SK.structTo, CK.isSet, MK.target]
      | n + 3 => simp [rtWorldU, World.fields] at hf)
    (by simp [Ty.supPair, Ty.supB]) (fun _ => rtWorldU_noNT.ntOK) (fun _ => noNT_ntOK rtWorldU_noNT _)
    rtWorldU_unionsOK (by simp [Ty.unionsOK, rtWorldU_unionOK])
    (by simp [rtWorldU, conf, confF, World.fields, Dflt.value?])
    (by simp [Obj.valid, Obj.validF])
/-! Non-vacuity for NamedTuples.  `rtWorldN`: class 0 (attrs, `a: int`), class 1 = `class P(NamedTuple): k: K0; e: E0 = E0.M0`
(fields that need conversion: the `Converter` builds a tuple `({'a': 3}, 1)`), class 2 holds a `list[P]`.
Data unstructured by a `Converter` is structured back by a `BaseConverter` in detailed mode. -/
def rtWorldN : World :=
  { classes :=
      [ { kind := .attrs, frozen := false, fields :=
            [ { name := "a", alias := "a", ty := some .int, dflt := .none, init := true, required := true } ] },
        { kind := .namedtuple, frozen := true, fields :=
            [ { name := "k", alias := "k", ty := some (.cls 0), dflt := .none, init := true, required := true },
              { name := "e", alias := "e", ty := some (.enum 0), dflt := .const (.enumM 0 0), init := true, required := true } ] },
        { kind := .dataclass, frozen := false, fields :=
            [ { name := "ps", alias := "ps", ty := some (.coll .list (.nt 1)), dflt := .none, init := true, required := true } ] } ],
    enums := [[.int 1, .str "x"]] }

def rtValueN : Obj :=
  .inst 2 [("ps", .coll .list [.inst 1 [("k", .inst 0 [("a", .int 3)]), ("e", .enumM 0 1)]])]

theorem rtWorldN_WF : rtWorldN.WF := by
  constructor
  · intro c f hf d hd
    match c with
    | 0 => simp [rtWorldN, World.fields] at hf; subst hf; simp [Dflt.value?] at hd
    | 1 =>
      simp [rtWorldN, World.fields] at hf
      rcases hf with rfl | rfl
      · simp [Dflt.value?] at hd
      · simp [Dflt.value?] at hd; subst hd; simp [fconf, conf, rtWorldN, World.members]
    | 2 => simp [rtWorldN, World.fields] at hf; subst hf; simp [Dflt.value?] at hd
    | n + 3 => simp [rtWorldN, World.fields] at hf
  · intro c
    match c with
    | 0 => simp [rtWorldN, World.fields]
    | 1 => simp [rtWorldN, World.fields]
    | 2 => simp [rtWorldN, World.fields]
    | n + 3 => simp [rtWorldN, World.fields]

theorem rtWorldN_WFE : rtWorldN.WFE := by
  constructor
  · intro e v hv
    match e with
    | 0 =>
      simp [rtWorldN, World.members] at hv
      rcases hv with rfl | rfl <;> simp [Obj.isLeaf]
    | n + 1 => simp [rtWorldN, World.members] at hv
  · intro e
    match e with
    | 0 => simp [rtWorldN, World.members, nodupPy, Obj.memPy, Obj.pyEq, Obj.num2?]
    | n + 1 => simp [rtWorldN, World.members, nodupPy]

theorem rtWorldN_supG : rtWorldN.supG false := by
  intro c f hf
  match c with
  | 0 => simp [rtWorldN, World.fields] at hf; subst hf; simp [Ty.supG]
  | 1 => simp [rtWorldN, World.fields] at hf; rcases hf with rfl | rfl <;> simp [Ty.supG]
  | 2 => simp [rtWorldN, World.fields] at hf; subst hf; simp [Ty.supG, SK.structTo, CK.isSet, MK.target]
  | n + 3 => simp [rtWorldN, World.fields] at hf

theorem rtWorldN_noUnion : rtWorldN.noUnion := by
  intro c f hf t ht
  match c with
  | 0 => simp [rtWorldN, World.fields] at hf; subst hf; simp at ht; subst ht; simp [Ty.noUnion]
  | 1 => simp [rtWorldN, World.fields] at hf; rcases hf with rfl | rfl <;> (simp at ht; subst ht; simp [Ty.noUnion])
  | 2 => simp [rtWorldN, World.fields] at hf; subst hf; simp at ht; subst ht; simp [Ty.noUnion]
  | n + 3 => simp [rtWorldN, World.fields] at hf

theorem rtValueN_conf : conf rtWorldN (.cls 2) rtValueN = true := by
  simp [rtValueN, rtWorldN, conf, confL, confF, confT, World.fields, World.members, World.isNT, World.ntTys, World.ntNames,
    Field.tyA, vals, SK.structTo, CK.isSet, MK.target, Dflt.value?]

theorem rtValueN_valid : rtValueN.valid = true := by
  simp [rtValueN, Obj.valid, Obj.validL, Obj.validF]

/-- what the `Converter` emits for the NamedTuple instance: the tuple of its unstructured items -/
example : convUnstructure rtWorldN ⟨true, false, false, false⟩ (.nt 1)
    (.inst 1 [("k", .inst 0 [("a", .int 3)]), ("e", .enumM 0 1)])
    = .coll .tuple [.dict [(.str "a", .int 3)], .str "x"] := by
  simp [convUnstructure, Cfg.core, un, unT, unFields, emits, rtWorldN, World.fields, World.ntTys, Field.tyA, vals,
    Field.key, enumValue, World.members]

/-- Converter (dict strategy, fast) -> BaseConverter (dict strategy, detailed validation), through a NamedTuple -/
example : convStructure rtWorldN ⟨false, false, true, false⟩ (.cls 2)
    (convUnstructure rtWorldN ⟨true, false, false, false⟩ (.cls 2) rtValueN) = some rtValueN :=
  C01_roundtrip rtWorldN ⟨true, false, false, false⟩ ⟨false, false, true, false⟩ (.cls 2) rtValueN
    rfl rfl rfl rtWorldN_WF rtWorldN_WFE rtWorldN_supG (by simp [Ty.supG]) (rtWorldN_noUnion.unionsOK _)
    (by simp [Ty.unionsOK]) rtValueN_conf rtValueN_valid

/-! The same for data unstructured by a `BaseConverter` (which leaves a NamedTuple as the tuple it is): class 0 =
`class Q(NamedTuple): x: int; y: str = "d"` (primitive fields, `World.ntOK`), class 1 holds a `Q` and a `list[Q]`. -/
def rtWorldNB : World :=
  { classes :=
      [ { kind := .namedtuple, frozen := true, fields :=
            [ { name := "x", alias := "x", ty := some .int, dflt := .none, init := true, required := true },
              { name := "y", alias := "y", ty := some .str, dflt := .const (.str "d"), init := true, required := true } ] },
        { kind := .dataclass, frozen := false, fields :=
            [ { name := "p", alias := "p", ty := some (.nt 0), dflt := .none, init := true, required := true },
              { name := "ps", alias := "ps", ty := some (.coll .list (.nt 0)), dflt := .none, init := true, required := true } ] } ],
    enums := [] }

def rtValueNB : Obj :=
  .inst 1 [("p", .inst 0 [("x", .int 1), ("y", .str "q")]),
           ("ps", .coll .list [.inst 0 [("x", .int 2), ("y", .str "d")]])]

theorem rtWorldNB_WF : rtWorldNB.WF := by
  constructor
  · intro c f hf d hd
    match c with
    | 0 =>
      simp [rtWorldNB, World.fields] at hf
      rcases hf with rfl | rfl
      · simp [Dflt.value?] at hd
      · simp [Dflt.value?] at hd; subst hd; simp [fconf, conf]
    | 1 =>
      simp [rtWorldNB, World.fields] at hf
      rcases hf with rfl | rfl <;> simp [Dflt.value?] at hd
    | n + 2 => simp [rtWorldNB, World.fields] at hf
  · intro c
    match c with
    | 0 => simp [rtWorldNB, World.fields]
    | 1 => simp [rtWorldNB, World.fields]
    | n + 2 => simp [rtWorldNB, World.fields]

theorem rtWorldNB_WFE : rtWorldNB.WFE := by
  constructor
  · intro e v hv; simp [rtWorldNB, World.members] at hv
  · intro e; simp [rtWorldNB, World.members, nodupPy]

theorem rtWorldNB_supB : rtWorldNB.supB := by
  intro c f hf
  match c with
  | 0 => simp [rtWorldNB, World.fields] at hf; rcases hf with rfl | rfl <;> simp [Ty.supB]
  | 1 => simp [rtWorldNB, World.fields] at hf; rcases hf with rfl | rfl <;> simp [Ty.supB, SK.structTo, CK.isSet, MK.target]
  | n + 2 => simp [rtWorldNB, World.fields] at hf

theorem rtWorldNB_ntOK : rtWorldNB.ntOK := by
  constructor
  · intro c _ f hf t ht
    match c with
    | 0 => simp [rtWorldNB, World.fields] at hf; rcases hf with rfl | rfl <;> (simp at ht; subst ht; simp [Ty.ntOK])
    | 1 => simp [rtWorldNB, World.fields] at hf; rcases hf with rfl | rfl <;> (simp at ht; subst ht; simp [Ty.ntOK])
    | n + 2 => simp [rtWorldNB, World.fields] at hf
  · intro c _ hnt f hf
    match c with
    | 0 => simp [rtWorldNB, World.fields] at hf; rcases hf with rfl | rfl <;> simp [Ty.isPrimLeaf]
    | 1 => simp [rtWorldNB, World.isNT] at hnt
    | n + 2 => simp [rtWorldNB, World.fields] at hf

theorem rtWorldNB_noUnion : rtWorldNB.noUnion := by
  intro c f hf t ht
  match c with
  | 0 => simp [rtWorldNB, World.fields] at hf; rcases hf with rfl | rfl <;> (simp at ht; subst ht; simp [Ty.noUnion])
  | 1 => simp [rtWorldNB, World.fields] at hf; rcases hf with rfl | rfl <;> (simp at ht; subst ht; simp [Ty.noUnion])
  | n + 2 => simp [rtWorldNB, World.fields] at hf

theorem rtValueNB_conf : conf rtWorldNB (.cls 1) rtValueNB = true := by
  simp [rtValueNB, rtWorldNB, conf, confL, confF, confT, World.fields, World.isNT, World.ntTys, World.ntNames,
    Field.tyA, vals, SK.structTo, CK.isSet, MK.target, Dflt.value?]

theorem rtValueNB_valid : rtValueNB.valid = true := by
  simp [rtValueNB, Obj.valid, Obj.validL, Obj.validF]

/-- BaseConverter (tuple strategy, fast) -> Converter (tuple strategy, detailed validation), through NamedTuples -/
example : convStructure rtWorldNB ⟨true, true, true, false⟩ (.cls 1)
    (convUnstructure rtWorldNB ⟨false, true, false, false⟩ (.cls 1) rtValueNB) = some rtValueNB :=
  C01_roundtrip_interp rtWorldNB ⟨false, true, false, false⟩ ⟨true, true, true, false⟩ (.cls 1) rtValueNB
    rfl rfl rfl rtWorldNB_WF rtWorldNB_WFE rtWorldNB_supB (by simp [Ty.supB]) rtWorldNB_ntOK (by simp [Ty.ntOK, rtWorldNB, World.isNT])
    (rtWorldNB_noUnion.unionsOK _) (by simp [Ty.unionsOK]) rtValueNB_conf rtValueNB_valid
/-! Non-vacuity for MAPPING TARGET CLASSES: `OrderedDict[str, Counter[str]]` and a `defaultdict[int, list[int]]`; the value
is an `OrderedDict` of `Counter`s; a `Converter` unstructures it to plain dicts and structures it back into the very
classes (`Obj.mdict` carries the class: equality of model objects is "equal and of x's class at every depth"); for a
`BaseConverter` as the structuring side the types are outside `Ty.supG false`. -/
def mtWorld : World := { classes := [], enums := [] }
def mtTy : Ty := .map .ordered .str (.map .counter .str .int)
def mtVal : Obj := .mdict .ordered [(.str "a", .mdict .counter [(.str "x", .int 2), (.str "y", .int 0)]), (.str "b", .mdict .counter [])]

theorem mtWorld_WF : mtWorld.WF := by
  constructor
  · intro c f hf; simp [mtWorld, World.fields] at hf
  · intro c; simp [mtWorld, World.fields]
theorem mtWorld_WFE : mtWorld.WFE := by
  constructor
  · intro e v hv; simp [mtWorld, World.members] at hv
  · intro e; simp [mtWorld, World.members, nodupPy]

example : convStructure mtWorld ⟨true, false, false, false⟩ mtTy (convUnstructure mtWorld ⟨true, false, true, false⟩ mtTy mtVal)
    = some mtVal :=
  C01_roundtrip mtWorld _ _ mtTy mtVal rfl rfl rfl mtWorld_WF mtWorld_WFE
    (by intro c f hf; simp [mtWorld, World.fields] at hf)
    (by simp [mtTy, Ty.supG, Ty.hashPrim, MK.target])
    (by intro c f hf; simp [mtWorld, World.fields] at hf)
    (by simp [mtTy, Ty.unionsOK])
    (by simp [mtTy, mtVal, conf, confKV, keysOf, nodupPy, Obj.memPy, Obj.pyEq, Obj.num2?, hashableL, hashable, MK.target])
    (by simp [mtVal, Obj.valid, Obj.validKV, keysOf, nodupPy, Obj.memPy, Obj.pyEq, Obj.num2?])
example : convUnstructure mtWorld ⟨true, false, true, false⟩ mtTy mtVal
    = .dict [(.str "a", .dict [(.str "x", .int 2), (.str "y", .int 0)]), (.str "b", .dict [])] := by
  simp [convUnstructure, mtTy, mtVal, un, unKV, mkDict, dictSet, Cfg.core, Obj.pyEq, Obj.num2?]
example : (Ty.map .defaultdict .int (.coll .list .int)).supG true = true ∧ mtTy.supG false = false := by
  simp [mtTy, Ty.supG, Ty.hashPrim, MK.target, SK.structTo, CK.isSet]

end Examples


/-! ### `Literal[...]` containing enum members (non-vacuity + the collision witness)

`rtWorldB` has the enum `E0 = [1, "x"]`.  `Literal[E0.M1, 1]` (keys `"x"`, `1`) is in scope: a list of its two values
round-trips through every pair of converter classes; unstructuring gives `["x", 1]`. -/

def litTy : Ty := .coll .list (.lit [.enumM 0 1, .int 1])
def litVal : Obj := .coll .list [.enumM 0 1, .int 1, .enumM 0 1]

theorem litTy_unionsOK (tup : Bool) : litTy.unionsOK rtWorldB tup = true := by
  simp [litTy, Ty.unionsOK, litOK, litHasEnum, Obj.isEnumM, litArgOK, litLookup, litKey, enumValue, rtWorldB,
    World.members, Obj.pyEq, Obj.num2?, Obj.isLeaf]

theorem litVal_conf : conf rtWorldB litTy litVal = true := by
  simp [litTy, litVal, conf, confL, litConf, litHasEnum, Obj.isEnumM, SK.structTo, CK.isSet, MK.target]

example : convUnstructure rtWorldB ⟨true, false, true, false⟩ litTy litVal = .coll .list [.str "x", .int 1, .str "x"] := by
  simp [convUnstructure, litTy, litVal, un, unL, unAny, litHasEnum, Obj.isEnumM, mkColl, SK.unstructTo, enumValue,
    rtWorldB, World.members, Cfg.core, CK.isSet]

/-- Converter -> BaseConverter -/
example : convStructure rtWorldB ⟨false, false, true, false⟩ litTy
    (convUnstructure rtWorldB ⟨true, false, false, false⟩ litTy litVal) = some litVal :=
  C01_roundtrip rtWorldB ⟨true, false, false, false⟩ ⟨false, false, true, false⟩ litTy litVal
    rfl rfl rfl rtWorldB_WF rtWorldB_WFE (World.supB_supG rtWorldB_supB false) (by simp [litTy, Ty.supG, SK.structTo, CK.isSet, MK.target])
    (rtWorldB_noUnion.unionsOK _) (litTy_unionsOK _) litVal_conf (by simp [litVal, Obj.valid, Obj.validL])

/-- BaseConverter -> Converter -/
example : convStructure rtWorldB ⟨true, false, true, false⟩ litTy
    (convUnstructure rtWorldB ⟨false, false, false, false⟩ litTy litVal) = some litVal :=
  C01_roundtrip_interp rtWorldB ⟨false, false, false, false⟩ ⟨true, false, true, false⟩ litTy litVal
    rfl rfl rfl rtWorldB_WF rtWorldB_WFE rtWorldB_supB
    (by simp [litTy, Ty.supB, litHasEnum, Obj.isEnumM, SK.structTo, CK.isSet, MK.target])
    rtWorldB_noNT.ntOK (noNT_ntOK rtWorldB_noNT _)
    (rtWorldB_noUnion.unionsOK _) (litTy_unionsOK _) litVal_conf (by simp [litVal, Obj.valid, Obj.validL])

/-- **Witness: the scope condition `litOK` cannot be dropped.**  `Literal[E0.M0, 1]` with `E0.M0.value == 1`: both
arguments have the key `1`, the later one wins in `_structure_enum_literal`'s dict, so the member comes back as the plain
`1` (replayed on the implementation by the check). -/
theorem C01_enum_literal_collision_witness :
    convStructure rtWorldB ⟨true, false, true, false⟩ (.lit [.enumM 0 0, .int 1])
      (convUnstructure rtWorldB ⟨true, false, true, false⟩ (.lit [.enumM 0 0, .int 1]) (.enumM 0 0)) = some (.int 1)
    ∧ conf rtWorldB (.lit [.enumM 0 0, .int 1]) (.enumM 0 0) = true
    ∧ Ty.unionsOK rtWorldB false (.lit [.enumM 0 0, .int 1]) = false := by
  refine ⟨?_, ?_, ?_⟩
  · simp [convStructure, convUnstructure, un, unAny, stD, litStruct, litLookup, litKey, litHasEnum, Obj.isEnumM,
      enumValue, rtWorldB, World.members, Cfg.core, Obj.pyEq, Obj.num2?, Res.toOption]
  · simp [conf, litConf, litHasEnum, Obj.isEnumM]
  · simp [Ty.unionsOK, litOK, litHasEnum, Obj.isEnumM, litArgOK, litLookup, litKey, enumValue, rtWorldB,
      World.members, Obj.pyEq, Obj.num2?, Obj.isLeaf]

end CattrsModel
