import CattrsModel.Lemmas.RoundTrip
import CattrsModel.Lemmas.ModesAgree
/-!
# C01 — round trip: structure(unstructure(x, T), T) == x

Property theorems only.  Instances carry their class, sets and dicts their exact elements, so
equality of model objects is "equal and of x's class at every depth".

Scope predicates (all decidable, all satisfied by the generated cases — see the evidence):
* `w.WF`, `w.WFE`   class tables and enums as Python builds them (defaults conform, field names distinct,
                    enum values are distinct non-None leaves — `Optional[Enum]` with a None-valued member is the
                    recorded finding F32, excluded here);
* `Ty.supG td`      the supported constructors of the property statement: no `Any`; set elements and mapping
                    keys with hashable-leaf encodings (anything else is the recorded finding F10);
                    `td` = "TypedDicts allowed", true exactly when the structuring converter is a `Converter`;
* `conf w T x`, `x.valid`   x is a value of T (an existing Python object: dict keys duplicate-free).
-/
namespace CattrsModel

/-- **Round trip, data unstructured by a `Converter`.**  For every class table, type, value,
strategy (dict/tuple), every combination of validation modes, and for the structuring converter being
either a `Converter` or a `BaseConverter` with the same strategy (forbid_extra_keys off):
`structure(unstructure(x, T), T)` returns `x`. -/
theorem C01_roundtrip (w : World) (cu cs : Cfg) (t : Ty) (x : Obj)
    (hgen : cu.gen = true) (hstrat : cs.tupleStrat = cu.tupleStrat) (hforbid : cs.forbid = false)
    (hw : w.WF) (hwe : w.WFE) (hws : w.supG cs.gen) (hs : t.supG cs.gen = true)
    (hc : conf w t x = true) (hv : x.valid = true) :
    convStructure w cs t (convUnstructure w cu t x) = some x := by
  unfold convStructure convUnstructure
  have key := roundtrip w cu.core cs.core (by simpa [Cfg.core] using hgen) (by simpa [Cfg.core] using hstrat)
    (by simpa [Cfg.core] using hforbid) hw hwe (by simpa [Cfg.core] using hws) t x (by simpa [Cfg.core] using hs) hc hv
  split
  · rw [modes_agree]; exact key
  · exact key

/-- the same on the templates: same converter, any validation mode -/
theorem C01_roundtrip_same (w : World) (cfg : Cfg) (t : Ty) (x : Obj)
    (hgen : cfg.gen = true) (hforbid : cfg.forbid = false)
    (hw : w.WF) (hwe : w.WFE) (hws : w.supG true) (hs : t.supG true = true)
    (hc : conf w t x = true) (hv : x.valid = true) :
    convStructure w cfg t (convUnstructure w cfg t x) = some x :=
  C01_roundtrip w cfg cfg t x hgen rfl hforbid hw hwe (by rw [hgen]; exact hws) (by rw [hgen]; exact hs) hc hv

/-! Non-vacuity: a recursive-looking world (a class holding a list of optional class instances, a
TypedDict, an enum-keyed dict) with a value satisfying every hypothesis. -/
section Examples
def rtWorld : World :=
  { classes :=
      [ { kind := .attrs, frozen := false, fields :=
            [ { name := "a", alias := "a", ty := some .int, dflt := .none, init := true, required := true },
              { name := "t", alias := "t", ty := some (.coll .set (.enum 0)), dflt := .factory (.coll .set []), init := true, required := true } ] },
        { kind := .typeddict, frozen := false, fields :=
            [ { name := "k", alias := "k", ty := some (.coll .list (.opt (.cls 0))), dflt := .none, init := true, required := true } ] } ],
    enums := [[.int 1, .str "x"]] }

def rtValue : Obj :=
  .dict [(.str "k", .coll .list [.none, .inst 0 [("a", .int 3), ("t", .coll .set [.enumM 0 1, .enumM 0 0])]])]

example : conf rtWorld (.td 1) rtValue = true := by
  simp [rtValue, rtWorld, conf, confTD, confL, confF, World.fields, World.members, dlookup, Field.key, Obj.pyEq,
    Obj.num2?, SK.structTo, CK.isSet, nodupPy, Obj.memPy, hashableL, hashable, Dflt.value?]
example : rtValue.valid = true := by
  simp [rtValue, Obj.valid, Obj.validKV, Obj.validL, Obj.validF, keysOf, nodupPy, Obj.memPy]
example : (Ty.td 1).supG true = true := by simp [Ty.supG]
end Examples

end CattrsModel
