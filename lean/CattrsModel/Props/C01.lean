import CattrsModel.Lemmas.RoundTrip
import CattrsModel.Lemmas.RoundTripInterp
import CattrsModel.Lemmas.ModesAgree
/-!
# C01 — round trip: structure(unstructure(x, T), T) == x

Property theorems only.  Instances carry their class, sets and dicts their exact elements, so
equality of model objects is "equal and of x's class at every depth".

Scope predicates (all decidable, all satisfied by the generated cases — see the evidence):
* `w.WF`, `w.WFE`   class tables and enums as Python builds them (defaults conform, field names distinct,
                    enum values are distinct non-None leaves — `Optional[Enum]` with a None-valued member is the
                    recorded finding F32, excluded here);
* `Ty.supG td`      the supported constructors of the property statement: no `Any`; set elements and mapping
                    keys with hashable-leaf encodings (anything else is the recorded finding F10);
                    `td` = "TypedDicts allowed", true exactly when the structuring converter is a `Converter`;
* `Ty.supB`          BaseConverter's documented support inside that scope (data *unstructured* by a BaseConverter):
                    additionally no TypedDict, no `Annotated` (no BaseConverter hook pair exists for either), NewType
                    and heterogeneous tuples over primitives only (BaseConverter passes their values through
                    unchanged), `Literal` over leaf values (the model's `Literal` does not cover enum members);
* `World.supBOn S`   the same world-level demand (`World.supB`: every field typed and in `Ty.supB`) restricted to a
                    closed set `S` of classes (`C01_roundtrip_interp_on`);
* `Ty.supPair cu cs` = `supG cs.gen` when `cu` is a Converter, `supB` when `cu` is a BaseConverter;
* `conf w T x`, `x.valid`   x is a value of T (an existing Python object: dict keys duplicate-free).

`C01_roundtrip` (Converter-unstructured data) and `C01_roundtrip_interp` (BaseConverter-unstructured data) are the
two halves of the statement; `C01_roundtrip_full` is their union over all four pairs of converter classes and
`C01_roundtrip_cross` the special case of the common support.
-/
namespace CattrsModel

/-- **Round trip, data unstructured by a `Converter`.**  For every class table, type, value,
strategy (dict/tuple), every combination of validation modes, and for the structuring converter being
either a `Converter` or a `BaseConverter` with the same strategy (forbid_extra_keys off):
`structure(unstructure(x, T), T)` returns `x`. -/
theorem C01_roundtrip (w : World) (cu cs : Cfg) (t : Ty) (x : Obj)
    (hgen : cu.gen = true) (hstrat : cs.tupleStrat = cu.tupleStrat) (hforbid : cs.forbid = false)
    (hw : w.WF) (hwe : w.WFE) (hws : w.supG cs.gen) (hs : t.supG cs.gen = true)
    (hc : conf w t x = true) (hv : x.valid = true) :
    convStructure w cs t (convUnstructure w cu t x) = some x := by
  unfold convStructure convUnstructure
  have key := roundtrip w cu.core cs.core (by simpa [Cfg.core] using hgen) (by simpa [Cfg.core] using hstrat)
    (by simpa [Cfg.core] using hforbid) hw hwe (by simpa [Cfg.core] using hws) t x (by simpa [Cfg.core] using hs) hc hv
  split
  · rw [modes_agree]; exact key
  · exact key

/-- the same on the templates: same converter, any validation mode -/
theorem C01_roundtrip_same (w : World) (cfg : Cfg) (t : Ty) (x : Obj)
    (hgen : cfg.gen = true) (hforbid : cfg.forbid = false)
    (hw : w.WF) (hwe : w.WFE) (hws : w.supG true) (hs : t.supG true = true)
    (hc : conf w t x = true) (hv : x.valid = true) :
    convStructure w cfg t (convUnstructure w cfg t x) = some x :=
  C01_roundtrip w cfg cfg t x hgen rfl hforbid hw hwe (by rw [hgen]; exact hws) (by rw [hgen]; exact hs) hc hv

/-- **Round trip, data unstructured by a `BaseConverter`.**  A `BaseConverter` unstructures the components of
collections, mappings and optionals by their run-time class, keeps container classes, passes NewType values and
heterogeneous tuples through, and (dict strategy) also emits `init=False` attributes.  For every class table, type
in its support, value, strategy, every combination of validation modes, and for the structuring converter being
either a `BaseConverter` or a `Converter` with the same strategy (forbid_extra_keys off):
`structure(unstructure(x, T), T)` returns `x`. -/
theorem C01_roundtrip_interp (w : World) (cu cs : Cfg) (t : Ty) (x : Obj)
    (hgen : cu.gen = false) (hstrat : cs.tupleStrat = cu.tupleStrat) (hforbid : cs.forbid = false)
    (hw : w.WF) (hwe : w.WFE) (hws : w.supB) (hs : t.supB = true)
    (hc : conf w t x = true) (hv : x.valid = true) :
    convStructure w cs t (convUnstructure w cu t x) = some x := by
  unfold convStructure convUnstructure
  have key := roundtrip_interp w cu.core cs.core (by simpa [Cfg.core] using hgen) (by simpa [Cfg.core] using hstrat)
    (by simpa [Cfg.core] using hforbid) hw hwe hws t x hs hc hv
  split
  · rw [modes_agree]; exact key
  · exact key

/-- The same with the support hypothesis demanded only of the classes the type can reach: `S` is any set of
classes that contains those mentioned by `t` and is closed under "mentioned by a field type of a member".  Classes of
the table outside `S` (say, one with an `Annotated` field, which only a `Converter` supports) are unconstrained. -/
theorem C01_roundtrip_interp_on (w : World) (cu cs : Cfg) (t : Ty) (x : Obj) (S : Nat → Prop)
    (hgen : cu.gen = false) (hstrat : cs.tupleStrat = cu.tupleStrat) (hforbid : cs.forbid = false)
    (hw : w.WF) (hwe : w.WFE) (hws : w.supBOn S) (hs : t.supB = true) (hr : ∀ c ∈ t.refs, S c)
    (hc : conf w t x = true) (hv : x.valid = true) :
    convStructure w cs t (convUnstructure w cu t x) = some x := by
  unfold convStructure convUnstructure
  have key := roundtrip_interp_on w cu.core cs.core (by simpa [Cfg.core] using hgen) (by simpa [Cfg.core] using hstrat)
    (by simpa [Cfg.core] using hforbid) hw hwe S hws t x hs hr hc hv
  split
  · rw [modes_agree]; exact key
  · exact key

/-- **Round trip, the whole statement**: any unstructuring converter class, any structuring converter class, same
strategy, any combination of validation modes, each unstructuring class within its documented support. -/
theorem C01_roundtrip_full (w : World) (cu cs : Cfg) (t : Ty) (x : Obj)
    (hstrat : cs.tupleStrat = cu.tupleStrat) (hforbid : cs.forbid = false)
    (hw : w.WF) (hwe : w.WFE) (hws : w.supPair cu cs) (hs : t.supPair cu cs = true)
    (hc : conf w t x = true) (hv : x.valid = true) :
    convStructure w cs t (convUnstructure w cu t x) = some x := by
  unfold convStructure convUnstructure
  have key := roundtrip_full w cu.core cs.core (by simpa [Cfg.core] using hstrat)
    (by simpa [Cfg.core] using hforbid) hw hwe hws t x hs hc hv
  split
  · rw [modes_agree]; exact key
  · exact key

/-- **Crossing the two converter classes** inside their common support (`Ty.supB`): data unstructured by either
class is structured back by either class. -/
theorem C01_roundtrip_cross (w : World) (cu cs : Cfg) (t : Ty) (x : Obj)
    (hstrat : cs.tupleStrat = cu.tupleStrat) (hforbid : cs.forbid = false)
    (hw : w.WF) (hwe : w.WFE) (hws : w.supB) (hs : t.supB = true)
    (hc : conf w t x = true) (hv : x.valid = true) :
    convStructure w cs t (convUnstructure w cu t x) = some x := by
  unfold convStructure convUnstructure
  have key := roundtrip_cross w cu.core cs.core (by simpa [Cfg.core] using hstrat)
    (by simpa [Cfg.core] using hforbid) hw hwe hws t x hs hc hv
  split
  · rw [modes_agree]; exact key
  · exact key

/-! Non-vacuity: a recursive-looking world (a class holding a list of optional class instances, a
TypedDict, an enum-keyed dict) with a value satisfying every hypothesis. -/
section Examples
def rtWorld : World :=
  { classes :=
      [ { kind := .attrs, frozen := false, fields :=
            [ { name := "a", alias := "a", ty := some .int, dflt := .none, init := true, required := true },
              { name := "t", alias := "t", ty := some (.coll .set (.enum 0)), dflt := .factory (.coll .set []), init := true, required := true } ] },
        { kind := .typeddict, frozen := false, fields :=
            [ { name := "k", alias := "k", ty := some (.coll .list (.opt (.cls 0))), dflt := .none, init := true, required := true } ] } ],
    enums := [[.int 1, .str "x"]] }

def rtValue : Obj :=
  .dict [(.str "k", .coll .list [.none, .inst 0 [("a", .int 3), ("t", .coll .set [.enumM 0 1, .enumM 0 0])]])]

example : conf rtWorld (.td 1) rtValue = true := by
  simp [rtValue, rtWorld, conf, confTD, confL, confF, World.fields, World.members, dlookup, Field.key, Obj.pyEq,
    Obj.num2?, SK.structTo, CK.isSet, nodupPy, Obj.memPy, hashableL, hashable, Dflt.value?]
example : rtValue.valid = true := by
  simp [rtValue, Obj.valid, Obj.validKV, Obj.validL, Obj.validF, keysOf, nodupPy, Obj.memPy]
example : (Ty.td 1).supG true = true := by simp [Ty.supG]

/-! Non-vacuity for BaseConverter-unstructured data: `rtWorld` without the TypedDict.  Class 0 has an `init=False`
attribute (emitted by the interpretive dict hook, ignored by structuring), a set of enum members and a NewType
over `int`; class 1 holds a list of optional instances of class 0, an enum-keyed mapping of deques and a
heterogeneous tuple of primitives.  Every hypothesis of `C01_roundtrip_interp` holds, and the conclusion is
instantiated for a `BaseConverter` feeding a `Converter` in detailed mode. -/
def rtWorldB : World :=
  { classes :=
      [ { kind := .attrs, frozen := false, fields :=
            [ { name := "a", alias := "a", ty := some (.wrap .newtype .int), dflt := .none, init := true, required := true },
              { name := "t", alias := "t", ty := some (.coll .set (.enum 0)), dflt := .factory (.coll .set []), init := true, required := true },
              { name := "z", alias := "z", ty := some .int, dflt := .const (.int 7), init := false, required := true } ] },
        { kind := .dataclass, frozen := false, fields :=
            [ { name := "k", alias := "k", ty := some (.coll .list (.opt (.cls 0))), dflt := .none, init := true, required := true },
              { name := "m", alias := "m", ty := some (.map .dict (.enum 0) (.coll .deque .str)), dflt := .none, init := true, required := true },
              { name := "p", alias := "p", ty := some (.tupleHet [.int, .str]), dflt := .none, init := true, required := true } ] } ],
    enums := [[.int 1, .str "x"]] }

def rtValueB : Obj :=
  .inst 1 [("k", .coll .list [.none, .inst 0 [("a", .int 3), ("t", .coll .set [.enumM 0 1, .enumM 0 0]), ("z", .int 7)]]),
           ("m", .dict [(.enumM 0 1, .coll .deque [.str "b"])]),
           ("p", .coll .tuple [.int 1, .str "q"])]

theorem rtWorldB_WF : rtWorldB.WF := by
  constructor
  · intro c f hf d hd
    match c with
    | 0 =>
      simp [rtWorldB, World.fields] at hf
      rcases hf with rfl | rfl | rfl
      · simp [Dflt.value?] at hd
      · simp [Dflt.value?] at hd; subst hd
        simp [fconf, conf, confL, SK.structTo, CK.isSet, nodupPy, hashableL]
      · simp [Dflt.value?] at hd; subst hd; simp [fconf, conf]
    | 1 =>
      simp [rtWorldB, World.fields] at hf
      rcases hf with rfl | rfl | rfl <;> simp [Dflt.value?] at hd
    | n + 2 => simp [rtWorldB, World.fields] at hf
  · intro c
    match c with
    | 0 => simp [rtWorldB, World.fields]
    | 1 => simp [rtWorldB, World.fields]
    | n + 2 => simp [rtWorldB, World.fields]

theorem rtWorldB_WFE : rtWorldB.WFE := by
  constructor
  · intro e v hv
    match e with
    | 0 =>
      simp [rtWorldB, World.members] at hv
      rcases hv with rfl | rfl <;> simp [Obj.isLeaf]
    | n + 1 => simp [rtWorldB, World.members] at hv
  · intro e
    match e with
    | 0 => simp [rtWorldB, World.members, nodupPy, Obj.memPy, Obj.pyEq, Obj.num2?]
    | n + 1 => simp [rtWorldB, World.members, nodupPy]

theorem rtWorldB_supB : rtWorldB.supB := by
  intro c f hf
  match c with
  | 0 =>
    simp [rtWorldB, World.fields] at hf
    rcases hf with rfl | rfl | rfl <;> simp [Ty.supB, Ty.isPrimLeaf, Ty.hashPrim, SK.structTo, CK.isSet]
  | 1 =>
    simp [rtWorldB, World.fields] at hf
    rcases hf with rfl | rfl | rfl <;> simp [Ty.supB, Ty.isPrimLeaf, Ty.hashPrim, SK.structTo, CK.isSet]
  | n + 2 => simp [rtWorldB, World.fields] at hf

theorem rtValueB_conf : conf rtWorldB (.cls 1) rtValueB = true := by
  simp [rtValueB, rtWorldB, conf, confL, confF, confT, confKV, World.fields, World.members, World.frozen, keysOf,
    Obj.pyEq, Obj.num2?, SK.structTo, CK.isSet, nodupPy, Obj.memPy, hashableL, hashable, Dflt.value?]

theorem rtValueB_valid : rtValueB.valid = true := by
  simp [rtValueB, Obj.valid, Obj.validKV, Obj.validL, Obj.validF, keysOf, nodupPy, Obj.memPy]

/-- BaseConverter (dict strategy, fast) -> Converter (dict strategy, detailed validation) -/
example : convStructure rtWorldB ⟨true, false, true, false⟩ (.cls 1)
    (convUnstructure rtWorldB ⟨false, false, false, false⟩ (.cls 1) rtValueB) = some rtValueB :=
  C01_roundtrip_interp rtWorldB ⟨false, false, false, false⟩ ⟨true, false, true, false⟩ (.cls 1) rtValueB
    rfl rfl rfl rtWorldB_WF rtWorldB_WFE rtWorldB_supB (by simp [Ty.supB]) rtValueB_conf rtValueB_valid

/-- BaseConverter (tuple strategy) -> BaseConverter (tuple strategy, detailed validation), through the full statement -/
example : convStructure rtWorldB ⟨false, true, true, false⟩ (.cls 1)
    (convUnstructure rtWorldB ⟨false, true, false, false⟩ (.cls 1) rtValueB) = some rtValueB :=
  C01_roundtrip_full rtWorldB ⟨false, true, false, false⟩ ⟨false, true, true, false⟩ (.cls 1) rtValueB
    rfl rfl rtWorldB_WF rtWorldB_WFE (by simpa [World.supPair] using rtWorldB_supB) (by simp [Ty.supPair, Ty.supB])
    rtValueB_conf rtValueB_valid

/-! Non-vacuity of the `_on` form: the same table plus a class with an `Annotated` field (Converter-only, so
`World.supB` fails for the table as a whole); the value's type reaches classes 0 and 1 only. -/
def rtWorldB' : World :=
  { rtWorldB with classes := rtWorldB.classes ++
      [ { kind := .attrs, frozen := false, fields :=
            [ { name := "n", alias := "n", ty := some (.wrap .annotated .int), dflt := .none, init := true, required := true } ] } ] }

theorem rtWorldB'_WF : rtWorldB'.WF := by
  constructor
  · intro c f hf d hd
    match c with
    | 0 =>
      simp [rtWorldB', rtWorldB, World.fields] at hf
      rcases hf with rfl | rfl | rfl
      · simp [Dflt.value?] at hd
      · simp [Dflt.value?] at hd; subst hd
        simp [fconf, conf, confL, SK.structTo, CK.isSet, nodupPy, hashableL]
      · simp [Dflt.value?] at hd; subst hd; simp [fconf, conf]
    | 1 =>
      simp [rtWorldB', rtWorldB, World.fields] at hf
      rcases hf with rfl | rfl | rfl <;> simp [Dflt.value?] at hd
    | 2 =>
      simp [rtWorldB', rtWorldB, World.fields] at hf
      subst hf; simp [Dflt.value?] at hd
    | n + 3 => simp [rtWorldB', rtWorldB, World.fields] at hf
  · intro c
    match c with
    | 0 => simp [rtWorldB', rtWorldB, World.fields]
    | 1 => simp [rtWorldB', rtWorldB, World.fields]
    | 2 => simp [rtWorldB', rtWorldB, World.fields]
    | n + 3 => simp [rtWorldB', rtWorldB, World.fields]

example : ¬ rtWorldB'.supB := by
  intro h
  obtain ⟨t, ht, hs⟩ := h 2 { name := "n", alias := "n", ty := some (.wrap .annotated .int), dflt := .none, init := true, required := true }
    (by simp [rtWorldB', rtWorldB, World.fields])
  simp at ht; subst ht
  simp [Ty.supB, Ty.isPrimLeaf] at hs

theorem rtWorldB'_supBOn : rtWorldB'.supBOn (fun c => c < 2) := by
  constructor
  intro c hc f hf
  match c with
  | 0 =>
    simp [rtWorldB', rtWorldB, World.fields] at hf
    rcases hf with rfl | rfl | rfl <;>
      simp [Ty.supB, Ty.isPrimLeaf, Ty.hashPrim, SK.structTo, CK.isSet, Ty.refs]
  | 1 =>
    simp [rtWorldB', rtWorldB, World.fields] at hf
    rcases hf with rfl | rfl | rfl <;>
      simp [Ty.supB, Ty.isPrimLeaf, Ty.hashPrim, SK.structTo, CK.isSet, Ty.refs, Ty.refsL]
  | n + 2 => have : n + 2 < 2 := hc; omega

example : convStructure rtWorldB' ⟨false, false, true, false⟩ (.cls 1)
    (convUnstructure rtWorldB' ⟨false, false, false, false⟩ (.cls 1) rtValueB) = some rtValueB :=
  C01_roundtrip_interp_on rtWorldB' ⟨false, false, false, false⟩ ⟨false, false, true, false⟩ (.cls 1) rtValueB (fun c => c < 2)
    rfl rfl rfl rtWorldB'_WF
    ⟨fun e v hv => rtWorldB_WFE.enumLeaf e v hv, fun e => rtWorldB_WFE.enumDistinct e⟩
    rtWorldB'_supBOn (by simp [Ty.supB]) (by simp [Ty.refs])
    (by simp [rtValueB, rtWorldB', rtWorldB, conf, confL, confF, confT, confKV, World.fields, World.members, World.frozen,
          keysOf, Obj.pyEq, Obj.num2?, SK.structTo, CK.isSet, nodupPy, Obj.memPy, hashableL, hashable, Dflt.value?])
    rtValueB_valid
end Examples

end CattrsModel
