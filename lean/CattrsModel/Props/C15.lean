import CattrsModel.Passthrough.Lemmas
/-!
# C15 — union passthrough validates by exact class or literal value, order-independent

Model: `CattrsModel/Passthrough/Model.lean` — `make_structure_native_union` / `contains_native_union` of
`configure_union_passthrough` line by line, as repaired by "union passthrough matches literals by class and value
together" (`passthrough`), and the formula before that repair (`passthroughOld`).

Everything is for **every** configured set `P.S`, **every** subclass relation `P.sub` (nothing is assumed about
`issubclass`), **every** union `U` (any number of members: classes, NewTypes, other type objects, `Literal[…]` with any
values) and **every** value (class `cl`, `v` deciding `==`).  The look-alikes are first-class: `Obj.pyEq` identifies
`0/False/0.0` and `1/True/1.0`, and a value of class `MyInt` or an `IntEnum` carries an `Obj.int`.

`Accepted`, `LitMatch`, `Member.remaining`, `specPassthrough` (in the model file, section "the statement of C15") are
written from the property text; the hook computes the same thing with augmented class sets.
-/
namespace CattrsModel
open Passthrough

/-- **C15_spec.**  The hook returned by `make_structure_native_union(U)` computes exactly the statement: `v` itself
when its class is accepted or it matches a literal of its own class, else hand-over to the remaining members (those
whose class is not configured, literals excluded) when there are any, else rejection. -/
theorem C15_spec (P : PS) (U : List Member) (cl : Nat) (v : Obj) :
    passthrough P U cl v = specPassthrough P U cl v :=
  passthrough_eq_spec P U cl v

/-- The boolean tests inside `specPassthrough` mean what the property text says. -/
theorem C15_spec_meaning (P : PS) (U : List Member) (cl : Nat) (v : Obj) :
    (acceptedB P U cl = true ↔ Accepted P U cl) ∧ (litMatchB U cl v = true ↔ LitMatch U cl v) ∧
    (∀ m, Member.remaining P m = true ↔ ∃ b, m.base = some b ∧ b ∉ P.S) := by
  refine ⟨acceptedB_iff, litMatchB_iff, ?_⟩
  intro m
  unfold Member.remaining
  cases m.base with
  | none => simp
  | some b => simp

/-- **C15_same_iff.**  `structure(v, U)` returns `v` itself, uncoerced, **exactly** when `v`'s class is an accepted
member of `U` (a configured subclass of a member counts, NewTypes by base) or `v` equals a literal of `U` of the same
class.  In particular `True` is not accepted for `Literal[1]`, nor `1.0`, nor `MyInt(1)`. -/
theorem C15_same_iff (P : PS) (U : List Member) (cl : Nat) (v : Obj) :
    passthrough P U cl v = .same ↔ (Accepted P U cl ∨ LitMatch U cl v) := by
  rw [C15_spec]; exact spec_same_iff P U cl v

/-- Otherwise: handed to the remaining members if there are any (and to exactly those), rejected if not. -/
theorem C15_otherwise (P : PS) (U : List Member) (cl : Nat) (v : Obj)
    (h : ¬ (Accepted P U cl ∨ LitMatch U cl v)) :
    (U.filter (Member.remaining P) = [] → passthrough P U cl v = .reject) ∧
    (U.filter (Member.remaining P) ≠ [] → passthrough P U cl v = .spill (U.filter (Member.remaining P))) := by
  rw [C15_spec]
  unfold specPassthrough
  have hb : (acceptedB P U cl || litMatchB U cl v) = false := by
    rw [← Bool.not_eq_true, Bool.or_eq_true, acceptedB_iff, litMatchB_iff]; exact h
  rw [hb]
  simp only [Bool.false_eq_true, if_false]
  cases List.filter (Member.remaining P) U <;> simp

/-- **C15_order.**  The result depends only on the *set* of members of `U` (hence on no ordering of them, and not on
duplicates): same verdict, and in the hand-over case the same set of remaining members. -/
theorem C15_order (P : PS) (U U' : List Member) (h : ∀ m, m ∈ U ↔ m ∈ U') (cl : Nat) (v : Obj) :
    Out.equiv (passthrough P U cl v) (passthrough P U' cl v) := by
  rw [C15_spec, C15_spec]
  unfold specPassthrough
  rw [spec_cond_congr h cl v]
  cases acceptedB P U' cl || litMatchB U' cl v
  · simp only [Bool.false_eq_true, if_false]
    have hf : ∀ m, m ∈ U.filter (Member.remaining P) ↔ m ∈ U'.filter (Member.remaining P) := by
      intro m; simp only [List.mem_filter, h m]
    cases h1 : U.filter (Member.remaining P) with
    | nil =>
      cases h2 : U'.filter (Member.remaining P) with
      | nil => trivial
      | cons b bs => rw [h1, h2] at hf; have := (hf b).mpr List.mem_cons_self; cases this
    | cons a as =>
      cases h2 : U'.filter (Member.remaining P) with
      | nil => rw [h1, h2] at hf; have := (hf a).mp List.mem_cons_self; cases this
      | cons b bs => simp only [Out.equiv]; rw [← h1, ← h2]; exact hf
  · trivial

/-- **C15_order_perm.**  For every permutation of the members: same verdict, and the hand-over members are permuted
accordingly (the hand-over type is a `Union`, so that is the same type). -/
theorem C15_order_perm (P : PS) (U U' : List Member) (h : U.Perm U') (cl : Nat) (v : Obj) :
    Out.permEquiv (passthrough P U cl v) (passthrough P U' cl v) := by
  rw [C15_spec, C15_spec]
  unfold specPassthrough
  rw [spec_cond_congr (fun m => h.mem_iff) cl v]
  cases acceptedB P U' cl || litMatchB U' cl v
  · simp only [Bool.false_eq_true, if_false]
    have hp : (U.filter (Member.remaining P)).Perm (U'.filter (Member.remaining P)) := h.filter _
    cases h1 : U.filter (Member.remaining P) with
    | nil =>
      cases h2 : U'.filter (Member.remaining P) with
      | nil => trivial
      | cons b bs => rw [h1, h2] at hp; exact absurd hp.length_eq (by simp)
    | cons a as =>
      cases h2 : U'.filter (Member.remaining P) with
      | nil => rw [h1, h2] at hp; exact absurd hp.length_eq (by simp)
      | cons b bs => simp only [Out.permEquiv]; rw [← h1, ← h2]; exact hp
  · trivial

/-- **C15_order_S.**  Nor does the result depend on the order (or multiplicity) in which the configured classes were
given: equal results for configured sets with the same elements. -/
theorem C15_order_S (P : PS) (S' : List Nat) (h : ∀ c, c ∈ P.S ↔ c ∈ S') (U : List Member) (cl : Nat) (v : Obj) :
    passthrough { P with S := S' } U cl v = passthrough P U cl v := by
  have hc : ∀ c, S'.contains c = P.S.contains c := by
    intro c; rw [Bool.eq_iff_iff, contains_iff, contains_iff, h c]
  rw [C15_spec, C15_spec]
  unfold specPassthrough acceptedB Member.remaining
  simp only [hc]

/-- **C15_applicable.**  The hook factory applies to a union exactly when the union is not a plain `Optional[X]` and
mentions something the strategy was configured for. -/
theorem C15_applicable (P : PS) (U : List Member) :
    applicable P U = true ↔ (¬ IsOptional U ∧ Touches P U) := by
  have hopt : (U.length == 2 && U.any Member.isNoneType) = true
      ↔ IsOptional U := by
    unfold IsOptional
    simp only [Bool.and_eq_true, beq_iff_eq, List.any_eq_true]
    constructor
    · rintro ⟨h1, m, hm, h2⟩
      refine ⟨h1, ?_⟩
      cases m with
      | cls c => simp only [Member.isNoneType, beq_iff_eq] at h2; subst h2; exact hm
      | newtype b => cases h2
      | lit vs => cases h2
    · rintro ⟨h1, h2⟩
      exact ⟨h1, _, h2, by simp [Member.isNoneType]⟩
  have htouch : (literalClasses U ++ U.filterMap Member.base).any (fun t => P.S.contains t) = true ↔ Touches P U := by
    unfold Touches literalClasses
    simp only [List.any_eq_true, List.mem_append, List.mem_map, List.mem_filterMap, contains_iff]
    constructor
    · rintro ⟨t, (⟨p, hp, rfl⟩ | ⟨m, hm, hb⟩), hS⟩
      · obtain ⟨vs, hvs, hpv⟩ := mem_literalValues.mp hp
        exact ⟨.lit vs, hvs, Or.inr ⟨p, by simpa [Member.litVals] using hpv, hS⟩⟩
      · exact ⟨m, hm, Or.inl ⟨t, hb, hS⟩⟩
    · rintro ⟨m, hm, (⟨b, hb, hS⟩ | ⟨p, hp, hS⟩)⟩
      · exact ⟨b, Or.inr ⟨m, hm, hb⟩, hS⟩
      · cases m with
        | lit vs =>
          exact ⟨p.1, Or.inl ⟨p, mem_literalValues.mpr ⟨vs, hm, by simpa [Member.litVals] using hp⟩, rfl⟩, hS⟩
        | cls c => simp [Member.litVals] at hp
        | newtype b => simp [Member.litVals] at hp
  unfold applicable
  by_cases ho : (U.length == 2 && U.any Member.isNoneType) = true
  · rw [if_pos ho]
    simp only [Bool.false_eq_true, false_iff, not_and]
    intro hn; exact absurd (hopt.mp ho) hn
  · rw [if_neg ho, htouch]
    constructor
    · intro ht; exact ⟨fun hopt' => ho (hopt.mpr hopt'), ht⟩
    · exact fun h => h.2

/-- plain optionals are left to the default hook, whatever `X` is -/
theorem C15_applicable_optional (P : PS) (x : Member) :
    applicable P [x, .cls noneType] = false ∧ applicable P [.cls noneType, x] = false := by
  constructor
  · cases h : applicable P [x, .cls noneType]
    · rfl
    · exact absurd ⟨rfl, by simp⟩ ((C15_applicable P _).mp h).1
  · cases h : applicable P [.cls noneType, x]
    · rfl
    · exact absurd ⟨rfl, by simp⟩ ((C15_applicable P _).mp h).1

/-- **C15_spill_not_reentrant.**  The hand-over type contains nothing the strategy handles — no literal, no member
whose class is configured — so the factory does not apply to it: `converter.structure(val, spillover)` goes to the
other hooks and cannot come back into this one. -/
theorem C15_spill_not_reentrant (P : PS) (U : List Member) :
    (∀ m ∈ spillover P U, m.isLit = false ∧ ∃ b, m.base = some b ∧ b ∉ P.S) ∧
    ¬ Touches P (spillover P U) ∧ applicable P (spillover P U) = false := by
  have h1 : ∀ m ∈ spillover P U, m.isLit = false ∧ ∃ b, m.base = some b ∧ b ∉ P.S := by
    intro m hm
    rw [spillover_eq] at hm
    obtain ⟨_, hr⟩ := List.mem_filter.mp hm
    unfold Member.remaining at hr
    cases m with
    | lit vs => simp [Member.base] at hr
    | cls c => exact ⟨rfl, c, rfl, by simpa [Member.base] using hr⟩
    | newtype b => exact ⟨rfl, b, rfl, by simpa [Member.base] using hr⟩
  have h2 : ¬ Touches P (spillover P U) := by
    rintro ⟨m, hm, (⟨b, hb, hS⟩ | ⟨p, hp, _⟩)⟩
    · obtain ⟨_, b', hb', hS'⟩ := h1 m hm
      rw [hb] at hb'; cases hb'; exact hS' hS
    · obtain ⟨hl, _⟩ := h1 m hm
      cases m with
      | lit vs => cases hl
      | cls c => simp [Member.litVals] at hp
      | newtype b => simp [Member.litVals] at hp
  refine ⟨h1, h2, ?_⟩
  cases h : applicable P (spillover P U)
  · rfl
  · exact absurd ((C15_applicable P _).mp h).2 h2

/-! ## the formula before the repair -/

/-- **C15_old_collapse_harmless.**  Before the repair `literal_values` was a set of bare values, in which `{0, False}`
collapses to `{0}`.  That collapse by itself never changes a membership test — so the defect was not the collapse
(the source comment blamed it) but testing class and value *independently*. -/
theorem C15_old_collapse_harmless (v : Obj) (vs : List Obj) : Obj.memPy v (valueSet vs) = Obj.memPy v vs :=
  memPy_mkSet v vs

section Examples

/-- `cattrs.preconf.json`: S = {str 4, bool 1, int 2, float 3, NoneType 0}; `bool` is a subclass of `int` -/
def c15ExP : PS := { S := [4, 1, 2, 3, 0], sub := fun a c => a == c || (a == 1 && c == 2) }

/-- `Literal[0, True] | str` -/
def c15ExU : List Member := [.lit [(2, .int 0), (1, .bool true)], .cls 4]

/-- **C15_old_formula_witness** (negative witness, F23).  With the pre-repair formula `False` — class `bool` is a
literal class, and `False == 0` — is passed through `Literal[0, True] | str` although the statement rejects it; the
repaired hook rejects it. -/
theorem C15_old_formula_witness :
    passthroughOld c15ExP c15ExU 1 (.bool false) = .same ∧
    specPassthrough c15ExP c15ExU 1 (.bool false) = .reject ∧
    ¬ (Accepted c15ExP c15ExU 1 ∨ LitMatch c15ExU 1 (.bool false)) ∧
    passthrough c15ExP c15ExU 1 (.bool false) = .reject := by
  have hs : specPassthrough c15ExP c15ExU 1 (.bool false) = .reject := by decide
  refine ⟨by decide, hs, ?_, by decide⟩
  rw [← spec_same_iff, hs]; simp

/-- non-vacuity of `C15_same_iff`, both directions: `True` matches `Literal[0, True]`, `"x"` is accepted by class -/
example : passthrough c15ExP c15ExU 1 (.bool true) = .same ∧ passthrough c15ExP c15ExU 4 (.str "x") = .same := by
  constructor
  · exact (C15_same_iff _ _ _ _).mpr (Or.inr ⟨_, List.mem_cons_self, .bool true, by simp, rfl⟩)
  · exact (C15_same_iff _ _ _ _).mpr (Or.inl ⟨.cls 4, by simp [c15ExU], 4, rfl, by simp [c15ExP], Or.inl rfl⟩)

/-- a configured subclass of a member counts: `True` for `int | A` with `bool` configured; and is handed over when
`bool` is not configured (`S = {int, bytes}`) -/
example : passthrough c15ExP [.cls 2, .cls 8] 1 (.bool true) = .same
    ∧ passthrough { S := [2, 5], sub := fun a c => a == c } [.cls 2, .cls 8] 1 (.bool true) = .spill [.cls 8] := by
  constructor <;> decide

/-- non-vacuity of `C15_otherwise`: `1.0` for `Literal[1] | str | A` is handed to `A`; for `Literal[1] | str` rejected -/
example : passthrough c15ExP [.lit [(2, .int 1)], .cls 4, .cls 8] 3 (.flt 2) = .spill [.cls 8]
    ∧ passthrough c15ExP [.lit [(2, .int 1)], .cls 4] 3 (.flt 2) = .reject := by
  constructor <;> decide

/-- non-vacuity of `C15_order_perm` -/
example : Out.permEquiv (passthrough c15ExP [.cls 8, .cls 4, .cls 9] 3 (.flt 2)) (passthrough c15ExP [.cls 9, .cls 8, .cls 4] 3 (.flt 2)) :=
  C15_order_perm c15ExP _ _ (by decide) 3 (.flt 2)

/-- non-vacuity of `C15_applicable`: `Literal[0, True] | str` is handled, `Optional[int]` is not, `A | B` is not -/
example : applicable c15ExP c15ExU = true ∧ applicable c15ExP [.cls 2, .cls 0] = false ∧ applicable c15ExP [.cls 8, .cls 9] = false := by
  refine ⟨by decide, by decide, by decide⟩

/-- non-vacuity of `C15_old_collapse_harmless`: `{0, False}` is `{0}` and `False` is still found in it -/
example : valueSet [.int 0, .bool false] = [.int 0] ∧ Obj.memPy (.bool false) (valueSet [.int 0, .bool false]) = true := by
  constructor <;> decide

end Examples

/-! ## deep hierarchies: "a configured subclass of a member counts" is about `issubclass`, not about direct bases -/

/-- **C15_same_iff_chain.**  Over ANY class hierarchy (`direct a b`: `b` is one of `a.__bases__`; `P.sub` = `issubclass` =
its reflexive-transitive closure): `v` comes back itself exactly when its class is configured and lies ANY number of
inheritance steps (zero included) below a configured class (or NewType base) that `U` names — whether or not the classes
in between are configured, members of `U`, or exist in the configured set at all — or `v` matches a literal. -/
theorem C15_same_iff_chain (P : PS) (direct : Nat → Nat → Bool) (hsub : ∀ a c, P.sub a c = true ↔ SubStar direct a c)
    (U : List Member) (cl : Nat) (v : Obj) :
    passthrough P U cl v = .same ↔
      ((∃ m ∈ U, ∃ b, m.base = some b ∧ b ∈ P.S ∧ cl ∈ P.S ∧ SubStar direct cl b) ∨ LitMatch U cl v) := by
  rw [C15_same_iff]
  constructor
  · rintro (⟨m, hm, b, hb, hS, (rfl | ⟨hc, hs⟩)⟩ | hl)
    · exact Or.inl ⟨m, hm, cl, hb, hS, hS, .refl cl⟩
    · exact Or.inl ⟨m, hm, b, hb, hS, hc, (hsub cl b).mp hs⟩
    · exact Or.inr hl
  · rintro (⟨m, hm, b, hb, hS, hc, hs⟩ | hl)
    · exact Or.inl ⟨m, hm, b, hb, hS, Or.inr ⟨hc, (hsub cl b).mpr hs⟩⟩
    · exact Or.inr hl

/-- **C15_deep_subclass.**  In particular a value whose (configured) class is a grandchild, or deeper, of a member of `U`
is returned: an `IntEnum` member for `int | …` (`Level → IntEnum → int`), a `datetime` subclass for `date | …`. -/
theorem C15_deep_subclass (P : PS) (direct : Nat → Nat → Bool) (hsub : ∀ a c, SubStar direct a c → P.sub a c = true)
    (U : List Member) (m : Member) (b cl : Nat) (hm : m ∈ U) (hb : m.base = some b) (hS : b ∈ P.S) (hc : cl ∈ P.S)
    (chain : SubStar direct cl b) (v : Obj) : passthrough P U cl v = .same :=
  (C15_same_iff P U cl v).mpr (Or.inl ⟨m, hm, b, hb, hS, Or.inr ⟨hc, hsub cl b chain⟩⟩)

section DeepExamples

/-- `Level(IntEnum)`: 12 → 20 (`IntEnum`, not configured) → 2 (`int`); `bool` 1 → 2 -/
def c15DeepDirect : Nat → Nat → Bool := fun a b => (a == 12 && b == 20) || (a == 20 && b == 2) || (a == 1 && b == 2)

/-- `issubclass` on that hierarchy -/
def c15DeepSub : Nat → Nat → Bool := fun a c => a == c || (a == 12 && (c == 20 || c == 2)) || (a == 20 && c == 2) || (a == 1 && c == 2)

/-- S = {int, Level}, U = `int | str` (`str` not configured: the hand-over member) -/
def c15DeepP : PS := { S := [2, 12], sub := c15DeepSub }

theorem c15DeepSub_closure (a c : Nat) (h : SubStar c15DeepDirect a c) : c15DeepSub a c = true := by
  induction h with
  | refl a => simp [c15DeepSub]
  | step hd _ ih =>
    rename_i a b c
    simp only [c15DeepDirect, Bool.or_eq_true, Bool.and_eq_true, beq_iff_eq] at hd
    simp only [c15DeepSub, Bool.or_eq_true, Bool.and_eq_true, beq_iff_eq] at ih ⊢
    omega

/-- non-vacuity of `C15_deep_subclass`: `Level.X` (two levels below `int`, the class in between not configured) for
`int | str` comes back itself -/
example : passthrough c15DeepP [.cls 2, .cls 4] 12 (.int 1) = .same :=
  C15_deep_subclass c15DeepP c15DeepDirect c15DeepSub_closure _ (.cls 2) 2 12 (by simp) rfl (by simp [c15DeepP])
    (by simp [c15DeepP]) (.step (b := 20) (by decide) (.step (b := 2) (by decide) (.refl 2))) _

/-- **C15_direct_bases_witness** (negative witness; seeded change "the augmentation step reads `__bases__`").  With direct
bases instead of `issubclass` the grandchild is handed to `str` — and with no other member it is rejected — while a
direct child (`bool`) is still accepted, which is all the shipped configurations contain. -/
theorem C15_direct_bases_witness :
    passthroughDirect c15DeepP c15DeepDirect [.cls 2, .cls 4] 12 (.int 1) = .spill [.cls 4] ∧
    passthroughDirect c15DeepP c15DeepDirect [.cls 2, .lit [(4, .str "a")]] 12 (.int 1) = .reject ∧
    passthrough c15DeepP [.cls 2, .cls 4] 12 (.int 1) = .same ∧
    passthroughDirect { c15DeepP with S := [2, 1] } c15DeepDirect [.cls 2, .cls 4] 1 (.bool true) = .same := by
  refine ⟨?_, ?_, ?_, ?_⟩ <;> decide

end DeepExamples

end CattrsModel
