import CattrsModel.Overrides.LemmasDict
/-!
# C03 (part b) — the `unstruct_collection_overrides` lattice of `Converter`

The statement of C03 quantifies over "dict_factory / unstruct_collection_overrides settings".  The data-path model
(`Props/C03.lean`) covers the default settings; this file covers the override dict: what `Converter.__init__` turns the
user's dict into (`closure`, the statement sequence of the code in source order), and that this is the documented rule
(`specLookup*`: the entry of the most specific of the type and its supertypes that the user gave one for).

All theorems quantify over EVERY user dict (an unbounded association list) and every key.
-/
namespace CattrsModel
open Overrides

/-- **Lattice.** For every user dict and every key, the dict `Converter.__init__` leaves in
`_unstruct_collection_overrides` answers exactly as the rule: the user's entry for the key itself, else for its direct
supertype, else for the supertype of that … (hierarchy as announced by the comments in the code: `Set > MutableSet >
set`, `Set > frozenset`, `Sequence > MutableSequence > list, deque`, `Sequence > tuple`, `Mapping > MutableMapping >
dict > Counter`).  In particular the source ORDER of the statements lets every chain propagate to its end. -/
theorem C03_override_lattice (m : Map) (k : CKey) : lookup (closure m) k = specLookupCode m k := by
  rw [lookup_closure]; exact closureF_spec (lookup m) k

-- non-vacuity: a three-step chain (Mapping → MutableMapping → dict → Counter), an intermediate explicit entry
-- shadowing the more general one, and an unrelated hierarchy left alone
example : lookup (closure [(.mapping, 7)]) .counter = some 7 := by decide
example : lookup (closure [(.absSet, 7), (.mutSet, 8)]) .set = some 8
    ∧ lookup (closure [(.absSet, 7), (.mutSet, 8)]) .frozenset = some 7
    ∧ lookup (closure [(.absSet, 7), (.mutSet, 8)]) .list = none := by decide

/-
Full statement against the DOCUMENTED hierarchy (docs/indepth.md lists `defaultdict` and `collections.OrderedDict`
between `dict` and `Counter`):

    ∀ m k, lookup (closure m) k = specLookup m k

It is false for `k = OrderedDict` and `k = defaultdict` (finding F44, `C03_override_doc_gap_witness`); proved for
the other 13 keys:
-/
theorem C03_override_lattice_doc_partial (m : Map) (k : CKey) (h1 : k ≠ .orderedDict) (h2 : k ≠ .defaultDict) :
    lookup (closure m) k = specLookup m k := by
  rw [C03_override_lattice]
  exact (specF_doc_eq_code (lookup m) k h1 h2).symm

example : (CKey.counter ≠ .orderedDict ∧ CKey.counter ≠ .defaultDict)
    ∧ specLookup [(.mutMapping, 3)] .counter = some 3 := by decide

/-- **F44 (negative witness).** An override for `dict` reaches `Counter` but neither `OrderedDict` nor `defaultdict`,
although the documentation lists all three below `dict`: fields declared `OrderedDict[K, V]` / `defaultdict[K, V]` are
still unstructured into a plain `dict`. -/
theorem C03_override_doc_gap_witness :
    specLookup [(.dict, 7)] .orderedDict = some 7 ∧ lookup (closure [(.dict, 7)]) .orderedDict = none
    ∧ specLookup [(.dict, 7)] .defaultDict = some 7 ∧ lookup (closure [(.dict, 7)]) .defaultDict = none
    ∧ containerFor [(.dict, 7)] .orderedDict = tDict ∧ containerFor [(.dict, 7)] .defaultDict = tDict
    ∧ containerFor [(.dict, 7)] .counter = 7 := by decide

/-- … and for every user dict these two keys answer with the user's own entry only. -/
theorem C03_override_dict_subclasses_explicit_only (m : Map) :
    lookup (closure m) .orderedDict = lookup m .orderedDict
    ∧ lookup (closure m) .defaultDict = lookup m .defaultDict := by
  constructor <;>
    (rw [C03_override_lattice]; simp [specLookupCode, specLookupWith, chain, codeParent]) <;>
    (cases lookup m _ <;> rfl)

/-- **Idempotence** (literally, as dicts in insertion order): running the statements on an already closed dict
changes nothing. -/
theorem C03_override_idempotent (m : Map) : closure (closure m) = closure m := by
  apply runBlocks_noop
  rw [lookup_closure]
  exact closureF_closed (lookup m)

example : closure [(.sequence, 5)] = [(.sequence, 5), (.mutSequence, 5), (.tuple, 5), (.list, 5), (.deque, 5)] := by
  decide

/-- **Explicit wins.** An entry given by the user is never overwritten … -/
theorem C03_override_explicit_wins (m : Map) (k : CKey) (t : Target) (h : lookup m k = some t) :
    lookup (closure m) k = some t := by
  rw [lookup_closure]; exact closureF_self_of_some (lookup m) k t h

/-- … indeed the closure only appends entries to the user's dict. -/
theorem C03_override_only_appends (m : Map) : m <+: closure m := runBlocks_prefix blocks m

example : lookup [(CKey.sequence, 5), (.list, 6)] .list = some 6
    ∧ lookup (closure [(.sequence, 5), (.list, 6)]) .list = some 6
    ∧ lookup (closure [(.sequence, 5), (.list, 6)]) .deque = some 5 := by decide

/-- **The order in which the user lists the entries is irrelevant** (entries with pairwise distinct normalised keys):
permuting them changes neither any lookup in the resulting dict nor the container chosen for any declared type. -/
theorem C03_override_order_irrelevant (u1 u2 : List (CKey × Target)) (hp : u1.Perm u2)
    (hn : (u1.map Prod.fst).Nodup) :
    (∀ k, lookup (construct u1) k = lookup (construct u2) k)
    ∧ (∀ d, containerOf (construct u1) d = containerOf (construct u2) d) := by
  have hn2 : (u2.map Prod.fst).Nodup := (List.Perm.nodup_iff (hp.map Prod.fst)).mp hn
  have hv : lookup (norm u1) = lookup (norm u2) := by
    funext k
    rw [norm_of_nodup u1 hn, norm_of_nodup u2 hn2]
    exact lookup_perm hp hn k
  have hk : ∀ k, lookup (construct u1) k = lookup (construct u2) k := by
    intro k
    simp only [construct, lookup_closure, hv]
  refine ⟨hk, ?_⟩
  intro d
  simp [containerOf, hk]

example : [(CKey.list, 1), (CKey.sequence, 2), (CKey.absSet, 3)].Perm [(.absSet, 3), (.list, 1), (.sequence, 2)]
    ∧ ([(CKey.list, 1), (CKey.sequence, 2), (CKey.absSet, 3)].map Prod.fst).Nodup := by
  refine ⟨?_, by decide⟩
  exact (List.perm_append_comm (l₁ := [(CKey.list, 1), (CKey.sequence, 2)]) (l₂ := [(CKey.absSet, 3)]))

/-- Witness that the distinct-keys hypothesis is needed: two spellings of one key (`typing.Sequence` and
`collections.abc.Sequence`) collapse in the dict comprehension and the later one wins (plain Python dict semantics). -/
theorem C03_override_duplicate_spelling_witness :
    lookup (construct [(.sequence, 1), (.sequence, 2)]) .list = some 2
    ∧ lookup (construct [(.sequence, 2), (.sequence, 1)]) .list = some 1 := by decide

/-- **`copy()` carries the overrides**: the closed dict, sent through `__init__` again, is reproduced literally. -/
theorem C03_override_copy (u : List (CKey × Target)) : copyOf (construct u) = construct u := by
  have hn : keysNodup (construct u) := keysNodup_closure _ (keysNodup_norm u)
  unfold copyOf
  show closure (norm (construct u)) = construct u
  rw [norm_of_nodup _ hn]
  exact C03_override_idempotent (norm u)

example : copyOf (construct [(.mutSet, 4), (.mutSet, 9)]) = [(.mutSet, 9), (.set, 9)] := by decide

/-- **Containers.** A value of declared collection type `d` is unstructured into the target the rule selects for the
key its consumer looks up, else into the consumer's default (`list` for sequences incl. homogeneous tuples and deques,
`tuple` for heterogeneous tuples, `set` for (mutable / abstract) sets, `frozenset`, `dict` for mappings). -/
theorem C03_override_container (m : Map) (d : DeclTy) :
    containerFor m d = (specLookupCode m (consumer d).1).getD (consumer d).2 := by
  simp [containerFor, containerOf, C03_override_lattice]

theorem C03_override_container_default (d : DeclTy) : containerFor [] d = (consumer d).2 := by
  cases d <;> decide

-- one key, two consumers: `tuple[int, ...]` and `tuple[int, str]` share the key `tuple` but not the default
example : containerFor [] .homTuple = tList ∧ containerFor [] .hetTuple = tTuple
    ∧ containerFor [(.sequence, 9)] .homTuple = 9 ∧ containerFor [(.sequence, 9)] .hetTuple = 9
    ∧ containerFor [(.mutSequence, 9)] .homTuple = tList ∧ containerFor [(.mutSequence, 9)] .deque = 9 := by
  decide

/-- Witness that the lattice theorem depends on the source order of the statements: with the `MutableSet → set`
statement placed before the `Set → MutableSet` statement an override for `Set` no longer reaches `set`. -/
theorem C03_override_statement_order_witness :
    lookup (runBlocks [⟨.mutSet, [.set]⟩, ⟨.absSet, [.mutSet, .frozenset]⟩] [(.absSet, 7)]) .set = none
    ∧ lookup (runBlocks [⟨.absSet, [.mutSet, .frozenset]⟩, ⟨.mutSet, [.set]⟩] [(.absSet, 7)]) .set = some 7 := by
  decide

/-- **Bare `collections.abc` spellings** (F45, repaired): a field annotated with the unparametrised
`collections.abc.Sequence`, `Set` or `MutableSet` gets, for every user dict, the container of the parametrised
spelling — overrides for that very class and for its supertypes included. -/
theorem C03_override_bare_abc_same (m : Map) :
    containerFor m .bareAbcSequence = containerFor m .sequence
    ∧ containerFor m .bareAbcSet = containerFor m .absSet
    ∧ containerFor m .bareAbcMutSet = containerFor m .mutSet := ⟨rfl, rfl, rfl⟩

example : containerFor [(.sequence, 7)] .bareAbcSequence = 7 ∧ containerFor [(.absSet, 7)] .bareAbcMutSet = 7
    ∧ containerFor [] .bareAbcSet = tSet := by decide

/-- **F46 (negative witness).** `dict_factory` is honoured by `BaseConverter` only: the hooks `Converter` generates for
the dict strategy build plain dicts whatever factory was configured. -/
theorem C03_override_dict_factory_witness (f : Target) :
    classContainer true false f = tDict ∧ classContainer false false f = f
    ∧ classContainer true true f = tTuple ∧ classContainer false true f = tTuple := by
  refine ⟨rfl, rfl, rfl, rfl⟩

end CattrsModel
