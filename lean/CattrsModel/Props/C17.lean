import CattrsModel.Generics.Lemmas
import CattrsModel.Generics.Defaults
/-!
# C17 — generic classes behave like their monomorphised copies

Property theorems, non-vacuity examples and negative witnesses only; definitions are in `Generics/Model.lean`,
helper lemmas in `Generics/Lemmas.lean`.

Recorded findings (replayed on the real code by `harness/props/c17.py` on every run):
* F27 a PEP 604 union object (`list[T] | None`) is not `is_generic`: neither the field rewrite nor `deep_copy_with`
  looks inside it (`C17_subst_pep604_witness`, `C17_field_pep604_witness`);
* F28 the bindings of a parametrised base are recorded under the base's parameter *names*, unsubstituted and one level
  deep only (`C17_mono_renamed_witness`, `C17_mono_capture_witness`, `C17_mono_composed_witness`, `C17_mono_deep_witness`,
  `C17_unbound_capture_witness`);
* F29 `Self` inside a generic class becomes the unparametrised origin class (`C17_mono_self_witness`);
* F50 the UNSTRUCTURE hook of a parametrised generic alias is that of the alias' unsubstituted value
  (`C17_alias_unstructure_witness`);
* F51 the bare class of `class G(B[T], Generic[T])` maps `T` to the type variable `T` itself: the hook is created and
  structuring fails only where the payload reaches `T` (`C17_unbound_passthrough_witness`).
-/
namespace CattrsModel
open Generics

/-! ## example data -/
namespace C17Ex
def tInt : Ann := .lf "int"
def tStr : Ann := .lf "str"
def tNone : Ann := .lf "None"
def T : Ann := .tv "T"
def U : Ann := .tv "U"
def lv (name : String) (params : List String) (own : List (String × Ann)) (baseArgs : List Ann := [])
    (gb : Bool := true) (defaults : Mapping := []) : Level :=
  { name := name, params := params, defaults := defaults, genericBase := gb, own := own, baseArgs := baseArgs }

/-- `class G(B[T, int], Generic[T]): c: dict[str, list[Annotated[T, 'm']]]; d: int | None`
    `class B(M[T], Generic[T, W]): b: tuple[T, W]`, `class M(Generic[T]): a: Optional[In[T]]` -/
def goodChain : List Level :=
  [lv "G" ["T"] [("c", .app "dict" [tStr, .app "list" [.ann T ["m"]]]), ("d", .pu [tInt, tNone])] [T, tInt],
   lv "B" ["T", "W"] [("b", .app "tuple" [T, .tv "W"])] [T],
   lv "M" ["T"] [("a", .app "Union" [.app "In" [T], tNone])]]

/-- a non-generic subclass of a parametrised base, with `Self`: `class C(B[str]): nxt: Optional[Self]` -/
def selfChain : List Level :=
  [lv "C" [] [("nxt", .app "Union" [.self, tNone])] [tStr] false,
   lv "B" ["T"] [("a", .app "list" [T]), ("me", .app "list" [.self])]]

/-- PEP 696: `class D(Generic[T, U]): a: T; b: list[U]` with `T` defaulting to `int`, `U` to `str` -/
def dfltChain : List Level :=
  [lv "D" ["T", "U"] [("a", T), ("b", .app "list" [U])] [] true [("T", tInt), ("U", tStr)]]

-- F27
def pep604Chain : List Level :=
  [lv "G" ["T"] [("x", .app "dict" [tStr, .pu [.app "list" [T], tNone]]), ("y", .pu [.app "list" [T], tNone])]]
-- F28: `class G5(H[U], Generic[U]): b: U`, `class H(Generic[T]): a: T`
def renamedChain : List Level := [lv "G5" ["U"] [("b", U)] [U], lv "H" ["T"] [("a", T)]]
-- F28: `class G(B[int], Generic[T]): z: T`, `class B(Generic[T]): a: T`
def captureChain : List Level := [lv "G" ["T"] [("z", T)] [tInt], lv "B" ["T"] [("a", T)]]
-- F28: `class G(B[list[T]], Generic[T]): z: T`, `class B(Generic[W]): a: W`
def composedChain : List Level := [lv "G" ["T"] [("z", T)] [.app "list" [T]], lv "B" ["W"] [("a", .tv "W")]]
-- F28: `class C(H[int]): z: int`, `class H(HH[str], Generic[T]): a: T`, `class HH(Generic[U]): u: U`
def deepChain : List Level :=
  [lv "C" [] [("z", tInt)] [tInt] false, lv "H" ["T"] [("a", T)] [tStr], lv "HH" ["U"] [("u", U)]]
-- F29: `class SG(Generic[T]): a: T; nxt: Optional[Self]`
def selfGenericChain : List Level := [lv "SG" ["T"] [("a", T), ("nxt", .app "Union" [.self, tNone])]]
-- F51: `class PG(PB[T], Generic[T]): b: Optional[list[T]]`, `class PB(Generic[T]): a: Optional[T]`
def passChain : List Level :=
  [lv "PG" ["T"] [("b", .app "Union" [.app "list" [T], tNone])] [T], lv "PB" ["T"] [("a", .app "Union" [T, tNone])]]
/-- `class Child(Mixin, Parent[int, U], Generic[U]): c: Optional[U]` over `class Parent(Generic[T, U]): a: T; b: list[U]`:
    a plain mixin is listed BEFORE the parametrised base, another one after it -/
def mixinChain : List Level :=
  [{ lv "Child" ["U"] [("c", .app "Union" [U, tNone])] [tInt, U] with plainBefore := 1, plainAfter := 1 },
   lv "Parent" ["T", "U"] [("a", T), ("b", .app "list" [U])]]
/-- PEP 696 × inheritance: `class Child(Base[str, U], Generic[U]): z: Optional[U]` over
    `class Base(Generic[T, U]): x: T; y: U; ys: list[U]`, `U` defaulting to `int` -/
def dfltPassChain : List Level :=
  [lv "Child" ["U"] [("z", .app "Union" [U, tNone])] [tStr, U] true [("U", tInt)],
   lv "Base" ["T", "U"] [("x", T), ("y", U), ("ys", .app "list" [U])] [] true [("U", tInt)]]
end C17Ex
open C17Ex

/-! ## the recursive rewrite is substitution -/

/- Full statement (FALSE on the unchanged tree — F27, see the two witnesses below):
   `∀ m s t, (∀ n, t ≠ .tv n) → t ≠ .self → deepCopyWith m s t = some (subst m s t)` and
   `∀ m cl t, t ≠ .self → fieldRewrite m cl t = subst m (some cl) t`.
   Proved: both, for every annotation in which no PEP 604 union object has an open member (`annOk`), whatever the
   nesting of parametrised generics, `Annotated`, `Union`/`Optional`, aliases, `Self`, and whatever the mapping. -/
theorem C17_subst_partial (m : Mapping) (t : Ann) (ho : annOk t = true) :
    (∀ s, (∀ n, t ≠ .tv n) → t ≠ .self → deepCopyWith m s t = some (subst m s t)) ∧
    (∀ cl, t ≠ .self → fieldRewrite m cl t = subst m (some cl) t) ∧
    (∀ cl, genericNonBare t = true → deepCopyWith m (some cl) t = some (fieldRewrite m cl t)) := by
  refine ⟨?_, fun cl hs => fieldRewrite_eq_subst m cl t ho hs, fun cl hg => fieldRewrite_eq_dcw m cl t hg⟩
  intro s htv hself
  cases t with
  | tv n => exact absurd rfl (htv n)
  | self => exact absurd rfl hself
  | lf n => simp [deepCopyWith, subst]
  | app c as =>
    simp only [annOk] at ho
    simp [deepCopyWith, subst, rwArgs_eq_substL m s as ho]
  | ann i ms =>
    simp only [annOk] at ho
    simp [deepCopyWith, subst, rwArg_eq_subst m s i ho]
  | pu ms =>
    simp only [annOk] at ho
    simp [deepCopyWith, subst, rwArgs_closed m s ms ho, substL_closed m s ms ho]

/-- non-vacuity: a nested annotation in scope, rewritten non-trivially -/
example : annOk (.app "dict" [tStr, .app "Union" [.app "In" [.ann T ["m"]], .self, .pu [tInt, tNone]]]) = true ∧
    deepCopyWith [("T", tInt)] (some (.lf "G")) (.app "dict" [tStr, .app "Union" [.app "In" [.ann T ["m"]], .self, .pu [tInt, tNone]]])
      = some (.app "dict" [tStr, .app "Union" [.app "In" [.ann tInt ["m"]], .lf "G", .pu [tInt, tNone]]]) := by
  decide

/-- F27: `deep_copy_with(dict[str, list[T] | None], {T: int})` returns its argument unchanged -/
theorem C17_subst_pep604_witness :
    deepCopyWith [("T", tInt)] none (.app "dict" [tStr, .pu [.app "list" [T], tNone]])
      = some (.app "dict" [tStr, .pu [.app "list" [T], tNone]]) ∧
    deepCopyWith [("T", tInt)] none (.app "dict" [tStr, .pu [.app "list" [T], tNone]])
      ≠ some (subst [("T", tInt)] none (.app "dict" [tStr, .pu [.app "list" [T], tNone]])) ∧
    -- … and a changed top-level `types.UnionType` cannot be rebuilt at all (`copy_with` raises)
    deepCopyWith [("T", tInt)] none (.pu [.app "list" [T], tNone]) = none := by
  decide

/-- F27: a field annotated `list[T] | None` is bound into the hook of `G[int]` unsubstituted -/
theorem C17_field_pep604_witness :
    fieldRewrite [("T", tInt)] (.lf "G") (.pu [.app "list" [T], tNone]) = .pu [.app "list" [T], tNone] ∧
    structGen pep604Chain (.alias [tInt]) ≠ some (monoFields pep604Chain [tInt] (some (selfSpec pep604Chain [tInt]))) ∧
    scopeB pep604Chain [tInt] = false := by
  decide

/-! ## the mapping -/

/-- `generate_mapping(G[args])` binds each parameter to the argument at the *same position*; parameters whose argument
    is a `TypeVar` (or missing) stay unbound; for the bare class with PEP 696 defaults each parameter is bound to its
    default. -/
theorem C17_mapping (lv : Level) (rest : List Level) :
    (∀ args, lv.params.Nodup →
      (∀ p a, (p, a) ∈ lv.params.zip args → (∀ n, a ≠ .tv n) →
        lookup (generateMapping (lv :: rest) (.alias args) []) p = some a) ∧
      (∀ p, OnlyTv lv.params args p → lookup (generateMapping (lv :: rest) (.alias args) []) p = none)) ∧
    (∀ args, targetArgs (lv :: rest) .bare = some args → closedL args = true →
      ∀ p, p ∈ lv.params → ∃ d, lookup (globalDefaults (lv :: rest)) p = some d ∧
        lookup (generateMapping (lv :: rest) .bare []) p = some d) := by
  refine ⟨fun args hn => ⟨?_, ?_⟩, ?_⟩
  · intro p a hz ha
    exact lookup_bindSkipTv_zip p a ha lv.params args [] hn hz
  · intro p ho
    simp only [generateMapping]
    rw [lookup_bindSkipTv_onlyTv p lv.params args [] ho]
    rfl
  · intro args ht hcl p hp
    exact bare_defaults_mapping lv rest args ht hcl p hp

example : lookup (generateMapping goodChain (.alias [tStr]) []) "T" = some tStr := by decide
example : effective (generateMapping dfltChain .bare []) [] = [("U", tStr), ("T", tInt)] := by decide
example : targetArgs dfltChain .bare = some [tInt, tStr] := by decide

/-! ## PEP 696 defaults never override an argument -/

/-- For a parametrised target `G[args…]` the PEP 696 defaults of the type variables are inert: whatever defaults the
    classes of the chain declare (`withDefaults d`: any other assignment of defaults, class by class), every generator
    binds the same field types — an explicit argument wins over the default for own AND inherited fields, also where the
    parameter is handed on to a parametrised base (`class Child(Base[str, U], Generic[U])`: `generate_mapping(Base[str, U],
    mapping)` skips the still-open `U` and keeps the binding of `Child[float]`).  Defaults matter only for the bare class
    (`C17_mapping`, third part).  With `C17_mono_partial` (whose scope does not mention defaults either): `Child[float]`
    IS its monomorphised copy. -/
theorem C17_defaults_inert_when_bound (chain : List Level) (d : Level → Mapping) (args : List Ann) :
    structGen (withDefaults d chain) (.alias args) = structGen chain (.alias args) ∧
    unstructGen (withDefaults d chain) (.alias args) = unstructGen chain (.alias args) ∧
    structGenTD (withDefaults d chain) (.alias args) = structGenTD chain (.alias args) ∧
    structGenTDFast (withDefaults d chain) (.alias args) = structGenTDFast chain (.alias args) := by
  refine ⟨?_, ?_, ?_, ?_⟩
  · simp only [structGen, structMapping_withDefaults, paramsBound_withDefaults, allFields_withDefaults, selfIs_withDefaults]
  · simp only [unstructGen, unstructMapping_withDefaults, allFields_withDefaults, selfIs_withDefaults]
  · simp only [structGenTD, structMapping_withDefaults, paramsBound_withDefaults, allFields_withDefaults, selfIs_withDefaults]
  · simp only [structGenTDFast, structMapping_withDefaults, paramsBound_withDefaults, allFields_withDefaults, selfIs_withDefaults]

/-- non-vacuity: `Child[float]` (an argument different from the default) is in the scope of `C17_mono_partial`, gets the
    copy's field types — `float` in the inherited `y`, `ys` and in its own `z` —, the same with the defaults removed; the
    bare `Child` and `Child[int]` use the default -/
example : scopeB dfltPassChain [.lf "float"] = true ∧
    structGen dfltPassChain (.alias [.lf "float"]) = some
      [("x", tStr), ("y", .lf "float"), ("ys", .app "list" [.lf "float"]), ("z", .app "Union" [.lf "float", tNone])] ∧
    structGen (withDefaults (fun _ => []) dfltPassChain) (.alias [.lf "float"]) = structGen dfltPassChain (.alias [.lf "float"]) ∧
    targetArgs dfltPassChain .bare = some [tInt] ∧ scopeB dfltPassChain [tInt] = true ∧
    structGen dfltPassChain .bare = structGen dfltPassChain (.alias [tInt]) := by
  decide

/-- **Regression witness** (replayed on the implementation by the `systematic-defaults-inherit` worlds of the check):
    had `generate_mapping` bound a still-open argument to its variable's default (`bindDefaultTv` — "the parameter left
    open still has a usable default"), the second call `generate_mapping(Base[str, U], {U: float})` would overwrite the
    binding of `Child[float]`: inherited and own `U`-typed fields would be bound as `int`, not as the copy's `float`. -/
theorem C17_default_override_witness :
    lookup (structMapping dfltPassChain (.alias [.lf "float"])) "U" = some (.lf "float") ∧
    lookup (structMappingOverride dfltPassChain [.lf "float"]) "U" = some tInt ∧
    rewriteFields (fieldRewrite (structMappingOverride dfltPassChain [.lf "float"]) (selfIs dfltPassChain)) (allFields dfltPassChain)
      = [("x", tStr), ("y", tInt), ("ys", .app "list" [tInt]), ("z", .app "Union" [tInt, tNone])] ∧
    rewriteFields (fieldRewrite (structMappingOverride dfltPassChain [.lf "float"]) (selfIs dfltPassChain)) (allFields dfltPassChain)
      ≠ monoFields dfltPassChain [.lf "float"] (some (selfSpec dfltPassChain [.lf "float"])) := by
  decide

/-! ## generic classes behave like their monomorphised copies -/

/- Full statement (FALSE on the unchanged tree — F27, F28, F29, see the witnesses):
   `∀ chain tgt args, targetArgs chain tgt = some args → structGen chain tgt = some (monoFields chain args (some (selfSpec chain args)))`
   (and the same for the unstructure hook and both TypedDict templates).
   Proved for every chain, of any depth, any number of parameters and fields, any nesting of annotations, in the scope
   `scopeB`: closed arguments; no PEP 604 union object with an open member; field annotations mention only their own
   class's parameters; `Self` only in non-generic classes; the head class passes each base parameter through under the
   same name or binds it to a closed type (no name clash with its own parameters); further up same-name pass-through. -/
theorem C17_mono_partial (chain : List Level) (tgt : Target) (args : List Ann)
    (ht : targetArgs chain tgt = some args) (hs : scopeB chain args = true) :
    structGen chain tgt = some (monoFields chain args (some (selfSpec chain args))) ∧
    unstructGen chain tgt = monoFields chain args (some (selfSpec chain args)) ∧
    structGenTD chain tgt = some (rewriteFields stripNR (monoFields chain args (some (selfSpec chain args)))) ∧
    refuses chain tgt = false := by
  cases chain with
  | nil => simp [scopeB] at hs
  | cons lv rest =>
    obtain ⟨hb, heq, hcl⟩ := scope_core lv rest tgt args ht hs
    have h1 : structGen (lv :: rest) tgt =
        some (monoFields (lv :: rest) args (some (selfSpec (lv :: rest) args))) := by
      simp only [structGen, hb, ↓reduceIte, heq]
    refine ⟨h1, ?_, ?_, ?_⟩
    · simp only [unstructGen, unstructMapping_eq lv rest tgt args hs, selfIs]
      exact heq
    · simp only [structGenTD, hb, ↓reduceIte, Option.some.injEq]
      rw [← heq, rewriteFields_comp]
      apply rewriteFields_congr
      intro nt hnt
      apply tdRewrite_of_closed
      exact hcl _ ((mem_rewriteFields _ _ _).mpr ⟨nt, hnt, rfl⟩)
    · simp only [refuses, h1, ← heq]
      rw [List.any_eq_false]
      intro nt hnt
      simp [mentionsTv_closed nt.2 (hcl nt hnt)]

/-- non-vacuity: a three-level chain with mixed pass-through / closed binding is in scope, and the copy's field
    types are what one expects -/
example : scopeB goodChain [tStr] = true ∧ targetArgs goodChain (.alias [tStr]) = some [tStr] ∧
    structGen goodChain (.alias [tStr]) = some
      [("a", .app "Union" [.app "In" [tStr], tNone]), ("b", .app "tuple" [tStr, tInt]),
       ("c", .app "dict" [tStr, .app "list" [.ann tStr ["m"]]]), ("d", .pu [tInt, tNone])] := by
  decide
example : scopeB selfChain [] = true ∧ targetArgs selfChain .bare = some [] ∧
    structGen selfChain .bare = some
      [("a", .app "list" [tStr]), ("me", .app "list" [.lf "C"]), ("nxt", .app "Union" [.lf "C", tNone])] := by
  decide
example : scopeB dfltChain [tInt, tStr] = true ∧ structGen dfltChain .bare = some [("a", tInt), ("b", .app "list" [tStr])] := by
  decide

/-- F28: `class G5(H[U], Generic[U])` over `class H(Generic[T])`: `G5[int]` leaves `H`'s field `a: T` unsubstituted -/
theorem C17_mono_renamed_witness :
    structGen renamedChain (.alias [tInt]) = some [("a", T), ("b", tInt)] ∧
    monoFields renamedChain [tInt] (some (selfSpec renamedChain [tInt])) = [("a", tInt), ("b", tInt)] ∧
    scopeB renamedChain [tInt] = false := by
  decide

/-- F28: `class G(B[int], Generic[T])` over `class B(Generic[T])`: in `G[str]` the own field `z: T` becomes `int` -/
theorem C17_mono_capture_witness :
    structGen captureChain (.alias [tStr]) = some [("a", tInt), ("z", tInt)] ∧
    monoFields captureChain [tStr] (some (selfSpec captureChain [tStr])) = [("a", tInt), ("z", tStr)] ∧
    scopeB captureChain [tStr] = false := by
  decide

/-- F28: `class G(B[list[T]], Generic[T])` over `class B(Generic[W])`: `G[int]` binds `a: W` to `list[T]` -/
theorem C17_mono_composed_witness :
    structGen composedChain (.alias [tInt]) = some [("a", .app "list" [T]), ("z", tInt)] ∧
    monoFields composedChain [tInt] (some (selfSpec composedChain [tInt])) = [("a", .app "list" [tInt]), ("z", tInt)] ∧
    scopeB composedChain [tInt] = false := by
  decide

/-- F28: bindings two levels up are never looked at: `C(H[int])`, `H(HH[str], Generic[T])`, `HH(Generic[U])` -/
theorem C17_mono_deep_witness :
    structGen deepChain .bare = some [("u", U), ("a", tInt), ("z", tInt)] ∧
    monoFields deepChain [] (some (selfSpec deepChain [])) = [("u", tStr), ("a", tInt), ("z", tInt)] ∧
    scopeB deepChain [] = false := by
  decide

/-- F29: in `SG[int]`, `Optional[Self]` becomes `Optional[SG]` (the unparametrised origin), not `Optional[SG[int]]` -/
theorem C17_mono_self_witness :
    structGen selfGenericChain (.alias [tInt]) = some [("a", tInt), ("nxt", .app "Union" [.lf "SG", tNone])] ∧
    monoFields selfGenericChain [tInt] (some (selfSpec selfGenericChain [tInt]))
      = [("a", tInt), ("nxt", .app "Union" [.app "SG" [tInt], tNone])] ∧
    scopeB selfGenericChain [tInt] = false := by
  decide

/-! ## non-generic bases (multiple inheritance) -/

/-- Non-generic entries of `__orig_bases__` — plain mixins before or after the parametrised base — are invisible to
    both loops over `__orig_bases__` (`generate_mapping`'s, and `make_dict_structure_fn`'s search for the first
    parametrised base): the mapping handed to the templates, hence every generated hook, is the one of the same chain
    without them.  (`C17_mono_partial` is stated for all chains, so it covers classes with such mixins.) -/
theorem C17_plain_bases_skipped (chain : List Level) (dfl m : Mapping) :
    genMapBare dfl (origBases chain) m = genMapBare dfl (origBasesCore chain) m ∧
    firstParamBase (origBases chain) = firstParamBase (origBasesCore chain) ∧
    dropPlain (origBases chain) = origBasesCore chain := by
  refine ⟨?_, ?_, dropPlain_origBases chain⟩
  · rw [genMapBare_dropPlain, dropPlain_origBases]
  · rw [firstParamBase_dropPlain, dropPlain_origBases]

/-- non-vacuity: a mixin listed first really is the first entry of `__orig_bases__`, the parametrised base is found
    behind it, and `Child[float]` gets the copy's field types -/
example : origBases mixinChain = [.plain, .param ["T", "U"] [tInt, U], .plain, .generic ["U"]] ∧
    scopeB mixinChain [.lf "float"] = true ∧
    structGen mixinChain (.alias [.lf "float"]) = some
      [("a", tInt), ("b", .app "list" [.lf "float"]), ("c", .app "Union" [.lf "float", tNone])] := by
  decide

/-! ## generic aliases -/

/-- `type Alias[params…] = value`: structuring as `Alias[args…]` hands on `value` with every parameter replaced by the
    argument given for THAT parameter — `zipMap` pairs parameters and arguments by declared position, whatever the
    order (or number) of the parameters' occurrences in `value` — for closed arguments, a value in the scope of
    `C17_subst_partial` that is not itself a PEP 604 union (F27), and whose `__name__` is not the name of a parameter
    (unless it is that parameter: `type A[T] = T`). -/
theorem C17_alias (params : List String) (value : Ann) (args : List Ann)
    (hcl : closedL args = true) (hok : annOk value = true)
    (hname : ∀ n, dunderName value = some n → (∀ k, value ≠ .tv k) → lookup (zipMap params args) n = none)
    (hpu : ∀ ms, value ≠ .pu ms) :
    aliasResolve params value args = some (subst (zipMap params args) none value) ∧
    (params.Nodup → ∀ p a, (p, a) ∈ params.zip args → lookup (zipMap params args) p = some a) :=
  ⟨aliasResolve_eq_subst params value args hcl hok hname hpu,
   fun hn p a h => lookup_bindAll_zip p a params args [] hn h⟩

/-- non-vacuity: `type Rev[V, K] = dict[K, V]` (parameters appear in another order than declared),
    `type Tagged[Tag, Item] = list[Item]` (a parameter that is not used), `type Table[V, K] = dict[K, list[tuple[V, Optional[K]]]]` -/
example : aliasResolve ["V", "K"] (.app "dict" [.tv "K", .tv "V"]) [tInt, tStr] = some (.app "dict" [tStr, tInt]) ∧
    aliasResolve ["Tag", "Item"] (.app "list" [.tv "Item"]) [tStr, tInt] = some (.app "list" [tInt]) ∧
    aliasResolve ["V", "K"] (.app "dict" [.tv "K", .app "list" [.app "tuple" [.tv "V", .app "Union" [.tv "K", tNone]]]])
        [.lf "float", tInt]
      = some (.app "dict" [tInt, .app "list" [.app "tuple" [.lf "float", .app "Union" [tInt, tNone]]]]) := by
  decide

/-- F50: on the unstructure side the hook used for `Rev[Leaf, str]` is that of `dict[K, V]`, not of `dict[str, Leaf]` -/
theorem C17_alias_unstructure_witness :
    aliasUnstructType ["V", "K"] (.app "dict" [.tv "K", .tv "V"]) [.lf "Leaf", tStr] = .app "dict" [.tv "K", .tv "V"] ∧
    aliasUnstructType ["V", "K"] (.app "dict" [.tv "K", .tv "V"]) [.lf "Leaf", tStr]
      ≠ subst (zipMap ["V", "K"] [.lf "Leaf", tStr]) none (.app "dict" [.tv "K", .tv "V"]) := by
  decide

/-! ## different parametrisations never interfere -/

/-- Whatever hooks were requested before on the same converter (other parametrisations of the same class, other
    classes, in any order and number), the hook obtained for a key is the one generated for exactly that key: the cache
    is keyed by the full parametrised type. -/
theorem C17_no_interference (world : Nat → List Level) (hist : List Key) (k : Key) :
    (getHook world (runHist world hist []) k).2 = structGen (world k.1) k.2 :=
  (getHook_ok world _ k (runHist_ok world hist [] (fun _ _ h => by simp [cacheLookup] at h))).2

example : (getHook (fun _ => goodChain) (runHist (fun _ => goodChain) [(0, .alias [tInt]), (0, .alias [tStr])] []) (0, .alias [tInt])).2
    = structGen goodChain (.alias [tInt]) ∧ structGen goodChain (.alias [tInt]) ≠ structGen goodChain (.alias [tStr]) := by
  decide

/-- The names of the generated functions (`structure_<cls>_<arg>…`) are distinct for distinct argument-name tuples
    made of plain names (no character the sanitiser rewrites, no underscore); for a one-parameter class underscores
    are harmless. -/
theorem C17_names_injective (cls : List Char) :
    (∀ ns ns', (∀ n, n ∈ ns → Plain n) → (∀ n, n ∈ ns' → Plain n) → mangleL cls ns = mangleL cls ns' → ns = ns') ∧
    (∀ n n', (∀ c, c ∈ n → sanitizeChar c = c) → (∀ c, c ∈ n' → sanitizeChar c = c) →
      mangleL cls [n] = mangleL cls [n'] → n = n') := by
  constructor
  · intro ns ns' h1 h2 h
    rw [mangleL_eq, mangleL_eq] at h
    exact sepJoin_injective ns ns' h1 h2 (List.append_cancel_left h)
  · intro n n' h1 h2 h
    rw [mangleL_eq, mangleL_eq] at h
    have := List.append_cancel_left h
    simp only [sepJoin, List.append_nil, List.cons.injEq, true_and] at this
    rwa [sanitizeL_id n h1, sanitizeL_id n' h2] at this

example : Plain "int".toList ∧ Plain "str".toList ∧ mangle "G" ["int", "str"] = "structure_G_int_str" := by
  refine ⟨?_, ?_, by decide⟩ <;> intro c hc <;> simp at hc <;> rcases hc with rfl | rfl | rfl <;> decide

/-- The generated function's name is an identifier whenever the class name is one and every argument name consists of
    identifier characters and `[ ] . space , < > |` — the characters of `str(arg)` for a PEP 604 union of (nested,
    multi-argument) builtin generics and of dotted class paths, the only arguments named after their `str()` (everything
    else has a `__name__`): `G[dict[str, int] | None]`, `D[str, tuple[int, float] | None]` get compilable hooks. -/
theorem C17_names_identifier (cls : List Char) (ns : List (List Char))
    (hc : ∀ c, c ∈ cls → identChar c = true) (hn : ∀ n, n ∈ ns → ∀ c, c ∈ n → reprChar c = true) :
    (∀ c, c ∈ mangleL cls ns → identChar c = true) ∧ ∃ r, mangleL cls ns = "structure_".toList ++ r := by
  refine ⟨mangleL_ident cls ns hc hn, ?_⟩
  rw [mangleL_eq]
  exact ⟨cls ++ sepJoin ns, by simp⟩

example : (∀ c, c ∈ "dict[str, int] | None".toList → reprChar c = true) ∧
    mangle "G" ["dict[str, int] | None"] = "structure_G_dict_str__int__u_None" ∧
    mangle "D" ["str", "tuple[int, float] | None"] = "structure_D_str_tuple_int__float__u_None" := by
  decide

/-- … and only then: a quote is not rewritten.  (cattrs never meets one: `Literal['a']`, `Annotated[int, 'm']` have a
    `__name__` — `Literal`, `int` — and are named after it; the check compares the real names, `corr:C17:MANGLE`.)
    Dropping a character from the sanitiser's class (the comma, say) breaks `C17_names_identifier` the same way. -/
theorem C17_names_quote_witness :
    '\'' ∈ (mangle "G" ["Literal['a']"]).toList ∧ identChar '\'' = false ∧ reprChar ',' = true ∧ identChar ',' = false := by
  decide

/-- without those restrictions the names do collide (harmless in cattrs: every generated function lives in its own
    namespace and the cache is keyed by the type, `C17_no_interference`) -/
theorem C17_names_collision_witness :
    mangle "G" ["a.b"] = mangle "G" ["a_b"] ∧ mangle "G" ["a_b", "c"] = mangle "G" ["a", "b_c"] ∧
    mangle "G" ["int | None"] = mangle "G" ["int_u_None"] := by
  decide

/-! ## an unbound parameter is refused -/

/- Full statement (FALSE on the unchanged tree — F28 "capture", witness below):
   a parameter of the head class that the target leaves unbound and that has no default makes `refuses` true.
   Proved under the additional hypothesis that the base class does not bind a parameter of that name to a concrete
   type, and for parameters that some own field mentions.  `refuses` = the hook cannot be created ("Missing type for
   generic argument") or a field type bound into it still mentions a type variable (for which no hook exists: the
   failure then comes from looking up / calling the handler of that field, which lazily dispatching hooks — Optional,
   sets, field converters — postpone until a payload reaches the variable: F51; `C17_unbound_upfront` below is the
   payload-independent part). -/
theorem C17_unbound_refused_partial (lv : Level) (rest : List Level) (tgt : Target) (p : String)
    (hunb : match tgt with
      | .alias args => OnlyTv lv.params args p
      | .bare => lookup (globalDefaults (lv :: rest)) p = none)
    (hcap : ∀ b, rest.head? = some b → OnlyTv b.params lv.baseArgs p)
    (hused : ∃ nt, nt ∈ lv.own ∧ p ∈ tvars nt.2) : refuses (lv :: rest) tgt = true :=
  unbound_refuses lv rest tgt p hunb hcap hused

example : refuses goodChain .bare = true ∧ refuses goodChain (.alias [T]) = true ∧
    structGen goodChain (.alias [T]) = none ∧ refuses goodChain (.alias [tInt]) = false := by decide

/-- The refusal that does not depend on the payload: when the target leaves `p` unbound, `p` has no default and the
    base class does not bind the name `p` (for the bare class: has no parameter of that name at all), the mapping handed
    to the templates has no entry for `p`, so NO hook is created ("Missing type for generic argument") — by any of the
    three templates, whether or not a field mentions `p`, whatever payload would have followed. -/
theorem C17_unbound_upfront (lv : Level) (rest : List Level) (tgt : Target) (p : String) (hp : p ∈ lv.params)
    (hunb : match tgt with
      | .alias args => OnlyTv lv.params args p
      | .bare => lookup (globalDefaults (lv :: rest)) p = none)
    (hcap : ∀ b, rest.head? = some b → match tgt with
      | .alias _ => OnlyTv b.params lv.baseArgs p
      | .bare => p ∉ b.params) :
    structGen (lv :: rest) tgt = none ∧ structGenTD (lv :: rest) tgt = none ∧ structGenTDFast (lv :: rest) tgt = none := by
  have h := unbound_upfront lv rest tgt p hp hunb hcap
  simp [structGen, structGenTD, structGenTDFast, h]

example : structGen goodChain (.alias [T]) = none ∧ structGen mixinChain (.alias [U]) = none ∧
    structGen [lv "P" ["T"] [("d", .app "Union" [T, tNone])]] .bare = none := by decide

/-- F51: for the BARE class of `class PG(PB[T], Generic[T])` the loop over `__orig_bases__` records `T ↦ T` (it does not
    skip type-variable arguments): the hook IS created, with field types that still mention `T` — structuring then fails
    only where a payload reaches `T` (`{'a': None, 'b': None}` is accepted).  `PG[T]` is refused up front. -/
theorem C17_unbound_passthrough_witness :
    structGen passChain .bare = some [("a", .app "Union" [T, tNone]), ("b", .app "Union" [.app "list" [T], tNone])] ∧
    lookup (structMapping passChain .bare) "T" = some T ∧
    structGen passChain (.alias [T]) = none := by
  decide

/-- F28: with `class G(B[int], Generic[T])` over `class B(Generic[T])` the bare `G` and `G[T]` are not refused: `T` is guessed to be `int` -/
theorem C17_unbound_capture_witness :
    refuses captureChain .bare = false ∧ refuses captureChain (.alias [T]) = false ∧
    structGen captureChain .bare = some [("a", tInt), ("z", tInt)] := by
  decide

/-! ## TypedDict: the detailed template rewrites twice -/

/-- With closed bindings (in particular in the scope of `C17_mono_partial`) the second rewrite of the detailed
    TypedDict template changes nothing: it binds the same field types as the attrs/dataclass template, `NotRequired`
    stripped. -/
theorem C17_td_detailed_same (chain : List Level) (tgt : Target)
    (hm : ∀ n v, lookup (structMapping chain tgt) n = some v → closed v = true) :
    structGenTD chain tgt = (structGen chain tgt).map (rewriteFields stripNR) := by
  simp only [structGenTD, structGen]
  split
  · simp only [Option.map_some, Option.some.injEq]
    rw [rewriteFields_comp]
    apply rewriteFields_congr
    intro nt _
    exact tdRewrite_eq _ _ hm (by cases chain <;> simp [selfIs, closed]) nt.2
  · rfl

example : (∀ n v, lookup (structMapping goodChain (.alias [tStr])) n = some v → closed v = true) := by
  intro n v h
  have e : structMapping goodChain (.alias [tStr]) = [("W", tInt), ("T", tStr)] := by decide
  rw [e] at h
  simp only [lookup] at h
  split at h
  · cases h; decide
  · split at h
    · cases h; decide
    · cases h

/-- F28 again: with an open binding (`W ↦ list[T]`) the second pass composes the bindings — the detailed TypedDict
    template binds `list[int]` where the fast one (and the attrs templates) bind `list[T]` -/
theorem C17_td_second_pass_witness :
    structGenTD composedChain (.alias [tInt]) = some [("a", .app "list" [tInt]), ("z", tInt)] ∧
    structGen composedChain (.alias [tInt]) = some [("a", .app "list" [T]), ("z", tInt)] ∧
    structGenTDFast composedChain (.alias [tInt]) = some [("a", .app "list" [T]), ("z", tInt)] := by
  decide

end CattrsModel
