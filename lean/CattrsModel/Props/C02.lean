import CattrsModel.Lemmas.Sound
import CattrsModel.Lemmas.ModesAgree
/-!
# C02 — structuring is sound: it returns a value conforming to T, or raises, on any input

Property theorems only.  `conf w T v` is "v is a value of T at every depth" (exact classes, literal
membership under Python `==` -- for a `Literal[...]` that contains enum members: v IS one of the literal's arguments,
the member itself or the plain value itself, `litConf`; `_structure_enum_literal` (model: `litStruct` / `litLookup`)
accepts the VALUE of a member and hands out the member, rejects the member itself, later arguments win on equal keys --,
exact arity of heterogeneous tuples, key/required-key rules, sets and
dict keys hashable and duplicate-free; a mapping-typed position holds an instance of EXACTLY the type's target class:
`dict` for `dict` / `Mapping` / `MutableMapping`, `OrderedDict` / `defaultdict` / `Counter` for those -- `MK.target`,
`Obj.mdict`); `Any`/untyped positions accept everything (documented
pass-through); TypedDict results may carry undeclared keys (recorded finding F9, see C10).

`MapsInScope w cfg T` is the one scope condition: a `Converter` is asked about every type; a `BaseConverter` only about
types (and class tables) whose mapping types have the target class `dict` (`Ty.plainMaps`, `World.plainMaps`) -- its
`_structure_dict` returns a plain `dict` for `OrderedDict[K, V]` / `defaultdict[K, V]` too and it has no hook for
`Counter[K]`: those types are outside its support (`C02_baseconverter_target_witness`).

"EVERY input" includes `str` / `bytes` payloads at iterating positions: a collection / heterogeneous-tuple /
NamedTuple / tuple-strategy class position structures any iterable, a `str` iterates into 1-character strings and
`bytes` into ints (`leafItems`; structured by the fuelled family `stLF` / `stLD`, whose soundness is `Leaf.sound`).
-/
namespace CattrsModel

/-- **Soundness, any input.**  For every well-formed class table, every converter configuration
(both converter classes, both strategies, both validation modes, forbid on/off), every type and
EVERY input object `o`: if `structure` returns `v` then `v` conforms to the type at every depth. -/
theorem C02_sound (w : World) (hw : w.WF) (cfg : Cfg) (t : Ty) (hm : MapsInScope w cfg t) (o v : Obj)
    (h : convStructure w cfg t o = some v) : conf w t v = true := by
  have hm' : MapsInScope w cfg.core t := by simpa [MapsInScope, Cfg.core] using hm
  unfold convStructure at h
  split at h
  · rw [modes_agree] at h; exact sound w cfg.core hw t hm' o v h
  · exact sound w cfg.core hw t hm' o v h

/-- the same for the two templates at any configuration (nested positions included) -/
theorem C02_sound_fast (w : World) (hw : w.WF) (cfg : Cfg) (t : Ty) (hm : MapsInScope w cfg t) (o v : Obj)
    (h : stF w cfg t o = some v) : conf w t v = true := sound w cfg hw t hm o v h

theorem C02_sound_detailed (w : World) (hw : w.WF) (cfg : Cfg) (t : Ty) (hm : MapsInScope w cfg t) (o v : Obj)
    (h : stD w cfg t o = .ok v) : conf w t v = true := by
  have := modes_agree w cfg t o
  rw [h] at this
  exact sound w cfg hw t hm o v this.symm

/-- **A Converter builds exactly the target class** (corollary, spelled out): an accepted result at a mapping type is a
`dict` when the type's target is `dict`, an instance of that very `dict` subclass otherwise -- never a `dict` for an
`OrderedDict[K, V]`, never a `Counter` of pairs. -/
theorem C02_target_class (w : World) (hw : w.WF) (cfg : Cfg) (hg : cfg.gen = true) (k : MK) (kt vt : Ty) (o v : Obj)
    (h : convStructure w cfg (.map k kt vt) o = some v) :
    ∃ kvs, v = mkMapObj k kvs ∧ confKV w kt vt kvs = true := by
  have hc := C02_sound w hw cfg _ (Or.inl hg) o v h
  cases v <;> simp [conf] at hc
  · rename_i kvs
    refine ⟨kvs, ?_, hc.1.1.1⟩
    have : k.target = Option.none := by simpa using hc.2
    simp [mkMapObj, this]
  · rename_i d kvs
    refine ⟨kvs, ?_, hc.1.1.1⟩
    simp [mkMapObj, hc.2]

/-- **No silent default / drop.**  If a key of a class payload is present and its value is rejected
by the field's type, the class is rejected — the field is never defaulted, dropped or passed through. -/
theorem C02_no_silent_default (w : World) (cfg : Cfg) (c : Nat) (kvs : List (Obj × Obj)) (f : Field) (t : Ty) (x : Obj)
    (hstrat : cfg.tupleStrat = false) (hf : f ∈ w.fields c) (hinit : f.init = true) (hty : f.ty = some t)
    (hpresent : dlookup kvs f.key = some x) (hbad : stF w cfg t x = Option.none) :
    stF w cfg (.cls c) (.dict kvs) = Option.none := by
  rw [stF_cls_dict w cfg hstrat]
  have : hF w cfg f x = Option.none := by unfold hF; rw [hty]; exact hbad
  rw [stFFields_present_invalid w cfg kvs (w.fields c) f x hf hinit hpresent this]

/-- **Exact arity.**  A heterogeneous tuple is only ever returned with exactly the declared arity. -/
theorem C02_het_arity (w : World) (hw : w.WF) (cfg : Cfg) (ts : List Ty) (hm : MapsInScope w cfg (.tupleHet ts))
    (o : Obj) (ys : List Obj)
    (h : stF w cfg (.tupleHet ts) o = some (.coll .tuple ys)) : ys.length = ts.length := by
  have := sound w cfg hw _ hm _ _ h
  simp only [conf] at this
  exact confT_length w ts ys this

/-- **NamedTuples: exact class and arity.**  A NamedTuple is only ever returned as an instance of exactly that class
with exactly the declared fields (defaults are never used to fill in missing items, no item is dropped). -/
theorem C02_nt_arity (w : World) (hw : w.WF) (cfg : Cfg) (c : Nat) (hm : MapsInScope w cfg (.nt c)) (o v : Obj)
    (h : stF w cfg (.nt c) o = some v) :
    ∃ fs, v = .inst c fs ∧ fs.map (·.1) = w.ntNames c ∧ fs.length = (w.fields c).length := by
  have hc := sound w cfg hw _ hm _ _ h
  cases v <;> simp [conf] at hc
  rename_i c' fs
  obtain ⟨⟨⟨rfl, _⟩, hn⟩, _⟩ := hc
  refine ⟨fs, rfl, hn, ?_⟩
  have := congrArg List.length hn
  simpa [World.ntNames] using this

/-! Non-vacuity: the example world of C04 is well-formed, and a junk payload (a list where an
`int` is required next to a valid key) is rejected, not defaulted. -/
section Examples
def exWorld2 : World :=
  { classes := [{ kind := .attrs, frozen := false, fields :=
      [ { name := "a", alias := "a", ty := some .int, dflt := .const (.int 0), init := true, required := true },
        { name := "b", alias := "b", ty := some (.coll .set .str), dflt := .none, init := true, required := true } ] }],
    enums := [[.int 1, .str "x"]] }

theorem exWorld2_WF : exWorld2.WF := by
  constructor
  · intro c f hf d hd
    match c with
    | 0 =>
      simp [exWorld2, World.fields] at hf
      rcases hf with rfl | rfl
      · simp [Dflt.value?] at hd; subst hd; simp [fconf, conf]
      · simp [Dflt.value?] at hd
    | n + 1 => simp [exWorld2, World.fields] at hf
  · intro c
    match c with
    | 0 => simp [exWorld2, World.fields]
    | n + 1 => simp [exWorld2, World.fields]

example : stF exWorld2 ⟨true, false, false, false⟩ (.cls 0)
    (.dict [(.str "a", .coll .list []), (.str "b", .coll .list [])]) = Option.none := by
  apply C02_no_silent_default exWorld2 _ 0 _ { name := "a", alias := "a", ty := some .int, dflt := .const (.int 0), init := true, required := true } .int (.coll .list [])
  · rfl
  · simp [exWorld2, World.fields]
  · rfl
  · rfl
  · simp [dlookup, Field.key, Obj.pyEq, Obj.num2?]
  · simp [stF, Obj.toInt?]

/-- `class Q(NamedTuple): x: int; y: str = "d"`: a payload with one item is rejected in both modes -- the default is
not used to fill in the missing item -- and three items are rejected as well -/
def exWorldNT : World :=
  { classes := [{ kind := .namedtuple, frozen := true, fields :=
      [ { name := "x", alias := "x", ty := some .int, dflt := .none, init := true, required := true },
        { name := "y", alias := "y", ty := some .str, dflt := .const (.str "d"), init := true, required := true } ] }],
    enums := [] }

example : stF exWorldNT ⟨true, false, false, false⟩ (.nt 0) (.coll .list [.int 1]) = Option.none := by
  simp [stF, stFT, iterItems, exWorldNT, World.isNT, World.ntTys, World.fields, Field.tyA, Obj.toInt?]
example : stD exWorldNT ⟨false, false, true, false⟩ (.nt 0) (.coll .list [.int 1])
    = .error (.ive [(Option.none, .leaf)]) := by
  simp [stD, stDT, iterItems, exWorldNT, World.isNT, World.ntTys, World.fields, Field.tyA, Obj.toInt?]
example : stF exWorldNT ⟨true, false, false, false⟩ (.nt 0) (.coll .tuple [.int 1, .str "a", .int 3]) = Option.none := by
  simp [stF, stFT, iterItems, exWorldNT, World.isNT, World.ntTys, World.fields, Field.tyA, Obj.toInt?, pyStr]
example : stF exWorldNT ⟨false, true, false, false⟩ (.nt 0) (.coll .list [.str "7", .str "b"])
    = some (.inst 0 [("x", .int 7), ("y", .str "b")]) := by
  simp [stF, stFT, iterItems, exWorldNT, World.isNT, World.ntTys, World.ntNames, World.fields, Field.tyA, Obj.toInt?, pyStr,
    ntMk, parseInt?, isDigit, digitsVal]
/-- `str` / `bytes` payloads at iterating positions are iterated: `structure("12", list[int]) == [1, 2]`,
`structure(b"a", tuple[int, ...]) == (97,)`; a character that is not a digit is reported under its index; and under
the tuple strategy `structure("7b", Q)` fills the NamedTuple / class from the characters -/
example : stF exWorld2 ⟨true, false, false, false⟩ (.coll .list .int) (.str "12") = some (.coll .list [.int 1, .int 2]) := by
  simp [stF, iterItems, Leaf.stLF_coll, leafItems, stLFL, stLF, Obj.toInt?, finishColl, SK.structTo, CK.isSet, parseInt?,
    digitsVal, isDigit]
example : stF exWorld2 ⟨false, false, false, false⟩ (.coll .tupleHomo .int) (.bytes "61") = some (.coll .tuple [.int 97]) := by
  simp [stF, iterItems, Leaf.stLF_coll, leafItems, hexBytes, stLFL, stLF, Obj.toInt?, finishColl, SK.structTo, CK.isSet]
  decide
example : stD exWorld2 ⟨true, false, true, false⟩ (.coll .list .int) (.str "1x") = .error (.ive [(some (.int 1), .leaf)]) := by
  simp [stD, iterItems, Leaf.stLD_coll, leafItems, stLDL, stLD, Obj.toInt?, SK.structTo, CK.isSet, parseInt?,
    digitsVal, isDigit, Ty.isAny]
example : stF exWorldNT ⟨true, false, false, false⟩ (.nt 0) (.str "7b") = some (.inst 0 [("x", .int 7), ("y", .str "b")]) := by
  simp [stF, iterItems, leafFuel, exWorldNT, Leaf.stLF_nt_succ, leafItems, stLFT, stLF, World.isNT, World.ntTys, World.ntNames,
    World.fields, Field.tyA, Obj.toInt?, pyStr, ntMk, parseInt?, isDigit, digitsVal]
/-- `structure({"a": 2}, Counter[str])` with a `Converter`: a `Counter`, in both modes (never `Counter({('a', 2): 1})`) -/
example : stF exWorld2 ⟨true, false, false, false⟩ (.map .counter .str .int) (.dict [(.str "a", .str "2")])
    = some (.mdict .counter [(.str "a", .int 2)]) := by
  simp [stF, stFKV, pyStr, Obj.toInt?, parseInt?, isDigit, digitsVal, keysOf, hashableL, hashable, mapRes, mkMapObj,
    MK.target, mkDict, dictSet]
example : stD exWorld2 ⟨true, false, true, false⟩ (.map .counter .str .int) (.dict [(.str "a", .str "2")])
    = .ok (.mdict .counter [(.str "a", .int 2)]) := by
  simp [stD, stDKV, pyStr, Obj.toInt?, parseInt?, isDigit, digitsVal, hashable, mapRes, mkMapObj,
    MK.target, mkDict, dictSet]
example : MapsInScope exWorld2 ⟨true, false, false, false⟩ (.map .counter .str .int) := Or.inl rfl
/-- **The scope condition cannot be dropped for a `BaseConverter`**: `BaseConverter().structure({"a": 1},
OrderedDict[str, int])` returns a plain `dict`, which is not a value of `OrderedDict[str, int]` -- replayed on the
implementation by the check on every run. -/
theorem C02_baseconverter_target_witness :
    stF exWorld2 ⟨false, false, false, false⟩ (.map .ordered .str .int) (.dict [(.str "a", .int 1)])
      = some (.dict [(.str "a", .int 1)])
    ∧ conf exWorld2 (.map .ordered .str .int) (.dict [(.str "a", .int 1)]) = false := by
  constructor
  · simp [stF, stFKV, pyStr, Obj.toInt?, keysOf, hashableL, hashable, mapRes, mkDict, dictSet]
  · simp [conf, MK.target]
end Examples

end CattrsModel
