import CattrsModel.GenHook.ForbidLemmas
import CattrsModel.GenHook.NestedForbid3
import CattrsModel.GenHook.NestedInert
import CattrsModel.GenHook.TaggedCompose
import CattrsModel.GenHook.TDLemmas2
import CattrsModel.Props.C13
import CattrsModel.GenHook.TaggedKinds
/-!
# C10 — `forbid_extra_keys` rejects exactly the unknown keys; without it extras are inert

Property theorems only (model: `GenHook/Model.lean`).  `hstClsWith forbid st ci c` is the structure hook of
class number `ci` (attrs class, dataclass or NamedTuple-from-dict) generated with
`_cattrs_forbid_extra_keys = forbid`; the template (detailed / fast) is selected by `c.hc.detailed`, so every
statement covers both validation modes.  `st` — the handlers of the attribute types, i.e. the hooks of the
nested positions — is arbitrary.  The accepted keys are `allowedKeys c.hc c.attrs`: the final key (rename |
alias | name) of every handled attribute.  `extraKeys allowed kvs` are the keys of the payload that are not
accepted, in payload order (non-string keys included).
-/
namespace CattrsModel
open GenHook

/-! ## classes (attrs / dataclass / NamedTuple) -/

/-- **With the option on, structuring succeeds iff it succeeds with the option off and there is no extra
key** — for *every* payload dict, every class, every customisation, both templates; the result is the same. -/
theorem C10_forbid_ok_iff (st : StFn) (ci : Nat) (c : GCls) (kvs : List (Obj × Obj)) (y : Obj) :
    hstClsWith true st ci c (.dict kvs) = .ok y ↔
      (hstClsWith false st ci c (.dict kvs) = .ok y ∧ extraKeys (allowedKeys c.hc c.attrs) kvs = []) := by
  unfold hstClsWith
  split
  · exact hstClsD_forbid_ok_iff st ci c kvs y
  · exact hstClsF_forbid_ok_iff st ci c kvs y

/-- **Exactly the unknown keys are reported.**  On a payload that is valid (it structures with the option
off) and has extra keys, the forbidding hook fails with a `ForbiddenExtraKeysError` naming this class and
exactly `extraKeys …`: under detailed validation as the only child, without attribute note, of the class's
`ClassValidationError`; in the fast template as the raised exception itself. -/
theorem C10_forbid_reports (st : StFn) (ci : Nat) (c : GCls) (kvs : List (Obj × Obj)) (y : Obj)
    (hvalid : hstClsWith false st ci c (.dict kvs) = .ok y)
    (hex : extraKeys (allowedKeys c.hc c.attrs) kvs ≠ []) :
    hstClsWith true st ci c (.dict kvs)
      = .error (forbidReport c.hc.detailed ci (extraKeys (allowedKeys c.hc c.attrs) kvs)) := by
  unfold hstClsWith forbidReport at *
  split
  · rename_i hd; rw [if_pos hd] at hvalid; exact hstClsD_forbid_reports st ci c kvs y hvalid hex
  · rename_i hd; rw [if_neg hd] at hvalid; exact hstClsF_forbid_reports st ci c kvs y hvalid hex

/-- **fails ⇔ extras ≠ ∅** on valid payloads -/
theorem C10_forbid_iff (st : StFn) (ci : Nat) (c : GCls) (kvs : List (Obj × Obj)) (y : Obj)
    (hvalid : hstClsWith false st ci c (.dict kvs) = .ok y) :
    (∃ e, hstClsWith true st ci c (.dict kvs) = .error e) ↔ extraKeys (allowedKeys c.hc c.attrs) kvs ≠ [] := by
  constructor
  · rintro ⟨e, he⟩ hnil
    have := (C10_forbid_ok_iff st ci c kvs y).mpr ⟨hvalid, hnil⟩
    rw [this] at he; cases he
  · intro hex
    exact ⟨_, C10_forbid_reports st ci c kvs y hvalid hex⟩

/-- the reported keys are the keys of the payload entries that are not accepted, in payload order -/
theorem C10_extras_exact (allowed : List Obj) (kvs : List (Obj × Obj)) :
    extraKeys allowed kvs = keysOf (kvs.filter (fun kv => !Obj.memPy kv.1 allowed)) :=
  extraKeys_eq_filter allowed kvs

/-- **Extras are inert with the option off.**  The non-forbidding hook reads the payload only through the
accepted keys: two payloads that agree on them give the same outcome (value or error). -/
theorem C10_inert (st : StFn) (ci : Nat) (c : GCls) (kvs kvs' : List (Obj × Obj))
    (h : SameOnAccepted c.hc c.attrs kvs kvs') :
    hstClsWith false st ci c (.dict kvs) = hstClsWith false st ci c (.dict kvs') := by
  unfold hstClsWith
  split
  · exact hstClsD_off_congr st ci c h
  · exact hstClsF_off_congr st ci c h

/-- in particular: the outcome on a payload equals the outcome on the payload with every unknown entry
removed — adding unknown keys (anywhere, with any value, string or not) never changes the outcome -/
theorem C10_inert_extras (st : StFn) (ci : Nat) (c : GCls) (kvs : List (Obj × Obj)) :
    hstClsWith false st ci c (.dict kvs)
      = hstClsWith false st ci c (.dict (kvs.filter (fun kv => Obj.memPy kv.1 (allowedKeys c.hc c.attrs)))) :=
  C10_inert st ci c _ _ (sameOnAccepted_filter c.hc c.attrs kvs)

/-! ## TypedDicts -/

theorem C10_td_forbid_ok_iff (st : StFn) (ci : Nat) (c : GCls) (kvs : List (Obj × Obj)) (y : Obj) :
    hstTDWith true st ci c (.dict kvs) = .ok y ↔
      (hstTDWith false st ci c (.dict kvs) = .ok y ∧ extraKeys (tdAllowed c.hc c.attrs) kvs = []) := by
  unfold hstTDWith
  split
  · exact hstTDD_forbid_ok_iff st ci c kvs y
  · exact hstTDF_forbid_ok_iff st ci c kvs y

theorem C10_td_forbid_reports (st : StFn) (ci : Nat) (c : GCls) (kvs : List (Obj × Obj)) (y : Obj)
    (hvalid : hstTDWith false st ci c (.dict kvs) = .ok y)
    (hex : extraKeys (tdAllowed c.hc c.attrs) kvs ≠ []) :
    hstTDWith true st ci c (.dict kvs)
      = .error (forbidReport c.hc.detailed ci (extraKeys (tdAllowed c.hc c.attrs) kvs)) := by
  unfold hstTDWith forbidReport at *
  split
  · rename_i hd; rw [if_pos hd] at hvalid; exact hstTDD_forbid_reports st ci c kvs y hvalid hex
  · rename_i hd; rw [if_neg hd] at hvalid; exact hstTDF_forbid_reports st ci c kvs y hvalid hex

theorem C10_td_forbid_iff (st : StFn) (ci : Nat) (c : GCls) (kvs : List (Obj × Obj)) (y : Obj)
    (hvalid : hstTDWith false st ci c (.dict kvs) = .ok y) :
    (∃ e, hstTDWith true st ci c (.dict kvs) = .error e) ↔ extraKeys (tdAllowed c.hc c.attrs) kvs ≠ [] := by
  constructor
  · rintro ⟨e, he⟩ hnil
    have := (C10_td_forbid_ok_iff st ci c kvs y).mpr ⟨hvalid, hnil⟩
    rw [this] at he; cases he
  · intro hex
    exact ⟨_, C10_td_forbid_reports st ci c kvs y hvalid hex⟩

/-! ### F9 (recorded finding): TypedDict extras are *not* inert

Full statement (false for the code as it is; kept for the record):
```
theorem C10_td_inert (st ci c kvs) :
    hstTDWith false st ci c (.dict kvs)
      = hstTDWith false st ci c (.dict (kvs.filter (fun kv => Obj.memPy kv.1 (tdAllowed c.hc c.attrs))))
```
The TypedDict templates start from `o.copy()`, so unknown keys survive into the result. -/

section Examples
def C10Ex.exAttr10 (n : String) (t : Ty) (d : Dflt) : Attr :=
  { name := n, alias := n, ty := some t, dflt := d, init := true, required := true, kwOnly := false }
def C10Ex.idSt10 : StFn := fun _ v => .ok v
def C10Ex.exHc10 (detailed : Bool) : HookCfg :=
  { ovs := [("a", { Ovr.neutral with rename := some "k" })], useAlias := false, inclInitFalse := false, oid := false,
    forbid := false, detailed := detailed }
def C10Ex.exCls10 (detailed : Bool) : GCls :=
  { kind := .dataclass, frozen := false, hc := C10Ex.exHc10 detailed,
    attrs := [C10Ex.exAttr10 "a" .int .none, C10Ex.exAttr10 "b" .int (.const (.int 2))] }
def C10Ex.exTD10 (detailed : Bool) : GCls :=
  { kind := .typeddict, frozen := false, hc := { C10Ex.exHc10 detailed with ovs := [] }, attrs := [C10Ex.exAttr10 "a" .int .none] }

/-- non-vacuity of `C10_forbid_reports`: the original name of a renamed attribute and a non-string key are
extras; both templates report exactly them -/
example : hstClsWith false C10Ex.idSt10 3 (C10Ex.exCls10 true) (.dict [(.str "k", .int 1), (.str "a", .int 9), (.int 7, .none)])
    = .ok (.inst 3 [("a", .int 1), ("b", .int 2)]) := by rfl
example : extraKeys (allowedKeys (C10Ex.exCls10 true).hc (C10Ex.exCls10 true).attrs) [(.str "k", .int 1), (.str "a", .int 9), (.int 7, .none)]
    = [.str "a", .int 7] := by decide
example : hstClsWith true C10Ex.idSt10 3 (C10Ex.exCls10 true) (.dict [(.str "k", .int 1), (.str "a", .int 9), (.int 7, .none)])
    = .error (.cve [(none, .extra 3 [.str "a", .int 7])]) := by rfl
example : hstClsWith true C10Ex.idSt10 3 (C10Ex.exCls10 false) (.dict [(.str "k", .int 1), (.str "a", .int 9), (.int 7, .none)])
    = .error (.extra 3 [.str "a", .int 7]) := by rfl
example : hstClsWith true C10Ex.idSt10 3 (C10Ex.exCls10 false) (.dict [(.str "b", .int 5), (.str "k", .int 1)])
    = .ok (.inst 3 [("a", .int 1), ("b", .int 5)]) := by rfl

/-- **F9 witness**: `{'a': 1, 'zzz': 5}` structured as `TypedDict('T', {'a': int})` with the option off keeps
`zzz` — the result differs from the result without the extra key (both templates). -/
theorem C10_typeddict_extras_witness :
    (hstTDWith false C10Ex.idSt10 0 (C10Ex.exTD10 true) (.dict [(.str "a", .int 1), (.str "zzz", .int 5)])
        = .ok (.dict [(.str "a", .int 1), (.str "zzz", .int 5)])
      ∧ hstTDWith false C10Ex.idSt10 0 (C10Ex.exTD10 true) (.dict [(.str "a", .int 1)]) = .ok (.dict [(.str "a", .int 1)]))
    ∧ (hstTDWith false C10Ex.idSt10 0 (C10Ex.exTD10 false) (.dict [(.str "a", .int 1), (.str "zzz", .int 5)])
        = .ok (.dict [(.str "a", .int 1), (.str "zzz", .int 5)])
      ∧ hstTDWith false C10Ex.idSt10 0 (C10Ex.exTD10 false) (.dict [(.str "a", .int 1)]) = .ok (.dict [(.str "a", .int 1)])) :=
  ⟨⟨by rfl, by rfl⟩, ⟨by rfl, by rfl⟩⟩

/-- hence the inertness statement fails for TypedDicts -/
theorem C10_typeddict_not_inert_witness :
    ¬ (∀ (st : StFn) (ci : Nat) (c : GCls) (kvs : List (Obj × Obj)),
        hstTDWith false st ci c (.dict kvs)
          = hstTDWith false st ci c (.dict (kvs.filter (fun kv => Obj.memPy kv.1 (tdAllowed c.hc c.attrs))))) := by
  intro h
  have h1 := h C10Ex.idSt10 0 (C10Ex.exTD10 true) [(.str "a", .int 1), (.str "zzz", .int 5)]
  have e1 : ([(Obj.str "a", Obj.int 1), (Obj.str "zzz", Obj.int 5)].filter
      (fun kv => Obj.memPy kv.1 (tdAllowed (C10Ex.exTD10 true).hc (C10Ex.exTD10 true).attrs))) = [(.str "a", .int 1)] := by decide
  rw [e1, C10_typeddict_extras_witness.1.1, C10_typeddict_extras_witness.1.2] at h1
  injection h1 with h1
  injection h1 with h1
  have : ([(Obj.str "a", Obj.int 1), (Obj.str "zzz", Obj.int 5)] : List (Obj × Obj)).length = [(Obj.str "a", Obj.int 1)].length := by
    rw [h1]
  simp at this

/-- with the option on, the same TypedDict payload is rejected and exactly `zzz` is reported -/
example : hstTDWith true C10Ex.idSt10 0 (C10Ex.exTD10 true) (.dict [(.str "a", .int 1), (.str "zzz", .int 5)])
    = .error (.cve [(none, .extra 0 [.str "zzz"])]) := by rfl
end Examples

/-! ## unbounded nesting: the composition `stTy`

`stTy g n` ties the structure hooks of the class table `g` together through the field types (`n` = recursion budget;
per-class `forbid` flags, per-class templates, the converter's `detailed_validation` for collections).  `g.off` is the
same table with every `forbid` flag off.  `hits g n t p`: some forbidding class position of the payload `p` -- reached
from the root through the entries of handled attributes, optionals, wrappers and collection items, at any depth --
has a key outside its accepted keys.  No hypothesis on the payload, the customisations or the budget. -/

/-- **`forbid_extra_keys` at any nesting depth.**  Structuring succeeds with result `y` iff it succeeds with result `y`
with forbidding switched off everywhere and no forbidding class position of the payload, at any depth, got an extra
key -- for every class table, type, payload (extras injected at any set of positions), template mix and budget. -/
theorem C10_forbid_iff_nested (g : GWorld) (n : Nat) (t : Option Ty) (p y : Obj) :
    stTy g n t p = .ok y ↔ (stTy g.off n t p = .ok y ∧ hits g n t p = false) :=
  forbid_iff_nested g n t p y

/-- on a valid payload (it structures with forbidding off): **fails iff some forbidding position got an extra key** -/
theorem C10_forbid_fails_iff_nested (g : GWorld) (n : Nat) (t : Option Ty) (p y : Obj)
    (hvalid : stTy g.off n t p = .ok y) :
    (∃ e, stTy g n t p = .error e) ↔ hits g n t p = true := by
  constructor
  · rintro ⟨e, he⟩
    cases hh : hits g n t p with
    | true => rfl
    | false =>
      have := (forbid_iff_nested g n t p y).mpr ⟨hvalid, hh⟩
      rw [this] at he; cases he
  · intro hh
    cases hr : stTy g n t p with
    | error e => exact ⟨e, rfl⟩
    | ok y' =>
      have := ((forbid_iff_nested g n t p y').mp hr).2
      rw [hh] at this; cases this

/-- **Inertness at any nesting depth**: when no hook of the table forbids extra keys, two payloads that agree on what
the hooks read (`sameRead`: at every attrs / dataclass / NamedTuple position the entries under the accepted keys,
recursively; anything else in those dicts is free) have the same outcome, value or error.  TypedDict positions are
excluded from the freedom (`sameRead` demands equality there): recorded finding F9. -/
theorem C10_inert_nested (g : GWorld) (hnf : g.noForbid = true) (n : Nat) (t : Option Ty) (p q : Obj)
    (h : sameRead g n t p q) : stTy g n t p = stTy g n t q :=
  inert_nested g hnf n t p q h

section NestedExamples
/-- dataclass 1 `{inner: list[C0], n: int = 0}` (not forbidding) over attrs class 0 `{a: int → 'k'}` (forbidding) -/
def C10Ex.nestWorld : GWorld :=
  { detailed := true, enums := [],
    classes :=
      [ { kind := .attrs, frozen := false, hc := { C10Ex.exHc10 false with forbid := true },
          attrs := [C10Ex.exAttr10 "a" .int .none] },
        { kind := .dataclass, frozen := false, hc := { C10Ex.exHc10 true with ovs := [] },
          attrs := [C10Ex.exAttr10 "inner" (.coll .list (.cls 0)) .none, C10Ex.exAttr10 "n" .int (.const (.int 0))] } ] }

/-- an extra key two levels down, under a forbidding class, is a hit; the same key at the non-forbidding top is not -/
example : hits C10Ex.nestWorld 9 (some (.cls 1))
    (.dict [(.str "inner", .coll .list [.dict [(.str "k", .int 1)], .dict [(.str "k", .int 2), (.str "a", .int 3)]])]) = true := by
  decide
example : hits C10Ex.nestWorld 9 (some (.cls 1))
    (.dict [(.str "zzz", .int 5), (.str "inner", .coll .list [.dict [(.str "k", .int 1)]])]) = false := by decide
/-- non-vacuity of `C10_inert_nested`: with forbidding off, unknown entries (string or not) are free -/
example : sameRead C10Ex.nestWorld.off 2 (some (.cls 0)) (.dict [(.str "k", .int 1)])
    (.dict [(.int 7, .none), (.str "k", .int 1), (.str "a", .int 3)]) := by
  refine ⟨_, _, rfl, rfl, ?_⟩
  intro a ha _
  have : a = C10Ex.exAttr10 "a" .int .none := by simpa using ha
  subst this
  exact Or.inr ⟨.int 1, .int 1, by decide, by decide, rfl⟩
example : C10Ex.nestWorld.off.noForbid = true := by decide
end NestedExamples

/-! ## tagged unions on a forbidding converter: the tag key is not an extra

`configure_tagged_union` (model `Tagged/Model.lean`, property C13) composed with the generated member hooks:
`tagHookSt U (memberHook st cls true)` is the structure hook the strategy installs on a converter with
`forbid_extra_keys=True` whose class hooks are the forbidding generated hooks (`st`: handlers of the attribute types,
arbitrary).  `U.forbid = true`: the strategy read the same converter option. -/

/-- **Any payload carrying a member's tag** (tag key at any position, any further keys): the strategy hands the member's
hook a copy *without the tag key* -- the outcome is exactly the outcome of the member's forbidding hook on the payload
minus the tag. -/
theorem C10_tag_reaches_member (U : Tagged.TU) (st : StFn) (cls : Nat → GCls)
    (hf : U.forbid = true) (hinj : Tagged.InjectiveOn U.tag U.members)
    (pkvs : List (Obj × Obj)) (t : Obj) (c : Nat) (hc : c ∈ U.members)
    (ht : dlookup pkvs U.key = some t) (hh : Tagged.tagHashable t = true) (heq : Obj.pyEq (U.tag c) t = true) :
    tagHookSt U (memberHook st cls true) (.dict pkvs) = hstClsWith true st c (cls c) (.dict (dictDel pkvs U.key)) := by
  unfold tagHookSt
  rw [C13_known_tag_injective U hinj pkvs t c hc ht hh heq, hf]
  rfl

/-- **The tag is not an extra.**  Payload = the member's dict plus the tag: accepted iff the member's forbidding hook
accepts the member's dict, with the same result (or the same error). -/
theorem C10_tag_not_extra (U : Tagged.TU) (st : StFn) (cls : Nat → GCls)
    (hf : U.forbid = true) (hinj : Tagged.InjectiveOn U.tag U.members) (hcfg : Tagged.configureOk U = true)
    (kvs : List (Obj × Obj)) (c : Nat) (hc : c ∈ U.members) (hfresh : dlookup kvs U.key = none) :
    tagHookSt U (memberHook st cls true) (.dict (dictSet kvs U.key (U.tag c))) = hstClsWith true st c (cls c) (.dict kvs) := by
  rw [Tagged.dictSet_fresh' hfresh]
  rw [C10_tag_reaches_member U st cls hf hinj _ (U.tag c) c hc (Tagged.dlookup_append_fresh hfresh _)
    (Tagged.configureOk_hashable hcfg hc) (Obj.pyEq_refl _), Tagged.dictDel_append_fresh hfresh]

/-- **Anything else is an extra, and only that is reported.**  A payload carrying member `c`'s tag whose remaining
entries are valid for `c` (they structure with the option off) but contain keys outside `c`'s accepted keys is rejected
with a `ForbiddenExtraKeysError` naming class `c` and exactly those keys -- the tag key is never among them. -/
theorem C10_tag_extras_reported (U : Tagged.TU) (st : StFn) (cls : Nat → GCls)
    (hf : U.forbid = true) (hinj : Tagged.InjectiveOn U.tag U.members)
    (pkvs : List (Obj × Obj)) (t : Obj) (c : Nat) (y : Obj) (hc : c ∈ U.members)
    (ht : dlookup pkvs U.key = some t) (hh : Tagged.tagHashable t = true) (heq : Obj.pyEq (U.tag c) t = true)
    (hnd : nodupPy (keysOf pkvs) = true)
    (hvalid : hstClsWith false st c (cls c) (.dict (dictDel pkvs U.key)) = .ok y)
    (hex : extraKeys (allowedKeys (cls c).hc (cls c).attrs) (dictDel pkvs U.key) ≠ []) :
    tagHookSt U (memberHook st cls true) (.dict pkvs)
        = .error (forbidReport (cls c).hc.detailed c (extraKeys (allowedKeys (cls c).hc (cls c).attrs) (dictDel pkvs U.key)))
    ∧ U.key ∉ extraKeys (allowedKeys (cls c).hc (cls c).attrs) (dictDel pkvs U.key) := by
  refine ⟨?_, ?_⟩
  · rw [C10_tag_reaches_member U st cls hf hinj pkvs t c hc ht hh heq]
    exact C10_forbid_reports st c (cls c) _ y hvalid hex
  · intro hmem
    have hk : U.key ∈ keysOf (dictDel pkvs U.key) := by
      simp only [extraKeys, List.mem_filter] at hmem; exact hmem.1
    have hnone : dlookup (dictDel pkvs U.key) U.key = none := dlookup_dictDel_same hnd U.tagName
    rw [dlookup_none_iff, memPy_of_mem hk] at hnone
    cases hnone

/-- **Default member.**  With a default `d` configured, a dict payload whose tag is missing, or hashable and `==` to no
member's tag, is structured by `d`'s forbidding hook on the payload minus the tag key: the tag is not an extra there
either, and every other unknown key is. -/
theorem C10_tag_default_member (U : Tagged.TU) (st : StFn) (cls : Nat → GCls) (d : Nat)
    (hf : U.forbid = true) (hd : U.default = some d) (pkvs : List (Obj × Obj))
    (hmiss : ∀ t, dlookup pkvs U.key = some t →
      Tagged.tagHashable t = true ∧ Tagged.lastMember U.tag t U.members = none) :
    tagHookSt U (memberHook st cls true) (.dict pkvs) = hstClsWith true st d (cls d) (.dict (dictDel pkvs U.key)) := by
  unfold tagHookSt
  rw [C13_default U pkvs hmiss, hd, hf]
  rfl

section TagExamples
def C10Ex.tagU (dflt : Option Nat) : Tagged.TU :=
  { members := [0, 1], tag := fun c => if c = 0 then .str "A" else .str "B", tagName := "_type", default := dflt, forbid := true }
def C10Ex.tagCls : Nat → GCls := fun _ => C10Ex.exCls10 false

/-- non-vacuity: payload of member 1 + tag is accepted; with a further key it is rejected and exactly that key is reported -/
example : tagHookSt (C10Ex.tagU none) (memberHook C10Ex.idSt10 C10Ex.tagCls true) (.dict [(.str "k", .int 1), (.str "_type", .str "B")])
    = .ok (.inst 1 [("a", .int 1), ("b", .int 2)]) := by rfl
example : tagHookSt (C10Ex.tagU none) (memberHook C10Ex.idSt10 C10Ex.tagCls true)
    (.dict [(.str "_type", .str "B"), (.str "k", .int 1), (.str "zzz", .int 5)]) = .error (.extra 1 [.str "zzz"]) := by rfl
/-- default member 0: unknown tag / no tag -/
example : tagHookSt (C10Ex.tagU (some 0)) (memberHook C10Ex.idSt10 C10Ex.tagCls true) (.dict [(.str "k", .int 1), (.str "_type", .str "nope")])
    = .ok (.inst 0 [("a", .int 1), ("b", .int 2)]) := by rfl
example : tagHookSt (C10Ex.tagU (some 0)) (memberHook C10Ex.idSt10 C10Ex.tagCls true) (.dict [(.str "k", .int 1)])
    = .ok (.inst 0 [("a", .int 1), ("b", .int 2)]) := by rfl
end TagExamples

/-! ## tagged unions whose members are TypedDicts / NamedTuples-from-dict (round 3)

`memberHookK` (GenHook/TaggedKinds.lean) is `converter.get_structure_hook(member)` by kind: the TypedDict generator for
TypedDict members, the class template for attrs classes, dataclasses and NamedTuples registered through
`namedtuple_dict_structure_factory`.  Every kind performs its own unknown-key check, so the strategy must hand every kind
the payload without the tag. -/

/-- **Any payload carrying a member's tag reaches that member's hook without the tag key — whatever kind the member
is.** -/
theorem C10_tag_reaches_member_kinds (U : Tagged.TU) (st : StFn) (cls : Nat → GCls)
    (hf : U.forbid = true) (hinj : Tagged.InjectiveOn U.tag U.members)
    (pkvs : List (Obj × Obj)) (t : Obj) (c : Nat) (hc : c ∈ U.members)
    (ht : dlookup pkvs U.key = some t) (hh : Tagged.tagHashable t = true) (heq : Obj.pyEq (U.tag c) t = true) :
    tagHookSt U (memberHookK st cls true) (.dict pkvs) = memberHookK st cls true c (.dict (dictDel pkvs U.key)) :=
  tagHookSt_reaches U _ hf hinj pkvs t c hc ht hh heq

/-- **The tag is not an extra, for members of every kind**: the member's dict plus the tag is accepted iff the member's
own forbidding hook accepts the member's dict, with the same result or the same error. -/
theorem C10_tag_not_extra_kinds (U : Tagged.TU) (st : StFn) (cls : Nat → GCls)
    (hf : U.forbid = true) (hinj : Tagged.InjectiveOn U.tag U.members) (hcfg : Tagged.configureOk U = true)
    (kvs : List (Obj × Obj)) (c : Nat) (hc : c ∈ U.members) (hfresh : dlookup kvs U.key = none) :
    tagHookSt U (memberHookK st cls true) (.dict (dictSet kvs U.key (U.tag c))) = memberHookK st cls true c (.dict kvs) := by
  rw [Tagged.dictSet_fresh' hfresh]
  rw [C10_tag_reaches_member_kinds U st cls hf hinj _ (U.tag c) c hc (Tagged.dlookup_append_fresh hfresh _)
    (Tagged.configureOk_hashable hcfg hc) (Obj.pyEq_refl _), Tagged.dictDel_append_fresh hfresh]

/-- **TypedDict member: anything else is an extra, and only that is reported.**  A payload carrying the tag of a
TypedDict member `c` whose remaining entries are valid for `c` (they structure with the option off) but contain keys
outside `c`'s accepted keys is rejected with a `ForbiddenExtraKeysError` naming `c` and exactly those keys; the tag key
is never among them. -/
theorem C10_tag_extras_reported_td (U : Tagged.TU) (st : StFn) (cls : Nat → GCls)
    (hf : U.forbid = true) (hinj : Tagged.InjectiveOn U.tag U.members)
    (pkvs : List (Obj × Obj)) (t : Obj) (c : Nat) (y : Obj) (hc : c ∈ U.members) (hk : (cls c).kind = .typeddict)
    (ht : dlookup pkvs U.key = some t) (hh : Tagged.tagHashable t = true) (heq : Obj.pyEq (U.tag c) t = true)
    (hnd : nodupPy (keysOf pkvs) = true)
    (hvalid : hstTDWith false st c (cls c) (.dict (dictDel pkvs U.key)) = .ok y)
    (hex : extraKeys (tdAllowed (cls c).hc (cls c).attrs) (dictDel pkvs U.key) ≠ []) :
    tagHookSt U (memberHookK st cls true) (.dict pkvs)
        = .error (forbidReport (cls c).hc.detailed c (extraKeys (tdAllowed (cls c).hc (cls c).attrs) (dictDel pkvs U.key)))
    ∧ U.key ∉ extraKeys (tdAllowed (cls c).hc (cls c).attrs) (dictDel pkvs U.key) := by
  refine ⟨?_, ?_⟩
  · rw [C10_tag_reaches_member_kinds U st cls hf hinj pkvs t c hc ht hh heq, memberHookK_td st cls true c _ hk]
    exact C10_td_forbid_reports st c (cls c) _ y hvalid hex
  · intro hmem
    have hk' : U.key ∈ keysOf (dictDel pkvs U.key) := by
      simp only [extraKeys, List.mem_filter] at hmem; exact hmem.1
    have hnone : dlookup (dictDel pkvs U.key) U.key = none := dlookup_dictDel_same hnd U.tagName
    rw [dlookup_none_iff, memPy_of_mem hk'] at hnone
    cases hnone

/-- **Accepted iff no extras, TypedDict member.**  With the tag of a TypedDict member and remaining entries that are valid
for it, the forbidding converter accepts the payload iff the remaining entries hold no key outside the accepted keys. -/
theorem C10_tag_td_ok_iff (U : Tagged.TU) (st : StFn) (cls : Nat → GCls)
    (hf : U.forbid = true) (hinj : Tagged.InjectiveOn U.tag U.members)
    (pkvs : List (Obj × Obj)) (t : Obj) (c : Nat) (y : Obj) (hc : c ∈ U.members) (hk : (cls c).kind = .typeddict)
    (ht : dlookup pkvs U.key = some t) (hh : Tagged.tagHashable t = true) (heq : Obj.pyEq (U.tag c) t = true) :
    tagHookSt U (memberHookK st cls true) (.dict pkvs) = .ok y ↔
      (hstTDWith false st c (cls c) (.dict (dictDel pkvs U.key)) = .ok y
        ∧ extraKeys (tdAllowed (cls c).hc (cls c).attrs) (dictDel pkvs U.key) = []) := by
  rw [C10_tag_reaches_member_kinds U st cls hf hinj pkvs t c hc ht hh heq, memberHookK_td st cls true c _ hk]
  exact C10_td_forbid_ok_iff st c (cls c) _ y

/-- **Default member of any kind.** -/
theorem C10_tag_default_member_kinds (U : Tagged.TU) (st : StFn) (cls : Nat → GCls) (d : Nat)
    (hf : U.forbid = true) (hd : U.default = some d) (pkvs : List (Obj × Obj))
    (hmiss : ∀ t, dlookup pkvs U.key = some t →
      Tagged.tagHashable t = true ∧ Tagged.lastMember U.tag t U.members = none) :
    tagHookSt U (memberHookK st cls true) (.dict pkvs) = memberHookK st cls true d (.dict (dictDel pkvs U.key)) :=
  tagHookSt_default U _ d hf hd pkvs hmiss

/-- **Negative witness (what the seeded regression does)**: a strategy that strips the tag only for attrs classes /
dataclasses hands a TypedDict member the payload WITH the tag; the member's forbidding hook then reports the tag as an
extra key although the payload is the member's own dict plus the tag. -/
theorem C10_tag_kept_for_td_witness :
    hstTDWith true C10Ex.idSt10 0 (C10Ex.exTD10 true) (.dict [(.str "a", .int 1), (.str "_type", .str "T")])
      = .error (.cve [(none, .extra 0 [.str "_type"])])
    ∧ tagHookSt { members := [0], tag := fun _ => .str "T", tagName := "_type", default := none, forbid := true }
        (memberHookK C10Ex.idSt10 (fun _ => C10Ex.exTD10 true) true) (.dict [(.str "a", .int 1), (.str "_type", .str "T")])
      = .ok (.dict [(.str "a", .int 1)]) := by
  constructor <;> rfl

end CattrsModel
