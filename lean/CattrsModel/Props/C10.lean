import CattrsModel.GenHook.ForbidLemmas
/-!
# C10 — `forbid_extra_keys` rejects exactly the unknown keys; without it extras are inert

Property theorems only (model: `GenHook/Model.lean`).  `hstClsWith forbid st ci c` is the structure hook of
class number `ci` (attrs class, dataclass or NamedTuple-from-dict) generated with
`_cattrs_forbid_extra_keys = forbid`; the template (detailed / fast) is selected by `c.hc.detailed`, so every
statement covers both validation modes.  `st` — the handlers of the attribute types, i.e. the hooks of the
nested positions — is arbitrary.  The accepted keys are `allowedKeys c.hc c.attrs`: the final key (rename |
alias | name) of every handled attribute.  `extraKeys allowed kvs` are the keys of the payload that are not
accepted, in payload order (non-string keys included).
-/
namespace CattrsModel
open GenHook

/-! ## classes (attrs / dataclass / NamedTuple) -/

/-- **With the option on, structuring succeeds iff it succeeds with the option off and there is no extra
key** — for *every* payload dict, every class, every customisation, both templates; the result is the same. -/
theorem C10_forbid_ok_iff (st : StFn) (ci : Nat) (c : GCls) (kvs : List (Obj × Obj)) (y : Obj) :
    hstClsWith true st ci c (.dict kvs) = .ok y ↔
      (hstClsWith false st ci c (.dict kvs) = .ok y ∧ extraKeys (allowedKeys c.hc c.attrs) kvs = []) := by
  unfold hstClsWith
  split
  · exact hstClsD_forbid_ok_iff st ci c kvs y
  · exact hstClsF_forbid_ok_iff st ci c kvs y

/-- **Exactly the unknown keys are reported.**  On a payload that is valid (it structures with the option
off) and has extra keys, the forbidding hook fails with a `ForbiddenExtraKeysError` naming this class and
exactly `extraKeys …`: under detailed validation as the only child, without attribute note, of the class's
`ClassValidationError`; in the fast template as the raised exception itself. -/
theorem C10_forbid_reports (st : StFn) (ci : Nat) (c : GCls) (kvs : List (Obj × Obj)) (y : Obj)
    (hvalid : hstClsWith false st ci c (.dict kvs) = .ok y)
    (hex : extraKeys (allowedKeys c.hc c.attrs) kvs ≠ []) :
    hstClsWith true st ci c (.dict kvs)
      = .error (forbidReport c.hc.detailed ci (extraKeys (allowedKeys c.hc c.attrs) kvs)) := by
  unfold hstClsWith forbidReport at *
  split
  · rename_i hd; rw [if_pos hd] at hvalid; exact hstClsD_forbid_reports st ci c kvs y hvalid hex
  · rename_i hd; rw [if_neg hd] at hvalid; exact hstClsF_forbid_reports st ci c kvs y hvalid hex

/-- **fails ⇔ extras ≠ ∅** on valid payloads -/
theorem C10_forbid_iff (st : StFn) (ci : Nat) (c : GCls) (kvs : List (Obj × Obj)) (y : Obj)
    (hvalid : hstClsWith false st ci c (.dict kvs) = .ok y) :
    (∃ e, hstClsWith true st ci c (.dict kvs) = .error e) ↔ extraKeys (allowedKeys c.hc c.attrs) kvs ≠ [] := by
  constructor
  · rintro ⟨e, he⟩ hnil
    have := (C10_forbid_ok_iff st ci c kvs y).mpr ⟨hvalid, hnil⟩
    rw [this] at he; cases he
  · intro hex
    exact ⟨_, C10_forbid_reports st ci c kvs y hvalid hex⟩

/-- the reported keys are the keys of the payload entries that are not accepted, in payload order -/
theorem C10_extras_exact (allowed : List Obj) (kvs : List (Obj × Obj)) :
    extraKeys allowed kvs = keysOf (kvs.filter (fun kv => !Obj.memPy kv.1 allowed)) :=
  extraKeys_eq_filter allowed kvs

/-- **Extras are inert with the option off.**  The non-forbidding hook reads the payload only through the
accepted keys: two payloads that agree on them give the same outcome (value or error). -/
theorem C10_inert (st : StFn) (ci : Nat) (c : GCls) (kvs kvs' : List (Obj × Obj))
    (h : SameOnAccepted c.hc c.attrs kvs kvs') :
    hstClsWith false st ci c (.dict kvs) = hstClsWith false st ci c (.dict kvs') := by
  unfold hstClsWith
  split
  · exact hstClsD_off_congr st ci c h
  · exact hstClsF_off_congr st ci c h

/-- in particular: the outcome on a payload equals the outcome on the payload with every unknown entry
removed — adding unknown keys (anywhere, with any value, string or not) never changes the outcome -/
theorem C10_inert_extras (st : StFn) (ci : Nat) (c : GCls) (kvs : List (Obj × Obj)) :
    hstClsWith false st ci c (.dict kvs)
      = hstClsWith false st ci c (.dict (kvs.filter (fun kv => Obj.memPy kv.1 (allowedKeys c.hc c.attrs)))) :=
  C10_inert st ci c _ _ (sameOnAccepted_filter c.hc c.attrs kvs)

/-! ## TypedDicts -/

theorem C10_td_forbid_ok_iff (st : StFn) (ci : Nat) (c : GCls) (kvs : List (Obj × Obj)) (y : Obj) :
    hstTDWith true st ci c (.dict kvs) = .ok y ↔
      (hstTDWith false st ci c (.dict kvs) = .ok y ∧ extraKeys (tdAllowed c.hc c.attrs) kvs = []) := by
  unfold hstTDWith
  split
  · exact hstTDD_forbid_ok_iff st ci c kvs y
  · exact hstTDF_forbid_ok_iff st ci c kvs y

theorem C10_td_forbid_reports (st : StFn) (ci : Nat) (c : GCls) (kvs : List (Obj × Obj)) (y : Obj)
    (hvalid : hstTDWith false st ci c (.dict kvs) = .ok y)
    (hex : extraKeys (tdAllowed c.hc c.attrs) kvs ≠ []) :
    hstTDWith true st ci c (.dict kvs)
      = .error (forbidReport c.hc.detailed ci (extraKeys (tdAllowed c.hc c.attrs) kvs)) := by
  unfold hstTDWith forbidReport at *
  split
  · rename_i hd; rw [if_pos hd] at hvalid; exact hstTDD_forbid_reports st ci c kvs y hvalid hex
  · rename_i hd; rw [if_neg hd] at hvalid; exact hstTDF_forbid_reports st ci c kvs y hvalid hex

theorem C10_td_forbid_iff (st : StFn) (ci : Nat) (c : GCls) (kvs : List (Obj × Obj)) (y : Obj)
    (hvalid : hstTDWith false st ci c (.dict kvs) = .ok y) :
    (∃ e, hstTDWith true st ci c (.dict kvs) = .error e) ↔ extraKeys (tdAllowed c.hc c.attrs) kvs ≠ [] := by
  constructor
  · rintro ⟨e, he⟩ hnil
    have := (C10_td_forbid_ok_iff st ci c kvs y).mpr ⟨hvalid, hnil⟩
    rw [this] at he; cases he
  · intro hex
    exact ⟨_, C10_td_forbid_reports st ci c kvs y hvalid hex⟩

/-! ### F9 (recorded finding): TypedDict extras are *not* inert

Full statement (false for the code as it is; kept for the record):
```
theorem C10_td_inert (st ci c kvs) :
    hstTDWith false st ci c (.dict kvs)
      = hstTDWith false st ci c (.dict (kvs.filter (fun kv => Obj.memPy kv.1 (tdAllowed c.hc c.attrs))))
```
The TypedDict templates start from `o.copy()`, so unknown keys survive into the result. -/

section Examples
def C10Ex.exAttr10 (n : String) (t : Ty) (d : Dflt) : Attr :=
  { name := n, alias := n, ty := some t, dflt := d, init := true, required := true, kwOnly := false }
def C10Ex.idSt10 : StFn := fun _ v => .ok v
def C10Ex.exHc10 (detailed : Bool) : HookCfg :=
  { ovs := [("a", { Ovr.neutral with rename := some "k" })], useAlias := false, inclInitFalse := false, oid := false,
    forbid := false, detailed := detailed }
def C10Ex.exCls10 (detailed : Bool) : GCls :=
  { kind := .dataclass, frozen := false, hc := C10Ex.exHc10 detailed,
    attrs := [C10Ex.exAttr10 "a" .int .none, C10Ex.exAttr10 "b" .int (.const (.int 2))] }
def C10Ex.exTD10 (detailed : Bool) : GCls :=
  { kind := .typeddict, frozen := false, hc := { C10Ex.exHc10 detailed with ovs := [] }, attrs := [C10Ex.exAttr10 "a" .int .none] }

/-- non-vacuity of `C10_forbid_reports`: the original name of a renamed attribute and a non-string key are
extras; both templates report exactly them -/
example : hstClsWith false C10Ex.idSt10 3 (C10Ex.exCls10 true) (.dict [(.str "k", .int 1), (.str "a", .int 9), (.int 7, .none)])
    = .ok (.inst 3 [("a", .int 1), ("b", .int 2)]) := by rfl
example : extraKeys (allowedKeys (C10Ex.exCls10 true).hc (C10Ex.exCls10 true).attrs) [(.str "k", .int 1), (.str "a", .int 9), (.int 7, .none)]
    = [.str "a", .int 7] := by decide
example : hstClsWith true C10Ex.idSt10 3 (C10Ex.exCls10 true) (.dict [(.str "k", .int 1), (.str "a", .int 9), (.int 7, .none)])
    = .error (.cve [(none, .extra 3 [.str "a", .int 7])]) := by rfl
example : hstClsWith true C10Ex.idSt10 3 (C10Ex.exCls10 false) (.dict [(.str "k", .int 1), (.str "a", .int 9), (.int 7, .none)])
    = .error (.extra 3 [.str "a", .int 7]) := by rfl
example : hstClsWith true C10Ex.idSt10 3 (C10Ex.exCls10 false) (.dict [(.str "b", .int 5), (.str "k", .int 1)])
    = .ok (.inst 3 [("a", .int 1), ("b", .int 5)]) := by rfl

/-- **F9 witness**: `{'a': 1, 'zzz': 5}` structured as `TypedDict('T', {'a': int})` with the option off keeps
`zzz` — the result differs from the result without the extra key (both templates). -/
theorem C10_typeddict_extras_witness :
    (hstTDWith false C10Ex.idSt10 0 (C10Ex.exTD10 true) (.dict [(.str "a", .int 1), (.str "zzz", .int 5)])
        = .ok (.dict [(.str "a", .int 1), (.str "zzz", .int 5)])
      ∧ hstTDWith false C10Ex.idSt10 0 (C10Ex.exTD10 true) (.dict [(.str "a", .int 1)]) = .ok (.dict [(.str "a", .int 1)]))
    ∧ (hstTDWith false C10Ex.idSt10 0 (C10Ex.exTD10 false) (.dict [(.str "a", .int 1), (.str "zzz", .int 5)])
        = .ok (.dict [(.str "a", .int 1), (.str "zzz", .int 5)])
      ∧ hstTDWith false C10Ex.idSt10 0 (C10Ex.exTD10 false) (.dict [(.str "a", .int 1)]) = .ok (.dict [(.str "a", .int 1)])) :=
  ⟨⟨by rfl, by rfl⟩, ⟨by rfl, by rfl⟩⟩

/-- hence the inertness statement fails for TypedDicts -/
theorem C10_typeddict_not_inert_witness :
    ¬ (∀ (st : StFn) (ci : Nat) (c : GCls) (kvs : List (Obj × Obj)),
        hstTDWith false st ci c (.dict kvs)
          = hstTDWith false st ci c (.dict (kvs.filter (fun kv => Obj.memPy kv.1 (tdAllowed c.hc c.attrs))))) := by
  intro h
  have h1 := h C10Ex.idSt10 0 (C10Ex.exTD10 true) [(.str "a", .int 1), (.str "zzz", .int 5)]
  have e1 : ([(Obj.str "a", Obj.int 1), (Obj.str "zzz", Obj.int 5)].filter
      (fun kv => Obj.memPy kv.1 (tdAllowed (C10Ex.exTD10 true).hc (C10Ex.exTD10 true).attrs))) = [(.str "a", .int 1)] := by decide
  rw [e1, C10_typeddict_extras_witness.1.1, C10_typeddict_extras_witness.1.2] at h1
  injection h1 with h1
  injection h1 with h1
  have : ([(Obj.str "a", Obj.int 1), (Obj.str "zzz", Obj.int 5)] : List (Obj × Obj)).length = [(Obj.str "a", Obj.int 1)].length := by
    rw [h1]
  simp at this

/-- with the option on, the same TypedDict payload is rejected and exactly `zzz` is reported -/
example : hstTDWith true C10Ex.idSt10 0 (C10Ex.exTD10 true) (.dict [(.str "a", .int 1), (.str "zzz", .int 5)])
    = .error (.cve [(none, .extra 0 [.str "zzz"])]) := by rfl
end Examples

end CattrsModel
