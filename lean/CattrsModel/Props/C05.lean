import CattrsModel.Paths.LemmasExact
import CattrsModel.Paths.LemmasTE
import CattrsModel.Paths.Views
import CattrsModel.Lemmas.RoundTrip
/-!
# C05 — detailed validation reports exactly the faulty paths, one leaf error per fault

Property theorems only.  Vocabulary (definitions in `Paths/Model.lean`):

* `stD w cfg T o` is `Converter(detailed_validation=True, ...).structure(o, T)` of the model; an error is a
  tree `Err` (`cve` = `ClassValidationError`, `ive` = `IterableValidationError`, children carry the
  `AttributeValidationNote.name` / `IterableValidationNote.index`, `extra` = `ForbiddenExtraKeysError`).
* A *valid payload* is one `stD` accepts.  `Fault` = one local edit of it at a path (`badLeaf`: replace the
  sub-payload by a value the position's type rejects with a plain exception; `missingKey`: delete a required
  key; `extraKeys`: add keys, on a `forbid_extra_keys` converter; `arity`: append elements to a heterogeneous
  tuple or to the payload of a NamedTuple -- a NamedTuple position raises the iterable-level group of the
  heterogeneous tuple of its field types, both converter classes); `inject p0 fs` applies them; `app w cfg T p0 fs` says that `fs` is independent and applicable to
  `p0` at type `T` (no two faults at one place, none below a replaced value or a deleted key, a rejecting
  value really is rejected — there is none for `str`/`bool`/`Any` —, class positions on a `Converter` with the
  dict strategy: `BaseConverter` and the tuple strategy raise no class-level groups).  A class-union position
  takes a `badLeaf` fault itself (the union hook raises a bare exception); faults *below* a union position are
  outside the fault model (`app` is false for them): an edit there may change which member is chosen.
* `paths e` / `leaves e`: the note paths from the root to the leaf errors / their number; `shapeOK w T e`:
  class-level groups exactly at class / TypedDict positions, iterable-level groups exactly at collection /
  tuple / mapping positions, every child noted with an attribute name of that class / an index / a key (the only
  un-noted children: the extra-keys error and the arity error, both reported at the group's own path);
  `transformError` is the line-by-line model of `cattrs.transform_error`.

The `type` attribute of the notes is not part of `Err`; that it is the declared type of the position is checked
on the implementation by the harness oracle and compared with the templates' choice by the correspondence.
-/
namespace CattrsModel
open Paths

/-- **Exactly the faulty paths.**  For every class table with distinct attribute names, every converter
configuration, every type (unbounded nesting), every valid payload and every non-empty list of independent,
applicable faults (any number, any depth): structuring the faulted payload fails with ONE error tree whose
groups have the kind of their position, which has exactly one leaf error per fault, and whose note paths are,
as a multiset, exactly the report paths of the faults — so valid siblings contribute nothing. -/
theorem C05_exact_paths (w : World) (hw : w.WF) (cfg : Cfg) (T : Ty) (p0 : Obj) (fs : List Fault)
    (hvalid : ∃ v, stD w cfg T p0 = .ok v) (happ : app w cfg T p0 fs = true) (hne : fs ≠ []) :
    ∃ e, stD w cfg T (inject p0 fs) = .error e ∧ shapeOK w T e = true ∧ leaves e = fs.length ∧
      (paths e).Perm (fs.map Fault.reportPath) := by
  obtain ⟨e, he, hs, hp⟩ := exact_aux w cfg hw.namesNodup (sizeOf p0) (sizeOf T) T p0 fs
    (Nat.le_refl _) (Nat.le_refl _) hne hvalid happ
  refine ⟨e, he, hs, ?_, hp.symm⟩
  rw [leaves_eq]
  have := hp.length_eq
  simpa using this.symm

/-- **`transform_error` is total and faithful.**  On every error tree (a fortiori on every tree the model can
produce) the model of `cattrs.transform_error` yields one message per leaf error, and the paths of its messages
are exactly the note paths of the tree (the noted sub-exceptions are reported first, hence a permutation). -/
theorem C05_transform_total (e : Err) :
    (transformError e []).length = leaves e ∧ ((transformError e []).map (·.1)).Perm (paths e) := by
  refine ⟨?_, te_root e⟩
  rw [leaves_eq]
  simpa using (te_root e).length_eq

/-- Corollary: one message per fault, at the fault's path. -/
theorem C05_messages (w : World) (hw : w.WF) (cfg : Cfg) (T : Ty) (p0 : Obj) (fs : List Fault)
    (hvalid : ∃ v, stD w cfg T p0 = .ok v) (happ : app w cfg T p0 fs = true) (hne : fs ≠ []) :
    ∃ e, stD w cfg T (inject p0 fs) = .error e ∧
      ((transformError e []).map (·.1)).Perm (fs.map Fault.reportPath) := by
  obtain ⟨e, he, _, _, hp⟩ := C05_exact_paths w hw cfg T p0 fs hvalid happ hne
  exact ⟨e, he, (C05_transform_total e).2.trans hp⟩

/-- **No spurious error.**  The fault-free payload of a conforming value — `unstructure(x, T)` for `x` a value
of `T` at every depth — raises nothing under detailed validation (scope hypotheses of C01: Converter, supported
constructors), and injecting the empty fault list changes nothing. -/
theorem C05_no_spurious (w : World) (cfg : Cfg) (T : Ty) (x : Obj)
    (hgen : cfg.gen = true) (hforbid : cfg.forbid = false)
    (hw : w.WF) (hwe : w.WFE) (hws : w.supG true) (hs : T.supG true = true)
    (hwu : w.unionsOK cfg.tupleStrat) (hu : T.unionsOK w cfg.tupleStrat = true)
    (hc : conf w T x = true) (hv : x.valid = true) :
    stD w cfg T (inject (un w cfg T x) []) = .ok x := by
  rw [inject_nil]
  have key := roundtrip w cfg cfg hgen rfl hforbid hw hwe (by rw [hgen]; exact hws) hwu T x (by rw [hgen]; exact hs) hu hc hv
  have ma := modes_agree w cfg T (un w cfg T x)
  rw [key] at ma
  cases hr : stD w cfg T (un w cfg T x) with
  | ok v => rw [hr] at ma; simp [Res.toOption] at ma; rw [ma]
  | error e => rw [hr] at ma; simp [Res.toOption] at ma

/-- The statement of the property in its own words: a conforming value, unstructured, then faulted. -/
theorem C05_exact_paths_conforming (w : World) (cfg : Cfg) (T : Ty) (x : Obj) (fs : List Fault)
    (hgen : cfg.gen = true) (hforbid : cfg.forbid = false)
    (hw : w.WF) (hwe : w.WFE) (hws : w.supG true) (hs : T.supG true = true)
    (hwu : w.unionsOK cfg.tupleStrat) (hu : T.unionsOK w cfg.tupleStrat = true)
    (hc : conf w T x = true) (hv : x.valid = true)
    (happ : app w cfg T (un w cfg T x) fs = true) (hne : fs ≠ []) :
    ∃ e, stD w cfg T (inject (un w cfg T x) fs) = .error e ∧ shapeOK w T e = true ∧ leaves e = fs.length ∧
      (paths e).Perm (fs.map Fault.reportPath) := by
  have h0 := C05_no_spurious w cfg T x hgen hforbid hw hwe hws hs hwu hu hc hv
  rw [inject_nil] at h0
  exact C05_exact_paths w hw cfg T (un w cfg T x) fs ⟨x, h0⟩ happ hne

/-! Non-vacuity: a TypedDict holding a list of attrs instances (an int, a list of ints, a heterogeneous tuple), a
`forbid_extra_keys` Converter, and four independent faults at depths 2..4 of one valid payload: a bad leaf, a bad
list element, a wrong tuple arity and a non-string extra key.  Every hypothesis of `C05_exact_paths` holds; the
error tree is the expected one. -/
section Examples
def c05World : World :=
  { classes :=
      [ { kind := .attrs, frozen := false, fields :=
            [ { name := "a", alias := "a", ty := some .int, dflt := .none, init := true, required := true },
              { name := "b", alias := "b", ty := some (.coll .list .int), dflt := .none, init := true, required := true },
              { name := "t", alias := "t", ty := some (.tupleHet [.int, .str]), dflt := .none, init := true, required := true } ] },
        { kind := .typeddict, frozen := false, fields :=
            [ { name := "k", alias := "k", ty := some (.coll .list (.cls 0)), dflt := .none, init := true, required := true } ] } ],
    enums := [] }
def c05Cfg : Cfg := { gen := true, tupleStrat := false, detailed := false, forbid := true }
def c05Payload : Obj :=
  .dict [(.str "k", .coll .list [.dict [(.str "a", .int 1), (.str "b", .coll .list [.int 1, .int 2]),
                                        (.str "t", .coll .tuple [.int 1, .str "x"])]])]
def c05Value : Obj :=
  .dict [(.str "k", .coll .list [.inst 0 [("a", .int 1), ("b", .coll .list [.int 1, .int 2]),
                                          ("t", .coll .tuple [.int 1, .str "x"])]])]
def c05Faults : List Fault :=
  [ .badLeaf [.attr "k", .idx (.int 0), .attr "a"] (.str "x"),
    .arity [.attr "k", .idx (.int 0), .attr "t"] [.none],
    .extraKeys [.attr "k", .idx (.int 0)] [(.int 3, .none)],
    .badLeaf [.attr "k", .idx (.int 0), .attr "b", .idx (.int 1)] .none ]

theorem c05World_WF : c05World.WF := by
  constructor
  · intro c f hf d hd
    match c with
    | 0 =>
      simp [c05World, World.fields] at hf
      rcases hf with rfl | rfl | rfl <;> simp [Dflt.value?] at hd
    | 1 =>
      simp [c05World, World.fields] at hf
      subst hf; simp [Dflt.value?] at hd
    | n + 2 => simp [c05World, World.fields] at hf
  · intro c
    match c with
    | 0 => simp [c05World, World.fields]
    | 1 => simp [c05World, World.fields]
    | n + 2 => simp [c05World, World.fields]

set_option maxRecDepth 8000 in
theorem c05_valid : stD c05World c05Cfg (.td 1) c05Payload = .ok c05Value := by
  simp (config := {decide := true}) [c05Value, stD, stDTD, stDL, stDT, stDFields, c05World, c05Cfg, c05Payload, World.fields,
    Field.key, dlookup, Obj.pyEq, Obj.num2?, extraKeys, fieldNames, initFields, keysOf, Obj.memPy, iterItems, Ty.isAny,
    Obj.toInt?, pyStr, SK.structTo, CK.isSet, mkColl, dictSet]

set_option maxRecDepth 8000 in
theorem c05_app : app c05World c05Cfg (.td 1) c05Payload c05Faults = true := by
  simp (config := {decide := true}) [app, appTD, appL, appT, appFields, c05World, c05Cfg, c05Payload, c05Faults, World.fields,
    Field.key, dlookup, Obj.pyEq, Obj.num2?, sub, rest, Fault.under, Fault.notUnder, Fault.path, Fault.withPath, Seg.matches,
    soleBad, badHere, isMissingHere, dropMissing, headIsAttr, extraOK, arityOK, fieldNames, initFields, isLeafErr, stD,
    Obj.toInt?, parseInt?, keysOf, nodupPy, Obj.memPy, Ty.isAny, List.filterMap_cons, List.filter_cons]

example : ∃ e, stD c05World c05Cfg (.td 1) (inject c05Payload c05Faults) = .error e ∧ shapeOK c05World (.td 1) e = true ∧
    leaves e = 4 ∧ (paths e).Perm (c05Faults.map Fault.reportPath) :=
  C05_exact_paths c05World c05World_WF c05Cfg (.td 1) c05Payload c05Faults ⟨_, c05_valid⟩ c05_app (by simp [c05Faults])

/-- the reported paths of the example, as `transform_error` prints them -/
example : c05Faults.map (fun f => renderPath f.reportPath) = ["$.k[0].a", "$.k[0].t", "$.k[0]", "$.k[0].b[1]"] := by
  decide

/-- **Independence is needed** (negative witness): a bad element *below a deleted key* is not an applicable
fault list, and indeed only one of the two faults is reported. -/
theorem C05_dependent_faults_witness :
    let fs : List Fault := [.missingKey [] "b", .badLeaf [.attr "b", .idx (.int 0)] .none]
    let p0 : Obj := .dict [(.str "a", .int 1), (.str "b", .coll .list [.int 1]), (.str "t", .coll .tuple [.int 1, .str "x"])]
    app c05World c05Cfg (.cls 0) p0 fs = false ∧
    stD c05World c05Cfg (.cls 0) (inject p0 fs) = .error (.cve [(some "b", .leaf)]) := by
  constructor
  · simp (config := {decide := true}) [app, appFields, c05World, c05Cfg, World.fields, Field.key, dlookup, Obj.pyEq, Obj.num2?,
      sub, rest, Fault.under, Fault.notUnder, Fault.path, Fault.withPath, Seg.matches, soleBad, badHere, isMissingHere,
      dropMissing, headIsAttr, List.filterMap_cons, List.filter_cons]
  · simp (config := {decide := true}) [inject, injectKV, injectL, missingHere, isMissingHere, badHere, extraHere, arityHere, sub,
      Fault.under, Fault.path, Fault.withPath, Seg.matches, stD, stDFields, stDL, stDT, c05World, c05Cfg, World.fields,
      Field.key, dlookup, Obj.pyEq, Obj.num2?, extraKeys, fieldNames, initFields, keysOf, Obj.memPy, iterItems, Ty.isAny,
      Obj.toInt?, pyStr, Dflt.value?, List.filterMap_cons]
end Examples

/-! ## converter options that select other branches of the class template (round 3)

`Paths/Views.lean`: `prefer_attrib_converters=True` (attrs attributes with `converter=` have no structure handler) and hooks
that include `init=False` attributes are the same template seen through a view of the class table.  The check runs both
options on the real converter against these views. -/

/-- **Handler-less attributes.**  Whatever attributes lose their structure handler (`m`), for a table with distinct
attribute names: a valid payload with independent applicable faults -- in particular *missing keys of required
handler-less attributes*, which `app` admits like any other missing key -- yields one error tree of the right shape with
exactly one leaf per fault at the fault's path. -/
theorem C05_exact_paths_prefer_view (w : World) (hw : w.WF) (m : Nat → String → Bool) (cfg : Cfg) (T : Ty) (p0 : Obj)
    (fs : List Fault) (hvalid : ∃ v, stD (preferView m w) cfg T p0 = .ok v)
    (happ : app (preferView m w) cfg T p0 fs = true) (hne : fs ≠ []) :
    ∃ e, stD (preferView m w) cfg T (inject p0 fs) = .error e ∧ shapeOK (preferView m w) T e = true ∧
      leaves e = fs.length ∧ (paths e).Perm (fs.map Fault.reportPath) :=
  exact_paths_of_names _ (fun c => by rw [preferView_names]; exact hw.namesNodup c) cfg T p0 fs hvalid happ hne

/-- **Included `init=False` attributes**, for fault sets that the view admits (`app` on the view). -/
theorem C05_exact_paths_incl_view (w : World) (hw : w.WF) (m : Nat → String → Bool) (cfg : Cfg) (T : Ty) (p0 : Obj)
    (fs : List Fault) (hvalid : ∃ v, stD (inclView m w) cfg T p0 = .ok v)
    (happ : app (inclView m w) cfg T p0 fs = true) (hne : fs ≠ []) :
    ∃ e, stD (inclView m w) cfg T (inject p0 fs) = .error e ∧ shapeOK (inclView m w) T e = true ∧
      leaves e = fs.length ∧ (paths e).Perm (fs.map Fault.reportPath) :=
  exact_paths_of_names _ (fun c => by rw [inclView_names]; exact hw.namesNodup c) cfg T p0 fs hvalid happ hne

/-- **The two reporting phases (negative witness, recorded finding).**  On the two-phase model of the real detailed
template (`GenHook.hstClsD`), class `a: int; b: int = field(default=5, init=False)` with `b` included: a payload whose
`a` and `b` are both invalid reports only `$.a` -- the block of `b` runs after instantiation and is never reached --
while the same bad `b` alone is reported at `$.b`.  So "one leaf per fault" fails for fault sets that straddle the
instantiation; the view (and the check's fault model) stays on one side. -/
theorem C05_two_phase_witness :
    GenHook.hstClsD twoPhaseSt 0 false twoPhaseCls (.dict [(.str "a", .str "q"), (.str "b", .str "q")])
        = .error (.cve [(some "a", .leaf)])
    ∧ GenHook.hstClsD twoPhaseSt 0 false twoPhaseCls (.dict [(.str "a", .int 1), (.str "b", .str "q")])
        = .error (.cve [(some "b", .leaf)])
    ∧ GenHook.hstClsD twoPhaseSt 0 false twoPhaseCls (.dict [(.str "a", .int 1), (.str "b", .int 2)])
        = .ok (.inst 0 [("a", .int 1), ("b", .int 2)]) := by
  refine ⟨?_, ?_, ?_⟩ <;> rfl

section ViewExamples
/-- `x` has an attrs converter (handler-less under `prefer_attrib_converters=True`), `y` is an ordinary attribute -/
def c05vWorld : World :=
  { classes := [ { kind := .attrs, frozen := false, fields :=
      [ { name := "x", alias := "x", ty := some .int, dflt := .none, init := true, required := true },
        { name := "y", alias := "y", ty := some .int, dflt := .none, init := true, required := true } ] } ],
    enums := [] }
def c05vMark : Nat → String → Bool := fun c n => c == 0 && n == "x"
def c05vCfg : Cfg := { gen := true, tupleStrat := false, detailed := true, forbid := false }
def c05vPayload : Obj := .dict [(.str "x", .int 1), (.str "y", .int 2)]
def c05vFaults : List Fault := [.missingKey [] "x", .badLeaf [.attr "y"] (.str "q")]

theorem c05vWorld_WF : c05vWorld.WF := by
  constructor
  · intro c f hf d hd
    match c with
    | 0 =>
      simp [c05vWorld, World.fields] at hf
      rcases hf with rfl | rfl <;> simp [Dflt.value?] at hd
    | n + 1 => simp [c05vWorld, World.fields] at hf
  · intro c
    match c with
    | 0 => simp [c05vWorld, World.fields]
    | n + 1 => simp [c05vWorld, World.fields]

theorem c05v_fields : (preferView c05vMark c05vWorld).fields 0 =
    [ { name := "x", alias := "x", ty := Option.none, dflt := .none, init := true, required := true },
      { name := "y", alias := "y", ty := some .int, dflt := .none, init := true, required := true } ] := by
  rw [preferView, mapFields_fields]
  simp [c05vWorld, World.fields, c05vMark]

set_option maxRecDepth 8000 in
theorem c05v_valid : stD (preferView c05vMark c05vWorld) c05vCfg (.cls 0) c05vPayload
    = .ok (.inst 0 [("x", .int 1), ("y", .int 2)]) := by
  simp (config := {decide := true}) [stD, stDFields, c05v_fields, c05vCfg, c05vPayload,
    Field.key, dlookup, Obj.pyEq, Obj.num2?, extraKeys, fieldNames, initFields, keysOf, Obj.memPy,
    Obj.toInt?, pyStr, Dflt.value?]

set_option maxRecDepth 8000 in
theorem c05v_app : app (preferView c05vMark c05vWorld) c05vCfg (.cls 0) c05vPayload c05vFaults = true := by
  simp (config := {decide := true}) [app, appFields, c05v_fields, c05vCfg, c05vPayload, c05vFaults,
    Field.key, dlookup, Obj.pyEq, Obj.num2?, sub, rest, Fault.under, Fault.notUnder, Fault.path, Fault.withPath, Seg.matches,
    soleBad, badHere, isMissingHere, dropMissing, headIsAttr, extraOK, fieldNames, initFields, isLeafErr, stD,
    Obj.toInt?, parseInt?, keysOf, nodupPy, Obj.memPy, Dflt.value?, List.filterMap_cons, List.filter_cons]

/-- non-vacuity of `C05_exact_paths_prefer_view`: the missing key of the handler-less required attribute `x` and the bad
value of `y` are both reported, each at its own path -/
example : ∃ e, stD (preferView c05vMark c05vWorld) c05vCfg (.cls 0) (inject c05vPayload c05vFaults) = .error e ∧
    shapeOK (preferView c05vMark c05vWorld) (.cls 0) e = true ∧ leaves e = 2 ∧
    (paths e).Perm (c05vFaults.map Fault.reportPath) :=
  C05_exact_paths_prefer_view c05vWorld c05vWorld_WF c05vMark c05vCfg (.cls 0) c05vPayload c05vFaults
    ⟨_, c05v_valid⟩ c05v_app (by simp [c05vFaults])

example : c05vFaults.map (fun f => renderPath f.reportPath) = ["$.x", "$.y"] := by decide
end ViewExamples

end CattrsModel
