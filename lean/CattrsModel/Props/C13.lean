import CattrsModel.Tagged.Lemmas
import CattrsModel.Tagged.Reconfigure
import CattrsModel.Tagged.CopyHist
/-!
# C13 — tagged unions: tag added going out, honoured coming in, member hooks untouched

Model: `CattrsModel/Tagged/Model.lean` (`configure_tagged_union`, all four `structure_tagged_union` variants as the
code has them, the two registrations).  Everything below is for **every** union (`U.members`, any length), **every**
tag generator `U.tag : Nat → Obj`, **every** tag name, default (none / member / non-member) and both settings of
`forbid_extra_keys`; member hooks are the abstract `H : Hooks` (whatever the converter handed to the strategy).

Hypotheses that appear and why:
* `InjectiveOn U.tag U.members` — the statement's "injective tag generator" (up to Python `==`: `1`, `True`, `1.0`
  are one tag).  Without it the last member with an `==` tag wins (`C13_known_tag` says exactly which).
* `dlookup kvs U.key = none` — the tag name is not a key of the member's own dict.  Otherwise the member's
  item is overwritten (`C13_unstructure_collision`): an inconsistent configuration, not a defect.
* `configureOk U` — configuration did not raise (tags are hashable).
* `H.st c (member dict) = some x` — the member's own hooks round-trip (C01/C09's business, not C13's).
* `U.forbid = false → H.st c (dict + tag) = H.st c dict` — a member hook without `forbid_extra_keys` ignores the
  extra tag key.  With `forbid_extra_keys` nothing is assumed: the strategy pops the key (`C13_pop_needed`).
-/
namespace CattrsModel
open Tagged

/-! ## going out -/

/-- **C13_unstructure.**  Unstructuring an instance of member `c` as the union yields the member's own dict plus
exactly one extra item, appended last: the tag name mapped to the member's tag. -/
theorem C13_unstructure (U : TU) (H : Hooks) (x : Obj) (c : Nat) (kvs : List (Obj × Obj))
    (hx : classOf x = some c) (hc : c ∈ U.members) (hun : H.un c x = some (.dict kvs))
    (hfresh : dlookup kvs U.key = Option.none) :
    tagUn U H x = some (.dict (kvs ++ [(U.key, U.tag c)])) := by
  simp only [tagUn, hx, tagUnWith, if_pos hc, hun, Option.bind_some, setTag, dictSet_fresh' hfresh]

/-- Tag name equal to a key of the member's dict: that item is overwritten in place (no key is added, no other
item moves).  This is why `C13_unstructure` and the round trip carry the freshness hypothesis. -/
theorem C13_unstructure_collision (U : TU) (H : Hooks) (x : Obj) (c : Nat) (kvs : List (Obj × Obj)) (old : Obj)
    (hx : classOf x = some c) (hc : c ∈ U.members) (hun : H.un c x = some (.dict kvs))
    (hold : dlookup kvs U.key = some old) :
    ∃ pre post, kvs = pre ++ (U.key, old) :: post ∧ dlookup pre U.key = Option.none ∧
      tagUn U H x = some (.dict (pre ++ (U.key, U.tag c) :: post)) := by
  obtain ⟨pre, post, h1, h2, h3⟩ := dictSet_present_str (a := U.tagName) hold (U.tag c)
  refine ⟨pre, post, h1, h2, ?_⟩
  simp only [tagUn, hx, tagUnWith, if_pos hc, hun, Option.bind_some, setTag, TU.key, h3]

/-- An instance of a class outside the union (or a non-instance) cannot be unstructured as the union — with or
without a default (`cl_to_tag` is a `defaultdict` then, but `_exact_cl_unstruct_hooks` is consulted first). -/
theorem C13_unstructure_nonmember (U : TU) (H : Hooks) (x : Obj)
    (h : ∀ c, classOf x = some c → c ∉ U.members) : tagUn U H x = Option.none := by
  unfold tagUn
  cases hx : classOf x with
  | none => rfl
  | some c => simp only [tagUnWith, if_neg (h c hx)]

/-! ## coming in -/

/-- **C13_known_tag.**  A dict payload whose tag is `==` to the tag of some member reaches the hook of the last such
member, with the payload itself (no `forbid_extra_keys`) or with a copy lacking the tag key (`forbid_extra_keys`);
identically with and without a default. -/
theorem C13_known_tag (U : TU) (kvs : List (Obj × Obj)) (t : Obj) (k : Nat)
    (ht : dlookup kvs U.key = some t) (hh : tagHashable t = true)
    (hk : lastMember U.tag t U.members = some k) :
    tagDecide U (.dict kvs) = .call k (.dict (if U.forbid then dictDel kvs U.key else kvs)) := by
  have hl : lookTag U t = .found k := by rw [lookTag_hashable hh, hk]
  have hc : pyContains (.dict kvs) U.tagName = some true := by
    rw [pyContains_dict]; simp only [TU.key] at ht; rw [ht]; rfl
  unfold tagDecide tagStRun
  cases hd : U.default <;> cases hf : U.forbid <;> simp only []
  · simp [stPlainNoDefault, Frame.enter, getItem, ht, hl]
  · simp [stForbidNoDefault, Frame.copyIf, Frame.enter, Frame.copy, Frame.pop, ht, hl]
  · simp [stPlainDefault, Frame.enter, hc, getItem, ht, hl]
  · simp [stForbidDefault, Frame.copyIf, Frame.enter, hc, Frame.copy, Frame.pop, ht, hl]

/-- with an injective generator the member reached is *the* member carrying that tag -/
theorem C13_known_tag_injective (U : TU) (hinj : InjectiveOn U.tag U.members) (kvs : List (Obj × Obj)) (t : Obj) (c : Nat)
    (hc : c ∈ U.members) (ht : dlookup kvs U.key = some t) (hh : tagHashable t = true)
    (heq : Obj.pyEq (U.tag c) t = true) :
    tagDecide U (.dict kvs) = .call c (.dict (if U.forbid then dictDel kvs U.key else kvs)) :=
  C13_known_tag U kvs t c ht hh (lastMember_injective' hinj hc heq)

/-- **C13_roundtrip_general.**  Any dict payload (tag key at any position, extra keys or not) whose tag is `==` to
member `c`'s tag is structured exactly as member `c`'s own hook structures it — the payload itself, or the payload
without the tag key under `forbid_extra_keys`. -/
theorem C13_roundtrip_general (U : TU) (H : Hooks) (hinj : InjectiveOn U.tag U.members)
    (kvs : List (Obj × Obj)) (t : Obj) (c : Nat)
    (hc : c ∈ U.members) (ht : dlookup kvs U.key = some t) (hh : tagHashable t = true)
    (heq : Obj.pyEq (U.tag c) t = true) :
    tagSt U H (.dict kvs) = H.st c (.dict (if U.forbid then dictDel kvs U.key else kvs)) := by
  unfold tagSt
  rw [C13_known_tag_injective U hinj kvs t c hc ht hh heq]

/-- **C13_roundtrip.**  `structure(unstructure(x as U), U) = x` for every member instance, in all four variants. -/
theorem C13_roundtrip (U : TU) (H : Hooks) (hinj : InjectiveOn U.tag U.members) (hcfg : configureOk U = true)
    (x : Obj) (c : Nat) (kvs : List (Obj × Obj))
    (hx : classOf x = some c) (hc : c ∈ U.members) (hun : H.un c x = some (.dict kvs))
    (hfresh : dlookup kvs U.key = Option.none)
    (hst : H.st c (.dict kvs) = some x)
    (hign : U.forbid = false → H.st c (.dict (kvs ++ [(U.key, U.tag c)])) = H.st c (.dict kvs)) :
    ∃ p, tagUn U H x = some p ∧ tagSt U H p = some x := by
  refine ⟨_, C13_unstructure U H x c kvs hx hc hun hfresh, ?_⟩
  rw [C13_roundtrip_general U H hinj _ (U.tag c) c hc (dlookup_append_fresh hfresh _)
    (configureOk_hashable hcfg hc) (Obj.pyEq_refl _)]
  cases hf : U.forbid
  · simp only [Bool.false_eq_true, if_false]; rw [hign hf, hst]
  · simp only [if_true, dictDel_append_fresh hfresh, hst]

/-- **C13_pop_needed.**  Under `forbid_extra_keys` the member hook rejects the tag key; the variant chosen for such a
converter removes it first (so the member sees its own dict), whereas the plain variant on the same payload would
hand the key through and fail. -/
theorem C13_pop_needed (U : TU) (H : Hooks) (hinj : InjectiveOn U.tag U.members) (hcfg : configureOk U = true)
    (c : Nat) (kvs : List (Obj × Obj)) (hc : c ∈ U.members) (hfresh : dlookup kvs U.key = Option.none)
    (hforbid : U.forbid = true)
    (hrej : H.st c (.dict (kvs ++ [(U.key, U.tag c)])) = Option.none) :
    tagSt U H (.dict (kvs ++ [(U.key, U.tag c)])) = H.st c (.dict kvs) ∧
    tagSt { U with forbid := false } H (.dict (kvs ++ [(U.key, U.tag c)])) = Option.none := by
  constructor
  · rw [C13_roundtrip_general U H hinj _ (U.tag c) c hc (dlookup_append_fresh hfresh _)
      (configureOk_hashable hcfg hc) (Obj.pyEq_refl _)]
    simp only [hforbid, if_true, dictDel_append_fresh hfresh]
  · have := C13_roundtrip_general { U with forbid := false } H hinj (kvs ++ [(U.key, U.tag c)]) (U.tag c) c hc
      (dlookup_append_fresh hfresh _) (configureOk_hashable hcfg hc) (Obj.pyEq_refl _)
    rw [this]
    simpa using hrej

/-- **C13_default.**  A dict payload whose tag is missing, or hashable and `==` to no member's tag: with a default `d`
it is handed to `d`'s hook (the payload itself, or without the tag key under `forbid_extra_keys`); without a default
the hook raises. -/
theorem C13_default (U : TU) (kvs : List (Obj × Obj))
    (hmiss : ∀ t, dlookup kvs U.key = some t → tagHashable t = true ∧ lastMember U.tag t U.members = Option.none) :
    tagDecide U (.dict kvs) =
      match U.default with
      | Option.none => .err
      | some d => .call d (.dict (if U.forbid then dictDel kvs U.key else kvs)) := by
  unfold tagDecide tagStRun
  cases ht : dlookup kvs U.key with
  | none =>
    have hc : pyContains (.dict kvs) U.tagName = some false := by
      rw [pyContains_dict]; simp only [TU.key] at ht; rw [ht]; rfl
    cases hd : U.default <;> cases hf : U.forbid <;> simp only []
    · simp [stPlainNoDefault, Frame.enter, getItem, ht]
    · simp [stForbidNoDefault, Frame.copyIf, Frame.enter, Frame.copy, Frame.pop, ht]
    · simp [stPlainDefault, Frame.enter, hc]
    · simp [stForbidDefault, Frame.enter, hc, dictDel_absent ht]
  | some t =>
    obtain ⟨hh, hk⟩ := hmiss t ht
    have hl : lookTag U t = .missing := by rw [lookTag_hashable hh, hk]
    have hc : pyContains (.dict kvs) U.tagName = some true := by
      rw [pyContains_dict]; simp only [TU.key] at ht; rw [ht]; rfl
    cases hd : U.default <;> cases hf : U.forbid <;> simp only []
    · simp [stPlainNoDefault, Frame.enter, getItem, ht, hl]
    · simp [stForbidNoDefault, Frame.copyIf, Frame.enter, Frame.copy, Frame.pop, ht, hl]
    · simp [stPlainDefault, Frame.enter, hc, getItem, ht, hl]
    · simp [stForbidDefault, Frame.copyIf, Frame.enter, hc, Frame.copy, Frame.pop, ht, hl]

/-- A tag that cannot be hashed raises in all four variants — a `defaultdict` hashes its key too, so the default
member is *not* selected. -/
theorem C13_unhashable_tag (U : TU) (kvs : List (Obj × Obj)) (t : Obj)
    (ht : dlookup kvs U.key = some t) (hh : tagHashable t = false) :
    tagDecide U (.dict kvs) = .err := by
  have hl : lookTag U t = .unhashable := lookTag_unhashable hh
  have hc : pyContains (.dict kvs) U.tagName = some true := by
    rw [pyContains_dict]; simp only [TU.key] at ht; rw [ht]; rfl
  unfold tagDecide tagStRun
  cases hd : U.default <;> cases hf : U.forbid <;> simp only []
  · simp [stPlainNoDefault, Frame.enter, getItem, ht, hl]
  · simp [stForbidNoDefault, Frame.copyIf, Frame.enter, Frame.copy, Frame.pop, ht, hl]
  · simp [stPlainDefault, Frame.enter, hc, getItem, ht, hl]
  · simp [stForbidDefault, Frame.copyIf, Frame.enter, hc, Frame.copy, Frame.pop, ht, hl]

/-- A payload that is not a dict (the harness sends `None`, numbers, strings containing the tag name, lists and
tuples holding it): without a default every variant raises; with a default `d` the payload is handed to `d`'s hook
unchanged when `tag_name in payload` is false, and the hook raises when the test is true or itself raises. -/
theorem C13_nondict_payload (U : TU) (p : Obj) (hp : ∀ kvs, p ≠ .dict kvs) :
    tagDecide U p =
      match U.default, pyContains p U.tagName with
      | some d, some false => .call d p
      | _, _ => .err := by
  have hget : getItem p U.key = Option.none := by
    cases p <;> first | rfl | exact absurd rfl (hp _)
  have hpop : ∀ (f : Frame), f.val = p → f.pop U.key = Option.none := by
    intro f hf
    unfold Frame.pop; rw [hf]
    cases p <;> first | rfl | exact absurd rfl (hp _)
  have hcp : ∀ f1, (Frame.enter p).copy = some f1 → f1.val = p := by
    intro f1 h; exact (Frame.copy_caller h).2
  unfold tagDecide tagStRun
  cases hd : U.default <;> cases hf : U.forbid <;> simp only []
  · simp only [stPlainNoDefault, Frame.enter, hget]
  · simp only [stForbidNoDefault, Frame.copyIf, if_true]
    cases hc : (Frame.enter p).copy with
    | none => simp only []
    | some f1 => simp only [hpop f1 (hcp f1 hc)]
  · simp only [stPlainDefault, Frame.enter, hget]
    cases pyContains p U.tagName with
    | none => rfl
    | some b => cases b <;> rfl
  · simp only [stForbidDefault, Frame.copyIf, if_true]
    cases hcn : pyContains (Frame.enter p).val U.tagName with
    | none => simp only [Frame.enter] at hcn; rw [hcn]
    | some b =>
      simp only [Frame.enter] at hcn; rw [hcn]
      cases b
      · rfl
      · simp only []
        cases hc : (Frame.enter p).copy with
        | none => rfl
        | some f1 => simp only [hpop f1 (hcp f1 hc)]

/-! ## the caller's payload -/

/-- **C13_no_mutation.**  Whatever the payload (dict or not) and whatever the variant, the object the caller handed to
`structure` is unchanged afterwards: `pop` only ever acts on the copy. -/
theorem C13_no_mutation (U : TU) (p : Obj) : (tagStRun U true p).callerAfter = p := by
  have key : ∀ (f : Frame), f.caller = p →
      ∀ f1, f.copy = some f1 → ∀ t f2, f1.pop U.key = some (t, f2) → f2.caller = p := by
    intro f hf f1 h1 t f2 h2
    rw [Frame.pop_caller h2 (Frame.copy_unaliased_or_nondict h1), (Frame.copy_caller h1).1, hf]
  have hcp : ∀ (f : Frame), f.caller = p → ∀ f1, f.copy = some f1 → f1.caller = p := by
    intro f hf f1 h1; rw [(Frame.copy_caller h1).1, hf]
  unfold tagStRun
  cases hd : U.default <;> cases hf : U.forbid <;> simp only []
  · unfold stPlainNoDefault
    split
    · rfl
    · split <;> rfl
  · unfold stForbidNoDefault
    simp only [Frame.copyIf, if_true]
    split
    · rfl
    · rename_i f1 h1
      split
      · exact hcp _ rfl f1 h1
      · rename_i t f2 h2
        have := key _ rfl f1 h1 t f2 h2
        split <;> exact this
  · unfold stPlainDefault
    split
    · rfl
    · rfl
    · split
      · rfl
      · split <;> rfl
  · unfold stForbidDefault
    simp only [Frame.copyIf, if_true]
    split
    · rfl
    · rfl
    · split
      · rfl
      · rename_i f1 h1
        split
        · exact hcp _ rfl f1 h1
        · rename_i t f2 h2
          have := key _ rfl f1 h1 t f2 h2
          split <;> exact this

/-! ## members outside the union -/

/-- **C13_members_untouched.**  The two registrations `configure_tagged_union` performs
(`register_unstructure_hook(U, …)`, `register_structure_hook(U, …)`) change what the dispatchers resolve for no type
other than the union itself — for every dispatcher state (any handlers, any registry contents). -/
theorem C13_members_untouched {T H : Type} [DecidableEq T] (s : Disp T H) (hco : s.DirectCoherent)
    (U : T) (f : H) (t : T) (ht : t ≠ U) :
    (s.registerUnionSt U f).resolve t = s.resolve t ∧ (s.registerUnionUn U f).resolve t = s.resolve t := by
  have hold : s.resolve t = match s.single t with | some h => h | Option.none => s.slow t := by
    unfold Disp.resolve
    cases s.single t with
    | some h => rfl
    | none =>
      simp only
      cases hd : regGet s.direct t with
      | some h => simp only; exact hco t h hd
      | none => rfl
  constructor
  · rw [hold]
    unfold Disp.resolve Disp.registerUnionSt
    cases s.single t with
    | some h => rfl
    | none => simp only [regGet, Disp.slow, firstMatch_regSet_ne s.unionReg s.handlers ht f]
  · rw [hold]
    unfold Disp.resolve Disp.registerUnionUn
    cases s.single t with
    | some h => rfl
    | none => simp [regGet, Disp.slow, firstMatch, ht]


/-! ## re-configuration -/

/-- **C13_reconfigure_last_wins.**  Configure the union (hooks `f`), let the converter be used for any types in any
order (every dispatch cache is warm, in particular with `f` for the union and for everything built from it), configure
the same union again (hooks `g`): for EVERY type the structure and the unstructure dispatchers now return what they
return on a converter on which only the second configuration was ever made.  The last configuration wins; nothing of
the first survives in the `lru_cache`, the direct table, the registry or the handler list. -/
theorem C13_reconfigure_last_wins {T H : Type} [DecidableEq T] (c : CDisp T H) (U : T) (f g : H) (used : List T) (t : T) :
    ((((c.registerUnionSt U f).useAll used).registerUnionSt U g).dispatch t).1 = ((c.registerUnionSt U g).dispatch t).1 ∧
    ((((c.registerUnionUn U f).useAll used).registerUnionUn U g).dispatch t).1 = ((c.registerUnionUn U g).dispatch t).1 := by
  constructor
  · simp only [CDisp.registerUnionSt, CDisp.dispatch_empty, CDisp.useAll_base]
    exact resolve_registerUnionSt_twice c.base U f g t
  · simp only [CDisp.registerUnionUn, CDisp.dispatch_empty, CDisp.useAll_base]
    exact resolve_registerUnionUn_twice c.base U f g t

/-- … so whenever configuring once installs `g` for the union on this converter, configuring after earlier
configurations and use installs `g` too; on the unstructure side that is unconditional (a union is no class, so
singledispatch has nothing for it). -/
theorem C13_reconfigure_installs {T H : Type} [DecidableEq T] (c : CDisp T H) (U : T) (f g : H) (used : List T) :
    (((c.registerUnionSt U g).dispatch U).1 = g →
      ((((c.registerUnionSt U f).useAll used).registerUnionSt U g).dispatch U).1 = g) ∧
    (c.base.single U = Option.none →
      ((((c.registerUnionUn U f).useAll used).registerUnionUn U g).dispatch U).1 = g) := by
  constructor
  · intro h; rw [(C13_reconfigure_last_wins c U f g used U).1, h]
  · intro hs
    rw [(C13_reconfigure_last_wins c U f g used U).2]
    simp only [CDisp.registerUnionUn, CDisp.dispatch_empty]
    exact resolve_registerUnionUn_self c.base U g hs

/-- Two unions on one converter: configuring ANOTHER union (`U' ≠ U` as sets of members — sharing members or not)
after any use leaves what both dispatchers return for `U`, and for every other type, as the cache-free resolution of
the converter before that call. -/
theorem C13_other_union_untouched {T H : Type} [DecidableEq T] (c : CDisp T H) (hco : c.base.DirectCoherent)
    (U' : T) (g : H) (t : T) (ht : t ≠ U') :
    ((c.registerUnionSt U' g).dispatch t).1 = c.base.resolve t ∧
    ((c.registerUnionUn U' g).dispatch t).1 = c.base.resolve t := by
  simp only [CDisp.registerUnionSt, CDisp.registerUnionUn, CDisp.dispatch_empty]
  exact C13_members_untouched c.base hco U' g t ht

/-! ## negative witness and non-vacuity -/
section Examples

/-- two members tagged "A" / "B", tag name `_type` -/
def c13ExU (dflt : Option Nat) (forbid : Bool) : TU :=
  { members := [0, 1], tag := fun c => if c = 0 then .str "A" else .str "B", tagName := "_type",
    default := dflt, forbid := forbid }

/-- member hooks of a strict (`forbid_extra_keys`-like) one-field class: exactly the key `a` -/
def c13ExH : Hooks :=
  { un := fun _ x => match x with
      | .inst _ [("a", v)] => some (.dict [(.str "a", v)])
      | _ => Option.none
    st := fun c p => match p with
      | .dict [(.str "a", v)] => some (.inst c [("a", v)])
      | _ => Option.none }

def c13ExX : Obj := .inst 1 [("a", .int 2)]
def c13ExP : Obj := .dict [(.str "a", .int 2), (.str "_type", .str "B")]

theorem c13ExU_injective (d : Option Nat) (f : Bool) : InjectiveOn (c13ExU d f).tag (c13ExU d f).members := by
  intro a ha b hb h
  simp only [c13ExU, List.mem_cons, List.not_mem_nil, or_false] at ha hb
  rcases ha with rfl | rfl <;> rcases hb with rfl | rfl <;> first | rfl | (simp [c13ExU, Obj.pyEq, Obj.num2?] at h)

/-- **C13_pop_without_copy_mutates** (negative witness; mutant X1 of the design).  The same program without
`val = val.copy()` pops the tag out of the caller's dict. -/
theorem C13_pop_without_copy_mutates :
    (tagStRun (c13ExU Option.none true) false c13ExP).callerAfter = .dict [(.str "a", .int 2)] ∧
    (tagStRun (c13ExU Option.none true) false c13ExP).callerAfter ≠ c13ExP := by
  have h : (tagStRun (c13ExU Option.none true) false c13ExP).callerAfter = .dict [(.str "a", .int 2)] := by
    simp [tagStRun, c13ExU, c13ExP, stForbidNoDefault, Frame.copyIf, Frame.enter, Frame.pop, TU.key, dlookup, dictDel,
      Obj.pyEq, Obj.num2?]
    split <;> rfl
  refine ⟨h, ?_⟩
  rw [h]; simp [c13ExP]

/-- whereas the code as it is leaves it alone (instance of `C13_no_mutation`) -/
example : (tagStRun (c13ExU Option.none true) true c13ExP).callerAfter = c13ExP := C13_no_mutation _ _

/-- non-vacuity of `C13_unstructure`: a concrete member instance satisfies the hypotheses -/
example : tagUn (c13ExU Option.none true) c13ExH c13ExX = some c13ExP :=
  C13_unstructure (c13ExU Option.none true) c13ExH c13ExX 1 [(.str "a", .int 2)] rfl (by simp [c13ExU]) rfl
    (by simp [dlookup, TU.key, c13ExU, Obj.pyEq, Obj.num2?])

/-- non-vacuity of `C13_roundtrip`, `forbid_extra_keys` variant, strict member hook -/
example : ∃ p, tagUn (c13ExU Option.none true) c13ExH c13ExX = some p ∧ tagSt (c13ExU Option.none true) c13ExH p = some c13ExX :=
  C13_roundtrip (c13ExU Option.none true) c13ExH (c13ExU_injective _ _) (by simp [configureOk, c13ExU, tagHashable, hashable])
    c13ExX 1 [(.str "a", .int 2)] rfl (by simp [c13ExU]) rfl
    (by simp [dlookup, TU.key, c13ExU, Obj.pyEq, Obj.num2?]) rfl (by simp [c13ExU])

/-- non-vacuity of `C13_pop_needed`: the strict member hook rejects the tagged payload, the popped one is fine -/
example : tagSt (c13ExU Option.none true) c13ExH c13ExP = some c13ExX ∧ tagSt (c13ExU Option.none false) c13ExH c13ExP = Option.none :=
  C13_pop_needed (c13ExU Option.none true) c13ExH (c13ExU_injective _ _) (by simp [configureOk, c13ExU, tagHashable, hashable])
    1 [(.str "a", .int 2)] (by simp [c13ExU]) (by simp [dlookup, TU.key, c13ExU, Obj.pyEq, Obj.num2?]) rfl rfl

/-- non-vacuity of `C13_default`: unknown tag "Zz", default member 0, both variants -/
example : tagDecide (c13ExU (some 0) true) (.dict [(.str "_type", .str "Zz"), (.str "a", .int 2)])
    = .call 0 (.dict [(.str "a", .int 2)]) := by
  rw [C13_default]
  · simp [c13ExU, dictDel, TU.key, Obj.pyEq, Obj.num2?]
  · intro t ht
    simp [dlookup, TU.key, c13ExU, Obj.pyEq, Obj.num2?] at ht
    subst ht
    simp [tagHashable, hashable, lastMember, c13ExU, Obj.pyEq, Obj.num2?]

/-- non-vacuity of `C13_default` without a default: the missing tag raises -/
example : tagDecide (c13ExU Option.none false) (.dict [(.str "a", .int 2)]) = .err := by
  rw [C13_default]
  · rfl
  · intro t ht; simp [dlookup, TU.key, c13ExU, Obj.pyEq, Obj.num2?] at ht

/-- non-vacuity of `C13_unhashable_tag`: a list as tag raises although a default is configured -/
example : tagDecide (c13ExU (some 0) false) (.dict [(.str "a", .int 2), (.str "_type", .coll .list [])]) = .err :=
  C13_unhashable_tag _ _ (.coll .list []) (by simp [dlookup, TU.key, c13ExU, Obj.pyEq, Obj.num2?])
    (by simp [tagHashable, hashable])

/-- non-vacuity of `C13_known_tag` for a NON-injective generator: the last member with an `==` tag wins
(`1` and `True` are the same dict key) -/
example : tagDecide { members := [0, 1], tag := fun c => if c = 0 then .int 1 else .bool true, tagName := "t",
                      default := Option.none, forbid := false } (.dict [(.str "t", .flt 2)])
    = .call 1 (.dict [(.str "t", .flt 2)]) := by
  rw [C13_known_tag _ _ (.flt 2) 1]
  · rfl
  · simp [dlookup, TU.key, Obj.pyEq, Obj.num2?]
  · simp [tagHashable, hashable]
  · simp [lastMember, Obj.pyEq, Obj.num2?]

/-- non-vacuity of `C13_members_untouched`: a dispatcher whose direct table caches a slow-path result -/
example : ((({ single := fun _ => Option.none, direct := [(1, "attrs-hook")],
               handlers := [.unionRegistry, .pred (fun t => t == 1) (fun _ => "attrs-hook")],
               unionReg := [], fallback := fun _ => "fallback" } : Disp Nat String).registerUnionSt 7 "tagged").resolve 1
    = "attrs-hook") := by
  simp [Disp.resolve, Disp.registerUnionSt, regGet, Disp.slow, firstMatch, regSet]

/-- non-vacuity of `C13_nondict_payload`: the string `"x_typey"` contains the tag name — raises; `"q"` goes to the default -/
example : tagDecide (c13ExU (some 0) true) (.str "x_typey") = .err ∧ tagDecide (c13ExU (some 0) true) (.str "q") = .call 0 (.str "q") := by
  constructor <;> (rw [C13_nondict_payload _ _ (by intro kvs h; cases h)]; rfl)

/-- a converter whose structure dispatcher knows the union registry only -/
def c13ExC : CDisp Nat String :=
  { base := { single := fun _ => Option.none, direct := [], handlers := [.unionRegistry], unionReg := [],
              fallback := fun _ => "fallback" }, cache := [] }

/-- non-vacuity of `C13_reconfigure_last_wins` / `C13_reconfigure_installs`: union `7` configured with "old", used,
configured with "new": "new" is what the dispatcher returns -/
example : ((((c13ExC.registerUnionSt 7 "old").useAll [7, 3, 7]).registerUnionSt 7 "new").dispatch 7).1 = "new" :=
  (C13_reconfigure_installs c13ExC 7 "old" "new" [7, 3, 7]).1 (by decide)

/-- **C13_stale_cache_witness** (negative witness; seeded change "clear the cache only when the union is new to the
registry").  With that registration the hook of the FIRST configuration is still returned after the second. -/
theorem C13_stale_cache_witness :
    ((((c13ExC.registerUnionSt 7 "old").useAll [7]).registerUnionStLazy 7 "new").dispatch 7).1 = "old" ∧
    ((((c13ExC.registerUnionSt 7 "old").useAll [7]).registerUnionSt 7 "new").dispatch 7).1 = "new" := by
  constructor <;> decide

end Examples

/-! ## converters produced by `copy()` / `deepcopy`

"After configure_tagged_union for a union U …" does not say how the converter came to be.  `Tagged/Copy.lean` models
the union registry as a dict OBJECT (the dispatch predicate reads the attribute `_union_struct_registry` on every call,
the factory is `__getitem__` bound once in `__init__`), `copy()` line by line, and histories of construct / copy /
register over any number of converters.  `single0` / `base` / `fb` are what the class's `__init__` installs — arbitrary,
except that it installs at least one handler (`base ≠ []`: `[:-skip]` with `skip = 0` would drop everything). -/

/-- **C13_copy_any_history.**  After ANY history of constructing converters, copying them (copies of copies included),
registering union structure hooks (`configure_tagged_union`'s structure side) and predicate hooks (its unstructure
side) on any of them, in any order: every converter's factory is bound to the dict its attribute denotes, so asking it
for the hook of ANY type never raises `KeyError` and gives exactly what the by-value dispatch model `Disp` — the one all
C13 theorems above are about — gives for its current registrations. -/
theorem C13_copy_any_history {T H : Type} [DecidableEq T] (single0 : T → Option H) (base : List (Tagged.Handler T H))
    (hbase : base ≠ []) (fb : T → H) (ops : List (KOp T H)) :
    ∀ c ∈ (kRun single0 base fb KStore.empty ops).convs,
      Built single0 base (kRun single0 base fb KStore.empty ops).heap c ∧
      ∀ t, c.resolve (kRun single0 base fb KStore.empty ops).heap t
           = .hook ((c.view (kRun single0 base fb KStore.empty ops).heap).resolve t) := by
  intro c hc
  have b := kRun_ok hbase fb ops (storeOK_empty single0 base) c hc
  exact ⟨b, fun t => resolve_of_bound c _ b.bound t⟩

/-- **C13_copy_inherits.**  A copy of a converter constructed by this class (by `__init__` or `copy()`, whatever was
registered on it since — in particular a tagged union configured on it) returns for EVERY type the hook its source
returns, is again such a converter (so the statement iterates: copies of copies), and making it does not change what the
source returns. -/
theorem C13_copy_inherits {T H : Type} [DecidableEq T] {single0 : T → Option H} {base : List (Tagged.Handler T H)}
    (hbase : base ≠ []) {h : DHeap T H} {c : KConv T H} (b : Built single0 base h c) :
    Built single0 base (kCopy h c single0 base).1 (kCopy h c single0 base).2 ∧
    ∀ t, (kCopy h c single0 base).2.resolve (kCopy h c single0 base).1 t = c.resolve h t ∧
         c.resolve (kCopy h c single0 base).1 t = c.resolve h t :=
  ⟨(kCopy_spec hbase b).1, fun t => kCopy_resolve hbase b t⟩

/-- **C13_copy_then_configure.**  Configuring a union on a converter `r` that is a copy (any `Built` converter) is
`registerUnionSt` on its by-value reading — hence `C13_reconfigure_*`, `C13_members_untouched`, `C13_other_union_untouched`
hold for it verbatim — and every other converter `c` (its source, its own copies: anything with another dict) returns what
it returned before. -/
theorem C13_copy_then_configure {T H : Type} [DecidableEq T] {single0 : T → Option H} {base : List (Tagged.Handler T H)}
    {h : DHeap T H} {r : KConv T H} (br : Built single0 base h r) (U : T) (f : H) :
    (∀ t, r.resolve (kRegSt h r U f) t = .hook (((r.view h).registerUnionSt U f).resolve t)) ∧
    (∀ c : KConv T H, c.attr ≠ r.attr → c.bound ≠ r.attr → ∀ t, c.resolve (kRegSt h r U f) t = c.resolve h t) := by
  constructor
  · intro t
    rw [resolve_of_bound r _ br.bound, view_kRegSt]
  · intro c ha hb t
    exact resolve_frame c _ _ (kRegSt_frame h r U f _ ha) (kRegSt_frame h r U f _ hb) t

section CopyExamples

/-- a class whose `__init__` installs the union entry and one more handler; union `7` configured with "tagged" -/
def c13CopyBase : List (Tagged.Handler Nat String) := [.unionRegistry, .pred (fun t => t == 1) (fun _ => "attrs-hook")]

def c13CopyOps : List (KOp Nat String) := [.new, .regSt 0 7 "tagged", .copy 0, .copy 1, .regSt 2 8 "late"]

def c13CopyStore (cp : DHeap Nat String → KConv Nat String → (Nat → Option String) → List (Tagged.Handler Nat String) →
    DHeap Nat String × KConv Nat String) : KStore Nat String :=
  kRunWith cp (fun _ => Option.none) c13CopyBase (fun _ => "fallback") KStore.empty c13CopyOps

def c13CopyAsk (σ : KStore Nat String) (i t : Nat) : Option (Res String) := (σ.convs[i]?).map (fun c => c.resolve σ.heap t)

/-- non-vacuity of `C13_copy_any_history` / `C13_copy_inherits`: configure, copy, copy the copy, configure another union
on the last one — both copies return "tagged" for union 7, the late registration is seen by the converter it was made
on only -/
example : c13CopyAsk (c13CopyStore kCopy) 1 7 = some (.hook "tagged") ∧ c13CopyAsk (c13CopyStore kCopy) 2 7 = some (.hook "tagged") ∧
    c13CopyAsk (c13CopyStore kCopy) 2 8 = some (.hook "late") ∧ c13CopyAsk (c13CopyStore kCopy) 1 8 = some (.hook "fallback") ∧
    c13CopyAsk (c13CopyStore kCopy) 0 8 = some (.hook "fallback") := by
  refine ⟨?_, ?_, ?_, ?_, ?_⟩ <;> decide

example : ∀ c ∈ (c13CopyStore kCopy).convs, ∀ t, c.resolve (c13CopyStore kCopy).heap t
    = .hook ((c.view (c13CopyStore kCopy).heap).resolve t) :=
  fun c hc => (C13_copy_any_history (fun _ => Option.none) c13CopyBase (by simp [c13CopyBase]) (fun _ => "fallback")
    c13CopyOps c hc).2

/-- **C13_copy_rebind_witness** (negative witness; seeded change "give the copy its own dict by assignment":
`res._union_struct_registry = self._union_struct_registry.copy()`).  On every converter produced by such a copy the
predicate finds the union in the new dict and the factory, still bound to the dict made in `__init__`, raises `KeyError` —
for the inherited union as well as for one configured on the copy later; the source keeps working. -/
theorem C13_copy_rebind_witness :
    c13CopyAsk (c13CopyStore kCopyRebind) 1 7 = some .keyError ∧ c13CopyAsk (c13CopyStore kCopyRebind) 2 7 = some .keyError ∧
    c13CopyAsk (c13CopyStore kCopyRebind) 2 8 = some .keyError ∧ c13CopyAsk (c13CopyStore kCopyRebind) 0 7 = some (.hook "tagged") := by
  refine ⟨?_, ?_, ?_, ?_⟩ <;> decide

end CopyExamples

end CattrsModel
