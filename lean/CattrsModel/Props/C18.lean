import CattrsModel.Dispatch.LemmasHist
import CattrsModel.Dispatch.LocsLemmas
/-!
# C18 — copy() behaves identically at copy time; converters are isolated afterwards

Model: `copyOf` in `CattrsModel/Dispatch/Model.lean` = `BaseConverter.copy` / `Converter.copy` (re-instantiate
with the current / overridden options and the *stored fallback factories* — fix F2 —, then
`MultiStrategyDispatch.copy_to`: `FunctionDispatch.copy_to` with Python's `self._handler_pairs[:-skip]` prepended to
the new converter's own entries, every entry of the singledispatch registry re-registered, `clear_cache()`; then the
union registry carried over — fix F1).  `cfg'` is what the constructor registers under the options of the copy
(`cfg' = cfg` for `copy()` / `deepcopy`, different built-in entries e.g. for `copy(unstruct_strat=…)`).
`Store` = the converters of a program, addressed by index; `SOp.copy` appends the copy.

Hypotheses and why:
* `cfg.preds ≠ []` — the constructor registered at least one predicate entry (always true: BaseConverter registers
  12 / 18).  Needed because of Python's `l[:-0] == []`: see `C18_skip_zero_witness`.
* `cfg'.isStruct = cfg.isStruct` — the copy's structure table is compared with the original's structure table.
* `cfg'.single = cfg.single` (override theorem only) — the constructor's class registrations do not depend on the
  options (true for the code: `str/bytes/int/float/Enum/Path`).

`Store` is a value model: that a copy shares no mutable table with its original is true THERE by construction.
The identity layer (`Dispatch/Locs.lean`, theorems at the end of this file) does not take it for granted: the five
mutable containers of a hook table are locations in a heap, operations mutate through locations, `copy` is
transcribed from `BaseConverter.copy` / `copy_to` statement by statement.  `C18_no_shared_locations`: after any store
history distinct converters share no location; `C18_frame_locations`: an operation writes only locations of the
converter it is addressed to; `C18_isolation_from_locations`: hence isolation (derived from these two, not from the
value model); `C18_heap_refines_store`: reading the heap store back IS the value store `srun`, so
`C18_isolation_derived` re-obtains `C18_isolation` for every reachable store; `C18_shared_registry_witness`: with a
class registry copied BY REFERENCE an operation on the copy changes the original.  The check compares the identity
pattern of the real containers (`id()`) with the model's locations (corr:C18:LOCS).
-/
namespace CattrsModel
open Dispatch

/-- **C18_copy_override.**  `copy(**overrides)` of a converter constructed as `cfg` that then received any
history `h` is indistinguishable — for the cache-free lookup, the cached dispatch and calls, on every type — from
a converter freshly constructed with the overridden options and the ORIGINAL's fallback factory that received the
registrations of `h`. -/
theorem C18_copy_override (F : Facts) (cfg cfg' : Cfg) (h : List Op) (t : TyKey)
    (hne : cfg.preds ≠ []) (hdir : cfg'.isStruct = cfg.isStruct) (hsingle : cfg'.single = cfg.single) :
    let c := copyOf (run F (init cfg) h) cfg'
    let f := run F (init { cfg' with fb := cfg.fb }) (h.filter Op.isReg)
    resolve F c.regs t = resolve F f.regs t ∧
    (dispatch F c t).2 = (dispatch F f t).2 ∧
    (dispatchUncached F c t).2 = (dispatchUncached F f t).2 ∧
    (call F c t).2 = (call F f t).2 := by
  intro c f
  have gs := run_init F cfg h
  have gf := run_init F { cfg' with fb := cfg.fb } (h.filter Op.isReg)
  have e : RegEquiv c.regs f.regs := by
    rw [gf.2, regsAfter_filter]
    exact copyOf_equiv F cfg cfg' h _ gs.2 hne hdir hsingle
  have hc : CacheOK F c := cacheOK_empty F _
  have := obs_eq_of_equiv F c f hc gf.1 e t
  exact ⟨resolve_congr F e t, this.1, this.2.1, this.2.2⟩

/-- **C18_copy_same.**  `copy()` / `deepcopy` without overrides: on every type the copy's lookup — every kind of
registration (class, predicate, factory, extended factory, NewType, union; the union structure registry; with their
precedence) and the fallback factory — and its call tree are those of the original. -/
theorem C18_copy_same (F : Facts) (cfg : Cfg) (h : List Op) (t : TyKey) (hne : cfg.preds ≠ []) :
    let s := run F (init cfg) h
    resolve F (copyOf s cfg).regs t = resolve F s.regs t ∧
    behave F (copyOf s cfg).regs (resolve F (copyOf s cfg).regs t) t = behave F s.regs (resolve F s.regs t) t := by
  intro s
  have gs := run_init F cfg h
  have e : RegEquiv (copyOf s cfg).regs s.regs := by
    have := copyOf_equiv F cfg cfg h s gs.2 hne rfl rfl
    rw [gs.2]; exact this
  have hr : ∀ t, resolve F (copyOf s cfg).regs t = resolve F s.regs t := resolve_congr F e
  exact ⟨hr t, by rw [hr t, behave_congr F hr]⟩

/-- **C18_copy_same_cached.**  The same through the machines: the copy (empty caches) and the original (whatever its
caches hold after `h`) return the same hook from cached and uncached dispatch and show the same call tree. -/
theorem C18_copy_same_cached (F : Facts) (cfg : Cfg) (h : List Op) (t : TyKey) (hne : cfg.preds ≠ []) :
    let s := run F (init cfg) h
    (dispatch F (copyOf s cfg) t).2 = (dispatch F s t).2 ∧
    (dispatchUncached F (copyOf s cfg) t).2 = (dispatchUncached F s t).2 ∧
    (call F (copyOf s cfg) t).2 = (call F s t).2 := by
  intro s
  have gs := run_init F cfg h
  have e : RegEquiv (copyOf s cfg).regs s.regs := by
    have := copyOf_equiv F cfg cfg h s gs.2 hne rfl rfl
    rw [gs.2]; exact this
  exact obs_eq_of_equiv F _ _ (cacheOK_empty F _) gs.1 e t

/-- **C18_copy_then_same_ops.**  Copy and original stay indistinguishable under equal further operations
(registrations of every kind, dispatches, calls): precedence is carried over, not just the current answers. -/
theorem C18_copy_then_same_ops (F : Facts) (cfg : Cfg) (h ops2 : List Op) (t : TyKey) (hne : cfg.preds ≠ []) :
    let s := run F (init cfg) h
    (dispatch F (run F (copyOf s cfg) ops2) t).2 = (dispatch F (run F s ops2) t).2 ∧
    (dispatchUncached F (run F (copyOf s cfg) ops2) t).2 = (dispatchUncached F (run F s ops2) t).2 ∧
    (call F (run F (copyOf s cfg) ops2) t).2 = (call F (run F s ops2) t).2 := by
  intro s
  have gs := run_init F cfg h
  have e : RegEquiv (copyOf s cfg).regs s.regs := by
    have := copyOf_equiv F cfg cfg h s gs.2 hne rfl rfl
    rw [gs.2]; exact this
  have r := run_equiv F _ _ (cacheOK_empty F _) gs.1 e ops2
  exact obs_eq_of_equiv F _ _ r.1 r.2.1 r.2.2 t

/-- **C18_copy_same_anywhere.**  The copy theorems for a converter ANYWHERE in a program: start from any fresh
converters, run any store history (operations on any converter, copies with any option overrides, copies of
copies, operations on copies); then `copy()` of any converter of the resulting store — with the options it was
itself constructed / copied with, `cfg` — is indistinguishable from that converter, now and after any equal further
operations.  (`BuiltAs cfg s.regs`: the tables of `s` end with what the constructor registers under `cfg`; it is
established by `__init__` and by `copy`, and kept by every operation — `builtAs_init`, `builtAs_copyOf`,
`builtAs_regStep`.) -/
theorem C18_copy_same_anywhere (F : Facts) (cfgs : List Cfg) (hcfgs : ∀ c ∈ cfgs, c.preds ≠ [])
    (sops : List SOp) (hsops : ∀ op ∈ sops, op.copyOK) (i : Nat) (s : St)
    (hs : (srun F (cfgs.map init) sops)[i]? = some s) :
    (∃ cfg, cfg.preds ≠ [] ∧ BuiltAs cfg s.regs) ∧
    ∀ cfg, cfg.preds ≠ [] → BuiltAs cfg s.regs → ∀ (ops2 : List Op) (t : TyKey),
      (dispatch F (run F (copyOf s cfg) ops2) t).2 = (dispatch F (run F s ops2) t).2 ∧
      (dispatchUncached F (run F (copyOf s cfg) ops2) t).2 = (dispatchUncached F (run F s ops2) t).2 ∧
      (call F (run F (copyOf s cfg) ops2) t).2 = (call F (run F s ops2) t).2 := by
  have ok := srun_storeOK F sops _ (storeOK_fresh F cfgs hcfgs) hsops i s hs
  refine ⟨ok.2, fun cfg hne hb ops2 t => ?_⟩
  have e := copyOf_equiv_built cfg s hb hne
  have r := run_equiv F _ _ (cacheOK_empty F _) ok.1 e ops2
  exact obs_eq_of_equiv F _ _ r.1 r.2.1 r.2.2 t

/-- **C18_isolation.**  In a store of converters, any sequence of operations none of which is addressed to
converter `i` — registrations, dispatches and calls on other converters, copies of any converter *including `i`
itself*, and operations on those copies — leaves converter `i` (registrations, union registry, both caches)
exactly as it was; in particular no lookup on it changes. -/
theorem C18_isolation (F : Facts) (σ : Store) (ops : List SOp) (i : Nat) (hi : i < σ.length)
    (h : ∀ op ∈ ops, op.target ≠ some i) : (srun F σ ops)[i]? = σ[i]? :=
  srun_frame F ops σ i hi h

/-- **C18_copy_entry.**  `copy` allocates a new converter (the next index) whose state is `copyOf` of the source;
together with C18_isolation: operations on the copy never reach the source and vice versa. -/
theorem C18_copy_entry (F : Facts) (σ : Store) (src : Nat) (cfg' : Cfg) (s : St) (hs : σ[src]? = some s) :
    (sstep F σ (.copy src cfg'))[σ.length]? = some (copyOf s cfg') ∧
    (sstep F σ (.copy src cfg')).length = σ.length + 1 ∧
    ∀ i, i < σ.length → (sstep F σ (.copy src cfg'))[i]? = σ[i]? := by
  simp only [sstep, hs]
  refine ⟨by simp, by simp, fun i hi => List.getElem?_append_left hi⟩

/-- divergence after the copy, spelled out: after copying converter `src`, a history applied to the copy only
leaves the source untouched, and one applied to the source only leaves the copy untouched -/
theorem C18_isolation_after_copy (F : Facts) (σ : Store) (src : Nat) (cfg' : Cfg) (s : St) (hs : σ[src]? = some s)
    (ops : List Op) :
    (srun F (sstep F σ (.copy src cfg')) (ops.map (SOp.on σ.length)))[src]? = some s ∧
    (srun F (sstep F σ (.copy src cfg')) (ops.map (SOp.on src)))[σ.length]? = some (copyOf s cfg') := by
  have hsrc : src < σ.length := by
    rcases Nat.lt_or_ge src σ.length with h | h
    · exact h
    · rw [List.getElem?_eq_none h] at hs; cases hs
  have e := C18_copy_entry F σ src cfg' s hs
  constructor
  · rw [C18_isolation F _ _ src (by rw [e.2.1]; omega)]
    · rw [e.2.2 src hsrc, hs]
    · intro op hop
      simp only [List.mem_map] at hop
      obtain ⟨o, _, rfl⟩ := hop
      simp only [SOp.target, ne_eq, Option.some.injEq]
      omega
  · rw [C18_isolation F _ _ σ.length (by rw [e.2.1]; omega)]
    · exact e.1
    · intro op hop
      simp only [List.mem_map] at hop
      obtain ⟨o, _, rfl⟩ := hop
      simp only [SOp.target, ne_eq, Option.some.injEq]
      omega

/-! ## non-vacuity, and the negative witness for the hypothesis `cfg.preds ≠ []` -/
namespace C18ex

/-- 0 = class A, 1 = NewType of A, 2 = Union[A, …], 3 = list[A], 4 = anything else -/
def F : Facts :=
  { mro := fun t => match t with | 0 => [0] | _ => []
    holds := fun p t => p == 1 && (t == 3 || t == 4)
    isUnion := fun t => t == 2
    isNewtype := fun t => t == 1
    late := fun _ => false
    comps := fun t => match t with | 1 => [0] | 3 => [0] | _ => []
    rank := fun t => match t with | 1 => 1 | 3 => 1 | _ => 0 }

def cfg : Cfg :=
  { isStruct := true, fb := 7
    single := []
    preds := [ { pred := .tbl 0, kind := .unionreg, tag := 0, builtin := true },
               { pred := .exact 0, kind := .factory, tag := 200, builtin := true },
               { pred := .exact 3, kind := .extended, tag := 203, builtin := true, sub := .cached } ] }

/-- the same construction with other options: lists handled by another built-in hook -/
def cfg' : Cfg :=
  { cfg with preds := [ { pred := .tbl 0, kind := .unionreg, tag := 0, builtin := true },
                        { pred := .exact 0, kind := .factory, tag := 200, builtin := true },
                        { pred := .exact 3, kind := .plain, tag := 303, builtin := true } ] }

/-- one registration of every kind, with warm-ups in between -/
def hist : List Op :=
  [ .regHook 0 1, .call 3, .regHook 1 2, .regHook 2 3, .regPred { pred := .tbl 1, kind := .plain, tag := 4 },
    .dispatch 4, .regPred { pred := .tbl 1, kind := .extended, tag := 5, sub := .cached } ]

example : cfg.preds ≠ [] := by decide
-- the copy answers like the original: class, NewType, union-registry, extended factory, fallback factory 7
example : [0, 1, 2, 3, 5].map (resolve F (copyOf (run F (init cfg) hist) cfg).regs) =
    [.user 1, .user 2, .user 3, .made 5 3 true [.user 1], .fallback 7 5] := by decide
example : [0, 1, 2, 3, 5].map (resolve F (run F (init cfg) hist).regs) =
    [.user 1, .user 2, .user 3, .made 5 3 true [.user 1], .fallback 7 5] := by decide
-- with overridden options the built-in part follows the new options, the user part is carried over
example : (resolve F (copyOf (run F (init cfg) [.regHook 0 1]) cfg').regs 3,
           resolve F (run F (init cfg) [.regHook 0 1]).regs 3) = (.builtin 303, .made 203 3 true [.user 1]) := by
  decide
example : cfg'.isStruct = cfg.isStruct ∧ cfg'.single = cfg.single := by decide
-- a store: copy converter 0, register on the copy, then on the original; each sees only its own registration
example :
    let σ := srun F [run F (init cfg) hist] [.copy 0 cfg, .on 1 (.regHook 0 8), .on 0 (.regHook 0 9)]
    (σ.map (fun s => (dispatch F s 0).2)) = [.user 9, .user 8] := by decide

-- a copy of a copy (made with overridden options, then operated on) is in the scope of C18_copy_same_anywhere
example :
    let σ := srun F [init cfg] [.on 0 (.regHook 0 1), .copy 0 cfg', .on 1 (.regHook 1 2), .on 1 (.call 3)]
    (∀ op ∈ [SOp.on 0 (.regHook 0 1), .copy 0 cfg', .on 1 (.regHook 1 2), .on 1 (.call 3)], op.copyOK) ∧
    (σ[1]?.map (fun s => [0, 1, 3].map (resolve F (copyOf s cfg').regs))) = some [.user 1, .user 2, .builtin 303] := by
  refine ⟨?_, by decide⟩
  intro op hop
  simp only [List.mem_cons, List.not_mem_nil, or_false] at hop
  rcases hop with rfl | rfl | rfl | rfl <;> simp [SOp.copyOK, cfg', cfg]

/-- **C18_skip_zero_witness.**  Why `cfg.preds ≠ []` is needed: with a constructor that registers no predicate
entry the skip count is 0 and `self._handler_pairs[:-0]` is the EMPTY list, so `copy()` loses every predicate /
factory / NewType registration. -/
theorem C18_skip_zero_witness :
    ∃ (F : Facts) (cfg : Cfg) (h : List Op) (t : TyKey), cfg.preds = [] ∧
      resolve F (copyOf (run F (init cfg) h) cfg).regs t ≠ resolve F (run F (init cfg) h).regs t :=
  ⟨F, { isStruct := true, fb := 0, single := [], preds := [] },
   [.regPred { pred := .tbl 1, kind := .plain, tag := 4 }], 4, rfl, by decide⟩

end C18ex

/-! ## isolation at the level of object identities -/
open Dispatch.Locs

/-- **C18_no_shared_locations.**  Start from any freshly constructed converters and run ANY store history
(operations on any converter, copies with any overrides, copies of copies).  Every converter owns five distinct,
allocated containers (class registry, predicate list, union registry, direct table, lru), and two distinct converters
— in particular a copy and its source — have no container in common. -/
theorem C18_no_shared_locations (F : Facts) (cfgs : List Cfg) (ops : List SOp) :
    let σ := hrun F (HStore.fresh cfgs) ops
    (∀ (i : Nat) (c : Conv), σ.convs[i]? = some c → c.locs.Nodup ∧ ∀ l ∈ c.locs, l < σ.heap.next) ∧
    (∀ (i j : Nat) (ci cj : Conv), i ≠ j → σ.convs[i]? = some ci → σ.convs[j]? = some cj →
      ∀ l ∈ ci.locs, l ∉ cj.locs) := by
  intro σ
  have w := hrun_WFS F ops _ (fresh_WFS F cfgs)
  exact ⟨fun i c hc => ⟨w.own i c hc, w.bound i c hc⟩, w.disj⟩

/-- **C18_frame_locations** (frame rule).  An operation addressed to converter `j` changes the heap only at locations
of converter `j`; `copy` changes no location that existed before. -/
theorem C18_frame_locations (F : Facts) (σ : HStore) (op : SOp) (l : Nat) (hl : l < σ.heap.next)
    (hnot : ∀ j c, op.target = some j → σ.convs[j]? = some c → l ∉ c.locs) :
    (hstep F σ op).heap.assoc l = σ.heap.assoc l ∧ (hstep F σ op).heap.ents l = σ.heap.ents l :=
  hstep_frame F σ op l hl hnot

/-- **C18_isolation_from_locations.**  Isolation derived from the two theorems above: after any history `pre`, any
operations none of which is addressed to converter `i` leave `i`'s handle and the contents of all its containers —
hence everything it answers — as they were. -/
theorem C18_isolation_from_locations (F : Facts) (cfgs : List Cfg) (pre ops : List SOp) (i : Nat)
    (h : ∀ op ∈ ops, op.target ≠ some i) :
    let σ := hrun F (HStore.fresh cfgs) pre
    i < σ.convs.length → (hrun F σ ops).readAll[i]? = σ.readAll[i]? := by
  intro σ hi
  have w := hrun_WFS F pre _ (fresh_WFS F cfgs)
  have hc : σ.convs[i]? = some σ.convs[i] := List.getElem?_eq_getElem hi
  obtain ⟨h1, h2⟩ := hrun_isolated F ops σ w i _ hc h
  rw [readAll_getElem?, readAll_getElem?, h1, hc]
  exact congrArg some (read_of_frame _ _ _ h2)

/-- **C18_heap_refines_store.**  Reading the heap store back gives exactly the value store of `Model.lean`: every
theorem about `srun` (C18_copy_same_anywhere, C18_isolation, …) is a theorem about the heap store. -/
theorem C18_heap_refines_store (F : Facts) (cfgs : List Cfg) (ops : List SOp) :
    (hrun F (HStore.fresh cfgs) ops).readAll = srun F (cfgs.map init) ops := by
  rw [hrun_readAll F ops _ (fresh_WFS F cfgs), fresh_readAll cfgs F]

/-- **C18_isolation_derived.**  `C18_isolation` for every store reachable from fresh converters, obtained from the
identity layer (no shared locations + frame rule + refinement) instead of from the value model's frame lemma. -/
theorem C18_isolation_derived (F : Facts) (cfgs : List Cfg) (pre ops : List SOp) (i : Nat)
    (hi : i < (srun F (cfgs.map init) pre).length) (h : ∀ op ∈ ops, op.target ≠ some i) :
    (srun F (srun F (cfgs.map init) pre) ops)[i]? = (srun F (cfgs.map init) pre)[i]? := by
  have e1 := C18_heap_refines_store F cfgs pre
  have e2 : (hrun F (hrun F (HStore.fresh cfgs) pre) ops).readAll = srun F (srun F (cfgs.map init) pre) ops := by
    rw [hrun_readAll F ops _ (hrun_WFS F pre _ (fresh_WFS F cfgs)), e1]
  have hi' : i < (hrun F (HStore.fresh cfgs) pre).convs.length := by
    have := congrArg List.length e1
    simp only [HStore.readAll, List.length_map] at this
    omega
  have := C18_isolation_from_locations F cfgs pre ops i h hi'
  rw [← e2, ← e1]
  exact this

/-- **C18_shared_registry_witness** (negative witness).  What a regression to "copy the class registry by reference"
looks like: the location sets of source and copy overlap, and registering a hook for class 0 on the COPY changes what
the ORIGINAL answers for class 0; with `copy` as transcribed from the code the sets are disjoint and the original
keeps its answer. -/
theorem C18_shared_registry_witness :
    let σ0 := HStore.fresh [C18ex.cfg]
    let byRef := hstepWith copyByRef C18ex.F σ0 (.copy 0 C18ex.cfg)
    let good := hstep C18ex.F σ0 (.copy 0 C18ex.cfg)
    byRef.convs.map Conv.locs = [[0, 1, 2, 3, 4], [0, 10, 7, 8, 9]] ∧
    good.convs.map Conv.locs = [[0, 1, 2, 3, 4], [5, 10, 7, 8, 9]] ∧
    (σ0.readAll[0]?.map (fun s => (dispatch C18ex.F s 0).2)) = some (.made 200 0 false []) ∧
    ((hstepWith copyByRef C18ex.F byRef (.on 1 (.regHook 0 8))).readAll[0]?.map (fun s => (dispatch C18ex.F s 0).2))
      = some (.user 8) ∧
    ((hstep C18ex.F good (.on 1 (.regHook 0 8))).readAll[0]?.map (fun s => (dispatch C18ex.F s 0).2))
      = some (.made 200 0 false []) := by
  decide

/-- non-vacuity of the identity layer: a store with a copy of a copy; locations pairwise disjoint, read-back = `srun` -/
example :
    let ops : List SOp := [.on 0 (.regHook 0 1), .copy 0 C18ex.cfg', .on 1 (.regHook 1 2), .copy 1 C18ex.cfg, .on 2 (.call 3)]
    let σ := hrun C18ex.F (HStore.fresh [C18ex.cfg]) ops
    σ.convs.map Conv.locs = [[0, 1, 2, 3, 4], [5, 10, 7, 8, 9], [11, 16, 13, 14, 15]] ∧
    σ.readAll.map (fun s => (dispatch C18ex.F s 1).2) = (srun C18ex.F [init C18ex.cfg] ops).map (fun s => (dispatch C18ex.F s 1).2) := by
  decide

end CattrsModel
