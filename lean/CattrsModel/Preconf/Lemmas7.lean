import CattrsModel.Preconf.Lemmas6
/-!
# C16, seventh layer: the full round trip — every supported type, by mutual recursion on the type over the
declared-type handler (`unP`) and the run-time-class handler (`unRT`, msgspec TypedDict payloads)
-/
namespace CattrsModel.Preconf
open CattrsModel

variable {w : EW} {env : Env} {cf : Conf}

/-! ### non-recursive cases, packaged -/

theorem rt_leaf (hw : w.WF = true) (he : env.OK) {t : PTy} (ht : leafTy t = true) {x : Obj}
    (hs : sup w cf t = true) (hc : confP w t x = true) : RT w env cf t x := by
  cases t with
  | int => exact rt_int hc
  | float => exact rt_float hc
  | str => exact rt_str hc
  | bytes => exact rt_bytes he hc
  | bool => exact rt_bool hc
  | datetime => exact rt_datetime he hc
  | date => exact rt_date he hc
  | enum _ => exact rt_enum hw hc
  | lit _ => exact rt_lit hc
  | punion _ => exact rt_punion hs hc
  | coll _ _ | tupleHet _ | map _ _ _ | opt _ | cls _ _ _ | td _ => simp [leafTy] at ht

/-- a class instance: through the generated dict hook, or (msgspec) handed to `to_builtins` -/
theorem rt_cls_any (hw : w.WF = true) (he : env.OK) {c : Nat} {dc : Bool} {fs : List (String × PTy)} {c' : Nat}
    {vs : List (String × Obj)}
    (hs : sup w cf (.cls c dc fs) = true) (hc : confP w (.cls c dc fs) (.inst c' vs) = true)
    (ih : ∀ (n : String) (t : PTy) (x : Obj), (n, t) ∈ fs → confP w t x = true → RT w env cf t x) :
    RT w env cf (.cls c dc fs) (.inst c' vs) := by
  by_cases hpt : (cf.fmt == .msgspec && !((!dc && privF fs) || customF cf fs)) = true
  · have hpt2 := hpt
    simp only [Bool.and_eq_true, beq_iff_eq, Bool.not_eq_true'] at hpt2
    have hh : hk cf (.cls c dc fs) ≠ .custom := by simp [hk, hpt2.2]
    have hu : unP w env cf (.cls c dc fs) (.inst c' vs) = toB w env (.inst c' vs) := by
      simp only [unP]; rw [if_pos hpt]
    have := rtb hw he hpt2.1 (.cls c dc fs) (.inst c' vs) hh hs hc
    unfold RT; rw [hu]; exact this
  · exact rt_cls_custom hs hc (by simpa using hpt) ih

/-- a mapping: the generated mapping hook (always for a `Counter`), or (msgspec) handed to `to_builtins` -/
theorem rt_map_any (hw : w.WF = true) (he : env.OK) {k : PMK} {kt vt : PTy} {kvs : List (Obj × Obj)}
    (hs : sup w cf (.map k kt vt) = true) (hc : confP w (.map k kt vt) (.dict kvs) = true)
    (ih : ∀ p ∈ kvs, RT w env cf vt p.2) : RT w env cf (.map k kt vt) (.dict kvs) := by
  by_cases hpt : (cf.fmt == .msgspec && k != .counter && hk cf kt != .custom && hk cf vt != .custom) = true
  · have hpt2 := hpt
    simp only [Bool.and_eq_true, beq_iff_eq, bne_iff_ne, ne_eq] at hpt2
    have hk1 : (k == .counter) = false := by simpa using hpt2.1.1.2
    have hh : hk cf (.map k kt vt) ≠ .custom := by
      simp only [hk, hk1, Bool.false_eq_true, if_false]
      rw [if_pos (by simp [hpt2.1.2, hpt2.2])]
      simp
    have hu : unP w env cf (.map k kt vt) (.dict kvs) = toB w env (.dict kvs) := by
      simp only [unP]; rw [if_pos hpt]
    have := rtb hw he hpt2.1.1.1 (.map k kt vt) (.dict kvs) hh hs hc
    unfold RT; rw [hu]; exact this
  · exact rt_map_custom hw he hs hc (by simpa using hpt) ih

/-- a TypedDict on json / pyyaml: entrywise hooks by declared type -/
theorem rt_td_typed (hf : cf.fmt ≠ .msgspec) {fs : List (String × Bool × PTy)} {kvs : List (Obj × Obj)}
    (hc : confP w (.td fs) (.dict kvs) = true)
    (ih : ∀ (n : String) (r : Bool) (t : PTy) (x : Obj), (n, r, t) ∈ fs → confP w t x = true → RT w env cf t x) :
    RT w env cf (.td fs) (.dict kvs) := by
  simp only [confP, Bool.and_eq_true, List.all_eq_true] at hc
  obtain ⟨⟨hnd, hreq⟩, hall⟩ := hc
  have hu : unP w env cf (.td fs) (.dict kvs) = .dict (tdMap (tabG (unP w env cf) fs) kvs) := by
    simp only [unP, unTab_eq]; rw [if_neg (by simpa using hf)]
  unfold RT; rw [hu]
  exact good_td (unP w env cf) hnd hreq hall ih

/-- a TypedDict on msgspec: a bare mapping, entries unstructured by run-time class -/
theorem good_td_rt {fs : List (String × Bool × PTy)} {kvs : List (Obj × Obj)}
    (hc : confP w (.td fs) (.dict kvs) = true)
    (ih : ∀ (n : String) (r : Bool) (t : PTy) (x : Obj), (n, r, t) ∈ fs → confP w t x = true →
      Good w env cf t (unRT w env cf t) x) :
    enc w cf.fmt (.dict (mkDict (tdMap (rtTab w env cf fs) kvs))) = true
      ∧ stP w env cf (.td fs) (norm w env cf.fmt (.dict (mkDict (tdMap (rtTab w env cf fs) kvs)))) = some (.dict kvs) := by
  simp only [confP, Bool.and_eq_true, List.all_eq_true] at hc
  obtain ⟨⟨hnd, hreq⟩, hall⟩ := hc
  rw [mkDict_tdMap _ hnd, rtTab_eq]
  exact good_td (unRT w env cf) hnd hreq hall ih

theorem unRT_cls (hf : cf.fmt = .msgspec) (c : Nat) (dc : Bool) (fs : List (String × PTy)) (c' : Nat)
    (vs : List (String × Obj)) :
    unRT w env cf (.cls c dc fs) (.inst c' vs) = unP w env cf (.cls c dc fs) (.inst c' vs) := by
  simp [unRT, unP, hf]

/-- the decoded form of a non-`None` value unstructured by run-time class is not `None` -/
theorem unRT_ne_none (hw : w.WF = true) (hf : cf.fmt = .msgspec) {t : PTy} {x : Obj} (hc : confP w t x = true)
    (hx : x ≠ .none) (ht : notOptUnion t = true) : norm w env cf.fmt (unRT w env cf t x) ≠ .none := by
  cases t with
  | opt _ | punion _ => simp [notOptUnion] at ht
  | int | float | str | bytes | bool | datetime | date | enum _ | lit _ =>
    rw [unRT_leaf hf rfl hc]; exact wire_ne_none hw hc hx ht
  | coll k t => cases x <;> simp [confP] at hc; simp [unRT, mkColl, norm]
  | tupleHet ts =>
    cases x with
    | coll ck xs => cases ck <;> simp [confP] at hc <;> simp [unRT, norm]
    | _ => simp [confP] at hc
  | map k kt vt => cases x <;> simp [confP] at hc; simp [unRT, norm]
  | cls c dc fs =>
    cases x <;> simp [confP] at hc
    simp only [unRT]
    split <;> simp [toB, norm]
  | td fs => cases x <;> simp [confP] at hc; simp [unRT, norm]

theorem notOptUnion_of_sup {t : PTy} (hs : sup w cf (.opt t) = true) : notOptUnion t = true := by
  simp only [sup, Bool.and_eq_true] at hs
  have := hs.2
  cases t <;> simp_all [notOptUnion]

/-! ### the round trip, by recursion on the type -/

mutual
theorem rt_all (hw : w.WF = true) (he : env.OK) : ∀ (t : PTy) (x : Obj),
    sup w cf t = true → confP w t x = true → RT w env cf t x
  | .int, _, _, hc => rt_int hc
  | .float, _, _, hc => rt_float hc
  | .str, _, _, hc => rt_str hc
  | .bytes, _, _, hc => rt_bytes he hc
  | .bool, _, _, hc => rt_bool hc
  | .datetime, _, _, hc => rt_datetime he hc
  | .date, _, _, hc => rt_date he hc
  | .enum _, _, _, hc => rt_enum hw hc
  | .lit _, _, _, hc => rt_lit hc
  | .punion _, _, hs, hc => rt_punion hs hc
  | .coll k t, x, hs, hc => by
      cases x with
      | coll ck xs =>
        have hc2 := hc
        simp only [confP, Bool.and_eq_true, List.all_eq_true] at hc2
        have hs2 := hs
        simp only [sup, Bool.and_eq_true] at hs2
        by_cases hl : listTarget cf k = true
        · exact rt_coll k t ck xs hs hc hl (fun y hy => rt_all hw he t y hs2.1 (hc2.1.2 y hy))
        · exact rt_coll_set hw he k t ck xs hs hc (by simpa using hl)
            (fun y hy => rt_all hw he t y hs2.1 (hc2.1.2 y hy))
      | _ => simp [confP] at hc
  | .tupleHet ts, x, hs, hc => by
      cases x with
      | coll ck xs =>
        cases ck <;> simp [confP] at hc
        simp only [sup] at hs
        obtain ⟨h1, h2⟩ := rt_allT hw he ts xs hs hc
        refine ⟨?_, ?_⟩
        · simp only [unP, enc, Bool.and_eq_true]
          exact ⟨by cases cf.fmt <;> trivial, h1⟩
        · have hn : norm w env cf.fmt (unP w env cf (.tupleHet ts) (.coll .tuple xs))
              = .coll .list (normL w env cf.fmt (unT w env cf ts xs)) := by
            cases hfm : cf.fmt <;> simp [unP, norm]
          rw [hn]
          simp [stP, iterItems, h2]
      | _ => simp [confP] at hc
  | .map k kt vt, x, hs, hc => by
      cases x with
      | dict kvs =>
        have hc2 := hc
        simp only [confP, Bool.and_eq_true, List.all_eq_true] at hc2
        have hs2 := hs
        simp only [sup, Bool.and_eq_true] at hs2
        exact rt_map_any hw he hs hc (fun p hp => rt_all hw he vt p.2 hs2.1.2 (hc2.1 p hp).2)
      | _ => simp [confP] at hc
  | .opt t, x, hs, hc => by
      have hs2 := hs
      simp only [sup, Bool.and_eq_true] at hs2
      exact rt_opt hw hs hc (fun hc' => rt_all hw he t x hs2.1 hc')
  | .cls c dc fs, x, hs, hc => by
      cases x with
      | inst c' vs =>
        have hs2 := hs
        simp only [sup, Bool.and_eq_true] at hs2
        exact rt_cls_any hw he hs hc (fun n t y hm hc' => rt_allF hw he fs hs2.1 n t y hm hc')
      | _ => simp [confP] at hc
  | .td fs, x, hs, hc => by
      cases x with
      | dict kvs =>
        have hs2 := hs
        simp only [sup, Bool.and_eq_true, Bool.or_eq_true, bne_iff_ne, ne_eq] at hs2
        by_cases hf : cf.fmt = .msgspec
        · have hsafe : rtSafeTD w fs = true := by
            rcases hs2.2 with h | h
            · exact absurd hf h
            · exact h
          have hu : unP w env cf (.td fs) (.dict kvs) = .dict (mkDict (tdMap (rtTab w env cf fs) kvs)) := by
            simp only [unP]; rw [if_pos (by simp [hf])]
          unfold RT; rw [hu]
          exact good_td_rt hc (fun n r t y hm hc' => rtrTD hw he hf fs hs2.1.1 hsafe n r t y hm hc')
        · exact rt_td_typed hf hc (fun n r t y hm hc' => rt_allTD hw he fs hs2.1.1 n r t y hm hc')
      | _ => simp [confP] at hc
theorem rt_allT (hw : w.WF = true) (he : env.OK) : ∀ (ts : List PTy) (xs : List Obj),
    supT w cf ts = true → confT w ts xs = true →
    encL w cf.fmt (unT w env cf ts xs) = true ∧ stT w env cf ts (normL w env cf.fmt (unT w env cf ts xs)) = some xs
  | [], [], _, _ => by simp [unT, encL, normL, stT]
  | [], _ :: _, _, hc => by simp [confT] at hc
  | _ :: _, [], _, hc => by simp [confT] at hc
  | t :: ts, x :: xs, hs, hc => by
      simp only [supT, Bool.and_eq_true] at hs
      simp only [confT, Bool.and_eq_true] at hc
      obtain ⟨h1, h2⟩ := rt_all hw he t x hs.1 hc.1
      obtain ⟨h3, h4⟩ := rt_allT hw he ts xs hs.2 hc.2
      simp [unT, encL, normL, stT, h1, h2, h3, h4]
theorem rt_allF (hw : w.WF = true) (he : env.OK) : ∀ (fs : List (String × PTy)),
    supF w cf fs = true →
    ∀ (n : String) (t : PTy) (x : Obj), (n, t) ∈ fs → confP w t x = true → RT w env cf t x
  | [], _, _, _, _, hm, _ => by simp at hm
  | (n0, t0) :: fs, hs, n, t, x, hm, hc => by
      simp only [supF, Bool.and_eq_true] at hs
      simp only [List.mem_cons, Prod.mk.injEq] at hm
      rcases hm with ⟨rfl, rfl⟩ | hm
      · exact rt_all hw he t x hs.1 hc
      · exact rt_allF hw he fs hs.2 n t x hm hc
theorem rt_allTD (hw : w.WF = true) (he : env.OK) : ∀ (fs : List (String × Bool × PTy)),
    supTD w cf fs = true →
    ∀ (n : String) (r : Bool) (t : PTy) (x : Obj), (n, r, t) ∈ fs → confP w t x = true → RT w env cf t x
  | [], _, _, _, _, _, hm, _ => by simp at hm
  | (n0, r0, t0) :: fs, hs, n, r, t, x, hm, hc => by
      simp only [supTD, Bool.and_eq_true] at hs
      simp only [List.mem_cons, Prod.mk.injEq] at hm
      rcases hm with ⟨rfl, rfl, rfl⟩ | hm
      · exact rt_all hw he t x hs.1 hc
      · exact rt_allTD hw he fs hs.2 n r t x hm hc
/-- msgspec: the run-time-class handler (`converter.unstructure(v)` inside TypedDict payloads) -/
theorem rtr (hw : w.WF = true) (he : env.OK) (hf : cf.fmt = .msgspec) : ∀ (t : PTy) (x : Obj),
    sup w cf t = true → rtSafe w t = true → confP w t x = true → Good w env cf t (unRT w env cf t) x
  | .int, _, hs, _, hc => good_congr (unRT_leaf hf rfl hc) (rt_leaf hw he rfl hs hc)
  | .float, _, hs, _, hc => good_congr (unRT_leaf hf rfl hc) (rt_leaf hw he rfl hs hc)
  | .str, _, hs, _, hc => good_congr (unRT_leaf hf rfl hc) (rt_leaf hw he rfl hs hc)
  | .bytes, _, hs, _, hc => good_congr (unRT_leaf hf rfl hc) (rt_leaf hw he rfl hs hc)
  | .bool, _, hs, _, hc => good_congr (unRT_leaf hf rfl hc) (rt_leaf hw he rfl hs hc)
  | .datetime, _, hs, _, hc => good_congr (unRT_leaf hf rfl hc) (rt_leaf hw he rfl hs hc)
  | .date, _, hs, _, hc => good_congr (unRT_leaf hf rfl hc) (rt_leaf hw he rfl hs hc)
  | .enum _, _, hs, _, hc => good_congr (unRT_leaf hf rfl hc) (rt_leaf hw he rfl hs hc)
  | .lit _, _, hs, _, hc => good_congr (unRT_leaf hf rfl hc) (rt_leaf hw he rfl hs hc)
  | .punion _, _, hs, _, hc => good_congr (unRT_leaf hf rfl hc) (rt_leaf hw he rfl hs hc)
  | .coll k t, x, hs, hsafe, hc => by
      cases x with
      | coll ck xs =>
        have hc2 := hc
        simp only [confP, Bool.and_eq_true, beq_iff_eq, List.all_eq_true] at hc2
        obtain ⟨⟨hck, hall⟩, hnd⟩ := hc2
        have hs2 := hs
        simp only [sup, Bool.and_eq_true] at hs2
        simp only [rtSafe] at hsafe
        have ihx : ∀ y ∈ xs, Good w env cf t (unRT w env cf t) y :=
          fun y hy => rtr hw he hf t y hs2.1 hsafe (hall y hy)
        cases hset : ck.isSet
        · have hu : unRT w env cf (.coll k t) (.coll ck xs) = .coll .list (xs.map (unRT w env cf t)) := by
            cases ck <;> simp [CK.isSet] at hset <;> simp [unRT, mkColl, CK.isSet]
          unfold Good; rw [hu]
          exact good_coll_list k ck xs .list hck hnd (Or.inl rfl) ihx
        · have hks : isSetK k = true := by
            rw [hck] at hset; cases k <;> simp [SK.structTo, CK.isSet] at hset <;> rfl
          have het : elemTy t = true := by simpa [hks] using hs2.2
          have hnd' : nodupPy xs = true := by simpa [hset] using hnd
          have hnd2 : nodupPy (xs.map (unRT w env cf t)) = true := by
            apply nodupPy_map _ _ _ hnd'
            intro a ha b hb h
            rw [unRT_leaf hf (elemTy_leafTy het) (hall a ha), unRT_leaf hf (elemTy_leafTy het) (hall b hb)] at h
            exact unP_inj hw he het (hall a ha) (hall b hb) h
          have hu : unRT w env cf (.coll k t) (.coll ck xs) = .coll ck (xs.map (unRT w env cf t)) := by
            cases ck <;> simp [CK.isSet] at hset <;> simp [unRT, mkColl, CK.isSet, mkSet_of_nodup _ hnd2]
          unfold Good; rw [hu]
          refine good_coll_set k ck xs ck hck hnd (Or.inr ⟨hf, ?_⟩) (fun hy => by simp [hf] at hy) ihx
          cases ck <;> simp [CK.isSet] at hset <;> simp
      | _ => simp [confP] at hc
  | .tupleHet ts, x, hs, hsafe, hc => by
      cases x with
      | coll ck xs =>
        cases ck <;> simp [confP] at hc
        simp only [sup] at hs
        simp only [rtSafe] at hsafe
        obtain ⟨h1, h2⟩ := rtrT hw he hf ts xs hs hsafe hc
        refine ⟨?_, ?_⟩
        · simp only [unRT, enc, Bool.and_eq_true]
          exact ⟨by cases cf.fmt <;> trivial, h1⟩
        · have hn : norm w env cf.fmt (unRT w env cf (.tupleHet ts) (.coll .tuple xs))
              = .coll .list (normL w env cf.fmt (rtT w env cf ts xs)) := by
            cases hfm : cf.fmt <;> simp [unRT, norm]
          rw [hn]
          simp [stP, iterItems, h2]
      | _ => simp [confP] at hc
  | .map k kt vt, x, hs, hsafe, hc => by
      cases x with
      | dict kvs =>
        have hc2 := hc
        simp only [confP, Bool.and_eq_true, List.all_eq_true] at hc2
        obtain ⟨hall, hnd⟩ := hc2
        have hs2 := hs
        simp only [sup, Bool.and_eq_true] at hs2
        obtain ⟨⟨⟨hkt, _⟩, hsv⟩, _⟩ := hs2
        simp only [rtSafe, Bool.and_eq_true, Bool.not_eq_true'] at hsafe
        have hlk : leafTy kt = true := elemTy_leafTy (keyTy_elemTy hkt)
        have hu : unRT w env cf (.map k kt vt) (.dict kvs)
            = .dict (mkDict (kvs.map (fun p => (unRT w env cf kt p.1, unRT w env cf vt p.2)))) := by
          simp [unRT]
        unfold Good; rw [hu]
        exact good_map k kt vt kvs _ _ hnd
          (fun p hp => keyGood_congr (unRT_leaf hf hlk (hall p hp).1)
            (key_unP hw he hkt (fun _ => hsafe.1) (hall p hp).1).1)
          (fun p hp => rtr hw he hf vt p.2 hsv hsafe.2 (hall p hp).2)
          (fun p hp q hq => keyInj_congr (unRT_leaf hf hlk (hall p hp).1) (unRT_leaf hf hlk (hall q hq).1)
            ((key_unP hw he hkt (fun _ => hsafe.1) (hall p hp).1).2 q.1 (hall q hq).1))
      | _ => simp [confP] at hc
  | .opt t, x, hs, hsafe, hc => by
      by_cases hx : x = .none
      · subst hx; simp [Good, unRT, enc, norm, stP]
      · have hc' : confP w t x = true := by cases x <;> simp_all [confP]
        have hu : unRT w env cf (.opt t) x = unRT w env cf t x := by cases x <;> simp_all [unRT]
        have hs2 := hs
        simp only [sup, Bool.and_eq_true] at hs2
        simp only [rtSafe] at hsafe
        exact good_congr hu
          (good_opt (unRT_ne_none hw hf hc' hx (notOptUnion_of_sup hs)) (rtr hw he hf t x hs2.1 hsafe hc'))
  | .cls c dc fs, x, hs, _, hc => by
      cases x with
      | inst c' vs =>
        have hs2 := hs
        simp only [sup, Bool.and_eq_true] at hs2
        exact good_congr (unRT_cls hf c dc fs c' vs)
          (rt_cls_any hw he hs hc (fun n t y hm hc' => rt_allF hw he fs hs2.1 n t y hm hc'))
      | _ => simp [confP] at hc
  | .td fs, x, hs, hsafe, hc => by
      cases x with
      | dict kvs =>
        have hs2 := hs
        simp only [sup, Bool.and_eq_true] at hs2
        simp only [rtSafe] at hsafe
        have hu : unRT w env cf (.td fs) (.dict kvs) = .dict (mkDict (tdMap (rtTab w env cf fs) kvs)) := by
          simp [unRT]
        unfold Good; rw [hu]
        exact good_td_rt hc (fun n r t y hm hc' => rtrTD hw he hf fs hs2.1.1 hsafe n r t y hm hc')
      | _ => simp [confP] at hc
theorem rtrT (hw : w.WF = true) (he : env.OK) (hf : cf.fmt = .msgspec) : ∀ (ts : List PTy) (xs : List Obj),
    supT w cf ts = true → rtSafeT w ts = true → confT w ts xs = true →
    encL w cf.fmt (rtT w env cf ts xs) = true ∧ stT w env cf ts (normL w env cf.fmt (rtT w env cf ts xs)) = some xs
  | [], [], _, _, _ => by simp [rtT, encL, normL, stT]
  | [], _ :: _, _, _, hc => by simp [confT] at hc
  | _ :: _, [], _, _, hc => by simp [confT] at hc
  | t :: ts, x :: xs, hs, hsafe, hc => by
      simp only [supT, Bool.and_eq_true] at hs
      simp only [rtSafeT, Bool.and_eq_true] at hsafe
      simp only [confT, Bool.and_eq_true] at hc
      obtain ⟨h1, h2⟩ := rtr hw he hf t x hs.1 hsafe.1 hc.1
      obtain ⟨h3, h4⟩ := rtrT hw he hf ts xs hs.2 hsafe.2 hc.2
      simp [rtT, encL, normL, stT, h1, h2, h3, h4]
theorem rtrTD (hw : w.WF = true) (he : env.OK) (hf : cf.fmt = .msgspec) : ∀ (fs : List (String × Bool × PTy)),
    supTD w cf fs = true → rtSafeTD w fs = true →
    ∀ (n : String) (r : Bool) (t : PTy) (x : Obj), (n, r, t) ∈ fs → confP w t x = true →
      Good w env cf t (unRT w env cf t) x
  | [], _, _, _, _, _, _, hm, _ => by simp at hm
  | (n0, r0, t0) :: fs, hs, hsafe, n, r, t, x, hm, hc => by
      simp only [supTD, Bool.and_eq_true] at hs
      simp only [rtSafeTD, Bool.and_eq_true] at hsafe
      simp only [List.mem_cons, Prod.mk.injEq] at hm
      rcases hm with ⟨rfl, rfl, rfl⟩ | hm
      · exact rtr hw he hf t x hs.1 hsafe.1 hc
      · exact rtrTD hw he hf fs hs.2 hsafe.2 n r t x hm hc
end

end CattrsModel.Preconf
