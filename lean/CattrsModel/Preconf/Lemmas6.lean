import CattrsModel.Preconf.Lemmas5
/-!
# C16, sixth layer: TypedDicts (entrywise hooks, any per-type wire function), `Optional` for any wire
function, and the run-time-class handler `unRT` (msgspec TypedDict payloads) on leaves
-/
namespace CattrsModel.Preconf
open CattrsModel

variable {w : EW} {env : Env} {cf : Conf}

/-! ### TypedDicts -/

/-- per-key function table built from a per-type function -/
def tabG {α : Type} (u : PTy → α) : List (String × Bool × PTy) → List (String × α)
  | [] => []
  | (n, _, t) :: fs => (n, u t) :: tabG u fs

theorem unTab_eq : ∀ (fs : List (String × Bool × PTy)), unTab w env cf fs = tabG (unP w env cf) fs
  | [] => by simp [unTab, tabG]
  | (n, r, t) :: fs => by simp [unTab, tabG, unTab_eq fs]

theorem rtTab_eq : ∀ (fs : List (String × Bool × PTy)), rtTab w env cf fs = tabG (unRT w env cf) fs
  | [] => by simp [rtTab, tabG]
  | (n, r, t) :: fs => by simp [rtTab, tabG, rtTab_eq fs]

theorem stTab_eq : ∀ (fs : List (String × Bool × PTy)), stTab w env cf fs = tabG (stP w env cf) fs
  | [] => by simp [stTab, tabG]
  | (n, r, t) :: fs => by simp [stTab, tabG, stTab_eq fs]

/-- the declared type of a key (first declaration wins) -/
def tdField : List (String × Bool × PTy) → String → Option PTy
  | [], _ => Option.none
  | (n, _, t) :: fs, m => if n == m then some t else tdField fs m

theorem tdLookup_tabG {α : Type} (u : PTy → α) (m : String) : ∀ (fs : List (String × Bool × PTy)),
    tdLookup (tabG u fs) (.str m) = (tdField fs m).map u
  | [] => by simp [tabG, tdLookup, tdField]
  | (n, r, t) :: fs => by
      have ih := tdLookup_tabG u m fs
      simp only [tdLookup] at ih
      by_cases h : n = m
      · simp [tabG, tdLookup, tdField, h]
      · simp [tabG, tdLookup, tdField, h, ih]

theorem tdField_mem {m : String} {t : PTy} : ∀ {fs : List (String × Bool × PTy)}, tdField fs m = some t →
    ∃ r, (m, r, t) ∈ fs
  | [], h => by simp [tdField] at h
  | (n, r, t') :: fs, h => by
      simp only [tdField] at h
      split at h
      · rename_i hn
        simp only [beq_iff_eq] at hn
        cases h; exact ⟨r, by simp [hn]⟩
      · obtain ⟨r', hr⟩ := tdField_mem h
        exact ⟨r', by simp [hr]⟩

theorem confTDkv_inv : ∀ (fs : List (String × Bool × PTy)) (kv : Obj × Obj), confTDkv w fs kv = true →
    ∃ n t, kv.1 = .str n ∧ tdField fs n = some t ∧ confP w t kv.2 = true
  | [], _, h => by simp [confTDkv] at h
  | (n, r, t) :: fs, kv, h => by
      simp only [confTDkv] at h
      split at h
      · rename_i hk
        simp only [beq_iff_eq] at hk
        exact ⟨n, t, hk, by simp [tdField], h⟩
      · rename_i hk
        obtain ⟨n', t', h1, h2, h3⟩ := confTDkv_inv fs kv h
        refine ⟨n', t', h1, ?_, h3⟩
        have : n ≠ n' := by
          intro e; subst e; simp [h1] at hk
        simp [tdField, this, h2]

theorem dhas_eq_memPy (kvs : List (Obj × Obj)) (k : Obj) : dhas kvs k = Obj.memPy k (keysOf kvs) := by
  induction kvs with
  | nil => simp [dhas, dlookup, keysOf, Obj.memPy]
  | cons p rest ih =>
    obtain ⟨k', v⟩ := p
    simp only [dhas, dlookup, keysOf, List.map_cons, Obj.memPy] at ih ⊢
    by_cases h : Obj.pyEq k' k = true
    · simp [h]
    · simp only [Bool.not_eq_true] at h
      simp [h, ih]

theorem reqOK_keys (fs : List (String × Bool × PTy)) {a b : List (Obj × Obj)} (h : keysOf a = keysOf b) :
    reqOK fs a = reqOK fs b := by
  induction fs with
  | nil => simp [reqOK]
  | cons p rest ih =>
    obtain ⟨n, r, t⟩ := p
    simp [reqOK, dhas_eq_memPy, h, ih]

theorem keysOf_tdMap (tab : List (String × (Obj → Obj))) (kvs : List (Obj × Obj)) :
    keysOf (tdMap tab kvs) = keysOf kvs := by
  induction kvs with
  | nil => simp [tdMap, keysOf]
  | cons p rest ih => obtain ⟨k, v⟩ := p; simp only [keysOf, List.map_cons, tdMap] at ih ⊢; rw [ih]

/-- **generic TypedDict lemma**: a conforming TypedDict value whose entries go out as `u t v` (by the key's
declared type) round-trips -/
theorem good_td (u : PTy → Obj → Obj) {fs : List (String × Bool × PTy)} {kvs : List (Obj × Obj)}
    (hnd : nodupPy (keysOf kvs) = true) (hreq : reqOK fs kvs = true)
    (hall : ∀ kv ∈ kvs, confTDkv w fs kv = true)
    (ih : ∀ (n : String) (r : Bool) (t : PTy) (x : Obj), (n, r, t) ∈ fs → confP w t x = true →
      Good w env cf t (u t) x) :
    enc w cf.fmt (.dict (tdMap (tabG u fs) kvs)) = true
      ∧ stP w env cf (.td fs) (norm w env cf.fmt (.dict (tdMap (tabG u fs) kvs))) = some (.dict kvs) := by
  have main : ∀ (l : List (Obj × Obj)), (∀ kv ∈ l, confTDkv w fs kv = true) →
      encKV w cf.fmt (tdMap (tabG u fs) l) = true
      ∧ keysOf (normKV w env cf.fmt (tdMap (tabG u fs) l)) = keysOf l
      ∧ tdMapOpt (stTab w env cf fs) (normKV w env cf.fmt (tdMap (tabG u fs) l)) = some l := by
    intro l
    induction l with
    | nil => intro _; simp [tdMap, encKV, normKV, keysOf, tdMapOpt]
    | cons p rest ihl =>
      intro hl
      obtain ⟨k, v⟩ := p
      obtain ⟨n, t, hk, hfld, hcv⟩ := confTDkv_inv fs (k, v) (hl _ (by simp))
      simp only at hk hcv
      subst hk
      obtain ⟨r, hmem⟩ := tdField_mem hfld
      obtain ⟨g1, g2⟩ := ih n r t v hmem hcv
      obtain ⟨e1, e2, e3⟩ := ihl (fun kv hkv => hl kv (by simp [hkv]))
      have hkey : (if cf.fmt == .yaml then yamlKey (.str n) else encKey w cf.fmt (.str n)) = true := by
        split <;> simp [yamlKey, encKey]
      refine ⟨?_, ?_, ?_⟩
      · simp only [tdMap, tdLookup_tabG, hfld, Option.map_some, encKV, hkey, g1, e1, Bool.and_self]
      · simp only [tdMap, normKV, keysOf, List.map_cons, normKey_str] at e2 ⊢
        rw [e2]
      · simp only [tdMap, tdLookup_tabG, hfld, Option.map_some, normKV, normKey_str, tdMapOpt, stTab_eq, g2]
        rw [stTab_eq] at e3
        simp [e3]
  obtain ⟨m1, m2, m3⟩ := main kvs hall
  refine ⟨by simpa [enc] using m1, ?_⟩
  have hnd2 : nodupPy (keysOf (normKV w env cf.fmt (tdMap (tabG u fs) kvs))) = true := by rw [m2]; exact hnd
  simp only [norm, mkDict_of_nodup _ hnd2, stP]
  rw [reqOK_keys fs m2, hreq]
  simp [m3]

/-- the same with the bare-mapping wrapper msgspec puts around the entrywise result -/
theorem mkDict_tdMap (tab : List (String × (Obj → Obj))) {kvs : List (Obj × Obj)}
    (hnd : nodupPy (keysOf kvs) = true) : mkDict (tdMap tab kvs) = tdMap tab kvs :=
  mkDict_of_nodup _ (by rw [keysOf_tdMap]; exact hnd)

/-! ### `Optional` for any wire function -/

theorem good_opt {t : PTy} {u : Obj → Obj} {x : Obj}
    (hne : norm w env cf.fmt (u x) ≠ .none) (g : Good w env cf t u x) : Good w env cf (.opt t) u x := by
  refine ⟨g.1, ?_⟩
  have : stP w env cf (.opt t) (norm w env cf.fmt (u x)) = stP w env cf t (norm w env cf.fmt (u x)) := by
    generalize norm w env cf.fmt (u x) = v at hne
    cases v <;> simp_all [stP]
  rw [this]; exact g.2

/-! ### the run-time-class handler on leaf types -/

def leafTy : PTy → Bool
  | .int | .float | .str | .bytes | .bool | .datetime | .date | .enum _ | .lit _ | .punion _ => true
  | _ => false

theorem elemTy_leafTy {t : PTy} (h : elemTy t = true) : leafTy t = true := by
  cases t <;> simp [elemTy] at h <;> rfl

/-- msgspec: on leaf types the run-time-class handler and the declared-type handler agree -/
theorem unRT_leaf (hf : cf.fmt = .msgspec) {t : PTy} (ht : leafTy t = true) {x : Obj} (hc : confP w t x = true) :
    unRT w env cf t x = unP w env cf t x := by
  obtain ⟨fmt, uh⟩ := cf
  simp only at hf; subst hf
  cases t with
  | int | str | bool | float | bytes | datetime | date | enum _ =>
    cases x <;> simp [confP] at hc <;> simp [unRT, unP]
  | lit vs => cases x <;> simp [unRT, unP]
  | punion ls => cases x <;> simp [unRT, unP]
  | coll _ _ | tupleHet _ | map _ _ _ | opt _ | cls _ _ _ | td _ => simp [leafTy] at ht

theorem keyGood_congr {kt : PTy} {u u' : Obj → Obj} {a : Obj} (h : u' a = u a) (g : KeyGood w env cf kt u a) :
    KeyGood w env cf kt u' a := by
  unfold KeyGood at *; rw [h]; exact g

theorem keyInj_congr {u u' : Obj → Obj} {a b : Obj} (ha : u' a = u a) (hb : u' b = u b)
    (g : KeyInj w env cf u a b) : KeyInj w env cf u' a b := by
  unfold KeyInj at *; rw [ha, hb]; exact g

end CattrsModel.Preconf
