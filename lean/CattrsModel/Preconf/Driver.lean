import CattrsModel.Core.Wire
import CattrsModel.Preconf.Model
/-!
# Line-protocol operations of the preconf model (driver only; no theorem depends on this file)

Common arguments
* `<fmt>`    `json | yaml | msgspec`
* `<uhook>`  `-` (no user hook) or an integer `d` (float hook pair `v ↦ v + d/2`, `v ↦ float(v) - d/2`)
* `<enums>`  `(enums (<kind> <value>…)…)`, `<kind>` = `plain | int | str`
* `<env>`    `(env (iso (<n> "<text>")…) (b85 ("<hex>" "<text>")…) (b64 ("<hex>" "<text>")…))`
             tables of the string forms of the datetime/date/bytes leaves occurring in the case
* `<type>`   `int float str bytes bool datetime date (enum e) (lit v…) (union k…) (list t) (seq t) (mseq t)
             (tup* t) (deque t) (set t) (mset t) (fset t) (tup t…) (dict k v) (map k v) (mmap k v) (counter k)
             (opt t) (cls c dc ("name" t)…) (td ("name" req t)…)`
* values are the core wire objects; datetime `n` is `(o 2n)`, date `n` is `(o 2n+1)`

Operations
* `CODEC <fmt> <uhook> <enums> <env> <type> <x>` →
  `((sup b) (frag b) (conf b) (lim b) (un <obj>) (enc b) (norm <obj>) (st (ok <obj>) | err))` — the predicted unstructured
  form, whether the library can encode it, the predicted decoded form, the predicted structured result
* `NORM <fmt> <enums> <env> <r>` → `((enc b) (norm <obj>))` — the codec hypothesis on a given `r`
* `STP <fmt> <uhook> <enums> <env> <type> <v>` → `(ok <obj>) | err`
* `UNP <fmt> <uhook> <enums> <env> <type> <x>` → `(ok <obj>)`
Any reply whose objects contain the unmodelled mark is replaced by `unmodelled`.
-/
namespace CattrsModel.Preconf
open CattrsModel Sexp

def fmtOfSexp : Sexp → Option Fmt
  | .atom "json" => some .json
  | .atom "yaml" => some .yaml
  | .atom "msgspec" => some .msgspec
  | _ => Option.none

def lkOfSexp : Sexp → Option LK
  | .atom "none" => some .none
  | .atom "bool" => some .bool
  | .atom "int" => some .int
  | .atom "float" => some .float
  | .atom "str" => some .str
  | .atom "bytes" => some .bytes
  | .atom "datetime" => some .datetime
  | .atom "date" => some .date
  | _ => Option.none

partial def ptyOfSexp : Sexp → Option PTy
  | .atom "int" => some .int
  | .atom "float" => some .float
  | .atom "str" => some .str
  | .atom "bytes" => some .bytes
  | .atom "bool" => some .bool
  | .atom "datetime" => some .datetime
  | .atom "date" => some .date
  | .list [.atom "enum", k] => (atomNat? k).map .enum
  | .list (.atom "lit" :: vs) => (vs.mapM objOfSexp).map .lit
  | .list (.atom "union" :: ks) => (ks.mapM lkOfSexp).map .punion
  | .list [.atom "list", t] => (ptyOfSexp t).map (.coll .list)
  | .list [.atom "seq", t] => (ptyOfSexp t).map (.coll .seq)
  | .list [.atom "mseq", t] => (ptyOfSexp t).map (.coll .mutseq)
  | .list [.atom "tup*", t] => (ptyOfSexp t).map (.coll .tupleHomo)
  | .list [.atom "deque", t] => (ptyOfSexp t).map (.coll .deque)
  | .list [.atom "set", t] => (ptyOfSexp t).map (.coll .set)
  | .list [.atom "mset", t] => (ptyOfSexp t).map (.coll .mutset)
  | .list [.atom "fset", t] => (ptyOfSexp t).map (.coll .fset)
  | .list (.atom "tup" :: ts) => (ts.mapM ptyOfSexp).map .tupleHet
  | .list [.atom "dict", k, v] => do some (.map .dict (← ptyOfSexp k) (← ptyOfSexp v))
  | .list [.atom "map", k, v] => do some (.map .mapping (← ptyOfSexp k) (← ptyOfSexp v))
  | .list [.atom "mmap", k, v] => do some (.map .mutmapping (← ptyOfSexp k) (← ptyOfSexp v))
  | .list [.atom "counter", k] => do some (.map .counter (← ptyOfSexp k) .int)
  | .list [.atom "opt", t] => (ptyOfSexp t).map .opt
  | .list (.atom "cls" :: c :: dc :: fs) => do
      let c ← atomNat? c; let dc ← bool? dc
      let fs ← fs.mapM (fun (f : Sexp) => match f with
        | .list [.str n, t] => do some (n, (← ptyOfSexp t))
        | _ => Option.none)
      some (.cls c dc fs)
  | .list (.atom "td" :: fs) => do
      let fs ← fs.mapM (fun (f : Sexp) => match f with
        | .list [.str n, r, t] => do some (n, (← bool? r), (← ptyOfSexp t))
        | _ => Option.none)
      some (.td fs)
  | _ => Option.none

def ewOfSexp : Sexp → Option EW
  | .list (.atom "enums" :: es) => do
      let es ← es.mapM (fun (e : Sexp) => match e with
        | .list (.atom k :: vs) => do
            let k ← (match k with | "plain" => some EK.plain | "int" => some EK.intMix | "str" => some EK.strMix | _ => Option.none)
            some (k, (← vs.mapM objOfSexp))
        | _ => Option.none)
      some { enums := es }
  | _ => Option.none

def uhookOfSexp : Sexp → Option (Option Int)
  | .atom "-" => some Option.none
  | s => (atomInt? s).map some

def mark : String := String.singleton unmodelledMark

/-- `float(s)` for the spellings `repr` produces on half-integers: `[-]digits.(0|5)` -/
def parseFltD (s : String) : Option Int :=
  let cs := s.toList
  let (neg, body) := match cs with
    | '-' :: r => (true, r)
    | r => (false, r)
  let ip := body.takeWhile isDigit
  let rest := body.dropWhile isDigit
  if ip.isEmpty then Option.none
  else
    let half? : Option Nat := match rest with
      | ['.', '0'] => some 0
      | ['.', '5'] => some 1
      | [] => some 0
      | _ => Option.none
    match half? with
    | Option.none => Option.none
    | some h =>
      let v : Int := (2 * digitsVal ip + h : Nat)
      some (if neg then -v else v)

def envOfSexp : Sexp → Option Env
  | .list [.atom "env", .list (.atom "iso" :: is), .list (.atom "b85" :: b5), .list (.atom "b64" :: b6)] => do
      let is ← is.mapM (fun (p : Sexp) => match p with
        | .list [n, .str s] => do some ((← atomNat? n), s)
        | _ => Option.none)
      let tab (xs : List Sexp) : Option (List (String × String)) := xs.mapM (fun (p : Sexp) => match p with
        | .list [.str h, .str s] => some (h, s)
        | _ => Option.none)
      let b5 ← tab b5
      let b6 ← tab b6
      let fwd (t : List (String × String)) (h : String) : String :=
        match t.find? (fun p => p.1 == h) with | some p => p.2 | Option.none => mark
      let bwd (t : List (String × String)) (s : String) : Option String :=
        (t.find? (fun p => p.2 == s)).map (·.1)
      some {
        iso := fun n => match is.find? (fun p => p.1 == n) with | some p => p.2 | Option.none => mark
        unIso := fun s => (is.find? (fun p => p.2 == s)).map (·.1)
        b85 := fwd b5, unb85 := fun s => if s == "" then some "" else bwd b5 s
        b64 := fwd b6, unb64 := fun s => if s == "" then some "" else bwd b6 s
        intStr := intRepr, parseInt := parseInt?
        fltStr := fltRepr, parseFlt := parseFltD }
  | _ => Option.none

/-- unions with a member the format's passthrough strategy is not configured for are outside the model -/
partial def unmodelledTy (fmt : Fmt) : PTy → Bool
  | .punion ls => !(ls.all (nativeLK fmt))
  | .coll _ t => unmodelledTy fmt t
  | .tupleHet ts => ts.any (unmodelledTy fmt)
  | .map _ k v => unmodelledTy fmt k || unmodelledTy fmt v
  | .opt t => unmodelledTy fmt t || (match t with | .opt _ | .punion _ => true | _ => false)
  | .cls _ _ fs => fs.any (fun f => unmodelledTy fmt f.2)
  | .td fs => fs.any (fun f => unmodelledTy fmt f.2.2)
  | _ => false

def hasMarkS (s : Sexp) : Bool := ((s.toString).splitOn "\\uffff").length > 1

def guard (s : Sexp) : Sexp := if hasMarkS s then .atom "unmodelled" else s

def stReply : Option Obj → Sexp
  | some v => .list [.atom "ok", sexpOfObj v]
  | Option.none => .atom "err"

def preconfHandle (op : String) (args : List Sexp) : Option Sexp :=
  match op, args with
  | "CODEC", [fmt, uh, enums, env, ty, x] => do
      let fmt ← fmtOfSexp fmt; let uh ← uhookOfSexp uh; let w ← ewOfSexp enums; let env ← envOfSexp env
      let ty ← ptyOfSexp ty; let x ← objOfSexp x
      let cf : Conf := { fmt := fmt, uhook := uh }
      if unmodelledTy fmt ty || !w.WF then some (.atom "unmodelled")
      else if !confP w ty x then some (.atom "unmodelled")
      else
        let r := unP w env cf ty x
        let e := enc w fmt r
        let n := norm w env fmt r
        some (guard (.list [
          .list [.atom "sup", ofBool (sup w cf ty)],
          -- the round trip is proved for every supported type (`C16_roundtrip`): the proved fragment is `sup` itself
          .list [.atom "frag", ofBool (sup w cf ty)],
          .list [.atom "conf", ofBool true],
          .list [.atom "lim", ofBool (withinLimits fmt x)],
          .list [.atom "un", sexpOfObj r],
          .list [.atom "enc", ofBool e],
          .list [.atom "norm", if e then sexpOfObj n else .atom "-"],
          .list [.atom "st", if e then stReply (stP w env cf ty n) else .atom "-"]]))
  | "NORM", [fmt, enums, env, r] => do
      let fmt ← fmtOfSexp fmt; let w ← ewOfSexp enums; let env ← envOfSexp env; let r ← objOfSexp r
      let e := enc w fmt r
      some (guard (.list [.list [.atom "enc", ofBool e], .list [.atom "norm", if e then sexpOfObj (norm w env fmt r) else .atom "-"]]))
  | "STP", [fmt, uh, enums, env, ty, v] => do
      let fmt ← fmtOfSexp fmt; let uh ← uhookOfSexp uh; let w ← ewOfSexp enums; let env ← envOfSexp env
      let ty ← ptyOfSexp ty; let v ← objOfSexp v
      if unmodelledTy fmt ty then some (.atom "unmodelled")
      else some (guard (stReply (stP w env { fmt := fmt, uhook := uh } ty v)))
  | "UNP", [fmt, uh, enums, env, ty, x] => do
      let fmt ← fmtOfSexp fmt; let uh ← uhookOfSexp uh; let w ← ewOfSexp enums; let env ← envOfSexp env
      let ty ← ptyOfSexp ty; let x ← objOfSexp x
      if unmodelledTy fmt ty || !confP w ty x then some (.atom "unmodelled")
      else some (guard (.list [.atom "ok", sexpOfObj (unP w env { fmt := fmt, uhook := uh } ty x)]))
  | _, _ => Option.none

end CattrsModel.Preconf
