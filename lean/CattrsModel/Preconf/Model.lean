import CattrsModel.Conv.Unstructure
/-!
# Preconfigured converters (`cattrs.preconf.{json,pyyaml,msgspec}`): format layers and an abstract codec

The preconfigured converters are `Converter` subclasses (generated hooks, dict strategy) with a few
extra hooks and collection overrides registered by `configure_converter` / `make_converter`, plus
`dumps = encode ∘ unstructure` and `loads = structure ∘ decode`.

* `unP`   — `unstructure(x, unstructure_as=T)` on the preconfigured converter: handler resolution by
            declared type, mirroring hook *construction* (for msgspec: the pass-through decisions of
            `seq_unstructure_factory`, `mapping_unstructure_factory`, `msgspec_attrs_unstructure_factory`,
            written as the handler class `hk T ∈ {ident, toB, custom}`).
* `enc`/`norm` — the serialisation library, abstractly: `enc fmt r` = "the library can encode `r`",
            `norm fmt r` = `decode (encode r)`.  This is the **codec hypothesis** (assumed; diff-checked
            against the real libraries on every generated `r` by the harness).
* `stP`   — `structure(v, T)` on the preconfigured converter.

The type universe is local to this component: leaf types are extended by `datetime`/`date`
(values `Obj.opaque (2n)` / `Obj.opaque (2n+1)`: abstract values with an injective string form
`Env.iso`), enums carry their class kind (plain / int mix-in / str mix-in), classes and TypedDicts are
given inline by their field lists (so types are finite trees; self-referential classes are outside this
component's model), `Counter[K]` is the mapping kind `counter` (the value is a `dict` whose run-time
class `Counter` is determined by its type).

String-level behaviour of CPython and of the codecs (isoformat/fromisoformat, base85/base64,
`str(int)`/`int(str)`, `repr(float)`/`float(str)`) is abstracted in `Env` with left-inverse laws `Env.OK`.
-/
namespace CattrsModel.Preconf
open CattrsModel

inductive Fmt where
  | json | yaml | msgspec
  deriving DecidableEq, Repr, Inhabited

/-- enum class kinds: `class E(Enum)`, `class E(int, Enum)` / `IntEnum`, `class E(str, Enum)` -/
inductive EK where
  | plain | intMix | strMix
  deriving DecidableEq, Repr, Inhabited

/-- run-time classes of leaves that may be members of a "native" union -/
inductive LK where
  | none | bool | int | float | str | bytes | datetime | date
  deriving DecidableEq, Repr, Inhabited

inductive PMK where
  | dict | mapping | mutmapping | counter
  deriving DecidableEq, Repr, Inhabited

inductive PTy where
  | int | float | str | bytes | bool | datetime | date
  | enum (e : Nat)
  | lit (vs : List Obj)
  | punion (ls : List LK)
  | coll (k : SK) (t : PTy)
  | tupleHet (ts : List PTy)
  | map (k : PMK) (kt vt : PTy)
  | opt (t : PTy)
  | cls (c : Nat) (dc : Bool) (fs : List (String × PTy))
  | td (fs : List (String × Bool × PTy))
  deriving Repr, Inhabited

/-- enum table: class kind and member values -/
structure EW where
  enums : List (EK × List Obj)
  deriving Repr, Inhabited

def EW.kind (w : EW) (e : Nat) : EK := match w.enums[e]? with | some p => p.1 | Option.none => .plain
def EW.members (w : EW) (e : Nat) : List Obj := match w.enums[e]? with | some p => p.2 | Option.none => []
def EW.value (w : EW) (e m : Nat) : Obj := match (w.members e)[m]? with | some v => v | Option.none => .none

/-- String-level behaviour of CPython builtins and codec helpers, abstracted. -/
structure Env where
  iso : Nat → String                 -- `v.isoformat()` of the datetime/date value `n`
  unIso : String → Option Nat        -- `fromisoformat`
  b85 : String → String              -- `b85encode(v).decode()` (argument: hex of the bytes)
  unb85 : String → Option String
  b64 : String → String
  unb64 : String → Option String
  intStr : Int → String              -- `str(i)` / JSON object key of an int
  parseInt : String → Option Int     -- `int(s)`
  fltStr : Int → String              -- `repr(k/2)`
  parseFlt : String → Option Int     -- `float(s)` (doubled)

structure Env.OK (env : Env) : Prop where
  iso : ∀ n, env.unIso (env.iso n) = some n
  b85 : ∀ h, env.unb85 (env.b85 h) = some h
  b85e : env.unb85 "" = some ""
  b64 : ∀ h, env.unb64 (env.b64 h) = some h
  int : ∀ i, env.parseInt (env.intStr i) = some i
  flt : ∀ k, env.parseFlt (env.fltStr k) = some k

/-- one preconfigured converter: the format and an optional user hook pair on `float`
(`register_unstructure_hook(float, λ v: v + d/2)`, `register_structure_hook(float, λ v,_: float(v) - d/2)`) -/
structure Conf where
  fmt : Fmt
  uhook : Option Int
  deriving Repr, Inhabited

def isPrivate (n : String) : Bool := n.startsWith "_"

def isStrObj : Obj → Bool
  | .str _ => true
  | _ => false

def isIntObj : Obj → Bool
  | .int _ => true
  | _ => false

def isSetK : SK → Bool
  | .set | .mutset | .fset => true
  | _ => false

/-! ### msgspec: handler classes (pass-through decisions) -/

inductive HK where
  | ident | toB | custom
  deriving DecidableEq, Repr, Inhabited

/-- does an attrs class have a private (underscore) attribute? msgspec skips those -/
def privF : List (String × PTy) → Bool
  | [] => false
  | (n, _) :: rest => isPrivate n || privF rest

/-- TypedDict: every required key is present -/
def reqOK : List (String × Bool × PTy) → List (Obj × Obj) → Bool
  | [], _ => true
  | (n, req, _) :: fs, kvs => (!req || dhas kvs (.str n)) && reqOK fs kvs

mutual
/-- class of the unstructure handler the msgspec converter resolves for `T` -/
def hk (cf : Conf) : PTy → HK
  | .int | .str | .bool | .datetime | .date | .enum _ | .lit _ => .ident
  | .float => if cf.uhook.isSome then .custom else .ident
  | .bytes => .toB
  | .punion _ => .custom
  | .opt _ => .custom
  | .coll k t => if isSetK k then .custom else hk cf t
  | .tupleHet _ => .custom
  | .map k kt vt =>
      if k == .counter then .custom
      else if hk cf kt != .custom && hk cf vt != .custom then .toB else .custom
  | .cls _ dc fs => if (!dc && privF fs) || customF cf fs then .custom else .toB
  | .td _ => .custom
termination_by structural t => t
def customF (cf : Conf) : List (String × PTy) → Bool
  | [] => false
  | (_, t) :: rest => hk cf t == .custom || customF cf rest
termination_by structural fs => fs
end

mutual
/-- `msgspec.to_builtins(x)` (by run-time class; deques are rejected by the library: they are left in
place here and refused by `enc`) -/
def toB (w : EW) (env : Env) : Obj → Obj
  | .bytes h => .str (env.b64 h)
  | .opaque n => .str (env.iso n)
  | .enumM e m => w.value e m
  | .coll ck xs => .coll (match ck with | .set | .fset => .list | c => c) (toBL w env xs)
  | .dict kvs => .dict (mkDict (toBKV w env kvs))
  | .inst _ fs => .dict (mkDict (toBF w env fs))
  | x => x
termination_by structural x => x
def toBL (w : EW) (env : Env) : List Obj → List Obj
  | [] => []
  | x :: xs => toB w env x :: toBL w env xs
termination_by structural x => x
def toBKV (w : EW) (env : Env) : List (Obj × Obj) → List (Obj × Obj)
  | [] => []
  | (k, v) :: rest => (toB w env k, toB w env v) :: toBKV w env rest
termination_by structural x => x
def toBF (w : EW) (env : Env) : List (String × Obj) → List (Obj × Obj)
  | [] => []
  | (n, v) :: rest => (.str n, toB w env v) :: toBF w env rest
termination_by structural x => x
end

/-! ### unstructuring -/

/-- container class a `Converter` with the format's collection overrides unstructures a collection type to -/
def unTarget (fmt : Fmt) : SK → CK
  | .list | .seq | .mutseq | .tupleHomo | .deque => .list
  | .set | .mutset => if fmt == .json then .list else .set
  | .fset => if fmt == .msgspec then .fset else .list

/-- entrywise application of a per-key function table (TypedDict hooks; keys not in the table are kept) -/
def tdLookup {α : Type} (tab : List (String × α)) (k : Obj) : Option α :=
  match k with
  | .str n => (tab.find? (fun p => p.1 == n)).map (·.2)
  | _ => Option.none

def tdMap (tab : List (String × (Obj → Obj))) : List (Obj × Obj) → List (Obj × Obj)
  | [] => []
  | (k, v) :: rest => (k, match tdLookup tab k with | some f => f v | Option.none => v) :: tdMap tab rest

mutual
def unP (w : EW) (env : Env) (cf : Conf) : PTy → Obj → Obj
  | .float, .flt k => (match cf.uhook with | some d => .flt (k + d) | Option.none => .flt k)
  | .bytes, .bytes h =>
      (match cf.fmt with
       | .json => .str (if h == "" then "" else env.b85 h)
       | .yaml => .bytes h
       | .msgspec => .str (env.b64 h))
  | .datetime, .opaque n => if cf.fmt == .json then .str (env.iso n) else .opaque n
  | .date, .opaque n => if cf.fmt == .json then .str (env.iso n) else .opaque n
  | .enum _, .enumM e m =>
      (match cf.fmt with
       | .json => if w.kind e == .plain then w.value e m else .enumM e m
       | .yaml => w.value e m
       | .msgspec => .enumM e m)
  | .coll k t, .coll ck xs =>
      if cf.fmt == .msgspec && !isSetK k && hk cf t == .ident then .coll ck xs
      else if cf.fmt == .msgspec && !isSetK k && hk cf t == .toB then toB w env (.coll ck xs)
      else mkColl (unTarget cf.fmt k) (xs.map (unP w env cf t))
  | .tupleHet ts, .coll .tuple xs => .coll .tuple (unT w env cf ts xs)
  | .map k kt vt, .dict kvs =>
      -- `mapping_unstructure_factory`, `Counter[K]` ("Probably a Counter"): the key type is `K` (`args[0]`; F42, repaired)
      -- and the value type is taken to be `Any`, whose handler (unstructure by run-time class) is never a
      -- pass-through: a Counter always goes through the generated mapping hook, its keys through `K`'s handler; its
      -- counts are ints (`vt = int` is the only Counter form the wire builds and `sup` admits), left as they are
      if cf.fmt == .msgspec && k != .counter && hk cf kt != .custom && hk cf vt != .custom then toB w env (.dict kvs)
      else .dict (mkDict (kvs.map (fun kv => (unP w env cf kt kv.1, unP w env cf vt kv.2))))
  | .opt _, .none => .none
  | .opt t, x => unP w env cf t x
  | .cls _ dc fs, .inst c vs =>
      if cf.fmt == .msgspec && !((!dc && privF fs) || customF cf fs) then toB w env (.inst c vs)
      else .dict (unF w env cf fs vs)
  | .td fs, .dict kvs =>
      -- msgspec: a TypedDict class is a `dict` subclass, so the later-registered mapping factory wins over the
      -- TypedDict factory: a bare mapping, keys and values unstructured by run-time class
      if cf.fmt == .msgspec then .dict (mkDict (tdMap (rtTab w env cf fs) kvs))
      else .dict (tdMap (unTab w env cf fs) kvs)
  | _, x => x
termination_by structural t => t
/-- msgspec converter, `unstructure(x)` by run-time class; the declared type is followed only to find the
class definitions of instances -/
def unRT (w : EW) (env : Env) (cf : Conf) : PTy → Obj → Obj
  | .float, .flt k => (match cf.uhook with | some d => .flt (k + d) | Option.none => .flt k)
  | .bytes, .bytes h => .str (env.b64 h)
  | .coll _ t, .coll ck xs =>
      mkColl (match ck with | .set => .set | .fset => .fset | _ => .list) (xs.map (unRT w env cf t))
  | .tupleHet ts, .coll .tuple xs => .coll .list (rtT w env cf ts xs)
  | .map _ kt vt, .dict kvs => .dict (mkDict (kvs.map (fun kv => (unRT w env cf kt kv.1, unRT w env cf vt kv.2))))
  | .opt _, .none => .none
  | .opt t, x => unRT w env cf t x
  | .cls c dc fs, .inst c' vs =>
      if !((!dc && privF fs) || customF cf fs) then toB w env (.inst c' vs)
      else .dict (unF w env cf fs vs)
  | .td fs, .dict kvs => .dict (mkDict (tdMap (rtTab w env cf fs) kvs))
  | _, x => x
termination_by structural t => t
def rtT (w : EW) (env : Env) (cf : Conf) : List PTy → List Obj → List Obj
  | t :: ts, x :: xs => unRT w env cf t x :: rtT w env cf ts xs
  | _, _ => []
termination_by structural ts => ts
def rtTab (w : EW) (env : Env) (cf : Conf) : List (String × Bool × PTy) → List (String × (Obj → Obj))
  | [] => []
  | (n, _, t) :: fs => (n, unRT w env cf t) :: rtTab w env cf fs
termination_by structural fs => fs
def unT (w : EW) (env : Env) (cf : Conf) : List PTy → List Obj → List Obj
  | t :: ts, x :: xs => unP w env cf t x :: unT w env cf ts xs
  | _, _ => []
termination_by structural ts => ts
def unF (w : EW) (env : Env) (cf : Conf) : List (String × PTy) → List (String × Obj) → List (Obj × Obj)
  | (n, t) :: fs, (_, x) :: rest => (.str n, unP w env cf t x) :: unF w env cf fs rest
  | _, _ => []
termination_by structural fs => fs
def unTab (w : EW) (env : Env) (cf : Conf) : List (String × Bool × PTy) → List (String × (Obj → Obj))
  | [] => []
  | (n, _, t) :: fs => (n, unP w env cf t) :: unTab w env cf fs
termination_by structural fs => fs
end

/-! ### the codec (assumed behaviour of the serialisation library) -/

/-- leaves that survive as YAML mapping keys / set elements -/
def yamlKey : Obj → Bool
  | .none | .bool _ | .int _ | .flt _ | .str _ | .bytes _ | .opaque _ => true
  | _ => false

/-- can the library encode this mapping key? -/
def encKey (w : EW) (fmt : Fmt) : Obj → Bool
  | .str _ | .int _ | .flt _ => true
  | .bool _ | .none => fmt != .msgspec
  | .bytes _ | .opaque _ => fmt != .json
  | .enumM e m => (match fmt with
      | .json => w.kind e != .plain
      | .yaml => false
      | .msgspec => w.kind e != .plain || isIntObj (w.value e m))     -- plain Enum with a str value: rejected as a key
  | _ => false

/-- the key as it comes back from `decode (encode {k: …})` -/
def normKey (w : EW) (env : Env) (fmt : Fmt) (k : Obj) : Obj :=
  if fmt == .yaml then k
  else match k with
    | .int i => .str (env.intStr i)
    | .flt f => .str (env.fltStr f)
    | .bool b => .str (if b then "true" else "false")
    | .none => .str "null"
    | .bytes h => .str (env.b64 h)
    | .opaque n => .str (env.iso n)
    | .enumM e m => (match w.value e m with
        | .int i => .str (env.intStr i)
        | v => v)
    | k => k

mutual
/-- `Encodable fmt r`: the library's encoder accepts `r` -/
def enc (w : EW) (fmt : Fmt) : Obj → Bool
  | .none | .bool _ | .int _ | .flt _ | .str _ => true
  | .bytes _ | .opaque _ => fmt != .json
  | .enumM e _ => (match fmt with
      | .json => w.kind e != .plain
      | .yaml => false
      | .msgspec => true)
  | .coll ck xs =>
      (match fmt, ck with
       | _, .list | _, .tuple => true
       | .json, _ => false
       | .yaml, .set => xs.all yamlKey
       | .yaml, _ => false
       | .msgspec, .deque => false
       | .msgspec, _ => true) && encL w fmt xs
  | .dict kvs => encKV w fmt kvs
  | .mdict _ _ => false        -- dict subclasses of the core data path (`Obj.mdict`) do not occur in the Preconf worlds
  | .inst _ fs => fmt == .msgspec && encF w fmt fs
termination_by structural x => x
def encL (w : EW) (fmt : Fmt) : List Obj → Bool
  | [] => true
  | x :: xs => enc w fmt x && encL w fmt xs
termination_by structural x => x
def encKV (w : EW) (fmt : Fmt) : List (Obj × Obj) → Bool
  | [] => true
  | (k, v) :: rest => (if fmt == .yaml then yamlKey k else encKey w fmt k) && enc w fmt v && encKV w fmt rest
termination_by structural x => x
def encF (w : EW) (fmt : Fmt) : List (String × Obj) → Bool
  | [] => true
  | (_, v) :: rest => enc w fmt v && encF w fmt rest
termination_by structural x => x
end

mutual
/-- `normalise fmt r = decode (encode r)` -/
def norm (w : EW) (env : Env) (fmt : Fmt) : Obj → Obj
  | .bytes h => if fmt == .msgspec then .str (env.b64 h) else .bytes h
  | .opaque n => if fmt == .msgspec then .str (env.iso n) else .opaque n
  | .enumM e m => if fmt == .yaml then .enumM e m else w.value e m
  | .coll ck xs =>
      .coll (match fmt, ck with | .yaml, .set => .set | _, _ => .list) (normL w env fmt xs)
  | .dict kvs => .dict (mkDict (normKV w env fmt kvs))
  | .inst _ fs => .dict (mkDict (normF w env fmt fs))
  | x => x
termination_by structural x => x
def normL (w : EW) (env : Env) (fmt : Fmt) : List Obj → List Obj
  | [] => []
  | x :: xs => norm w env fmt x :: normL w env fmt xs
termination_by structural x => x
def normKV (w : EW) (env : Env) (fmt : Fmt) : List (Obj × Obj) → List (Obj × Obj)
  | [] => []
  | (k, v) :: rest => (normKey w env fmt k, norm w env fmt v) :: normKV w env fmt rest
termination_by structural x => x
def normF (w : EW) (env : Env) (fmt : Fmt) : List (String × Obj) → List (Obj × Obj)
  | [] => []
  | (n, v) :: rest => (.str n, norm w env fmt v) :: normF w env fmt rest
termination_by structural x => x
end

/-! ### structuring -/

def mapOpt {α β : Type} (f : α → Option β) : List α → Option (List β)
  | [] => some []
  | x :: xs => match f x, mapOpt f xs with
    | some y, some ys => some (y :: ys)
    | _, _ => Option.none

/-- `int(v)` -/
def toIntE (env : Env) : Obj → Option Int
  | .bool b => some (if b then 1 else 0)
  | .int i => some i
  | .flt k => some (Int.tdiv k 2)
  | .str s => env.parseInt s
  | _ => Option.none

/-- `float(v)` (doubled) -/
def toFltE (env : Env) : Obj → Option Int
  | .bool b => some (if b then 2 else 0)
  | .int i => some (2 * i)
  | .flt k => some k
  | .str s => env.parseFlt s
  | _ => Option.none

def leafKind : Obj → Option LK
  | .none => some .none
  | .bool _ => some .bool
  | .int _ => some .int
  | .flt _ => some .float
  | .str _ => some .str
  | .bytes _ => some .bytes
  | .opaque n => some (if n % 2 == 0 then .datetime else .date)
  | _ => Option.none

/-- classes the union-passthrough strategy of the format is configured with -/
def nativeLK (fmt : Fmt) : LK → Bool
  | .bytes | .datetime | .date => fmt == .yaml
  | _ => true

/-- `Enum(v)`: the member itself or the first member whose value equals `v` -/
def enumOfP (w : EW) (e : Nat) (x : Obj) : Option Obj :=
  match x with
  | .enumM e' m => if e' == e && m < (w.members e).length then some x else Option.none
  | _ => (enumIdx (w.members e) x).map (Obj.enumM e)

def tdMapOpt (tab : List (String × (Obj → Option Obj))) : List (Obj × Obj) → Option (List (Obj × Obj))
  | [] => some []
  | (k, v) :: rest =>
      match (match tdLookup tab k with | some f => f v | Option.none => some v), tdMapOpt tab rest with
      | some v', some r => some ((k, v') :: r)
      | _, _ => Option.none

mutual
def stP (w : EW) (env : Env) (cf : Conf) : PTy → Obj → Option Obj
  | .int, x => (toIntE env x).map .int
  | .float, x => (toFltE env x).map (fun k => .flt (match cf.uhook with | some d => k - d | Option.none => k))
  | .str, x => some (.str (pyStr x))
  | .bool, x => some (.bool x.truthy)
  | .bytes, x =>
      (match cf.fmt, x with
       | .json, .str s => (env.unb85 s).map .bytes
       | .msgspec, .str s => (env.unb64 s).map .bytes
       | .yaml, x => x.toBytes?.map .bytes
       | _, _ => Option.none)
  | .datetime, x =>
      (match cf.fmt, x with
       | .yaml, .opaque n => if n % 2 == 0 then some (.opaque n) else Option.none
       | .yaml, _ => Option.none
       | _, .str s => (match env.unIso s with
           | some n => if n % 2 == 0 then some (.opaque n) else Option.none
           | Option.none => Option.none)
       | _, _ => Option.none)
  | .date, x =>
      (match cf.fmt, x with
       | .yaml, .opaque n => some (.opaque n)          -- `isinstance(v, date)`: a datetime passes too
       | .yaml, _ => Option.none
       | _, .str s => (match env.unIso s with
           | some n => if n % 2 == 1 then some (.opaque n) else Option.none
           | Option.none => Option.none)
       | _, _ => Option.none)
  | .enum e, x => enumOfP w e x
  | .lit vs, x => if Obj.memPy x vs then some x else Option.none
  | .punion ls, x =>
      (match leafKind x with
       | some k => if ls.contains k || (k == .bool && ls.contains .int) then some x else Option.none
       | Option.none => Option.none)
  | .coll k t, o =>
      (match iterItems o with
       | Option.none => Option.none
       | some xs => (mapOpt (stP w env cf t) xs).map (mkColl k.structTo))
  | .tupleHet ts, o =>
      (match iterItems o with
       | Option.none => Option.none
       | some xs => (stT w env cf ts xs).map (.coll .tuple))
  | .map _ kt vt, .dict kvs =>
      (mapOpt (fun (kv : Obj × Obj) => match stP w env cf kt kv.1, stP w env cf vt kv.2 with
          | some a, some b => some (a, b)
          | _, _ => Option.none) kvs).map (fun r => .dict (mkDict r))
  | .opt _, .none => some .none
  | .opt t, x => stP w env cf t x
  | .cls c _ fs, .dict kvs => (stF w env cf fs kvs).map (.inst c)
  | .td fs, .dict kvs =>
      if reqOK fs kvs then (tdMapOpt (stTab w env cf fs) kvs).map .dict else Option.none
  | _, _ => Option.none
termination_by structural t => t
def stT (w : EW) (env : Env) (cf : Conf) : List PTy → List Obj → Option (List Obj)
  | [], [] => some []
  | t :: ts, x :: xs => (match stP w env cf t x, stT w env cf ts xs with
      | some y, some ys => some (y :: ys)
      | _, _ => Option.none)
  | _, _ => Option.none
termination_by structural ts => ts
/-- generated class hook: every field is read by key (no defaults in this component's classes) -/
def stF (w : EW) (env : Env) (cf : Conf) : List (String × PTy) → List (Obj × Obj) → Option (List (String × Obj))
  | [], _ => some []
  | (n, t) :: fs, kvs => (match dlookup kvs (.str n) with
      | Option.none => Option.none
      | some v => (match stP w env cf t v, stF w env cf fs kvs with
          | some y, some r => some ((n, y) :: r)
          | _, _ => Option.none))
termination_by structural fs => fs
def stTab (w : EW) (env : Env) (cf : Conf) : List (String × Bool × PTy) → List (String × (Obj → Option Obj))
  | [] => []
  | (n, _, t) :: fs => (n, stP w env cf t) :: stTab w env cf fs
termination_by structural fs => fs
end

/-- `loads(dumps(x, unstructure_as=T), T)`; `none` = some stage raises -/
def roundTrip (w : EW) (env : Env) (cf : Conf) (t : PTy) (x : Obj) : Option Obj :=
  let r := unP w env cf t x
  if enc w cf.fmt r then stP w env cf t (norm w env cf.fmt r) else Option.none

/-! ### conformance and support -/

def litLeaf : Obj → Bool
  | .bool _ | .int _ | .str _ => true
  | _ => false

mutual
/-- `x` is a value of `T` at every depth -/
def confP (w : EW) : PTy → Obj → Bool
  | .int, .int _ => true
  | .float, .flt _ => true
  | .str, .str _ => true
  | .bytes, .bytes _ => true
  | .bool, .bool _ => true
  | .datetime, .opaque n => n % 2 == 0
  | .date, .opaque n => n % 2 == 1
  | .enum e, .enumM e' m => e == e' && decide (m < (w.members e).length)
  | .lit vs, x => litLeaf x && vs.contains x
  | .punion ls, x => (match leafKind x with | some k => ls.contains k | Option.none => false)
  | .coll k t, .coll ck xs => ck == k.structTo && xs.all (confP w t) && (!ck.isSet || nodupPy xs)
  | .tupleHet ts, .coll .tuple xs => confT w ts xs
  | .map k kt vt, .dict kvs =>
      kvs.all (fun kv => confP w kt kv.1 && confP w vt kv.2) && nodupPy (keysOf kvs)
  | .opt _, .none => true
  | .opt t, x => confP w t x
  | .cls c _ fs, .inst c' vs => c == c' && confF w fs vs
  | .td fs, .dict kvs =>
      nodupPy (keysOf kvs) && reqOK fs kvs && kvs.all (fun kv => confTDkv w fs kv)
  | _, _ => false
termination_by structural t => t
def confT (w : EW) : List PTy → List Obj → Bool
  | [], [] => true
  | t :: ts, x :: xs => confP w t x && confT w ts xs
  | _, _ => false
termination_by structural ts => ts
def confF (w : EW) : List (String × PTy) → List (String × Obj) → Bool
  | [], [] => true
  | (n, t) :: fs, (n', x) :: rest => n == n' && confP w t x && confF w fs rest
  | _, _ => false
termination_by structural fs => fs
/-- a TypedDict entry: its key is a declared key and its value conforms to that key's type -/
def confTDkv (w : EW) : List (String × Bool × PTy) → Obj × Obj → Bool
  | [], _ => false
  | (n, _, t) :: fs, kv => if kv.1 == .str n then confP w t kv.2 else confTDkv w fs kv
termination_by structural fs => fs
end

/-! ### scope: well-formed enum tables, supported types -/

/-- an enum class as Python builds it: values are ints or strs, pairwise distinct, and agree with the mix-in -/
def enumWF (p : EK × List Obj) : Bool :=
  nodupPy p.2 && (match p.1 with
    | .plain => p.2.all (fun v => isStrObj v || isIntObj v)
    | .intMix => p.2.all isIntObj
    | .strMix => p.2.all isStrObj)

def EW.WF (w : EW) : Bool := w.enums.all enumWF

/-- mapping-key types whose values survive the format's treatment of keys.  JSON object keys are strings:
`int`/`float`/`str`/`bytes`/`date`/`datetime` keys are parsed back by the key hook; `bool` keys (finding F18),
int-valued enum keys (F17) and int-valued literal keys (F34) are not, and are outside the supported set for
json and msgspec. -/
def keyTy (w : EW) (fmt : Fmt) : PTy → Bool
  | .int | .float | .str | .bytes | .datetime | .date => true
  | .bool => fmt == .yaml
  | .enum e => fmt == .yaml || (w.members e).all isStrObj
  | .lit vs => fmt == .yaml || vs.all isStrObj
  | _ => false

/-- set-element types: hashable leaves -/
def elemTy : PTy → Bool
  | .int | .float | .str | .bytes | .bool | .datetime | .date | .enum _ | .lit _ => true
  | _ => false

def namesOf {α : Type} (fs : List (String × α)) : List Obj := fs.map (fun p => Obj.str p.1)

/-- a plain `Enum` with a str-valued member: the msgspec encoder refuses such members as mapping keys -/
def plainStrEnum (w : EW) : PTy → Bool
  | .enum e => w.kind e == .plain && !(w.members e).all isIntObj
  | _ => false

/-- the count type of a `Counter` -/
def isIntTy : PTy → Bool
  | .int => true
  | _ => false

mutual
/-- msgspec unstructures TypedDict payloads by run-time class: mappings keyed by a plain str-valued Enum inside
them keep the members as keys (finding F20) -/
def rtSafe (w : EW) : PTy → Bool
  | .coll _ t => rtSafe w t
  | .tupleHet ts => rtSafeT w ts
  | .map _ kt vt => !plainStrEnum w kt && rtSafe w vt
  | .opt t => rtSafe w t
  | .td fs => rtSafeTD w fs
  | _ => true
termination_by structural t => t
def rtSafeT (w : EW) : List PTy → Bool
  | [] => true
  | t :: ts => rtSafe w t && rtSafeT w ts
termination_by structural ts => ts
def rtSafeTD (w : EW) : List (String × Bool × PTy) → Bool
  | [] => true
  | (_, _, t) :: fs => rtSafe w t && rtSafeTD w fs
termination_by structural fs => fs
end

mutual
/-- `FmtSupported cf T`: the types the property quantifies over for this format -/
def sup (w : EW) (cf : Conf) : PTy → Bool
  | .int | .float | .str | .bytes | .bool | .datetime | .date => true
  | .enum e => decide (e < w.enums.length)
  | .lit vs => vs.all litLeaf
  | .punion ls => ls.all (nativeLK cf.fmt)
  | .coll k t =>
      sup w cf t
      && (if isSetK k then elemTy t
          else !(cf.fmt == .msgspec && k == .deque && hk cf t != .custom))     -- finding F19
  | .tupleHet ts => supT w cf ts
  | .map k kt vt =>
      keyTy w cf.fmt kt && sup w cf kt && sup w cf vt
      && ((k != .counter || isIntTy vt)
          -- finding F20 (a Counter's value handler is that of `Any`: never a pass-through)
          && !(cf.fmt == .msgspec && plainStrEnum w kt && (k == .counter || hk cf vt == .custom)))
  | .opt t => sup w cf t && (match t with | .opt _ | .punion _ => false | _ => true)
  | .cls _ _ fs => supF w cf fs && nodupPy (namesOf fs)
  | .td fs => supTD w cf fs && nodupPy (namesOf fs) && (cf.fmt != .msgspec || rtSafeTD w fs)
termination_by structural t => t
def supT (w : EW) (cf : Conf) : List PTy → Bool
  | [] => true
  | t :: ts => sup w cf t && supT w cf ts
termination_by structural ts => ts
def supF (w : EW) (cf : Conf) : List (String × PTy) → Bool
  | [] => true
  | (_, t) :: fs => sup w cf t && supF w cf fs
termination_by structural fs => fs
def supTD (w : EW) (cf : Conf) : List (String × Bool × PTy) → Bool
  | [] => true
  | (_, _, t) :: fs => sup w cf t && supTD w cf fs
termination_by structural fs => fs
end

mutual
/-- ints fit in 64 bits (msgspec's documented integer range) -/
def ints64 : Obj → Bool
  | .int i => decide (-9223372036854775808 ≤ i ∧ i ≤ 18446744073709551615)
  | .coll _ xs => ints64L xs
  | .dict kvs => ints64KV kvs
  | .inst _ fs => ints64F fs
  | _ => true
termination_by structural x => x
def ints64L : List Obj → Bool
  | [] => true
  | x :: xs => ints64 x && ints64L xs
termination_by structural x => x
def ints64KV : List (Obj × Obj) → Bool
  | [] => true
  | (k, v) :: rest => ints64 k && ints64 v && ints64KV rest
termination_by structural x => x
def ints64F : List (String × Obj) → Bool
  | [] => true
  | (_, v) :: rest => ints64 v && ints64F rest
termination_by structural x => x
end

/-- `WithinLimits fmt x`: the documented value limits of the format that the object universe can express at
all (floats are finite and datetimes naive by construction of the universe) -/
def withinLimits (fmt : Fmt) (x : Obj) : Bool := fmt != .msgspec || ints64 x

/-! ### which collections are unstructured to a list (case split of the round-trip proof) -/

/-- the collection is not unstructured to a `set`/`frozenset` (whose rebuilt element list needs the injectivity of
the element encoding: `Preconf/Lemmas2.lean`) -/
def listTarget (cf : Conf) (k : SK) : Bool :=
  match unTarget cf.fmt k with
  | .list => true
  | _ => false

end CattrsModel.Preconf
