import CattrsModel.Preconf.Lemmas
/-!
# C16, second layer: generic container lemmas (any element wire function), injectivity of the element
encoding up to Python `==`, collections whose unstructured form is a `set` / `frozenset`
-/
namespace CattrsModel.Preconf
open CattrsModel

variable {w : EW} {env : Env} {cf : Conf}

/-- `u` (some way of producing the unstructured form: the declared-type handler, `to_builtins`, the run-time
class handler) round-trips the value `x` of type `t` through the codec -/
def Good (w : EW) (env : Env) (cf : Conf) (t : PTy) (u : Obj → Obj) (x : Obj) : Prop :=
  enc w cf.fmt (u x) = true ∧ stP w env cf t (norm w env cf.fmt (u x)) = some x

theorem RT_iff_Good {t : PTy} {x : Obj} : RT w env cf t x ↔ Good w env cf t (unP w env cf t) x := Iff.rfl

theorem good_congr {t : PTy} {u u' : Obj → Obj} {x : Obj} (h : u' x = u x) (g : Good w env cf t u x) :
    Good w env cf t u' x := by
  unfold Good at *; rw [h]; exact g

/-- injectivity up to `==` keeps the mapped elements pairwise distinct -/
theorem nodupPy_map (u : Obj → Obj) : ∀ (xs : List Obj),
    (∀ a ∈ xs, ∀ b ∈ xs, Obj.pyEq (u a) (u b) = true → Obj.pyEq a b = true) →
    nodupPy xs = true → nodupPy (xs.map u) = true
  | [], _, _ => by simp [nodupPy]
  | x :: xs, inj, h => by
      simp only [nodupPy, Bool.and_eq_true, Bool.not_eq_true'] at h
      simp only [List.map_cons, nodupPy, Bool.and_eq_true, Bool.not_eq_true']
      refine ⟨?_, nodupPy_map u xs (fun a ha b hb => inj a (by simp [ha]) b (by simp [hb])) h.2⟩
      cases hm : Obj.memPy (u x) (xs.map u) with
      | false => rfl
      | true =>
        exfalso
        obtain ⟨y, hy, hyx⟩ := memPy_iff.mp hm
        obtain ⟨z, hz, rfl⟩ := List.mem_map.mp hy
        have := inj z (by simp [hz]) x (by simp) hyx
        have : Obj.memPy x xs = true := memPy_iff.mpr ⟨z, hz, this⟩
        rw [this] at h; cases h.1

theorem stP_coll_any (k : SK) (t : PTy) (ck : CK) (xs ys : List Obj) (c : CK)
    (hck : ck = k.structTo) (hnd : (!ck.isSet || nodupPy xs) = true)
    (h : mapOpt (stP w env cf t) ys = some xs) :
    stP w env cf (.coll k t) (.coll c ys) = some (.coll ck xs) := by
  simp [stP, iterItems, h, ← hck, mkColl_conf hnd]

/-- a collection whose unstructured form is a list or tuple of the elements' wire forms -/
theorem good_coll_list {t : PTy} {u : Obj → Obj} (k : SK) (ck : CK) (xs : List Obj) (c : CK)
    (hck : ck = k.structTo) (hnd : (!ck.isSet || nodupPy xs) = true)
    (hc : c = .list ∨ c = .tuple)
    (h : ∀ x ∈ xs, Good w env cf t u x) :
    enc w cf.fmt (.coll c (xs.map u)) = true
      ∧ stP w env cf (.coll k t) (norm w env cf.fmt (.coll c (xs.map u))) = some (.coll ck xs) := by
  have hmap : mapOpt (stP w env cf t) (xs.map (fun x => norm w env cf.fmt (u x))) = some xs :=
    mapOpt_map _ _ _ (fun x hx => (h x hx).2)
  refine ⟨?_, ?_⟩
  · simp only [enc, encL_eq_all, Bool.and_eq_true, List.all_eq_true, List.mem_map]
    refine ⟨by rcases hc with h | h <;> subst h <;> cases cf.fmt <;> rfl, ?_⟩
    rintro y ⟨x, hx, rfl⟩
    exact (h x hx).1
  · have hn : norm w env cf.fmt (.coll c (xs.map u))
        = .coll .list (xs.map (fun x => norm w env cf.fmt (u x))) := by
      rcases hc with h | h <;> subst h <;> cases cf.fmt <;>
        simp [norm, normL_eq_map, List.map_map, Function.comp_def]
    rw [hn]
    exact stP_coll_any k t ck xs _ .list hck hnd hmap

/-- a collection whose unstructured form is a `set` / `frozenset` of the elements' wire forms (pyyaml sets,
msgspec sets and frozensets) -/
theorem good_coll_set {t : PTy} {u : Obj → Obj} (k : SK) (ck : CK) (xs : List Obj) (c : CK)
    (hck : ck = k.structTo) (hnd : (!ck.isSet || nodupPy xs) = true)
    (hc : (cf.fmt = .yaml ∧ c = .set) ∨ (cf.fmt = .msgspec ∧ (c = .set ∨ c = .fset)))
    (hy : cf.fmt = .yaml → ∀ x ∈ xs, yamlKey (u x) = true)
    (h : ∀ x ∈ xs, Good w env cf t u x) :
    enc w cf.fmt (.coll c (xs.map u)) = true
      ∧ stP w env cf (.coll k t) (norm w env cf.fmt (.coll c (xs.map u))) = some (.coll ck xs) := by
  have hmap : mapOpt (stP w env cf t) (xs.map (fun x => norm w env cf.fmt (u x))) = some xs :=
    mapOpt_map _ _ _ (fun x hx => (h x hx).2)
  have hen : ∀ y, y ∈ xs.map u → enc w cf.fmt y = true := by
    intro y hy'
    obtain ⟨x, hx, rfl⟩ := List.mem_map.mp hy'
    exact (h x hx).1
  rcases hc with ⟨hf, rfl⟩ | ⟨hf, hc⟩
  · refine ⟨?_, ?_⟩
    · simp only [enc, hf, encL_eq_all, Bool.and_eq_true, List.all_eq_true]
      rw [hf] at hen
      refine ⟨?_, hen⟩
      intro y hy'
      obtain ⟨x, hx, rfl⟩ := List.mem_map.mp hy'
      exact hy hf x hx
    · have hn : norm w env cf.fmt (.coll .set (xs.map u))
          = .coll .set (xs.map (fun x => norm w env cf.fmt (u x))) := by
        simp [norm, hf, normL_eq_map, List.map_map, Function.comp_def]
      rw [hn]
      exact stP_coll_any k t ck xs _ .set hck hnd hmap
  · refine ⟨?_, ?_⟩
    · simp only [enc, hf, encL_eq_all, Bool.and_eq_true, List.all_eq_true]
      rw [hf] at hen
      exact ⟨by rcases hc with h | h <;> subst h <;> rfl, hen⟩
    · have hn : norm w env cf.fmt (.coll c (xs.map u))
          = .coll .list (xs.map (fun x => norm w env cf.fmt (u x))) := by
        rcases hc with h | h <;> subst h <;> simp [norm, hf, normL_eq_map, List.map_map, Function.comp_def]
      rw [hn]
      exact stP_coll_any k t ck xs _ .list hck hnd hmap

/-! ### the element encoding is injective up to `==` (hashable leaf types) -/

theorem pyEq_str_str {a b : String} : Obj.pyEq (.str a) (.str b) = true ↔ a = b := by
  simp [Obj.pyEq, Obj.num2?]

/-- two members of one well-formed enum with `==` values are the same member -/
theorem value_inj (hw : w.WF = true) {e m1 m2 : Nat} (h1 : m1 < (w.members e).length) (h2 : m2 < (w.members e).length)
    (h : Obj.pyEq (w.value e m1) (w.value e m2) = true) : m1 = m2 := by
  obtain ⟨g1, hnd, _, _, _⟩ := value_spec hw h1
  obtain ⟨g2, _, _, _, _⟩ := value_spec hw h2
  exact nodupPy_get_inj hnd g1 g2 h

theorem conf_enum_invP {e : Nat} {a : Obj} (h : confP w (.enum e) a = true) :
    ∃ m, a = .enumM e m ∧ m < (w.members e).length := by
  cases a <;> simp [confP] at h
  rename_i e' m
  exact ⟨m, by rw [h.1], h.2⟩

theorem unP_inj (hw : w.WF = true) (he : env.OK) {t : PTy} (ht : elemTy t = true) {a b : Obj}
    (ha : confP w t a = true) (hb : confP w t b = true)
    (h : Obj.pyEq (unP w env cf t a) (unP w env cf t b) = true) : Obj.pyEq a b = true := by
  obtain ⟨fmt, uh⟩ := cf
  cases t with
  | int | str | bool => cases a <;> simp [confP] at ha <;> cases b <;> simp [confP] at hb <;> simpa [unP] using h
  | float =>
    cases a <;> simp [confP] at ha; cases b <;> simp [confP] at hb
    cases uh <;> simp [unP, Obj.pyEq, Obj.num2?] at h ⊢ <;> omega
  | bytes =>
    cases a <;> simp [confP] at ha; cases b <;> simp [confP] at hb
    rename_i h1 h2
    cases fmt
    · simp only [unP, pyEq_str_str] at h
      have e1 : env.unb85 (if h1 == "" then "" else env.b85 h1) = some h1 := by
        by_cases hh : h1 = "" <;> simp [hh, he.b85e, he.b85]
      have e2 : env.unb85 (if h2 == "" then "" else env.b85 h2) = some h2 := by
        by_cases hh : h2 = "" <;> simp [hh, he.b85e, he.b85]
      rw [h] at e1; rw [e1] at e2; cases e2; exact Obj.pyEq_refl _
    · simpa [unP] using h
    · simp only [unP, pyEq_str_str] at h
      have e1 := he.b64 h1
      rw [h, he.b64] at e1; cases e1; exact Obj.pyEq_refl _
  | datetime | date =>
    cases a <;> simp [confP] at ha <;> cases b <;> simp [confP] at hb
    all_goals
      rename_i n1 n2
      cases fmt
      · simp only [unP, beq_self_eq_true, if_true, pyEq_str_str] at h
        have e1 := he.iso n1
        rw [h, he.iso] at e1; cases e1; exact Obj.pyEq_refl _
      · simpa [unP] using h
      · simpa [unP] using h
  | enum e =>
    obtain ⟨m1, rfl, hm1⟩ := conf_enum_invP ha
    obtain ⟨m2, rfl, hm2⟩ := conf_enum_invP hb
    have key : Obj.pyEq (w.value e m1) (w.value e m2) = true → Obj.pyEq (.enumM e m1) (.enumM e m2) = true := by
      intro hv; rw [value_inj hw hm1 hm2 hv]; exact Obj.pyEq_refl _
    cases fmt <;> simp only [unP] at h
    · split at h
      · exact key h
      · exact h
    · exact key h
    · exact h
  | lit vs => simpa [unP] using h
  | punion _ | coll _ _ | tupleHet _ | map _ _ _ | opt _ | cls _ _ _ | td _ => simp [elemTy] at ht

/-- pyyaml: the unstructured form of a hashable leaf is a scalar the library keeps in sets / as a key -/
theorem unP_yamlKey (hw : w.WF = true) (hf : cf.fmt = .yaml) {t : PTy} (ht : elemTy t = true) {a : Obj}
    (ha : confP w t a = true) : yamlKey (unP w env cf t a) = true := by
  obtain ⟨fmt, uh⟩ := cf
  simp only at hf; subst hf
  cases t with
  | int | str | bool | bytes | datetime | date => cases a <;> simp [confP] at ha <;> simp [unP, yamlKey]
  | float => cases a <;> simp [confP] at ha; cases uh <;> simp [unP, yamlKey]
  | enum e =>
    obtain ⟨m, rfl, hm⟩ := conf_enum_invP ha
    obtain ⟨_, _, hk, _, _⟩ := value_spec hw hm
    simp only [unP]
    cases hv : w.value e m <;> simp [hv, isStrObj, isIntObj] at hk <;> simp [yamlKey]
  | lit vs =>
    simp only [confP, Bool.and_eq_true] at ha
    cases a <;> simp [litLeaf] at ha <;> simp [unP, yamlKey]
  | punion _ | coll _ _ | tupleHet _ | map _ _ _ | opt _ | cls _ _ _ | td _ => simp [elemTy] at ht

/-- set kinds whose unstructured form is a `set` / `frozenset` -/
theorem rt_coll_set (hw : w.WF = true) (he : env.OK) (k : SK) (t : PTy) (ck : CK) (xs : List Obj)
    (hs : sup w cf (.coll k t) = true) (hc : confP w (.coll k t) (.coll ck xs) = true)
    (hl : listTarget cf k = false)
    (ih : ∀ x ∈ xs, RT w env cf t x) : RT w env cf (.coll k t) (.coll ck xs) := by
  simp only [confP, Bool.and_eq_true, beq_iff_eq, List.all_eq_true] at hc
  obtain ⟨⟨hck, hall⟩, hnd⟩ := hc
  simp only [sup, Bool.and_eq_true] at hs
  have hks : isSetK k = true := by
    cases k <;> simp [listTarget, unTarget] at hl <;> rfl
  have het : elemTy t = true := by simpa [hks] using hs.2
  have hnd' : nodupPy xs = true := by
    have : ck.isSet = true := by rw [hck]; cases k <;> simp [isSetK] at hks <;> rfl
    simpa [this] using hnd
  have hmk : mkColl (unTarget cf.fmt k) (xs.map (unP w env cf t)) = .coll (unTarget cf.fmt k) (xs.map (unP w env cf t)) := by
    apply mkColl_conf
    have := nodupPy_map (unP w env cf t) xs
      (fun a ha b hb h => unP_inj hw he het (hall a ha) (hall b hb) h) hnd'
    simp [this]
  have hu : unP w env cf (.coll k t) (.coll ck xs) = .coll (unTarget cf.fmt k) (xs.map (unP w env cf t)) := by
    simp only [unP, hks, Bool.not_true, Bool.and_false, Bool.false_and, Bool.false_eq_true, if_false]
    exact hmk
  have htgt : (cf.fmt = .yaml ∧ unTarget cf.fmt k = .set)
      ∨ (cf.fmt = .msgspec ∧ (unTarget cf.fmt k = .set ∨ unTarget cf.fmt k = .fset)) := by
    cases hf : cf.fmt <;> cases k <;> simp [listTarget, unTarget, hf] at hl ⊢
  unfold RT
  rw [hu]
  exact good_coll_set k ck xs _ hck hnd htgt (fun hf x hx => unP_yamlKey hw hf het (hall x hx)) ih

end CattrsModel.Preconf
